#!/usr/bin/env python3
"""Regenerates MANIFEST.json from props/registry.py (single source of truth for what is claimed)."""
import json, os, sys
HERE = os.path.dirname(os.path.dirname(os.path.abspath(__file__)))
sys.path.insert(0, os.path.join(HERE, "props"))
import registry

props = [json.loads(l) for l in open(os.path.join(HERE, "properties.jsonl"))]
ids = [p["id"] for p in props]
checks, na = [], []
for pid in ids:
    r = registry.CLAIMED.get(pid)
    if r is None:
        na.append({"property_id": pid, "reason": registry.NOT_APPLICABLE.get(pid, "check not built yet in this work session; design in DESIGN.md section 4")})
        continue
    checks.append({
        "property_id": pid,
        "quick_cmd": "./check %s --tier quick" % pid,
        "thorough_cmd": r.get("thorough_cmd", "./check %s --tier thorough" % pid),
        "evidence_file": "/verif/evidence/%s.json" % pid,
        "replay_cmd_template": "./check %s --replay {path}" % pid,
        "engine": "tlc+verifdrv",
        "level_claimed": {"category": r["level"], "text": r["text"], "design_ref": "DESIGN.md section 4, %s" % pid},
        "level_note": r["note"],
        "technique": r["technique"],
    })
m = {
    "version": 1,
    "setup_cmd": "./setup.sh",
    "hooks": {
        "guard": "verif",
        "enable": "go build -tags verif (harness module /verif/harness with replace => /repo)",
        "baseline_off_cmd": "cd /repo && GOFLAGS=-mod=mod GOPROXY=off go test -vet=off -count=1 -timeout 25m ./...",
        "source_commits": json.load(open(os.path.join(HERE, "props", "hook_commits.json"))),
        "add_only": True,
    },
    "engines": [{"name": "tlc+verifdrv", "path": "/verif/check",
                 "serves_properties": [c["property_id"] for c in checks],
                 "kind_free_text": "explicit TLA+ specifications in /verif/spec checked with TLC; bound to the Go code by scenario replay (verifdrv, built from /repo with -tags verif) and trace validation of the recorded ndjson by TLC"}],
    "checks": checks,
    "not_applicable": na,
    "notes": "Runner contract in DESIGN.md 2.6: exit 0 held / 1 VIOLATION / 2 machinery problem (never a verdict). known_findings.json lists genuine defects recorded rather than repaired.",
}
json.dump(m, open(os.path.join(HERE, "MANIFEST.json"), "w"), indent=1)
print("MANIFEST.json: %d checks, %d not_applicable" % (len(checks), len(na)))
