#!/bin/sh
# usage: keep_mutation.sh <name> <worktree> <property> "<detected by ...>"
N=$1; WT=$2; P=$3; D=$4
mkdir -p /verif/seeded/$N
cp $WT/out/patch.diff /verif/seeded/$N/patch.diff
cp $WT/out/demo_test.go /verif/seeded/$N/demo_test.go
python3 - "$N" "$WT" "$P" "$D" <<'PY'
import json, sys
n, wt, p, d = sys.argv[1:5]
m = json.load(open(wt + "/out/meta.json"))
m["breaks_property"] = p
m["confirmed_by_lead"] = "lib/try_mutation.sh %s %s: demo fails with the change and passes without it; repository suite passes with the change (only TestVerifyHostname fails, as on the unchanged tree: no DNS)" % (wt, p)
m["detection"] = d
json.dump(m, open("/verif/seeded/%s/meta.json" % n, "w"), indent=1)
PY
ls /verif/seeded/$N
