"""Code -> model constants (DESIGN.md 2.2): dumped from /repo's working tree on every run."""
import json

def dump_specs(ctx, ids=None, extra=None):
    """Writes specs.json (read by spec/Parrots.tla) into the scratch dir; returns the dict."""
    evs = ctx.drv("dumpspecs", {"ids": ids or [], "extra": extra or []})
    d = {"specs": evs[0]["specs"], "shuffling": evs[0]["shuffling"]}
    ctx.write_json("specs.json", d)
    return d
