"""Runner side of the Flight family (C07 C33 C34): transport between TLC and the flight harness.

Nothing here decides anything about TLS: scenarios (which message, which byte splices, which tree edit)
come out of TLC (spec/Flight_MC.tla), are executed by harness/cmd/flight, and the logged observations
go back to TLC (spec/Flight_Trace.tla), which judges every row.  This module moves JSON around,
shards TLC runs over the cores, re-runs rejected scenarios in a fresh process and maps reproduced
rejections to findings.
"""
import concurrent.futures as cf
import glob, json, os, random, re

import vlib

PROG = "flight"
ALL_CLASSES = ["truncate", "length", "duplicate", "drop", "oddlist", "swap", "insert", "insertext"]
IMPORT_CLASSES = ALL_CLASSES + ["versions"]   # C07 only: (record version, legacy_version) pairs
ALL_DOC_CLASSES = ["missing", "size", "unknown", "wrongtype", "empty", "range"]
# reasons that say "the machinery did not do what TLC asked", never a judgement about the library
MACHINERY_WHY = {"binding", "layout", "baseline-failed", "no-baseline", "unknown-row", "capture-invalid", "capture-unusable", "baseline-doc-unusable"}

def parrots(ctx):
    """names of every predefined parrot, as the harness knows them"""
    evs = ctx.drv("parrots", {}, prog=PROG)
    return evs[0]["ids"]


def compalgs(ctx):
    """parrot -> number of certificate compression algorithms it advertises"""
    return ctx.drv("parrots", {}, prog=PROG)[0]["compalgs"]


def mkpki(ctx):
    return ctx.drv("mkpki", {}, prog=PROG)[0]["pki"]


def capture(ctx, pki, cases, deadline_ms=4000, name="capture"):
    """two untouched connections per case -> {case: [run0, run1]} (only cases whose both runs succeeded), skipped"""
    evs = ctx.drv("capture", {"pki": pki, "cases": cases, "deadline_ms": deadline_ms, "repeat": 2}, prog=PROG, name=name)
    by = {}
    for e in evs:
        by.setdefault(e["case"], []).append(e)
    good, skipped = {}, {}
    for c in cases:
        runs = sorted(by.get(c["name"], []), key=lambda e: e["run"])
        bad = [r for r in runs if r["client"]["outcome"] != "ok" or r["server"]["outcome"] != "ok" or r["prime_err"]]
        if len(runs) == 2 and not bad:
            good[c["name"]] = runs
        else:
            r = (bad or runs or [{}])[0]
            skipped[c["name"]] = "client: %s %s | server: %s %s | %s" % (
                r.get("client", {}).get("outcome"), r.get("client", {}).get("err") or r.get("client", {}).get("panic"),
                r.get("server", {}).get("outcome"), r.get("server", {}).get("err") or r.get("server", {}).get("panic"), r.get("prime_err"))
    return good, skipped


def flights_of(caps, side, first=None, extra=None):
    """MC input: the messages of `side` of every captured case; first: {case: 1-based first message to mutate};
    extra: {case: {"recs": bool, "post": int}}"""
    out = []
    for name, (a, b) in caps.items():
        o = "c" if side == "s" else "s"
        inner = a.get("s_inner", []) if side == "s" else []
        inner = (inner + [[]] * len(a[side]))[:len(a[side])]
        out.append({"case": name, "side": side, "msgs": a[side], "msgs2": b[side], "other": a[o], "from": (first or {}).get(name, 1), "inner": inner,
                    "focus": int((extra or {}).get(name, {}).get("focus", 0)), "lite": bool((extra or {}).get(name, {}).get("lite")),
                    "recs": bool((extra or {}).get(name, {}).get("recs")), "post": int((extra or {}).get(name, {}).get("post", 0)),
                    "myrecs": a.get(side + "_recs", [])})
    return out


def rec_flights(caps):
    """MC input for C07: the first record a client wrote (a ClientHello record)"""
    return [{"case": name, "side": "rec", "msgs": [a["rec0"]], "msgs2": [a["rec0"]], "other": [], "from": 1, "inner": [[]], "recs": False, "post": 0, "myrecs": [], "focus": 0, "lite": False} for name, (a, b) in caps.items()]


# ---------------------------------------------------------------- TLC: enumeration

def _copy_module(ctx, module, tag, repl):
    src = open(os.path.join(ctx.scratch, module + ".tla")).read()
    src = src.replace("MODULE " + module, "MODULE %s_%s" % (module, tag))
    for a, b in repl.items():
        src = src.replace(a, b)
    open(os.path.join(ctx.scratch, "%s_%s.tla" % (module, tag)), "w").write(src)
    return "%s_%s" % (module, tag)


def enumerate_scenarios(ctx, flights, docs, hellos, classes, inserts, docclasses, tag, nshards=8):
    """runs Flight_MC over the inputs (sharded by case); returns (scenarios, positions)."""
    units = [("f", f) for f in flights] + [("d", d) for d in docs] + [("h", h) for h in hellos]
    if not units:
        return [], []
    nshards = max(1, min(nshards, len(units)))
    shards = [units[i::nshards] for i in range(nshards)]

    def one(k):
        part = shards[k]
        fn = "flight_in_%s_%d.json" % (tag, k)
        ctx.write_json(fn, {"flights": [u for t, u in part if t == "f"], "docs": [u for t, u in part if t == "d"],
                            "hellos": [u for t, u in part if t == "h"],
                            "opt": {"classes": classes, "inserts": inserts, "docclasses": docclasses}})
        mod = _copy_module(ctx, "Flight_MC", "%s_%d" % (tag, k), {"flight_in.json": fn})
        return ctx.tlc(mod, cfg="Flight_MC", timeout=3000)

    with cf.ThreadPoolExecutor(max_workers=nshards) as ex:
        results = list(ex.map(one, range(nshards)))
    scn, pos = [], []
    for res in results:
        if res.violated:
            raise vlib.Machinery("Flight_MC: model-level check failed on the captured flights (not a verdict about the code): %s\n%s"
                                 % (res.violated, res.out[-2500:]))
        scn += res.tagged("SCN")
        pos += res.tagged("POS")
    scn.sort(key=lambda s: json.dumps(s, sort_keys=True))
    for i, s in enumerate(scn):
        s["sid"] = i + 1
    return scn, pos


# ---------------------------------------------------------------- TLC: validation

def validate(ctx, rows, skels, caps, tag, shard_rows=700, common=()):
    """Flight_Trace over rows (sharded); rows in `common` are put into every shard (allocation baselines).
    returns ([(row, why)], stats)"""
    if not rows:
        return [], {"valid": 0, "usable": 0}
    ctx.write_json("flight_skel_%s.json" % tag, skels or {"_": {"len": 0, "pos": [], "val": [], "typ": []}})
    ctx.write_json("flight_caps_%s.json" % tag, caps or {"_": []})
    parts = [rows[i:i + shard_rows] for i in range(0, len(rows), shard_rows)]

    def one(k):
        part = list(common) + parts[k]
        fn = "flight_trace_%s_%d.ndjson" % (tag, k)
        ctx.write_ndjson(fn, part)
        mod = _copy_module(ctx, "Flight_Trace", "%s_%d" % (tag, k),
                           {"flight_trace.ndjson": fn, "flight_skel.json": "flight_skel_%s.json" % tag, "flight_caps.json": "flight_caps_%s.json" % tag})
        res = ctx.tlc(mod, cfg="Flight_Trace", timeout=3000)
        done = res.tagged("DONE")
        if not done or done[0] != len(part):
            raise vlib.Machinery("Flight_Trace did not reach the end of its batch (%r of %d)\n%s" % (done, len(part), res.out[-2000:]))
        rej = []
        for line in res.out.splitlines():
            m = re.match(r'<<"REJ", (\d+), "(.*)">>', line.strip())
            if m:
                idx = int(m.group(1)) - 1
                if idx >= len(common):
                    rej.append((part[idx], m.group(2)))
        st = (res.tagged("STAT") or [{"valid": 0, "usable": 0}])[0]
        return rej, st

    with cf.ThreadPoolExecutor(max_workers=min(8, len(parts))) as ex:
        results = list(ex.map(one, range(len(parts))))
    rej, stats = [], {"valid": 0, "usable": 0}
    for r, st in results:
        rej += r
        for k in stats:
            stats[k] += st.get(k, 0)
    ctx.traces += len(rows)
    return rej, stats


# ---------------------------------------------------------------- connection scenarios (C33 / C34)

def _side_row(s):
    return {"outcome": s["outcome"], "elapsed_ms": s["elapsed_ms"], "alert": s["alert"]}


def conn_rows(scn_by_sid, evs, t):
    rows = []
    for e in evs:
        if e["ev"] != "Run":
            raise vlib.Machinery("flight harness: %r" % (e,))
        if e["prime_err"]:
            raise vlib.Machinery("flight harness: session priming failed for %s: %s" % (e["case"], e["prime_err"]))
        s = scn_by_sid[e["sid"]]
        if s["kind"] == "rec":
            rows.append({"t": "rec", "sid": e["sid"], "case": s["case"], "side": s["side"], "msg": s["msg"], "op": "record:%d:%d" % (s["rtype"], s["rlen"]),
                         "cls": "record", "path": "record[%s]" % s["where"], "st": s["st"], "mkind": "record", "where": s["where"], "raw": s["raw"], "hdr": s["hdr"],
                         "rep_hdr": e["rep_hdr"], "applied": e["applied"], "mut_len": e["mut_len"], "mut_sum": e["mut_sum"],
                         "client": _side_row(e["client"]), "server": _side_row(e["server"]), "deadline_ms": e["deadline_ms"], "alloc_kb": -1, "_ev": e})
            continue
        if s["kind"] == "post":
            rows.append({"t": "post", "sid": e["sid"], "case": s["case"], "side": s["side"], "msg": -1, "op": "+".join(s["seq"]) or "nothing", "cls": "post",
                         "path": "post[%s]" % s["tr"], "st": s["st"], "mkind": "post", "tr": s["tr"], "seq": s["seq"], "ready": e["ready"], "sent": e["sent"],
                         "transport": e["transport"], "calls": [{"call": c["call"], "outcome": c["outcome"], "start_ms": c["start_ms"], "ret_ms": c["ret_ms"]} for c in e["calls"]],
                         "applied": e["ready"], "deadline_ms": e["deadline_ms"], "alloc_kb": -1, "_ev": e})
            continue
        rows.append({"t": t, "sid": e["sid"], "case": s["case"], "side": s["side"], "msg": s["msg"], "op": s["op"], "cls": s["cls"],
                     "path": s["path"], "st": s["st"], "mkind": s["mkind"], "mode": s["mode"], "sp": s["sp"],
                     "skey": "%s#%d%s" % (s["case"], s["msg"], "#i" if s.get("inner") else ""), "ckey": "%s#%s#%d" % (s["case"], s["side"], s["msg"]),
                     "applied": e["applied"], "fit": e["fit"], "orig": e["orig"], "orig_len": e["orig_len"], "orig_sum": e["orig_sum"],
                     "mut_len": e["mut_len"], "mut_sum": e["mut_sum"], "client": _side_row(e["client"]), "server": _side_row(e["server"]),
                     "deadline_ms": e["deadline_ms"], "alloc_kb": e["alloc_kb"], "_ev": e})
    return rows


def strip(rows):
    return [{k: v for k, v in r.items() if not k.startswith("_")} for r in rows]


def row_op(s):
    return ("record:%d:%d" % (s["rtype"], s["rlen"])) if s["kind"] == "rec" else (("+".join(s["seq"]) or "nothing") if s["kind"] == "post" else s["op"])


def row_path(s):
    return ("record[%s]" % s["where"]) if s["kind"] == "rec" else (("post[%s]" % s["tr"]) if s["kind"] == "post" else s["path"])


def harness_scn(s):
    if s["kind"] == "rec":
        return {"sid": s["sid"], "case": s["case"], "side": s["side"], "msg": s["msg"], "mode": "live", "sp": [], "kind": "rec",
                "rec": {"where": s["where"], "index": s["index"], "raw": s["raw"]}}
    if s["kind"] == "post":
        return {"sid": s["sid"], "case": s["case"], "side": s["side"], "msg": -1, "mode": "live", "sp": [], "kind": "post",
                "post": {"seq": s["seq"], "transport": s["tr"]}}
    return {"sid": s["sid"], "case": s["case"], "side": s["side"], "msg": s["msg"], "mode": s["mode"], "sp": s["sp"], "measure": s["measure"],
            "inner": bool(s.get("inner"))}


def replace_caps(caps, side):
    """captured bytes the harness needs for replace mode / TLC needs to recompute them: "case#side#msg" -> bytes"""
    out = {}
    for name, (a, b) in caps.items():
        for i, m in enumerate(a[side]):
            if m and m[0] == 1:
                out["%s#%s#%d" % (name, side, i)] = m
    return out


def run_connection_family(ctx, pid, side, cases, classes=None, inserts=True, deadline_ms=700, batch=24):
    """C33 (side='s') / C34 (side='c'): the pipeline below, over batches of cases (bounded memory); coverage merged."""
    total = None
    rp = getattr(ctx, "replay", None)
    if rp:   # ./check Cxx --replay file: only the recorded (case, message, node, operator), judged by TLC as usual
        cases = [rp["replay"]["case"]]
    for i in range(0, len(cases), batch):
        cov = _connection_batch(ctx, pid, side, cases[i:i + batch], classes, inserts, deadline_ms, "b%d" % (i // batch))
        if total is None:
            total = cov
            continue
        for k, v in cov.items():
            if k in ("rule", "samples", "exhaustive", "deadline_ms"):
                continue
            if isinstance(v, (int, float)):
                total[k] = max(total[k], v) if k == "allocation_max_kb" else total[k] + v
            elif isinstance(v, list):
                total[k] = sorted(set(total[k]) | set(v))
            elif isinstance(v, dict):
                for kk, vv in v.items():
                    total[k][kk] = total[k].get(kk, 0) + vv if isinstance(vv, int) and k.startswith("outcomes_of") else vv
    if not rp:
        if not {"panic", "binding", "late"} <= set(total.get("canaries_rejected", [])):
            raise vlib.Machinery("%s: the binding canaries (panic / digest / late) were never exercised: %r" % (pid, total.get("canaries_rejected")))
        want = set(classes or ALL_CLASSES) | ({"insert"} if inserts else set())
        want |= ({"record"} if any(c.get("recs") for c in cases) else set()) | ({"post"} if any(c.get("post") for c in cases) else set())
        if want - set(total["classes"]) - {"oddlist"}:
            raise vlib.Machinery("%s: mutation class never exercised: %s" % (pid, sorted(want - set(total["classes"]))))
    total["rule"] = total["rule"].replace("of %d case(s)" % len(cases[:batch]), "of %d case(s)" % len(total["cases"]))
    return total


def _connection_batch(ctx, pid, side, cases, classes, inserts, deadline_ms, btag):
    """The whole pipeline for one batch of cases. Returns coverage dict pieces."""
    classes = classes or ALL_CLASSES
    orig_cases = {c["name"]: c for c in cases}
    first = {c["name"]: c.get("from", 1) for c in cases}
    extra = {c["name"]: {"recs": c.get("recs", False), "post": c.get("post", 0), "focus": c.get("focus", 0), "lite": c.get("lite", False)} for c in cases}
    cases = [{k: v for k, v in c.items() if k not in ("from", "recs", "post", "focus", "lite")} for c in cases]
    sut = "client" if side == "s" else "server"
    pki = mkpki(ctx)
    caps, skipped = capture(ctx, pki, cases)
    if not caps:
        raise vlib.Machinery("%s: no case could be captured: %s" % (pid, skipped))
    cases = [c for c in cases if c["name"] in caps]
    scn, pos = enumerate_scenarios(ctx, flights_of(caps, side, first, extra), [], [], classes, inserts, [], pid.lower() + btag)
    rp = getattr(ctx, "replay", None)
    if rp:
        want = rp["replay"]
        scn = [s for s in scn if s["kind"] == "base" or (s["msg"] == want["scenario"]["msg"] and row_path(s) == want["path"] and row_op(s) == want["op"])]
        if len(scn) < 2:
            raise vlib.Machinery("replay: TLC did not enumerate the recorded scenario again")
    by_sid = {s["sid"]: s for s in scn}
    skels = {"%s#%d%s" % (p["case"], p["msg"], "#i" if p.get("inner") else ""): p["skel"] for p in pos}
    unmutable = sorted("%s#%d" % (p["case"], p["msg"]) for p in pos if not p["mutable"] and not p["covered"])
    rcaps = replace_caps(caps, side)
    hcaps = {name: {"c": a["c"], "s": a["s"]} for name, (a, b) in caps.items()} if side == "c" else {}
    req = {"pki": pki, "cases": cases, "caps": hcaps, "deadline_ms": deadline_ms}

    # 1. every scenario, in parallel
    evs = ctx.drv("run", dict(req, scenarios=[harness_scn(s) for s in scn], workers=4 * vlib.NCPU), prog=PROG, name=pid + "-run", timeout=3000)
    rows = conn_rows(by_sid, evs, "conn")
    # 2. the declared-length class once more, one at a time, with allocation accounting (baselines first, 3x)
    base = [s for s in scn if s["kind"] == "base"]
    meas = [s for s in scn if s.get("measure") and s["kind"] != "base"]
    aevs = ctx.drv("run", dict(req, scenarios=[harness_scn(s) for s in base * 3 + meas], serial=True, deadline_ms=250),
                   prog=PROG, name=pid + "-alloc", timeout=3000)
    arows = conn_rows(by_sid, aevs, "alloc")
    abase = [r for r in arows if r["op"] == "none"]
    ameas = [r for r in arows if r["op"] != "none"]

    rej, _ = validate(ctx, strip(rows), skels, rcaps, pid.lower() + "c")
    arej, _ = validate(ctx, strip(ameas), skels, rcaps, pid.lower() + "a", common=strip(abase))
    full = {r["sid"]: r for r in rows}
    afull = {r["sid"]: r for r in ameas}

    def calm(sids, tag):
        """the given scenarios again in a fresh harness process, few at a time, generous deadline; judged by TLC"""
        e2 = ctx.drv("run", dict(req, scenarios=[harness_scn(by_sid[i]) for i in sids], workers=6, deadline_ms=2 * deadline_ms),
                     prog=PROG, name="%s-%s" % (pid, tag), timeout=3000)
        r2 = conn_rows(by_sid, e2, "conn")
        return {r["sid"]: r for r in r2}, validate(ctx, strip(r2), skels, rcaps, pid.lower() + tag)[0]

    # the parallel pass is a screen: rows that were not conclusive under load (message not reached before the
    # deadline, late, hung) are executed again calmly and judged again
    retry = sorted({r["sid"] for r, w in rej if w in ("late", "hang", "baseline-failed") or (w == "binding" and not full[r["sid"]]["applied"])})   # (a post row that was not ready is "baseline-failed")
    rejected = [(full[r["sid"]], w) for r, w in rej if r["sid"] not in retry]
    if retry:
        f2, rej2 = calm(retry, "retry")
        for i in retry:
            full[i] = f2[i]
        rejected += [(f2[r["sid"]], w) for r, w in rej2]
    rows = [full[r["sid"]] for r in rows]
    rejected += [(afull[r["sid"]], why) for r, why in arej]

    # a live second ClientHello whose layout drifted in this connection (random GREASE-ECH payload size ...):
    # the splice did not hit the node TLC meant; inconclusive, dropped and counted
    drift = [(r, w) for r, w in rejected if w == "layout" and r["mkind"] == "client_hello"]
    if drift:
        ctx.note("%s: %d live ClientHello row(s) dropped, layout differed from the capture (e.g. %s)" % (pid, len(drift), drift[0][0]["case"]))
        rejected = [x for x in rejected if x not in drift]
    mach = [(r, w) for r, w in rejected if w in MACHINERY_WHY]
    if mach:
        r, w = mach[0]
        raise vlib.Machinery("%s: %d row(s) rejected for a machinery reason, first: %s sid=%d case=%s msg=%d op=%s path=%s client=%s server=%s"
                             % (pid, len(mach), w, r["sid"], r["case"], r["msg"], r["op"], r["path"], r["_ev"]["client"], r["_ev"]["server"]))

    # reproduce every rejection alone in a fresh harness process and have TLC judge it again; only a
    # reproduced rejection is reported
    findings = []
    if rejected:
        ser = sorted({r["sid"] for r, w in rejected if w == "alloc"})
        par = sorted({r["sid"] for r, w in rejected if w != "alloc"})
        got = set()
        if par:
            got |= {(r["sid"], w) for r, w in calm(par, "repro")[1]}
        if ser:
            e3 = ctx.drv("run", dict(req, scenarios=[harness_scn(s) for s in base * 3 + [by_sid[i] for i in ser]], serial=True, deadline_ms=250),
                         prog=PROG, name="%s-reproa" % pid, timeout=3000)
            r3 = conn_rows(by_sid, e3, "alloc")
            got |= {(r["sid"], w) for r, w in validate(ctx, strip([r for r in r3 if r["op"] != "none"]), skels, rcaps, pid.lower() + "ra",
                                                        common=strip([r for r in r3 if r["op"] == "none"]))[0]}
        for r, w in rejected:
            if (r["sid"], w) in got:
                findings.append((r, w))
            elif w in ("late", "hang"):
                ctx.note("timing rejection not reproduced, dropped: sid=%d %s %s %s at %s (%d ms)" % (r["sid"], w, r["case"], r["op"], r["path"], r["_ev"][sut]["elapsed_ms"]))
            else:
                raise vlib.Machinery("%s: rejection not reproduced (sid=%d %s %s %s at %s): %s" % (pid, r["sid"], w, r["case"], r["op"], r["path"], r["_ev"][sut]))
    for r, w in findings:
        e = r["_ev"][sut]
        if r["t"] == "post":
            bad = [c for c in r["_ev"]["calls"] if c["outcome"] not in ("ok", "error")] or [{"call": "?", "panic_at": ""}]
            sig = "%s:post:%s:%s%s" % (w, r["tr"], bad[0]["call"], (":" + bad[0]["panic_at"]) if bad[0].get("panic_at") else "")
        elif w == "panic":
            sig = "panic:%s:%s" % (e["panic_at"], r["mkind"])
        elif w == "alloc":
            sig = "alloc:%s:%s:%s" % (r["mkind"], r["path"], r["op"])
        else:
            sig = "%s:%s:%s:%s" % (w, r["mkind"], r["cls"], r["st"])
        s = by_sid[r["sid"]]
        ctx.finding(sig, "%s %s on hostile input: case %s, %s message #%d (%s) at state %s, node %s, operator %s: %s %s alloc_kb=%s" % (
            sut, w, r["case"], "server" if side == "s" else "client", r["msg"], r["mkind"], r["st"], r["path"], r["op"],
            e["panic"] or e["err"], e["panic_at"], r["alloc_kb"]),
            {"case": orig_cases[r["case"]], "scenario": harness_scn(s), "op": r["op"], "path": r["path"], "observed": r["_ev"]})

    if rp:
        return {"evaluations": len(rows) + len(arows), "distinct_nontrivial": len(rows), "rule": "replay of one recorded scenario", "cases": [c["name"] for c in cases],
                "skipped_cases": skipped, "samples": [], "exhaustive": False, "deadline_ms": deadline_ms}
    # 4. binding canary: a good row with one logged field corrupted must be rejected
    rejsids = {x["sid"] for x, w in rejected}
    good = [r for r in rows if r["t"] == "conn" and r["op"] != "none" and r["sid"] not in rejsids]
    canaries, expect = [], []
    if good:    # (a batch of record-only / focus-only cases may have none; the run as a whole must have had some)
        g = good[len(good) // 2]
        c1 = dict(strip([g])[0]); c1[sut] = dict(c1[sut], outcome="panic")
        c2 = dict(strip([g])[0]); c2["mut_sum"] = (c2["mut_sum"] + 1) % 1000003
        c3 = dict(strip([g])[0]); c3[sut] = dict(c3[sut], elapsed_ms=c3["deadline_ms"] + 5000)
        canaries, expect = [c1, c2, c3], ["panic", "binding", "late"]
    for kind, how in (("post", "hang"), ("rec", "binding")):
        gk = [r for r in rows if r["t"] == kind and r["sid"] not in rejsids]
        if gk:
            ck = json.loads(json.dumps(strip([gk[len(gk) // 2]])[0]))
            if kind == "post":
                ck["calls"][-1]["outcome"] = "hang"
            else:
                ck["mut_sum"] = (ck["mut_sum"] + 1) % 1000003
            canaries.append(ck); expect.append(how)
    if ameas:
        c4 = dict(strip([ameas[0]])[0]); c4["alloc_kb"] = max(r["alloc_kb"] for r in abase) + 20000
        canaries.append(c4); expect.append("alloc")
    for i, ck in enumerate(canaries):
        ck["sid"] = -1 - i
    if canaries:
        crej = validate(ctx, canaries, skels, rcaps, pid.lower() + "k", common=strip(abase))[0]
        ctx.traces -= len(canaries)
        got = {r["sid"]: w for r, w in crej}
        if [got.get(-1 - i) for i in range(len(canaries))] != expect:
            raise vlib.Machinery("%s: binding canaries not rejected as expected: %r vs %r" % (pid, got, expect))

    # 5. vacuity: every class and every protocol state must have been executed, both outcomes observed
    outc = {}
    for r in rows:
        k = r["_ev"][sut]["outcome"]
        outc[k] = outc.get(k, 0) + 1
    mut_rows = [r for r in rows if r["op"] != "none"]
    if not all(r["applied"] for r in mut_rows):
        raise vlib.Machinery("%s: %d scenario(s) never reached their message" % (pid, sum(1 for r in mut_rows if not r["applied"])))
    seen_cls = {r["cls"] for r in mut_rows}
    if outc.get("error", 0) == 0 or outc.get("ok", 0) == 0:
        raise vlib.Machinery("%s: vacuous: outcomes %r (mutations are not reaching the %s)" % (pid, outc, sut))
    ok_mut = sum(1 for r in mut_rows if r["_ev"][sut]["outcome"] == "ok")
    waited = sum(1 for r in mut_rows if r["_ev"][sut]["elapsed_ms"] >= r["deadline_ms"] - 50)
    states = sorted({r["st"] for r in rows})
    kinds = sorted({r["mkind"] for r in mut_rows})
    tuples = {(r["st"], r["mkind"], r["path"], r["op"]) for r in mut_rows}
    conn_mut = [r for r in mut_rows if r["t"] == "conn"]
    sample = [{k: r[k] for k in ("case", "st", "mkind", "path", "op", "sp")} | {"outcome": r["_ev"][sut]["outcome"], "err": r["_ev"][sut]["err"]}
              for r in conn_mut[:: max(1, len(conn_mut) // 4)][:4]]
    sample += [{k: r[k] for k in ("case", "st", "path", "op")} | {"calls": [(c["call"], c["outcome"], c["ret_ms"]) for c in r["calls"]]}
               for r in [x for x in mut_rows if x["t"] == "post"][:: max(1, len(mut_rows))][:1]]
    for s in sample:
        if "sp" in s:
            s["sp"] = [dict(x, ins=x["ins"][:12]) for x in s["sp"]]
    return {"evaluations": len(rows) + len(arows), "distinct_nontrivial": len(tuples),
            "rule": "scenarios = TLC-enumerated (receiver state x message kind x grammar node x mutation operator) over the captured flights of %d case(s); "
                    "distinct = different (state, kind, node path, operator) tuples executed on the real %s" % (len(cases), sut),
            "cases": [c["name"] for c in cases], "skipped_cases": skipped, "messages_not_mutated_unstable_layout": unmutable, "protocol_states": states, "message_kinds": kinds,
            "classes": sorted(seen_cls), "canaries_rejected": sorted(set(expect)), "raw_record_scenarios": sum(1 for r in mut_rows if r["t"] == "rec"),
            "post_handshake_scenarios": sum(1 for r in mut_rows if r["t"] == "post"), "outcomes_of_" + sut: outc, "mutated_but_ok": ok_mut, "waited_until_deadline": waited,
            "allocation_runs": len(ameas), "allocation_baseline_kb": {r["case"]: r["alloc_kb"] for r in abase},
            "allocation_max_kb": max([r["alloc_kb"] for r in ameas] or [0]), "deadline_ms": deadline_ms,
            "samples": sample, "exhaustive": False}


# ---------------------------------------------------------------- documents (C07)

def tag_json(v):
    """a JSON value as the tagged tree TLC works on (object key order kept)"""
    if isinstance(v, dict):
        return {"t": "obj", "k": list(v.keys()), "v": [tag_json(x) for x in v.values()], "s": "", "n": 0}
    if isinstance(v, list):
        return {"t": "arr", "k": [], "v": [tag_json(x) for x in v], "s": "", "n": 0}
    if isinstance(v, bool):
        return {"t": "true" if v else "false", "k": [], "v": [], "s": "", "n": 0}
    if isinstance(v, int):
        return {"t": "num", "k": [], "v": [], "s": "", "n": v}
    if isinstance(v, str):
        return {"t": "str", "k": [], "v": [], "s": v, "n": 0}
    if v is None:
        return {"t": "null", "k": [], "v": [], "s": "", "n": 0}
    raise vlib.Machinery("unsupported JSON value %r" % (v,))


def repo_json_docs():
    docs = []
    for p in sorted(glob.glob(os.path.join(vlib.REPO, "testdata", "ClientHello-JSON-*.json"))):
        docs.append({"name": os.path.basename(p), "kind": "json", "doc": tag_json(json.load(open(p)))})
    return docs


def run_import_family(ctx, pid, cases, map_cases, json_docs):
    """The C07 pipeline: raw ClientHello records, JSON specs, tlsfingerprint.io maps."""
    pki = mkpki(ctx)
    caps, skipped = capture(ctx, pki, cases)
    if not caps:
        raise vlib.Machinery("%s: no ClientHello could be captured: %s" % (pid, skipped))
    recs = {name: a["rec0"] for name, (a, b) in caps.items()}
    hellos = [{"name": "map:" + n, "hs": recs[n][5:]} for n in map_cases if n in recs]
    scn, pos = enumerate_scenarios(ctx, rec_flights(caps), json_docs, hellos, IMPORT_CLASSES, False, ALL_DOC_CLASSES, pid.lower(), nshards=12)
    rp = getattr(ctx, "replay", None)
    if rp:
        want = rp["replay"]
        scn = [s for s in scn if s["op"] == "none" or (s["case"] == want["case"] and s["path"] == want["path"] and s["op"] == want["op"])]
    by_sid = {s["sid"]: s for s in scn}
    raw = [s for s in scn if s["kind"] in ("mut", "base")]
    doc = [s for s in scn if s["kind"] == "doc"]
    docs = {s["case"]: s["doc"] for s in doc if s["op"] == "none"}
    tcaps = {"%s#rec#0" % n: r for n, r in recs.items()}

    def run_raw(sel, name):
        evs = ctx.drv("import-raw", {"records": recs, "scenarios": [{"sid": s["sid"], "case": s["case"], "sp": s["sp"], "extw": s["extw"]} for s in sel]},
                      prog=PROG, name=name, timeout=3000)
        rows = []
        for e in evs:
            s = by_sid[e["sid"]]
            rows.append({"t": "raw", "sid": e["sid"], "case": s["case"], "op": s["op"], "cls": s["cls"], "path": s["path"], "sp": s["sp"], "mode": "replace",
                         "ckey": "%s#rec#0" % s["case"], "applied": e["applied"], "fit": e["fit"], "orig_len": e["orig_len"], "orig_sum": e["orig_sum"],
                         "mut_len": e["mut_len"], "mut_sum": e["mut_sum"],
                         "calls": [{"api": c["api"], "outcome": c["outcome"], "apply": c["apply"], "marshal": c["marshal"],
                                    "variants": [{"sni_len": v["sni_len"], "apply": v["apply"], "marshal": v["marshal"]} for v in c["variants"]]} for c in e["calls"]],
                         "extw": {"outcome": e["extw"]["outcome"]}, "_ev": e})
        return rows

    def run_doc(sel, name):
        evs = ctx.drv("import-doc", {"docs": docs, "scenarios": [{"sid": s["sid"], "case": s["case"], "dkind": s["dkind"], "path": s["path"], "act": s["act"],
                                                                  "node": s["node"], "key": s["key"]} for s in sel]}, prog=PROG, name=name, timeout=3000)
        rows = []
        for e in evs:
            if e["ev"] != "Doc" or not e["fit"]:
                raise vlib.Machinery("flight harness: document edit not applied: %r" % (e,))
            s = by_sid[e["sid"]]
            rows.append({"t": "doc", "sid": e["sid"], "case": s["case"], "dkind": s["dkind"], "op": s["op"], "cls": s["cls"], "path": s["path"],
                         "calls": [{"api": c["api"], "outcome": c["outcome"], "apply": c["apply"], "marshal": c["marshal"]} for c in e["calls"]], "_ev": e})
        return rows

    rrows, drows = run_raw(raw, pid + "-raw"), run_doc(doc, pid + "-doc")
    rej, stats = validate(ctx, strip(rrows + drows), {}, tcaps, pid.lower() + "v")
    full = {r["sid"]: r for r in rrows + drows}
    rejected = [(full[r["sid"]], w) for r, w in rej]
    mach = [(r, w) for r, w in rejected if w in MACHINERY_WHY]
    if mach:
        r, w = mach[0]
        raise vlib.Machinery("%s: %d row(s) rejected for a machinery reason, first: %s sid=%d case=%s op=%s path=%s calls=%s"
                             % (pid, len(mach), w, r["sid"], r["case"], r["op"], r["path"], r["_ev"]["calls"]))
    # reproduce in a fresh harness process, judge again
    if rejected:
        sids = {r["sid"] for r, w in rejected}
        again = run_raw([s for s in raw if s["sid"] in sids], pid + "-raw-repro") + run_doc([s for s in doc if s["sid"] in sids], pid + "-doc-repro")
        got = {(r["sid"], w) for r, w in validate(ctx, strip(again), {}, tcaps, pid.lower() + "r")[0]}
        for r, w in rejected:
            if (r["sid"], w) not in got:
                raise vlib.Machinery("%s: rejection not reproduced: sid=%d %s %s %s %s" % (pid, r["sid"], w, r["case"], r["op"], r["path"]))
    for r, w in rejected:
        e = r["_ev"]
        bad = [c for c in e["calls"] if c["outcome"] == "panic"] or [c for c in e["calls"] if "panic" in (c["apply"], c["marshal"])]
        vbad = [(c, v) for c in e["calls"] for v in c.get("variants", []) if "panic" in (v["apply"], v["marshal"])]
        if w == "extension-write-panic":
            sig = "extension-write-panic:%s:%s" % (e["extw"]["type"], e["extw"]["panic_at"])
            text = e["extw"]["panic"]
        elif not bad and vbad:
            c, v = vbad[0]
            sig = "%s:%s:%s" % (w, c["api"].split("[")[0], v["detail"].split(" ")[-1])
            text = "%s, re-applied with a ServerName of %d bytes (captured with %d): %s" % (c["api"], v["sni_len"], len("example.com"), v["detail"])
        elif bad:
            c = bad[0]
            sig = "%s:%s:%s" % (w, c["api"].split("[")[0], c["panic_at"] or c["detail"].split(" ")[-1])
            text = "%s: %s %s" % (c["api"], c["panic"] or c["detail"], c["panic_at"])
        else:
            sig, text = "%s:%s" % (w, r["case"]), ""
        s = by_sid[r["sid"]]
        replay = {"case": r["case"], "op": r["op"], "path": r["path"], "observed": {k: v for k, v in e.items() if k != "calls"},
                  "calls": [c for c in e["calls"] if c["outcome"] == "panic" or "panic" in (c["apply"], c["marshal"])
                            or any("panic" in (v["apply"], v["marshal"]) for v in c.get("variants", []))]}
        if r["t"] == "raw":
            replay.update({"record": recs[r["case"]], "sp": s["sp"], "extw": s["extw"]})
        else:
            replay.update({"input_text": e["text"], "edit": {k: s[k] for k in ("path", "act", "node", "key")}})
        ctx.finding(sig, "%s on %s input (%s, node %s, operator %s): %s" % (w, r["t"], r["case"], r["path"], r["op"], text), replay)

    if rp:
        return {"evaluations": len(rrows) + len(drows), "distinct_nontrivial": len(rrows) + len(drows), "rule": "replay of one recorded input", "samples": [], "exhaustive": False}
    # binding canaries
    rejset = {r["sid"] for r, w in rejected}
    good = [r for r in rrows if r["op"] != "none" and r["sid"] not in rejset]
    usable = [r for r in good if any(c["outcome"] == "ok" and c["apply"] == "ok" and c["marshal"] == "ok" for c in r["calls"])]
    if not good or not usable:
        raise vlib.Machinery("%s: no accepted row to build the binding canaries from (good=%d usable=%d)" % (pid, len(good), len(usable)))
    g = strip([good[len(good) // 2]])[0]
    c1 = json.loads(json.dumps(g)); c1["calls"][0]["outcome"] = "panic"
    c2 = json.loads(json.dumps(g)); c2["mut_sum"] = (c2["mut_sum"] + 1) % 1000003
    c3s = []
    for u in usable[:: max(1, len(usable) // 40)]:
        c3 = json.loads(json.dumps(strip([u])[0]))
        for c in c3["calls"]:
            if c["outcome"] == "ok":
                c["apply"] = "panic"
        c3s.append(c3)
    c5s = []
    for u in usable[:: max(1, len(usable) // 40)]:
        c5 = json.loads(json.dumps(strip([u])[0]))
        hit = [c for c in c5["calls"] if c["outcome"] == "ok" and c["variants"]]
        if hit:
            hit[0]["variants"][-1]["marshal"] = "panic"
            c5s.append(c5)
    if not c5s:
        raise vlib.Machinery("%s: no ServerName variant was ever executed" % pid)
    v5 = [w for r, w in validate(ctx, c5s, {}, tcaps, pid.lower() + "k5")[0]]
    ctx.traces -= len(c5s)
    if "valid-hello-unusable" not in v5:
        raise vlib.Machinery("%s: ServerName-variant canary not rejected: %r" % (pid, v5))
    crej, cst = validate(ctx, [c1, c2] + c3s, {}, tcaps, pid.lower() + "k")
    ctx.traces -= 2 + len(c3s)
    whys = [w for r, w in crej]
    if whys[:2] != ["importer-panic", "binding"] and sorted(whys[:2]) != ["binding", "importer-panic"]:
        raise vlib.Machinery("%s: binding canary not rejected as expected: %r" % (pid, whys))
    if "valid-hello-unusable" not in whys:
        raise vlib.Machinery("%s: no still-valid mutated hello among the canaries: the valid => usable clause is vacuous (%r, %r)" % (pid, whys, cst))
    dgood = [r for r in drows if r["sid"] not in rejset]
    d1 = json.loads(json.dumps(strip([dgood[0]])[0])); d1["calls"][0]["outcome"] = "panic"
    if [w for r, w in validate(ctx, [d1], {}, tcaps, pid.lower() + "kd")[0]] != ["importer-panic"]:
        raise vlib.Machinery("%s: document canary not rejected" % pid)
    ctx.traces -= 1

    # vacuity
    rcls, dcls = {r["cls"] for r in rrows}, {r["cls"] for r in drows}
    if set(IMPORT_CLASSES) - {"insert"} - rcls or set(ALL_DOC_CLASSES) - dcls:
        raise vlib.Machinery("%s: class never exercised: %s %s" % (pid, sorted(set(IMPORT_CLASSES) - {"insert"} - rcls), sorted(set(ALL_DOC_CLASSES) - dcls)))
    nbase = sum(1 for r in rrows if r["op"] == "none")
    if stats["valid"] <= nbase or stats["usable"] <= nbase:
        raise vlib.Machinery("%s: vacuous: only %d valid / %d usable hellos among %d inputs (baselines %d)" % (pid, stats["valid"], stats["usable"], len(rrows), nbase))
    outc = {}
    for r in rrows + drows:
        for c in r["calls"]:
            outc[c["outcome"]] = outc.get(c["outcome"], 0) + 1
    extw = {}
    for r in rrows:
        extw[r["extw"]["outcome"]] = extw.get(r["extw"]["outcome"], 0) + 1
    if not outc.get("ok") or not outc.get("error"):
        raise vlib.Machinery("%s: vacuous: importer outcomes %r" % (pid, outc))
    apis = sorted({c["api"].split("[")[0] for r in rrows + drows for c in r["calls"]})
    sample = [{"case": r["case"], "path": r["path"], "op": r["op"], "calls": {c["api"]: c["outcome"] for c in r["calls"][:3]}} for r in (rrows[:: max(1, len(rrows) // 2)][:2] + drows[:: max(1, len(drows) // 2)][:2])]
    return {"evaluations": sum(len(r["calls"]) for r in rrows + drows) + sum(1 for r in rrows if r["extw"]["outcome"] != "skipped"),
            "distinct_nontrivial": len({(r["case"], json.dumps(r["path"]), r["op"]) for r in rrows + drows}),
            "rule": "inputs = TLC-enumerated (grammar node x mutation operator) over %d captured ClientHello records, (tree position x operator) over %d JSON specs and %d tlsfingerprint.io maps; "
                    "evaluations = importer calls + extension Write calls made on them; distinct = different (input, node, operator)" % (len(recs), len(json_docs), len(hellos)),
            "raw_inputs": len(rrows), "doc_inputs": len(drows), "hellos": sorted(recs), "skipped_cases": skipped, "json_docs": [d["name"] for d in json_docs], "maps": [h["name"] for h in hellos],
            "apis": apis, "importer_outcomes": outc, "servername_variant_builds": sum(len(c["variants"]) for r in rrows + drows for c in r["_ev"]["calls"]), "extension_write_outcomes": extw, "mutated_inputs_still_valid_clienthello": stats["valid"] - nbase,
            "valid_and_applied_and_marshaled": stats["usable"], "classes": sorted(rcls | dcls), "samples": sample, "exhaustive": False}
