#!/bin/sh
# usage: try_mutation.sh <worktree-with-change-applied> <property ids to run...>
# Confirms a seeded change (demo fails with it / passes without it / repo suite still passes), then runs the given checks
# against the changed worktree. Prints one summary line per step.
WT=$1; shift
export GOFLAGS=-mod=mod GOPROXY=off
cd $WT || exit 2
TAGS=""; grep -q "go:build verif" demo_test.go 2>/dev/null && TAGS="-tags verif"
[ -f demo_test.go ] || cp out/demo_test.go demo_test.go
RUN=$(grep -o 'func Test[A-Za-z0-9_]*' demo_test.go | sed 's/func //' | paste -sd'|')
go test $TAGS -vet=off -count=1 -timeout 10m -run "^($RUN)\$" . >/tmp/mut.with.$$.log 2>&1; W=$?
git diff > /tmp/mut.change.$$.diff; git apply -R /tmp/mut.change.$$.diff; go test $TAGS -vet=off -count=1 -timeout 10m -run "^($RUN)\$" . >/tmp/mut.without.$$.log 2>&1; WO=$?; git apply /tmp/mut.change.$$.diff; rm -f /tmp/mut.change.$$.diff
echo "demo with change: exit $W (want 1); without: exit $WO (want 0)"
mv demo_test.go /tmp/demo_test.go.keep.$$
go build ./ && go build -tags verif ./ || echo "BUILD FAILS"
go test -vet=off -count=1 -timeout 20m . 2>&1 | grep -E "^--- FAIL" | tr '\n' ' '; echo "<- suite failures with change (only TestVerifyHostname allowed)"
mv /tmp/demo_test.go.keep.$$ demo_test.go
mv demo_test.go out/demo_test.go.applied 2>/dev/null
cd /verif
for p in "$@"; do
  VERIF_REPO=$WT timeout 1800 ./check $p > /tmp/mut.check.$p.log 2>&1; echo "check $p on mutated tree: exit $? :: $(grep -E 'signature=' /tmp/mut.check.$p.log | head -2 | cut -c1-200 | tr '\n' ' ') $(grep -E 'MACHINERY' /tmp/mut.check.$p.log | head -1 | cut -c1-200)"
done
