"""Common machinery for the uTLS TLA+ verification runner (see DESIGN.md 2.6).

A property module (props/Cxx.py) defines run(ctx) and uses:
  ctx.build(race=False)            -> path of the verifdrv binary built from /repo with -tags verif
  ctx.drv(cmd, in_obj, race=False) -> runs `verifdrv cmd in.json out.ndjson`, returns list of events
  ctx.tlc(module, cfg=None, ...)   -> runs TLC in the scratch copy of spec/, returns TLCResult
  ctx.write_json / ctx.write_ndjson(name, obj) -> file inside the scratch dir (TLC cwd)
  ctx.violation(what, replay_obj, sig) / ctx.known(...) are handled by ctx.report(findings)
  ctx.evidence(...)                -> evidence/<id>.json
Exit codes: 0 held, 1 violation (VIOLATION line), 2 machinery problem (never a verdict).
"""
import atexit, hashlib, json, os, re, shutil, subprocess, sys, tempfile, time

VERIF = os.path.dirname(os.path.dirname(os.path.abspath(__file__)))
REPO = os.environ.get("VERIF_REPO", "/repo")
GO_CANDIDATES = [
    "/root/go/pkg/mod/golang.org/toolchain@v0.0.1-go1.24.0.linux-amd64/bin/go",
]
TLA_CP = "/opt/veriftools/tla/tla2tools.jar:/opt/veriftools/tla/CommunityModules-deps.jar"
NCPU = os.cpu_count() or 4


class Machinery(Exception):
    """Something that is not a judgement about the code (exit 2)."""


def go_bin():
    for g in GO_CANDIDATES:
        if os.path.exists(g):
            return g, "local"
    return "go", "auto"


def go_env():
    env = dict(os.environ)
    g, tc = go_bin()
    env["GOFLAGS"] = "-mod=mod"
    env["GOPROXY"] = "off"
    env["GOTOOLCHAIN"] = tc
    env.pop("GOSUMDB", None)
    if tc == "local":
        env["PATH"] = os.path.dirname(g) + ":" + env.get("PATH", "")
    return env


class TLCResult:
    def __init__(self):
        self.out = ""
        self.generated = 0
        self.distinct = 0
        self.depth = 0
        self.printed = []       # list of (tag, value) from PrintT(<<"TAG", json-string-or-value>>)
        self.violated = []      # invariant / property names reported violated
        self.error = None       # other TLC error text (parse error, runtime error)
        self.rc = 0
        self.wall = 0.0
        self.coverage = {}      # action name -> count (when -coverage used)

    def tagged(self, tag):
        return [v for (t, v) in self.printed if t == tag]


_PRINT_RE = re.compile(r'^<<"([A-Z_0-9]+)", (.*)>>$')


def _tla_value(s):
    """Parse the subset of TLC value syntax we print: JSON strings, ints, sets/tuples of those."""
    s = s.strip()
    if s.startswith('"'):
        try:
            inner = json.loads(s)
        except Exception:
            return s
        try:
            return json.loads(inner)
        except Exception:
            return inner
    t = s.replace("<<", "[").replace(">>", "]").replace("{", "[").replace("}", "]")
    t = t.replace("TRUE", "true").replace("FALSE", "false")
    try:
        return json.loads(t)
    except Exception:
        return s


_TAG_RE = re.compile(r'^<<\s*"([A-Z_0-9]+)",\s*', re.M)


def _scan_printed(out):
    """PrintT(<<"TAG", value>>) output, also when TLC's pretty printer wraps it over several lines."""
    found = []
    dec = json.JSONDecoder()
    for m in _TAG_RE.finditer(out):
        i = m.end()
        if i < len(out) and out[i] == '"':
            try:
                inner, j = dec.raw_decode(out, i)
            except Exception:
                continue
            if not re.match(r'\s*>>', out[j:j + 20]):
                continue
            try:
                found.append((m.group(1), json.loads(inner)))
            except Exception:
                found.append((m.group(1), inner))
        else:
            depth, j = 1, i
            while j < len(out) - 1 and depth > 0:
                two = out[j:j + 2]
                if two == "<<":
                    depth += 1; j += 2
                elif two == ">>":
                    depth -= 1; j += 2
                else:
                    j += 1
            if depth == 0:
                found.append((m.group(1), _tla_value(" ".join(out[i:j - 2].split()))))
    return found


def parse_tlc(out, res):
    res.out = out
    res.printed = _scan_printed(out)
    for line in out.splitlines():
        m = re.match(r"^(\d+) states generated, (\d+) distinct states found", line)
        if m:
            res.generated, res.distinct = int(m.group(1)), int(m.group(2))
        m = re.match(r"^The depth of the complete state graph search is (\d+)", line)
        if m:
            res.depth = int(m.group(1))
        m = re.match(r"^Error: Invariant (\S+) is violated", line)
        if m:
            res.violated.append(m.group(1))
        m = re.match(r"^Error: Action property (\S+) is violated", line)
        if m:
            res.violated.append(m.group(1))
        if "Temporal properties were violated" in line:
            res.violated.append("TEMPORAL")
        if line.startswith("Error: Deadlock reached"):
            res.violated.append("DEADLOCK")
        m = re.match(r"^<(\w+) line \d+, col \d+ to line \d+, col \d+ of module (\w+)>: (\d+):(\d+)", line)
        if m:
            res.coverage[m.group(1)] = res.coverage.get(m.group(1), 0) + int(m.group(4))
    if res.rc != 0 and not res.violated:
        errs = [l for l in out.splitlines() if l.startswith("Error:") or "Exception" in l or "***" in l]
        res.error = "\n".join(errs[:8]) or ("tlc rc=%d" % res.rc)
    return res


class Ctx:
    def __init__(self, pid, tier, seed):
        self.pid, self.tier, self.seed = pid, tier, seed
        self.t0 = time.time()
        self.scratch = tempfile.mkdtemp(prefix="verif-%s-" % pid)
        atexit.register(lambda: shutil.rmtree(self.scratch, ignore_errors=True))
        # TLC works in a scratch copy of spec/ (it litters states/, *_TTrace_*).
        for f in os.listdir(os.path.join(VERIF, "spec")):
            p = os.path.join(VERIF, "spec", f)
            if os.path.isfile(p):
                shutil.copy(p, self.scratch)
        self.states = 0
        self.transitions = 0
        self.traces = 0
        self.tlc_runs = []
        self.findings = []      # dicts: {sig, what, replay}
        self.notes = []
        self.quick = tier == "quick"
        self._built = {}

    # ---------------------------------------------------------------- build
    def build(self, race=False, prog="verifdrv"):
        """Builds harness/cmd/<prog> against REPO's working tree with -tags verif (Go's build cache
        is content-addressed, so an edited /repo is always rebuilt). With VERIF_REPO set to another
        checkout, a private copy of the harness module is used and the binary lands in the scratch dir."""
        key = (prog, race)
        if key in self._built:
            return self._built[key]
        hdir = os.path.join(VERIF, "harness")
        outdir = os.path.join(VERIF, "build")
        if REPO != "/repo":
            priv = os.path.join(self.scratch, "harness")
            if not os.path.exists(priv):
                shutil.copytree(hdir, priv)
                gm = open(os.path.join(priv, "go.mod")).read().replace("=> /repo", "=> " + REPO)
                open(os.path.join(priv, "go.mod"), "w").write(gm)
            hdir, outdir = priv, os.path.join(self.scratch, "bin")
        os.makedirs(outdir, exist_ok=True)
        out = os.path.join(outdir, prog + ("-race" if race else ""))
        # go.sum of the harness = go.sum of the checkout; replaced atomically and only when it differs, so that checks
        # started side by side never see a half-written file
        src_sum = open(os.path.join(REPO, "go.sum"), "rb").read()
        dst_sum = os.path.join(hdir, "go.sum")
        if not os.path.exists(dst_sum) or open(dst_sum, "rb").read() != src_sum:
            tmp_sum = dst_sum + ".%d.tmp" % os.getpid()
            with open(tmp_sum, "wb") as fh:
                fh.write(src_sum)
            os.replace(tmp_sum, dst_sum)
        g, _ = go_bin()
        cmd = [g, "build", "-tags", "verif"] + (["-race"] if race else []) + ["-o", out, "./cmd/" + prog]
        env = go_env()
        if race:
            env["CGO_ENABLED"] = "1"
        p = subprocess.run(cmd, cwd=hdir, env=env, capture_output=True, text=True)
        if p.returncode != 0:
            raise Machinery("harness build failed:\n" + p.stdout + p.stderr)
        self._built[key] = out
        return out

    def drv(self, cmd, in_obj, race=False, timeout=1200, env_extra=None, name=None, prog="verifdrv"):
        """Run one harness command; returns the list of ndjson events it wrote."""
        binp = self.build(race, prog)
        name = name or cmd
        fin = os.path.join(self.scratch, name + ".in.json")
        fout = os.path.join(self.scratch, name + ".out.ndjson")
        with open(fin, "w") as f:
            json.dump(in_obj, f)
        env = go_env()
        env["VERIF_SEED"] = str(self.seed)
        if env_extra:
            env.update(env_extra)
        try:
            p = subprocess.run([binp, cmd, fin, fout], env=env, capture_output=True, text=True, timeout=timeout)
        except subprocess.TimeoutExpired:
            raise Machinery("%s %s timed out after %ds" % (prog, cmd, timeout))
        self.last_drv_stderr = p.stderr
        if p.returncode != 0:
            raise Machinery("%s %s failed rc=%d:\n%s" % (prog, cmd, p.returncode, (p.stdout + p.stderr)[-4000:]))
        evs = []
        with open(fout) as f:
            for line in f:
                line = line.strip()
                if line:
                    evs.append(json.loads(line))
        return evs

    # ---------------------------------------------------------------- files for TLC
    def write_json(self, name, obj):
        with open(os.path.join(self.scratch, name), "w") as f:
            json.dump(obj, f, separators=(",", ":"))

    def write_ndjson(self, name, rows):
        with open(os.path.join(self.scratch, name), "w") as f:
            for r in rows:
                f.write(json.dumps(r, separators=(",", ":")) + "\n")

    # ---------------------------------------------------------------- TLC
    def tlc(self, module, cfg=None, workers=None, timeout=900, simulate=None, depth=None,
            coverage=False, dfs=False, extra=None, count=True, heap=None, consts=None):
        """Run TLC on spec/<module>.tla with spec/<cfg>.cfg (default <module>.cfg) in the scratch dir."""
        cfg = cfg or module
        meta = tempfile.mkdtemp(prefix="meta-", dir=self.scratch)
        # few GC / JIT threads per JVM: sharded validation runs many TLC processes side by side
        jopts = ["-XX:+UseParallelGC", "-XX:ParallelGCThreads=2", "-XX:TieredStopAtLevel=1", "-Xss512m"]
        if heap:
            jopts.append("-Xmx" + heap)
        if dfs:
            jopts.append("-Dtlc2.tool.queue.IStateQueue=StateDeque")
        cmd = ["java"] + jopts + ["-cp", TLA_CP, "tlc2.TLC", "-metadir", meta,
                                  "-workers", str(workers or 1), "-config", cfg + ".cfg"]
        if simulate:
            cmd += ["-simulate", simulate]
        if depth:
            cmd += ["-depth", str(depth)]
        if coverage:
            cmd += ["-coverage", "1"]
        if simulate or extra and "-seed" in extra:
            pass
        if extra:
            cmd += extra
        cmd += [module + ".tla"]
        res = TLCResult()
        t0 = time.time()
        try:
            p = subprocess.run(cmd, cwd=self.scratch, capture_output=True, text=True, timeout=timeout)
        except subprocess.TimeoutExpired:
            raise Machinery("TLC %s/%s timed out after %ds" % (module, cfg, timeout))
        res.rc = p.returncode
        res.wall = time.time() - t0
        parse_tlc(p.stdout + p.stderr, res)
        shutil.rmtree(meta, ignore_errors=True)
        if count:
            self.states += res.distinct
            self.transitions += res.generated
        self.tlc_runs.append({"module": module, "cfg": cfg, "distinct": res.distinct,
                              "generated": res.generated, "wall_s": round(res.wall, 2)})
        if res.error:
            raise Machinery("TLC %s/%s error:\n%s\n---\n%s" % (module, cfg, res.error, res.out[-3000:]))
        return res

    # ---------------------------------------------------------------- findings
    def finding(self, sig, what, replay=None):
        """sig: short stable signature string; what: human text; replay: JSON-able object."""
        self.findings.append({"sig": sig, "what": what, "replay": replay})

    def note(self, s):
        self.notes.append(s)
        print("note:", s)

    def finish(self, level, coverage, assumptions):
        """Classify findings against known_findings.json, write evidence, return exit code."""
        kf_path = os.path.join(VERIF, "known_findings.json")
        known = []
        if os.path.exists(kf_path):
            for e in json.load(open(kf_path)).get("findings", []):
                if e.get("property") == self.pid and e.get("status", "open") == "open":
                    known.append(e)
        viol = 0
        seen_known = {}
        uniq = {}
        for f in self.findings:
            uniq.setdefault(f["sig"], dict(f, count=0))["count"] += 1
        for f in uniq.values():
            k = next((e for e in known if re.fullmatch(e["signature"], f["sig"])), None)
            if k is not None:
                seen_known.setdefault(k["signature"], (k, []))[1].append(f)
                continue
            viol += 1
            rdir = os.path.join(VERIF, "replays", self.pid)
            os.makedirs(rdir, exist_ok=True)
            h = hashlib.sha1(json.dumps([f["sig"], f["replay"]], sort_keys=True, default=str).encode()).hexdigest()[:10]
            rp = os.path.join(rdir, "%s.json" % h)
            with open(rp, "w") as fh:
                json.dump({"property": self.pid, "signature": f["sig"], "what": f["what"],
                           "tier": self.tier, "seed": self.seed, "cases": f["count"], "replay": f["replay"]}, fh, indent=1, default=str)
            # an extension check (X10, X12) run as part of a property's thorough tier reports under that property's id
            print("VIOLATION property=%s replay=%s" % (os.environ.get("VERIF_REPORT_AS", self.pid), rp))
            print("  signature=%s cases=%d :: %s" % (f["sig"], f["count"], f["what"]))
        for sig, (k, fs) in seen_known.items():
            print("KNOWN-FINDING: property=%s %s (%d case(s) this run, signature %s)" % (self.pid, k["what"], sum(x["count"] for x in fs), sig))
        cov = dict(coverage)
        cov.setdefault("states", self.states)
        cov.setdefault("transitions", self.transitions)
        cov.setdefault("traces_validated_against_impl", self.traces)
        cov["tlc_runs"] = self.tlc_runs
        cov["known_findings_seen"] = {s: sum(x["count"] for x in fs) for s, (k, fs) in seen_known.items()}
        if self.notes:
            cov["notes"] = self.notes
        ev = {"property_id": self.pid, "tier": self.tier, "seed": self.seed, "level": level,
              "coverage": cov, "assumptions": assumptions,
              "wall_s": round(time.time() - self.t0, 2), "violations": viol}
        # a run against another checkout (VERIF_REPO: seeded changes) must not overwrite the evidence of /repo
        evdir = os.path.join(VERIF, "evidence") if REPO == "/repo" else os.path.join(self.scratch, "evidence-other-checkout")
        os.makedirs(evdir, exist_ok=True)
        with open(os.path.join(evdir, self.pid + ".json"), "w") as fh:
            json.dump(ev, fh, indent=1, default=str)
        print("%s %s: states=%d transitions=%d traces=%d violations=%d known=%d wall=%.1fs" % (
            self.pid, self.tier, cov["states"], cov["transitions"], cov["traces_validated_against_impl"],
            viol, len(seen_known), time.time() - self.t0))
        return 1 if viol else 0


def chunks(seq, n):
    for i in range(0, len(seq), n):
        yield seq[i:i + n]
