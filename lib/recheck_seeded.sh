#!/bin/sh
# usage: recheck_seeded.sh <seeded-dir-name> <check ids...>
# Applies /verif/seeded/<name>/patch.diff to a scratch worktree of /repo's HEAD, runs the given checks against it
# (VERIF_REPO), prints one line per check and removes the worktree. Exit 0 iff every listed check exited 1 (= detected).
N=$1; shift
WT=/tmp/rs-$N
git -C /repo worktree remove --force $WT >/dev/null 2>&1
git -C /repo worktree add -q --detach $WT HEAD || exit 2
if ! git -C $WT apply /verif/seeded/$N/patch.diff; then echo "$N: patch does not apply to HEAD"; git -C /repo worktree remove --force $WT; exit 2; fi
(cd $WT && GOFLAGS=-mod=mod GOPROXY=off go build -tags verif ./ ) || { echo "$N: does not build"; git -C /repo worktree remove --force $WT; exit 2; }
rc=0
cd /verif
for p in "$@"; do
  VERIF_REPO=$WT VERIF_OUT=/tmp/rs-out-$N timeout 3000 ./check $p > /tmp/rs-$N.$p.log 2>&1; e=$?
  echo "$N: check $p exit $e :: $(grep -E 'signature=' /tmp/rs-$N.$p.log | head -2 | cut -c1-160 | tr '\n' ' ') $(grep -E 'MACHINERY' /tmp/rs-$N.$p.log | head -1 | cut -c1-200)"
  [ $e = 1 ] || rc=1
done
git -C /repo worktree remove --force $WT
exit $rc
