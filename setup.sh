#!/bin/sh
# Builds every harness binary once (warms the Go build cache). Offline; everything comes from /repo, /verif and the module cache.
set -e
cd "$(dirname "$0")"
python3 - <<'PY'
import os, sys
sys.path.insert(0, "lib")
import vlib
c = vlib.Ctx("setup", "quick", 1)
for prog in sorted(os.listdir("harness/cmd")):
    print(c.build(False, prog))
    print(c.build(True, prog))
PY
