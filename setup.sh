#!/bin/sh
# Builds every harness binary once (warms the Go build cache). Offline; everything comes from /repo, /verif and the module cache.
set -e
cd "$(dirname "$0")"
python3 - <<'PY'
import os, sys
sys.path.insert(0, "lib")
import vlib
c = vlib.Ctx("setup", "quick", 1)
bad = []
for prog in sorted(os.listdir("harness/cmd")):
    for race in (False, True):
        try:
            print(c.build(race, prog))
        except vlib.Machinery as e:
            print("setup: build of %s (race=%s) failed: %s" % (prog, race, str(e)[:2000]))
            bad.append(prog)
sys.exit(1 if "verifdrv" in bad else 0)
PY
