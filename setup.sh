#!/bin/sh
# Builds the harness once (warms the Go build cache). Offline; everything comes from /repo, /verif and the module cache.
set -e
cd "$(dirname "$0")"
python3 - <<'PY'
import sys
sys.path.insert(0, "lib")
import vlib
c = vlib.Ctx("setup", "quick", 1)
print(c.build(False))
print(c.build(True))
PY
