---------------------------- MODULE Varint_MC ----------------------------
(***************************************************************************)
(* Bounded exhaustive checks of module Varint and scenario emission (C24).  *)
(*   cfg Varint_MC     : one state per 64-bit value of the boundary lattice  *)
(*                       Lat^8 (every byte position takes every value of     *)
(*                       Lat); invariant ValueLaws; emits the boundary-shaped *)
(*                       values as CASE lines for the real code.             *)
(*   cfg Varint_MC_tp  : one state per transport-parameter entry list over   *)
(*                       a lattice of ids x value lengths; invariant TPLaws; *)
(*                       emits parameter descriptor lists as TPL lines.      *)
(***************************************************************************)
EXTENDS Varint, Json, SequencesExt
CONSTANTS Lat,        \* byte values used in every position of x
          MaxList     \* longest entry list explored exhaustively
VARIABLES x, es
vars == <<x, es>>

\* ------------------------------------------------------------------ values
InitVal == x \in [1..8 -> Lat] /\ es = <<>>
Below62(v) == v[1] < 64

ValueLaws ==
  /\ IsB8(x)
  /\ MinLen(x) = MinLenByThreshold(x)                        \* "least width that fits" = the RFC thresholds
  /\ Refused(x) <=> ~Below62(x)                              \* refusal exactly for x >= 2^62
  /\ \A w \in Widths : (Fits(x, w) <=> (MinLen(x) # 0 /\ MinLen(x) <= w))       \* minimality
  /\ ~Refused(x) =>
       LET e == VarintEnc(x)
           d == VarintDec(e) IN
       /\ IsBytes(e)
       /\ Len(e) = MinLen(x)                                 \* Len(Enc(x)) = MinLen(x)
       /\ d.ok /\ d.n = Len(e) /\ d.val = x                  \* Dec(Enc(x)) = x, consuming all of it
       /\ VarintDec(e \o <<255, 0>>) = d                     \* decoding is prefix-determined
       /\ \A k \in 0..(Len(e) - 1) : ~VarintDec(SubSeq(e, 1, k)).ok          \* a truncated varint never decodes
  /\ \A w \in Widths :
       IF AWLRefused(x, w) THEN Refused(x) \/ ~Fits(x, w)
       ELSE LET e == AppendWithLen(x, w)
                d == VarintDec(e) IN
            IsBytes(e) /\ Len(e) = w /\ d.ok /\ d.n = w /\ d.val = x
  /\ \A w \in {0, 3, 5, 6, 7, 9, 16} : AWLRefused(x, w)
  \* any 8 bytes decode to something that re-encodes to the same value (Enc after Dec is the canonical form)
  /\ LET d == VarintDec(x) IN d.ok /\ Below62(d.val) /\ MinLen(d.val) <= d.n /\ VarintDec(VarintEnc(d.val)).val = d.val

\* boundary-shaped values handed to the real code: zeros, one lattice byte, a run of 0x00 or 0xff, one lattice byte
Shaped(v) == \E p \in 1..7 : /\ \A j \in 1..(p-1) : v[j] = 0
                             /\ \E c \in {0, 255} : \A j \in (p+1)..7 : v[j] = c
EmitVal == Shaped(x) => PrintT(<<"CASE", ToJson(x)>>)

\* ------------------------------------------------------------------ transport parameter lists
B(n) == NatB8(n)
IdLat == {Zero8, B(1), B(63), B(64), B(16383), B(16384), B(1073741823), <<0,0,0,0,64,0,0,0>>, Max8,
          B(27), B(58), B(10930), <<63,255,255,255,255,255,255,248>>}
LenLat == {0, 1, 63, 64}
Fill(n) == [i \in 1..n |-> (i * 37) % 256]
\* lists of three entries use a thinner lattice (24 entries instead of 52)
IdLat3 == {Zero8, B(63), B(64), B(16384), <<0,0,0,0,64,0,0,0>>, Max8, B(27), <<63,255,255,255,255,255,255,248>>}
EntryLat == IF MaxList <= 2 THEN {[bad |-> FALSE, id |-> i, val |-> Fill(n)] : i \in IdLat, n \in LenLat}
            ELSE {[bad |-> FALSE, id |-> i, val |-> Fill(n)] : i \in IdLat3, n \in {0, 1, 64}}
InitTP == x = Zero8 /\ es \in UNION {[1..n -> EntryLat] : n \in 0..MaxList}

TPLaws ==
  LET b == TPList(es) IN
  /\ IsBytes(b)
  /\ TPParse(b, 1) = es                                           \* lossless
  /\ TPListOK(b, 1)                                               \* and TLSWire's grammar accepts it
  /\ es # <<>> => LET p == TPParse(SubSeq(b, 1, Len(b) - 1), 1) IN p[Len(p)].bad      \* a cut list is detected
  /\ \A k \in DOMAIN es : IsGreaseTPID(es[k].id) <=> es[k].id \in {B(27), B(58), <<63,255,255,255,255,255,255,248>>}

\* descriptors for the real code (uniform record shape; see Varint!TPMatches)
D0 == [kind |-> "", v |-> Zero8, id |-> Zero8, val |-> <<>>, length |-> 0, chosen |-> <<0,0,0,0>>, avail |-> <<>>, legacy |-> FALSE]
ValLat == {Zero8, B(1), B(63), B(64), B(16383), B(16384), B(1073741823), <<0,0,0,0,64,0,0,0>>, Max8,
           <<64,0,0,0,0,0,0,0>>, <<255,255,255,255,255,255,255,255>>}
GreaseIds == {Zero8, B(27), B(58), B(26), B(28), <<63,255,255,255,255,255,255,248>>,   \* 27+31k just below 2^62
              <<64,0,0,0,0,0,0,23>>,                                                  \* 27+31k just above 2^62: a GREASE id that does not fit
              <<64,0,0,0,0,0,0,4>>}
             \cup {B(i) : i \in 0..31}                                               \* every residue below and just above 27
FakeIds == {Zero8, B(1), B(63), B(64), B(16384), B(10930), Max8, <<64,0,0,0,0,0,0,0>>, <<255,255,255,255,255,255,255,255>>}
V1 == <<0,0,0,1>>
V2 == <<107,51,67,207>>
DescAll ==
       {[D0 EXCEPT !.kind = k, !.v = v] : k \in VarintKinds, v \in ValLat}
  \cup {[D0 EXCEPT !.kind = k] : k \in EmptyKinds}
  \cup {[D0 EXCEPT !.kind = k, !.val = Fill(n)] : k \in BytesKinds, n \in {0, 1, 8, 20, 64}}
  \cup {[D0 EXCEPT !.kind = "VersionInformation", !.chosen = c, !.avail = a, !.legacy = lg] :
            c \in {V1, V2}, a \in {<<>>, <<V1>>, <<V2, GreaseVersion, V1>>, <<GreaseVersion, GreaseVersion>>}, lg \in BOOLEAN}
  \cup {[D0 EXCEPT !.kind = "GREASE", !.id = i, !.length = n, !.val = v] : i \in GreaseIds, n \in {0, 1, 16, 64}, v \in {<<>>, Fill(3)}}
  \cup {[D0 EXCEPT !.kind = "Fake", !.id = i, !.val = Fill(n)] : i \in FakeIds, n \in {0, 5, 64}}
DescCore ==
       {[D0 EXCEPT !.kind = k, !.v = v] : k \in {"MaxIdleTimeout", "InitialMaxData"}, v \in {B(63), B(16384), <<64,0,0,0,0,0,0,0>>}}
  \cup {[D0 EXCEPT !.kind = "GREASEQUICBit"], [D0 EXCEPT !.kind = "PaddingTransportParameter", !.val = Fill(64)]}
  \cup {[D0 EXCEPT !.kind = "VersionInformation", !.chosen = V1, !.avail = <<V2, GreaseVersion>>]}
  \cup {[D0 EXCEPT !.kind = "GREASE", !.id = i, !.length = 16] : i \in {Zero8, B(58), <<64,0,0,0,0,0,0,23>>}}
  \cup {[D0 EXCEPT !.kind = "Fake", !.id = i, !.val = Fill(5)] : i \in {Zero8, B(64), Max8, <<64,0,0,0,0,0,0,0>>}}
\* printed once (when TLC evaluates the initial-state predicate of the tp configuration)
EmitTP == /\ PrintT(<<"DESCS", ToJson(SetToSeq(DescAll))>>)
          /\ PrintT(<<"PAIRS", ToJson(SetToSeq({<<a, b>> : a \in DescCore, b \in DescCore}))>>)
\* model-level sanity of the descriptor semantics: a refused descriptor is one of the three documented refusals
DescLaws == \A d \in DescAll : TPRefused(d) =>
                \/ d.kind \in VarintKinds /\ ~Below62(d.v)
                \/ d.kind = "Fake" /\ (d.id = Zero8 \/ ~Below62(d.id))
                \/ d.kind = "GREASE" /\ ~Below62(d.id)
InitTPEmit == InitTP /\ (es = <<>> => EmitTP /\ Assert(DescLaws, "DescLaws"))

Next == UNCHANGED vars
=============================================================================
