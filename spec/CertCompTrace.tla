--------------------------- MODULE CertCompTrace ---------------------------
(* Trace validation for C21: each recorded handshake (scenario + observed outcome) must be an outcome that
   CertComp!Allowed permits for that scenario.  The scenario's abstract coordinates are computed here from the
   concrete encoder settings the harness was given. *)
EXTENDS Integers, Sequences, FiniteSets, TLC, Json
Trace == ndJsonDeserialize("certcomp_trace.ndjson")
VARIABLES l, cur, rej
Init == l = 1 /\ cur = [sc |-> -1] /\ rej = {}
Range(s) == {s[i] : i \in DOMAIN s}
\* advertised on the wire: listed in the extension, and the extension not removed from the hello before it was sent
Adv(s) == s.alg \in Range(s.advertised) /\ ~s.drop_ext
Valid(s) == s.corrupt \notin {"truncate", "flip"} /\ s.alg \in {1, 2, 3}
SameLen(s) == s.decl_delta = 0 /\ ~s.decl_huge
Same(s) == s.corrupt # "other"
\* "trailing": a complete valid stream followed by foreign bytes - the property does not say whether the message counts as a
\* valid encoding, so both accepting the certificate and aborting are allowed for that handshake (what must not happen is that
\* it influences another handshake: the sequential pass judges every following handshake by its own scenario)
\* no compress_certificate extension on the wire at all: a CompressedCertificate is then simply an unexpected message
\* (RFC 8879 section 4), any abort is right; accepting it is not
Allowed(s) == IF s.drop_ext THEN {"abort", "bad_certificate"}
              ELSE IF s.corrupt = "trailing" /\ Adv(s) THEN {"accept", "abort", "bad_certificate"}
              ELSE IF ~Adv(s) THEN {"bad_certificate"}
              ELSE IF Valid(s) /\ ~SameLen(s) THEN {"bad_certificate"}
              ELSE IF ~Valid(s) \/ ~Same(s) THEN {"abort", "bad_certificate"}
              ELSE {"accept"}
Observed(r) == IF r.cok THEN "accept" ELSE IF r.serr = "remote error: tls: bad certificate" THEN "bad_certificate" ELSE "abort"
Step == /\ l <= Len(Trace) /\ l' = l + 1
        /\ LET ev == Trace[l] IN
           IF ev.ev = "Scn" THEN cur' = ev /\ rej' = rej
           ELSE /\ cur' = cur
                \* a CompressedCertificate message above the general handshake message limit (64 KiB) is outside the
                \* statement ("up to the handshake size limit"): the client may refuse it
                /\ rej' = rej \cup (IF Observed(ev) \notin Allowed(cur) /\ ~(ev.sent_len > 65540 /\ Observed(ev) = "abort")
                                    THEN {<<cur.sc, Observed(ev)>>} ELSE {})
                              \* an accepted certificate is the one the server compressed, and data flows
                              \cup (IF ev.cok /\ (ev.peer_certs # ev.chain_sent \/ ~ev.echo \/ ~ev.sok) THEN {<<cur.sc, "accepted-but-broken">>} ELSE {})
                              \cup (IF ev.cpanic # "" THEN {<<cur.sc, "panic">>} ELSE {})
                              \cup (IF ~ev.cok /\ ev.corigin = "transport" THEN {<<cur.sc, "hang">>} ELSE {})
Next == Step
Report == (l = Len(Trace) + 1) => PrintT(<<"DONE", l - 1>>) /\ \A r \in rej : PrintT(<<"REJ", ToJson(r)>>)
=============================================================================
