---------------------------- MODULE TLSWire ----------------------------
(***************************************************************************)
(* Bytes <-> structure for the TLS ClientHello as utls emits it.           *)
(* This module is the single normative statement of                        *)
(*   - what a syntactically valid ClientHello is (ValidClientHello),       *)
(*   - what each extension descriptor (dumped from the Go structs by       *)
(*     reflection) must look like on the wire (EncodeExt / ExtMatches),    *)
(*   - GREASE, key-share sizes, the BoringSSL padding policy.              *)
(* Go code never re-implements any of this: it ships bytes, TLC judges.    *)
(* Bytes are sequences of naturals 0..255; indices are 1-based.            *)
(***************************************************************************)
EXTENDS Integers, Sequences, FiniteSets, TLC

\* ---------- integers <-> bytes ----------
U8(x)  == <<x % 256>>
U16(x) == <<(x \div 256) % 256, x % 256>>
U24(x) == <<(x \div 65536) % 256, (x \div 256) % 256, x % 256>>
RdU16(s, i) == s[i]*256 + s[i+1]
RdU24(s, i) == s[i]*65536 + s[i+1]*256 + s[i+2]
Vec8(b)  == U8(Len(b)) \o b
Vec16(b) == U16(Len(b)) \o b
Range(s) == {s[i] : i \in DOMAIN s}

RECURSIVE Flat(_)
Flat(ss) == IF ss = <<>> THEN <<>> ELSE Head(ss) \o Flat(Tail(ss))
U16List(xs) == Flat([i \in DOMAIN xs |-> U16(xs[i])])
U16Seq(b) == [k \in 1..(Len(b) \div 2) |-> RdU16(b, 2*k-1)]
AllZero(b) == \A i \in DOMAIN b : b[i] = 0
IsBytes(b) == \A i \in DOMAIN b : b[i] \in 0..255

\* ---------- GREASE ----------
IsGrease16(v) == (v \div 256) = (v % 256) /\ (v % 16) = 10
GREASE == 2570   \* 0x0a0a, the placeholder used in specs

\* ---------- extension header ----------
Ext(t, body) == U16(t) \o Vec16(body)

\* ---------- parse extension list s[i..end] ----------
RECURSIVE ParseExts(_,_,_)
ParseExts(s, i, end) ==
  IF i = end + 1 THEN <<>>
  ELSE IF i + 3 > end THEN << [bad |-> TRUE, type |-> 0, body |-> <<>>] >>
  ELSE LET t == RdU16(s,i)
           n == RdU16(s,i+2)
       IN IF i+3+n > end THEN << [bad |-> TRUE, type |-> t, body |-> <<>>] >>
          ELSE << [bad |-> FALSE, type |-> t, body |-> SubSeq(s, i+4, i+3+n)] >> \o ParseExts(s, i+4+n, end)

BadHello == [ok |-> FALSE, vers |-> 0, random |-> <<>>, sid |-> <<>>, suites |-> <<>>, comp |-> <<>>, exts |-> <<>>, hasExts |-> FALSE]

\* Total (never indexes out of range): ok = FALSE for anything that is not a framed ClientHello.
ParseHello(s) ==
  IF Len(s) < 4 + 2 + 32 + 1 \/ ~IsBytes(s) THEN BadHello ELSE
  LET hlen == RdU24(s, 2)
      sidLen == s[39] IN
  IF s[1] # 1 \/ hlen + 4 # Len(s) \/ 39 + sidLen + 2 > Len(s) \/ sidLen > 32 THEN BadHello ELSE
  LET csOff == 40 + sidLen
      csLen == RdU16(s, csOff) IN
  IF csOff + 1 + csLen + 1 > Len(s) \/ csLen % 2 # 0 \/ csLen < 2 THEN BadHello ELSE
  LET cmOff == csOff + 2 + csLen
      cmLen == s[cmOff] IN
  IF cmOff + cmLen > Len(s) \/ cmLen < 1 THEN BadHello ELSE
  LET exOff == cmOff + 1 + cmLen
      base == [ ok |-> TRUE, vers |-> RdU16(s,5), random |-> SubSeq(s, 7, 38),
                sid |-> SubSeq(s, 40, 39 + sidLen),
                suites |-> [k \in 1..(csLen \div 2) |-> RdU16(s, csOff + 2*k)],
                comp |-> SubSeq(s, cmOff+1, cmOff+cmLen), exts |-> <<>>, hasExts |-> FALSE ] IN
  IF exOff = Len(s) + 1 THEN base ELSE
  IF exOff + 1 > Len(s) THEN BadHello ELSE
  LET exLen == RdU16(s, exOff) IN
  IF exOff + 1 + exLen # Len(s) THEN BadHello
  ELSE [base EXCEPT !.exts = ParseExts(s, exOff+2, Len(s)), !.hasExts = TRUE]

ExtTypes(h) == [i \in DOMAIN h.exts |-> h.exts[i].type]
ExtIdx(h, t) == {i \in DOMAIN h.exts : h.exts[i].type = t}
HasExtT(h, t) == ExtIdx(h, t) # {}
ExtBody(h, t) == h.exts[CHOOSE i \in ExtIdx(h, t) : TRUE].body

\* ---------- generic vector grammar helpers ----------
\* b is exactly one u16-length-prefixed vector
IsVec16(b) == Len(b) >= 2 /\ RdU16(b,1) = Len(b) - 2
IsVec8(b)  == Len(b) >= 1 /\ b[1] = Len(b) - 1

\* sequence of u8-length-prefixed non-empty items filling b[i..]
RECURSIVE ProtoNamesOK(_,_)
ProtoNamesOK(b, i) == IF i = Len(b) + 1 THEN TRUE
                      ELSE IF i > Len(b) THEN FALSE
                      ELSE b[i] >= 1 /\ i + b[i] <= Len(b) /\ ProtoNamesOK(b, i + 1 + b[i])
RECURSIVE ParseProtoNames(_,_)
ParseProtoNames(b, i) == IF i > Len(b) THEN <<>> ELSE <<SubSeq(b, i+1, i+b[i])>> \o ParseProtoNames(b, i+1+b[i])

\* key_share entries filling b[i..]: group u16, key_exchange<1..2^16-1>
RECURSIVE SharesOK(_,_)
SharesOK(b, i) == IF i = Len(b) + 1 THEN TRUE
                  ELSE IF i + 3 > Len(b) THEN FALSE
                  ELSE RdU16(b,i+2) >= 1 /\ i + 3 + RdU16(b,i+2) <= Len(b) /\ SharesOK(b, i + 4 + RdU16(b,i+2))
RECURSIVE ParseShares(_,_)
ParseShares(b, i) == IF i > Len(b) THEN <<>> ELSE
    LET g == RdU16(b,i) n == RdU16(b,i+2) IN <<[group |-> g, n |-> n, data |-> SubSeq(b, i+4, i+3+n)]>> \o ParseShares(b, i+4+n)

\* PSK identities filling b[i..end]: identity<1..2^16-1>, u32 age
RECURSIVE PskIdsOK(_,_,_)
PskIdsOK(b, i, end) == IF i = end + 1 THEN TRUE
                       ELSE IF i + 1 > end THEN FALSE
                       ELSE RdU16(b,i) >= 1 /\ i + 1 + RdU16(b,i) + 4 <= end /\ PskIdsOK(b, i + 2 + RdU16(b,i) + 4, end)
RECURSIVE PskIdCount(_,_,_)
PskIdCount(b, i, end) == IF i > end THEN 0 ELSE 1 + PskIdCount(b, i + 2 + RdU16(b,i) + 4, end)
RECURSIVE BindersOK(_,_,_)
BindersOK(b, i, end) == IF i = end + 1 THEN TRUE
                        ELSE IF i > end THEN FALSE
                        ELSE b[i] >= 32 /\ i + b[i] <= end /\ BindersOK(b, i + 1 + b[i], end)
RECURSIVE BinderCount(_,_,_)
BinderCount(b, i, end) == IF i > end THEN 0 ELSE 1 + BinderCount(b, i + 1 + b[i], end)

\* QUIC varint at b[i]: length 1,2,4,8 from the two top bits
VarintLenAt(b, i) == CASE b[i] \div 64 = 0 -> 1 [] b[i] \div 64 = 1 -> 2 [] b[i] \div 64 = 2 -> 4 [] OTHER -> 8
\* value as a byte sequence (big-endian, top two bits cleared) - may exceed 31 bits
VarintBytesAt(b, i) == LET n == VarintLenAt(b,i) IN <<b[i] % 64>> \o SubSeq(b, i+1, i+n-1)
\* small varints (< 2^30) as integers
VarintSmallAt(b, i) == LET n == VarintLenAt(b,i) IN
    CASE n = 1 -> b[i] % 64
      [] n = 2 -> (b[i] % 64) * 256 + b[i+1]
      [] n = 4 -> (b[i] % 64) * 16777216 + b[i+1] * 65536 + b[i+2] * 256 + b[i+3]
      [] OTHER -> -1
\* transport parameters filling b[i..]: varint id, varint len, value[len]
RECURSIVE TPListOK(_,_)
TPListOK(b, i) == IF i = Len(b) + 1 THEN TRUE
                  ELSE IF i > Len(b) THEN FALSE
                  ELSE LET n1 == VarintLenAt(b,i) IN
                       IF i + n1 > Len(b) THEN FALSE
                       ELSE LET n2 == VarintLenAt(b, i+n1) IN
                            IF i + n1 + n2 - 1 > Len(b) \/ n2 = 8 THEN FALSE
                            ELSE LET vl == VarintSmallAt(b, i+n1) IN
                                 i + n1 + n2 + vl - 1 <= Len(b) /\ TPListOK(b, i + n1 + n2 + vl)

\* ---------- per-extension ClientHello grammar (RFC 8446 4.2, 6066, 7301, 7627, 8879, 9001, ECH draft) ----------
NoDupSeq(s) == \A i, j \in DOMAIN s : i # j => s[i] # s[j]

ValidBody(t, b) ==
  CASE t = 0 ->      \* server_name: ServerNameList<1..>, one host_name entry, HostName<1..>
         /\ IsVec16(b) /\ Len(b) >= 2 + 3 + 1
         /\ b[3] = 0 /\ RdU16(b,4) = Len(b) - 5 /\ RdU16(b,4) >= 1
    [] t = 5 ->      \* status_request: ocsp(1), responder_id_list<0..>, request_extensions<0..>
         /\ Len(b) >= 5 /\ b[1] = 1
         /\ 3 + RdU16(b,2) + 2 <= Len(b)
         /\ RdU16(b, 4 + RdU16(b,2)) = Len(b) - (5 + RdU16(b,2))
    [] t = 10 ->     \* supported_groups: NamedGroupList<2..>
         IsVec16(b) /\ Len(b) >= 4 /\ Len(b) % 2 = 0
    [] t = 11 ->     \* ec_point_formats<1..255>
         IsVec8(b) /\ Len(b) >= 2
    [] t \in {13, 50, 34} ->   \* signature_algorithms(_cert), delegated_credentials: SignatureSchemeList<2..>
         IsVec16(b) /\ Len(b) >= 4 /\ Len(b) % 2 = 0
    [] t \in {16, 17513, 17613} ->  \* ALPN / ALPS: ProtocolNameList<2..> of ProtocolName<1..255>
         IsVec16(b) /\ Len(b) >= 4 /\ ProtoNamesOK(b, 3)
    [] t \in {18, 23, 13172, 30031, 30032, 22, 49} ->   \* SCT, EMS, NPN, channel_id, encrypt_then_mac, post_handshake_auth: empty in a ClientHello
         b = <<>>
    [] t = 21 ->     \* padding: all zero
         AllZero(b)
    [] t = 27 ->     \* compress_certificate: algorithms<2..2^8-2>
         IsVec8(b) /\ Len(b) >= 3 /\ Len(b) % 2 = 1
    [] t = 28 ->     \* record_size_limit
         Len(b) = 2
    [] t = 35 -> TRUE   \* session_ticket: opaque
    [] t = 41 ->     \* pre_shared_key: identities<7..>, binders<33..>, as many binders as identities
         /\ Len(b) >= 2 /\ RdU16(b,1) >= 7 /\ 2 + RdU16(b,1) + 2 <= Len(b)
         /\ LET idEnd == 2 + RdU16(b,1) IN
              /\ PskIdsOK(b, 3, idEnd)
              /\ RdU16(b, idEnd+1) = Len(b) - idEnd - 2 /\ RdU16(b, idEnd+1) >= 33
              /\ BindersOK(b, idEnd+3, Len(b))
              /\ PskIdCount(b, 3, idEnd) = BinderCount(b, idEnd+3, Len(b))
    [] t = 43 ->     \* supported_versions<2..254>
         IsVec8(b) /\ Len(b) >= 3 /\ Len(b) % 2 = 1
    [] t = 44 ->     \* cookie<1..>
         IsVec16(b) /\ Len(b) >= 3
    [] t = 45 ->     \* psk_key_exchange_modes<1..255>
         IsVec8(b) /\ Len(b) >= 2
    [] t = 51 ->     \* key_share: client_shares<0..>, no group twice
         /\ IsVec16(b) /\ SharesOK(b, 3)
         /\ LET sh == ParseShares(b, 3) IN NoDupSeq([i \in DOMAIN sh |-> sh[i].group])
    [] t = 57 \/ t = 65445 ->  \* quic_transport_parameters
         TPListOK(b, 1)
    [] t = 65037 ->  \* encrypted_client_hello, outer form: type 0, kdf, aead, config_id, enc<0..>, payload<1..>
         /\ Len(b) >= 1
         /\ IF b[1] = 1 THEN Len(b) = 1   \* inner form: empty
            ELSE /\ b[1] = 0 /\ Len(b) >= 10
                 /\ 8 + RdU16(b,7) + 2 <= Len(b)
                 /\ LET po == 9 + RdU16(b,7) IN RdU16(b,po) = Len(b) - po - 1 /\ RdU16(b,po) >= 1
    [] t = 65281 ->  \* renegotiation_info: renegotiated_connection<0..255>
         IsVec8(b)
    [] t = 24 ->     \* token_binding: major, minor, key_parameters<1..255>
         Len(b) >= 4 /\ b[3] = Len(b) - 3
    [] OTHER -> TRUE  \* unknown and GREASE extensions: opaque

\* The structural part of C02.
ValidClientHello(s) ==
  LET h == ParseHello(s) IN
  /\ h.ok
  /\ \A i \in DOMAIN h.exts : ~h.exts[i].bad
  /\ NoDupSeq(ExtTypes(h))
  /\ \A i \in DOMAIN h.exts : h.exts[i].type = 41 => i = Len(h.exts)
  /\ \A i \in DOMAIN h.exts : ValidBody(h.exts[i].type, h.exts[i].body)

\* Names the first reason a hello is invalid (for reports).
WhyInvalid(s) ==
  LET h == ParseHello(s) IN
  IF ~h.ok THEN "framing"
  ELSE IF \E i \in DOMAIN h.exts : h.exts[i].bad THEN "extension-framing"
  ELSE IF ~NoDupSeq(ExtTypes(h)) THEN "duplicate-extension"
  ELSE IF \E i \in DOMAIN h.exts : h.exts[i].type = 41 /\ i # Len(h.exts) THEN "psk-not-last"
  ELSE IF \E i \in DOMAIN h.exts : ~ValidBody(h.exts[i].type, h.exts[i].body)
       THEN LET i == CHOOSE i \in DOMAIN h.exts : ~ValidBody(h.exts[i].type, h.exts[i].body) IN <<"body", h.exts[i].type>>
  ELSE "valid"

\* ---------- key share sizes (C18) ----------
ShareSize(g) == CASE g = 29 -> 32 [] g = 23 -> 65 [] g = 24 -> 97 [] g = 25 -> 133
                  [] g = 4588 -> 1216 [] g = 25497 -> 1216 [] OTHER -> -1

\* ---------- BoringSSL padding policy (C05) ----------
\* u = length of the handshake message without the padding extension; result = length of the
\* padding extension body, or -1 when no padding extension is sent.
BoringPadBody(u) == IF u > 255 /\ u < 512 THEN (IF 512 - u >= 5 THEN 512 - u - 4 ELSE 1) ELSE -1

\* ---------- reference encoders: extension body from its descriptor (C03, C08) ----------
\* result: [type, body, hole]; hole names the per-connection material that the body carries.
ProtoList(ps) == Flat([i \in DOMAIN ps |-> Vec8(ps[i])])

EncodeExt(d, env) ==
  LET f == d.f IN
  CASE d.kind = "SNIExtension" -> [type |-> 0, hole |-> "none", body |-> Vec16(<<0>> \o Vec16(env.sni))]
    [] d.kind = "StatusRequestExtension" -> [type |-> 5, hole |-> "none", body |-> <<1,0,0,0,0>>]
    [] d.kind = "StatusRequestV2Extension" -> [type |-> 17, hole |-> "none", body |-> <<0,7,2,0,4,0,0,0,0>>]
    [] d.kind = "SupportedCurvesExtension" -> [type |-> 10, hole |-> "greaselist", body |-> Vec16(U16List(f.Curves))]
    [] d.kind = "SupportedPointsExtension" -> [type |-> 11, hole |-> "none", body |-> Vec8(f.SupportedPoints)]
    [] d.kind = "SignatureAlgorithmsExtension" -> [type |-> 13, hole |-> "none", body |-> Vec16(U16List(f.SupportedSignatureAlgorithms))]
    [] d.kind = "SignatureAlgorithmsCertExtension" -> [type |-> 50, hole |-> "none", body |-> Vec16(U16List(f.SupportedSignatureAlgorithms))]
    [] d.kind = "ALPNExtension" -> [type |-> 16, hole |-> "none", body |-> Vec16(ProtoList(f.AlpnProtocols))]
    [] d.kind = "SCTExtension" -> [type |-> 18, hole |-> "none", body |-> <<>>]
    [] d.kind = "UtlsPaddingExtension" -> [type |-> 21, hole |-> "padding", body |-> <<>>]
    [] d.kind = "ExtendedMasterSecretExtension" -> [type |-> 23, hole |-> "none", body |-> <<>>]
    [] d.kind = "FakeTokenBindingExtension" -> [type |-> 24, hole |-> "none", body |-> <<f.MajorVersion, f.MinorVersion>> \o Vec8(f.KeyParameters)]
    [] d.kind = "UtlsCompressCertExtension" -> [type |-> 27, hole |-> "none", body |-> Vec8(U16List(f.Algorithms))]
    [] d.kind = "FakeRecordSizeLimitExtension" -> [type |-> 28, hole |-> "none", body |-> U16(f.Limit)]
    [] d.kind = "FakeDelegatedCredentialsExtension" -> [type |-> 34, hole |-> "none", body |-> Vec16(U16List(f.SupportedSignatureAlgorithms))]
    [] d.kind = "SessionTicketExtension" -> [type |-> 35, hole |-> "ticket", body |-> <<>>]
    [] d.kind = "UtlsPreSharedKeyExtension" -> [type |-> 41, hole |-> "psk", body |-> <<>>]
    [] d.kind = "FakePreSharedKeyExtension" -> [type |-> 41, hole |-> "psk", body |-> <<>>]
    [] d.kind = "SupportedVersionsExtension" -> [type |-> 43, hole |-> "greaselist8", body |-> Vec8(U16List(f.Versions))]
    [] d.kind = "CookieExtension" -> [type |-> 44, hole |-> "none", body |-> Vec16(f.Cookie)]
    [] d.kind = "PSKKeyExchangeModesExtension" -> [type |-> 45, hole |-> "none", body |-> Vec8(f.Modes)]
    [] d.kind = "KeyShareExtension" -> [type |-> 51, hole |-> "keyshare", body |-> <<>>]
    [] d.kind = "NPNExtension" -> [type |-> 13172, hole |-> "none", body |-> <<>>]
    [] d.kind = "ApplicationSettingsExtension" -> [type |-> 17513, hole |-> "none", body |-> Vec16(ProtoList(f.SupportedProtocols))]
    [] d.kind = "ApplicationSettingsExtensionNew" -> [type |-> 17613, hole |-> "none", body |-> Vec16(ProtoList(f.SupportedProtocols))]
    [] d.kind = "FakeChannelIDExtension" -> [type |-> IF f.OldExtensionID THEN 30031 ELSE 30032, hole |-> "none", body |-> <<>>]
    [] d.kind = "RenegotiationInfoExtension" -> [type |-> 65281, hole |-> "none", body |-> <<0>>]
    [] d.kind = "GREASEEncryptedClientHelloExtension" -> [type |-> 65037, hole |-> "echgrease", body |-> <<>>]
    [] d.kind = "UtlsGREASEExtension" -> [type |-> GREASE, hole |-> "greaseext", body |-> f.Body]
    [] d.kind = "GenericExtension" -> [type |-> f.Id, hole |-> "none", body |-> f.Data]
    [] OTHER -> [type |-> -1, hole |-> "unknown", body |-> <<>>]

\* wire u16 list equals spec list modulo GREASE placeholders
ListMatchesModGrease(wire, spec) ==
   /\ Len(wire) = Len(spec)
   /\ \A i \in DOMAIN spec : IF IsGrease16(spec[i]) THEN IsGrease16(wire[i]) ELSE wire[i] = spec[i]

\* GREASE ECH body against the candidate lists of its descriptor (C16)
ValidGreaseECH(b, f) ==
  /\ Len(b) >= 10 /\ b[1] = 0
  /\ \E c \in DOMAIN f.CandidateCipherSuites :
        RdU16(b,2) = f.CandidateCipherSuites[c].KdfId /\ RdU16(b,4) = f.CandidateCipherSuites[c].AeadId
  /\ RdU16(b,7) = 32
  /\ Len(b) >= 42
  /\ \E p \in DOMAIN f.CandidatePayloadLens : RdU16(b, 41) = f.CandidatePayloadLens[p] + 16
  /\ Len(b) = 42 + RdU16(b,41)

\* one wire extension w against one descriptor d (C03)
ExtMatches(w, d, env) ==
  LET e == EncodeExt(d, env) IN
  CASE e.hole = "none" -> w.type = e.type /\ w.body = e.body
    [] e.hole = "greaselist" -> w.type = e.type /\ Len(w.body) = Len(e.body) /\ RdU16(w.body,1) = RdU16(e.body,1)
                                 /\ ListMatchesModGrease(U16Seq(SubSeq(w.body,3,Len(w.body))), d.f.Curves)
    [] e.hole = "greaselist8" -> w.type = e.type /\ Len(w.body) = Len(e.body) /\ w.body[1] = e.body[1]
                                 /\ ListMatchesModGrease(U16Seq(SubSeq(w.body,2,Len(w.body))), d.f.Versions)
    [] e.hole = "padding" -> w.type = 21 /\ AllZero(w.body)
    [] e.hole = "ticket" -> w.type = 35
    [] e.hole = "psk" -> w.type = 41
    [] e.hole = "greaseext" -> IsGrease16(w.type) /\ w.body = e.body
    [] e.hole = "keyshare" -> /\ w.type = 51
                              /\ IsVec16(w.body) /\ SharesOK(w.body, 3)
                              /\ LET sh == ParseShares(w.body, 3) IN
                                   /\ Len(sh) = Len(d.f.KeyShares)
                                   /\ \A i \in DOMAIN sh :
                                        IF IsGrease16(d.f.KeyShares[i].Group)
                                        THEN IsGrease16(sh[i].group) /\ sh[i].n = Len(d.f.KeyShares[i].Data)
                                        ELSE sh[i].group = d.f.KeyShares[i].Group /\ sh[i].n = ShareSize(sh[i].group)
    [] e.hole = "echgrease" -> w.type = 65037 /\ ValidGreaseECH(w.body, d.f)
    [] OTHER -> FALSE

IsPad(d) == d.kind = "UtlsPaddingExtension"
IsPsk(d) == d.kind \in {"UtlsPreSharedKeyExtension", "FakePreSharedKeyExtension"}
IsGreaseExtD(d) == d.kind = "UtlsGREASEExtension"
=============================================================================
