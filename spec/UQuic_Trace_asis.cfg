\* traces of the real code against the mechanism AS CODED (used to recognise D5, never to accept anything)
CONSTANTS
  FixEarlyReturn = FALSE
  Builds = {"ok", "noname", "unset", "minver12"}
  HRRs = {FALSE, TRUE}
  MaxCut = 1000000
  Verbose = FALSE
INIT TInit
NEXT TNext
CONSTRAINT Report
INVARIANTS WriteBeforeRead AppReadAfterDone TPOnce OnlyHandshakeData DoneMeansComplete
CHECK_DEADLOCK FALSE
