CONSTANTS
  NSeeds = 8
  MaxExts = 3
INIT Init
NEXT Next
INVARIANT Inv
CONSTRAINT Constr
CHECK_DEADLOCK FALSE
