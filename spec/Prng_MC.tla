----------------------------- MODULE Prng_MC -----------------------------
(***************************************************************************)
(* Bounded exhaustive checks for module Prng (C30).                         *)
(*                                                                          *)
(* cfg Prng_MC (and Prng_MC_nomutex): the critical section of prng.Read    *)
(*   refined into the implementation's steps - lock randomStreamMutex,      *)
(*   squeeze the bytes one at a time out of the shared sponge, unlock -     *)
(*   for Threads callers making up to MaxCalls calls of lengths Lens, all   *)
(*   interleavings. Property Refines: every behaviour of these steps is a   *)
(*   behaviour of the Call/Lin/Ret machine of module Prng under the         *)
(*   mapping below, i.e. every returned result is the next contiguous       *)
(*   slice of the stream for some order. With Mutex = FALSE (cfg            *)
(*   Prng_MC_nomutex) TLC must find a torn read (invariant SliceInv): the   *)
(*   check has teeth and the mutex is what provides the property.           *)
(*                                                                          *)
(* cfg Prng_MC_guards: one state per pair (a, b) of the boundary lattice    *)
(*   IntLat; invariant GuardLaws relates the byte-level order and the       *)
(*   guards to independent statements; the initial-state predicate prints   *)
(*   the boundary grid of helper calls (GRID) the real code is run on.      *)
(***************************************************************************)
EXTENDS Prng, Json, SequencesExt
CONSTANTS Threads, Lens, MaxCalls, Mutex

None == "none"
S == [i \in 1..(Cardinality(Threads) * MaxCalls * 4) |-> i]     \* abstract stream: byte i is "i"

VARIABLES ipos,     \* read position of the shared sponge
          lock,     \* holder of randomStreamMutex
          th,       \* thread -> [st, len, got, at]
          cnt,      \* calls made per thread
          a, b      \* guards configuration only
ivars == <<ipos, lock, th, cnt, a, b>>

Idle == [st |-> "idle", len |-> 0, got |-> <<>>, at |-> 0]
IInit0 == ipos = 0 /\ lock = None /\ th = [t \in Threads |-> Idle] /\ cnt = [t \in Threads |-> 0] /\ a = Zero8 /\ b = Zero8

ICall(t, n) == /\ th[t].st = "idle" /\ cnt[t] < MaxCalls
               /\ th' = [th EXCEPT ![t] = [st |-> "called", len |-> n, got |-> <<>>, at |-> 0]]
               /\ cnt' = [cnt EXCEPT ![t] = @ + 1]
               /\ UNCHANGED <<ipos, lock, a, b>>
IAcquire(t) == /\ th[t].st = "called"
               /\ Mutex => lock = None
               /\ lock' = t
               /\ th' = [th EXCEPT ![t].st = "locked", ![t].at = ipos]
               /\ UNCHANGED <<ipos, cnt, a, b>>
ICopy(t) == /\ th[t].st = "locked" /\ Len(th[t].got) < th[t].len
            /\ th' = [th EXCEPT ![t].got = Append(@, S[ipos + 1])]
            /\ ipos' = ipos + 1
            /\ UNCHANGED <<lock, cnt, a, b>>
IRelease(t) == /\ th[t].st = "locked" /\ Len(th[t].got) = th[t].len
               /\ th' = [th EXCEPT ![t].st = "unlocked"]
               /\ lock' = IF lock = t THEN None ELSE lock
               /\ UNCHANGED <<ipos, cnt, a, b>>
IRet(t) == /\ th[t].st = "unlocked"
           /\ th' = [th EXCEPT ![t] = Idle]
           /\ UNCHANGED <<ipos, lock, cnt, a, b>>

\* refinement mapping: bytes a lock holder has still to take are already handed out abstractly
Locked == {t \in Threads : th[t].st = "locked"}
RECURSIVE SumRest(_)
SumRest(ts) == IF ts = {} THEN 0 ELSE LET t == CHOOSE u \in ts : TRUE IN (th[t].len - Len(th[t].got)) + SumRest(ts \ {t})
absPos == ipos + SumRest(Locked)
Active == {t \in Threads : th[t].st # "idle"}
absPend == [t \in Active |-> [op |-> "Read", len |-> th[t].len, lin |-> th[t].st # "called", at |-> th[t].at]]
\* Prng's own variables pos, pend carry the image of the implementation state under the mapping
IInit == IInit0 /\ pos = absPos /\ pend = absPend
Ghost == pos' = absPos' /\ pend' = absPend'
GCall(t) == (\E n \in Lens : ICall(t, n)) /\ Ghost
GAcquire(t) == IAcquire(t) /\ Ghost
GCopy(t) == ICopy(t) /\ Ghost
GRelease(t) == IRelease(t) /\ Ghost
GRet(t) == IRet(t) /\ Ghost
INext == \E t \in Threads : GCall(t) \/ GAcquire(t) \/ GCopy(t) \/ GRelease(t) \/ GRet(t)
ISpec == IInit /\ [][INext]_<<ivars, pvars>>
AbsNext == \E t \in Threads : \/ \E n \in Lens : Call(t, "Read", n)
                              \/ Lin(t)
                              \/ Ret(t, S, th[t].got)
Refines == PInit /\ [][AbsNext]_pvars
\* the same statement as a state invariant (results so far): what a thread holds is a prefix of its slice
SliceInv == \A t \in Threads : th[t].st \in {"locked", "unlocked"} =>
               th[t].got = SubSeq(Slice(S, th[t].at, th[t].len), 1, Len(th[t].got))
MutexInv == Cardinality(Locked) <= 1

\* ------------------------------------------------------------------ guards
\* a TLC integer as int64 bytes
I2B8(i) == IF i >= 0 THEN <<0, 0, 0, 0, (i \div 16777216) % 256, (i \div 65536) % 256, (i \div 256) % 256, i % 256>>
           ELSE LET m == (2147483647 + i) + 1 IN          \* i + 2^31, in 0..2^31-1
                <<255, 255, 255, 255, 128 + (m \div 16777216), (m \div 65536) % 256, (m \div 256) % 256, m % 256>>
SmallInts == {-2147483647, -65536, -256, -255, -2, -1, 0, 1, 2, 3, 127, 128, 255, 256, 65535, 65536, 2147483647}
MinInt == <<128, 0, 0, 0, 0, 0, 0, 0>>
MaxInt == <<127, 255, 255, 255, 255, 255, 255, 255>>
IntLat == {MinInt, <<128, 0, 0, 0, 0, 0, 0, 1>>, <<255, 255, 255, 255, 127, 255, 255, 255>>, I2B8(-2147483647), I2B8(-2), I2B8(-1),
           Zero8, I2B8(1), I2B8(2), I2B8(3), I2B8(10), I2B8(2147483647), <<0, 0, 0, 0, 128, 0, 0, 0>>, <<0, 0, 0, 0, 128, 0, 0, 1>>,
           <<64, 0, 0, 0, 0, 0, 0, 0>>, <<64, 0, 0, 0, 0, 0, 0, 1>>, <<127, 255, 255, 255, 255, 255, 255, 254>>, MaxInt}
\* IEEE-754 bit patterns with their class, written down from the standard: "le0", "ge1", "free"
WTable == { <<Zero8, "le0">>,                                   \* +0.0
            <<<<128, 0, 0, 0, 0, 0, 0, 0>>, "le0">>,            \* -0.0
            <<<<0, 0, 0, 0, 0, 0, 0, 1>>, "free">>,             \* 4.9e-324
            <<<<128, 0, 0, 0, 0, 0, 0, 1>>, "le0">>,            \* -4.9e-324
            <<<<63, 224, 0, 0, 0, 0, 0, 0>>, "free">>,          \* 0.5
            <<<<63, 239, 255, 255, 255, 255, 255, 255>>, "free">>, \* largest double below 1.0
            <<<<63, 240, 0, 0, 0, 0, 0, 0>>, "ge1">>,           \* 1.0
            <<<<63, 240, 0, 0, 0, 0, 0, 1>>, "ge1">>,           \* smallest double above 1.0
            <<<<64, 0, 0, 0, 0, 0, 0, 0>>, "ge1">>,             \* 2.0
            <<<<127, 239, 255, 255, 255, 255, 255, 255>>, "ge1">>, \* MaxFloat64
            <<<<127, 240, 0, 0, 0, 0, 0, 0>>, "ge1">>,          \* +Inf
            <<<<255, 240, 0, 0, 0, 0, 0, 0>>, "le0">>,          \* -Inf
            <<<<191, 240, 0, 0, 0, 0, 0, 0>>, "le0">>,          \* -1.0
            <<<<127, 248, 0, 0, 0, 0, 0, 1>>, "free">>,         \* NaN
            <<<<255, 248, 0, 0, 0, 0, 0, 0>>, "free">> }        \* NaN with the sign bit set
WClass(w) == IF WeightLE0(w) THEN "le0" ELSE IF WeightGE1(w) THEN "ge1" ELSE "free"

GInit == /\ a \in IntLat /\ b \in IntLat
         /\ ipos = 0 /\ lock = None /\ th = [t \in Threads |-> Idle] /\ cnt = [t \in Threads |-> 0] /\ pos = 0 /\ pend = <<>>
OnceLaws ==
  /\ \A i, j \in SmallInts : (SLt(I2B8(i), I2B8(j)) <=> i < j) /\ (SLe(I2B8(i), I2B8(j)) <=> i <= j)   \* byte order = integer order
  /\ \A i \in SmallInts : Neg(I2B8(i)) <=> i < 0
  /\ \A x, y, z \in IntLat : SLt(x, y) /\ SLt(y, z) => SLt(x, z)
  /\ \A x \in IntLat : SLe(MinInt, x) /\ SLe(x, MaxInt)
  /\ \A p \in WTable : WClass(p[1]) = p[2]
  /\ \A p \in WTable : ~(WeightLE0(p[1]) /\ WeightGE1(p[1]))
  /\ Mask63(<<255, 1, 2, 3, 4, 5, 6, 7>>) = <<127, 1, 2, 3, 4, 5, 6, 7>> /\ ~Neg(Mask63(MinInt))
GuardLaws ==
  /\ (IF SLt(a, b) THEN 1 ELSE 0) + (IF a = b THEN 1 ELSE 0) + (IF SLt(b, a) THEN 1 ELSE 0) = 1       \* trichotomy
  /\ IntnOK(a, Zero8)                                             \* 0 is always an acceptable Intn result
  /\ IntnOK(a, b) => ~Neg(b) /\ (SLe(a, Zero8) => b = Zero8) /\ (SLt(Zero8, a) => SLt(b, a))
  /\ (SLt(Zero8, a) /\ ~Neg(b) /\ SLt(b, a)) => IntnOK(a, b)
  /\ RangeOK(a, b, RangeLo(a))                                    \* the clamped minimum is always acceptable
  /\ ~Neg(RangeLo(a)) /\ SLe(a, RangeLo(a))
  /\ \A r \in IntLat : RangeOK(a, b, r) => /\ ~Neg(r) /\ SLe(a, r)
                                           /\ (SLe(RangeLo(a), b) => SLe(r, b))
                                           /\ (SLt(b, RangeLo(a)) => r = RangeLo(a))
\* the boundary grid handed to the real code (printed once)
Grid == [intn   |-> SetToSeq(IntLat),
         ranges |-> SetToSeq({<<x, y>> : x \in IntLat, y \in IntLat}),
         flips  |-> SetToSeq({p[1] : p \in WTable})]
GInitEmit == GInit /\ ((a = Zero8 /\ b = Zero8) => Assert(OnceLaws, "OnceLaws") /\ PrintT(<<"GRID", ToJson(Grid)>>))
GNext == UNCHANGED <<ivars, pvars>>
=============================================================================
