---------------------------- MODULE Prng_Trace ----------------------------
(***************************************************************************)
(* Trace validation for C30: logs of the real prng (u_prng.go) against      *)
(* module Prng.                                                             *)
(*                                                                          *)
(* Files (TLC's cwd):                                                       *)
(*   prng_ref.ndjson     {seed, stream}: one Read(N) of a fresh PRNG per    *)
(*                       seed, recorded by a SEPARATE run of the harness    *)
(*   prng_trace.ndjson   the run under judgement: scenarios                 *)
(*                       New{sc,seed,salt,track} op* End{sc} and Salt events *)
(*   prng_trace2.ndjson  (CheckRerun) the same scenarios executed by yet    *)
(*                       another process: must be identical event by event  *)
(*                                                                          *)
(* A scenario is explained iff SOME behaviour of this specification reaches *)
(* its End event with bad = 0 (the specification is nondeterministic: how   *)
(* many words a helper took, where a concurrent call was linearised). The   *)
(* End action prints <<"END", sc, bad, why>> for every behaviour; a         *)
(* behaviour that cannot explain an event does not stop: it records the     *)
(* index and reason of its first unexplained event, stops tracking the      *)
(* position and reads on, so the whole batch is always consumed.            *)
(* pos = -1: position not tracked (guards only).                            *)
(***************************************************************************)
EXTENDS Prng, Json
CONSTANT CheckRerun
Trace  == ndJsonDeserialize("prng_trace.ndjson")
Trace2 == IF CheckRerun THEN ndJsonDeserialize("prng_trace2.ndjson") ELSE <<>>
Refs   == ndJsonDeserialize("prng_ref.ndjson")

VARIABLES l,        \* next event
          ref,      \* index into Refs of the current scenario's reference stream (0: none)
          bad,      \* index of the first unexplained event of the current scenario in this behaviour (0: none)
          why,      \* its reason
          salted    \* Salt events seen: set of [seed, salt, out]
tvars == <<l, ref, bad, why, salted>>
S == IF ref = 0 THEN <<>> ELSE Refs[ref].stream

RerunOK == ~CheckRerun \/ (l <= Len(Trace2) /\ Trace2[l] = Trace[l])

\* ---------- scenario framing ------------------------------------------------
EffSeed(e) == IF e.salt = <<>> THEN e.seed
              ELSE LET c == {s \in salted : s.seed = e.seed /\ s.salt = e.salt} IN
                   IF c = {} THEN <<>> ELSE (CHOOSE s \in c : TRUE).out
RefIdx(seed) == LET c == {i \in DOMAIN Refs : Refs[i].seed = seed} IN IF c = {} THEN 0 ELSE CHOOSE i \in c : TRUE
New(e) == /\ e.ev = "New"
          /\ ref' = RefIdx(EffSeed(e))
          /\ pos' = IF e.track THEN 0 ELSE -1
          /\ pend' = <<>>
          /\ IF e.track /\ ref' = 0 THEN bad' = l /\ why' = "no-reference-stream"      \* machinery, not a verdict
             ELSE IF ~RerunOK THEN bad' = l /\ why' = "rerun-differs"
             ELSE bad' = 0 /\ why' = ""
          /\ l' = l + 1 /\ UNCHANGED salted
End(e) == /\ e.ev = "End"
          /\ PrintT(<<"END", e.sc, bad, why>>)
          /\ l' = l + 1 /\ UNCHANGED <<ref, bad, why, salted, pos, pend>>

\* ---------- salted seeds: a function of (seed, salt), injective in salt -----
\* (u_prng.go:47 newSaltedPRNGSeed = HKDF(SHA3-256, secret = seed, salt = salt, no info), 32 bytes)
\* A Salt event carries two observations: out = what newSaltedPRNGSeed returned, ind = what an independent HKDF
\* (Go standard library crypto/hkdf + crypto/sha3, not the code under test) returned for the same (seed, salt).
\* Laws: a function of (seed, salt); distinct salts give distinct seeds; equal to the independent derivation.
\* A collision between salts that differ only in trailing NUL bytes is HMAC's zero padding of its key (known,
\* reported under its own reason); any other collision (e.g. a salt cut to a fixed length) is "salt-collision".
RECURSIVE StripNul(_)
StripNul(b) == IF b # <<>> /\ b[Len(b)] = 0 THEN StripNul(SubSeq(b, 1, Len(b) - 1)) ELSE b
Colliding(e) == {s \in salted : s.seed = e.seed /\ s.salt # e.salt /\ s.out = e.out}
SaltWhy(e) == IF e.err # "" THEN "salt-error"
              ELSE IF Len(e.out) # 32 THEN "salt-length"
              ELSE IF \E s \in salted : s.seed = e.seed /\ s.salt = e.salt /\ s.out # e.out THEN "salt-not-deterministic"
              ELSE IF \E s \in Colliding(e) : StripNul(s.salt) # StripNul(e.salt) THEN "salt-collision"
              ELSE IF Colliding(e) # {} THEN "salt-collision:trailing-nul"
              ELSE IF e.inderr = "" /\ e.ind # e.out THEN "salt-differs-from-independent-hkdf"
              ELSE IF ~RerunOK THEN "rerun-differs"
              ELSE ""
Salt(e) == /\ e.ev = "Salt"
           /\ PrintT(<<"SALT", l, SaltWhy(e)>>)
           /\ salted' = salted \cup {[seed |-> e.seed, salt |-> e.salt, out |-> e.out]}
           /\ l' = l + 1 /\ UNCHANGED <<ref, bad, why, pos, pend>>

\* ---------- sequential calls ------------------------------------------------
Tracked == pos >= 0
\* first failing clause of a sequential event, independent of the position ("" = none)
GuardWhy(e) ==
  IF e.panic # "" THEN "panic"
  ELSE IF ~RerunOK THEN "rerun-differs"
  ELSE CASE e.ev = "Read" -> IF Len(e.out) # e.len THEN "read-length" ELSE ""
         [] e.ev = "Uint64" -> ""
         [] e.ev = "Int63" -> IF Neg(e.out) THEN "int63-negative" ELSE ""
         [] e.ev \in {"Intn", "Int63n"} -> IF IntnOK(e.n, e.out) THEN "" ELSE "intn-out-of-range"
         [] e.ev = "Range" -> IF RangeOK(e.min, e.max, e.out) THEN "" ELSE "range-out-of-range"
         [] e.ev = "Flip" -> IF WeightLE0(e.w) /\ e.out THEN "flip-true-for-weight-le-0"
                             ELSE IF ~Tracked /\ WeightGE1(e.w) /\ ~e.out THEN "flip-false-for-weight-ge-1" ELSE ""
         [] OTHER -> "unknown-event"
SeqKinds == {"Read", "Uint64", "Int63", "Intn", "Int63n", "Range", "Flip"}
Words == 0..MaxWords
\* How many words a helper took is explored only where it can still be right: if the very next event
\* reveals the position (Read/Uint64/Int63), its bytes must be the stream's bytes at position p.
PeekOK(p) ==
  LET f == l + 1 <= Len(Trace) IN
  IF ~f THEN TRUE
  ELSE LET x == Trace[l + 1] IN
       CASE x.ev = "Read" -> p + x.len <= Len(S) /\ x.out = Slice(S, p, x.len)
         [] x.ev = "Uint64" -> p + 8 <= Len(S) /\ x.out = Slice(S, p, 8)
         [] x.ev = "Int63" -> p + 8 <= Len(S) /\ x.out = Mask63(Slice(S, p, 8))
         [] OTHER -> TRUE
\* the word counts that can still be right for helper event e (its guards hold: GuardWhy(e) = "")
HelperKinds == {"Intn", "Int63n", "Range", "Flip"}
WordsFor(e) == {k \in Words : /\ pos + 8 * k <= Len(S)
                              /\ e.ev = "Flip" => FlipOK(e.w, e.out, S, pos, k)
                              /\ PeekOK(pos + 8 * k)}
\* the tracked step explaining e, taking k words if it is a helper
SeqStep(e, k) ==
  CASE e.ev = "Read" -> SeqRead(S, e.len, e.out)
    [] e.ev = "Uint64" -> SeqUint64(S, e.out)
    [] e.ev = "Int63" -> SeqInt63(S, e.out)
    [] e.ev \in {"Intn", "Int63n"} -> SeqIntn(S, e.n, e.out, k)
    [] e.ev = "Range" -> SeqRange(S, e.min, e.max, e.out, k)
    [] e.ev = "Flip" -> SeqFlip(S, e.w, e.out, k)
\* why no tracked step explains e (GuardWhy(e) = "")
PosWhy(e) ==
  CASE e.ev \in {"Read", "Uint64", "Int63"} ->
         IF pos + (IF e.ev = "Read" THEN e.len ELSE 8) > Len(S) THEN "reference-exhausted"      \* machinery
         ELSE "not-the-next-bytes-of-the-stream"
    [] e.ev = "Flip" /\ WeightGE1(e.w) /\ ~e.out -> "flip-false-for-weight-ge-1"
    [] OTHER -> "no-word-count-explains-the-following-bytes"
Lose(reason) == bad' = l /\ why' = reason /\ pos' = -1 /\ pend' = <<>> /\ l' = l + 1 /\ UNCHANGED <<ref, salted>>
SeqEv(e) ==
  /\ e.ev \in SeqKinds /\ bad = 0
  /\ IF GuardWhy(e) # "" THEN Lose(GuardWhy(e))
     ELSE IF ~Tracked THEN l' = l + 1 /\ UNCHANGED <<ref, bad, why, salted, pos, pend>>
     ELSE LET K == IF e.ev \in HelperKinds THEN WordsFor(e) ELSE {0} IN
          IF K # {} /\ (e.ev \in HelperKinds \/ ENABLED SeqStep(e, 0))
          THEN (\E k \in K : SeqStep(e, k)) /\ l' = l + 1 /\ UNCHANGED <<ref, bad, why, salted>>
          ELSE Lose(PosWhy(e))

\* ---------- concurrent calls: Call / Lin / Ret ------------------------------
RECURSIVE NextRet(_, _)
NextRet(k, t) == IF k > Len(Trace) \/ Trace[k].ev \in {"End", "New"} THEN 0
                 ELSE IF Trace[k].ev = "Ret" /\ Trace[k].t = t THEN k ELSE NextRet(k + 1, t)
\* Lin(t) is explored only where it can still be right: the bytes t is going to return are the next slice
Promising(t) == LET k == NextRet(l, t) IN
                /\ k # 0 /\ pos + pend[t].len <= Len(S)
                /\ pend[t].len = 0 => k = l          \* an empty read moves nothing: linearise it just before its own Ret
                /\ Trace[k].out = Result(S, [pend[t] EXCEPT !.at = pos])
\* Lin steps are taken lazily: only when the next event is the Ret of a call that is not linearised yet.
\* (Nothing is lost: in any explanation every Lin can be postponed, in the same order, to just before the
\* first Ret event that needs it; the slices handed out depend on the order of the Lin steps only.)
LinStep == /\ l <= Len(Trace) /\ bad = 0 /\ Tracked
           /\ Trace[l].ev = "Ret" /\ Trace[l].t \in DOMAIN pend /\ ~pend[Trace[l].t].lin
           /\ \E t \in DOMAIN pend : ~pend[t].lin /\ Promising(t) /\ Lin(t)
           /\ UNCHANGED tvars
ConcEv(e) ==
  /\ e.ev \in {"Call", "Ret"} /\ bad = 0
  /\ IF e.panic # "" THEN Lose("panic")
     ELSE IF ~Tracked THEN l' = l + 1 /\ UNCHANGED <<ref, bad, why, salted, pos, pend>>
     ELSE IF e.ev = "Call" THEN
            IF e.t \in DOMAIN pend THEN Lose("call-while-pending")                           \* machinery
            ELSE Call(e.t, e.op, e.len) /\ l' = l + 1 /\ UNCHANGED <<ref, bad, why, salted>>
     ELSE IF e.t \notin DOMAIN pend THEN Lose("ret-without-call")                            \* machinery
     ELSE IF pend[e.t].lin THEN
            IF ENABLED Ret(e.t, S, e.out) THEN Ret(e.t, S, e.out) /\ l' = l + 1 /\ UNCHANGED <<ref, bad, why, salted>>
            ELSE Lose("not-a-contiguous-slice-in-any-order")
     \* not yet linearised: wait for a Lin step; if none is possible the result is no slice of the stream at any position reachable now
     ELSE /\ ~\E u \in DOMAIN pend : ~pend[u].lin /\ Promising(u)
          /\ Lose(IF pos + pend[e.t].len > Len(S) THEN "reference-exhausted" ELSE "not-a-contiguous-slice-in-any-order")

\* ---------- a behaviour that lost track reads on ----------------------------
Lost(e) == /\ bad # 0 /\ e.ev \notin {"New", "End", "Salt"}
           /\ l' = l + 1 /\ UNCHANGED <<ref, bad, why, salted, pos, pend>>

Init == l = 1 /\ ref = 0 /\ bad = 0 /\ why = "" /\ salted = {} /\ pos = -1 /\ pend = <<>>
Next == \/ LinStep
        \/ /\ l <= Len(Trace)
           /\ LET e == Trace[l] IN New(e) \/ End(e) \/ Salt(e) \/ SeqEv(e) \/ ConcEv(e) \/ Lost(e)
Report == (l = Len(Trace) + 1) => PrintT(<<"DONE", l - 1>>)
=============================================================================
