CONSTANTS
  IDs = {"Chrome-120", "Firefox-120", "iOS-14"}
  None = "-"
  MaxSteps = 3
  MaxCallers = 2
INIT MCInit
NEXT MCNext
CONSTRAINT EmitScn
CHECK_DEADLOCK FALSE
