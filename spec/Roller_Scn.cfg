CONSTANTS
  IDs = {"Chrome-120", "Firefox-120", "Randomized"}
  RandIDs = {"Randomized"}
  Stalls = {{}, {"Chrome-120"}, {"Firefox-120"}, {"Chrome-120", "Firefox-120"}}
  Seeds = {1, 2, 3, 4, 5, 6}
  Canon = TRUE
  MaxSteps = 3
  MaxCallers = 2
INIT MCInit
NEXT MCNext
CONSTRAINT EmitScn
CHECK_DEADLOCK FALSE
