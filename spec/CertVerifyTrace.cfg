INIT TInit
NEXT TNext
CONSTRAINT Report
CHECK_DEADLOCK FALSE
