\* random long histories (TLC -simulate): scenario generation; only the state invariants of the object are checked
\* (the history invariants of LRU_MC.cfg are quadratic in the history length)
CONSTANTS
  Keys = {1, 2, 3}
  Caps = {1, 2, 3}
  MaxLen = 20
  NilPuts = TRUE
  Canon = FALSE
  Conc = FALSE
  Threads = {0}
INIT Init
NEXT Next
INVARIANTS InvBounded InvUniqueKeys InvNoNilStored
CONSTRAINT Emit
CHECK_DEADLOCK FALSE
