CONSTANTS
  Threads = {0, 1, 2, 3, 4, 5, 6, 7}
INIT Init
NEXT Next
CONSTRAINT Report
CHECK_DEADLOCK FALSE
