-------------------------------- MODULE ECH --------------------------------
(***************************************************************************)
(* Encrypted Client Hello: the ECH branch of the TLS 1.3 negotiation as    *)
(* uTLS performs it (properties C15 and the ECH branches of C14).          *)
(*                                                                         *)
(* Part 1  bytes: ECHConfig / ECHConfigList, the outer and inner forms of  *)
(*         the encrypted_client_hello extension, EncodedClientHelloInner,  *)
(*         and the reference reconstruction of ClientHelloInner from       *)
(*         (ClientHelloOuter, EncodedClientHelloInner) incl. the           *)
(*         ech_outer_extensions expansion (RFC 9849 5.1).  Go never        *)
(*         re-implements any of this: it ships bytes, TLC judges.          *)
(* Part 2  the state machine.  One step operator per implementation step:  *)
(*   client  BuildOuter        u_conn.go MarshalClientHello /              *)
(*                             computeAndUpdateOuterECHExtension,          *)
(*                             handshake_client.go clientHandshake (Golang)*)
(*           SendCH1           u_handshake_client.go clientHandshake       *)
(*           ProcessHRR        handshake_client_tls13.go                   *)
(*           SendCH2             processHelloRetryRequest                  *)
(*           ProcessServerHello  handshake (accept confirmation signal)    *)
(*           VerifyCertificate handshake_client.go verifyServerCertificate *)
(*           Finish            handshake_client_tls13.go handshake():      *)
(*                             Done | ECHRejectionError(retry configs) |   *)
(*                             CertificateVerificationError                *)
(*   server  OnCH (accept | accept after HRR | reject with retry configs   *)
(*           | no ECH support)  ech.go processECHClientHello,              *)
(*           handshake_server_tls13.go doHelloRetryRequest /               *)
(*           sendServerParameters (retry configs in EncryptedExtensions)   *)
(* Part 3  the properties, as state predicates over the recorded bytes     *)
(*         (obs), the scenario (scn) and both endpoints' reports.          *)
(*                                                                         *)
(* ECH_MC drives the step operators with model-built bytes; ECH_Trace      *)
(* drives them with the bytes and reports recorded from the real library.  *)
(***************************************************************************)
EXTENDS TLSWire, CertVerifyDefs

\* ======================================================================== Part 1: bytes

Max2(a, b) == IF a >= b THEN a ELSE b
Lower(b) == [i \in DOMAIN b |-> IF b[i] >= 65 /\ b[i] <= 90 THEN b[i] + 32 ELSE b[i]]
\* needle occurs in hay (contiguous)
Contains(hay, nd) == /\ Len(nd) >= 1
                     /\ \E i \in 1..(Len(hay) - Len(nd) + 1) : hay[i] = nd[1] /\ \A j \in 2..Len(nd) : hay[i + j - 1] = nd[j]
ContainsCI(hay, nd) == Contains(Lower(hay), Lower(nd))

ExtECH == 65037          \* 0xfe0d encrypted_client_hello
ExtOuterExts == 64768    \* 0xfd00 ech_outer_extensions
KemX25519 == 32
KdfSHA256 == 1
AEADs == {1, 2, 3}       \* AES-128-GCM, AES-256-GCM, ChaCha20Poly1305 (RFC 9180 7.3); all have 16-byte tags
TagLen == 16

\* ---------- ECHConfig (RFC 9849 4): version, length, config_id, kem_id, public_key<1..>, cipher_suites<4..>,
\*            maximum_name_length, public_name<1..255>, extensions<0..>
BadCfg == [ok |-> FALSE, id |-> -1, kem |-> 0, pk |-> <<>>, suites |-> <<>>, maxlen |-> 0, pubname |-> <<>>, raw |-> <<>>]
ParseECHConfig(b) ==
  IF Len(b) < 9 \/ ~IsBytes(b) THEN BadCfg ELSE
  IF RdU16(b, 1) # ExtECH \/ RdU16(b, 3) # Len(b) - 4 THEN BadCfg ELSE
  LET pkLen == RdU16(b, 8)
      csOff == 10 + pkLen IN
  IF csOff + 1 > Len(b) THEN BadCfg ELSE
  LET csLen == RdU16(b, csOff)
      mOff == csOff + 2 + csLen IN
  IF csLen % 4 # 0 \/ csLen < 4 \/ mOff + 1 > Len(b) THEN BadCfg ELSE
  LET pnLen == b[mOff + 1]
      xOff == mOff + 2 + pnLen IN
  IF pnLen < 1 \/ xOff + 1 > Len(b) THEN BadCfg ELSE
  IF RdU16(b, xOff) # Len(b) - xOff - 1 THEN BadCfg ELSE
  [ok |-> TRUE, id |-> b[5], kem |-> RdU16(b, 6), pk |-> SubSeq(b, 10, 9 + pkLen),
   suites |-> [k \in 1..(csLen \div 4) |-> [kdf |-> RdU16(b, csOff + 4*k - 2), aead |-> RdU16(b, csOff + 4*k)]],
   maxlen |-> b[mOff], pubname |-> SubSeq(b, mOff + 2, mOff + 1 + pnLen), raw |-> b]

RECURSIVE SplitCfgs(_,_)
SplitCfgs(b, i) == IF i > Len(b) THEN <<>>
                   ELSE IF i + 3 > Len(b) \/ i + 3 + RdU16(b, i + 2) > Len(b) THEN << <<>> >>
                   ELSE <<SubSeq(b, i, i + 3 + RdU16(b, i + 2))>> \o SplitCfgs(b, i + 4 + RdU16(b, i + 2))
\* ECHConfigList: ECHConfig<4..2^16-1>
ParseCfgList(b) == IF ~IsVec16(b) THEN <<BadCfg>>
                   ELSE LET parts == SplitCfgs(b, 3) IN [k \in DOMAIN parts |-> ParseECHConfig(parts[k])]
Usable(c) == c.ok /\ c.kem = KemX25519 /\ \E k \in DOMAIN c.suites : c.suites[k].kdf = KdfSHA256 /\ c.suites[k].aead \in AEADs
\* the configuration a client must use: the first usable one of its list (ech.go pickECHConfig)
PickCfg(list) == LET cs == ParseCfgList(list)
                     U == {k \in DOMAIN cs : Usable(cs[k])} IN
                 IF U = {} THEN BadCfg ELSE cs[CHOOSE k \in U : \A j \in U : k <= j]
\* shapes of an ECHConfigList (the client must use the first usable entry, whatever surrounds it):
\*   single           [usable]
\*   two_usable       [usable, another usable one with another key and config_id]   (key rotation)
\*   usable_skipped   [usable, unknown version, unsupported KEM]
\*   skipped_usable   [unknown version, unsupported KEM, usable]
ListShapes == <<"single", "two_usable", "usable_skipped", "skipped_usable">>
ShapeSane(shape, cs) ==
  CASE shape = "single" -> Len(cs) = 1 /\ Usable(cs[1])
    [] shape = "two_usable" -> Len(cs) = 2 /\ Usable(cs[1]) /\ Usable(cs[2]) /\ cs[1].id # cs[2].id /\ cs[1].pk # cs[2].pk
    [] shape = "usable_skipped" -> Len(cs) = 3 /\ Usable(cs[1]) /\ ~Usable(cs[2]) /\ ~Usable(cs[3])
    [] shape = "skipped_usable" -> Len(cs) = 3 /\ ~Usable(cs[1]) /\ ~Usable(cs[2]) /\ Usable(cs[3])
    [] OTHER -> FALSE
\* the suite a client must use: the first supported one of the configuration (ech.go pickECHCipherSuite)
PickSuite(c) == c.suites[CHOOSE k \in DOMAIN c.suites : /\ c.suites[k].kdf = KdfSHA256 /\ c.suites[k].aead \in AEADs
                                                        /\ \A j \in 1..(k-1) : ~(c.suites[j].kdf = KdfSHA256 /\ c.suites[j].aead \in AEADs)]

\* ---------- encoders
EncECHConfigK(id, kem, pk, aead, maxlen, pubname) ==
  LET body == <<id>> \o U16(kem) \o Vec16(pk) \o Vec16(U16(KdfSHA256) \o U16(aead)) \o <<maxlen>> \o Vec8(pubname) \o U16(0)
  IN U16(ExtECH) \o Vec16(body)
EncECHConfig(id, pk, aead, maxlen, pubname) == EncECHConfigK(id, KemX25519, pk, aead, maxlen, pubname)
\* an entry of a version this client does not know: to be skipped by its length
EncUnknownVersionEntry(body) == U16(65034) \o Vec16(body)
EncCfgList(cfgs) == Vec16(Flat(cfgs))
SNIExt(name) == Ext(0, Vec16(<<0>> \o Vec16(name)))
ECHOuterExt(kdf, aead, id, enc, payload) == Ext(ExtECH, <<0>> \o U16(kdf) \o U16(aead) \o <<id>> \o Vec16(enc) \o Vec16(payload))
ECHInnerExt == Ext(ExtECH, <<1>>)
OuterExtsExt(types) == Ext(ExtOuterExts, Vec8(U16List(types)))
\* a ClientHello handshake message; suites and extensions given as bytes
CHBytes(vr, sid, suites, comp, exts) ==
  LET body == vr \o Vec8(sid) \o Vec16(suites) \o Vec8(comp) \o Vec16(exts) IN <<1>> \o U24(Len(body)) \o body

\* ---------- views of a parsed ClientHello (TLSWire!ParseHello)
SNIOf(h) == IF HasExtT(h, 0) /\ ValidBody(0, ExtBody(h, 0)) THEN SubSeq(ExtBody(h, 0), 6, Len(ExtBody(h, 0))) ELSE <<>>
\* outer form of encrypted_client_hello: type 0, kdf, aead, config_id, enc<0..>, payload<1..>
OuterECHOf(h) ==
  IF ~HasExtT(h, ExtECH) THEN [ok |-> FALSE, kdf |-> 0, aead |-> 0, id |-> -1, enc |-> <<>>, payload |-> <<>>] ELSE
  LET b == ExtBody(h, ExtECH) IN
  IF ~ValidBody(ExtECH, b) \/ b[1] # 0 THEN [ok |-> FALSE, kdf |-> 0, aead |-> 0, id |-> -1, enc |-> <<>>, payload |-> <<>>]
  ELSE [ok |-> TRUE, kdf |-> RdU16(b, 2), aead |-> RdU16(b, 4), id |-> b[6],
        enc |-> SubSeq(b, 9, 8 + RdU16(b, 7)), payload |-> SubSeq(b, 11 + RdU16(b, 7), Len(b))]
KeyShareGroups(h) == IF HasExtT(h, 51) /\ ValidBody(51, ExtBody(h, 51))
                     THEN LET sh == ParseShares(ExtBody(h, 51), 3) IN [i \in DOMAIN sh |-> sh[i].group] ELSE <<-1>>

\* ---------- EncodedClientHelloInner (RFC 9849 5.1): a ClientHello body with an empty legacy_session_id, followed by zero padding
BadEnc == [ok |-> FALSE, vr |-> <<>>, suites |-> <<>>, comp |-> <<>>, exts |-> <<>>, pad |-> <<>>]
ParseEncodedInner(e) ==
  IF Len(e) < 2 + 32 + 1 + 2 + 2 + 1 + 1 + 2 \/ ~IsBytes(e) THEN BadEnc ELSE
  IF e[35] # 0 THEN BadEnc ELSE
  LET csLen == RdU16(e, 36)
      cmOff == 38 + csLen IN
  IF cmOff > Len(e) THEN BadEnc ELSE
  LET cmLen == e[cmOff]
      exOff == cmOff + 1 + cmLen IN
  IF exOff + 1 > Len(e) THEN BadEnc ELSE
  LET end == exOff + 1 + RdU16(e, exOff) IN
  IF end > Len(e) THEN BadEnc ELSE
  [ok |-> TRUE, vr |-> SubSeq(e, 1, 34), suites |-> SubSeq(e, 38, 37 + csLen), comp |-> SubSeq(e, cmOff + 1, cmOff + cmLen),
   exts |-> ParseExts(e, exOff + 2, end), pad |-> SubSeq(e, end + 1, Len(e))]

\* OuterExtensions: ExtensionType<2..254>
OuterList(body) == IF IsVec8(body) /\ Len(body) >= 3 /\ Len(body) % 2 = 1 THEN U16Seq(SubSeq(body, 2, Len(body))) ELSE <<-1>>
RECURSIVE IsSubseqFrom(_,_,_,_)
IsSubseqFrom(xs, i, ys, j) == IF i > Len(xs) THEN TRUE
                              ELSE IF j > Len(ys) THEN FALSE
                              ELSE IF xs[i] = ys[j] THEN IsSubseqFrom(xs, i + 1, ys, j + 1) ELSE IsSubseqFrom(xs, i, ys, j + 1)
OuterExtIdx(enc) == {k \in DOMAIN enc.exts : enc.exts[k].type = ExtOuterExts}
\* the extension types an encoded inner hello takes from the outer hello
Compressed(enc) == IF OuterExtIdx(enc) = {} THEN <<>> ELSE OuterList(enc.exts[CHOOSE k \in OuterExtIdx(enc) : TRUE].body)
\* legality of the reference: at most one ech_outer_extensions; it never names encrypted_client_hello; the named types occur
\* in the outer hello, in the same relative order
ExpandOK(enc, outer) == /\ \A k \in DOMAIN enc.exts : ~enc.exts[k].bad
                        /\ Cardinality(OuterExtIdx(enc)) <= 1
                        /\ LET L == Compressed(enc) IN
                           /\ \A k \in DOMAIN L : L[k] >= 0 /\ L[k] # ExtECH /\ L[k] # ExtOuterExts
                           /\ NoDupSeq(L)
                           /\ IsSubseqFrom(L, 1, ExtTypes(outer), 1)
ExpandExt(x, outer) == IF x.type = ExtOuterExts
                       THEN LET L == OuterList(x.body) IN Flat([k \in DOMAIN L |-> Ext(L[k], ExtBody(outer, L[k]))])
                       ELSE Ext(x.type, x.body)
\* ClientHelloInner as the server must reconstruct it (session id from the outer hello, padding dropped)
Reconstruct(outer, enc) == CHBytes(enc.vr, outer.sid, enc.suites, enc.comp, Flat([k \in DOMAIN enc.exts |-> ExpandExt(enc.exts[k], outer)]))

\* ---------- server messages
HRRMagic == <<207,33,173,116,229,154,97,17,190,29,140,2,30,101,184,145,194,162,17,22,122,187,140,94,7,158,9,226,200,168,51,156>>
SHExts(raw) == IF Len(raw) < 39 THEN <<>> ELSE
               LET exOff == 43 + raw[39] IN IF exOff + 1 > Len(raw) THEN <<>> ELSE ParseExts(raw, exOff + 2, Len(raw))
IsHRRMsg(raw) == Len(raw) >= 38 /\ raw[1] = 2 /\ SubSeq(raw, 7, 38) = HRRMagic
BodyOfType(exts, t) == LET I == {k \in DOMAIN exts : ~exts[k].bad /\ exts[k].type = t} IN
                       IF I = {} THEN <<-1>> ELSE exts[CHOOSE k \in I : TRUE].body
\* the cipher suite a ServerHello / HelloRetryRequest selects
SHSuiteOf(raw) == IF Len(raw) < 41 \/ 41 + raw[39] > Len(raw) THEN 0 ELSE RdU16(raw, 40 + raw[39])
HRRGroupOf(raw) == LET b == BodyOfType(SHExts(raw), 51) IN IF Len(b) = 2 THEN RdU16(b, 1) ELSE 0
\* the body of the HelloRetryRequest's cookie extension (cookie<1..2^16-1> with its length prefix), <<>> when it has none
HRRCookieOf(raw) == LET b == BodyOfType(SHExts(raw), 44) IN IF b = <<-1>> THEN <<>> ELSE b
\* EncryptedExtensions: the retry configs travel as the body of an encrypted_client_hello extension
EERetryOf(raw) == IF Len(raw) < 6 THEN <<>> ELSE
                  LET b == BodyOfType(ParseExts(raw, 7, Len(raw)), ExtECH) IN IF b = <<-1>> THEN <<>> ELSE b

\* ======================================================================== Part 2: the state machine
(* scn: [id, sname, pubname, cfg_list (the client's ECHConfigList), server \in ServerModes, suite (the TLS 1.3 suite it selects), hrr_group, retry_list (what the
   server is configured to offer for retry; <<>> = nothing), cert \in CertKinds]                                          *)
ServerModes == {"accept", "hrr", "reject", "reject_hrr", "noech"}
CertKinds == {"sn", "pub", "both", "neither"}
SrvDecrypts(s) == s.server \in {"accept", "hrr"}          \* the server holds the private key of the client's configuration
SrvSendsHRR(s) == s.server \in {"hrr", "reject_hrr"}      \* the server insists on a group the client sent no share for
SrvRetryList(s) == IF s.server \in {"reject", "reject_hrr"} THEN s.retry_list ELSE <<>>
Cfg(s) == PickCfg(s.cfg_list)

\* ---- certificate verification: CertVerifyDefs!ShouldAccept with the name chosen by acceptance.
\* A certificate with several SANs verifies for a name iff one of its single-name views does; names are abstracted to
\* the two names CertVerifyDefs knows (ServerName -> "example.com", public name -> "another.example").
AbsName(n, s) == IF n = s.sname THEN "example.com" ELSE IF n = s.pubname THEN "another.example" ELSE "unrelated.example"
SanViews(kind) == CASE kind = "sn" -> {"valid"} [] kind = "pub" -> {"wrongname"} [] kind = "both" -> {"valid", "wrongname"} [] OTHER -> {}
CertAccepts(kind, vname, s) ==
  \E c \in SanViews(kind) : ShouldAccept(c, [server_name |-> AbsName(vname, s), setsni |-> "", itv |-> "", skip_time |-> FALSE, skip_verify |-> FALSE, clock |-> 0])
VerifyNameFor(accepted, s) == IF accepted THEN s.sname ELSE s.pubname

\* ---- the acceptance confirmation (RFC 9849 7.2, 7.2.1): 8 bytes the server derives with HKDF-Extract / HKDF-Expand-Label over the
\* transcript of the inner hello, written into ServerHello.random (after a HelloRetryRequest also into the HRR's
\* encrypted_client_hello extension).  HKDF and the transcript hash are those of the NEGOTIATED TLS 1.3 cipher suite - not of the
\* HPKE KDF of the ECH configuration: a client that derives it with another hash reads "not accepted" from an accepting server.
\* (The bytes themselves are not recomputed here - that would take SHA-2 in TLA+; the law is judged by its effect: both sides
\* report acceptance whenever the server holds the key, whatever suite it selects.)
HashOf(suite) == IF suite = 4866 THEN "sha384" ELSE "sha256"      \* TLS_AES_256_GCM_SHA384 | TLS_AES_128_GCM_SHA256, TLS_CHACHA20_POLY1305_SHA256
AcceptSignal(accepted, suite) == [ok |-> accepted, hash |-> HashOf(suite)]        \* what the server writes
ReadSignal(sig, hashUsed) == sig.ok /\ sig.hash = hashUsed                        \* what a client deriving it with hashUsed concludes
ClientSignalHash(s) == HashOf(s.suite)                                            \* the hash the client must use

\* ---- client
\* how the caller drives the UConn before the first hello leaves: Handshake builds the hello itself (u_conn.go handshakeContext ->
\* BuildHandshakeState); a caller may have built it before (once, twice), may have edited it (SetClientRandom, SetSNI with the
\* same name) - the hello is then marshalled again.  nb counts BuildOuter steps; none of this may change what is sent.
Usages == <<"plain", "build", "build2", "build_random", "build_setsni">>
BuildsOf(usage) == CASE usage = "plain" -> 1 [] usage = "build2" -> 3 [] OTHER -> 2
CInit == [pc |-> "init", nb |-> 0, nch |-> 0, accepted |-> FALSE, vname |-> <<>>, outcome |-> "", retry |-> <<>>, ech |-> FALSE, sni |-> <<>>]
C_BuildOuter(c) == [c EXCEPT !.pc = "built", !.nb = c.nb + 1]
C_SendCH1(c) == [c EXCEPT !.pc = "wait_sh", !.nch = 1]
C_ProcessHRR(c) == [c EXCEPT !.pc = "hrr"]
C_SendCH2(c) == [c EXCEPT !.pc = "wait_sh", !.nch = 2]
\* signal: the ServerHello (or, after a HelloRetryRequest, the HRR) carries the accept confirmation
C_ProcessServerHello(c, signal, s) == [c EXCEPT !.pc = "verify", !.accepted = signal, !.ech = signal, !.sni = VerifyNameFor(signal, s)]
C_VerifyCertificate(c, s) == LET vn == VerifyNameFor(c.accepted, s) IN
                             IF CertAccepts(s.cert, vn, s) THEN [c EXCEPT !.pc = "finish", !.vname = vn]
                             ELSE [c EXCEPT !.pc = "done", !.vname = vn, !.outcome = "CertificateVerificationError"]
C_Finish(c, retrySent) == IF c.accepted THEN [c EXCEPT !.pc = "done", !.outcome = "Done"]
                          ELSE [c EXCEPT !.pc = "done", !.outcome = "ECHRejectionError", !.retry = retrySent]
\* the client's run from the ServerHello on, given what the server did
C_Run(c, signal, retrySent, s) == LET v == C_VerifyCertificate(C_ProcessServerHello(c, signal, s), s) IN
                                  IF v.pc = "finish" THEN C_Finish(v, retrySent) ELSE v

\* ---- server
SInit == [pc |-> "wait_ch", accepted |-> FALSE, hrr |-> FALSE, ech |-> FALSE, sni |-> <<>>, retry |-> <<>>]
\* first ClientHello: trial decryption, then ServerHello or HelloRetryRequest
S_OnCH1(v, s) == [v EXCEPT !.accepted = SrvDecrypts(s), !.ech = SrvDecrypts(s), !.sni = VerifyNameFor(SrvDecrypts(s), s),
                           !.hrr = SrvSendsHRR(s), !.pc = IF SrvSendsHRR(s) THEN "wait_ch2" ELSE "send_params"]
S_OnCH2(v) == [v EXCEPT !.pc = "send_params"]
\* EncryptedExtensions: retry configs iff the offer was not accepted and the server has configs to offer
S_SendParams(v, s) == [v EXCEPT !.pc = "sent", !.retry = IF v.accepted THEN <<>> ELSE SrvRetryList(s)]

\* ---- what was observed / built on the wire
(* obs: [flight : sequence of the client's records [typ, payload],
         chs    : the ClientHello messages of the flight,
         inners : what the server decrypted and reconstructed (hook H9): [k (which hello), enc, rec],
         hrr    : 0 or the group named by the HelloRetryRequest,
         cookie : the body of the HelloRetryRequest's cookie extension, <<>> when it carries none]                           *)
ObsInit == [flight |-> <<>>, chs |-> <<>>, inners |-> <<>>, hrr |-> 0, cookie |-> <<>>]
O_Record(o, typ, payload) == [o EXCEPT !.flight = Append(o.flight, [typ |-> typ, payload |-> payload])]
O_Hello(o, raw) == [O_Record(o, 22, raw) EXCEPT !.chs = Append(o.chs, raw)]
O_Inner(o, enc, rec) == [o EXCEPT !.inners = Append(o.inners, [k |-> Len(o.chs), enc |-> enc, rec |-> rec])]
\* the server opened a hello (rec = <<>>: not reconstructed yet / never) and then reconstructed the inner hello
O_Opened(o, enc) == O_Inner(o, enc, <<>>)
O_Reconstructed(o, rec) == IF o.inners = <<>> THEN o ELSE [o EXCEPT !.inners[Len(o.inners)].rec = rec]
\* the HelloRetryRequest: the group it asks for and the body of its cookie extension (<<>> = none)
O_HRR(o, group, cookieBody) == [o EXCEPT !.hrr = group, !.cookie = cookieBody]

VARIABLES scn, cli, srv, obs
mvars == <<scn, cli, srv, obs>>

\* ======================================================================== Part 3: properties
(* Every property is an operator returning the set of its violations (empty = holds) over explicit arguments, so that the   *)
(* model checker evaluates it on the model's state and the trace specification on what was recorded from the real library;   *)
(* the state predicates below are the INVARIANTs of ECH_MC.                                                                 *)

\* ---- C15 a: nothing the client sends in the clear contains Config.ServerName (records of type application_data are
\*      protected in TLS 1.3; everything else - ClientHello(s), ChangeCipherSpec, plaintext alerts - is searched)
P_NoLeak(o, s) == {<<"plaintext-record-contains-ServerName", i>> : i \in {i \in DOMAIN o.flight : o.flight[i].typ # 23 /\ ContainsCI(o.flight[i].payload, s.sname)}}

\* ---- C15 b: every outer hello carries the public name as SNI and a well-formed outer ECH extension for the configuration
\*      (h: the parsed hello, e: its outer ECH extension, c: the client's configuration, k: 1 = first hello).
\*      The ECH extension of a second hello is judged only when the server accepted the offer (strict): what a client
\*      puts there after a HelloRetryRequest of a server that cannot decrypt is outside the property.
\*      A second hello echoes the cookie of the HelloRetryRequest (RFC 8446 4.2.2), whoever the server is.
OuterProblems(h, e, c, k, strict, cookieBody) ==
  IF ~h.ok THEN {"outer-hello-unparsable"} ELSE
     (IF SNIOf(h) # c.pubname THEN {"outer-sni-is-not-the-public-name"} ELSE {})
  \cup (IF k > 1 /\ cookieBody # <<>> /\ (~HasExtT(h, 44) \/ (HasExtT(h, 44) /\ ExtBody(h, 44) # cookieBody))
        THEN {"second-hello-does-not-echo-the-cookie"} ELSE {})
  \cup (IF ~strict THEN {}
        ELSE IF ~e.ok THEN {"outer-ech-extension-missing-or-malformed"}
        ELSE (IF e.id # c.id THEN {"outer-ech-config-id"} ELSE {})
          \cup (IF e.kdf # PickSuite(c).kdf \/ e.aead # PickSuite(c).aead THEN {"outer-ech-cipher-suite"} ELSE {})
          \cup (IF k = 1 /\ Len(e.enc) # 32 THEN {"outer-ech-enc-length"} ELSE {})
          \cup (IF k > 1 /\ e.enc # <<>> THEN {"second-hello-repeats-enc"} ELSE {}))
P_Outer(o, s) == UNION {OuterProblems(ParseHello(o.chs[k]), OuterECHOf(ParseHello(o.chs[k])), Cfg(s), k, k = 1 \/ SrvDecrypts(s), o.cookie) : k \in DOMAIN o.chs}

\* ---- C15 c: the inner hello the server obtains names ServerName, is an inner hello, offers TLS 1.3 only, and is exactly the
\*      reference reconstruction; every compressed extension has the same body inside and outside
\*      (inn: [k, enc, rec]; oh: parsed outer hello k; e: parsed encoded inner; h: parsed reconstructed inner)
InnerProblems(inn, oh, e, h, s, hrrGroup, cookieBody) ==
  IF ~oh.ok THEN {"outer-hello-unparsable"} ELSE
  \* the server opened the payload but produced no inner hello: the reference says why it could not (or that it should have)
  IF inn.rec = <<>> THEN (IF ~e.ok THEN {"encoded-inner-malformed"}
                          ELSE IF ~ExpandOK(e, oh) THEN {"ech-outer-extensions-illegal-reference"}
                          ELSE {"server-did-not-reconstruct-a-legal-encoded-inner"}) ELSE
  IF ~h.ok THEN {"inner-hello-unparsable"} ELSE
     (IF SNIOf(h) # s.sname THEN {"inner-hello-does-not-name-ServerName"} ELSE {})
  \cup (IF ~HasExtT(h, ExtECH) \/ (HasExtT(h, ExtECH) /\ ExtBody(h, ExtECH) # <<1>>) THEN {"inner-hello-lacks-inner-ech-marker"} ELSE {})
  \cup (IF ~HasExtT(h, 43) \/ (HasExtT(h, 43) /\ ExtBody(h, 43) # <<2, 3, 4>>) THEN {"inner-hello-offers-more-than-tls13"} ELSE {})
  \cup (IF h.sid # oh.sid THEN {"inner-session-id-differs"} ELSE {})
  \cup (IF ~e.ok THEN {"encoded-inner-malformed"}
        ELSE (IF ~AllZero(e.pad) THEN {"encoded-inner-padding-not-zero"} ELSE {})
          \cup (IF ~ExpandOK(e, oh) THEN {"ech-outer-extensions-illegal-reference"}
                ELSE (IF Reconstruct(oh, e) # inn.rec THEN {"reconstructed-inner-differs-from-reference"} ELSE {})
                  \cup (IF \E t \in Range(Compressed(e)) : ~HasExtT(h, t) \/ (HasExtT(h, t) /\ ExtBody(h, t) # ExtBody(oh, t))
                        THEN {"compressed-extension-body-differs"} ELSE {}))
          \cup (IF OuterECHOf(oh).ok /\ Len(OuterECHOf(oh).payload) # Len(inn.enc) + TagLen THEN {"payload-length"} ELSE {}))
  \* after a HelloRetryRequest the inner hello must answer it: exactly one share, of the requested group (RFC 8446 4.1.4)
  \cup (IF inn.k = 2 /\ KeyShareGroups(h) # <<hrrGroup>> THEN {"second-inner-hello-key-share-does-not-answer-hrr"} ELSE {})
  \* ... and echoes its cookie: the compressed extension list of the second inner hello expands to the values of the second
  \* outer hello INCLUDING the cookie (the backend server sees the cookie the client-facing server handed out)
  \cup (IF inn.k = 2 /\ cookieBody # <<>> /\ (~HasExtT(h, 44) \/ (HasExtT(h, 44) /\ ExtBody(h, 44) # cookieBody))
        THEN {"second-inner-hello-does-not-echo-the-cookie"} ELSE {})
P_Inner(o, s) == UNION {InnerProblems(o.inners[j], ParseHello(o.chs[o.inners[j].k]), ParseEncodedInner(o.inners[j].enc),
                                      ParseHello(o.inners[j].rec), s, o.hrr, o.cookie) : j \in DOMAIN o.inners}

\* ---- a server holding the key obtains an inner hello from every hello it has processed (nHellos of them); another server none
P_Decrypt(o, s, nHellos) ==
     (IF SrvDecrypts(s) THEN {<<"server-holding-the-key-could-not-open-hello", k>> : k \in {k \in 1..nHellos : ~\E j \in DOMAIN o.inners : o.inners[j].k = k}} ELSE {})
  \cup (IF ~SrvDecrypts(s) /\ o.inners # <<>> THEN {<<"server-without-the-key-opened-a-hello", 0>>} ELSE {})

\* ---- C15 d / C14: the outcome (c: the client's report, v: the server's report)
\* acceptance is what the server decided; the certificate is checked against ServerName iff ECH was accepted, else against the
\* public name; completion only with acceptance; a rejection surfaces as ECHRejectionError
ExpectedOutcome(s) == IF ~CertAccepts(s.cert, VerifyNameFor(SrvDecrypts(s), s), s) THEN "CertificateVerificationError"
                      ELSE IF SrvDecrypts(s) THEN "Done" ELSE "ECHRejectionError"
Verified(outcome) == outcome \in {"Done", "ECHRejectionError"}
P_Outcome(c, s) ==
  IF c.pc # "done" \/ c.outcome = ExpectedOutcome(s) THEN {}
  \* the verdict of certificate verification is not the one the name rule demands: a C14 matter
  ELSE IF (Verified(ExpectedOutcome(s)) /\ c.outcome = "CertificateVerificationError") \/ (~Verified(ExpectedOutcome(s)) /\ Verified(c.outcome))
       THEN {<<"verify-name", ExpectedOutcome(s), c.outcome>>}
  ELSE {<<"outcome", ExpectedOutcome(s), c.outcome>>}
\* both sides report acceptance and the real name once the handshake is complete
P_AcceptReported(c, v, s) ==
  IF c.outcome # "Done" THEN {} ELSE
     (IF ~c.ech THEN {"client-does-not-report-ECHAccepted"} ELSE {}) \cup (IF ~v.ech THEN {"server-does-not-report-ECHAccepted"} ELSE {})
  \cup (IF c.sni # s.sname THEN {"client-ServerName-is-not-Config.ServerName"} ELSE {})
  \cup (IF v.sni # s.sname THEN {"server-ServerName-is-not-Config.ServerName"} ELSE {})
\* a rejection is reported as such, with exactly the retry configs of the server
P_Rejection(c, v, s) ==
  IF c.outcome # "ECHRejectionError" THEN {} ELSE
     (IF c.ech THEN {"client-reports-ECHAccepted-on-rejection"} ELSE {}) \cup (IF v.ech THEN {"server-reports-ECHAccepted-on-rejection"} ELSE {})
  \cup (IF c.retry # SrvRetryList(s) THEN {"ECHRejectionError-does-not-carry-the-server-retry-configs"} ELSE {})
\* (model only: the verification name is not observable on the real client, its effect is - P_Outcome)
P_VerifyName(c, s) == IF c.vname = <<>> \/ c.vname = VerifyNameFor(c.accepted, s) THEN {} ELSE {"wrong-verification-name"}

NoLeak == P_NoLeak(obs, scn) = {}
OuterOK == P_Outer(obs, scn) = {}
InnerOK == P_Inner(obs, scn) = {}
DecryptOK == P_Decrypt(obs, scn, IF srv.pc = "wait_ch" THEN 0 ELSE IF srv.pc = "wait_ch2" THEN 1 ELSE Len(obs.chs)) = {}
OutcomeRule == P_Outcome(cli, scn) = {} /\ (cli.pc = "done" => cli.accepted = SrvDecrypts(scn))
AcceptReported == P_AcceptReported(cli, srv, scn) = {}
RejectionCarriesRetry == P_Rejection(cli, srv, scn) = {}
VerifyNameRule == P_VerifyName(cli, scn) = {}
=============================================================================
