CONSTANT AtomicReply = FALSE
CONSTANT NKU = 2
CONSTANT NWR = 3
INIT InitMC
NEXT NextD
INVARIANT SafetyPost
