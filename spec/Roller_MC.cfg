\* safety: all Dial histories of length <= MaxSteps, 2 concurrent callers, 3 IDs
CONSTANTS
  IDs = {"Chrome-120", "Firefox-120", "iOS-14"}
  None = "-"
  MaxSteps = 2
  MaxCallers = 2
INIT Init
NEXT Next
INVARIANTS StartsWithWorking AtMostOnce FirstSuccess TcpErrorImmediate Recorded SeqPrefers
CHECK_DEADLOCK FALSE
