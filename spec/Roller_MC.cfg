\* safety: all Dial histories of length <= MaxSteps, 2 concurrent callers, 3 IDs
CONSTANTS
  IDs = {"Chrome-120", "Firefox-120", "Randomized"}
  RandIDs = {"Randomized"}
  Stalls = {{}, {"Chrome-120"}}
  Seeds = {1, 2, 3, 4, 5, 6}
  Canon = TRUE
  MaxSteps = 2
  MaxCallers = 2
INIT Init
NEXT Next
INVARIANTS StartsWithWorking SameSeedAgain WorkingIsConcrete AtMostOnce FirstSuccess TcpErrorImmediate Recorded SeqPrefers
CHECK_DEADLOCK FALSE
