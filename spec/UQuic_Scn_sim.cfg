\* scenario emission: planned pump in free order, random paths (run with -simulate num=N -depth 150 -seed VERIF_SEED)
CONSTANTS
  FixEarlyReturn = TRUE
  Builds = {"ok"}
  HRRs = {FALSE, TRUE}
  MaxCut = 3
  Planned = TRUE
  Eager = FALSE
  MaxAt = 70
  EmitOn = TRUE
INIT MCInit
NEXT MCNext
CONSTRAINT EmitScn
CHECK_DEADLOCK FALSE
