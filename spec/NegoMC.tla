------------------------------- MODULE NegoMC -------------------------------
(***************************************************************************)
(* Bounded exhaustive configuration of the Negotiation specification.      *)
(* One behaviour = one handshake of one predefined parrot (offer taken     *)
(* from the dumped spec) against one server configuration; the server is   *)
(* the in-tree Go server, possibly with verif overrides, abstracted to     *)
(* the messages it sends.  TLC enumerates the scenario grid of a property  *)
(* family (CONSTANT Mode) as initial states, walks the protocol with the   *)
(* client's required decisions (Check* of module Negotiation), checks the  *)
(* model-level invariants and prints every scenario for replay on the      *)
(* real code.                                                              *)
(***************************************************************************)
EXTENDS Negotiation
CONSTANT Mode     \* "c10" | "c12" | "c13" | "c17"

H2 == <<104,50>>
HTTP11 == <<104,116,116,112,47,49,46,49>>

SpecOffer(id) ==
  LET sp == Specs[id] IN
  [ok |-> TRUE, versions |-> Advertised(sp), legacy |-> LegacyVersion(sp), suites |-> Suites(sp), groups |-> Groups(sp),
   shares |-> ShareGroups(sp), shareSeq |-> <<>>, alpn |-> ALPNs(sp), comp |-> Range(sp.comp), certcomp |-> CompAlgs(sp),
   sid |-> IF 772 \in Advertised(sp) THEN <<7>> ELSE <<>>, npsk |-> 0, sni |-> <<>>, hasSV |-> HasExt(sp, "SupportedVersionsExtension"),
   ems |-> HasExt(sp, "ExtendedMasterSecretExtension"),
   sigalgs |-> IF HasExt(sp, "SignatureAlgorithmsExtension") THEN Range(TheExt(sp, "SignatureAlgorithmsExtension").f.SupportedSignatureAlgorithms) ELSE {},
   hasSigAlgs |-> HasExt(sp, "SignatureAlgorithmsExtension"),
   alps |-> (IF HasExt(sp, "ApplicationSettingsExtension") THEN {17513} ELSE {}) \cup (IF HasExt(sp, "ApplicationSettingsExtensionNew") THEN {17613} ELSE {})]

\* what the in-tree server implements
Impl13 == {s \in {SuiteTab[i].ID : i \in DOMAIN SuiteTab} : SuiteRec(s).TLS13}
Impl12 == {s \in {SuiteTab[i].ID : i \in DOMAIN SuiteTab} : ~SuiteRec(s).TLS13 /\ SuiteRec(s).InDefaultTable}
Classical == {29, 23, 24, 25}

Base == [sc |-> 0, mode |-> "compliant", id |-> "", sni |-> "example.com", ver |-> 0, vmin |-> 0, vmax |-> 0, suite |-> 0, group |-> 0,
         cert |-> "ecdsa", alpn |-> <<>>, force_suite |-> 0, force_group |-> 0, force_alpn |-> "", hrr_cookie |-> 0,
         legacy_only |-> FALSE, canary |-> 0, sid_echo |-> "", compression |-> 0, psk_index |-> 0, hrr_group |-> 0,
         omit |-> TRUE, remove_sni |-> FALSE, ekm |-> 0, kx_share |-> "", kx_secret |-> "", kx_kem |-> "", edit |-> "", resume_ver |-> 0,
         alps_cp |-> 0, alps12 |-> FALSE, client_alps |-> "", alps_settings |-> <<>>, client_auth |-> 0, resume |-> FALSE]

\* ---- the compliant grid (C10, C11, C18): every choice the hello offers and the server can make
CertKinds(suite, ver) == IF ver = 772 THEN {"ecdsa", "rsa", "ed25519"}
                         ELSE IF SuiteRec(suite).ECSign THEN {"ecdsa"} ELSE {"rsa"}
GroupChoices(o, suite, ver) == IF ver = 772 THEN o.groups \cap ImplGroups
                               ELSE IF SuiteRec(suite).ECDHE THEN o.groups \cap Classical ELSE {0}
Offers == [id \in IDs |-> SpecOffer(id)]
\* edits of uconn.Extensions after an explicit build: the offer on the wire is the edited one
LastGroup(id) == IF HasExt(Specs[id], "SupportedCurvesExtension")
                 THEN LET c == TheExt(Specs[id], "SupportedCurvesExtension").f.Curves IN IF Len(c) > 0 THEN c[Len(c)] ELSE 0
                 ELSE 0
EditOffer(of, e, id) == IF e = "alpn-http11" THEN [of EXCEPT !.alpn = {HTTP11}]
                        ELSE IF e = "groups-drop-last" THEN [of EXCEPT !.groups = @ \ {LastGroup(id)}]
                        ELSE of
GridFor(id) ==
  LET o == Offers[id] IN
  UNION {UNION {{[Base EXCEPT !.id = id, !.ver = v, !.suite = s, !.group = g, !.cert = c, !.alpn = a] :
                    g \in GroupChoices(o, s, v),
                    c \in {k \in CertKinds(s, v) : CertSigOK(o, k, v)},
                    a \in {<<>>} \cup (IF o.alpn # {} THEN {<<"h2", "http/1.1">>} ELSE {})}
                : s \in {t \in o.suites \cap (Impl13 \cup Impl12) : SuiteFitsVersion(t, v)}}
         : v \in o.versions \cap (769..772)}
C10Set == UNION {GridFor(id) : id \in IDs}

\* one representative compliant choice per (id, version) used as the base of adversarial scenarios
Key(x) == (x.suite * 7000 + x.group) * 2 + (IF x.cert = "ecdsa" THEN 0 ELSE 1)
Rep(id, v) == LET S == {x \in GridFor(id) : x.ver = v /\ x.alpn = <<>> /\ x.cert \in {"ecdsa", "rsa"}} IN
              IF S = {} THEN {} ELSE {CHOOSE x \in S : \A y \in S : Key(x) <= Key(y)}
Reps == UNION {Rep(id, v) : id \in IDs, v \in {771, 772}}
Adv(x) == [x EXCEPT !.mode = "adversarial"]

\* ---- the adversarial grid (C12): one deviation from a representative compliant choice
C12Set ==
  LET dev(x) == LET o == Offers[x.id] IN
        \* unoffered cipher suite the server implements at that version
        {[Adv(x) EXCEPT !.force_suite = s] : s \in (IF x.ver = 772 THEN Impl13 ELSE {t \in Impl12 : SuiteFitsVersion(t, x.ver) /\ (SuiteRec(t).ECSign <=> x.cert = "ecdsa")}) \ o.suites}
        \* unoffered group in the TLS 1.3 key_share / as TLS 1.2 curve; HRR naming an unoffered or already shared group
        \cup {[Adv(x) EXCEPT !.force_group = g] : g \in (IF x.ver = 772 THEN ImplGroups ELSE (IF SuiteRec(x.suite).ECDHE THEN Classical ELSE {})) \ (o.groups \cup (IF x.ver = 772 THEN o.shares ELSE {}))}
        \* (the server really wants a group g0 the hello lists without a share, the HRR on the wire names g instead;
        \*  every share the hello carries is tried as g, so is every classical group it does not list)
        \cup (IF x.ver = 772 THEN {[Adv(x) EXCEPT !.group = g0, !.hrr_group = g] :
                                      g0 \in {h \in (o.groups \cap ImplGroups) \ o.shares : \A k \in (o.groups \cap ImplGroups) \ o.shares : h <= k},
                                      g \in (o.shares \cap ImplGroups) \cup ((ImplGroups \ o.groups) \cap Classical)} ELSE {})
        \* unoffered ALPN protocol
        \cup {[Adv(x) EXCEPT !.force_alpn = "zz", !.alpn = <<"zz">>]}
        \* the caller edited the built hello before Handshake (uconn.Extensions): the server picks what only the FIRST
        \* build offered - h2 after the ALPN list was cut down to http/1.1, the group that was removed from supported_groups
        \cup (IF {H2, HTTP11} \subseteq o.alpn THEN {[Adv(x) EXCEPT !.edit = "alpn-http11", !.force_alpn = "h2", !.alpn = <<"h2">>]} ELSE {})
        \cup (IF x.ver = 772 /\ LastGroup(x.id) \in (Classical \cap ImplGroups) \ o.shares /\ Cardinality(o.groups) > 1
              THEN {[Adv(x) EXCEPT !.edit = "groups-drop-last", !.force_group = LastGroup(x.id)]} ELSE {})
        \* session id not echoed, compression method, PSK identity nobody offered
        \cup (IF x.ver = 772 THEN {[Adv(x) EXCEPT !.sid_echo = "flip"], [Adv(x) EXCEPT !.psk_index = 1], [Adv(x) EXCEPT !.psk_index = 3]} ELSE {})
        \* the same after a real TLS 1.3 session was cached (the hello of a PSK parrot then carries one identity): the server
        \* resumes that session but names identity 1 or 7, which nobody offered
        \cup (IF x.ver = 772 THEN {[Adv(x) EXCEPT !.resume = TRUE, !.resume_ver = 772, !.psk_index = 2],
                                   [Adv(x) EXCEPT !.resume = TRUE, !.resume_ver = 772, !.psk_index = 8]} ELSE {})
        \cup {[Adv(x) EXCEPT !.compression = 1]}
        \* the same deviations in the ServerHello that follows a (valid) HelloRetryRequest
        \cup (IF x.ver = 772 THEN
                UNION {{[Adv(x) EXCEPT !.group = g0, !.sid_echo = "flip"], [Adv(x) EXCEPT !.group = g0, !.compression = 1],
                        [Adv(x) EXCEPT !.group = g0, !.psk_index = 1], [Adv(x) EXCEPT !.group = g0, !.force_alpn = "zz", !.alpn = <<"zz">>]}
                       : g0 \in {h \in (o.groups \cap ImplGroups) \ o.shares : \A k \in (o.groups \cap ImplGroups) \ o.shares : h <= k}}
              ELSE {})
  IN UNION {dev(x) : x \in Reps}

\* ---- versions (C13): any server version, honest or negotiating from legacy_version, with/without sentinel
\* the server takes any suite of the offer that fits its version (0: none, it refuses)
AnySuite(id, v) == LET S == {s \in Offers[id].suites \cap (Impl13 \cup Impl12) : SuiteFitsVersion(s, v)} IN
                   IF S = {} THEN 0 ELSE CHOOSE s \in S : \A t \in S : s <= t
AnyGroup(id, v, s) == IF s = 0 THEN 0 ELSE
                      LET G == IF v = 772 THEN Offers[id].shares \cap ImplGroups
                               ELSE IF SuiteRec(s).ECDHE THEN Offers[id].groups \cap Classical ELSE {} IN
                      IF G = {} THEN 0 ELSE CHOOSE g \in G : \A h \in G : g <= h
C13Set == {[Adv(Base) EXCEPT !.id = id, !.ver = v, !.legacy_only = lo, !.canary = cn, !.suite = AnySuite(id, v),
                             !.group = AnyGroup(id, v, AnySuite(id, v)),
                             !.cert = IF AnySuite(id, v) # 0 /\ v < 772 /\ ~SuiteRec(AnySuite(id, v)).ECSign THEN "rsa" ELSE "ecdsa"] :
             id \in IDs, v \in 769..772, lo \in BOOLEAN, cn \in {0, 1, 2, 3}}
          \* the same TLS 1.2 answers when the server can resume a session of an earlier TLS 1.2 connection
          \cup {[Adv(Base) EXCEPT !.id = id, !.ver = 771, !.legacy_only = lo, !.canary = cn, !.suite = AnySuite(id, 771),
                                  !.group = AnyGroup(id, 771, AnySuite(id, 771)), !.resume = TRUE,
                                  !.cert = IF AnySuite(id, 771) # 0 /\ ~SuiteRec(AnySuite(id, 771)).ECSign THEN "rsa" ELSE "ecdsa"] :
                  id \in {i \in IDs : 771 \in Offers[i].versions}, lo \in BOOLEAN, cn \in {0, 1, 2, 3}}

\* ---- HelloRetryRequest (C17): every offered classical group without a share, with and without cookie
C17Set == UNION {{[x EXCEPT !.group = g, !.hrr_cookie = ck] : g \in (Offers[x.id].groups \cap Classical) \ Offers[x.id].shares, ck \in {0, 1, 255, 4000}}
                 : x \in {y \in Reps : y.ver = 772}}

\* ---- application settings (C22): ALPS parrots x offered code point x client settings map x ALPN x version
SRVS == <<83, 82, 86, 83>>
C22Set == UNION {{[Adv(x) EXCEPT !.alps_cp = cp, !.client_alps = cm, !.alpn = a, !.alps_settings = st, !.alps12 = (x.ver < 772)] :
                     cp \in Offers[x.id].alps, cm \in {"has", "lacks", "empty"},
                     a \in {<<"h2">>, <<"http/1.1">>, <<>>}, st \in {SRVS, <<>>}}
                 : x \in {y \in Reps : Offers[y.id].alps # {}}}

\* ---- hybrid groups the in-tree server lacks (C18): the test server's key-exchange hook answers the share by the
\*      layout of the scenario; the layout the drafts prescribe is "compliant", every other combination of secret order
\*      and KEM variant is a server the client cannot share keys with
C18KxSet == UNION {{[Base EXCEPT !.id = id, !.ver = 772, !.suite = s, !.group = g, !.kx_share = HybridLayout(g).share,
                                 !.kx_secret = sec, !.kx_kem = kem,
                                 !.mode = IF sec = HybridLayout(g).secret /\ kem = HybridLayout(g).kem THEN "compliant" ELSE "adversarial"] :
                      g \in Offers[id].shares \cap SpecServerGroups, s \in Offers[id].suites \cap Impl13,
                      sec \in {"pq-first", "classical-first"}, kem \in {"mlkem768", "kyber768r3"}}
                   : id \in IDs}

Scenarios == CASE Mode = "c18kx" -> C18KxSet [] Mode = "c10" -> C10Set [] Mode = "c12" -> C12Set [] Mode = "c13" -> C13Set [] Mode = "c17" -> C17Set [] Mode = "c22" -> C22Set

\* ------------------------------------------------------------ abstract server messages
X(t, b) == [bad |-> FALSE, type |-> t, body |-> b]
SrvGroup(x) == IF x.force_group # 0 THEN x.force_group ELSE x.group
SrvSuite(x) == IF x.force_suite # 0 THEN x.force_suite ELSE x.suite
\* version the server settles on, 0 = it refuses
SrvVersion(x, o) == IF x.legacy_only THEN (IF x.ver <= o.legacy THEN x.ver ELSE 0)
                    ELSE IF x.ver \in o.versions THEN x.ver ELSE 0
SrvALPN(x, o) == IF x.force_alpn = "h2" THEN H2 ELSE IF x.force_alpn # "" THEN <<122,122>>
                 ELSE IF x.alpn = <<>> \/ o.alpn = {} THEN <<>>
                 ELSE IF H2 \in o.alpn THEN H2 ELSE IF HTTP11 \in o.alpn THEN HTTP11 ELSE <<0>>   \* <<0>>: no overlap, server refuses
\* the scenario's server supports exactly one version, so it sets the sentinel only when forced (canary = 2)
\* canary = 3: the sentinel of the other version class (RFC 8446 4.1.3: a client that offered TLS 1.3 refuses either value)
CanaryBytes(x, v) == IF x.canary = 2 /\ v < 772 THEN (IF v = 771 THEN Canary12 ELSE Canary11)
                     ELSE IF x.canary = 3 /\ v < 772 THEN (IF v = 771 THEN Canary11 ELSE Canary12)
                     ELSE <<1,2,3,4,5,6,7,8>>
MkHRR(x, o) == [ok |-> TRUE, vers |-> 771, random |-> HRRRandom, sid |-> o.sid, suite |-> SrvSuite(x), comp |-> 0,
                exts |-> <<X(43, U16(772)), X(51, U16(IF x.hrr_group # 0 THEN x.hrr_group ELSE SrvGroup(x)))>>
                         \o (IF x.hrr_cookie > 0 THEN <<X(44, Vec16([i \in 1..x.hrr_cookie |-> 192 + ((i-1) % 32)]))>> ELSE <<>>)]
MkSH(x, o, v) == [ok |-> TRUE, vers |-> IF v = 772 THEN 771 ELSE v,
                  random |-> [i \in 1..24 |-> 9] \o CanaryBytes(x, v),
                  sid |-> IF v = 772 THEN (IF x.sid_echo = "flip" THEN <<8>> ELSE o.sid) ELSE <<5>>,
                  suite |-> SrvSuite(x), comp |-> x.compression,
                  exts |-> IF v = 772 THEN <<X(43, U16(772)), X(51, U16(SrvGroup(x)) \o <<0,1,9>>)>>
                                           \o (IF x.psk_index # 0 THEN <<X(41, U16(x.psk_index - 1))>> ELSE <<>>)
                           ELSE (IF SrvALPN(x, o) \notin {<<>>, <<0>>} THEN <<X(16, Vec16(Vec8(SrvALPN(x, o))))>> ELSE <<>>)]
MkEE(x, o) == (IF SrvALPN(x, o) \notin {<<>>, <<0>>} THEN <<X(16, Vec16(Vec8(SrvALPN(x, o))))>> ELSE <<>>)
              \o (IF x.alps_cp # 0 THEN <<X(x.alps_cp, x.alps_settings)>> ELSE <<>>)

\* ------------------------------------------------------------ the walk
VARIABLES scn, phase, o, hrr, hrrSeen, sh, must
vars == <<scn, phase, o, hrr, hrrSeen, sh, must>>
Terminal == phase \in {"done", "aborted", "refused"}
Init == /\ scn \in Scenarios /\ phase = "ch1" /\ o = EditOffer(Offers[scn.id], scn.edit, scn.id) /\ hrr = BadSH /\ hrrSeen = FALSE /\ sh = BadSH /\ must = ""

\* the server's first answer: refusal, HelloRetryRequest or ServerHello
ServerFirst ==
  /\ phase = "ch1"
  /\ LET v == SrvVersion(scn, o) IN
     IF v = 0 \/ SrvSuite(scn) = 0 \/ SrvALPN(scn, o) = <<0>> \/ (scn.mode = "compliant" /\ ~ServerCanSelect(o, scn))
     THEN phase' = "refused" /\ UNCHANGED <<scn, o, hrr, hrrSeen, sh, must>>
     ELSE IF v = 772 /\ SrvGroup(scn) \notin o.shares
     THEN /\ hrr' = MkHRR(scn, o) /\ hrrSeen' = TRUE /\ must' = CheckHRR(o, MkHRR(scn, o), 0)
          /\ phase' = "hrr" /\ UNCHANGED <<scn, o, sh>>
     ELSE /\ sh' = MkSH(scn, o, v) /\ must' = CheckSH(o, MkSH(scn, o, v), FALSE, BadSH)
          /\ phase' = "sh" /\ UNCHANGED <<scn, o, hrr, hrrSeen>>
\* SendCH2: the client answers a valid HRR with a share for the requested group
ClientCH2 ==
  /\ phase = "hrr"
  /\ IF must # "" THEN phase' = "aborted" /\ UNCHANGED <<scn, o, hrr, hrrSeen, sh, must>>
     ELSE /\ o' = [o EXCEPT !.shares = {SHGroup(hrr)}]
          /\ phase' = "ch2" /\ UNCHANGED <<scn, hrr, hrrSeen, sh, must>>
ServerSecond ==
  /\ phase = "ch2"
  /\ sh' = MkSH(scn, o, 772) /\ must' = CheckSH(o, MkSH(scn, o, 772), TRUE, hrr)
  /\ phase' = "sh" /\ UNCHANGED <<scn, o, hrr, hrrSeen>>
\* EncryptedExtensions (TLS 1.3) then the rest of the flight; certificates are valid in this family
ClientFinish ==
  /\ phase = "sh"
  /\ LET m == IF must # "" THEN must
              ELSE IF SHVersion(sh) = 772 /\ CheckKx(scn, SHGroup(sh)) # "" THEN CheckKx(scn, SHGroup(sh))
              ELSE IF SHVersion(sh) = 772 THEN CheckEE(o, MkEE(scn, o)) ELSE "" IN
     /\ must' = m /\ phase' = (IF m = "" THEN "done" ELSE "aborted")
  /\ UNCHANGED <<scn, o, hrr, hrrSeen, sh>>
Next == ServerFirst \/ ClientCH2 \/ ServerSecond \/ ClientFinish

\* ------------------------------------------------------------ model-level properties
\* C12/C13 stated without the Check* operators: a completed handshake only has offered values
\* (a key share offers its group even when supported_groups omits it: randomized specs produce such hellos, which is
\*  reported under C09; here the share counts as the offer, as it does for the client and for RFC 8446 4.2.8)
Offered == phase = "done" =>
   /\ SHVersion(sh) \in o.versions
   /\ sh.suite \in Offers[scn.id].suites
   /\ sh.comp = 0
   /\ (SHVersion(sh) = 772 => sh.sid = o.sid /\ SHGroup(sh) \in Offers[scn.id].groups \cup Offers[scn.id].shares /\ SHPsk(sh) < 0)
   /\ (SrvALPN(scn, o) # <<>> => SrvALPN(scn, o) \in o.alpn)
   /\ (hrrSeen => SHGroup(hrr) \in Offers[scn.id].groups \ Offers[scn.id].shares)
   /\ ~(SHVersion(sh) < 772 /\ 772 \in o.versions /\ HasCanary(sh))
\* C10: a compliant server's flight never gives the client a reason to abort
CompliantCompletes == (scn.mode = "compliant" /\ Terminal) => phase = "done"
\* adversarial single deviations of C12 are all detected
DeviationDetected == (Mode = "c12" /\ Terminal) => phase # "done"
\* C17: a valid HRR leads to completion
HRRCompletes == (Mode = "c17" /\ Terminal) => (phase = "done" /\ hrrSeen)
\* C22: application settings are accepted exactly when TLS 1.3 and an ALPN protocol were negotiated
\* C18, hybrid group of the spec server: the client shares keys exactly with the layout the drafts prescribe
KxRule == (Mode = "c18kx" /\ Terminal) => (phase = "done" <=> scn.mode = "compliant")
ALPSRule == (Mode = "c22" /\ Terminal /\ SHVersion(sh) = 772) => (phase = "done" <=> SrvALPN(scn, o) \notin {<<>>, <<0>>})

Emit == Terminal => PrintT(<<"SCN", ToJson([scn EXCEPT !.sc = 0] @@ [expect |-> phase, why |-> must])>>)

\* C13 at the level of the tables: the range a parrot's Config accepts (SetTLSVers) is advertised
AcceptRange(sp) == {v \in 769..772 : v >= EffMin(sp) /\ v <= EffMax(sp)}
UnadvertisedAccept == {p \in IDs \X (769..772) : p[2] \in AcceptRange(Specs[p[1]]) \ Advertised(Specs[p[1]])}
ASSUME PrintT(<<"UNADVERTISED", ToJson(UnadvertisedAccept)>>)
=============================================================================
