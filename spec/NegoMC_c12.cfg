CONSTANT Mode = "c12"
INIT Init
NEXT Next
CONSTRAINT Emit
INVARIANT Offered
INVARIANT CompliantCompletes
INVARIANT DeviationDetected
INVARIANT HRRCompletes
CHECK_DEADLOCK FALSE
