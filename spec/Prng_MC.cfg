CONSTANTS
  Threads = {"t1", "t2"}
  Lens = {0, 1, 2}
  MaxCalls = 2
  Mutex = TRUE
SPECIFICATION ISpec
PROPERTY Refines
INVARIANT SliceInv
INVARIANT MutexInv
CHECK_DEADLOCK FALSE
