-------------------------- MODULE UConnBuild_Trace --------------------------
(***************************************************************************)
(* Trace specification of UConnBuild (property C01).                       *)
(* Events (harness/cmd/uconn, command build; chronological per scenario):  *)
(*   Scn      the scenario: id, class, server, the calls to make           *)
(*   New      the UConn as UClient returns it (Hello.Raw)                  *)
(*   Seed     (only with a cached session) the earlier connection is over  *)
(*   Call i   the i-th call returned: error, Hello.Raw and the hello fields *)
(*            after it, what the edit found                                *)
(*   Rebuilt  hook H1: Hello.Raw right after the internal                  *)
(*            BuildHandshakeState of Handshake (the bytes)                 *)
(*   AtSend   hook H2 on the client: a ClientHello message goes to the     *)
(*            record layer; Hello.Raw at that moment                       *)
(*   Rec k    k-th handshake record the client handed to the transport     *)
(*            (first four bytes and length as numbers)                     *)
(*   SH       a ServerHello / HelloRetryRequest the server sent            *)
(*   Done     Handshake returned: errors, Hello.Raw afterwards             *)
(* Every byte string is logged with its length n and its SHA-256 digest    *)
(* sha (the harness also logs it in full, kept for replays); the identity  *)
(* of a serialisation is its digest.                                       *)
(* Every event is bound to the action of UConnBuild that explains it; the  *)
(* three invariants of UConnBuild are evaluated on the resulting state.    *)
(* Nothing stops at a rejection: violated invariants and events no action  *)
(* explains are collected in rej as <<scenario, kind, detail>>.            *)
(* Byte equality is equality of the digests of the recorded byte strings;  *)
(* "visible" is judged on TLSWire!ParseHello of the bytes recorded by H1.  *)
(***************************************************************************)
EXTENDS UConnBuild, Json
Trace == ndJsonDeserialize("uconn_trace.ndjson")

VARIABLES l, rej, scn, stats,
          berr,    \* error of the explicit build call that was the last call and failed ("": none)
          atsend   \* Hello.Raw as the client's outgoing-message hook saw it when the next ClientHello was written
NoScn == [sc |-> -1, cls |-> "", ops |-> <<>>]

StatKeys == {"random", "sid", "suites", "sni", "nosni", "ext", "noext", "front",
             "ApplyPreset", "Build", "BuildNoSess", "SetClientRandom", "SetSNI", "RemoveSNI", "EditSuites", "EditSessionId",
             "ExtInsert", "ExtRemove", "ExtALPN", "ExtSNIField", "InPlace", "inplace_found", "BBuild", "BPoke", "Break", "unbuildable", "refused", "build_failed", "build_err_unexplained", "sni_literal", "unprotected", "scn", "ch1", "ch2", "hrr", "hrr_cookie", "done", "done_hrr", "failed", "rebuilt", "seeded", "psk"}
Bump(ks) == stats' = [k \in StatKeys |-> stats[k] + (IF k \in ks THEN 1 ELSE 0)]

Init == /\ l = 1 /\ rej = {} /\ scn = NoScn /\ stats = [k \in StatKeys |-> 0] /\ atsend = NoSer /\ berr = ""
        /\ Init0("")

\* ---- what the specification has against the current state
Viol == (IF ~NothingSentWhenRefused THEN {<<scn.sc, "RebuildMustFail", "hello-sent-although-refused">>} ELSE {}) \cup
        (IF ~WireIsRaw THEN {<<scn.sc, "WireIsRaw", IF wire[1].id # rebuilt.id THEN "first-hello-differs-from-rebuilt-raw"
                                                     ELSE "hello-differs-from-raw-when-written">>} ELSE {})
   \cup (IF ~EditsVisible THEN {<<scn.sc, "EditsVisible", c.kind>> : c \in Broken(rebuilt.img, pending)} ELSE {})
   \cup (IF ~RawIsLastSent THEN {<<scn.sc, "RawIsLastSent",
                                   IF Len(wire) = 0 THEN "no-hello-sent" ELSE IF raw.id # wire[Len(wire)].id THEN "raw-differs-from-last-hello"
                                   ELSE "retry-without-second-hello">>} ELSE {})
Judge == rej' = rej \cup Viol'
Reject(kind, detail) == UNCHANGED bvars /\ rej' = rej \cup {<<scn.sc, kind, detail>>}
Ignore == UNCHANGED bvars /\ UNCHANGED rej

\* ---- Scn: a new UConn
OnScn(ev) ==
  /\ scn' = ev
  /\ cls' = ev.cls /\ status' = "NotBuilt" /\ applied' = FALSE /\ omitSNI' = FALSE /\ pending' = {}
  /\ raw' = NoSer /\ rebuilt' = NoSer /\ wire' = <<>> /\ sent' = <<>> /\ hrrSeen' = FALSE /\ phase' = "edit"
  /\ rej' = rej \cup (IF scn.sc >= 0 /\ phase \notin {"done", "failed", "refused"} THEN {<<scn.sc, "order", "no-result">>} ELSE {})
  /\ Bump({"scn"})

\* ---- Call: the public calls and edits
NewSuites(before, o) == CASE o.kind = "append" -> Append(before, o.v)
                          [] o.kind = "keep" -> before
                          [] o.kind = "poke" -> IF Len(before) >= 2 THEN [before EXCEPT ![2] = o.v] ELSE before
                          [] o.kind = "droplast" -> IF before = <<>> THEN before ELSE SubSeq(before, 1, Len(before) - 1)
                          [] OTHER -> o.list
Repl(x, b, b2) == IF x = b THEN b2 ELSE b
\* a same-length in-place edit: the logged field after the edit is the field before it with one element exchanged
InPlaceBound(o, ev) ==
  IF ev.found = 0 THEN TRUE
  ELSE IF o.what = "alpn" THEN /\ Len(ev.after) = Len(ev.before) /\ Len(ev.before) >= 1 /\ Len(ev.before[1]) >= 1
                               /\ \A i \in 2..Len(ev.before) : ev.after[i] = ev.before[i]
                               /\ ev.after[1] = [ev.before[1] EXCEPT ![Len(ev.before[1])] = Repl(@, o.b, o.b2)]
  ELSE IF o.what \in {"groups", "versions"} THEN Len(ev.before) >= 1 /\ ev.after = [ev.before EXCEPT ![Len(ev.before)] = Repl(@, o.b, o.b2)]
  ELSE Len(ev.before) >= 1 /\ ev.after = [ev.before EXCEPT ![1] = Repl(@, o.b, o.b2)]
InPlaceBody(o, ev) == CASE o.what = "alpn" -> Vec16(ProtoList(ev.after))
                        [] o.what = "groups" -> Vec16(U16List(ev.after))
                        [] o.what = "versions" -> Vec8(U16List(ev.after))
                        [] OTHER -> ev.after
\* the harness edits Hello / Extensions itself: what it logged must be what the scenario asked for
Bound(o, ev) == CASE o.op = "InPlace" -> InPlaceBound(o, ev)
                  [] o.op = "EditSuites" -> ev.suites = NewSuites(ev.before, o)
                  [] o.op = "EditSessionId" -> ev.sid = o.sid
                  [] o.op = "ExtInsert" -> ev.at = 0 /\ ev.nexts = ev.nbefore + 1
                  [] OTHER -> TRUE
OnCall(ev) ==
  LET o == scn.ops[ev.i] IN
  /\ UNCHANGED scn
  /\ IF ev.i \notin DOMAIN scn.ops \/ o.op # ev.op THEN Reject("binding", "call-not-in-scenario") /\ UNCHANGED stats
     ELSE IF o.op \in {"Build", "BuildNoSess"} /\ phase = "edit" /\ ev.panic = "" /\ (ev.err # "" \/ WillFail) THEN
          \* an unbuildable hello: the build must return an error and leave Hello.Raw alone
          IF ev.err # "" /\ WillFail THEN /\ BuildFails
                                          /\ rej' = rej \cup Viol' \cup (IF ev.sha # raw.id THEN {<<scn.sc, "RebuildMustFail", "raw-changed-by-failed-build">>} ELSE {})
                                          /\ Bump({"build_failed"})
          ELSE IF WillFail THEN Reject("RebuildMustFail", "explicit-build-succeeded") /\ UNCHANGED stats
          ELSE Ignore /\ Bump({"build_err_unexplained"})       \* a build error the model does not predict (not C01's)
     ELSE IF ev.err # "" \/ ev.panic # "" THEN Ignore /\ UNCHANGED stats          \* the call refused: no effect
     ELSE IF ~Bound(o, ev) THEN Reject("binding", o.op) /\ UNCHANGED stats
     ELSE IF phase # "edit" THEN Reject("order", "call-after-handshake-start") /\ UNCHANGED stats
     ELSE /\ Bump({o.op} \cup (IF ~Protected /\ o.op \in {"SetClientRandom", "EditSuites", "EditSessionId", "ExtInsert", "ExtRemove", "ExtALPN", "ExtSNIField", "Break", "InPlace"}
                               THEN {"unprotected"} ELSE {})
                         \cup (IF o.op = "InPlace" /\ Protected /\ ev.found >= 1 THEN {"inplace_found"} ELSE {}))
          /\ CASE o.op = "ApplyPreset"     -> ApplyPreset /\ Judge
               [] o.op = "Build"           -> Build(TRUE, S(ev.sha, BadHello)) /\ Judge
               [] o.op = "BuildNoSess"     -> Build(FALSE, S(ev.sha, BadHello)) /\ Judge
               [] o.op = "SetClientRandom" -> SetClientRandom(o.r) /\ Judge
               [] o.op = "SetSNI"          -> SetSNI(ev.norm) /\ rej' = rej \cup Viol'
                                                \cup (IF ev.norm # HostnameInSNI(o.name) THEN {<<scn.sc, "norm", "hostnameInSNI">>} ELSE {})
               [] o.op = "ExtSNIField"     -> ExtSNIField(ev.norm, ev.found >= 1) /\ rej' = rej \cup Viol'
                                                \cup (IF ev.norm # HostnameInSNI(o.name) THEN {<<scn.sc, "norm", "hostnameInSNI">>} ELSE {})
               [] o.op = "RemoveSNI"       -> RemoveSNI /\ Judge
               [] o.op = "EditSuites"      -> EditSuites(ev.suites) /\ Judge
               [] o.op = "EditSessionId"   -> EditSessionId(o.sid) /\ Judge
               [] o.op = "ExtInsert"       -> ExtInsert(o.id, o.data) /\ Judge
               [] o.op = "ExtRemove"       -> ExtRemove(o.t) /\ Judge
               [] o.op = "InPlace"         -> (IF o.what = "sid" THEN (IF ev.found >= 1 THEN EditSessionId(ev.after) ELSE UNCHANGED bvars)
                                               ELSE InPlaceExt(o.id, InPlaceBody(o, ev), ev.found >= 1)) /\ Judge
               [] o.op \in {"BBuild", "BPoke"} -> OtherConnection /\ Judge
               [] o.op = "Break"           -> Break(IF o.what = "shortrandom" THEN <<"random">> ELSE <<"break", o.what>>) /\ Judge
               [] o.op = "ExtALPN"         -> ExtALPN(Vec16(ProtoList(o.protos)), ev.found >= 1) /\ Judge
               [] OTHER -> Reject("binding", "unknown-op")

\* ---- Rebuilt: StartHandshake
OnRebuilt(ev) ==
  /\ UNCHANGED scn
  /\ IF phase # "edit" THEN Reject("order", "second-rebuild") /\ UNCHANGED stats
     ELSE IF WillFail THEN Reject("RebuildMustFail", "handshake-went-on-after-failed-rebuild") /\ UNCHANGED stats
     ELSE IF ev.n # Len(ev.raw) THEN Reject("binding", "rebuilt-length-and-bytes-differ") /\ UNCHANGED stats
     ELSE /\ \E img \in {ParseHello(ev.raw)} : StartHandshake(S(ev.sha, img))
          /\ Judge
          /\ Bump({"rebuilt"} \cup {c.kind : c \in pending'} \cup (IF HasExtT(rebuilt'.img, 41) THEN {"psk"} ELSE {})
                    \cup (IF \E c \in pending' : c.kind = "sni" /\ c.v = <<>> THEN {"sni_literal"} ELSE {}))

\* ---- Rec: SendCH1 / SendCH2 (only plaintext ClientHello records are hellos)
IsCH(ev) == Len(ev.head) = 4 /\ ev.head[1] = 1 /\ RdU24(ev.head, 2) + 4 = ev.n
OnRec(ev) ==
  /\ UNCHANGED scn
  /\ IF ~IsCH(ev) THEN Ignore /\ UNCHANGED stats
     ELSE IF atsend = NoSer THEN Reject("binding", "hello-record-without-AtSend") /\ UNCHANGED stats
     ELSE IF phase = "start" THEN SendCH1(atsend, S(ev.sha, BadHello)) /\ Judge /\ Bump({"ch1"})
     ELSE IF phase = "hrr" THEN SendCH2(atsend, S(ev.sha, BadHello)) /\ Judge /\ Bump({"ch2"})
     ELSE Reject("order", IF phase = "edit" THEN "hello-written-without-rebuild" ELSE "hello-written-unasked") /\ UNCHANGED stats

\* ---- SH: ServerHRR / ServerHello
HRRRandom == <<207,33,173,116,229,154,97,17,190,29,140,2,30,101,184,145,194,162,17,22,122,187,140,94,7,158,9,226,200,168,51,156>>
IsHRR(b) == Len(b) >= 38 /\ b[1] = 2 /\ SubSeq(b, 7, 38) = HRRRandom
\* the retry request carries a cookie extension (44)
HasCookie(b) == Len(b) >= 39 /\ Len(b) >= 44 + b[39] /\
                \E e \in Range(ParseExts(b, 45 + b[39], Len(b))) : ~e.bad /\ e.type = 44
OnSH(ev) ==
  /\ UNCHANGED scn
  /\ IF IsHRR(ev.raw) /\ phase = "ch1" /\ ~hrrSeen THEN ServerHRR /\ Judge /\ Bump({"hrr"} \cup (IF HasCookie(ev.raw) THEN {"hrr_cookie"} ELSE {}))
     ELSE IF ~IsHRR(ev.raw) /\ phase \in {"ch1", "ch2"} THEN ServerHello /\ Judge /\ UNCHANGED stats
     ELSE Ignore /\ UNCHANGED stats

\* ---- Done: Finish / Fail
OnDone(ev) ==
  /\ UNCHANGED scn
  /\ IF phase = "edit" /\ WillFail THEN
        \* the hello cannot be rebuilt: Handshake returns the build error, Hello.Raw stays, nothing was written
        IF ev.cok THEN /\ Fail(S(ev.sha, BadHello)) /\ UNCHANGED stats
                       /\ rej' = rej \cup {<<scn.sc, "RebuildMustFail", "success-reported">>}
        ELSE /\ StartFails(S(ev.sha, BadHello))
             /\ rej' = rej \cup Viol' \cup (IF ev.sha # raw.id THEN {<<scn.sc, "RebuildMustFail", "raw-changed-by-failed-rebuild">>} ELSE {})
                                  \cup (IF berr # "" /\ ev.cerr # berr THEN {<<scn.sc, "RebuildMustFail", "handshake-error-is-not-the-build-error">>} ELSE {})
             /\ Bump({"refused"} \cup (IF \E c \in pending : c.kind = "unbuildable" THEN {"unbuildable"} ELSE {}))
     ELSE IF ev.cok /\ phase = "sh" THEN Finish(S(ev.sha, BadHello)) /\ Judge /\ Bump({"done"} \cup (IF hrrSeen THEN {"done_hrr"} ELSE {}))
     ELSE IF ev.cok THEN Reject("order", "completed-without-server-hello") /\ UNCHANGED stats
     ELSE IF phase \in {"done", "failed", "refused"} THEN Reject("order", "second-result") /\ UNCHANGED stats
     ELSE Fail(S(ev.sha, BadHello)) /\ Judge /\ Bump({"failed"})

Step == /\ l <= Len(Trace)
        /\ l' = l + 1
        /\ LET ev == Trace[l] IN
           atsend' = IF ev.ev = "AtSend" THEN S(ev.sha, BadHello)
                     ELSE IF ev.ev = "Scn" \/ (ev.ev = "Rec" /\ IsCH(ev)) THEN NoSer ELSE atsend
        /\ LET ev == Trace[l] IN
           berr' = IF ev.ev = "Call" THEN (IF ev.op \in {"Build", "BuildNoSess"} THEN ev.err ELSE "")
                   ELSE IF ev.ev = "Scn" THEN "" ELSE berr
        /\ LET ev == Trace[l] IN
           CASE ev.ev = "Scn" -> OnScn(ev)
             [] ev.ev = "New" -> /\ raw' = S(ev.sha, BadHello)       \* Hello.Raw of the UConn as UClient returns it
                                 /\ UNCHANGED <<cls, status, applied, omitSNI, pending, rebuilt, wire, sent, hrrSeen, phase, rej, scn, stats>>
             [] ev.ev = "Call" -> OnCall(ev)
             [] ev.ev = "Rebuilt" -> OnRebuilt(ev)
             [] ev.ev = "Rec" -> OnRec(ev)
             [] ev.ev = "SH" -> OnSH(ev)
             [] ev.ev = "Done" -> OnDone(ev)
             [] ev.ev = "AtSend" -> Ignore /\ UNCHANGED <<scn, stats>>
             [] ev.ev = "Seed" -> Ignore /\ UNCHANGED scn /\ Bump(IF ev.cerr = "" THEN {"seeded"} ELSE {})   \* the earlier connection that filled the session cache
             [] OTHER -> Reject("binding", "unknown-event") /\ UNCHANGED <<scn, stats>>
Next == Step
Report == (l = Len(Trace) + 1) =>
            /\ PrintT(<<"DONE", l - 1>>)
            /\ PrintT(<<"STATS", ToJson(stats)>>)
            /\ \A r \in rej : PrintT(<<"REJ", ToJson(r)>>)
=============================================================================
