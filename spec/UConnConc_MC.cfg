INIT InitMC
NEXT NextMC
VIEW View
INVARIANT Safety
PROPERTY CloseOnlyByOwners
PROPERTY CancelAfterReturnNoEffect
CONSTRAINT EmitHits
