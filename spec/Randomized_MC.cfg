CONSTANT WMode = "all"
INIT Init
NEXT Next
VIEW View
INVARIANT TypeOK
INVARIANT InvSuites
INVARIANT InvPSS
INVARIANT InvPadding
INVARIANT InvVersions
INVARIANT InvALPS
INVARIANT InvWeightsDone
INVARIANT InvWeightsSuites
CHECK_DEADLOCK FALSE
