------------------------------ MODULE Varint ------------------------------
(***************************************************************************)
(* QUIC variable-length integers (RFC 9000 section 16) and transport        *)
(* parameter lists (RFC 9000 section 18) on byte sequences.                 *)
(* Code mirrored: internal/quicvarint/varint.go (Read, Append,              *)
(* AppendWithLen, Len) and u_quic_transport_parameters.go                   *)
(* (TransportParameters.Marshal and every TransportParameter type).         *)
(*                                                                          *)
(* TLC integers are 32 bit: a 64-bit value is an 8-byte big-endian          *)
(* sequence ("B8"); everything below is defined on bytes.                   *)
(* VarintLenAt / VarintBytesAt (the decoder's view of a first byte) come    *)
(* from TLSWire; the encoder side is defined here independently, so the     *)
(* laws in Varint_MC relate two separately written halves.                  *)
(***************************************************************************)
EXTENDS TLSWire

Zeros(n) == [i \in 1..n |-> 0]
Zero8 == Zeros(8)
IsB8(x) == Len(x) = 8 /\ IsBytes(x)
Pad8(b) == Zeros(8 - Len(b)) \o b
\* a TLC-sized natural as B8 (n < 2^31)
NatB8(n) == <<0, 0, 0, 0, (n \div 16777216) % 256, (n \div 65536) % 256, (n \div 256) % 256, n % 256>>
SmallB8(x) == AllZero(SubSeq(x, 1, 4)) /\ x[5] < 128
B8Nat(x) == x[5] * 16777216 + x[6] * 65536 + x[7] * 256 + x[8]     \* only for SmallB8(x)

\* unsigned order on equal-length byte sequences
ULt(a, b) == \E i \in 1..Len(a) : (\A j \in 1..(i-1) : a[j] = b[j]) /\ a[i] < b[i]
ULe(a, b) == a = b \/ ULt(a, b)

Widths == {1, 2, 4, 8}

\* ---------- encoder side --------------------------------------------------
\* x < 2^(8w-2): the bytes above the low w are zero and the top two bits of the low w bytes are clear
Fits(x, w) == w \in Widths /\ AllZero(SubSeq(x, 1, 8 - w)) /\ x[9 - w] < 64
\* quicvarint.Len: the least width that fits; 0 = refused (x >= 2^62, Len panics)
MinLen(x) == IF Fits(x, 1) THEN 1 ELSE IF Fits(x, 2) THEN 2 ELSE IF Fits(x, 4) THEN 4 ELSE IF Fits(x, 8) THEN 8 ELSE 0
Refused(x) == MinLen(x) = 0
Tag(w) == CASE w = 1 -> 0 [] w = 2 -> 64 [] w = 4 -> 128 [] w = 8 -> 192
\* x in exactly w bytes (requires Fits(x,w))
EncW(x, w) == LET lo == SubSeq(x, 9 - w, 8) IN <<lo[1] + Tag(w)>> \o Tail(lo)
\* quicvarint.Append: minimal encoding (requires ~Refused(x))
VarintEnc(x) == EncW(x, MinLen(x))
\* quicvarint.AppendWithLen(x, w): refusal (panic) for a width that is not 1,2,4,8, for x >= 2^62, for a width too small
AWLRefused(x, w) == w \notin Widths \/ Refused(x) \/ MinLen(x) > w
AppendWithLen(x, w) == EncW(x, w)

\* the same thresholds as the Go code states them (constants of RFC 9000 table 4) - second, independent formulation
Max1 == <<0, 0, 0, 0, 0, 0, 0, 63>>
Max2 == <<0, 0, 0, 0, 0, 0, 63, 255>>
Max4 == <<0, 0, 0, 0, 63, 255, 255, 255>>
Max8 == <<63, 255, 255, 255, 255, 255, 255, 255>>
MinLenByThreshold(x) == IF ULe(x, Max1) THEN 1 ELSE IF ULe(x, Max2) THEN 2 ELSE IF ULe(x, Max4) THEN 4 ELSE IF ULe(x, Max8) THEN 8 ELSE 0

\* ---------- decoder side (quicvarint.Read on the bytes b) -----------------
VarintDec(b) ==
  IF b = <<>> THEN [ok |-> FALSE, n |-> 0, val |-> Zero8]
  ELSE LET n == VarintLenAt(b, 1) IN
       IF Len(b) < n THEN [ok |-> FALSE, n |-> Len(b), val |-> Zero8]
       ELSE [ok |-> TRUE, n |-> n, val |-> Pad8(VarintBytesAt(b, 1))]

\* ---------- transport parameters ------------------------------------------
\* entry = [id |-> B8, val |-> bytes]
TPEntryEnc(e) == VarintEnc(e.id) \o VarintEnc(NatB8(Len(e.val))) \o e.val
TPList(es) == Flat([i \in DOMAIN es |-> TPEntryEnc(es[i])])

\* parse b[i..] into the sequence of entries; a malformed tail yields one entry with bad = TRUE
RECURSIVE TPParse(_, _)
TPParse(b, i) ==
  IF i = Len(b) + 1 THEN <<>>
  ELSE LET idd == VarintDec(SubSeq(b, i, Len(b))) IN
       IF ~idd.ok THEN << [bad |-> TRUE, id |-> Zero8, val |-> <<>>] >>
       ELSE LET ld == VarintDec(SubSeq(b, i + idd.n, Len(b))) IN
            IF ~ld.ok \/ ~SmallB8(ld.val) THEN << [bad |-> TRUE, id |-> idd.val, val |-> <<>>] >>
            ELSE LET vl == B8Nat(ld.val)
                     j  == i + idd.n + ld.n IN
                 IF j + vl - 1 > Len(b) THEN << [bad |-> TRUE, id |-> idd.val, val |-> <<>>] >>
                 ELSE << [bad |-> FALSE, id |-> idd.val, val |-> SubSeq(b, j, j + vl - 1)] >> \o TPParse(b, j + vl)

\* GREASE transport parameter ids: 27 + 31*N (RFC 9000 18.1), below 2^62
RECURSIVE ModB(_, _, _)
ModB(x, m, acc) == IF x = <<>> THEN acc ELSE ModB(Tail(x), m, (acc * 256 + Head(x)) % m)
IsGreaseTPID(x) == ModB(x, 31, 0) = 27 /\ ULe(NatB8(27), x)

\* Registered ids (RFC 9000 18.2, RFC 9221, RFC 9287, RFC 9368, draft version-negotiation)
TPID(kind) ==
  CASE kind = "MaxIdleTimeout" -> 1
    [] kind = "MaxUDPPayloadSize" -> 3
    [] kind = "InitialMaxData" -> 4
    [] kind = "InitialMaxStreamDataBidiLocal" -> 5
    [] kind = "InitialMaxStreamDataBidiRemote" -> 6
    [] kind = "InitialMaxStreamDataUni" -> 7
    [] kind = "InitialMaxStreamsBidi" -> 8
    [] kind = "InitialMaxStreamsUni" -> 9
    [] kind = "MaxAckDelay" -> 11
    [] kind = "DisableActiveMigration" -> 12
    [] kind = "ActiveConnectionIDLimit" -> 14
    [] kind = "InitialSourceConnectionID" -> 15
    [] kind = "VersionInformation" -> 17
    [] kind = "VersionInformationLegacy" -> 16741339   \* 0xff73db
    [] kind = "PaddingTransportParameter" -> 21
    [] kind = "MaxDatagramFrameSize" -> 32
    [] kind = "GREASEQUICBit" -> 10930                  \* 0x2ab2
VarintKinds == {"MaxIdleTimeout", "MaxUDPPayloadSize", "InitialMaxData", "InitialMaxStreamDataBidiLocal",
                "InitialMaxStreamDataBidiRemote", "InitialMaxStreamDataUni", "InitialMaxStreamsBidi",
                "InitialMaxStreamsUni", "MaxAckDelay", "ActiveConnectionIDLimit", "MaxDatagramFrameSize"}
EmptyKinds == {"DisableActiveMigration", "GREASEQUICBit"}
BytesKinds == {"InitialSourceConnectionID", "PaddingTransportParameter"}
GreaseVersion == <<10, 10, 10, 10>>    \* VERSION_GREASE placeholder: replaced by a fresh value on the wire (C04 judges it)

(* A parameter descriptor d (what the harness constructed) -> does it have to be refused, and if
   not, does the parsed wire entry e say the same (id, value)?
     varint kinds  [kind, v: B8]                      id = TPID, value = VarintEnc(v); refused for v >= 2^62
     empty kinds   [kind]                             value empty
     bytes kinds   [kind, val]                        value = val
     VersionInformation [kind, chosen: 4 bytes, avail: seq of 4 bytes, legacy]
                                                      value = chosen ++ avail, 0x0a0a0a0a entries are holes
     GREASE  [kind, id: B8, length, val]              id = override if that is a GREASE id else any GREASE id (< 2^62);
                                                      value = val if non-empty else any `length` bytes
     Fake    [kind, id: B8, val]                      id 0 is refused (documented panic); id >= 2^62 refused *)
TPRefused(d) ==
  CASE d.kind \in VarintKinds -> Refused(d.v)
    [] d.kind = "GREASE" -> IsGreaseTPID(d.id) /\ Refused(d.id)
    [] d.kind = "Fake" -> d.id = Zero8 \/ Refused(d.id)
    [] OTHER -> FALSE
VersionsMatch(wire, d) ==
  /\ Len(wire) = 4 * (1 + Len(d.avail))
  /\ SubSeq(wire, 1, 4) = d.chosen
  /\ \A k \in DOMAIN d.avail : d.avail[k] = GreaseVersion \/ SubSeq(wire, 4*k + 1, 4*k + 4) = d.avail[k]
TPMatches(e, d) ==
  /\ ~e.bad
  /\ CASE d.kind \in VarintKinds -> e.id = NatB8(TPID(d.kind)) /\ e.val = VarintEnc(d.v)
       [] d.kind \in EmptyKinds -> e.id = NatB8(TPID(d.kind)) /\ e.val = <<>>
       [] d.kind \in BytesKinds -> e.id = NatB8(TPID(d.kind)) /\ e.val = d.val
       [] d.kind = "VersionInformation" ->
            /\ e.id = NatB8(TPID(IF d.legacy THEN "VersionInformationLegacy" ELSE "VersionInformation"))
            /\ VersionsMatch(e.val, d)
       [] d.kind = "GREASE" ->
            /\ IF IsGreaseTPID(d.id) THEN e.id = d.id ELSE IsGreaseTPID(e.id) /\ ~Refused(e.id)
            /\ IF d.val # <<>> THEN e.val = d.val ELSE Len(e.val) = d.length
       [] d.kind = "Fake" -> e.id = d.id /\ e.val = d.val
       [] OTHER -> FALSE

\* The marshaled body `out` (panicked = the call was refused by panic) is what the list ds describes
TPListExplained(ds, out, panicked) ==
  IF \E k \in DOMAIN ds : TPRefused(ds[k]) THEN panicked
  ELSE /\ ~panicked
       /\ LET es == TPParse(out, 1) IN
          /\ Len(es) = Len(ds)
          /\ \A k \in DOMAIN ds : TPMatches(es[k], ds[k])
\* the quic_transport_parameters extension (type 57) around a body
QTPExt(body) == <<0, 57>> \o U16(Len(body)) \o body
=============================================================================
