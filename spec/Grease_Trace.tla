------------------------- MODULE Grease_Trace -------------------------
(* Trace validation for C04.  Events (harness/cmd/gen/grease.go):
     Boring   idx, vals[65536]         GetBoringGREASEValue for every value of seed[idx]
     TPIds    ids[[8]]                 draws of GetGREASEID / GREASETransportParameter.ID
     QVers    vs[[4]]                  draws of VersionInformation.GetGREASEVersion
     TPBody   kinds, avail, body       TransportParameters.Marshal
     TPIsGrease ids, res               GREASETransportParameter.IsGREASEID(ids[i]) = res[i]
     TPOverride ins, ids, bodies       GREASETransportParameter{IdOverride: ins[i]}: ID() and the marshaled parameter
     Group    grp, mode, spec          start of a group of connections made from one spec (dumped before its first use);
                                       mode: parrot / fingerprint (a spec of its own per connection), reuse-id / reuse-fp /
                                       reuse-custom (ONE spec object applied to all connections of the group), twice /
                                       twice-custom (ApplyPreset twice on each UConn), constrand (randomness fixed by the harness)
     Hello    g, raw, seed             one wire ClientHello of group Trace[g]
     EndGroup g                        end of the group: freshness is judged here
   Every event is judged; events the specification does not accept are collected in rej. *)
EXTENDS Grease, Json
Trace == ndJsonDeserialize("c04_trace.ndjson")
VARIABLES l, rej, seen, coll, pairs
vars == <<l, rej, seen, coll, pairs>>
NoSeen == [k \in Kinds |-> {}]
Init == l = 1 /\ rej = <<>> /\ seen = NoSeen /\ coll = 0 /\ pairs = {}

Spec(g) == Trace[g].spec

Explained(ev) ==
  CASE ev.ev = "Boring" -> Len(ev.vals) = 65536 /\ \A v \in DOMAIN ev.vals : IsGrease16(ev.vals[v])
    [] ev.ev = "TPIds"  -> \A i \in DOMAIN ev.ids : IsGreaseTPId(ev.ids[i]) /\ IsVarint62(ev.ids[i])
    [] ev.ev = "QVers"  -> \A i \in DOMAIN ev.vs : IsGreaseQuicVersion(ev.vs[i])
    [] ev.ev = "TPBody" -> TPBodyOK(ev.kinds, ev.avail, ev.body)
    [] ev.ev = "TPIsGrease" -> Len(ev.res) = Len(ev.ids) /\ \A i \in DOMAIN ev.ids : ev.res[i] = IsGreaseTPId(ev.ids[i])
    [] ev.ev = "TPOverride" -> Len(ev.ids) = Len(ev.ins) /\ Len(ev.bodies) = Len(ev.ins)
                               /\ \A i \in DOMAIN ev.ins : OverrideOK(ev.ins[i], ev.ids[i], ev.bodies[i])
    [] ev.ev = "Group"  -> ev.fperr = ""
    [] ev.ev = "Hello"  -> ev.sent /\ HelloGreaseOK(ev.raw, Spec(ev.g))
    [] ev.ev = "EndGroup" -> Trace[ev.g].mode = "constrand" \/ FreshOK(seen, SpecGrease(Spec(ev.g)))
    [] OTHER -> FALSE

\* connections whose GREASE seed was chosen by the harness (constrand: all seed bytes equal; pairrand: every pair of
\* nibbles for the two extension seeds).  The two extension seeds collided when they select the same nibble - either
\* still visible in the logged seed, or already repaired by ApplyPreset (second seed = first seed's nibble, bits 4/12 flipped)
Nib(x) == (x % 256) \div 16
Forced(ev) == ev.ev = "Hello" /\ Trace[ev.g].mode \in {"constrand", "pairrand"} /\ Len(ev.seed) >= 4
Collided(seed) == Nib(seed[3]) = Nib(seed[4]) \/ Nib(Xor1010(seed[4])) = Nib(seed[3])
\* the pair of nibbles found in the logged seed (after a repair the equal pair (n, n) shows as (n, n xor 1))
DrawnPair(seed) == <<Nib(seed[3]), Nib(seed[4])>>
\* bookkeeping shared by Good and Skip: accumulate the values seen in the current group
Book(ev) ==
  /\ seen' = IF ev.ev = "Hello" /\ ev.sent /\ ParseHello(ev.raw).ok
             THEN LET g == HelloGrease(ParseHello(ev.raw)) IN [k \in Kinds |-> seen[k] \cup Range(g[k])]
             ELSE IF ev.ev \in {"Group", "EndGroup"} THEN NoSeen ELSE seen
  /\ coll' = IF Forced(ev) /\ Collided(ev.seed) THEN coll + 1 ELSE coll
  /\ pairs' = IF ev.ev = "Hello" /\ Trace[ev.g].mode = "pairrand" /\ Len(ev.seed) >= 4 THEN pairs \cup {DrawnPair(ev.seed)} ELSE pairs

Why(ev) ==
  CASE ev.ev = "Boring" -> <<"boring-not-grease", ev.idx, Cardinality({v \in DOMAIN ev.vals : ~IsGrease16(ev.vals[v])})>>
    [] ev.ev = "TPIds"  -> <<"tp-id-not-grease", Cardinality({k \in DOMAIN ev.ids : ~(IsGreaseTPId(ev.ids[k]) /\ IsVarint62(ev.ids[k]))}), Len(ev.ids)>>
    [] ev.ev = "QVers"  -> <<"quic-version-not-grease", Cardinality({k \in DOMAIN ev.vs : ~IsGreaseQuicVersion(ev.vs[k])}), Len(ev.vs)>>
    [] ev.ev = "TPBody" -> <<"tp-body", WhyTPBody(ev.kinds, ev.avail, ev.body)>>
    [] ev.ev = "TPIsGrease" -> <<"tp-isgreaseid-disagrees", {ev.ids[i] : i \in {k \in DOMAIN ev.ids : ev.res[k] # IsGreaseTPId(ev.ids[k])}}>>
    [] ev.ev = "TPOverride" -> <<"tp-override-id-not-grease", {ev.ins[i] : i \in {k \in DOMAIN ev.ins : ~OverrideOK(ev.ins[k], ev.ids[k], ev.bodies[k])}}>>
    [] ev.ev = "Group"  -> <<"fingerprint-failed", ev.grp>>
    [] ev.ev = "Hello"  -> <<"hello", Trace[ev.g].grp, IF ev.sent THEN WhyHelloGrease(ev.raw, Spec(ev.g)) ELSE "nothing-sent">>
    [] ev.ev = "EndGroup" -> <<"not-fresh", Trace[ev.g].grp, [k \in Kinds |-> Cardinality(seen[k])]>>
    [] OTHER -> <<"unknown-event">>

\* (X = TRUE) makes TLC evaluate the judgement as a value; as an action formula every \E / \/ inside it
\* would be enumerated as a branch (measured: 60 M successor states for one TPIds event)
Good == l <= Len(Trace) /\ (Explained(Trace[l]) = TRUE) /\ Book(Trace[l]) /\ l' = l + 1 /\ UNCHANGED rej
\* rej is a sequence of <<event index, reason>> (the reason is computed in the state in which the event is read)
Skip == l <= Len(Trace) /\ (Explained(Trace[l]) = FALSE) /\ Book(Trace[l]) /\ l' = l + 1 /\ rej' = Append(rej, <<l, Why(Trace[l])>>)
Next == Good \/ Skip

Report == (l = Len(Trace) + 1) =>
            /\ PrintT(<<"DONE", l - 1>>)
            /\ PrintT(<<"COLLIDED", coll>>)
            /\ PrintT(<<"PAIRS", Cardinality(pairs)>>)
            /\ \A i \in DOMAIN rej : PrintT(<<"REJ", ToJson(rej[i])>>)
=============================================================================
