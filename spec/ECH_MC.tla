------------------------------- MODULE ECH_MC -------------------------------
(***************************************************************************)
(* Bounded exhaustive configuration of ECH.                                *)
(* TLC enumerates  ECH-capable ClientHelloIDs (computed from the dump of   *)
(* the real extension lists: an ID is capable iff its hello carries an     *)
(* extension object of type GREASEEncryptedClientHelloExtension, which is  *)
(* what UConn.MarshalClientHello replaces by the real outer extension;     *)
(* HelloGolang takes the upstream path)                                    *)
(*   x ECH configuration {config_id, AEAD, maximum_name_length, names}     *)
(*   x shape of the ECHConfigList around the configuration to be used      *)
(*     {single, followed by a second usable one, followed by entries to    *)
(*      skip (unknown version, unsupported KEM), preceded by such entries} *)
(*   x how the caller drives the UConn {Handshake only, BuildHandshakeState *)
(*     first (once, twice), build + SetClientRandom, build + SetSNI(same)}  *)
(*   x server behaviour {accept, accept after HelloRetryRequest for every  *)
(*     classical group the ID supports without sending a share, reject     *)
(*     with 0/1/2 retry configs, reject after HRR, no ECH support};        *)
(*     every HelloRetryRequest without / with a cookie of 1, 32, 255 bytes *)
(*   x TLS 1.3 cipher suite the server selects (of those the hello offers) *)
(*   x certificate {ServerName only, public name only, both, neither},     *)
(* runs the ECH state machine on MODEL-built bytes (a small hello with the *)
(* ID's real groups/shares; "encryption" is a byte-wise involution so that *)
(* the model server can open it), checks every property of ECH.tla at      *)
(* model level, and prints each scenario for replay on the real library.   *)
(***************************************************************************)
EXTENDS ECH

CONSTANTS CfgIds,      \* config_id values
          AeadIds,     \* HPKE AEAD ids offered by the configuration
          MaxLens,     \* maximum_name_length values
          NameSets,    \* subset of 1..Len(NamePairs)
          ShapeIdx,    \* subset of 1..Len(ListShapes): shapes of the client's ECHConfigList
          UsageIdx,    \* subset of 1..Len(Usages): how the caller drives the UConn
          SuiteIds,    \* TLS 1.3 cipher suites the server selects (of those the ID's hello offers)
          CookieLens,  \* lengths of the cookie a HelloRetryRequest carries (0 = none)
          Sample,      \* 99: the full product of the sets above;
                       \* 10..15 (thorough): config_id x AEAD x maximum_name_length reduced to a Latin square (a third), the name pair
                       \*         tied to it, full product with list shape x usage x ID x server x certificate;
                       \* 0..5 (quick): list shape and usage tied to the Latin square as well
          Mutant       \* "none" | model-level sensitivity mutants (a wrong client must violate an invariant)

IdTable == JsonDeserialize("ech_ids.json")     \* id -> [kinds, groups, shares] dumped from the real library (harness cmd echids)
Capable == {id \in DOMAIN IdTable : \E k \in DOMAIN IdTable[id].kinds : IdTable[id].kinds[k] = "GREASEEncryptedClientHelloExtension"}
           \cup ({"Golang"} \cap DOMAIN IdTable)
NoGrease(xs) == SelectSeq(xs, LAMBDA g : ~IsGrease16(g))
GroupsOf(id) == NoGrease(IdTable[id].groups)
SharesOf(id) == NoGrease(IdTable[id].shares)
\* classical groups the in-tree server implements and the ID offers without a share: each forces a HelloRetryRequest
HRRGroups(id) == {g \in Range(GroupsOf(id)) : g \in {23, 24, 25} /\ g \notin Range(SharesOf(id))}

\* "secret.example" / "public.example";  a ServerName longer than maximum_name_length 32 / a longer public name
NamePairs == << [s |-> <<115,101,99,114,101,116,46,101,120,97,109,112,108,101>>,
                 p |-> <<112,117,98,108,105,99,46,101,120,97,109,112,108,101>>],
                [s |-> <<108,111,110,103,45,115,101,99,114,101,116,45,110,97,109,101,45,98,101,121,111,110,100,45,109,97,120,108,101,110,46,101,120,97,109,112,108,101,46,111,114,103>>,
                 p |-> <<99,100,110,46,102,114,111,110,116,46,112,117,98,108,105,99,45,101,120,97,109,112,108,101,46,110,101,116>>] >>

\* ---------- model bytes
ModelPK(k) == [i \in 1..32 |-> 80 + k]
ModelCfg(v, k) == EncECHConfig((v.cfgid + k) % 256, ModelPK(k), v.aead, v.maxlen, v.pubname)
\* the client's ECHConfigList: the configuration to be used (ModelCfg(v, 0)) inside the list shape
ModelOtherUsable(v) == EncECHConfig((v.cfgid + 100) % 256, ModelPK(5), v.aead, v.maxlen, v.pubname)
ModelUnknownVersion == EncUnknownVersionEntry(<<1, 2, 3, 4, 5, 6, 7, 8, 9, 10>>)
ModelBadKEM(v) == EncECHConfigK((v.cfgid + 50) % 256, 16, [i \in 1..65 |-> 4], v.aead, v.maxlen, v.pubname)
ModelList(v) == EncCfgList(CASE v.shape = "two_usable" -> <<ModelCfg(v, 0), ModelOtherUsable(v)>>
                             [] v.shape = "usable_skipped" -> <<ModelCfg(v, 0), ModelUnknownVersion, ModelBadKEM(v)>>
                             [] v.shape = "skipped_usable" -> <<ModelUnknownVersion, ModelBadKEM(v), ModelCfg(v, 0)>>
                             [] OTHER -> <<ModelCfg(v, 0)>>)
ModelShare(g) == U16(g) \o Vec16(<<g % 256, 7>>)
KeyShareExt(gs) == Ext(51, Vec16(Flat([i \in DOMAIN gs |-> ModelShare(gs[i])])))
GroupsExt(gs) == Ext(10, Vec16(U16List(gs)))
SigExt == Ext(13, Vec16(U16List(<<1027, 2052>>)))
SuitesB == U16List(<<4865, 4866>>)
Sid == [i \in 1..32 |-> 51]
RandomOf(x) == [i \in 1..32 |-> x]
\* model AEAD: a byte-wise involution plus a 16-byte tag (letters never map to letters)
Seal(x) == [i \in 1..Len(x) |-> (x[i] + 128) % 256] \o [i \in 1..TagLen |-> 170]
Open(p) == [i \in 1..(Len(p) - TagLen) |-> (p[i] + 128) % 256]

\* EncodedClientHelloInner: server_name, then what is taken from the outer hello (in outer order), TLS 1.3 only, the inner marker;
\* padded as RFC 9849 6.1.3 recommends
InnerSNI(v) == IF Mutant = "inner-names-public" THEN v.pubname ELSE v.sname
\* the cookie a HelloRetryRequest of this scenario carries (v.cookie bytes), as the body of the cookie extension
ModelCookieBody(v) == IF v.cookie = 0 THEN <<>> ELSE Vec16([i \in 1..v.cookie |-> 200])
\* the second hello echoes it: the outer hello carries the extension (before key_share), the inner one takes it from there
HasCookie(v, k) == k = 2 /\ v.cookie > 0
EncodedInner(v, k) ==
  LET refs == IF HasCookie(v, k) /\ Mutant # "stale-outer-list" THEN <<10, 13, 44, 51>> ELSE <<10, 13, 51>>
      h == U16(771) \o RandomOf(34) \o <<0>> \o Vec16(SuitesB) \o Vec8(<<0>>)
           \o Vec16(SNIExt(InnerSNI(v)) \o OuterExtsExt(refs) \o Ext(43, <<2, 3, 4>>) \o ECHInnerExt)
      p1 == Max2(0, v.maxlen - Len(v.sname))
      p2 == 31 - ((Len(h) + p1 - 1) % 32)
  IN h \o [i \in 1..(p1 + p2) |-> 0]
OuterSNI(v) == IF Mutant = "outer-sni-secret" THEN v.sname ELSE v.pubname
OuterHello(v, k) ==
  LET shares == IF k = 1 THEN SharesOf(v.id) ELSE IF Mutant = "stale-shares" THEN SharesOf(v.id) ELSE <<v.hrr_group>> IN
  CHBytes(U16(771) \o RandomOf(17), Sid, SuitesB, <<0>>,
          SNIExt(OuterSNI(v)) \o GroupsExt(GroupsOf(v.id)) \o SigExt \o Ext(43, Vec8(U16List(<<772, 771>>)))
          \o (IF HasCookie(v, k) THEN Ext(44, ModelCookieBody(v)) ELSE <<>>) \o KeyShareExt(shares)
          \o ECHOuterExt(KdfSHA256, v.aead, v.cfgid, IF k = 1 THEN ModelPK(9) ELSE <<>>, Seal(EncodedInner(v, k))))
\* the model server: open, parse, reconstruct
ServerInner(o, raw) == LET outer == ParseHello(raw)
                           enc == Open(OuterECHOf(outer).payload) IN
                       O_Inner(o, enc, Reconstruct(outer, ParseEncodedInner(enc)))

\* ---------- the grid
ServerVariants(id) ==
        {[server |-> "accept", hrr_group |-> 0, nretry |-> 0, cookie |-> 0], [server |-> "noech", hrr_group |-> 0, nretry |-> 0, cookie |-> 0]}
   \cup {[server |-> "hrr", hrr_group |-> g, nretry |-> 0, cookie |-> ck] : g \in HRRGroups(id), ck \in CookieLens}
   \cup {[server |-> "reject", hrr_group |-> 0, nretry |-> r, cookie |-> 0] : r \in {0, 1, 2}}
   \cup {[server |-> "reject_hrr", hrr_group |-> g, nretry |-> 1, cookie |-> ck] : g \in {x \in HRRGroups(id) : \A y \in HRRGroups(id) : x <= y}, ck \in CookieLens}
\* quick tier: config_id x AEAD x maximum_name_length reduced to a Latin square (every pair of values of two parameters occurs),
\* the name pair tied to it
Rank(x, S) == Cardinality({y \in S : y < x})
\* and the list shape tied to it (every shape occurs with every ID, server behaviour and certificate)
\* the suite the server selects is tied to the Latin variant in both tiers: every suite with every ID, server behaviour, certificate
\* (thorough: and list shape, usage, cookie)
KeepSuite(c, m, su) == Sample = 99 \/ Rank(su, SuiteIds) = (Rank(c, CfgIds) + 2 * Rank(m, MaxLens) + Sample) % Cardinality(SuiteIds)
OfferedSuites(id) == SuiteIds \cap Range(IdTable[id].suites)
Keep(c, a, m, n, sh, u) ==
   \/ Sample = 99
   \/ /\ (Rank(c, CfgIds) + Rank(a, AeadIds) + Rank(m, MaxLens)) % 3 = (Sample % 10) % 3
      /\ Rank(n, NameSets) = (Rank(c, CfgIds) + Rank(m, MaxLens) + ((Sample % 10) \div 3)) % Cardinality(NameSets)
      /\ \/ Sample >= 10
         \/ /\ Rank(sh, ShapeIdx) = (Rank(c, CfgIds) + 2 * Rank(a, AeadIds) + Sample) % Cardinality(ShapeIdx)
            /\ Rank(u, UsageIdx) = (Rank(c, CfgIds) + 3 * Rank(m, MaxLens) + Sample) % Cardinality(UsageIdx)
\* the cookie of a HelloRetryRequest.  quick: its length tied to the Latin square as well (every length with every ID and HRR group);
\* thorough: without cookie the full product as above; each cookie length with every ID x HRR group x usage x certificate x Latin
\* variant, the list shape tied to the variant
KeepCookie(q, sv) == \/ Sample = 99
                     \/ ~SrvSendsHRR(sv)
                     \/ /\ Sample >= 10
                        /\ sv.cookie = 0 \/ Rank(q[5], ShapeIdx) = (Rank(q[2], CfgIds) + 2 * Rank(q[3], AeadIds) + Sample) % Cardinality(ShapeIdx)
                     \/ /\ Sample < 10
                        /\ Rank(sv.cookie, CookieLens) = (Rank(q[2], CfgIds) + 3 * Rank(q[3], AeadIds) + Sample) % Cardinality(CookieLens)
Combos(id) == {p \in {q \in NameSets \X CfgIds \X AeadIds \X MaxLens \X ShapeIdx \X UsageIdx \X OfferedSuites(id) :
                            Keep(q[2], q[3], q[4], q[1], q[5], q[6]) /\ KeepSuite(q[2], q[4], q[7])}
                     \X ServerVariants(id) : KeepCookie(p[1], p[2])}
MkVariant(id, q, sv, ct) == [id |-> id, sname |-> NamePairs[q[1]].s, pubname |-> NamePairs[q[1]].p, cfgid |-> q[2], aead |-> q[3], maxlen |-> q[4],
                             server |-> sv.server, hrr_group |-> sv.hrr_group, nretry |-> sv.nretry, cookie |-> sv.cookie, cert |-> ct,
                             shape |-> ListShapes[q[5]], usage |-> Usages[q[6]], suite |-> q[7]]
VariantsOf(id) == {MkVariant(id, p[1], p[2], ct) : p \in Combos(id), ct \in CertKinds}
Variants == UNION {VariantsOf(id) : id \in Capable}
Scenario(v) == [id |-> v.id, sname |-> v.sname, pubname |-> v.pubname, server |-> v.server, hrr_group |-> v.hrr_group, cookie |-> v.cookie, cert |-> v.cert, suite |-> v.suite,
                cfgid |-> v.cfgid, aead |-> v.aead, maxlen |-> v.maxlen, nretry |-> v.nretry, shape |-> v.shape, usage |-> v.usage,
                cfg_list |-> ModelList(v),
                retry_list |-> IF v.nretry = 0 THEN <<>> ELSE EncCfgList([k \in 1..v.nretry |-> ModelCfg(v, k)])]

Init == /\ scn \in {Scenario(v) : v \in Variants}
        /\ cli = CInit /\ srv = SInit /\ obs = ObsInit

\* ---------- actions (one per implementation step; the steps themselves are ECH!C_* / S_* / O_*)
\* the first build, and every further one a usage implies (the hello is marshalled again; what is sent is OuterHello(scn, 1) whenever)
BuildOuter == /\ cli.pc = "init" \/ (cli.pc = "built" /\ cli.nb < BuildsOf(scn.usage))
              /\ cli' = C_BuildOuter(cli) /\ UNCHANGED <<scn, srv, obs>>
SendCH1 == /\ cli.pc = "built" /\ cli.nb = BuildsOf(scn.usage)
           /\ cli' = C_SendCH1(cli) /\ obs' = O_Hello(obs, OuterHello(scn, 1)) /\ UNCHANGED <<scn, srv>>
SrvOnCH1 == /\ srv.pc = "wait_ch" /\ Len(obs.chs) = 1
            /\ srv' = S_OnCH1(srv, scn)
            /\ obs' = [(IF SrvDecrypts(scn) THEN ServerInner(obs, obs.chs[1]) ELSE obs) EXCEPT !.hrr = IF SrvSendsHRR(scn) THEN scn.hrr_group ELSE 0,
                                                                                              !.cookie = IF SrvSendsHRR(scn) THEN ModelCookieBody(scn) ELSE <<>>]
            /\ UNCHANGED <<scn, cli>>
ProcessHRR == /\ cli.pc = "wait_sh" /\ cli.nch = 1 /\ srv.pc = "wait_ch2"
              /\ cli' = C_ProcessHRR(cli) /\ UNCHANGED <<scn, srv, obs>>
SendCH2 == /\ cli.pc = "hrr"
           /\ cli' = C_SendCH2(cli) /\ obs' = O_Hello(O_Record(obs, 20, <<1>>), OuterHello(scn, 2)) /\ UNCHANGED <<scn, srv>>
SrvOnCH2 == /\ srv.pc = "wait_ch2" /\ Len(obs.chs) = 2
            /\ srv' = S_OnCH2(srv)
            /\ obs' = (IF SrvDecrypts(scn) THEN ServerInner(obs, obs.chs[2]) ELSE obs)
            /\ UNCHANGED <<scn, cli>>
SrvSendParams == srv.pc = "send_params" /\ srv' = S_SendParams(srv, scn) /\ UNCHANGED <<scn, cli, obs>>
ProcessServerHello == /\ cli.pc = "wait_sh" /\ srv.pc = "sent"
                      /\ cli' = C_ProcessServerHello(cli, IF Mutant = "ignore-signal" THEN TRUE
                                                                    ELSE ReadSignal(AcceptSignal(srv.accepted, scn.suite),
                                                                                    IF Mutant = "kdf-hash" THEN "sha256" ELSE ClientSignalHash(scn)), scn)
                      /\ obs' = (IF cli.nch = 1 THEN O_Record(obs, 20, <<1>>) ELSE obs) /\ UNCHANGED <<scn, srv>>
VerifyCertificate == /\ cli.pc = "verify"
                     /\ cli' = (IF Mutant = "verify-servername-always"
                                THEN (IF CertAccepts(scn.cert, scn.sname, scn) THEN [cli EXCEPT !.pc = "finish", !.vname = scn.sname]
                                      ELSE [cli EXCEPT !.pc = "done", !.vname = scn.sname, !.outcome = "CertificateVerificationError"])
                                ELSE C_VerifyCertificate(cli, scn))
                     /\ UNCHANGED <<scn, srv, obs>>
Finish == /\ cli.pc = "finish"
          /\ cli' = C_Finish(cli, IF Mutant = "drop-retry" THEN <<>> ELSE srv.retry)
          /\ obs' = O_Record(obs, 23, <<23, 42>>) /\ UNCHANGED <<scn, srv>>
Next == BuildOuter \/ SendCH1 \/ SrvOnCH1 \/ ProcessHRR \/ SendCH2 \/ SrvOnCH2 \/ SrvSendParams \/ ProcessServerHello \/ VerifyCertificate \/ Finish
Terminal == cli.pc = "done"

\* model sanity: names of a scenario differ, the configuration parses back to the scenario's fields
ScenarioSane == /\ scn.sname # scn.pubname /\ ~Contains(scn.pubname, scn.sname)
                /\ Cfg(scn).ok /\ Cfg(scn).id = scn.cfgid /\ Cfg(scn).maxlen = scn.maxlen /\ Cfg(scn).pubname = scn.pubname
                /\ PickSuite(Cfg(scn)).aead = scn.aead
                /\ ShapeSane(scn.shape, ParseCfgList(scn.cfg_list)) /\ Cfg(scn).pk = ModelPK(0)
\* every scenario ends, after an HRR iff the server asked for one
Progress == Terminal => Len(obs.chs) = (IF SrvSendsHRR(scn) THEN 2 ELSE 1)

Emit == Terminal => PrintT(<<"SCN", ToJson([id |-> scn.id, sname |-> scn.sname, pubname |-> scn.pubname, cfgid |-> scn.cfgid, aead |-> scn.aead,
                                              maxlen |-> scn.maxlen, server |-> scn.server, hrr_group |-> scn.hrr_group, cookie |-> scn.cookie, suite |-> scn.suite, nretry |-> scn.nretry,
                                              cert |-> scn.cert, shape |-> scn.shape, usage |-> scn.usage, minver |-> 0])>>)
=============================================================================
