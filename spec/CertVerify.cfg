INIT Init
NEXT Next
INVARIANT SkipVerifyAccepts
INVARIANT WrongNameRule
CONSTRAINT Emit
CHECK_DEADLOCK FALSE
