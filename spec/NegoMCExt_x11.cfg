CONSTANT Mode = "c10"
CONSTANT XMode = "x11"
CONSTANT XOnly = 0
INIT XInit
NEXT XNext
CONSTRAINT XEmit
INVARIANT XOffered
INVARIANT XCompletes
INVARIANT XHRR
CHECK_DEADLOCK FALSE
