CONSTANTS
  Lat = {0}
  MaxList = 2
INIT InitTPEmit
NEXT Next
INVARIANT TPLaws
CHECK_DEADLOCK FALSE
