CONSTANTS
  Lat = {0, 1, 63, 64, 255}
  MaxList = 0
INIT InitVal
NEXT Next
INVARIANT ValueLaws
CONSTRAINT EmitVal
CHECK_DEADLOCK FALSE
