------------------------- MODULE UConnConcReneg_Trace -------------------------
(* Trace validation of the renegotiation phase.  conc_reneg_trace.ndjson: one line per run,
   [sc, cfg, ev : [key -> that goroutine's own log]], keys reader, h, writer, peer, main; every event has a
   run-wide sequence number.  A run is accepted iff some behaviour of UConnConcReneg (LockBeforeClear = TRUE)
   produces exactly its logs.  A "hang" event (the watchdog tied to the I/O deadline found a call that had
   not returned) is never explained. *)
EXTENDS UConnConcReneg, Json
Trace == ndJsonDeserialize("conc_reneg_trace.ndjson")
Keys == {"reader", "h", "writer", "peer", "main"}
VARIABLES sc, idx, gseq
tvars == <<sc, idx, gseq>>
InitTrace == \E s \in 1..Len(Trace) :
               /\ sc = s /\ idx = [k \in Keys |-> 1] /\ gseq = 0
               /\ InitWith([h |-> Trace[s].cfg.h, writer |-> Trace[s].cfg.writer, rehs |-> Trace[s].cfg.rehs,
                            deadline |-> Trace[s].cfg.deadline, slack |-> Trace[s].cfg.slack])
Log(k)     == Trace[sc].ev[k]
Pending(k) == idx[k] <= Len(Log(k))
E(k)       == Log(k)[idx[k]]
IsNext(k)  == Pending(k) /\ E(k).seq = gseq + 1
Class(e)   == IF e.isnil THEN "nil" ELSE "err"
InTime(e)  == e.t <= cfg.deadline + cfg.slack
Final(e)   == Terminal /\ complete = e.complete /\ hmu = "free" /\ inmu = "free" /\ outmu = "free" /\ UNCHANGED vars
Match(e) ==
  CASE e.ev = "call"   -> Call(e.p)
    [] e.ev = "ret"    -> Ret(e.p) /\ retv[e.p] = Class(e) /\ InTime(e)
    [] e.ev = "arrive" -> Arrive(e.p, e.g)
    [] e.ev = "pass"   -> Pass(e.p, e.g)
    [] e.ev = "hr"     -> HelloReq
    [] e.ev = "final"  -> Final(e)
    [] OTHER           -> FALSE
EvStep == \E k \in Keys : /\ IsNext(k) /\ Match(E(k))
                          /\ idx' = [idx EXCEPT ![k] = @ + 1] /\ gseq' = gseq + 1 /\ UNCHANGED sc
TimeoutT == Timeout /\ \E k \in Keys : IsNext(k) /\ E(k).t >= cfg.deadline - 1
NextTrace == EvStep \/ ((Tau \/ TimeoutT) /\ UNCHANGED tvars)
Accepted == \A k \in Keys : ~Pending(k)
Report == Accepted => PrintT(<<"DONE", sc>>)
=============================================================================
