------------------------------ MODULE Roller_MC ------------------------------
(* Bounded exhaustive configurations of Roller: every Dial history of length <= MaxSteps x every accept set (subset of
   the IDs) x TCP failure x 1..2 concurrent callers x every configured set x every preset working ID; all shuffles and
   all interleavings of the concurrent callers.  Roller_MC.cfg: safety;  Roller_MC_live.cfg: every Dial returns. *)
EXTENDS Roller
=============================================================================
