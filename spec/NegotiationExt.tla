--------------------------- MODULE NegotiationExt ---------------------------
(***************************************************************************)
(* Negotiation against an EXTERNAL, independent server implementation      *)
(* (`openssl s_server`, check X10): what such a server can select, and     *)
(* what can be required of a handshake whose server side is a black box.   *)
(*                                                                         *)
(* Nothing here is known about a particular OpenSSL build: what a build    *)
(* implements (versions, suites, groups, certificate kinds, -stateless)    *)
(* is probed at run time by the harness (cmd ossl, command osslprobe) and  *)
(* read from ossl_caps.json by NegoMCExt, which filters the grid with it.  *)
(*                                                                         *)
(* Differences between OsslCanSelect and Negotiation!ServerCanSelect (the  *)
(* in-tree Go server) are listed one by one below; each was observed on    *)
(* real handshakes and is reported by check X10 (coverage.disagreements).  *)
(***************************************************************************)
EXTENDS Negotiation

XH2 == <<104,50>>
XHTTP11 == <<104,116,116,112,47,49,46,49>>
XClassical == {29, 23, 24, 25}

\* the server is run with -alpn h2,http/1.1 (scenario field alpn non-empty) or without -alpn; with a list and a client
\* that offers ALPN but none of the two names, it refuses (no_application_protocol), like the in-tree server
XAlpnOK(o, sc) == sc.alpn = <<>> \/ o.alpn = {} \/ XH2 \in o.alpn \/ XHTTP11 \in o.alpn

\* can an OpenSSL server holding a certificate of this key kind (ecdsa = P-256, rsa = 2048 bit, ed25519) authenticate
\* to this client?  Same rule as Negotiation!CertSigOK (RFC 8446 4.2.3, RFC 5246 7.4.1.4.1) plus:
\*  (D-a) below TLS 1.3 OpenSSL uses an ECDSA certificate only if the client's supported_groups contains the
\*        certificate's curve (RFC 4492 5.1: the extension also constrains the server certificate; tls1_check_cert_param);
\*        the in-tree server does not look at the certificate's curve.
XCertSigOK(o, cert, ver) ==
  /\ CertSigOK(o, cert, ver)
  /\ (ver < 772 /\ cert = "ecdsa" => 23 \in o.groups)

\* one version, one suite, one group, one certificate kind, as configured on the s_server command line
OsslCanSelect(o, sc) ==
  /\ XCertSigOK(o, sc.cert, sc.ver)
  /\ sc.ver \in o.versions
  /\ sc.suite \in o.suites /\ SuiteFitsVersion(sc.suite, sc.ver)
  /\ (sc.ver = 772 => sc.group \in o.groups)
  /\ (sc.ver < 772 /\ KnownSuite(sc.suite) /\ SuiteRec(sc.suite).ECDHE => sc.group \in o.groups \cap XClassical)
  /\ (sc.ver < 772 /\ KnownSuite(sc.suite) => (SuiteRec(sc.suite).ECSign <=> sc.cert \in {"ecdsa", "ed25519"}))
  /\ XAlpnOK(o, sc)

\* the in-tree server's side of the comparison: Negotiation!ServerCanSelect plus "the suite is in the server's table"
GoCanSelect(o, sc) ==
  /\ ServerCanSelect(o, sc)
  /\ KnownSuite(sc.suite) /\ SuiteRec(sc.suite).InDefaultTable
  /\ XAlpnOK(o, sc)

\* ------------------------------------------------------------ second ClientHello after a cookie-only HelloRetryRequest
\* RFC 8446 4.1.2: without a key_share extension in the HelloRetryRequest the key_share extension of the second
\* ClientHello is the one of the first (s_server -stateless answers every first hello with a cookie, and names a
\* group only when it needs another share).  Negotiation!CH2Problems covers everything else.
CH2KeepsShares(raw1, raw2, hrr) ==
  LET h1 == ParseHello(raw1)
      h2 == ParseHello(raw2)
  IN IF SHGroup(hrr) = 0 /\ h1.ok /\ h2.ok /\ ExtByType(h1, 51) # ExtByType(h2, 51)
     THEN {"ch2-keyshare-changed-without-request"} ELSE {}

\* ------------------------------------------------------------ data round trip through s_server
\* the client writes one line; s_server prints what it decrypted (srv_got: the data lines it printed during the
\* connection); the harness then types one line on the server's stdin, which s_server encrypts to the client (crecv)
XEchoOK(ev) == ev.srv_got = <<ev.sent>> /\ ev.crecv = ev.reply /\ ev.sent # <<>> /\ ev.reply # <<>>

\* ------------------------------------------------------------ agreement with what the server side lets us see (C11)
\* wire: the plaintext ServerHello / ServerKeyExchange; sview: what s_server printed (fields listed in known)
XAgreeProblems(cs, sh, skeCurve, sview, known, o, cekm, sekm) ==
  LET v == SHVersion(sh) IN
  (IF cs.version # v THEN {"version-vs-wire"} ELSE {})
  \cup (IF cs.suite # sh.suite THEN {"suite-vs-wire"} ELSE {})
  \cup (IF v = 772 /\ cs.curve # SHGroup(sh) THEN {"curve-vs-wire"} ELSE {})
  \cup (IF v < 772 /\ skeCurve # 0 /\ cs.curve # skeCurve THEN {"curve-vs-wire"} ELSE {})
  \cup (IF v < 772 /\ cs.proto # SHAlpn(sh) THEN {"alpn-vs-wire"} ELSE {})
  \cup (IF "suite" \in known /\ cs.suite # sview.suite THEN {"suite"} ELSE {})
  \cup (IF "proto" \in known /\ cs.proto # sview.proto THEN {"alpn"} ELSE {})
  \cup (IF "resumed" \in known /\ cs.resumed # sview.resumed THEN {"did-resume"} ELSE {})
  \cup (IF "sni" \in known /\ cs.sni # sview.sni THEN {"server-name"} ELSE {})
  \cup (IF "sni" \in known /\ sview.sni # o.sni THEN {"server-name-not-the-sni-sent"} ELSE {})
  \cup (IF cs.ech THEN {"ech-accepted"} ELSE {})
  \cup (IF Len(cekm) = Len(sekm) /\ \E i \in DOMAIN cekm : cekm[i] # <<>> /\ sekm[i] # <<>> /\ cekm[i] # sekm[i] THEN {"exporter"} ELSE {})
=============================================================================
