----------------------------- MODULE ExtCodec_MC -----------------------------
(***************************************************************************)
(* Bounded exhaustive enumeration of extension descriptors for C08.        *)
(* One state = one descriptor (configuration grid: the scenario is the     *)
(* initial state).  Every built-in kind x every field value with list      *)
(* lengths 0..MaxList (2 quick, 3 thorough) over a 2-3 symbol alphabet,    *)
(* plus boundary descriptors (configuration Boundary = TRUE)               *)
(* (element length 255, totals just under 2^16; contents vary with Seed).  *)
(* Each state is printed as a scenario (SCN) together with the buffer      *)
(* sizes the harness has to try, and the model-level invariants relate the *)
(* separately written halves of the codec specification:                   *)
(*   EncAgreesWithTLSWire  XEnc = TLSWire!EncodeExt where the latter has   *)
(*                         no hole,                                        *)
(*   LimitsMeanValid       InLimits(d) => TLSWire!ValidBody(XEnc(d)),      *)
(*   ValidMeansLimits      the converse for the kinds with a strict        *)
(*                         grammar (so InLimits is not too narrow),        *)
(*   NormIdempotent, NormKeepsLimits.                                      *)
(***************************************************************************)
EXTENDS ExtCodec

CONSTANTS Seed, Boundary, MaxList   \* Boundary = TRUE: only the boundary descriptors; FALSE: only the small alphabet (lists of 0..MaxList entries)

Lists(S) == UNION { {SubSeq(f, 1, n) : f \in [1..n -> S]} : n \in 0..MaxList }
Str(s) == s   \* byte strings are written as tuples of character codes
H2 == <<104, 50>>
HTTP11 == <<104, 116, 116, 112, 47, 49, 46, 49>>
EXAMPLE == <<101, 120, 97, 109, 112, 108, 101, 46, 99, 111, 109>>
Bytes3 == {<<>>, <<0>>, <<1, 2, 3>>}
SB == Seed % 251      \* a seed-dependent byte

B8(n) == NatB8(n)
TwoTo32 == <<0, 0, 0, 1, 0, 0, 0, 0>>
TPAlphabet == {
   [kind |-> "MaxIdleTimeout", v |-> B8(30000)],
   [kind |-> "InitialMaxData", v |-> TwoTo32],
   [kind |-> "MaxUDPPayloadSize", v |-> B8(63)],
   [kind |-> "DisableActiveMigration"],
   [kind |-> "GREASEQUICBit"],
   [kind |-> "InitialSourceConnectionID", v |-> <<>>],
   [kind |-> "PaddingTransportParameter", v |-> <<0, 0>>],
   [kind |-> "VersionInformation", f |-> [ChoosenVersion |-> <<0, 0, 0, 1>>, AvailableVersions |-> <<<<0, 0, 0, 1>>, <<10, 10, 10, 10>>>>, LegacyID |-> FALSE]],
   [kind |-> "VersionInformation", f |-> [ChoosenVersion |-> <<107, 51, 67, 207>>, AvailableVersions |-> <<>>, LegacyID |-> TRUE]],
   [kind |-> "GREASETransportParameter", f |-> [IdOverride |-> B8(27 + 31 * 1000), Length |-> 0, ValueOverride |-> <<1, 2>>]],
   [kind |-> "GREASETransportParameter", f |-> [IdOverride |-> B8(0), Length |-> 3, ValueOverride |-> <<>>]],
   [kind |-> "FakeQUICTransportParameter", f |-> [Id |-> <<63, 255, 255, 255, 255, 255, 255, 255>>, Val |-> <<9>>]] }
AllTPKinds == <<
   [kind |-> "MaxIdleTimeout", v |-> B8(0)], [kind |-> "MaxUDPPayloadSize", v |-> B8(1472)], [kind |-> "InitialMaxData", v |-> B8(1073741823)],
   [kind |-> "InitialMaxStreamDataBidiLocal", v |-> B8(16383)], [kind |-> "InitialMaxStreamDataBidiRemote", v |-> B8(16384)],
   [kind |-> "InitialMaxStreamDataUni", v |-> B8(64)], [kind |-> "InitialMaxStreamsBidi", v |-> B8(100)], [kind |-> "InitialMaxStreamsUni", v |-> B8(3)],
   [kind |-> "MaxAckDelay", v |-> B8(25)], [kind |-> "DisableActiveMigration"], [kind |-> "ActiveConnectionIDLimit", v |-> B8(8)],
   [kind |-> "InitialSourceConnectionID", v |-> <<1, 2, 3, 4>>],
   [kind |-> "VersionInformation", f |-> [ChoosenVersion |-> <<0, 0, 0, 1>>, AvailableVersions |-> <<<<10, 10, 10, 10>>, <<0, 0, 0, 1>>>>, LegacyID |-> FALSE]],
   [kind |-> "PaddingTransportParameter", v |-> XRep(20, 0)], [kind |-> "MaxDatagramFrameSize", v |-> B8(65535)], [kind |-> "GREASEQUICBit"],
   [kind |-> "GREASETransportParameter", f |-> [IdOverride |-> B8(0), Length |-> 5, ValueOverride |-> <<>>]],
   [kind |-> "FakeQUICTransportParameter", f |-> [Id |-> B8(16730), Val |-> <<1>>]] >>

KSAlphabet == { [Group |-> 29, Data |-> XRep(32, 7)], [Group |-> 6682, Data |-> <<0>>], [Group |-> 23, Data |-> <<>>] }
PskIdAlphabet == { [Label |-> <<1, 2, 3>>, ObfuscatedTicketAge |-> <<0, 0, 0, 1>>],
                   [Label |-> <<>>, ObfuscatedTicketAge |-> <<255, 255, 255, 255>>],
                   [Label |-> XRep(40, 9), ObfuscatedTicketAge |-> <<128, 0, 0, 0>>] }
BinderAlphabet == { XRep(32, 1), XRep(48, 2), XRep(33, 3) }
Names == { <<>>, EXAMPLE, <<97, 46, 98, 46>>, <<46>>, <<49, 46, 50, 46, 51, 46, 52>>, <<49, 46, 50, 46, 51, 46, 52, 46>>, <<58, 58, 49>>,
           <<91, 58, 58, 49, 93>>, <<50, 53, 54, 46, 49, 46, 49, 46, 49>>, <<102, 101, 56, 48, 58, 58, 49, 37, 101, 116, 104, 48>> }

\* the field records of every kind (small alphabet)
FieldSet(k) ==
  CASE k = "SNIExtension" -> {[ServerName |-> n] : n \in Names}
    [] k = "SupportedCurvesExtension" -> {[Curves |-> l] : l \in Lists({29, 2570, 6682})}
    [] k = "SupportedPointsExtension" -> {[SupportedPoints |-> l] : l \in Lists({0, 1, 2})}
    [] k \in {"SignatureAlgorithmsExtension", "SignatureAlgorithmsCertExtension", "FakeDelegatedCredentialsExtension"} ->
         {[SupportedSignatureAlgorithms |-> l] : l \in Lists({1027, 2052, 6682})}
    [] k = "ALPNExtension" -> {[AlpnProtocols |-> l] : l \in Lists({H2, <<>>, HTTP11})}
    [] k \in {"ApplicationSettingsExtension", "ApplicationSettingsExtensionNew"} -> {[SupportedProtocols |-> l] : l \in Lists({H2, <<>>, HTTP11})}
    [] k = "GenericExtension" -> {[Id |-> i, Data |-> b] : i \in {4660, 65535}, b \in Bytes3}
    [] k = "UtlsGREASEExtension" -> {[Value |-> v, Body |-> b] : v \in {2570, 6682, 4660}, b \in Bytes3}
    [] k = "UtlsPaddingExtension" -> {[PaddingLen |-> n, WillPad |-> w] : n \in {0, 1, 300}, w \in BOOLEAN}
    [] k = "UtlsCompressCertExtension" -> {[Algorithms |-> l] : l \in Lists({1, 2, 3})}
    [] k = "KeyShareExtension" -> {[KeyShares |-> l] : l \in Lists(KSAlphabet)}
    [] k = "QUICTransportParametersExtension" -> {[TransportParameters |-> l] : l \in Lists(TPAlphabet) \cup {AllTPKinds}}
    [] k = "PSKKeyExchangeModesExtension" -> {[Modes |-> l] : l \in Lists({0, 1, 255})}
    [] k = "SupportedVersionsExtension" -> {[Versions |-> l] : l \in Lists({772, 771, 6682})}
    [] k = "CookieExtension" -> {[Cookie |-> b] : b \in Bytes3}
    [] k = "RenegotiationInfoExtension" -> {[Renegotiation |-> r, RenegotiatedConnection |-> b] : r \in {0, 1}, b \in {<<>>, <<1>>, XRep(12, 200)}}
    [] k = "FakeChannelIDExtension" -> {[OldExtensionID |-> b] : b \in BOOLEAN}
    [] k = "FakeRecordSizeLimitExtension" -> {[Limit |-> n] : n \in {0, 16385, 65535}}
    [] k = "FakeTokenBindingExtension" -> {[MajorVersion |-> v[1], MinorVersion |-> v[2], KeyParameters |-> l] : v \in {<<1, 0>>, <<255, 255>>}, l \in Lists({0, 1, 2})}
    [] k = "UtlsPreSharedKeyExtension" -> {[OmitEmptyPsk |-> b] : b \in BOOLEAN}
    [] k = "FakePreSharedKeyExtension" -> {[Identities |-> i, Binders |-> b, OmitEmptyPsk |-> o] : i \in Lists(PskIdAlphabet), b \in Lists(BinderAlphabet), o \in BOOLEAN}
    [] k = "GREASEEncryptedClientHelloExtension" ->
         {[CandidateCipherSuites |-> cs, CandidateConfigIds |-> ci, EncapsulatedKey |-> ek, CandidatePayloadLens |-> pl] :
            cs \in {<<>>, <<[KdfId |-> 1, AeadId |-> 1]>>, <<[KdfId |-> 1, AeadId |-> 1], [KdfId |-> 1, AeadId |-> 3]>>, <<[KdfId |-> 2, AeadId |-> 2]>>},
            ci \in {<<>>, <<7>>, <<7, 200>>}, ek \in {<<>>, XRep(32, 5), <<1, 2, 3>>}, pl \in {<<>>, <<128>>, <<0>>, <<1>>, <<128, 160>>}}
    [] k = "SessionTicketExtension" -> {[Ticket |-> b, Initialized |-> i] : b \in Bytes3, i \in BOOLEAN}

NoFieldKinds == {"StatusRequestExtension", "StatusRequestV2Extension", "SCTExtension", "ExtendedMasterSecretExtension", "NPNExtension"}
FieldKinds == {"SNIExtension", "SupportedCurvesExtension", "SupportedPointsExtension", "SignatureAlgorithmsExtension",
               "SignatureAlgorithmsCertExtension", "FakeDelegatedCredentialsExtension", "ALPNExtension", "ApplicationSettingsExtension",
               "ApplicationSettingsExtensionNew", "GenericExtension", "UtlsGREASEExtension", "UtlsPaddingExtension",
               "UtlsCompressCertExtension", "KeyShareExtension", "QUICTransportParametersExtension", "PSKKeyExchangeModesExtension",
               "SupportedVersionsExtension", "CookieExtension", "RenegotiationInfoExtension", "FakeChannelIDExtension",
               "FakeRecordSizeLimitExtension", "FakeTokenBindingExtension", "UtlsPreSharedKeyExtension", "FakePreSharedKeyExtension",
               "GREASEEncryptedClientHelloExtension", "SessionTicketExtension"}
AllKinds == NoFieldKinds \cup FieldKinds

\* ---------- boundary descriptors (one per entry; sequences, because the records have different shapes) ----------
D(k, f) == [kind |-> k, f |-> f]
BoundaryDescs == <<
  D("GenericExtension", [Id |-> 4660, Data |-> XRep(65535, SB)]),
  D("UtlsGREASEExtension", [Value |-> 2570, Body |-> XRep(65535, SB)]),
  D("SessionTicketExtension", [Ticket |-> XRep(65535, SB), Initialized |-> TRUE]),
  D("CookieExtension", [Cookie |-> XRep(65533, SB)]),
  D("SupportedCurvesExtension", [Curves |-> XRep(32766, 29 + SB)]),
  D("SignatureAlgorithmsExtension", [SupportedSignatureAlgorithms |-> XRep(32766, 1027)]),
  D("SignatureAlgorithmsCertExtension", [SupportedSignatureAlgorithms |-> XRep(32766, 2052)]),
  D("FakeDelegatedCredentialsExtension", [SupportedSignatureAlgorithms |-> XRep(32766, 1027)]),
  D("SupportedPointsExtension", [SupportedPoints |-> XRep(255, 1)]),
  D("PSKKeyExchangeModesExtension", [Modes |-> XRep(255, 1)]),
  D("PSKKeyExchangeModesExtension", [Modes |-> XRep(256, 1)]),
  D("SupportedVersionsExtension", [Versions |-> XRep(127, 772)]),
  D("SupportedVersionsExtension", [Versions |-> XRep(128, 772)]),
  D("UtlsCompressCertExtension", [Algorithms |-> XRep(127, 2)]),
  D("UtlsCompressCertExtension", [Algorithms |-> XRep(128, 2)]),
  D("FakeTokenBindingExtension", [MajorVersion |-> 1, MinorVersion |-> 0, KeyParameters |-> XRep(255, 2)]),
  D("RenegotiationInfoExtension", [Renegotiation |-> 1, RenegotiatedConnection |-> XRep(255, SB)]),
  D("ALPNExtension", [AlpnProtocols |-> <<XRep(255, 97)>>]),
  D("ALPNExtension", [AlpnProtocols |-> XRep(255, XRep(255, 98)) \o <<XRep(252, 99)>>]),
  D("ApplicationSettingsExtension", [SupportedProtocols |-> <<XRep(255, 97), H2>>]),
  D("ApplicationSettingsExtensionNew", [SupportedProtocols |-> XRep(255, XRep(255, 98)) \o <<XRep(252, 99)>>]),
  D("KeyShareExtension", [KeyShares |-> <<[Group |-> 29, Data |-> XRep(65529, SB)]>>]),
  D("KeyShareExtension", [KeyShares |-> <<[Group |-> 2570, Data |-> XRep(255, SB)], [Group |-> 25497, Data |-> XRep(1216, 3)], [Group |-> 29, Data |-> XRep(32, 4)]>>]),
  D("SNIExtension", [ServerName |-> XRep(65530, 97)]),
  D("SNIExtension", [ServerName |-> XRep(253, 97) \o <<46>>]),
  D("FakePreSharedKeyExtension", [Identities |-> <<[Label |-> XRep(65490, SB), ObfuscatedTicketAge |-> <<255, 255, 255, 255>>]>>, Binders |-> <<XRep(32, 9)>>, OmitEmptyPsk |-> FALSE]),
  D("FakePreSharedKeyExtension", [Identities |-> <<[Label |-> XRep(255, 1), ObfuscatedTicketAge |-> <<0, 0, 0, 0>>], [Label |-> <<7>>, ObfuscatedTicketAge |-> <<0, 0, 1, 0>>]>>,
                                  Binders |-> <<XRep(48, 9), XRep(32, 8)>>, OmitEmptyPsk |-> TRUE]),
  D("GREASEEncryptedClientHelloExtension", [CandidateCipherSuites |-> <<[KdfId |-> 3, AeadId |-> 3]>>, CandidateConfigIds |-> <<255>>,
                                            EncapsulatedKey |-> XRep(60000, SB), CandidatePayloadLens |-> <<5000>>]),
  D("QUICTransportParametersExtension", [TransportParameters |-> <<[kind |-> "PaddingTransportParameter", v |-> XRep(65000, 0)], [kind |-> "MaxIdleTimeout", v |-> <<63, 255, 255, 255, 255, 255, 255, 255>>]>>]),
  [kind |-> "UtlsPaddingExtension", f |-> [PaddingLen |-> 65535, WillPad |-> TRUE], style |-> "none", padto |-> 0]
>>

\* ---------- the grid ----------
VARIABLE d
PadStyles == {[style |-> "none", padto |-> 0], [style |-> "boring", padto |-> 0], [style |-> "padto", padto |-> 700]}
SmallInit ==
  \/ \E k \in NoFieldKinds : d = [kind |-> k]
  \/ \E k \in FieldKinds \ {"UtlsPaddingExtension"} : \E f \in FieldSet(k) : d = [kind |-> k, f |-> f]
  \/ \E f \in FieldSet("UtlsPaddingExtension") : \E s \in PadStyles : d = [kind |-> "UtlsPaddingExtension", f |-> f, style |-> s.style, padto |-> s.padto]
\* ---------- carry boundaries: nested length prefixes around the first byte carries ----------
\* For every encoding that nests a length-prefixed vector inside another length (outer = inner + k), element
\* sizes are chosen so that the INNER total is 253..257 and 509..513 (= 253, 254, 255, 0, 1 mod 256): an encoder
\* that derives the outer length from the bytes of the inner one (or forgets a carry) disagrees with Len() there.
\* u8-prefixed vectors (outer <= 258) get their own top sizes.  All values stay within the RFC limits.
Carry == (253..257) \cup (509..513)
RECURSIVE ProtosOfTotal(_)
\* protocol names whose list encoding (1 + length each) is exactly t bytes, every name 1..255 bytes
ProtosOfTotal(t) == IF t <= 256 THEN <<XRep(t - 1, 97)>>
                    ELSE IF t = 257 THEN <<XRep(254, 97), <<98>>>>
                    ELSE <<XRep(255, 99)>> \o ProtosOfTotal(t - 256)
SigKinds == {"SignatureAlgorithmsExtension", "SignatureAlgorithmsCertExtension", "FakeDelegatedCredentialsExtension"}
CarryInit ==
  \* key_share: client_shares total = 4 + len(data) per share; one share, a GREASE share plus a real one, a hybrid-sized pair
  \/ \E t \in Carry : d = D("KeyShareExtension", [KeyShares |-> <<[Group |-> IF t % 2 = 0 THEN 29 ELSE 6682, Data |-> XRep(t - 4, SB)]>>])
  \/ \E t \in Carry : d = D("KeyShareExtension", [KeyShares |-> <<[Group |-> 2570, Data |-> <<0>>], [Group |-> 29, Data |-> XRep(t - 9, 3)]>>])
  \/ \E t \in 1277..1281 : d = D("KeyShareExtension", [KeyShares |-> <<[Group |-> 25497, Data |-> XRep(1216, 5)], [Group |-> 29, Data |-> XRep(t - 1224, 6)]>>])
  \* ALPN / ALPS: protocol_name_list total
  \/ \E t \in Carry : d = D("ALPNExtension", [AlpnProtocols |-> ProtosOfTotal(t)])
  \/ \E t \in Carry : d = D("ApplicationSettingsExtension", [SupportedProtocols |-> ProtosOfTotal(t)])
  \/ \E t \in Carry : d = D("ApplicationSettingsExtensionNew", [SupportedProtocols |-> ProtosOfTotal(t)])
  \* server_name: host_name length h, server_name_list = h + 3, extension_data = h + 5
  \/ \E h \in (248..257) \cup (504..513) : d = D("SNIExtension", [ServerName |-> XRep(h, 97)])
  \* u16 lists of u16 values: list = 2n, extension_data = 2n + 2
  \/ \E n \in {126, 127, 128, 254, 255, 256} :
       \/ d = D("SupportedCurvesExtension", [Curves |-> XRep(n, 29)])
       \/ \E k \in SigKinds : d = D(k, [SupportedSignatureAlgorithms |-> XRep(n, 1027)])
  \* u8-prefixed vectors: extension_data = 1 + n (+2 for token binding)
  \/ \E n \in {253, 254, 255} :
       \/ d = D("SupportedPointsExtension", [SupportedPoints |-> XRep(n, 1)])
       \/ d = D("PSKKeyExchangeModesExtension", [Modes |-> XRep(n, 1)])
       \/ d = D("RenegotiationInfoExtension", [Renegotiation |-> 1, RenegotiatedConnection |-> XRep(n, SB)])
       \/ d = D("FakeTokenBindingExtension", [MajorVersion |-> 1, MinorVersion |-> 0, KeyParameters |-> XRep(n - 2, 2)])
  \/ \E n \in {125, 126, 127} :
       \/ d = D("SupportedVersionsExtension", [Versions |-> XRep(n, 772)])
       \/ d = D("UtlsCompressCertExtension", [Algorithms |-> XRep(n, 2)])
  \* cookie: cookie length c, extension_data = c + 2
  \/ \E c \in Carry : d = D("CookieExtension", [Cookie |-> XRep(c, SB)])
  \* pre_shared_key: identities total = label + 6 (t), and the whole extension_data = t + 37 with one 32-byte binder
  \/ \E t \in Carry \cup (216..220) \cup (472..476) :
       d = D("FakePreSharedKeyExtension", [Identities |-> <<[Label |-> XRep(t - 6, 7), ObfuscatedTicketAge |-> <<1, 2, 3, 4>>]>>,
                                           Binders |-> <<XRep(32, 9)>>, OmitEmptyPsk |-> FALSE])
  \/ \E t \in Carry : d = D("FakePreSharedKeyExtension",
                            [Identities |-> <<[Label |-> XRep(t - 15, 7), ObfuscatedTicketAge |-> <<0, 0, 0, 1>>], [Label |-> <<1, 2, 3>>, ObfuscatedTicketAge |-> <<0, 0, 0, 2>>]>>,
                             Binders |-> <<XRep(48, 9), XRep(32, 8)>>, OmitEmptyPsk |-> FALSE])
  \* QUIC transport parameters: varint length prefix switches width at 64; extension_data = 3 + v for v >= 64
  \/ \E v \in {62, 63, 64, 65} \cup (250..254) \cup (506..510) :
       d = D("QUICTransportParametersExtension", [TransportParameters |-> <<[kind |-> "PaddingTransportParameter", v |-> XRep(v, 0)]>>])
  \/ \E v \in (244..248) \cup (500..504) :
       d = D("QUICTransportParametersExtension", [TransportParameters |-> <<[kind |-> "MaxIdleTimeout", v |-> B8(30000)],
                                                                            [kind |-> "InitialSourceConnectionID", v |-> XRep(v, SB)]>>])
  \* GREASE ECH: enc length e, payload p + 16, extension_data = e + p + 26
  \/ \E e \in Carry \cup (99..103) \cup (355..359) : d = D("GREASEEncryptedClientHelloExtension", [CandidateCipherSuites |-> <<[KdfId |-> 1, AeadId |-> 1]>>, CandidateConfigIds |-> <<>>,
                                                                                  EncapsulatedKey |-> XRep(e, SB), CandidatePayloadLens |-> <<128>>])
  \/ \E p \in (237..241) \cup (493..497) : d = D("GREASEEncryptedClientHelloExtension", [CandidateCipherSuites |-> <<>>, CandidateConfigIds |-> <<>>,
                                                                                        EncapsulatedKey |-> <<>>, CandidatePayloadLens |-> <<p>>])
  \* single-level bodies around the carries (hi/lo byte arithmetic of the extension header itself)
  \/ \E n \in Carry :
       \/ d = D("GenericExtension", [Id |-> 4660, Data |-> XRep(n, SB)])
       \/ d = D("UtlsGREASEExtension", [Value |-> 2570, Body |-> XRep(n, SB)])
       \/ d = D("SessionTicketExtension", [Ticket |-> XRep(n, SB), Initialized |-> TRUE])
       \/ d = [kind |-> "UtlsPaddingExtension", f |-> [PaddingLen |-> n, WillPad |-> TRUE], style |-> "none", padto |-> 0]
Init == IF Boundary THEN (\E i \in DOMAIN BoundaryDescs : d = BoundaryDescs[i]) \/ CarryInit ELSE SmallInit
Next == UNCHANGED d

Sizes == <<"L", "L-1", "L/2", "0", "L+3">>
Updates == IF d.kind = "UtlsPaddingExtension" THEN <<100, 255, 256, 300, 507, 508, 511, 512, 699, 700, 65535>> ELSE <<>>
Emit == PrintT(<<"SCN", ToJson([d |-> d, sizes |-> Sizes, update |-> Updates, inlimits |-> InLimits(d), st |-> XEnc(d).st, det |-> XEnc(d).det])>>)

\* ---------- model-level consistency of the specification's halves ----------
HasFields == d.kind \notin NoFieldKinds
TW == EncodeExt(IF HasFields THEN d ELSE [kind |-> d.kind, f |-> <<>>], [sni |-> IF d.kind = "SNIExtension" THEN SNIHost(d.f.ServerName) ELSE <<>>])
\* kinds whose TLSWire encoder is written for fixed parrot values only, or that XEnc may omit / refuse
TWComparable == /\ TW.hole = "none" /\ XEnc(d).st = "ok" /\ XEnc(d).det
                /\ d.kind \notin {"RenegotiationInfoExtension", "UtlsGREASEExtension"}
EncAgreesWithTLSWire == TWComparable => (TW.type = XEnc(d).type /\ TW.body = XEnc(d).body)
Producible == XEnc(d).st = "ok" /\ XEnc(d).det /\ FitsHeader(d)
LimitsMeanValid == (InLimits(d) /\ Producible) => ValidBody(XEnc(d).type, XEnc(d).body)
StrictKinds == AllKinds \ {"GenericExtension", "UtlsGREASEExtension", "SessionTicketExtension", "QUICTransportParametersExtension",
                           "GREASEEncryptedClientHelloExtension", "UtlsPaddingExtension", "RenegotiationInfoExtension",
                           "FakePreSharedKeyExtension", "StatusRequestV2Extension"}
ValidMeansLimits == (d.kind \in StrictKinds /\ Producible /\ ValidBody(XEnc(d).type, XEnc(d).body)) => InLimits(d)
NormIdempotent == NormDesc(NormDesc(d)) = NormDesc(d)
\* (the name and real key-share data are filled in per connection: their normal forms are deliberately incomplete)
NormKeepsLimits == (InLimits(d) /\ XEnc(d).st = "ok") => (d.kind \in {"SNIExtension", "KeyShareExtension"} \/ InLimits(NormDesc(d)))
RefusedOnlyOutsideLimits == XEnc(d).st = "refuse" => (~InLimits(d) \/ d.kind \in {"UtlsPreSharedKeyExtension", "FakePreSharedKeyExtension"})
KnownKind == XEnc(d).st # "unknown-kind"
=============================================================================
