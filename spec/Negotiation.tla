---------------------------- MODULE Negotiation ----------------------------
(***************************************************************************)
(* The required behaviour of a TLS client during negotiation, as a state   *)
(* machine over the handshake messages actually exchanged.                 *)
(*                                                                         *)
(* The client side is cut as the code is (handshake_client.go,             *)
(* handshake_client_tls13.go, u_handshake_client.go):                      *)
(*   SendCH1 -> [CheckHRR -> SendCH2] -> CheckServerHello -> CheckEE /     *)
(*   CheckSKE / CheckCertMsg -> Finish                                     *)
(* The server is not modelled as a decision procedure: its messages are    *)
(* taken from the wire (plaintext, logged by the verif hook before         *)
(* encryption) and parsed here; for every message the specification says   *)
(* whether a correct client may go on (OK) or must abort (a reason).       *)
(* Safety (C12, C13, C17): a client that must abort never completes.       *)
(* Progress (C10): if no message gave a reason to abort and the server's   *)
(* flight was complete, the client completes and data round-trips; a       *)
(* server refusal is allowed only where ServerCanSelect is false.          *)
(* Agreement (C11): both ConnectionStates and exporters coincide.          *)
(* Key shares (C18): sizes per group.                                      *)
(***************************************************************************)
EXTENDS Parrots

\* ------------------------------------------------------------ parsing server messages
\* ServerHello / HelloRetryRequest handshake message (type 2)
HRRRandom == <<207,33,173,116,229,154,97,17,190,29,140,2,30,101,184,145,194,162,17,22,122,187,140,94,7,158,9,226,200,168,51,156>>
BadSH == [ok |-> FALSE, vers |-> 0, random |-> <<>>, sid |-> <<>>, suite |-> 0, comp |-> 0, exts |-> <<>>]
ParseSH(s) ==
  IF Len(s) < 4 + 2 + 32 + 1 \/ s[1] # 2 \/ RdU24(s,2) + 4 # Len(s) THEN BadSH ELSE
  LET sidLen == s[39] IN
  IF 39 + sidLen + 3 > Len(s) THEN BadSH ELSE
  LET p == 40 + sidLen
      base == [ok |-> TRUE, vers |-> RdU16(s,5), random |-> SubSeq(s,7,38), sid |-> SubSeq(s,40,39+sidLen),
               suite |-> RdU16(s,p), comp |-> s[p+2], exts |-> <<>>] IN
  IF p + 2 = Len(s) THEN base
  ELSE IF p + 4 > Len(s) \/ p + 4 + RdU16(s,p+3) # Len(s) THEN BadSH
  ELSE [base EXCEPT !.exts = ParseExts(s, p+5, Len(s))]
IsHRR(sh) == sh.random = HRRRandom
SHExt(sh, t) == {i \in DOMAIN sh.exts : sh.exts[i].type = t}
SHHas(sh, t) == SHExt(sh, t) # {}
SHBody(sh, t) == sh.exts[CHOOSE i \in SHExt(sh, t) : TRUE].body
\* negotiated version: supported_versions if present, else legacy field
SHVersion(sh) == IF SHHas(sh, 43) /\ Len(SHBody(sh,43)) = 2 THEN RdU16(SHBody(sh,43),1) ELSE sh.vers
\* key_share: ServerHello = group + key; HRR = group only
SHGroup(sh) == IF SHHas(sh, 51) /\ Len(SHBody(sh,51)) >= 2 THEN RdU16(SHBody(sh,51),1) ELSE 0
SHPsk(sh) == IF SHHas(sh, 41) /\ Len(SHBody(sh,41)) = 2 THEN RdU16(SHBody(sh,41),1) ELSE -1
SHCookie(sh) == IF SHHas(sh, 44) THEN SHBody(sh,44) ELSE <<>>
SHAlpn(sh) == IF SHHas(sh, 16) /\ Len(SHBody(sh,16)) >= 3 THEN SubSeq(SHBody(sh,16), 4, Len(SHBody(sh,16))) ELSE <<>>
\* downgrade sentinels of RFC 8446 4.1.3 in the last 8 bytes of server random
Canary12 == <<68,79,87,78,71,82,68,1>>
Canary11 == <<68,79,87,78,71,82,68,0>>
HasCanary(sh) == SubSeq(sh.random, 25, 32) \in {Canary12, Canary11}

\* EncryptedExtensions (type 8): u16 extensions list at offset 5
ParseEE(s) == IF Len(s) < 6 \/ s[1] # 8 \/ RdU16(s,5) + 6 # Len(s) THEN <<[bad |-> TRUE, type |-> 0, body |-> <<>>]>>
              ELSE ParseExts(s, 7, Len(s))
EEAlpn(ee) == LET I == {i \in DOMAIN ee : ee[i].type = 16} IN
              IF I = {} THEN <<>> ELSE LET b == ee[CHOOSE i \in I : TRUE].body IN IF Len(b) >= 3 THEN SubSeq(b, 4, Len(b)) ELSE <<255>>
\* ServerKeyExchange (type 12) for ECDHE: curve_type 3, named curve
SKECurve(s) == IF Len(s) >= 7 /\ s[5] = 3 THEN RdU16(s,6) ELSE 0
\* CompressedCertificate (type 25): algorithm u16 at offset 5
CCAlg(s) == IF Len(s) >= 6 THEN RdU16(s,5) ELSE 0

\* ------------------------------------------------------------ what a ClientHello offers on the wire
NoOffer == [ok |-> FALSE, versions |-> {}, legacy |-> 0, suites |-> {}, groups |-> {}, shares |-> {}, shareSeq |-> <<>>, alpn |-> {},
            comp |-> {}, certcomp |-> {}, sid |-> <<>>, npsk |-> 0, sni |-> <<>>, hasSV |-> FALSE, ems |-> FALSE, alps |-> {}, sigalgs |-> {}, hasSigAlgs |-> FALSE]
WireOffer(raw, specMin) ==
  LET h == ParseHello(raw) IN
  IF ~h.ok \/ \E i \in DOMAIN h.exts : h.exts[i].bad THEN NoOffer ELSE
  LET sv == IF HasExtT(h,43) /\ Len(ExtBody(h,43)) >= 1 THEN {v \in Range(U16Seq(Tail(ExtBody(h,43)))) : ~IsGrease16(v)} ELSE {}
      grp == IF HasExtT(h,10) /\ Len(ExtBody(h,10)) >= 2 THEN U16Seq(SubSeq(ExtBody(h,10), 3, Len(ExtBody(h,10)))) ELSE <<>>
      shs == IF HasExtT(h,51) /\ IsVec16(ExtBody(h,51)) /\ SharesOK(ExtBody(h,51),3) THEN ParseShares(ExtBody(h,51),3) ELSE <<>>
      alpn == IF HasExtT(h,16) /\ IsVec16(ExtBody(h,16)) /\ ProtoNamesOK(ExtBody(h,16),3) THEN ParseProtoNames(ExtBody(h,16),3) ELSE <<>>
      alps == IF HasExtT(h,17513) THEN {17513} ELSE {}
      alpsN == IF HasExtT(h,17613) THEN {17613} ELSE {}
      cc == IF HasExtT(h,27) /\ Len(ExtBody(h,27)) >= 1 THEN Range(U16Seq(Tail(ExtBody(h,27)))) ELSE {}
      sni == IF HasExtT(h,0) /\ Len(ExtBody(h,0)) >= 5 THEN SubSeq(ExtBody(h,0), 6, Len(ExtBody(h,0))) ELSE <<>>
      npsk == IF HasExtT(h,41) /\ Len(ExtBody(h,41)) >= 2 /\ 2 + RdU16(ExtBody(h,41),1) <= Len(ExtBody(h,41))
              THEN PskIdCount(ExtBody(h,41), 3, 2 + RdU16(ExtBody(h,41),1)) ELSE 0
  IN [ok |-> TRUE,
      versions |-> IF HasExtT(h,43) THEN sv ELSE {v \in 769..771 : v >= specMin /\ v <= h.vers},
      legacy |-> h.vers,
      suites |-> {x \in Range(h.suites) : ~IsGrease16(x)},
      groups |-> {g \in Range(grp) : ~IsGrease16(g)},
      shares |-> {shs[i].group : i \in {j \in DOMAIN shs : ~IsGrease16(shs[j].group)}},
      shareSeq |-> shs,
      alpn |-> Range(alpn), comp |-> Range(h.comp), certcomp |-> cc, sid |-> h.sid, npsk |-> npsk, sni |-> sni,
      hasSV |-> HasExtT(h,43), ems |-> HasExtT(h,23), alps |-> alps \cup alpsN,
      sigalgs |-> IF HasExtT(h,13) /\ Len(ExtBody(h,13)) >= 2 THEN Range(U16Seq(SubSeq(ExtBody(h,13), 3, Len(ExtBody(h,13))))) ELSE {},
      hasSigAlgs |-> HasExtT(h,13)]

\* ------------------------------------------------------------ suite classes (from the code's tables, suites.json)
SuiteTab == JsonDeserialize("suites.json")
SuiteIdx(id) == {i \in DOMAIN SuiteTab : SuiteTab[i].ID = id}
KnownSuite(id) == SuiteIdx(id) # {}
SuiteRec(id) == SuiteTab[CHOOSE i \in SuiteIdx(id) : TRUE]
IsTLS13Suite(id) == KnownSuite(id) /\ SuiteRec(id).TLS13
IsTLS12OnlySuite(id) == KnownSuite(id) /\ SuiteRec(id).TLS12
\* may suite id be used at version v (RFC 5246 / 8446)
SuiteFitsVersion(id, v) == IF v = 772 THEN IsTLS13Suite(id)
                           ELSE KnownSuite(id) /\ ~IsTLS13Suite(id) /\ (IsTLS12OnlySuite(id) => v = 771)

\* ------------------------------------------------------------ the client's required decisions
\* Each returns "" (go on) or the reason the client must abort.
CheckHRR(o, hrr, nHRR) ==
  IF nHRR >= 1 THEN "second-hrr"
  ELSE IF SHVersion(hrr) # 772 \/ 772 \notin o.versions THEN "hrr-version-not-advertised"
  ELSE IF hrr.suite \notin o.suites \/ ~IsTLS13Suite(hrr.suite) THEN "hrr-suite-not-offered"
  ELSE IF hrr.sid # o.sid THEN "hrr-session-id-not-echoed"
  ELSE IF hrr.comp # 0 THEN "hrr-compression"
  ELSE IF SHGroup(hrr) = 0 /\ SHCookie(hrr) = <<>> THEN "hrr-changes-nothing"
  ELSE IF SHGroup(hrr) # 0 /\ SHGroup(hrr) \notin o.groups THEN "hrr-group-not-offered"
  ELSE IF SHGroup(hrr) # 0 /\ SHGroup(hrr) \in o.shares THEN "hrr-group-already-shared"
  ELSE ""

CheckSH(o, sh, hrrSeen, hrr) ==
  LET v == SHVersion(sh) IN
  IF v \notin o.versions THEN "version-not-advertised"
  ELSE IF v < 772 /\ SHHas(sh, 43) THEN "supported-versions-below-1.3"
  ELSE IF v < 772 /\ 772 \in o.versions /\ HasCanary(sh) THEN "downgrade-sentinel"
  ELSE IF sh.suite \notin o.suites THEN "suite-not-offered"
  ELSE IF ~SuiteFitsVersion(sh.suite, v) THEN "suite-wrong-version"
  ELSE IF sh.comp # 0 THEN "compression-not-offered"
  ELSE IF v = 772 /\ sh.sid # o.sid THEN "session-id-not-echoed"
  ELSE IF v = 772 /\ SHPsk(sh) >= 0 /\ SHPsk(sh) >= o.npsk THEN "psk-identity-not-offered"
  ELSE IF v < 772 /\ SHPsk(sh) >= 0 THEN "psk-below-1.3"
  ELSE IF v = 772 /\ SHPsk(sh) < 0 /\ SHGroup(sh) = 0 THEN "no-key-share"
  ELSE IF v = 772 /\ SHGroup(sh) # 0 /\ SHGroup(sh) \notin o.shares THEN "group-without-share"
  ELSE IF v = 772 /\ hrrSeen /\ sh.suite # hrr.suite THEN "suite-changed-after-hrr"
  ELSE IF v = 772 /\ hrrSeen /\ SHGroup(hrr) # 0 /\ SHGroup(sh) # SHGroup(hrr) THEN "group-changed-after-hrr"
  ELSE IF v < 772 /\ SHAlpn(sh) # <<>> /\ SHAlpn(sh) \notin o.alpn THEN "alpn-not-offered"
  ELSE ""

CheckEE(o, ee) ==
  IF \E i \in DOMAIN ee : ee[i].bad THEN "ee-malformed"
  ELSE IF EEAlpn(ee) # <<>> /\ (EEAlpn(ee) = <<255>> \/ EEAlpn(ee) \notin o.alpn) THEN "alpn-not-offered"
  ELSE IF \E i \in DOMAIN ee : ee[i].type \in {17513, 17613} /\ ee[i].type \notin o.alps THEN "alps-not-offered"
  ELSE IF \E i \in DOMAIN ee : ee[i].type \in {17513, 17613} /\ EEAlpn(ee) = <<>> THEN "alps-without-alpn"
  ELSE ""

CheckSKE(o, m) == IF SKECurve(m) # 0 /\ SKECurve(m) \notin o.groups THEN "curve-not-offered" ELSE ""
CheckCC(o, m) == IF CCAlg(m) \notin o.certcomp THEN "cert-compression-not-offered" ELSE ""

\* ------------------------------------------------------------ second ClientHello (C17, RFC 8446 4.1.2)
\* extension types whose bodies may differ between CH1 and CH2
MayChange == {51, 44, 21, 41, 42}
ExtByType(h, t) == IF HasExtT(h, t) THEN ExtBody(h, t) ELSE <<-1>>
CH2Problems(raw1, raw2, hrr) ==
  LET h1 == ParseHello(raw1)
      h2 == ParseHello(raw2)
      T1 == Range(ExtTypes(h1))
      T2 == Range(ExtTypes(h2))
      g == SHGroup(hrr)
      ck == SHCookie(hrr)
      sh2 == IF HasExtT(h2,51) /\ IsVec16(ExtBody(h2,51)) /\ SharesOK(ExtBody(h2,51),3) THEN ParseShares(ExtBody(h2,51),3) ELSE <<>>
      sh1 == IF HasExtT(h1,51) /\ IsVec16(ExtBody(h1,51)) /\ SharesOK(ExtBody(h1,51),3) THEN ParseShares(ExtBody(h1,51),3) ELSE <<>>
  IN IF ~h1.ok \/ ~h2.ok THEN {"ch2-framing"} ELSE
     (IF h1.vers # h2.vers \/ h1.random # h2.random \/ h1.sid # h2.sid \/ h1.suites # h2.suites \/ h1.comp # h2.comp
        THEN {"ch2-header-changed"} ELSE {})
     \cup (IF \E t \in (T1 \cap T2) \ MayChange : ExtByType(h1,t) # ExtByType(h2,t) THEN {"ch2-extension-body-changed"} ELSE {})
     \cup (IF HasExtT(h1, 65037) /\ ExtByType(h1, 65037) # ExtByType(h2, 65037) THEN {"ch2-ech-grease-changed"} ELSE {})
     \cup (IF (T1 \ T2) \ {21, 42, 41} # {} THEN {"ch2-extension-removed"} ELSE {})
     \cup (IF (T2 \ T1) \ {44, 21} # {} THEN {"ch2-extension-added"} ELSE {})
     \cup (IF SelectSeq(ExtTypes(h1), LAMBDA t : t \in T2 /\ t # 21) # SelectSeq(ExtTypes(h2), LAMBDA t : t \in T1 /\ t # 21)
           THEN {"ch2-extension-order-changed"} ELSE {})
     \cup (IF g # 0 /\ ~(Len(sh2) = 1 /\ sh2[1].group = g /\ sh2[1].n = ShareSize(g)) THEN {"ch2-keyshare-not-single-requested-group"} ELSE {})
     \cup (IF g # 0 /\ \E i \in DOMAIN sh2 : \E j \in DOMAIN sh1 : sh2[i].data = sh1[j].data THEN {"ch2-keyshare-reused"} ELSE {})
     \cup (IF ck # <<>> /\ ExtByType(h2, 44) # ck THEN {"ch2-cookie-not-echoed"} ELSE {})
     \cup (IF ck = <<>> /\ HasExtT(h2, 44) THEN {"ch2-cookie-invented"} ELSE {})
     \cup (IF ~ValidClientHello(raw2) THEN {"ch2-invalid"} ELSE {})

\* ------------------------------------------------------------ what a compliant server can select (C10)
\* The in-tree Go server, configured with one version, one suite, one group, one certificate kind.
ImplGroups == {29, 23, 24, 25, 4588}
\* Hybrid groups: how the two halves are laid out in the client share, the server share and the shared secret.
\*   X25519MLKEM768 (4588), draft-kwiatkowski-tls-ecdhe-mlkem 3.1: ML-KEM part first everywhere, ML-KEM as in FIPS 203
\*   X25519Kyber768Draft00 (25497), draft-tls-westerbaan-xyber768d00 3: X25519 part first everywhere, Kyber768 round 3
\*   (= ML-KEM-768 with the final hash K = SHAKE-256(K' || SHA3-256(c)) that FIPS 203 dropped)
HybridLayout(g) == IF g = 4588 THEN [share |-> "pq-first", secret |-> "pq-first", kem |-> "mlkem768"]
                   ELSE [share |-> "classical-first", secret |-> "classical-first", kem |-> "kyber768r3"]
\* The in-tree server has no X25519Kyber768Draft00. A scenario with kx_secret # "" is served by the test server's
\* key-exchange hook, which follows HybridLayout as handed over in the scenario (the layout comes from here, not from
\* the client code under test).
SpecServerGroups == {25497}
KxOn(sc) == "kx_secret" \in DOMAIN sc /\ sc.kx_secret # ""
\* A server that composes the secret differently (other order, other KEM variant) derives other handshake keys: the
\* client cannot open its flight and must abort (bad_record_mac), it must never complete.
CheckKx(sc, g) == IF KxOn(sc) /\ g \in {4588, 25497}
                     /\ (sc.kx_share # HybridLayout(g).share \/ sc.kx_secret # HybridLayout(g).secret \/ sc.kx_kem # HybridLayout(g).kem)
                  THEN "hybrid-layout-mismatch" ELSE ""
\* can a server holding a certificate of this key kind sign for this client (RFC 8446 4.2.3, RFC 5246 7.4.1.4.1)?
\* test certificates: ecdsa = P-256, rsa = 2048 bit, ed25519
CertSigOK(o, cert, ver) ==
  IF ver < 771 \/ ~o.hasSigAlgs THEN cert # "ed25519"
  ELSE CASE cert = "ecdsa" -> 1027 \in o.sigalgs \/ (ver = 771 /\ 515 \in o.sigalgs)
         [] cert = "ed25519" -> 2055 \in o.sigalgs
         [] cert = "rsa" -> o.sigalgs \cap {2052, 2053, 2054} # {} \/ (ver = 771 /\ o.sigalgs \cap {1025, 1281, 1537, 513} # {})
         [] OTHER -> FALSE
ServerCanSelect(o, sc) ==
  /\ CertSigOK(o, sc.cert, sc.ver)
  /\ sc.ver \in o.versions
  /\ sc.suite \in o.suites /\ SuiteFitsVersion(sc.suite, sc.ver)
  /\ (sc.ver = 772 => sc.group \in o.groups \cap (ImplGroups \cup (IF KxOn(sc) THEN SpecServerGroups ELSE {})))
  /\ (KxOn(sc) => sc.group \in o.shares)   \* the hook does not send a HelloRetryRequest for a hybrid group
  /\ (sc.ver < 772 /\ KnownSuite(sc.suite) /\ SuiteRec(sc.suite).ECDHE => (sc.group \in o.groups \cap {29,23,24,25}))
  /\ (sc.ver < 772 /\ KnownSuite(sc.suite) => (SuiteRec(sc.suite).ECSign <=> sc.cert \in {"ecdsa", "ed25519"}))

\* ------------------------------------------------------------ key shares (C18)
ShareProblems(o) ==
  {<<"share-size", o.shareSeq[i].group>> : i \in {j \in DOMAIN o.shareSeq : ~IsGrease16(o.shareSeq[j].group) /\ o.shareSeq[j].n # ShareSize(o.shareSeq[j].group)}}
\* a share for a group supported_groups does not list is a malformed offer (RFC 8446 4.2.8); C18 does not speak about
\* it (C09 does, for randomized specs), so it is not a share problem: it only names the reason of a peer's refusal
ShareOutsideGroups(o) == o.shares \ o.groups

\* ------------------------------------------------------------ agreement (C11)
AgreeProblems(cs, ss, o, cekm, sekm) ==
  (IF cs.version # ss.version THEN {"version"} ELSE {})
  \cup (IF cs.suite # ss.suite THEN {"suite"} ELSE {})
  \cup (IF cs.proto # ss.proto THEN {"alpn"} ELSE {})
  \cup (IF cs.curve # ss.curve THEN {"curve"} ELSE {})
  \cup (IF cs.resumed # ss.resumed THEN {"did-resume"} ELSE {})
  \cup (IF cs.ech # ss.ech THEN {"ech-accepted"} ELSE {})
  \cup (IF cs.sni # ss.sni THEN {"server-name"} ELSE {})
  \cup (IF ~cs.ech /\ ss.sni # o.sni THEN {"server-name-not-the-sni-sent"} ELSE {})
  \cup (IF Len(cekm) # Len(sekm) \/ \E i \in DOMAIN cekm : cekm[i] # <<>> /\ sekm[i] # <<>> /\ cekm[i] # sekm[i] THEN {"exporter"} ELSE {})
=============================================================================
