------------------------------ MODULE LRU_Ind ------------------------------
(***************************************************************************)
(* Typed copy of the sequential object of LRU.tla (part 1) for an          *)
(* inductive-invariant proof with Apalache: every definition between the   *)
(* BEGIN/END COPY markers is the text of LRU.tla (props/C36.py compares    *)
(* them), only @type annotations are added.                                *)
(*                                                                         *)
(* State: cap (argument of NewLRUClientSessionCache), q (recency list) and *)
(* dom, the key set of the implementation's map c.m, updated the way the   *)
(* code updates the map (common.go lruSessionCache.Put / Get).  Keys and   *)
(* values range over all integers; Nil = 0.                                *)
(*                                                                         *)
(*   apalache-mc check --init=IndInit --inv=IndInv  --length=1   (step)    *)
(*   apalache-mc check --init=IndInit --inv=StepInv --length=1   (results) *)
(*   apalache-mc check --init=Init    --inv=IndInv  --length=0   (base)    *)
(* IndInit draws q with Gen(MaxCap): the proof covers every history of any *)
(* length for every capacity MinCap..MaxCap.                               *)
(***************************************************************************)
EXTENDS Integers, Sequences, FiniteSets, Apalache

CONSTANTS
    \* @type: Int;
    MinCap,     \* capacities MinCap..MaxCap are covered; MinCap < 1 includes "capacity < 1 => default 64",
    \* @type: Int;
    MaxCap      \* which needs MaxCap >= 64 (the list is drawn with Gen(MaxCap))

\* @typeAlias: entry = {k: Int, v: Int};
LRU_Ind_aliases == TRUE

\* BEGIN COPY
Nil == 0
DefaultCap == 64                                  \* common.go: defaultSessionCacheCapacity
\* @type: (Int) => Int;
EffCap(n) == IF n < 1 THEN DefaultCap ELSE n      \* NewLRUClientSessionCache: capacity < 1 => default

\* @type: (Int, Int) => $entry;
Entry(k, v) == [k |-> k, v |-> v]
\* @type: (Seq($entry)) => Set(Int);
KeysOf(q) == {q[i].k : i \in DOMAIN q}
\* @type: (Seq($entry), Int) => Bool;
Has(q, k) == \E i \in DOMAIN q : q[i].k = k
\* @type: (Seq($entry), Int) => Int;
Idx(q, k) == CHOOSE i \in DOMAIN q : q[i].k = k
\* @type: (Seq($entry), Int) => Seq($entry);
Without(q, k) == LET \* @type: ($entry) => Bool;
                     Keep(e) == e.k # k IN SelectSeq(q, Keep)

\* lruSessionCache.Put
\* @type: (Seq($entry), Int, Int, Int) => Seq($entry);
PutQ(q, cap, k, v) ==
    IF v = Nil THEN Without(q, k)                                     \* delete (also when absent: no-op)
    ELSE IF Has(q, k) THEN <<Entry(k, v)>> \o Without(q, k)           \* update + MoveToFront
    ELSE IF Len(q) < EffCap(cap) THEN <<Entry(k, v)>> \o q            \* PushFront
    ELSE <<Entry(k, v)>> \o SubSeq(q, 1, Len(q) - 1)                  \* evict Back, reuse element at front

\* lruSessionCache.Get
\* @type: (Seq($entry), Int) => Seq($entry);
GetQ(q, k) == IF Has(q, k) THEN <<q[Idx(q, k)]>> \o Without(q, k) ELSE q
\* @type: (Seq($entry), Int) => {ok: Bool, v: Int};
GetRes(q, k) == IF Has(q, k) THEN [ok |-> TRUE, v |-> q[Idx(q, k)].v] ELSE [ok |-> FALSE, v |-> Nil]

\* state predicates of the object
\* @type: (Seq($entry), Int) => Bool;
Bounded(q, cap) == Len(q) <= EffCap(cap)
\* @type: (Seq($entry)) => Bool;
UniqueKeys(q) == \A i, j \in DOMAIN q : q[i].k = q[j].k => i = j
\* @type: (Seq($entry)) => Bool;
NoNilStored(q) == \A i \in DOMAIN q : q[i].v # Nil
\* END COPY

VARIABLES
    \* @type: Int;
    cap,
    \* @type: Seq({k: Int, v: Int});
    q,
    \* @type: Set(Int);
    dom,
    \* @type: {op: Str, k: Int, v: Int, ok: Bool, rv: Int};
    last        \* the call just made and what it returned

Init == /\ cap \in MinCap..MaxCap
        /\ q = <<>> /\ dom = {}
        /\ last = [op |-> "None", k |-> 0, v |-> 0, ok |-> TRUE, rv |-> 0]

\* the map side of lruSessionCache.Put, statement by statement
PutDom(k, v) ==
    IF k \in dom THEN (IF v = Nil THEN dom \ {k} ELSE dom)            \* delete(c.m, sessionKey) / value replaced
    ELSE IF v = Nil THEN dom                                           \* (repaired code: nothing to remove)
    ELSE IF Len(q) < EffCap(cap) THEN dom \cup {k}                     \* c.m[sessionKey] = c.q.PushFront(entry)
    ELSE (dom \ {q[Len(q)].k}) \cup {k}                                \* delete(c.m, entry.sessionKey); c.m[sessionKey] = elem

Put(k, v) == /\ q' = PutQ(q, cap, k, v)
             /\ dom' = PutDom(k, v)
             /\ last' = [op |-> "Put", k |-> k, v |-> v, ok |-> TRUE, rv |-> Nil]
             /\ UNCHANGED cap
Get(k) == /\ q' = GetQ(q, k)
          /\ dom' = dom
          /\ last' = [op |-> "Get", k |-> k, v |-> Nil, ok |-> GetRes(q, k).ok, rv |-> GetRes(q, k).v]
          /\ UNCHANGED cap
Next == \E k \in Int : Get(k) \/ \E v \in Int : Put(k, v)

\* ---- the inductive invariant ----
IndInv == /\ cap \in MinCap..MaxCap
          /\ Bounded(q, cap)
          /\ UniqueKeys(q)
          /\ NoNilStored(q)
          /\ dom = KeysOf(q)                   \* with UniqueKeys: the recency list is a permutation of the map's domain
                                               \* (Cardinality(dom) = Len(q) follows; not stated, Cardinality is costly in SMT)
IndInit == /\ cap \in MinCap..MaxCap
           /\ q = Gen(MaxCap) /\ dom = Gen(MaxCap)
           /\ last = Gen(1)
           /\ IndInv

\* ---- what every call does (action invariant; checked from every state satisfying IndInv) ----
\* @type: (Seq($entry), Int) => Int;
ValOf(s, k) == s[Idx(s, k)].v
StepInv ==
    /\ (last'.op = "Put" /\ last'.v # Nil) =>
          /\ Len(q') >= 1 /\ q'[1] = Entry(last'.k, last'.v)                            \* stored and most recent
          /\ Len(q') = (IF Has(q, last'.k) \/ Len(q) = EffCap(cap) THEN Len(q) ELSE Len(q) + 1)
          /\ \A x \in dom : x # last'.k =>                                              \* nobody else is touched ...
                \/ (Has(q', x) /\ ValOf(q', x) = ValOf(q, x))
                \/ (~Has(q, last'.k) /\ Len(q) = EffCap(cap) /\ x = q[Len(q)].k)        \* ... except the least recently used, when full
    /\ (last'.op = "Put" /\ last'.v = Nil) =>
          /\ ~Has(q', last'.k)
          /\ \A x \in dom : x # last'.k => (Has(q', x) /\ ValOf(q', x) = ValOf(q, x))
    /\ last'.op = "Get" =>
          /\ last'.ok = Has(q, last'.k)
          /\ last'.ok => (last'.rv = ValOf(q, last'.k) /\ last'.rv # Nil /\ q'[1].k = last'.k)
          /\ ~last'.ok => (last'.rv = Nil /\ q' = q)
          /\ dom' = dom /\ \A x \in dom : Has(q', x) /\ ValOf(q', x) = ValOf(q, x)
    \* the relative order of the entries that stay and were not used is unchanged
    /\ \A i, j \in DOMAIN q : (i < j /\ q[i].k # last'.k /\ q[j].k # last'.k /\ Has(q', q[i].k) /\ Has(q', q[j].k))
                                  => Idx(q', q[i].k) < Idx(q', q[j].k)
=============================================================================
