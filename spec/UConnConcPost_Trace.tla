------------------------- MODULE UConnConcPost_Trace -------------------------
(* Trace validation of the post-handshake phase.  conc_post_trace.ndjson: one line per run,
   [sc, cfg, ev : [key -> that goroutine's own log]] with keys writer, reader, srvsend, srvrecv, main.
   Every event carries a run-wide sequence number (taken under the harness's log lock at the call
   boundaries only; the library calls themselves overlap freely).  A run is accepted iff some
   behaviour of UConnConcPost (AtomicReply = TRUE) produces exactly its logs: every Write returned
   nil, the peer's application received exactly the written messages (digests equal) in order, nobody
   saw an error, every call returned within deadline + slack. *)
EXTENDS UConnConcPost, Json
Trace == ndJsonDeserialize("conc_post_trace.ndjson")
Keys == {"writer", "reader", "srvsend", "srvrecv", "main"}
VARIABLES sc, idx, gseq
tvars == <<sc, idx, gseq>>

InitTrace == \E s \in 1..Len(Trace) :
               /\ sc = s /\ idx = [k \in Keys |-> 1] /\ gseq = 0
               /\ InitWith([nku |-> 0, nwr |-> 0, deadline |-> Trace[s].cfg.deadline, slack |-> Trace[s].cfg.slack])
Log(k)     == Trace[sc].ev[k]
Pending(k) == idx[k] <= Len(Log(k))
E(k)       == Log(k)[idx[k]]
IsNext(k)  == Pending(k) /\ E(k).seq = gseq + 1
InTime(e)  == e.t <= lim.deadline + lim.slack

Final == c2s = <<>> /\ AllDelivered /\ rpc = "done" /\ wpc = "idle" /\ ~peerErr /\ ~cliErr /\ UNCHANGED vars

Match(e) ==
  CASE e.ev = "call" /\ e.p = "writer" -> WCall(e.id, e.sum)
    [] e.ev = "ret"  /\ e.p = "writer" -> e.isnil /\ e.n = e.len /\ InTime(e) /\ WRet(e.id)
    [] e.ev = "call" /\ e.p = "reader" -> RCall
    [] e.ev = "ret"  /\ e.p = "reader" -> /\ InTime(e)
                                          /\ IF e.isnil THEN e.n > 0 /\ RRet("data") ELSE e.err = "EOF" /\ e.n = 0 /\ RRet("eof")
    [] e.ev = "ku"                     -> SrvKU(e.req)
    [] e.ev = "data"                   -> SrvData
    [] e.ev = "srvclose"               -> SrvClose
    [] e.ev = "sent"                   -> e.isnil /\ UNCHANGED vars      \* the peer's own send succeeded
    [] e.ev = "got"                    -> Got(e.id, e.sum) /\ srvInSeq' = e.n   \* n: the peer's receive sequence number afterwards
    [] e.ev = "final"                  -> Final
    [] OTHER                           -> FALSE     \* srverr, hang, panic: never explained

EvStep == \E k \in Keys :
            /\ IsNext(k) /\ Match(E(k))
            /\ idx' = [idx EXCEPT ![k] = @ + 1] /\ gseq' = gseq + 1 /\ UNCHANGED sc
\* the peer consuming our KeyUpdate is invisible and commutes with everything else: taken eagerly
TauT == WriterWrite \/ ReaderProcessesKeyUpdate \/ ReaderData \/ ReaderEOF
NextTrace == IF ENABLED SrvRecvKU THEN SrvRecvKU /\ UNCHANGED tvars
             ELSE EvStep \/ (TauT /\ UNCHANGED tvars)
Accepted == \A k \in Keys : ~Pending(k)
Report == Accepted => PrintT(<<"DONE", sc>>)
=============================================================================
