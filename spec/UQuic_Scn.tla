------------------------------ MODULE UQuic_Scn -----------------------------
(* Scenario emission for C23 (model -> code).  The pump of UQuic with a PLAN: Cancel / an early Close happen exactly
   at pump step plan.at (chosen in Init), and both sides are closed once nothing useful is left.
     Eager = TRUE   deterministic drain order, exhaustive over cfg x plan x cut; hist is part of the state, so TLC
                    visits one state per path and prints every complete path                 (cfg UQuic_Scn)
     Eager = FALSE  free order, random paths with `-simulate`                                  (cfg UQuic_Scn_sim)
     FixEarlyReturn = FALSE: the parked callers of the as-coded mechanism are printed as STUCK scenarios
                    = the model-level counterexamples in replayable form                      (cfg UQuic_Scn_asis)
   A scenario is the list of pump calls (hist); results are NOT part of it: the harness logs what the code did. *)
EXTENDS UQuic, Json

CONSTANTS Planned, Eager, MaxAt, EmitOn
VARIABLES hist, plan, nstep, planDone
mcvars  == <<hist, plan, nstep, planDone>>
allvars == <<vars, mcvars>>

NoPlan == [kind |-> "none", side |-> "-", at |-> 0]
Plans  == IF Planned
          THEN {NoPlan} \cup {[kind |-> "cancel", side |-> "-", at |-> t] : t \in 0..MaxAt}
                        \cup {[kind |-> "close", side |-> e, at |-> t] : e \in Sides, t \in 0..MaxAt}
          ELSE {NoPlan}

MCInit == Init /\ hist = << >> /\ plan \in Plans /\ nstep = 0 /\ planDone = FALSE

CanStart(e)   == cpc = "idle" /\ ~started[e] /\ ~closeCalled[e]
CanNext(e)    == cpc = "idle" /\ started[e] /\ evq[e] # << >>
CanDeliver(e) == cpc = "idle" /\ started[e] /\ ~failed[e] /\ ~closeCalled[e] /\ wire[e] # << >>
Quiescent     == cpc = "idle" /\ \A e \in Sides : ~CanStart(e) /\ ~CanNext(e) /\ ~CanDeliver(e)
Terminal      == cpc = "idle" /\ closeCalled["c"] /\ closeCalled["s"] /\ \A e \in Sides : hpc[e] \in {"none", "exited"}
Stuck         == cpc # "idle" /\ ~ENABLED Internal
Due           == Planned /\ plan.kind # "none" /\ ~planDone /\ nstep = plan.at

\* drain order of the eager pump: Start c, Start s, NextEvent c, HandleData s, NextEvent s, HandleData c
Rank(r) == CASE r = 1 -> CanStart("c") [] r = 2 -> CanStart("s") [] r = 3 -> CanNext("c")
             [] r = 4 -> CanDeliver("s") [] r = 5 -> CanNext("s") [] r = 6 -> CanDeliver("c")
First(r) == Eager => \A q \in 1..(r - 1) : ~Rank(q)
RankOf(op, e) == CASE op = "Start" -> (IF e = "c" THEN 1 ELSE 2) [] op = "Next" -> (IF e = "c" THEN 3 ELSE 5)
                   [] op = "Deliver" -> (IF e = "s" THEN 4 ELSE 6)

\* a pump call in the log: "Start.c.0", "Next.s.0", "Deliver.c.3", "Cancel.-.0", "Close.s.0"
Code(op, e, k) == op \o "." \o e \o "." \o ToString(k)
Log(op, e, k) == /\ hist' = IF EmitOn THEN Append(hist, Code(op, e, k)) ELSE hist
                 /\ nstep' = IF Planned /\ nstep <= MaxAt THEN nstep + 1 ELSE nstep
                 /\ UNCHANGED plan

Regular(op, e) == Planned => (~Due /\ ~Terminal /\ First(RankOf(op, e)))

PStart(e)      == CallStart(e) /\ Regular("Start", e) /\ Log("Start", e, 0) /\ UNCHANGED planDone
PNext(e)       == /\ CallNext(e) /\ Regular("Next", e)
                  \* a planned pump asks an empty queue once (not in the eager order, not twice in a row)
                  /\ (Planned /\ evq[e] = << >>) => (~Eager /\ ~(last.kind = "NoEvent" /\ last.side = e))
                  /\ Log("Next", e, 0) /\ UNCHANGED planDone
PDeliver(e, k) == CallDeliver(e, k) /\ Regular("Deliver", e) /\ Log("Deliver", e, k) /\ UNCHANGED planDone
PCancel        == /\ CallCancel /\ (Planned => (Due /\ plan.kind = "cancel"))
                  /\ Log("Cancel", "-", 0) /\ planDone' = (Planned \/ planDone)
PClose(e)      == /\ CallClose(e)
                  /\ Planned => \/ (Due /\ plan.kind = "close" /\ plan.side = e)
                                \/ (~Due /\ Quiescent)
                  /\ Log("Close", e, 0) /\ planDone' = (planDone \/ Due)

MCNext == \/ Internal /\ UNCHANGED mcvars
          \/ \E e \in Sides : PStart(e) \/ PNext(e) \/ PClose(e) \/ \E k \in 0..7 : PDeliver(e, k)
          \/ PCancel

EmitScn == /\ (EmitOn /\ Terminal) => PrintT(<<"SCN", ToJson([cfg |-> cfg, plan |-> plan, ops |-> hist])>>)
           /\ (EmitOn /\ Stuck)    => PrintT(<<"STUCK", ToJson([cfg |-> cfg, plan |-> plan, ops |-> hist])>>)
=============================================================================
