\* sequential histories; MaxLen / Caps are rewritten by props/C36.py per tier
CONSTANTS
  Keys = {1, 2, 3}
  Caps = {1, 2, 3}
  MaxLen = 4
  NilPuts = TRUE
  Canon = FALSE
  Conc = FALSE
  Threads = {0}
INIT Init
NEXT Next
INVARIANTS InvBounded InvUniqueKeys InvNoNilStored MapSemantics RecencyOrder GetTruth MRUKept
CONSTRAINT Emit
CHECK_DEADLOCK FALSE
