---------------------------- MODULE Dicttls ----------------------------
(***************************************************************************)
(* C32 - dictionaries and the JSON description of a ClientHello.           *)
(*  (1) every entry value |-> name of a value-indexed dicttls table        *)
(*      resolves back: the name-indexed twin maps that name to that value  *)
(*      (dicttls/*.go; the importers of u_tls_extensions.go and            *)
(*      u_clienthello_json.go look names up in the name-indexed tables);   *)
(*  (2) a hello sent from the JSON description of a ClientHello equals the *)
(*      hello sent from the raw-bytes import of the same ClientHello       *)
(*      modulo GREASE and per-connection material (NormG).                 *)
(* Tables are dumped from the code on every run (harness dict.go); code    *)
(* points are 8-byte big-endian sequences, names byte sequences.           *)
(***************************************************************************)
EXTENDS TLSWire

\* ---------- (1) round trip ----------
\* vi: sequence of [v, n]; ni: sequence of [n, v]
Unresolved(vi, ni) == {i \in DOMAIN vi : ~\E j \in DOMAIN ni : ni[j].n = vi[i].n /\ ni[j].v = vi[i].v}
RoundTripOK(vi, ni) == Unresolved(vi, ni) = {}
\* Go maps are functions; kept as a sanity condition on the dump itself
IsFunction(pairs, key) == \A i, j \in DOMAIN pairs : pairs[i][key] = pairs[j][key] => i = j

Be8(x) == <<0, 0, 0, 0, (x \div 16777216) % 256, (x \div 65536) % 256, (x \div 256) % 256, x % 256>>
Small(b8) == b8[5] * 16777216 + b8[6] * 65536 + b8[7] * 256 + b8[8]
Values(vi) == {Small(vi[i].v) : i \in DOMAIN vi}

\* ---------- (2) what "described in the supported JSON format" covers ----------
\* A hello can be described iff every code point it carries has a name in the value-indexed table the
\* description draws from (GREASE is written "GREASE"); T maps table name -> set of listed values.
U16ListAt(h, t, skip) == IF HasExtT(h, t) /\ Len(ExtBody(h, t)) >= skip
                         THEN U16Seq(SubSeq(ExtBody(h, t), skip + 1, Len(ExtBody(h, t)))) ELSE <<>>
U8ListAt(h, t) == IF HasExtT(h, t) /\ Len(ExtBody(h, t)) >= 1 THEN SubSeq(ExtBody(h, t), 2, Len(ExtBody(h, t))) ELSE <<>>
KSGroupsOf(h) == IF HasExtT(h, 51) /\ IsVec16(ExtBody(h, 51)) /\ SharesOK(ExtBody(h, 51), 3)
                 THEN LET sh == ParseShares(ExtBody(h, 51), 3) IN [i \in DOMAIN sh |-> sh[i].group] ELSE <<>>
Named(s, S) == \A i \in DOMAIN s : IsGrease16(s[i]) \/ s[i] \in S
VersionNames == {769, 770, 771, 772}     \* "TLS 1.0" .. "TLS 1.3" (u_tls_extensions.go:1503)
Describable(h, T) ==
  /\ Named(h.suites, T.CipherSuite)
  /\ \A i \in DOMAIN h.comp : h.comp[i] \in T.CompMeth
  /\ Named(ExtTypes(h), T.ExtType)
  /\ Named(U16ListAt(h, 10, 2), T.SupportedGroups)
  /\ Named(KSGroupsOf(h), T.SupportedGroups)
  /\ \A i \in DOMAIN U8ListAt(h, 11) : U8ListAt(h, 11)[i] \in T.ECPointFormat
  /\ Named(U16ListAt(h, 13, 2), T.SignatureScheme)
  /\ Named(U16ListAt(h, 50, 2), T.SignatureScheme)
  /\ Named(U16ListAt(h, 34, 2), T.SignatureScheme)
  /\ \A i \in DOMAIN U16ListAt(h, 27, 1) : U16ListAt(h, 27, 1)[i] \in T.CertificateCompressionAlgorithm
  /\ \A i \in DOMAIN U8ListAt(h, 45) : U8ListAt(h, 45)[i] \in T.PSKKeyExchangeMode
  /\ Named(U16ListAt(h, 43, 1), VersionNames)

\* ---------- normalisation: equal modulo GREASE and per-connection material ----------
\* client random and session id bytes are dropped (session id length kept), every GREASE code point becomes the
\* placeholder 0x0a0a, key-share public values are reduced to their length.
G(v) == IF IsGrease16(v) THEN GREASE ELSE v
GSeq(s) == [i \in DOMAIN s |-> G(s[i])]
NormBody(t, b) ==
  CASE t = 10 /\ IsVec16(b) -> <<"groups", GSeq(U16Seq(SubSeq(b, 3, Len(b))))>>
    [] t = 43 /\ IsVec8(b) -> <<"versions", GSeq(U16Seq(SubSeq(b, 2, Len(b))))>>
    [] t = 51 /\ IsVec16(b) /\ SharesOK(b, 3) ->
         LET sh == ParseShares(b, 3) IN <<"shares", [i \in DOMAIN sh |-> <<G(sh[i].group), sh[i].n>>]>>
    [] OTHER -> <<"raw", b>>
NormG(raw) ==
  LET h == ParseHello(raw) IN
  IF ~h.ok THEN [ok |-> FALSE]
  ELSE [ok |-> TRUE, vers |-> h.vers, sidLen |-> Len(h.sid), suites |-> GSeq(h.suites), comp |-> h.comp,
        exts |-> [i \in DOMAIN h.exts |-> [type |-> G(h.exts[i].type), body |-> NormBody(h.exts[i].type, h.exts[i].body)]]]

\* first difference, for reports
WhyDiffer(x, y) ==
  LET a == NormG(x) b == NormG(y) IN
  IF ~a.ok \/ ~b.ok THEN "framing"
  ELSE IF a.vers # b.vers THEN "legacy_version"
  ELSE IF a.sidLen # b.sidLen THEN "session_id_length"
  ELSE IF a.suites # b.suites THEN "cipher_suites"
  ELSE IF a.comp # b.comp THEN "compression_methods"
  ELSE IF [i \in DOMAIN a.exts |-> a.exts[i].type] # [i \in DOMAIN b.exts |-> b.exts[i].type] THEN "extension_order"
  ELSE IF a.exts # b.exts THEN <<"extension_body", a.exts[CHOOSE i \in DOMAIN a.exts : a.exts[i] # b.exts[i]].type>>
  ELSE "equal"
=============================================================================
