CONSTANT AtomicReply = TRUE
CONSTANT NKU = 2
CONSTANT NWR = 3
INIT InitMC
NEXT NextD
INVARIANT SafetyPost
INVARIANT AtEnd
