CONSTANT Mode = "c10"
CONSTANT XMode = "all"
CONSTANT XOnly = 0
INIT XInit
NEXT XNext
CONSTRAINT XEmit
INVARIANT XOffered
INVARIANT XCompletes
INVARIANT XHRR
CHECK_DEADLOCK FALSE
