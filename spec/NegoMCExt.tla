------------------------------ MODULE NegoMCExt ------------------------------
(***************************************************************************)
(* Bounded model of the Negotiation specification against an EXTERNAL      *)
(* server (`openssl s_server`), check X10.  Reuses NegoMC (offers of the   *)
(* dumped parrot specs, abstract server messages, the client's required    *)
(* decisions CheckXX) and restricts / extends its compliant grid by what   *)
(* the OpenSSL builds found on this machine implement:                     *)
(*                                                                         *)
(*   ossl_caps.json  (written by the runner from the harness command       *)
(*   `osslprobe`, nothing in it is hard-coded): per build k the protocol   *)
(*   versions, cipher suites per version, groups per version, certificate  *)
(*   kinds per version that completed a handshake with the build's own     *)
(*   client, and whether -stateless works.                                 *)
(*                                                                         *)
(* The grids (CONSTANT XMode; "all" = their union):                                             *)
(*  x10  per build and parrot: version x suite x group x certificate kind  *)
(*       x ALPN over what the hello offers, the client library implements  *)
(*       and the build implements.  Unlike NegoMC!C10Set the certificate   *)
(*       kinds are NOT pre-filtered by the client's signature algorithms,  *)
(*       Ed25519 certificates are also used below TLS 1.3, and suites need *)
(*       not be in the in-tree server's table: points where OsslCanSelect  *)
(*       is false are expected refusals and calibrate the rule against an  *)
(*       independent implementation.  Groups without a share force a       *)
(*       HelloRetryRequest (without cookie).                               *)
(*  x17  per build with a working -stateless and TLS 1.3 parrot: every     *)
(*       offered classical group the build implements, with -stateless:    *)
(*       every first ClientHello is answered by a HelloRetryRequest with   *)
(*       a real cookie, naming a group only if the hello had no share.     *)
(***************************************************************************)
EXTENDS NegoMC, NegotiationExt
CONSTANT XMode,    \* "x10" | "x17" | "x11" | "all"
         XOnly     \* 0: every probed build; k: only build k (the runner enumerates the builds in parallel TLC runs)

CapFile == JsonDeserialize("ossl_caps.json")
Builds == CapFile.servers
BuildIdx == IF XOnly = 0 THEN DOMAIN Builds ELSE {XOnly} \cap DOMAIN Builds
ListFor(seq, v) == LET I == {i \in DOMAIN seq : seq[i].ver = v} IN
                   IF I = {} THEN {} ELSE Range(seq[CHOOSE i \in I : TRUE].ids)
KindsFor(seq, v) == LET I == {i \in DOMAIN seq : seq[i].ver = v} IN
                    IF I = {} THEN {} ELSE Range(seq[CHOOSE i \in I : TRUE].kinds)
CapVersions == [k \in DOMAIN Builds |-> Range(Builds[k].versions)]
CapSuites == [k \in DOMAIN Builds |-> [v \in 769..772 |-> ListFor(Builds[k].suites, v)]]
CapGroups == [k \in DOMAIN Builds |-> [v \in 769..772 |-> ListFor(Builds[k].groups, v)]]
CapCerts == [k \in DOMAIN Builds |-> [v \in 769..772 |-> KindsFor(Builds[k].certs, v)]]

\* what the client library can negotiate (its own tables)
ClientImpl == {SuiteTab[i].ID : i \in {j \in DOMAIN SuiteTab : SuiteTab[j].Supported}}

XBase == Base @@ [external |-> TRUE, ossl |-> 0, stateless |-> FALSE, sni_cb |-> FALSE, no_reneg |-> FALSE]

XCertKinds(k, suite, ver) == (IF ver = 772 THEN {"ecdsa", "rsa", "ed25519"}
                              ELSE IF SuiteRec(suite).ECSign THEN {"ecdsa", "ed25519"} ELSE {"rsa"}) \cap CapCerts[k][ver]
XGroupChoices(k, oo, suite, ver) == IF ver = 772 THEN oo.groups \cap ImplGroups \cap CapGroups[k][ver]
                                   ELSE IF SuiteRec(suite).ECDHE THEN oo.groups \cap Classical \cap CapGroups[k][ver] ELSE {0}
XGridFor(k, id) ==
  LET oo == Offers[id] IN
  UNION {UNION {{[XBase EXCEPT !.id = id, !.ver = v, !.suite = s, !.group = g, !.cert = c, !.alpn = a, !.ossl = k] :
                    g \in XGroupChoices(k, oo, s, v),
                    c \in XCertKinds(k, s, v),
                    a \in {<<>>} \cup (IF oo.alpn # {} /\ Builds[k].alpn THEN {<<"h2", "http/1.1">>} ELSE {})}
                : s \in {t \in oo.suites \cap ClientImpl \cap CapSuites[k][v] : SuiteFitsVersion(t, v)}}
         : v \in oo.versions \cap CapVersions[k]}
\* (a table: TLC caches zero-arity definitions, not operators with parameters)
XGrid == [k \in BuildIdx |-> [id \in IDs |-> XGridFor(k, id)]]
X10Set == UNION {XGrid[k][id] : k \in BuildIdx, id \in IDs}

\* one representative selectable choice per (build, parrot, version): smallest suite, then smallest group, ecdsa before rsa
\* (the candidates are narrowed to the smallest suite first so that the final CHOOSE ranges over a handful of records)
XRepV(k, id, v) == LET S == {x \in XGrid[k][id] : x.ver = v /\ x.alpn = <<>> /\ x.cert \in {"ecdsa", "rsa"} /\ OsslCanSelect(Offers[id], x)} IN
                   IF S = {} THEN {} ELSE
                   LET SS == {x.suite : x \in S}
                       ms == CHOOSE a \in SS : \A b \in SS : a <= b
                       S1 == {x \in S : x.suite = ms}
                   IN {CHOOSE x \in S1 : \A y \in S1 : Key(x) <= Key(y)}
XRep(k, id) == XRepV(k, id, 772)
X17Set == UNION {UNION {{[x EXCEPT !.group = g, !.stateless = TRUE, !.alpn = a] :
                            g \in Offers[x.id].groups \cap Classical \cap CapGroups[k][772],
                            a \in {<<>>} \cup (IF Offers[x.id].alpn # {} /\ Builds[k].alpn THEN {<<"h2", "http/1.1">>} ELSE {})}
                        : x \in XRep(k, id)}
                 : k \in {j \in BuildIdx : Builds[j].stateless}, id \in IDs}

\* x11  agreement variants (C11) of one representative selectable choice per (build, parrot, version 1.2 / 1.3):
\*      the same spec with renegotiation support off (there the client does export keying material; s_server exports
\*      for one label) without and with client authentication, s_server's SNI callback installed (it prints the name
\*      it received), and the latter after RemoveSNIExtension
X11Set == UNION {UNION {{[x EXCEPT !.no_reneg = TRUE], [x EXCEPT !.sni_cb = TRUE], [x EXCEPT !.sni_cb = TRUE, !.remove_sni = TRUE],
                         \* the server asks for a client certificate (the client writes Certificate [/ CertificateVerify] before
                         \* its Finished): the client has none / presents one
                         \* (below TLS 1.3 OpenSSL checks the curve of the client's ECDSA key, P-256 here, against its own -groups
                         \*  list - "tls12_check_peer_sigalg: wrong curve", measured - so that variant needs group P-256 or none)
                         [x EXCEPT !.no_reneg = TRUE, !.client_auth = 1]}
                        \cup (IF x.ver = 772 \/ x.group \in {0, 23} THEN {[x EXCEPT !.no_reneg = TRUE, !.client_auth = 2]} ELSE {})
                        : x \in XRepV(k, id, v)}
                 : k \in BuildIdx, id \in IDs, v \in {771, 772}}

\* the three grids are disjoint (stateless / no_reneg / sni_cb tell them apart)
XScenarios == CASE XMode = "x10" -> X10Set [] XMode = "x17" -> X17Set [] XMode = "x11" -> X11Set
                [] XMode = "all" -> X10Set \cup X17Set \cup X11Set

\* ------------------------------------------------------------ abstract messages of the external server
\* HelloRetryRequest: names a group only when the hello has no share for the configured one; a cookie with -stateless
MkXHRR(x, oo) == [ok |-> TRUE, vers |-> 771, random |-> HRRRandom, sid |-> oo.sid, suite |-> x.suite, comp |-> 0,
                  exts |-> <<X(43, U16(772))>>
                           \o (IF x.group \notin oo.shares THEN <<X(51, U16(x.group))>> ELSE <<>>)
                           \o (IF x.stateless THEN <<X(44, Vec16(<<67, 79, 79, 75>>))>> ELSE <<>>)]

XInit == /\ scn \in XScenarios /\ phase = "ch1" /\ o = Offers[scn.id] /\ hrr = BadSH /\ hrrSeen = FALSE /\ sh = BadSH /\ must = ""

XServerFirst ==
  /\ phase = "ch1"
  /\ IF ~OsslCanSelect(o, scn)
     THEN phase' = "refused" /\ UNCHANGED <<scn, o, hrr, hrrSeen, sh, must>>
     ELSE IF scn.ver = 772 /\ (scn.stateless \/ scn.group \notin o.shares)
     THEN /\ hrr' = MkXHRR(scn, o) /\ hrrSeen' = TRUE /\ must' = CheckHRR(o, MkXHRR(scn, o), 0)
          /\ phase' = "hrr" /\ UNCHANGED <<scn, o, sh>>
     ELSE /\ sh' = MkSH(scn, o, scn.ver) /\ must' = CheckSH(o, MkSH(scn, o, scn.ver), FALSE, BadSH)
          /\ phase' = "sh" /\ UNCHANGED <<scn, o, hrr, hrrSeen>>
\* SendCH2: a share for the requested group, or the same shares when the HelloRetryRequest names none
XClientCH2 ==
  /\ phase = "hrr"
  /\ IF must # "" THEN phase' = "aborted" /\ UNCHANGED <<scn, o, hrr, hrrSeen, sh, must>>
     ELSE /\ o' = [o EXCEPT !.shares = IF SHGroup(hrr) # 0 THEN {SHGroup(hrr)} ELSE o.shares]
          /\ phase' = "ch2" /\ UNCHANGED <<scn, hrr, hrrSeen, sh, must>>
XNext == XServerFirst \/ XClientCH2 \/ ServerSecond \/ ClientFinish

\* ------------------------------------------------------------ model-level properties
\* a completed handshake only has offered values (C12/C13 restated without the Check* operators)
XOffered == phase = "done" =>
   /\ SHVersion(sh) \in o.versions
   /\ sh.suite \in Offers[scn.id].suites
   /\ sh.comp = 0
   /\ (SHVersion(sh) = 772 => sh.sid = o.sid /\ SHGroup(sh) \in Offers[scn.id].groups /\ SHPsk(sh) < 0)
   /\ (SrvALPN(scn, o) # <<>> => SrvALPN(scn, o) \in o.alpn)
   /\ (hrrSeen /\ SHGroup(hrr) # 0 => SHGroup(hrr) \in Offers[scn.id].groups \ Offers[scn.id].shares)
\* C10: whatever the external server can select is completed; what it cannot select it refuses
XCompletes == Terminal => (phase = "done" <=> OsslCanSelect(Offers[scn.id], scn))
\* C17: -stateless, or a group without a share, goes through exactly one HelloRetryRequest
XHRR == phase = "done" => (hrrSeen <=> (scn.ver = 772 /\ (scn.stateless \/ scn.group \notin Offers[scn.id].shares)))

\* go_can: would the in-tree server (Negotiation!ServerCanSelect + its suite table) select this point?  The runner
\* replays every point on both servers and reports where the two implementations or the two rules disagree.
XEmit == Terminal => PrintT(<<"SCN", ToJson([scn EXCEPT !.sc = 0] @@ [expect |-> phase, why |-> must,
                                             x_can |-> OsslCanSelect(Offers[scn.id], scn), go_can |-> GoCanSelect(Offers[scn.id], scn)])>>)
=============================================================================
