CONSTANTS
  Seed = 1
  Mode = "sel"
  MaxSel = 3
  AllShapes = FALSE
  TripleMod = 16
  QuadMod = 32
INIT Init
NEXT Next
INVARIANTS Emit ShapesInLimits EncodedIsValid ParseInvertsEncode ValidIffPskLast CapValid
CHECK_DEADLOCK FALSE
