CONSTANTS
  Seed = 1
  MaxList = 2
  Boundary = FALSE
INIT Init
NEXT Next
INVARIANTS Emit KnownKind EncAgreesWithTLSWire LimitsMeanValid ValidMeansLimits NormIdempotent NormKeepsLimits RefusedOnlyOutsideLimits
CHECK_DEADLOCK FALSE
