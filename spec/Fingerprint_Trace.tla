------------------------- MODULE Fingerprint_Trace -------------------------
(***************************************************************************)
(* Trace validation for C06.  fp_trace.ndjson has one row per scenario:    *)
(*   [sc, a, b, c,          wire ClientHello handshake messages (<<>> if   *)
(*                          none): A, B = re-applied fingerprint of A,     *)
(*                          C = re-applied fingerprint of B                *)
(*    flags,                [blunt, pad, realpsk] the Fingerprinter options *)
(*    refused1, refused2,   FingerprintClientHello returned an error       *)
(*    failed1, failed2]     ApplyPreset/BuildHandshakeState/handshake      *)
(*                          returned an error before a hello was sent      *)
(* One step per row (Fingerprint -> ApplyPreset -> BuildHandshakeState     *)
(* twice); everything is judged from the three byte strings by             *)
(* Fingerprint!RoundTrip.  Rows whose A is not a syntactically valid       *)
(* ClientHello are outside the statement (counted in skipped).             *)
(***************************************************************************)
EXTENDS Fingerprint, Json

Trace == ndJsonDeserialize("fp_trace.ndjson")

VARIABLES l, rej, feats, skipped
vars == <<l, rej, feats, skipped>>

Init == l = 1 /\ rej = {} /\ feats = {} /\ skipped = {}

\* deviations of one fingerprint/re-apply step X -> Y
Step(hX, hY, lenX, lenY, refused, failed, flags) ==
  IF lenY = 0
  THEN (IF refused THEN (IF MayRefuse(hX, flags) THEN {} ELSE {"refused-recognised-hello"})
        ELSE IF failed THEN {"re-apply-failed"} ELSE {"no-hello"})
  ELSE RoundTripH(hX, hY, lenX, lenY, flags)

Tag(stage, D) == {stage \o ":" \o d : d \in D}

\* what the row exercised (vacuity evidence; computed from the wire bytes)
Feats(hA, hB, ev) ==
  (IF \E i \in DOMAIN hA.exts : IsGrease16(hA.exts[i].type) THEN {"grease-ext"} ELSE {})
  \cup (IF \E i \in DOMAIN hA.suites : IsGrease16(hA.suites[i]) THEN {"grease-suite"} ELSE {})
  \cup (IF HasExtT(hA, 51) THEN {"key-share"} ELSE {})
  \cup (IF HasExtT(hA, 65037) THEN {"ech"} ELSE {})
  \cup (IF HasExtT(hA, 65037) /\ ECHOuterOK(ExtBody(hA, 65037)) /\ RdU16(ExtBody(hA, 65037), 7) # 32 THEN {"ech-enc-not-32"} ELSE {})
  \cup (IF HasExtT(hA, 51) /\ IsVec16(ExtBody(hA, 51)) /\ SharesOK(ExtBody(hA, 51), 3)
           /\ \E sh \in Range(ParseShares(ExtBody(hA, 51), 3)) : IsGrease16(sh.group) /\ sh.n # 1 THEN {"grease-share-not-1"} ELSE {})
  \cup (IF \E i \in DOMAIN hA.exts : IsGrease16(hA.exts[i].type) /\ Len(hA.exts[i].body) > 1 THEN {"grease-ext-body"} ELSE {})
  \cup (IF \E i \in DOMAIN hA.exts : IsGrease16(hA.exts[i].type) /\ Len(hA.exts[i].body) # 1
                                       /\ \E j \in 1..(i-1) : IsGrease16(hA.exts[j].type) THEN {"grease-ext2-body"} ELSE {})
  \cup (IF Len(hA.sid) # 32 THEN {"sid-not-32"} ELSE {})
  \cup (IF HasExtT(hA, 41) THEN {"psk"} ELSE {})
  \cup (IF HasExtT(hA, 41) /\ Len(ev.b) > 0 /\ ~HasExtT(hB, 41) THEN {"psk-dropped"} ELSE {})
  \cup (IF HasExtT(hA, 35) /\ Len(ExtBody(hA, 35)) > 0 THEN {"ticket"} ELSE {})
  \cup (IF HasPad(hA) THEN {"padded-A"} ELSE {"unpadded-A"})
  \cup (IF ~HasPad(hA) /\ Len(ev.b) > 0 /\ HasPad(hB) THEN {"padding-added"} ELSE {})
  \cup (IF Len(ev.b) > 0 /\ BodyLenOr(hA, 0, -1) # BodyLenOr(hB, 0, -1) THEN {"sni-length-differs"} ELSE {"sni-length-same"})
  \cup (IF Len(ev.b) > 0 /\ Len(ev.a) = Len(ev.b) THEN {"same-total"} ELSE {})
  \cup (IF ev.refused1 THEN {"refused"} ELSE {})
  \cup (IF \E i \in DOMAIN hA.exts : ~Recognised(hA.exts[i].type) THEN {"unrecognised-ext"} ELSE {})
  \cup (IF ev.flags.blunt THEN {"blunt"} ELSE {}) \cup (IF ev.flags.pad THEN {"alwayspad"} ELSE {}) \cup (IF ev.flags.realpsk THEN {"realpsk"} ELSE {})
  \cup (IF Len(ev.c) > 0 THEN {"C"} ELSE {})

JudgeH(hA, hB, hC, ev) ==
  Tag("AB", Step(hA, hB, Len(ev.a), Len(ev.b), ev.refused1, ev.failed1, ev.flags))
  \cup (IF Len(ev.b) > 0 THEN Tag("BC", Step(hB, hC, Len(ev.b), Len(ev.c), ev.refused2, ev.failed2, ev.flags)) ELSE {})

\* (operator arguments are evaluated once by TLC, LET bodies at every use: each hello is parsed once per row)
RowH(hA, hB, hC, ev) ==
  IF ~(Len(ev.a) > 0 /\ ValidH(hA)) THEN [dev |-> {}, feats |-> {}, skip |-> TRUE]
  ELSE [dev |-> JudgeH(hA, hB, hC, ev), feats |-> Feats(hA, hB, ev), skip |-> FALSE]
Row(ev) == RowH(ParseHello(ev.a), ParseHello(ev.b), ParseHello(ev.c), ev)

Next == /\ l <= Len(Trace)
        /\ l' = l + 1
        /\ \E r \in {Row(Trace[l])} :
             /\ rej' = IF r.dev = {} THEN rej ELSE rej \cup {<<Trace[l].sc, r.dev>>}
             /\ feats' = feats \cup r.feats
             /\ skipped' = IF r.skip THEN skipped \cup {Trace[l].sc} ELSE skipped

Report == (l = Len(Trace) + 1) =>
            /\ PrintT(<<"DONE", l - 1>>)
            /\ PrintT(<<"FEATS", ToJson(feats)>>)
            /\ PrintT(<<"SKIPPED", ToJson(skipped)>>)
            /\ \A r \in rej : PrintT(<<"REJ", ToJson(r)>>)
=============================================================================
