------------------------------ MODULE CertVerify ------------------------------
(* Bounded exhaustive configuration of CertVerifyDefs: TLC enumerates the verification grid, checks the sanity
   invariants of ShouldAccept and prints every scenario for replay. *)
EXTENDS CertVerifyDefs
Certs == {"valid", "wrongname", "untrusted", "expired", "notyet", "expired-wrongname", "notyet-wrongname"}
\* an IP literal is never sent as SNI (RFC 6066) but is still the name to verify
Names == {"example.com", "another.example", "192.0.2.7"}
ITVs == {"", "*", "example.com", "another.example"}
\* remove_sni: the caller drops the server_name extension (RemoveSNIExtension); verification is unaffected by what is sent
ConnCfgs(clocks) == [server_name : Names, itv : ITVs, skip_time : BOOLEAN, skip_verify : BOOLEAN, clock : clocks, remove_sni : BOOLEAN, setsni : {""}]
\* SetSNI after the hello was built (fresh connections): another name, an IP literal (v4, v6), the empty string
SetSNIs == {"another.example", "example.com", "192.0.2.10", "[2001:db8::1]", "-empty-"}
Renamed == {[k EXCEPT !.setsni = x] : k \in {c \in ConnCfgs({0}) : ~c.remove_sni /\ c.server_name = "example.com" /\ ~c.skip_time}, x \in SetSNIs}
\* fresh: one connection; resumed: a first connection that succeeds and a second one that shares ServerName (the cache key)
Permissive(k) == [k EXCEPT !.skip_verify = TRUE]
Strict(k) == [k EXCEPT !.skip_verify = FALSE, !.skip_time = FALSE, !.itv = "", !.clock = 0]
VARIABLES cert, conns, i, outcome
vars == <<cert, conns, i, outcome>>
Init == /\ cert \in Certs
        /\ conns \in {<<k>> : k \in ConnCfgs({0}) \cup Renamed}
                 \cup {<<Permissive(k), k>> : k \in ConnCfgs({0, 72, -72})}
                 \cup {<<Strict(k), k>> : k \in {x \in ConnCfgs({0, 72, -72}) : ShouldAccept(cert, Strict(x))}}
        /\ i = 1 /\ outcome = <<>>
\* one connection: the required outcome is a function of this connection's configuration only
Connect == /\ i <= Len(conns)
           /\ outcome' = Append(outcome, ShouldAccept(cert, conns[i]))
           /\ i' = i + 1 /\ UNCHANGED <<cert, conns>>
Next == Connect
Terminal == i = Len(conns) + 1
\* model-level sanity: skip_verify accepts everything; a wrong name is accepted only with "*", skip_verify or a matching itv
SkipVerifyAccepts == Terminal => \A j \in DOMAIN conns : conns[j].skip_verify => outcome[j]
WrongNameRule == Terminal => \A j \in DOMAIN conns :
                   (outcome[j] /\ ~conns[j].skip_verify /\ conns[j].itv # "*") => VerifyName(conns[j]) = CertName(cert)
Emit == Terminal => PrintT(<<"SCN", ToJson([cert |-> cert, conns |-> conns])>>)
=============================================================================
