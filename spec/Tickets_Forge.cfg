\* the grid of forged client sessions (one PrintT "FRG" per combination)
CONSTANTS
  KeyIds = {1}
  States = {1}
  Bits = {0}
  Cuts = {1}
  Hours = {1}
  MaxLen = 0
  MaxTix = 0
  TLen = 60
  Ops = {}
  Mode = "forge"
  Versions = {769, 770, 771}
  Suites = {49199, 49200, 52392, 49171, 47, 156}
  Hellos = {"Golang-0", "Chrome-100", "Firefox-105"}
  Suites13 = {4865, 4866, 4867}
  Hellos13 = {"Golang-0", "Chrome-100_PSK"}
  ExtraLens13 = {1, 31, 49, 64}
  SecretLens = {0, 1, 31, 32, 47, 48, 49, 64}
INIT Init
NEXT Next
CHECK_DEADLOCK FALSE
