INIT Init
NEXT Next
CONSTRAINT Emit
INVARIANT Explained
INVARIANT GrammarCovers
INVARIANT LayoutStable
INVARIANT InnerGrammarCovers
INVARIANT OutcomeOK
CHECK_DEADLOCK FALSE
