---------------------------- MODULE Fingerprint ----------------------------
(***************************************************************************)
(* C06 - fingerprinting a ClientHello and re-applying the result           *)
(* reproduces its shape; fingerprinting is idempotent.                     *)
(*                                                                         *)
(* Norm(h) is the normal form of a parsed hello (TLSWire!ParseHello): what *)
(* is left of a ClientHello "modulo GREASE values and per-connection       *)
(* material".  It is a total operator from parsed hellos to parsed hellos: *)
(*   GREASE code points (suites, extension types, groups, versions,        *)
(*     key-share groups)                     -> the placeholder 0x0a0a     *)
(*   client random                           -> 32 zero bytes              *)
(*   session id                              -> empty                      *)
(*   key_share data of non-GREASE groups     -> zero bytes, size kept      *)
(*   server_name                             -> empty body                 *)
(*   session_ticket                          -> empty body                 *)
(*   pre_shared_key (identities, binders)    -> empty body                 *)
(*   GREASE ECH: config id, enc, payload     -> zero bytes, sizes kept     *)
(*   padding                                 -> removed (its position and  *)
(*                                              length are judged by the   *)
(*                                              padding policy, RoundTrip) *)
(* everything else - legacy version, suite list, compression methods,      *)
(* extension order, every other extension body - is kept verbatim.         *)
(*                                                                         *)
(* RoundTrip(A, B, flags) states what hello B, sent by the spec that       *)
(* Fingerprinter{flags}.FingerprintClientHello(A) returned                 *)
(* (u_fingerprinter.go, ClientHelloSpec.FromRaw u_common.go:483,           *)
(* ApplyPreset u_parrots.go:2766), must look like.  The same predicate     *)
(* with (B, C) is the idempotence statement.                               *)
(***************************************************************************)
EXTENDS TLSWire

\* the padding policies of Padding.tla as constant-level functions (its assembly variables are not used here)
Pol == INSTANCE Padding WITH phase <- "idle", u <- 0, pad <- 0 - 1, policy <- [kind |-> "none", len |-> 0], cap <- 0

Zeros(n) == [i \in 1..n |-> 0]
NormU16(v) == IF IsGrease16(v) THEN GREASE ELSE v
NormU16s(xs) == [i \in DOMAIN xs |-> NormU16(xs[i])]

\* ---------- per-extension normal form (total: a body that does not parse is kept as it is) ----------
NormShares(sh) == Flat([i \in DOMAIN sh |->
                    U16(NormU16(sh[i].group)) \o Vec16(IF IsGrease16(sh[i].group) THEN sh[i].data ELSE Zeros(sh[i].n))])

ECHOuterOK(b) == /\ Len(b) >= 10 /\ b[1] = 0
                 /\ 8 + RdU16(b,7) + 2 <= Len(b)
                 /\ RdU16(b, 9 + RdU16(b,7)) = Len(b) - (9 + RdU16(b,7)) - 1

NormBody(t, b) ==
  CASE t = 0 -> <<>>
    [] t = 35 -> <<>>
    [] t = 41 -> <<>>
    [] t = 10 -> IF IsVec16(b) /\ Len(b) % 2 = 0 THEN Vec16(U16List(NormU16s(U16Seq(SubSeq(b, 3, Len(b)))))) ELSE b
    [] t = 43 -> IF IsVec8(b) /\ Len(b) % 2 = 1 THEN Vec8(U16List(NormU16s(U16Seq(SubSeq(b, 2, Len(b)))))) ELSE b
    [] t = 51 -> IF IsVec16(b) /\ SharesOK(b, 3) THEN Vec16(NormShares(ParseShares(b, 3))) ELSE b
    [] t = 65037 -> IF ECHOuterOK(b)
                    THEN <<0>> \o SubSeq(b, 2, 5) \o <<0>> \o Vec16(Zeros(RdU16(b,7))) \o Vec16(Zeros(RdU16(b, 9 + RdU16(b,7))))
                    ELSE b
    [] OTHER -> b

NormExt(e) == [bad |-> e.bad, type |-> NormU16(e.type), body |-> IF IsGrease16(e.type) THEN e.body ELSE NormBody(e.type, e.body)]
IsPadExt(e) == e.type = 21
NoPadExts(exts) == SelectSeq(exts, LAMBDA e : ~IsPadExt(e))
NormExts(exts) == LET np == NoPadExts(exts) IN [i \in DOMAIN np |-> NormExt(np[i])]

Norm(h) == [ok |-> h.ok, vers |-> h.vers, random |-> Zeros(Len(h.random)), sid |-> <<>>,
            suites |-> NormU16s(h.suites), comp |-> h.comp, exts |-> NormExts(h.exts), hasExts |-> h.hasExts]

\* TLSWire!ValidClientHello for an already parsed hello (the premise "syntactically valid ClientHello")
ValidH(h) ==
  /\ h.ok
  /\ \A i \in DOMAIN h.exts : ~h.exts[i].bad
  /\ NoDupSeq(ExtTypes(h))
  /\ \A i \in DOMAIN h.exts : h.exts[i].type = 41 => i = Len(h.exts)
  /\ \A i \in DOMAIN h.exts : ValidBody(h.exts[i].type, h.exts[i].body)

\* ---------- sizes of the per-connection parts (the "equal size" premise of the length statement) ----------
BodyLenOr(h, t, dflt) == IF HasExtT(h, t) THEN Len(ExtBody(h, t)) ELSE dflt
ConnSizes(h) == <<Len(h.sid), BodyLenOr(h, 0, -1), BodyLenOr(h, 35, -1), BodyLenOr(h, 41, -1)>>

\* ---------- lengths, as Padding.tla sees them ----------
ExtsLen(exts) == Pol!SumSeq([i \in DOMAIN exts |-> 4 + Len(exts[i].body)])
HeaderOf(h) == 4 + 2 + Len(h.random) + 1 + Len(h.sid) + 2 + 2 * Len(h.suites) + 1 + Len(h.comp) + (IF h.hasExts THEN 2 ELSE 0)
Unpadded(h) == HeaderOf(h) + ExtsLen(NoPadExts(h.exts))
WireLen(h) == HeaderOf(h) + ExtsLen(h.exts)
PadIdx(h) == {i \in DOMAIN h.exts : IsPadExt(h.exts[i])}
HasPad(h) == PadIdx(h) # {}
ThePad(h) == h.exts[CHOOSE i \in PadIdx(h) : TRUE]
\* position of the padding extension = number of non-padding extensions in front of it
PadPos(h) == LET i == CHOOSE i \in PadIdx(h) : TRUE IN Cardinality({j \in 1..(i-1) : ~IsPadExt(h.exts[j])})
HasPsk(h) == HasExtT(h, 41)

\* ---------- Fingerprinter options ----------
\* flags = [blunt |-> AllowBluntMimicry, pad |-> AlwaysAddPadding, realpsk |-> RealPSKResumption]

\* extension code points for which utls has a dedicated extension type that can be rebuilt from wire bytes
\* (ExtensionFromID, u_tls_extensions.go:19; GREASE code points are recognised as a class)
Dedicated == {0, 5, 10, 11, 13, 16, 17, 18, 21, 23, 24, 27, 28, 34, 35, 41, 43, 45, 50, 51, 57, 13172, 17513, 17613, 30031, 30032, 65037, 65281}
Recognised(t) == t \in Dedicated \/ IsGrease16(t)
\* "If the ClientHello passed in has extensions that are not recognized ... it will return a non-nil error" unless AllowBluntMimicry
MayRefuse(hA, flags) == ~flags.blunt /\ \E i \in DOMAIN hA.exts : ~Recognised(hA.exts[i].type)

\* the padding policy the fingerprinted spec declares (Padding.tla), and where its padding extension sits
\*   A has a padding extension           -> PadToLen(length of A), same position          (FromRaw, u_common.go:567)
\*   A has none, AlwaysAddPadding        -> BoringSSL style, last / just before pre_shared_key (AlwaysAddPadding, u_common.go:268)
\*   otherwise                           -> the spec has no padding extension
SpecPolicy(hA, lenA, flags) == IF HasPad(hA) THEN Pol!PPadTo(lenA) ELSE IF flags.pad THEN Pol!PBoring ELSE Pol!PNone
NonPadCount(h) == Len(NoPadExts(h.exts))
SpecPadPos(hA, hB, flags) == IF HasPad(hA) THEN PadPos(hA)
                             ELSE IF HasPsk(hB) THEN NonPadCount(hB) - 1 ELSE NonPadCount(hB)

\* the pre_shared_key extension of a spec fingerprinted with RealPSKResumption needs a real session: without one it is
\* omitted (Config.OmitEmptyPsk); a fake one (RealPSKResumption = FALSE) is sent as captured
DropPsk(nh) == [nh EXCEPT !.exts = SelectSeq(nh.exts, LAMBDA e : e.type # 41)]
ShapeEq(nA, nB, hB, flags) == IF flags.realpsk /\ ~HasPsk(hB) THEN DropPsk(nA) = nB ELSE nA = nB

\* names the first extension (padding apart) in which two normal forms differ
ExtDiff(ea, eb) ==
  LET n == IF Len(ea) < Len(eb) THEN Len(ea) ELSE Len(eb)
      D == {i \in 1..n : ea[i] # eb[i]} IN
  IF D = {} THEN "extension-count:" \o ToString(Len(ea)) \o "/" \o ToString(Len(eb))
  ELSE LET i == CHOOSE i \in D : \A j \in D : i <= j IN
       IF ea[i].type # eb[i].type THEN "extension-order:" \o ToString(ea[i].type) \o "/" \o ToString(eb[i].type)
       \* RFC 8701 allows an empty GREASE extension; named apart: the second GREASE extension of a spec with an empty
       \* body is BoringSSL's one-byte 00 by construction (ApplyPreset), so an empty captured one cannot be reproduced
       ELSE IF ea[i].type = GREASE /\ ea[i].body = <<>> /\ \E j \in 1..(i-1) : ea[j].type = GREASE
            THEN "extension-body:" \o ToString(ea[i].type) \o ":empty-second-grease-body"
       ELSE "extension-body:" \o ToString(ea[i].type)
ShapeDiff(nA, nB, hB, flags) == IF flags.realpsk /\ ~HasPsk(hB) THEN ExtDiff(DropPsk(nA).exts, nB.exts) ELSE ExtDiff(nA.exts, nB.exts)

\* ---------- the round-trip statement; returns the set of deviations (empty = explained) ----------
RoundTripWith(hA, hB, nA, nB, lenA, lenB, flags) ==
  LET pol == SpecPolicy(hA, lenA, flags)
      uB == Unpadded(hB)
      want == Pol!PolicyBody(pol, uB)
  IN (IF ~hB.ok \/ \E i \in DOMAIN hB.exts : hB.exts[i].bad THEN {"framing"} ELSE {})
     \cup (IF nA.vers # nB.vers THEN {"legacy-version"} ELSE {})
     \cup (IF nA.suites # nB.suites THEN {"cipher-suites"} ELSE {})
     \cup (IF nA.comp # nB.comp THEN {"compression-methods"} ELSE {})
     \cup (IF ~ShapeEq(nA, nB, hB, flags) /\ nA.vers = nB.vers /\ nA.suites = nB.suites /\ nA.comp = nB.comp THEN {ShapeDiff(nA, nB, hB, flags)} ELSE {})
     \cup (IF Cardinality(PadIdx(hB)) > 1 THEN {"duplicate-padding"} ELSE {})
     \cup (IF want = Pol!NoPad /\ HasPad(hB) THEN {"padding-against-policy"} ELSE {})
     \cup (IF want # Pol!NoPad /\ ~HasPad(hB) THEN {"padding-missing"} ELSE {})
     \cup (IF want # Pol!NoPad /\ HasPad(hB) /\ Len(ThePad(hB).body) # want THEN {"padding-length"} ELSE {})
     \cup (IF HasPad(hB) /\ ~AllZero(ThePad(hB).body) THEN {"padding-nonzero"} ELSE {})
     \cup (IF HasPad(hB) /\ Cardinality(PadIdx(hB)) = 1 /\ PadPos(hB) # SpecPadPos(hA, hB, flags) THEN {"padding-position"} ELSE {})
     \* equal sizes of the per-connection parts => equal total length (a capture with an EMPTY padding extension is
     \* outside the statement; AlwaysAddPadding on an unpadded hello changes the length as the BoringSSL policy says)
     \cup (IF ConnSizes(hA) = ConnSizes(hB) /\ ShapeEq(nA, nB, hB, flags) /\ (flags.realpsk => HasPsk(hA) = HasPsk(hB))
              /\ ~(HasPad(hA) /\ Len(ThePad(hA).body) = 0)
              /\ lenB # (IF ~HasPad(hA) /\ flags.pad THEN Pol!Total(Unpadded(hA), Pol!BoringBody(Unpadded(hA))) ELSE lenA)
           THEN {"total-length"} ELSE {})

\* (operator arguments are evaluated once by TLC, LET bodies at every use: hence the chain of operators)
RoundTripH(hA, hB, lenA, lenB, flags) == RoundTripWith(hA, hB, Norm(hA), Norm(hB), lenA, lenB, flags)
RoundTrip(a, b, flags) == RoundTripH(ParseHello(a), ParseHello(b), Len(a), Len(b), flags)
=============================================================================
