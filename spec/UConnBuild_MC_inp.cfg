CONSTANTS
  MaxLen = 2
  Classes = {"parrot", "shuffle", "randomized", "custom", "psk"}
  Servers = {"plain", "hrr"}
  Modes = {"never", "before", "nosess", "both"}
  Kinds = {"InPlace", "SetClientRandom", "SetSNI"}
  SNIAll = FALSE
  SkipVerify = FALSE
  FixRemoveSNI = TRUE
INIT Init
NEXT Next
INVARIANT WireIsRaw
INVARIANT EditsVisible
INVARIANT RawIsLastSent
INVARIANT NothingSentWhenRefused
INVARIANT Emit
CHECK_DEADLOCK FALSE
