\* C25 quick configuration (the runner writes variants of this file with other bounds)
CONSTANTS
  Classes = {"cbc10", "tls12", "tls13"}
  Forged = FALSE
  Sizes = {0, 1, 2, 16383, 16384, 16385, 32768}
  ReadSizes = {0, 1, 2, 16384, 32768}
  KsSizes = {}
  KsSides = {}
  MaxOps = 4
  MaxW = 3
  MaxKU = 2
  MaxMut = 1
  MaxClose = 1
  MaxKs = 0
  BurstSizes = {1, 16, 32, 33, 40}
  UploadRounds = {8, 40}
  UploadSizes = {1, 16385}
  MaxBurst = 1
  DynChoices = {FALSE}
  HalfOps = {}
  PadSizes = {}
  PadLens = {}
  MaxPad = 0
  MaxHalf = 0
  Paths = FALSE
INIT Init
NEXT Next
VIEW View
INVARIANT InvStreamPrefix
INVARIANT InvNothingPastMutation
INVARIANT InvNoSpuriousError
INVARIANT InvInSync
INVARIANT InvReadsSurvive
PROPERTY PropSticky
PROPERTY PropKsPure
INVARIANT Emit
CHECK_DEADLOCK FALSE
