CONSTANT Mode = "c22"
INIT Init
NEXT Next
CONSTRAINT Emit
INVARIANT ALPSRule
CHECK_DEADLOCK FALSE
