---------------------------- MODULE Record_Grid ----------------------------
(***************************************************************************)
(* The configuration grids of C25/C28 (what can be negotiated) and C27     *)
(* (what MakeConnWithCompleteHandshake must accept / refuse), computed by  *)
(* TLC from the suite tables dumped from the code (suites.json) with the   *)
(* definitions of Record.tla.  One state; the grids are printed.           *)
(***************************************************************************)
EXTENDS Record, Json

T == JsonDeserialize("suites.json")

AllIds == Ids(T.base) \cup Ids(T.weak) \cup Ids(T.tls13)
\* suite ids to probe MakeConnWithCompleteHandshake with: every id of every table, their neighbours, the extremes
Probe == {id \in AllIds \cup {i + 1 : i \in AllIds} \cup {i - 1 : i \in AllIds} \cup {0, 255, 65535} : id >= 0 /\ id <= 65535}
Versions == {VTLS10, VTLS11, VTLS12, VTLS13}

HsGrid ==
  {[vers |-> v, suite |-> id, weak |-> w,
    class |-> ClassOf(Profile(T, v, id)), kind |-> Profile(T, v, id).kind,
    ecsign |-> (IF v = VTLS13 THEN TRUE ELSE Info(T, id).ecsign),
    \* not in the upstream table cipherSuites: a uTLS addition (legacy ChaCha20, EnableWeakCiphers suites)
    extra |-> (v # VTLS13 /\ id \notin Ids(T.std))] :
     <<v, id, w>> \in {c \in Versions \X AllIds \X BOOLEAN : Negotiable(T, c[1], c[2], c[3])}}

Expect(v, id, w) == IF ~Supported(T, id, w) THEN "nil"
                    ELSE IF v \in ValidVersions(Info(T, id)) THEN "work" ELSE "free"
ForgedGrid ==
  {[vers |-> c[1], suite |-> c[2], weak |-> c[3], expect |-> Expect(c[1], c[2], c[3]),
    class |-> (IF Expect(c[1], c[2], c[3]) = "work" THEN ClassOf(Profile(T, c[1], c[2])) ELSE "nil"),
    kind |-> (IF Supported(T, c[2], c[3]) THEN Info(T, c[2]).kind ELSE "none"),
    \* what distinguishes the protection classes: MAC size (CBC-SHA1 / -SHA256 / -SHA384, RC4), explicit nonce (GCM / ChaCha20)
    mac |-> (IF Supported(T, c[2], c[3]) THEN Info(T, c[2]).mac ELSE 0),
    expl |-> (IF Supported(T, c[2], c[3]) THEN Info(T, c[2]).expl ELSE 0)] :
     c \in OldVersions \X Probe \X BOOLEAN}

VARIABLE done
Init == done = FALSE /\ PrintT(<<"GRID", ToJson([hs |-> HsGrid, forged |-> ForgedGrid])>>)
Next == done = FALSE /\ done' = TRUE
\* EnableWeakCiphers only adds: every suite supported before is supported after (Record.SupportedIds)
WeakOnlyAdds == SupportedIds(T, FALSE) \subseteq SupportedIds(T, TRUE)
=============================================================================
