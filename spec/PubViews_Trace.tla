------------------------ MODULE PubViews_Trace ------------------------
(* Trace validation for C31: every logged conversion is judged by PubViews!Fails. *)
EXTENDS PubViews, Json
Trace == ndJsonDeserialize("c31_trace.ndjson")
VARIABLES l, rej
Init == l = 1 /\ rej = <<>>
Next == /\ l <= Len(Trace) /\ l' = l + 1
        /\ LET f == Fails(Trace[l]) IN rej' = IF f = {} THEN rej ELSE Append(rej, <<l, f, Detail(Trace[l])>>)
Report == (l = Len(Trace) + 1) =>
            /\ PrintT(<<"DONE", l - 1>>)
            /\ \A i \in DOMAIN rej : PrintT(<<"REJ", ToJson(rej[i])>>)
=============================================================================
