----------------------------- MODULE Record_Proc -----------------------------
(***************************************************************************)
(* C27, the process-global part: every history of at most MaxLen calls in  *)
(* ONE process over                                                        *)
(*   Forge(id)   MakeConnWithCompleteHandshake on both ends (TLS 1.2) with *)
(*               an id that is never supported / a supported AEAD id / a   *)
(*               supported CBC id / each suite only EnableWeakCiphers adds *)
(*   Handshake   a real TLS 1.2 handshake (suite lookups on both sides)    *)
(*   Enable      EnableWeakCiphers                                         *)
(* with the process state of Record.tla (ProcInit, ProcEnableWeak).  The   *)
(* ids come from the suite tables dumped from the code.  Every maximal     *)
(* history is printed (HIST) and replayed in a FRESH harness process; the  *)
(* trace specification follows the same process state and judges each      *)
(* result (nil or not, data both ways) under the table as it is THEN.      *)
(***************************************************************************)
EXTENDS Record, Json

CONSTANTS MaxLen

T == JsonDeserialize("suites.json")

WeakOnly == Ids(T.weak) \ Ids(T.base)                 \* what EnableWeakCiphers adds
Known == Ids(T.base) \cup Ids(T.weak) \cup Ids(T.tls13)
NeverId == CHOOSE id \in {i + 1 : i \in Known} \cup {0, 65535} : id \notin Known /\ id >= 0 /\ id <= 65535
BaseOfKind(k) == {id \in Ids(T.base) : Info(T, id).kind = k /\ VTLS12 \in ValidVersions(Info(T, id))}
AeadId == CHOOSE id \in BaseOfKind("aead") : Info(T, id).ecsign
CbcId == CHOOSE id \in BaseOfKind("cbc") : TRUE
ForgeIds == {NeverId, AeadId, CbcId} \cup WeakOnly
HsId == AeadId

VARIABLES p, hist
vars == <<p, hist>>

Init == p = ProcInit /\ hist = <<>>

\* nil is what the specification demands of this call (printed with the scenario only as documentation:
\* the harness does not read it, the trace specification recomputes it)
Forge(id) == /\ hist' = Append(hist, [op |-> "forge", id |-> id, vers |-> VTLS12, ecsign |-> FALSE,
                                      nil |-> ProcForgeIsNil(T, p, id)])
             /\ UNCHANGED p
Handshake == /\ ProcNegotiable(T, p, VTLS12, HsId)
             /\ hist' = Append(hist, [op |-> "hs", id |-> HsId, vers |-> VTLS12, ecsign |-> Info(T, HsId).ecsign, nil |-> FALSE])
             /\ UNCHANGED p
Enable == /\ p' = ProcEnableWeak(p)
          /\ hist' = Append(hist, [op |-> "enable", id |-> 0, vers |-> 0, ecsign |-> FALSE, nil |-> FALSE])

Next == Len(hist) < MaxLen /\ (Enable \/ Handshake \/ \E id \in ForgeIds : Forge(id))

\* ---- laws of the model ----
\* before EnableWeakCiphers the weak suites yield nil, after it they do not; an unsupported id yields nil at any time
EnabledSoFar(h) == \E j \in 1..Len(h) : h[j].op = "enable"
LawWeak == \A i \in 1..Len(hist) :
             hist[i].op = "forge" =>
               /\ hist[i].id = NeverId => hist[i].nil
               /\ hist[i].id \in {AeadId, CbcId} => ~hist[i].nil
               /\ hist[i].id \in WeakOnly => (hist[i].nil <=> ~EnabledSoFar(SubSeq(hist, 1, i - 1)))
\* EnableWeakCiphers is idempotent and is never undone
LawMonotone == [][p.weak => p'.weak]_vars
NonTrivial == WeakOnly # {} /\ Cardinality(ForgeIds) >= 4

Emit == (Len(hist) = MaxLen) => PrintT(<<"HIST", ToJson(hist)>>)
=============================================================================
