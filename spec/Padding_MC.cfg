CONSTANTS
  Thorough = FALSE
  MaxU = 700
  TicketLen = 120
INIT Init
NEXT Next
INVARIANT Inv
CONSTRAINT Constr
CHECK_DEADLOCK FALSE
