------------------------------ MODULE C02_Import ------------------------------
(* C02, source "JSON-imported copy": turns a recorded, valid wire ClientHello into the field map that
   ClientHelloSpec.ImportTLSClientHello documents (client.tlsfingerprint.io format).  The cutting is done here,
   by the TLA+ parser (TLSWire!ParseHello), so that the Go harness needs no knowledge of the grammar: it only
   hands the map to the library.  Rows without a valid hello yield no map. *)
EXTENDS ExtCodec
Rows == ndJsonDeserialize("c02_import_in.ndjson")      \* [raw |-> bytes]
VARIABLE x
Tail1(b) == SubSeq(b, 2, Len(b))
ShareHeads(b) == LET sh == ParseShares(b, 3) IN XFlat([i \in DOMAIN sh |-> U16(sh[i].group) \o U16(sh[i].n)])
Field(h, k) ==
  CASE k = "cipher_suites" -> XU16List(h.suites)
    [] k = "compression_methods" -> h.comp
    [] k = "extensions" -> XU16List(ExtTypes(h))
    [] k = "pt_fmts" -> ExtBody(h, 11)
    [] k = "sig_algs" -> ExtBody(h, 13)
    [] k = "supported_versions" -> Tail1(ExtBody(h, 43))
    [] k = "curves" -> ExtBody(h, 10)
    [] k = "alpn" -> ExtBody(h, 16)
    [] k = "key_share" -> ShareHeads(ExtBody(h, 51))
    [] k = "psk_key_exchange_modes" -> Tail1(ExtBody(h, 45))
    [] k = "cert_compression_algs" -> Tail1(ExtBody(h, 27))
    [] k = "record_size_limit" -> ExtBody(h, 28)
KeyOfType == [t \in {11, 13, 43, 10, 16, 51, 45, 27, 28} |->
               CASE t = 11 -> "pt_fmts" [] t = 13 -> "sig_algs" [] t = 43 -> "supported_versions" [] t = 10 -> "curves" [] t = 16 -> "alpn"
                 [] t = 51 -> "key_share" [] t = 45 -> "psk_key_exchange_modes" [] t = 27 -> "cert_compression_algs" [] t = 28 -> "record_size_limit"]
Keys(h) == {"cipher_suites", "compression_methods", "extensions"} \cup {KeyOfType[t] : t \in {t \in DOMAIN KeyOfType : HasExtT(h, t)}}
ImportMap(raw) == LET h == ParseHello(raw) IN [k \in Keys(h) |-> Field(h, k)]
Emit == \A i \in DOMAIN Rows : ValidClientHello(Rows[i].raw) => PrintT(<<"IMP", ToJson([row |-> i, map |-> ImportMap(Rows[i].raw)])>>)
Init == x = 0 /\ Emit
Next == UNCHANGED x
=============================================================================
