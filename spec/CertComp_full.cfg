CONSTANT ReadPolicy = "full"
CONSTANT MaxLen = 3
INIT Init
NEXT Next
INVARIANT Correct
CONSTRAINT Emit
CHECK_DEADLOCK FALSE
