-------------------------------- MODULE LRU --------------------------------
(***************************************************************************)
(* The client session cache returned by tls.NewLRUClientSessionCache(n)    *)
(* (common.go, type lruSessionCache: map + container/list under a mutex).  *)
(*                                                                         *)
(* Part 1 is the sequential object: a bounded map with a recency order.    *)
(* Part 2 wraps it into call / linearise / return steps, so that a         *)
(* concurrent history (call-start and call-end events of several           *)
(* goroutines) is accepted iff some linearisation of the calls produces    *)
(* the observed results.  A sequential call is the composition             *)
(* Call . Lin . Ret  (operator DoQ / DoRes).                               *)
(*                                                                         *)
(* Values are small integers; Nil = 0 stands for a nil *ClientSessionState.*)
(* Put(k, Nil) deletes k (doc comment of lruSessionCache.Put and of the    *)
(* ClientSessionCache interface).                                          *)
(***************************************************************************)
EXTENDS Integers, Sequences, FiniteSets

Nil == 0
DefaultCap == 64                                  \* common.go: defaultSessionCacheCapacity
EffCap(n) == IF n < 1 THEN DefaultCap ELSE n      \* NewLRUClientSessionCache: capacity < 1 => default

---------------------------------------------------------------------------
(* Part 1: the sequential object.  q is the recency list, q[1] = most      *)
(* recently used (list front), q[Len(q)] = eviction candidate (list back). *)
Entry(k, v) == [k |-> k, v |-> v]
KeysOf(q) == {q[i].k : i \in DOMAIN q}
Has(q, k) == \E i \in DOMAIN q : q[i].k = k
Idx(q, k) == CHOOSE i \in DOMAIN q : q[i].k = k
Without(q, k) == LET Keep(e) == e.k # k IN SelectSeq(q, Keep)

\* lruSessionCache.Put
PutQ(q, cap, k, v) ==
    IF v = Nil THEN Without(q, k)                                     \* delete (also when absent: no-op)
    ELSE IF Has(q, k) THEN <<Entry(k, v)>> \o Without(q, k)           \* update + MoveToFront
    ELSE IF Len(q) < EffCap(cap) THEN <<Entry(k, v)>> \o q            \* PushFront
    ELSE <<Entry(k, v)>> \o SubSeq(q, 1, Len(q) - 1)                  \* evict Back, reuse element at front

\* lruSessionCache.Get
GetQ(q, k) == IF Has(q, k) THEN <<q[Idx(q, k)]>> \o Without(q, k) ELSE q
GetRes(q, k) == IF Has(q, k) THEN [ok |-> TRUE, v |-> q[Idx(q, k)].v] ELSE [ok |-> FALSE, v |-> Nil]

\* an operation is [op |-> "Put" | "Get", k |-> key, v |-> value (Nil for Get)]
NoRes == [ok |-> TRUE, v |-> Nil]                 \* Put returns nothing; logged as ok=TRUE, v=Nil
DoQ(q, cap, o) == IF o.op = "Put" THEN PutQ(q, cap, o.k, o.v) ELSE GetQ(q, o.k)
DoRes(q, o) == IF o.op = "Put" THEN NoRes ELSE GetRes(q, o.k)

\* state predicates of the object
Bounded(q, cap) == Len(q) <= EffCap(cap)
UniqueKeys(q) == \A i, j \in DOMAIN q : q[i].k = q[j].k => i = j
NoNilStored(q) == \A i \in DOMAIN q : q[i].v # Nil

---------------------------------------------------------------------------
(* Part 2: the cache as a state machine with calls, linearisation points    *)
(* and returns.  pend[t] is the call goroutine t is in (NoCall if none);   *)
(* done says whether its linearisation point (the critical section under   *)
(* c.Lock()) has passed, res is the result fixed at that point.            *)
CONSTANT Threads
VARIABLES cap,      \* the argument of NewLRUClientSessionCache
          q,        \* recency list of entries
          pend      \* per goroutine: the call in progress
lruVars == <<cap, q, pend>>

NoCall == [op |-> "None"]
Pending(o) == [op |-> o.op, k |-> o.k, v |-> o.v, done |-> FALSE, res |-> NoRes]
Idle == [t \in Threads |-> NoCall]

New(n) == cap = n /\ q = <<>> /\ pend = Idle          \* NewLRUClientSessionCache(n)
NewNext(n) == cap' = n /\ q' = <<>> /\ pend' = Idle

\* goroutine t enters Put/Get
Call(t, o) == /\ pend[t] = NoCall
              /\ pend' = [pend EXCEPT ![t] = Pending(o)]
              /\ UNCHANGED <<cap, q>>

\* internal: t's call takes effect atomically (it holds the mutex)
Lin(t) == /\ pend[t] # NoCall /\ ~pend[t].done
          /\ q' = DoQ(q, cap, pend[t])
          /\ pend' = [pend EXCEPT ![t] = [pend[t] EXCEPT !.done = TRUE, !.res = DoRes(q, pend[t])]]
          /\ UNCHANGED cap

\* t's call returns r
Ret(t, r) == /\ pend[t] # NoCall /\ pend[t].done /\ pend[t].res = r
             /\ pend' = [pend EXCEPT ![t] = NoCall]
             /\ UNCHANGED <<cap, q>>

\* a call that nobody overlaps: Call . Lin . Ret in one step
Do(t, o, r) == /\ pend[t] = NoCall
               /\ r = DoRes(q, o)
               /\ q' = DoQ(q, cap, o)
               /\ UNCHANGED <<cap, pend>>

\* properties of every reachable state
InvBounded == Bounded(q, cap)
InvUniqueKeys == UniqueKeys(q)
InvNoNilStored == NoNilStored(q)
=============================================================================
