CONSTANT LockBeforeClear = TRUE
INIT InitMC
NEXT NextSched
VIEW View
CONSTRAINT Emit
