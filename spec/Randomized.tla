---------------------------- MODULE Randomized ----------------------------
(***************************************************************************)
(* C09 - generateRandomizedSpec (u_parrots.go:2949-3157) as a              *)
(* nondeterministic action: one step per FlipWeightedCoin / Intn /         *)
(* shuffle of the Go function, in the order of the code.  A weight w is    *)
(* abstracted to its class: 0 (w <= 0: the coin is always false),          *)
(* 1 (w >= 1: always true), 2 (both outcomes possible), so weights 0/1     *)
(* are guards.                                                             *)
(*                                                                         *)
(* Abstractions (stated, not hidden):                                      *)
(*  - a shuffle is a nondeterministic permutation; the feature vector      *)
(*    keeps extensions and signature algorithms as sets, so the shuffle    *)
(*    steps change only pc;                                                *)
(*  - removeRandomCiphers flips one coin per list element; the model       *)
(*    chooses how many elements of each class survive (never the first     *)
(*    element: u_parrots.go:3159-3178 starts at index 1).  The list is     *)
(*    [shuffled TLS 1.3] ++ [shuffled TLS1.2-only] ++ [shuffled older],    *)
(*    kept as class counts k13, k12, kold (non-RC4), krc4;                 *)
(*  - the pools (which suite is in which class) are read from the code:    *)
(*    suites.json is dumped from cipherSuites / defaultCipherSuitesTLS13   *)
(*    by the verif accessor VerifCipherSuiteTable on every run.            *)
(*                                                                         *)
(* Inputs: the variant (ALPN forced / forbidden / by coin), the weights, and  *)
(* nextProtos (Config.NextProtos).  nextProtos only supplies the content of *)
(* the ALPN list; it decides neither ALPN nor ALPS (the code guards ALPS    *)
(* with WithALPN, u_parrots.go:3131) and is therefore not a model variable: *)
(* real specs generated with every nextProtos shape must be outputs of this *)
(* model (Randomized_Trace, DetailOK checks the list content).              *)
(*                                                                         *)
(* obs is a prophecy variable: Free in the exhaustive model; when a real   *)
(* generated spec is replayed (Randomized_Trace) it holds the decision     *)
(* vector read off that spec and every step must agree with it, so the     *)
(* replay succeeds iff the real output is a reachable model output.        *)
(***************************************************************************)
EXTENDS Integers, Sequences, FiniteSets, TLC, Json

SuiteTable == JsonDeserialize("suites.json")      \* sequence of [Id, TLS13, TLS12, RC4, Pool, ...]
SuiteRange == {SuiteTable[i] : i \in DOMAIN SuiteTable}
Pool   == {s \in SuiteRange : s.Pool}
Pool13 == {s.Id : s \in {x \in Pool : x.TLS13}}
Pool12 == {s.Id : s \in {x \in Pool : ~x.TLS13 /\ x.TLS12}}
PoolRC4 == {s.Id : s \in {x \in Pool : ~x.TLS13 /\ ~x.TLS12 /\ x.RC4}}
PoolOld == {s.Id : s \in {x \in Pool : ~x.TLS13 /\ ~x.TLS12 /\ ~x.RC4}}
N13 == Cardinality(Pool13)
N12 == Cardinality(Pool12)
NOld == Cardinality(PoolOld)
NRC4 == Cardinality(PoolRC4)

\* ---- code points (IANA) ----
TLS10 == 769  TLS12 == 771  TLS13 == 772
X25519 == 29  P256 == 23  P384 == 24  P521 == 25  X25519MLKEM768 == 4588  X25519Kyber768Draft00 == 25497
HybridPQ == {X25519MLKEM768, X25519Kyber768Draft00}
ECDSA_P256_SHA256 == 1027  PKCS1_SHA256 == 1025  ECDSA_P384_SHA384 == 1283  PKCS1_SHA384 == 1281
PKCS1_SHA1 == 513  PKCS1_SHA512 == 1537  ECDSA_SHA1 == 515  ECDSA_P521_SHA512 == 1539
PSS_SHA256 == 2052  PSS_SHA384 == 2053  PSS_SHA512 == 2054
BaseSigs == {ECDSA_P256_SHA256, PKCS1_SHA256, ECDSA_P384_SHA384, PKCS1_SHA384, PKCS1_SHA1, PKCS1_SHA512}

\* ---- weights ----
WeightNames == {"Extensions_Append_ALPN", "TLSVersMax_Set_VersionTLS13", "CipherSuites_Remove_RandomCiphers",
   "SigAndHashAlgos_Append_ECDSAWithSHA1", "SigAndHashAlgos_Append_ECDSAWithP521AndSHA512",
   "SigAndHashAlgos_Append_PSSWithSHA256", "SigAndHashAlgos_Append_PSSWithSHA384_PSSWithSHA512",
   "CurveIDs_Append_X25519", "CurveIDs_Append_CurveP521", "Extensions_Append_Padding", "Extensions_Append_Status",
   "Extensions_Append_SCT", "Extensions_Append_Reneg", "Extensions_Append_EMS", "FirstKeyShare_Set_CurveP256",
   "KeyShare_Append_RandomGroups", "Extensions_Append_ALPS"}
\* FlipWeightedCoin (u_prng.go:144): f > 1.0 - weight with f in [0,1]
Flip(w) == IF w = 0 THEN {FALSE} ELSE IF w = 1 THEN {TRUE} ELSE BOOLEAN
Variants == {"Randomized", "Randomized-ALPN", "Randomized-NoALPN"}

VARIABLES pc, W, variant, fv, obs
vars == <<pc, W, variant, fv, obs>>

Free == [free |-> TRUE]
IsFree == "free" \in DOMAIN obs
\* a step may give field f the value v only if the replayed observation (if any) has that value
Ok(f, v) == IF IsFree THEN TRUE ELSE obs[f] = v

FV0 == [alpn |-> FALSE, tls13 |-> FALSE, min |-> TLS10, k13 |-> 0, k12 |-> 0, kold |-> 0, krc4 |-> 0,
        sha1 |-> FALSE, p521sig |-> FALSE, pss256 |-> FALSE, pss384 |-> FALSE,
        mlkemGroup |-> FALSE, x25519 |-> FALSE, p521curve |-> FALSE,
        padding |-> FALSE, status |-> FALSE, sct |-> FALSE, reneg |-> FALSE, ems |-> FALSE,
        p256first |-> FALSE, ksP256 |-> FALSE, ksMLKEM |-> FALSE, alps |-> FALSE]
Fields == DOMAIN FV0

Set(f, v, next) == Ok(f, v) /\ fv' = [fv EXCEPT ![f] = v] /\ pc' = next /\ UNCHANGED <<W, variant, obs>>
Goto(next) == pc' = next /\ UNCHANGED <<W, variant, fv, obs>>

\* ---------------------------------------------------------------- the generator, step by step
\* u_parrots.go:2973-2987
ChooseALPN == pc = "alpn" /\ \E b \in (CASE variant = "Randomized-ALPN" -> {TRUE}
                                         [] variant = "Randomized-NoALPN" -> {FALSE}
                                         [] OTHER -> Flip(W.Extensions_Append_ALPN)) : Set("alpn", b, "shuffleCiphers")
\* :2990 shuffledCiphers: r.Perm, sort by (isObsolete, tag): TLS1.2-only suites first
ShuffleCiphers == pc = "shuffleCiphers" /\ Goto("tls13")
\* :2995
FlipTLS13 == pc = "tls13" /\ \E b \in Flip(W.TLSVersMax_Set_VersionTLS13) : Set("tls13", b, IF b THEN "min" ELSE "remove")
\* :2997-2998 r.Intn(2) over {TLS10, TLS12}
ChooseMin == pc = "min" /\ \E m \in {TLS10, TLS12} : Set("min", m, "shuffle13")
\* :3000-3009 shuffle of the TLS 1.3 suites, prepended; removeRC4Ciphers
Shuffle13 == pc = "shuffle13" /\ Goto("remove")
\* :3015 removeRandomCiphers(r, shuffledSuites, w): element i >= 1 is dropped with probability w*i/len
Avail13 == IF fv.tls13 THEN N13 ELSE 0
AvailRC4 == IF fv.tls13 THEN 0 ELSE NRC4
NoneDropped == W.CipherSuites_Remove_RandomCiphers = 0
RemoveRandomCiphers ==
  /\ pc = "remove"
  /\ \E a \in 0..Avail13 : Ok("k13", a) /\
     \E b \in 0..N12 : Ok("k12", b) /\
     \E c \in 0..NOld : Ok("kold", c) /\
     \E d \in 0..AvailRC4 : Ok("krc4", d) /\
       /\ NoneDropped => a = Avail13 /\ b = N12 /\ c = NOld /\ d = AvailRC4
       /\ IF Avail13 > 0 THEN a >= 1 ELSE IF N12 > 0 THEN b >= 1 ELSE TRUE   \* the head of the list is never dropped
       /\ fv' = [fv EXCEPT !.k13 = a, !.k12 = b, !.kold = c, !.krc4 = d]
       /\ pc' = "sha1" /\ UNCHANGED <<W, variant, obs>>
\* :3029-3043
FlipSHA1 == pc = "sha1" /\ \E b \in Flip(W.SigAndHashAlgos_Append_ECDSAWithSHA1) : Set("sha1", b, "p521sig")
FlipP521Sig == pc = "p521sig" /\ \E b \in Flip(W.SigAndHashAlgos_Append_ECDSAWithP521AndSHA512) : Set("p521sig", b, "pss256")
FlipPSS256 == pc = "pss256" /\ \E b \in Flip(W.SigAndHashAlgos_Append_PSSWithSHA256) :
                 LET v == b \/ fv.tls13 IN Set("pss256", v, IF v THEN "pss384" ELSE "shuffleSigs")
FlipPSS384 == pc = "pss384" /\ \E b \in Flip(W.SigAndHashAlgos_Append_PSSWithSHA384_PSSWithSHA512) : Set("pss384", b, "shuffleSigs")
\* :3045
ShuffleSigs == pc = "shuffleSigs" /\ Goto("mlkemGroup")
\* :3056-3065  (two separate flips with the same weight)
FlipMLKEMGroup == pc = "mlkemGroup" /\ \E b \in Flip(W.CurveIDs_Append_X25519) : Set("mlkemGroup", b /\ fv.tls13, "x25519")
FlipX25519 == pc = "x25519" /\ \E b \in Flip(W.CurveIDs_Append_X25519) : Set("x25519", b \/ fv.tls13, "p521curve")
FlipP521Curve == pc = "p521curve" /\ \E b \in Flip(W.CurveIDs_Append_CurveP521) : Set("p521curve", b, "padding")
\* :3089-3105
FlipPadding == pc = "padding" /\ \E b \in Flip(W.Extensions_Append_Padding) : Set("padding", b \/ fv.tls13, "status")
FlipStatus == pc = "status" /\ \E b \in Flip(W.Extensions_Append_Status) : Set("status", b, "sct")
FlipSCT == pc = "sct" /\ \E b \in Flip(W.Extensions_Append_SCT) : Set("sct", b, "reneg")
FlipReneg == pc = "reneg" /\ \E b \in Flip(W.Extensions_Append_Reneg) : Set("reneg", b, "ems")
FlipEMS == pc = "ems" /\ \E b \in Flip(W.Extensions_Append_EMS) : Set("ems", b, IF fv.tls13 THEN "p256first" ELSE "shuffleExts")
\* :3106-3119
FlipP256First == pc = "p256first" /\ \E b \in Flip(W.FirstKeyShare_Set_CurveP256) :
                    Set("p256first", b, IF b THEN (IF fv.alpn THEN "alps" ELSE "shuffleExts") ELSE "ksP256")
FlipKSP256 == pc = "ksP256" /\ \E b \in Flip(W.KeyShare_Append_RandomGroups) : Set("ksP256", b, "ksMLKEM")
FlipKSMLKEM == pc = "ksMLKEM" /\ \E b \in Flip(W.KeyShare_Append_RandomGroups) :
                    Set("ksMLKEM", b, IF fv.alpn THEN "alps" ELSE "shuffleExts")
\* :3131-3147 (independent salted PRNG)
FlipALPS == pc = "alps" /\ \E b \in Flip(W.Extensions_Append_ALPS) : Set("alps", b, "shuffleExts")
\* :3152
ShuffleExts == pc = "shuffleExts" /\ Goto("done")

GenNext == \/ ChooseALPN \/ ShuffleCiphers \/ FlipTLS13 \/ ChooseMin \/ Shuffle13 \/ RemoveRandomCiphers
           \/ FlipSHA1 \/ FlipP521Sig \/ FlipPSS256 \/ FlipPSS384 \/ ShuffleSigs
           \/ FlipMLKEMGroup \/ FlipX25519 \/ FlipP521Curve
           \/ FlipPadding \/ FlipStatus \/ FlipSCT \/ FlipReneg \/ FlipEMS
           \/ FlipP256First \/ FlipKSP256 \/ FlipKSMLKEM \/ FlipALPS \/ ShuffleExts

\* ---------------------------------------------------------------- the offer a decision vector stands for
Opt(b, s) == IF b THEN s ELSE <<>>
OptS(b, S) == IF b THEN S ELSE {}
Rep(n, x) == [i \in 1..n |-> x]
Desc(hi, lo) == [i \in 1..(hi - lo + 1) |-> hi - (i - 1)]       \* makeSupportedVersions (u_conn.go:818)
SeqRange(s) == {s[i] : i \in DOMAIN s}

Offer(v) ==
  [ vmin |-> v.min, vmax |-> IF v.tls13 THEN TLS13 ELSE TLS12,
    sc |-> Rep(v.k13, "t13") \o Rep(v.k12, "t12") \o Rep(v.kold + v.krc4, "old"), nrc4 |-> v.krc4,
    sigs |-> BaseSigs \cup OptS(v.sha1, {ECDSA_SHA1}) \cup OptS(v.p521sig, {ECDSA_P521_SHA512})
               \cup OptS(v.pss256, {PSS_SHA256}) \cup OptS(v.pss384, {PSS_SHA384, PSS_SHA512}),
    curves |-> Opt(v.mlkemGroup, <<X25519MLKEM768>>) \o Opt(v.x25519, <<X25519>>) \o <<P256, P384>> \o Opt(v.p521curve, <<P521>>),
    exts |-> {"SNIExtension", "SessionTicketExtension", "SignatureAlgorithmsExtension", "SupportedPointsExtension", "SupportedCurvesExtension"}
               \cup OptS(v.alpn, {"ALPNExtension"}) \cup OptS(v.padding, {"UtlsPaddingExtension"})
               \cup OptS(v.status, {"StatusRequestExtension"}) \cup OptS(v.sct, {"SCTExtension"})
               \cup OptS(v.reneg, {"RenegotiationInfoExtension"}) \cup OptS(v.ems, {"ExtendedMasterSecretExtension"})
               \cup OptS(v.tls13, {"KeyShareExtension", "PSKKeyExchangeModesExtension", "SupportedVersionsExtension"})
               \cup OptS(v.alps, {"ApplicationSettingsExtension"}),
    ks |-> IF ~v.tls13 THEN <<>> ELSE IF v.p256first THEN <<P256>>
           ELSE Opt(v.ksMLKEM, <<X25519MLKEM768>>) \o <<X25519>> \o Opt(v.ksP256, <<P256>>),
    sv |-> IF v.tls13 THEN Desc(TLS13, v.min) ELSE <<>> ]

\* ---------------------------------------------------------------- consistency (the property), over offers
Rank(c) == CASE c = "t13" -> 1 [] c = "t12" -> 2 [] c = "old" -> 3 [] OTHER -> 0
SuiteOrderOK(o) == \A i, j \in DOMAIN o.sc : i < j => Rank(o.sc[i]) <= Rank(o.sc[j]) /\ Rank(o.sc[i]) > 0
NoRC4In13(o) == o.vmax = TLS13 => o.nrc4 = 0
PSSIn13(o) == o.vmax = TLS13 => PSS_SHA256 \in o.sigs
PaddingIn13(o) == o.vmax = TLS13 => "UtlsPaddingExtension" \in o.exts
VersionsIn13(o) == o.vmax = TLS13 => "SupportedVersionsExtension" \in o.exts /\ o.sv = Desc(o.vmax, o.vmin)
ALPSNeedsALPN(o) == "ApplicationSettingsExtension" \in o.exts => "ALPNExtension" \in o.exts
Unlisted(o) == SeqRange(o.ks) \ SeqRange(o.curves)
SharesListed(o) == Unlisted(o) = {}                              \* every key-share group is in supported_groups
Shareless(o) == (SeqRange(o.curves) \cap HybridPQ) \ SeqRange(o.ks)
HybridHasShare(o) == Shareless(o) = {}                           \* every listed hybrid PQ group carries a share

ConsistencyNames == {"SuiteOrder", "NoRC4In13", "PSSIn13", "PaddingIn13", "VersionsIn13", "ALPSNeedsALPN", "SharesListed", "HybridHasShare"}
Consistent(name, o) == CASE name = "SuiteOrder" -> SuiteOrderOK(o) [] name = "NoRC4In13" -> NoRC4In13(o)
                         [] name = "PSSIn13" -> PSSIn13(o) [] name = "PaddingIn13" -> PaddingIn13(o)
                         [] name = "VersionsIn13" -> VersionsIn13(o) [] name = "ALPSNeedsALPN" -> ALPSNeedsALPN(o)
                         [] name = "SharesListed" -> SharesListed(o) [] name = "HybridHasShare" -> HybridHasShare(o)

\* weights 0 / 1 make the optional feature absent / present unless a TLS 1.3 rule forces it
WeightsRespected(w, var, o) ==
  LET has(k) == k \in o.exts
      rule(name, present, forced) == (w[name] = 0 /\ ~forced => ~present) /\ (w[name] = 1 => present)
      t13 == o.vmax = TLS13
  IN /\ var = "Randomized" => rule("Extensions_Append_ALPN", has("ALPNExtension"), FALSE)
     /\ rule("TLSVersMax_Set_VersionTLS13", t13, FALSE)
     /\ rule("SigAndHashAlgos_Append_ECDSAWithSHA1", ECDSA_SHA1 \in o.sigs, FALSE)
     /\ rule("SigAndHashAlgos_Append_ECDSAWithP521AndSHA512", ECDSA_P521_SHA512 \in o.sigs, FALSE)
     /\ rule("SigAndHashAlgos_Append_PSSWithSHA256", PSS_SHA256 \in o.sigs, t13)
     /\ (PSS_SHA256 \in o.sigs => rule("SigAndHashAlgos_Append_PSSWithSHA384_PSSWithSHA512", PSS_SHA384 \in o.sigs, FALSE))
     /\ rule("CurveIDs_Append_X25519", X25519 \in SeqRange(o.curves), t13)
     /\ rule("CurveIDs_Append_CurveP521", P521 \in SeqRange(o.curves), FALSE)
     /\ rule("Extensions_Append_Padding", has("UtlsPaddingExtension"), t13)
     /\ rule("Extensions_Append_Status", has("StatusRequestExtension"), FALSE)
     /\ rule("Extensions_Append_SCT", has("SCTExtension"), FALSE)
     /\ rule("Extensions_Append_Reneg", has("RenegotiationInfoExtension"), FALSE)
     /\ rule("Extensions_Append_EMS", has("ExtendedMasterSecretExtension"), FALSE)
     /\ (t13 => rule("FirstKeyShare_Set_CurveP256", o.ks # <<>> /\ o.ks[1] = P256, FALSE))
     /\ (t13 /\ has("ALPNExtension") => rule("Extensions_Append_ALPS", has("ApplicationSettingsExtension"), FALSE))
     /\ (w.CipherSuites_Remove_RandomCiphers = 0 =>
           Len(o.sc) = (IF t13 THEN N13 ELSE 0) + N12 + NOld + (IF t13 THEN 0 ELSE NRC4))
=============================================================================
