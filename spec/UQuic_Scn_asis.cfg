\* the parked callers of the mechanism AS CODED, as replayable scenarios (STUCK lines)
CONSTANTS
  FixEarlyReturn = FALSE
  Builds = {"ok", "noname", "unset", "minver12"}
  HRRs = {FALSE}
  MaxCut = 0
  Planned = TRUE
  Eager = TRUE
  MaxAt = 2
  EmitOn = TRUE
INIT MCInit
NEXT MCNext
CONSTRAINT EmitScn
CHECK_DEADLOCK FALSE
