----------------------------- MODULE UConnBuild -----------------------------
(***************************************************************************)
(* The build / edit / handshake life-cycle of a UConn (property C01):      *)
(*   the first ClientHello on the wire is exactly HandshakeState.Hello.Raw *)
(*   as rebuilt at handshake start, every documented edit made on a built  *)
(*   hello is visible in those bytes, and after the handshake Hello.Raw is *)
(*   the last ClientHello actually sent.                                   *)
(*                                                                         *)
(* Written to be bound: one action per implementation step                 *)
(*   ApplyPreset        u_parrots.go   UConn.ApplyPreset (HelloCustom)     *)
(*   Build(ls, ser)     u_conn.go      BuildHandshakeState /               *)
(*                                     BuildHandshakeStateWithoutSession   *)
(*                                     -> buildHandshakeState: applyPreset-*)
(*                                     ByID iff NotBuilt, ApplyConfig,     *)
(*                                     MarshalClientHello, status          *)
(*   Edit(c, always)    u_conn.go      SetClientRandom, SetSNI (any kind   *)
(*                                     of argument, see HostnameInSNI),    *)
(*                                     RemoveSNIExtension; direct edits of *)
(*                                     Hello.CipherSuites, Hello.SessionId,*)
(*                                     UConn.Extensions                    *)
(*   StartHandshake     u_conn.go      handshakeContext: the internal      *)
(*                                     BuildHandshakeState (hook H1 logs   *)
(*                                     Hello.Raw right after it)           *)
(*   SendCH1 / SendCH2  conn.go        writeHandshakeRecord of the hello   *)
(*                                     (hook H2 sees the message);         *)
(*                      handshake_client_tls13.go processHelloRetryRequest *)
(*                                     (MarshalClientHelloNoECH,           *)
(*                                      hs.hello.original = Hello.Raw)     *)
(*   BuildFails / StartFails           the same, MarshalClientHello fails: *)
(*                                     the error is returned, Hello.Raw is *)
(*                                     only assigned on success, Handshake *)
(*                                     returns before clientHandshake      *)
(*   ServerHRR / ServerHello           what the peer answers               *)
(*   Finish / Fail      u_handshake_client.go clientHandshake: deferred    *)
(*                                     copy of the private hello back into *)
(*                                     HandshakeState.Hello                *)
(*                                                                         *)
(* A serialisation is a record [id, img]: id is the identity of the byte   *)
(* string (the bytes themselves; byte equality is equality of ids) and img *)
(* its structure in the shape of TLSWire!ParseHello.  The abstract model   *)
(* (UConnBuild_MC) produces serialisations from its model of               *)
(* MarshalClientHello; the trace specification (UConnBuild_Trace) takes    *)
(* them from the bytes recorded on the real library.                       *)
(*                                                                         *)
(* What has to be visible is kept as a set of claims about the image       *)
(* (pending).  A claim is recorded for an edit made while the hello is     *)
(* protected from being overwritten: after BuildHandshakeState (status     *)
(* BuildByUtls), or - for HelloCustom - after the caller's ApplyPreset.    *)
(* BuildHandshakeState documents "[only once] make ClientHello based on ID *)
(* and overwrite existing state": applying the preset drops the claims on  *)
(* the overwritten fields.  SetSNI and RemoveSNIExtension act on the       *)
(* Config / on a flag of the UConn and are claimed whenever they are made. *)
(***************************************************************************)
EXTENDS TLSWire

VARIABLES cls,      \* "custom" (HelloCustom + ApplyPreset by the caller) or any other class name (preset chosen by id)
          status,   \* clientHelloBuildStatus: "NotBuilt" | "BuildByUtls"
          applied,  \* a preset has been applied (UConn.Extensions / Hello are populated)
          omitSNI,  \* UConn.omitSNIExtension
          pending,  \* claims every later serialisation must satisfy
          raw,      \* HandshakeState.Hello.Raw
          rebuilt,  \* Hello.Raw right after the internal BuildHandshakeState of Handshake (hook H1)
          wire,     \* ClientHellos put on the wire, in order
          sent,     \* Hello.Raw at the moment each of them was handed to the record layer
          hrrSeen,  \* a HelloRetryRequest arrived
          phase     \* "edit" | "start" | "ch1" | "hrr" | "ch2" | "sh" | "done" | "failed" | "refused"
bvars == <<cls, status, applied, omitSNI, pending, raw, rebuilt, wire, sent, hrrSeen, phase>>

NoSer == [id |-> "", img |-> BadHello]
S(id, img) == [id |-> id, img |-> img]

\* ------------------------------------------------------------------ the library's hostnameInSNI (handshake_client.go)
\* What a name becomes in the server_name extension: brackets and a zone are ignored for the test "is an IP literal",
\* literals give the empty name (= no server_name extension at all, RFC 6066), trailing dots are dropped.
\* The literal test is the textual form of RFC 4291 / dotted quad (no embedded IPv4), enough for any argument used here.
RECURSIVE StripDots(_)
StripDots(n) == IF n # <<>> /\ n[Len(n)] = 46 THEN StripDots(SubSeq(n, 1, Len(n) - 1)) ELSE n
Unbracket(n) == IF Len(n) >= 2 /\ n[1] = 91 /\ n[Len(n)] = 93 THEN SubSeq(n, 2, Len(n) - 1) ELSE n
DropZone(h) == LET I == {i \in 2..Len(h) : h[i] = 37} IN
               IF I = {} THEN h ELSE SubSeq(h, 1, (CHOOSE i \in I : \A j \in I : j <= i) - 1)
\* the pieces of h between separators c, as pairs <<first, last>> of positions
Pieces(h, c) == LET B == {0, Len(h) + 1} \cup {i \in DOMAIN h : h[i] = c} IN
                {<<a + 1, b - 1>> : <<a, b>> \in {p \in B \X B : p[1] < p[2] /\ ~\E x \in B : p[1] < x /\ x < p[2]}}
IsDigit(x) == x \in 48..57
IsHex(x) == x \in (48..57) \cup (65..70) \cup (97..102)
DecVal(h, a, b) == IF b - a = 0 THEN h[a] - 48 ELSE IF b - a = 1 THEN (h[a] - 48) * 10 + h[b] - 48
                   ELSE (h[a] - 48) * 100 + (h[a + 1] - 48) * 10 + h[b] - 48
IsIPv4(h) == /\ Cardinality({i \in DOMAIN h : h[i] = 46}) = 3
             /\ \A p \in Pieces(h, 46) : /\ p[2] >= p[1] /\ p[2] - p[1] <= 2
                                          /\ \A i \in p[1]..p[2] : IsDigit(h[i])
                                          /\ (p[2] > p[1] => h[p[1]] # 48)
                                          /\ DecVal(h, p[1], p[2]) <= 255
IsIPv6(h) == LET colons == {i \in DOMAIN h : h[i] = 58}
                 dbl == {i \in colons : i + 1 \in colons}                      \* where a "::" starts
                 groups == {p \in Pieces(h, 58) : p[2] >= p[1]} IN
             /\ \A i \in DOMAIN h : IsHex(h[i]) \/ h[i] = 58
             /\ \A p \in groups : p[2] - p[1] <= 3
             /\ Cardinality(dbl) <= 1
             /\ (h[1] = 58 => 1 \in dbl) /\ (h[Len(h)] = 58 => Len(h) - 1 \in dbl)
             /\ IF dbl = {} THEN Cardinality(colons) = 7 /\ Cardinality(groups) = 8
                ELSE Cardinality(groups) <= 7
HostnameInSNI(name) == LET host == DropZone(Unbracket(name)) IN
                       IF host # <<>> /\ (IsIPv4(host) \/ IsIPv6(host)) THEN <<>> ELSE StripDots(name)

\* ------------------------------------------------------------------ claims
SNIBody(name) == Vec16(<<0>> \o Vec16(name))
C(kind, key, t, v) == [kind |-> kind, key |-> key, t |-> t, v |-> v]
CRandom(r)      == C("random", <<"random">>, 0, r)
CSessionId(s)   == C("sid", <<"sid">>, 0, s)
CSuites(l)      == C("suites", <<"suites">>, 0, l)
CSNI(name)      == C("sni", <<"sni">>, 0, name)          \* name as the library normalises it (hostnameInSNI); empty: no extension
CNoSNI          == C("nosni", <<"nosni">>, 0, <<>>)
CExt(t, body)   == C("ext", <<"ext", t>>, t, body)        \* exactly one extension of type t, with this body
CNoExt(t)       == C("noext", <<"ext", t>>, t, <<>>)
CFront(ts)      == C("front", <<"front">>, 0, ts)         \* the extension list starts with these types
\* an edit after which the hello cannot be marshalled (what = <<"random">> for a client random of the wrong length: a later
\* SetClientRandom repairs it)
CUnbuildable(what) == C("unbuildable", what, 0, <<>>)
Front(p)        == IF \E c \in p : c.kind = "front" THEN (CHOOSE c \in p : c.kind = "front").v ELSE <<>>
Add(p, c)       == {x \in p : x.key # c.key} \cup {c}

Holds(c, img, p) ==
  IF ~img.ok THEN FALSE ELSE
  CASE c.kind = "random" -> img.random = c.v
    [] c.kind = "sid"    -> img.sid = c.v
    [] c.kind = "suites" -> img.suites = c.v
    [] c.kind = "sni"    -> IF CNoSNI \in p THEN TRUE
                            ELSE IF c.v = <<>> THEN ~HasExtT(img, 0)     \* a literal or the empty name is never indicated
                            ELSE Cardinality(ExtIdx(img, 0)) = 1 /\ ExtBody(img, 0) = SNIBody(c.v)
    [] c.kind = "nosni"  -> ~HasExtT(img, 0)
    [] c.kind = "ext"    -> Cardinality(ExtIdx(img, c.t)) = 1 /\ ExtBody(img, c.t) = c.v
    [] c.kind = "noext"  -> ~HasExtT(img, c.t)
    [] c.kind = "front"  -> Len(img.exts) >= Len(c.v) /\ SubSeq(ExtTypes(img), 1, Len(c.v)) = c.v
    [] c.kind = "unbuildable" -> TRUE      \* not a statement about an image: see WillFail
    [] OTHER -> FALSE
Broken(img, p) == {c \in p : ~Holds(c, img, p)}

\* ------------------------------------------------------------------ mechanism
Init0(c) == /\ cls = c /\ status = "NotBuilt" /\ applied = FALSE /\ omitSNI = FALSE /\ pending = {}
            /\ raw = NoSer /\ rebuilt = NoSer /\ wire = <<>> /\ sent = <<>> /\ hrrSeen = FALSE /\ phase = "edit"

\* edits of the hello are kept from now on
Protected == status = "BuildByUtls" \/ (cls = "custom" /\ applied)
\* the next buildHandshakeState applies the preset of the id (again) and overwrites Hello and Extensions
Reapplies == status = "NotBuilt" /\ cls # "custom"
Survives(c) == c.kind \in {"sni", "nosni"}
Kept(p) == {c \in p : Survives(c)}

\* The next buildHandshakeState returns an error from MarshalClientHello: a claimed edit made the hello unbuildable, or
\* the preset itself is (class "pskstrict": a PSK parrot without a session and without Config.OmitEmptyPsk, ErrEmptyPsk).
WillFail == cls = "pskstrict" \/ \E c \in (IF Reapplies THEN Kept(pending) ELSE pending) : c.kind = "unbuildable"

\* the caller of a HelloCustom UConn applies a spec
ApplyPreset ==
  /\ phase = "edit"
  /\ applied' = TRUE /\ pending' = Kept(pending)
  /\ UNCHANGED <<cls, status, omitSNI, raw, rebuilt, wire, sent, hrrSeen, phase>>

\* buildHandshakeState(loadSession); ser is the serialisation MarshalClientHello leaves in Hello.Raw
BuildCore(ls, ser) ==
  /\ pending' = IF Reapplies THEN Kept(pending) ELSE pending
  /\ applied' = (applied \/ cls # "custom")
  /\ status' = IF ls THEN "BuildByUtls" ELSE status     \* only a build that loads the session marks the hello as built
  /\ raw' = ser
Build(ls, ser) ==
  /\ phase = "edit" /\ ~WillFail
  /\ BuildCore(ls, ser)
  /\ UNCHANGED <<cls, omitSNI, rebuilt, wire, sent, hrrSeen, phase>>

\* buildHandshakeState returns the marshalling error: the preset may have been applied, Hello.Raw and the status stay
BuildFails ==
  /\ phase = "edit" /\ WillFail
  /\ pending' = IF Reapplies THEN Kept(pending) ELSE pending
  /\ applied' = (applied \/ cls # "custom")
  /\ UNCHANGED <<cls, status, omitSNI, raw, rebuilt, wire, sent, hrrSeen, phase>>

\* one documented edit; always: the edit does not live in Hello / Extensions (SetSNI, RemoveSNIExtension)
Edit(c, always) ==
  /\ phase = "edit"
  /\ pending' = IF Protected \/ always THEN Add(pending, c) ELSE pending
  /\ UNCHANGED <<cls, status, applied, raw, rebuilt, wire, sent, hrrSeen, phase>>
SetClientRandom(r) == Edit(CRandom(r), FALSE) /\ UNCHANGED omitSNI
SetSNI(norm)       == Edit(CSNI(norm), TRUE) /\ UNCHANGED omitSNI
RemoveSNI          == Edit(CNoSNI, TRUE) /\ omitSNI' = TRUE
EditSuites(l)      == Edit(CSuites(l), FALSE) /\ UNCHANGED omitSNI
EditSessionId(s)   == Edit(CSessionId(s), FALSE) /\ UNCHANGED omitSNI
\* a GenericExtension inserted at the head of UConn.Extensions
ExtInsert(t, body) == /\ phase = "edit"
                      /\ pending' = IF Protected THEN Add(Add(pending, CExt(t, body)), CFront(<<t>> \o Front(pending))) ELSE pending
                      /\ UNCHANGED <<cls, status, applied, omitSNI, raw, rebuilt, wire, sent, hrrSeen, phase>>
ExtRemove(t)       == Edit(CNoExt(t), FALSE) /\ UNCHANGED omitSNI
\* an edit of Hello / Extensions after which MarshalClientHello fails (two padding extensions, an extension whose Read
\* fails, a PSK extension with a malformed binder or empty without OmitEmptyPsk, a client random of the wrong length)
Break(what)        == Edit(CUnbuildable(what), FALSE) /\ UNCHANGED omitSNI
\* the ServerName field of the SNIExtension object in UConn.Extensions assigned directly (found: the list has one)
\* On a hello that is not protected the edit is not claimed, but it takes away what an earlier SetSNI claimed.
ExtSNIField(norm, found) ==
  IF ~found THEN UNCHANGED bvars
  ELSE /\ phase = "edit"
       /\ pending' = IF Protected THEN Add(pending, CSNI(norm)) ELSE {c \in pending : c.kind # "sni"}
       /\ UNCHANGED <<cls, status, applied, omitSNI, raw, rebuilt, wire, sent, hrrSeen, phase>>
\* a field of an extension object that is already in UConn.Extensions changed in place, the extension keeps its wire
\* length (an ALPN protocol renamed, bytes of a GenericExtension, an entry of supported_groups / supported_versions);
\* body: what the extension has to look like on the wire now (found: the list has such an extension)
InPlaceExt(t, body, found) == IF found THEN Edit(CExt(t, body), FALSE) /\ UNCHANGED omitSNI ELSE UNCHANGED bvars
\* the protocol list of the ALPN extension object replaced (found: the extension list has one)
ExtALPN(body, found) == IF found THEN Edit(CExt(16, body), FALSE) /\ UNCHANGED omitSNI ELSE UNCHANGED bvars

\* Another UConn - built from the same ClientHelloSpec value, or from a spec whose cipher-suite list shares its backing
\* array with this one's - is created, built or edited: nothing of this connection changes (ApplyPreset copies the list),
\* every claim of this connection stands
OtherConnection == phase = "edit" /\ UNCHANGED bvars

\* Handshake: the internal rebuild; ser is Hello.Raw right after it
StartHandshake(ser) ==
  /\ phase = "edit" /\ ~WillFail
  /\ BuildCore(TRUE, ser)
  /\ rebuilt' = ser /\ phase' = "start"
  /\ UNCHANGED <<cls, omitSNI, wire, sent, hrrSeen>>
\* Handshake: the internal rebuild fails; Handshake returns its error, nothing is written, Hello.Raw stays (obs)
StartFails(obs) ==
  /\ phase = "edit" /\ WillFail
  /\ pending' = IF Reapplies THEN Kept(pending) ELSE pending
  /\ applied' = (applied \/ cls # "custom")
  /\ raw' = obs /\ phase' = "refused"
  /\ UNCHANGED <<cls, status, omitSNI, rebuilt, wire, sent, hrrSeen>>
\* the first handshake record: w is what went to the transport, ser is Hello.Raw at that moment
SendCH1(ser, w) ==
  /\ phase = "start"
  /\ wire' = <<w>> /\ sent' = <<ser>> /\ phase' = "ch1"
  /\ UNCHANGED <<cls, status, applied, omitSNI, pending, raw, rebuilt, hrrSeen>>
ServerHRR ==
  /\ phase = "ch1" /\ ~hrrSeen
  /\ hrrSeen' = TRUE /\ phase' = "hrr"
  /\ UNCHANGED <<cls, status, applied, omitSNI, pending, raw, rebuilt, wire, sent>>
\* processHelloRetryRequest: key share replaced, cookie echoed, MarshalClientHelloNoECH, original = Hello.Raw, written
SendCH2(ser, w) ==
  /\ phase = "hrr"
  /\ raw' = ser /\ wire' = Append(wire, w) /\ sent' = Append(sent, ser) /\ phase' = "ch2"
  /\ UNCHANGED <<cls, status, applied, omitSNI, pending, rebuilt, hrrSeen>>
ServerHello ==
  /\ phase \in {"ch1", "ch2"}
  /\ phase' = "sh"
  /\ UNCHANGED <<cls, status, applied, omitSNI, pending, raw, rebuilt, wire, sent, hrrSeen>>
\* Handshake returned: obs is Hello.Raw after the deferred copy-back
Finish(obs) ==
  /\ phase = "sh"
  /\ raw' = obs /\ phase' = "done"
  /\ UNCHANGED <<cls, status, applied, omitSNI, pending, rebuilt, wire, sent, hrrSeen>>
\* a handshake may fail for reasons that are none of C01's business (C10, C19, C20 judge them)
Fail(obs) ==
  /\ phase \in {"edit", "start", "ch1", "hrr", "ch2", "sh"}
  /\ raw' = obs /\ phase' = "failed"
  /\ UNCHANGED <<cls, status, applied, omitSNI, pending, rebuilt, wire, sent, hrrSeen>>

\* ------------------------------------------------------------------ the property
\* every hello put on the wire equals Hello.Raw at that moment, the first one Hello.Raw as rebuilt at handshake start ...
WireIsRaw == /\ \A k \in DOMAIN wire : wire[k].id = sent[k].id
             /\ Len(wire) >= 1 => wire[1].id = rebuilt.id
\* ... every claimed edit is reflected in those bytes ...
EditsVisible == phase \notin {"edit"} /\ rebuilt # NoSer => Broken(rebuilt.img, pending) = {}
\* ... and after the handshake Hello.Raw is the last ClientHello sent (the second one after a HelloRetryRequest)
\* a hello that cannot be rebuilt is never sent: the handshake is refused before anything reaches the transport
\* (StartHandshake is not enabled then; a refused handshake has sent nothing and has no rebuilt hello)
NothingSentWhenRefused == phase = "refused" => (wire = <<>> /\ rebuilt = NoSer)
RawIsLastSent == phase = "done" => (Len(wire) >= 1 /\ raw.id = wire[Len(wire)].id /\ (hrrSeen => Len(wire) = 2))
=============================================================================
