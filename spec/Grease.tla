---------------------------- MODULE Grease ----------------------------
(***************************************************************************)
(* C04 - GREASE values are well-formed, distinct where required, fresh.    *)
(* Reserved spaces (RFC 8701, RFC 9000 18.1, RFC 9368 / RFC 9000 15):      *)
(*   TLS 16-bit code points  0x?A?A          (TLSWire!IsGrease16)          *)
(*   QUIC transport parameter ids 31*N+27     (IsGreaseTPId, on 8 bytes)    *)
(*   QUIC versions 0x?a?a?a?a                 (IsGreaseQuicVersion)         *)
(* Code: GetBoringGREASEValue u_tls_extensions.go:979, ApplyPreset          *)
(* u_parrots.go:2806-2817 (seed, ext1/ext2 de-duplication), 2856-2927       *)
(* (substitution), u_quic_transport_parameters.go:79 (GetGREASEID),         *)
(* :256 (GetGREASEVersion), :36 (TransportParameters.Marshal).              *)
(* TLC integers are 32 bit: 62-bit ids are 8-byte big-endian sequences.     *)
(***************************************************************************)
EXTENDS TLSWire

\* ---------- reserved spaces ----------
RECURSIVE ModBytes(_,_,_,_)
\* value of the big-endian byte string b[i..] modulo m, given the value r of b[1..i-1] modulo m
ModBytes(b, i, r, m) == IF i > Len(b) THEN r ELSE ModBytes(b, i + 1, (r * 256 + b[i]) % m, m)

GE27(b8) == (\E i \in 1..7 : b8[i] # 0) \/ b8[8] >= 27
\* id >= 27 /\ (id - 27) mod 31 = 0; for id >= 27 the latter is id mod 31 = 27
IsGreaseTPId(b8) == Len(b8) = 8 /\ IsBytes(b8) /\ GE27(b8) /\ ModBytes(b8, 1, 0, 31) = 27
\* a transport parameter id must also be encodable as a QUIC varint (< 2^62)
IsVarint62(b8) == b8[1] < 64

IsGreaseQuicVersion(b4) == Len(b4) = 4 /\ IsBytes(b4) /\ \A i \in 1..4 : b4[i] % 16 = 10

\* left-pad a big-endian byte string to 8 bytes
Pad8(b) == [i \in 1..(8 - Len(b)) |-> 0] \o b

\* ---------- QUIC transport parameter list ----------
\* parse b[i..] into <<[id8, val]>>; only called on lists for which TLSWire!TPListOK holds
RECURSIVE ParseTPs(_,_)
ParseTPs(b, i) ==
  IF i > Len(b) THEN <<>> ELSE
  LET n1 == VarintLenAt(b, i)
      n2 == VarintLenAt(b, i + n1)
      vl == VarintSmallAt(b, i + n1)
  IN << [id8 |-> Pad8(VarintBytesAt(b, i)), val |-> SubSeq(b, i + n1 + n2, i + n1 + n2 + vl - 1)] >>
     \o ParseTPs(b, i + n1 + n2 + vl)

Chunks4(v) == [k \in 1..(Len(v) \div 4) |-> SubSeq(v, 4*k - 3, 4*k)]

\* One marshaled list against the list of parameter kinds the caller asked for (kinds, avail are inputs of
\* the scenario, not expectations about values): every parameter requested as GREASE carries a reserved id,
\* every AvailableVersions entry requested as GREASE carries a reserved version.
TPBodyOK(kinds, avail, body) ==
  /\ IsBytes(body) /\ TPListOK(body, 1)
  /\ LET ps == ParseTPs(body, 1) IN
     /\ Len(ps) = Len(kinds)
     /\ \A i \in DOMAIN kinds :
          /\ kinds[i] \in {"grease", "greasebadid"} => IsGreaseTPId(ps[i].id8)
          /\ kinds[i] \in {"vi", "vilegacy"} =>
               /\ Len(ps[i].val) = 4 * (1 + Len(avail))
               /\ LET vs == Chunks4(ps[i].val) IN
                    \A j \in DOMAIN avail : avail[j] = "grease" => IsGreaseQuicVersion(vs[j + 1])

\* GREASETransportParameter with an IdOverride (u_quic_transport_parameters.go:92-97): a valid GREASE override is used as it
\* is, anything else is replaced by a generated id - whatever the override, the id returned and the id on the wire are
\* in the reserved space.  ov, id: 8-byte big-endian; body: TransportParameters{p}.Marshal() of a fresh parameter.
OverrideOK(ov, id, body) ==
  /\ IsGreaseTPId(id) /\ IsVarint62(id)
  /\ (IsGreaseTPId(ov) => id = ov)
  /\ IsBytes(body) /\ TPListOK(body, 1)
  /\ LET ps == ParseTPs(body, 1) IN
       /\ Len(ps) = 1 /\ IsGreaseTPId(ps[1].id8)
       /\ (IsGreaseTPId(ov) => ps[1].id8 = ov)

WhyTPBody(kinds, avail, body) ==
  IF ~(IsBytes(body) /\ TPListOK(body, 1)) THEN "list-malformed" ELSE
  LET ps == ParseTPs(body, 1) IN
  IF Len(ps) # Len(kinds) THEN "parameter-count"
  ELSE IF \E i \in DOMAIN kinds : kinds[i] \in {"grease", "greasebadid"} /\ ~IsGreaseTPId(ps[i].id8) THEN "id-not-grease"
  ELSE IF \E i \in DOMAIN kinds : kinds[i] \in {"vi", "vilegacy"} /\ Len(ps[i].val) # 4 * (1 + Len(avail)) THEN "version-information-length"
  ELSE "version-not-grease"

\* ---------- GREASE inside one ClientHello ----------
GreaseOf(s) == SelectSeq(s, IsGrease16)
ExtListU16(h, t, skip) == IF HasExtT(h, t) /\ Len(ExtBody(h, t)) >= skip
                          THEN U16Seq(SubSeq(ExtBody(h, t), skip + 1, Len(ExtBody(h, t)))) ELSE <<>>
ShareGroups(h) == IF HasExtT(h, 51) /\ IsVec16(ExtBody(h, 51)) /\ SharesOK(ExtBody(h, 51), 3)
                  THEN LET sh == ParseShares(ExtBody(h, 51), 3) IN [i \in DOMAIN sh |-> sh[i].group] ELSE <<>>

\* the GREASE values a parsed hello carries, by kind
HelloGrease(h) == [ cipher  |-> GreaseOf(h.suites),
                    group   |-> GreaseOf(ExtListU16(h, 10, 2)),
                    version |-> GreaseOf(ExtListU16(h, 43, 1)),
                    ext     |-> GreaseOf(ExtTypes(h)),
                    share   |-> GreaseOf(ShareGroups(h)) ]

\* the GREASE placeholders a spec descriptor (reflection dump) asks for, by kind
DescList(sp, kind, field) == LET I == {i \in DOMAIN sp.exts : sp.exts[i].kind = kind}
                             IN IF I = {} THEN <<>> ELSE sp.exts[CHOOSE i \in I : TRUE].f[field]
SpecGrease(sp) ==
  [ cipher  |-> Len(GreaseOf(sp.suites)),
    group   |-> Len(GreaseOf(DescList(sp, "SupportedCurvesExtension", "Curves"))),
    version |-> Len(GreaseOf(DescList(sp, "SupportedVersionsExtension", "Versions"))),
    ext     |-> Cardinality({i \in DOMAIN sp.exts : sp.exts[i].kind = "UtlsGREASEExtension"}),
    share   |-> LET ks == DescList(sp, "KeyShareExtension", "KeyShares")
                IN Cardinality({i \in DOMAIN ks : IsGrease16(ks[i].Group)}) ]

Kinds == {"cipher", "group", "version", "ext", "share"}

\* Per-hello statement of C04 for a hello sent from spec sp:
\*  - every placeholder of the spec became a well-formed GREASE value (as many 0x?A?A values per kind on the
\*    wire as the spec has placeholders),
\*  - the GREASE extension types are pairwise different,
\*  - every GREASE group in key_share is the GREASE group of supported_groups.
HelloGreaseOK(raw, sp) ==
  LET h == ParseHello(raw) g == HelloGrease(h) want == SpecGrease(sp) IN
  /\ h.ok /\ \A i \in DOMAIN h.exts : ~h.exts[i].bad
  /\ \A k \in Kinds : Len(g[k]) = want[k]
  /\ NoDupSeq(g.ext)
  /\ \A i \in DOMAIN g.share : \A j \in DOMAIN g.group : g.share[i] = g.group[j]

WhyHelloGrease(raw, sp) ==
  LET h == ParseHello(raw) g == HelloGrease(h) want == SpecGrease(sp) IN
  IF ~h.ok THEN "framing"
  ELSE IF \E k \in Kinds : Len(g[k]) # want[k] THEN <<"placeholder-not-grease", CHOOSE k \in Kinds : Len(g[k]) # want[k]>>
  ELSE IF ~NoDupSeq(g.ext) THEN "grease-extensions-equal"
  ELSE IF \E i \in DOMAIN g.share : \E j \in DOMAIN g.group : g.share[i] # g.group[j] THEN "keyshare-group-mismatch"
  ELSE "ok"

\* ApplyPreset repairs equal ext1/ext2 values by flipping bits 4 and 12 of the second seed (^= 0x1010);
\* used only to recognise (vacuity) that a recorded connection went through that branch.
FlipBit(x, k) == IF (x \div (2^k)) % 2 = 1 THEN x - 2^k ELSE x + 2^k
Xor1010(x) == FlipBit(FlipBit(x, 4), 12)

\* Freshness over one group of connections: at least 2 distinct values of each kind the spec uses.
\* With 16 equiprobable values and 64 connections a correct generator fails this with probability 16^-63.
FreshOK(seen, want) == \A k \in {"cipher", "group", "version", "ext", "share"} : want[k] > 0 => Cardinality(seen[k]) >= 2
=============================================================================
