------------------------------- MODULE Roller -------------------------------
(* C29.  Roller.Dial (u_roller.go:57-110): one action per step of the loop, for up to two concurrent callers
   sharing one Roller; the test server accepts the hellos of the IDs in `accept` and refuses the others.
   A behaviour is a history of STEPS; in a step 1 or 2 callers run Dial concurrently against a fixed server
   setting [accept, tcpFail]; between steps only WorkingHelloID survives. *)
EXTENDS Integers, Sequences, FiniteSets, TLC

CONSTANTS IDs,        \* the candidate ClientHelloIDs
          None,       \* "no working ID yet" (WorkingHelloID == nil)
          MaxSteps,   \* length of the Dial history
          MaxCallers  \* 1 or 2 concurrent callers per step

Callers == 1..MaxCallers

VARIABLES configured,  \* Roller.HelloIDs as a set (Dial shuffles its copy, the order in the Roller is immaterial)
          working,     \* Roller.WorkingHelloID
          accept, tcpFail, ncall, nsteps,   \* the environment of the current step
          pc,          \* per caller: "idle" | "shuffle" | "read" | "dial" | "hs" | "record" | "done"
          order,       \* helloIDs: the caller's private copy
          idx,         \* position of the loop
          rw,          \* workingHelloId as read under the mutex at the beginning of this call
          tried,       \* the hellos this call has sent (what the server saw), in order
          w0,          \* history: WorkingHelloID when the current step began
          result       \* [kind : "-" | "tcperr" | "hserr" | "ok", id : the ID of the returned connection or None]

vars == <<configured, working, accept, tcpFail, ncall, nsteps, pc, order, idx, rw, tried, w0, result>>

R(kind, id) == [kind |-> kind, id |-> id]
Perms(S) == {p \in [1..Cardinality(S) -> S] : \A i, j \in 1..Cardinality(S) : i # j => p[i] # p[j]}
Range(s) == {s[i] : i \in 1..Len(s)}
NoDup(s) == \A i, j \in 1..Len(s) : i # j => s[i] # s[j]
Swap1(s, i) == [s EXCEPT ![i] = s[1], ![1] = s[i]]
Pos(s, x) == CHOOSE i \in 1..Len(s) : s[i] = x

InitWith(conf, w) ==
  /\ configured = conf /\ working = w /\ w0 = w
  /\ accept = {} /\ tcpFail = FALSE /\ ncall = 0 /\ nsteps = 0
  /\ pc = [c \in Callers |-> "idle"] /\ order = [c \in Callers |-> << >>] /\ idx = [c \in Callers |-> 1]
  /\ rw = [c \in Callers |-> None] /\ tried = [c \in Callers |-> << >>] /\ result = [c \in Callers |-> R("-", None)]

\* the user may have configured any list and may have preset WorkingHelloID (an exported field), also to an ID that is not in the list
Init == \E conf \in (SUBSET IDs) \ {{}} : \E w \in IDs \cup {None} : InitWith(conf, w)

AllIdle == \A c \in Callers : pc[c] \in {"idle", "done"}

\* environment: the next step of the history: server setting and how many callers dial concurrently
BeginStep(acc, tf, n) ==
  /\ AllIdle /\ nsteps < MaxSteps
  /\ accept' = acc /\ tcpFail' = tf /\ ncall' = n /\ nsteps' = nsteps + 1
  /\ pc' = [c \in Callers |-> IF c <= n THEN "shuffle" ELSE "idle"]
  /\ order' = [c \in Callers |-> << >>] /\ idx' = [c \in Callers |-> 1] /\ rw' = [c \in Callers |-> None]
  /\ tried' = [c \in Callers |-> << >>] /\ result' = [c \in Callers |-> R("-", None)]
  /\ w0' = working
  /\ UNCHANGED <<configured, working>>

\* helloIDs := copy(c.HelloIDs); c.r.rand.Shuffle(...)                      (u_roller.go:58-62)
Shuffle(c) ==
  /\ pc[c] = "shuffle"
  /\ \E p \in Perms(configured) : order' = [order EXCEPT ![c] = p]
  /\ pc' = [pc EXCEPT ![c] = "read"]
  /\ UNCHANGED <<configured, working, accept, tcpFail, ncall, nsteps, idx, rw, tried, result, w0>>

\* HelloIDMu.Lock(); workingHelloId := c.WorkingHelloID; Unlock(); push it first / prepend it   (u_roller.go:64-81)
ReadWorking(c) ==
  /\ pc[c] = "read"
  /\ rw' = [rw EXCEPT ![c] = working]
  /\ order' = [order EXCEPT ![c] =
        IF working = None THEN @
        ELSE IF working \in Range(@) THEN Swap1(@, Pos(@, working))     \* helloIDs[i] = helloIDs[0]; helloIDs[0] = working
        ELSE << working >> \o @]                                        \* append([]ClientHelloID{working}, helloIDs...)
  /\ pc' = [pc EXCEPT ![c] = "dial"]
  /\ UNCHANGED <<configured, working, accept, tcpFail, ncall, nsteps, idx, tried, result, w0>>

\* for _, helloID := range helloIDs { tcpConn, err = net.DialTimeout(...); if err != nil { return nil, err }   (:85-89)
\* loop exhausted: return nil, err (the last handshake error)                                                     (:109)
TcpDial(c) ==
  /\ pc[c] = "dial"
  /\ IF idx[c] > Len(order[c]) THEN result' = [result EXCEPT ![c] = R("hserr", None)] /\ pc' = [pc EXCEPT ![c] = "done"]
     ELSE IF tcpFail THEN result' = [result EXCEPT ![c] = R("tcperr", None)] /\ pc' = [pc EXCEPT ![c] = "done"]
     ELSE pc' = [pc EXCEPT ![c] = "hs"] /\ UNCHANGED result
  /\ UNCHANGED <<configured, working, accept, tcpFail, ncall, nsteps, order, idx, rw, tried, w0>>

\* client := UClient(tcpConn, nil, helloID); SetSNI; err = client.Handshake(); if err != nil { continue }          (:91-98)
Handshake(c) ==
  /\ pc[c] = "hs"
  /\ tried' = [tried EXCEPT ![c] = Append(@, order[c][idx[c]])]
  /\ IF order[c][idx[c]] \in accept
     THEN pc' = [pc EXCEPT ![c] = "record"] /\ UNCHANGED idx
     ELSE pc' = [pc EXCEPT ![c] = "dial"] /\ idx' = [idx EXCEPT ![c] = @ + 1]
  /\ UNCHANGED <<configured, working, accept, tcpFail, ncall, nsteps, order, rw, result, w0>>

\* HelloIDMu.Lock(); c.WorkingHelloID = &client.ClientHelloID; Unlock(); return client, nil                        (:100-104)
Record(c) ==
  /\ pc[c] = "record"
  /\ working' = order[c][idx[c]]
  /\ result' = [result EXCEPT ![c] = R("ok", order[c][idx[c]])]
  /\ pc' = [pc EXCEPT ![c] = "done"]
  /\ UNCHANGED <<configured, accept, tcpFail, ncall, nsteps, order, idx, rw, tried, w0>>

CallerStep(c) == Shuffle(c) \/ ReadWorking(c) \/ TcpDial(c) \/ Handshake(c) \/ Record(c)
Next == \/ \E acc \in SUBSET IDs : \E tf \in BOOLEAN : \E n \in Callers : BeginStep(acc, tf, n)
        \/ \E c \in Callers : CallerStep(c)
Spec == Init /\ [][Next]_vars /\ \A c \in Callers : WF_vars(CallerStep(c))

---------------------------------------------------------------------------------------------------------
(* Properties *)
Ok(c) == result[c].kind = "ok"
\* a call starts with the working ID it found when it began
StartsWithWorking == \A c \in Callers : (rw[c] # None /\ tried[c] # << >>) => tried[c][1] = rw[c]
\* each ID at most once per call, and only configured IDs or the working one
AtMostOnce == \A c \in Callers : NoDup(tried[c]) /\ Range(tried[c]) \subseteq (configured \cup {rw[c]})
\* the first ID the server accepts ends the call and is the one returned; a call that fails has tried everything
FirstSuccess ==
  \A c \in Callers :
    /\ \A i \in 1..(Len(tried[c]) - 1) : tried[c][i] \notin accept
    /\ Ok(c) => (tried[c] # << >> /\ result[c].id = tried[c][Len(tried[c])] /\ result[c].id \in accept)
    /\ result[c].kind = "hserr" => (Range(tried[c]) = configured \cup ({rw[c]} \ {None}) /\ Range(tried[c]) \cap accept = {})
\* a TCP failure ends the call at once: no hello was sent and nothing else was tried
TcpErrorImmediate == \A c \in Callers : (result[c].kind = "tcperr" <=> (pc[c] = "done" /\ tcpFail)) /\ (tcpFail => tried[c] = << >>)
\* the recorded working ID is the ID of a successful call: after a step it is one of this step's successes, else unchanged
Recorded == AllIdle => (\/ \E c \in Callers : Ok(c) /\ working = result[c].id
                        \/ (\A c \in Callers : ~Ok(c)) /\ working = w0)
\* sequential histories: the next call starts with the ID the last successful call returned
SeqPrefers == (ncall = 1 /\ pc[1] = "done" /\ Ok(1)) => working = result[1].id
\* liveness: every Dial returns
Returns == \A c \in Callers : (pc[c] \notin {"idle", "done"}) ~> (pc[c] = "done")
=============================================================================
