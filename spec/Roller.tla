------------------------------- MODULE Roller -------------------------------
(* C29.  Roller.Dial (u_roller.go:57-110): one action per step of the loop, for up to two concurrent callers
   sharing one Roller.  A behaviour is a history of STEPS; in a step 1 or 2 callers run Dial concurrently against a
   fixed server setting; between steps only WorkingHelloID (and what the server has pinned) survives.

   A ClientHelloID is <<id, seed>>.  For a predefined parrot the seed is 0 and the pair IS the fingerprint.  For a
   randomized ID (RandIDs; HelloRandomized is in NewRoller's default list) seed 0 means "Seed == nil": the list entry
   is only a recipe, the concrete fingerprint <<id, s>>, s > 0, comes into being when the handshake of that attempt
   fills a fresh seed into the UConn's own ClientHelloID (u_parrots.go:2961-2967).  `working` is the CONCRETE
   fingerprint that worked: "Dial starts with the most recently working ClientHelloID" means that the first hello of
   the next Dial has that very fingerprint (same seed), not merely the same recipe.

   The test server accepts the parrots in `accept`, STALLS the ones in `stall` (it takes the TCP connection and the
   ClientHello and never answers: the attempt ends when Roller.TlsHandshakeTimeout expires) and refuses the others at
   once; randomized hellos according to `rmode`: "refuse" none, "stall" none (stalled), "any" all, "pin" only the
   concrete fingerprint of the randomized hello that succeeded first.  For the loop a stalled attempt is a failed
   attempt like any other: the NEXT ID gets its own full timeout (u_roller.go:93 sets the deadline per attempt); how
   long a call may take is judged on the recorded durations by Roller_Trace. *)
EXTENDS Integers, Sequences, FiniteSets, TLC

CONSTANTS IDs,        \* the candidate ClientHelloIDs (names)
          RandIDs,    \* the ones that are randomized recipes (subset of IDs)
          Stalls,     \* the sets of parrot IDs the environment may choose to stall in a step (subset of SUBSET (IDs \ RandIDs))
          Seeds,      \* seed numbers available for fresh randomized fingerprints (1..n)
          Canon,      \* TRUE: a fresh seed is the smallest unused one (state-space reduction); FALSE: any unused one
          MaxSteps,   \* length of the Dial history
          MaxCallers  \* 1 or 2 concurrent callers per step

Callers == 1..MaxCallers
None    == <<"-", 0>>                   \* WorkingHelloID == nil
E(id)   == <<id, 0>>                    \* a list entry / an unseeded ClientHelloID
IsRecipe(x)   == x[1] \in RandIDs /\ x[2] = 0
IsRandom(x)   == x[1] \in RandIDs
\* does the hello with concrete fingerprint f come from the ClientHelloID x
From(f, x) == f = x \/ (IsRecipe(x) /\ f[1] = x[1] /\ f[2] > 0)

VARIABLES configured,  \* Roller.HelloIDs as a set of entries <<id, 0>> (Dial shuffles its copy, the order is immaterial)
          working,     \* Roller.WorkingHelloID: None or <<id, seed>>
          accept, stall, rmode, tcpFail, ncall, nsteps,   \* the environment of the current step
          pinned,      \* seed of the randomized fingerprint the server has pinned (0: none yet)
          used,        \* seeds drawn so far
          dead,        \* seeds of randomized fingerprints whose handshake cannot succeed whatever the server's policy
                       \* (a randomized spec may be unusable, e.g. "tls: CurvePreferences includes unsupported curve")
          pc,          \* per caller: "idle" | "shuffle" | "read" | "dial" | "hs" | "record" | "done"
          order,       \* helloIDs: the caller's private copy
          idx,         \* position of the loop
          rw,          \* workingHelloId as read under the mutex at the beginning of this call
          cur,         \* client.ClientHelloID of the attempt in progress (concrete)
          tried,       \* the concrete fingerprints of the hellos this call has sent (what the server saw), in order
          w0,          \* history: WorkingHelloID when the current step began
          result       \* [kind : "-" | "tcperr" | "hserr" | "ok", id : ClientHelloID of the returned connection or None]

vars == <<configured, working, accept, stall, rmode, tcpFail, ncall, nsteps, pinned, used, dead, pc, order, idx, rw, cur, tried, w0, result>>

R(kind, id) == [kind |-> kind, id |-> id]
Perms(S) == {p \in [1..Cardinality(S) -> S] : \A i, j \in 1..Cardinality(S) : i # j => p[i] # p[j]}
Range(s) == {s[i] : i \in 1..Len(s)}
NoDup(s) == \A i, j \in 1..Len(s) : i # j => s[i] # s[j]
Swap1(s, i) == [s EXCEPT ![i] = s[1], ![1] = s[i]]
Pos(s, x) == CHOOSE i \in 1..Len(s) : s[i] = x
Min(S) == CHOOSE x \in S : \A y \in S : x <= y
Fresh == LET free == Seeds \ used IN IF Canon /\ free # {} THEN {Min(free)} ELSE free
RModes == IF RandIDs = {} THEN {"refuse"} ELSE {"refuse", "stall", "any", "pin"}

InitWith(conf, w) ==
  /\ configured = conf /\ working = w /\ w0 = w
  /\ accept = {} /\ stall = {} /\ rmode = "refuse" /\ tcpFail = FALSE /\ ncall = 0 /\ nsteps = 0 /\ pinned = 0 /\ used = {} /\ dead = {}
  /\ pc = [c \in Callers |-> "idle"] /\ order = [c \in Callers |-> << >>] /\ idx = [c \in Callers |-> 1]
  /\ rw = [c \in Callers |-> None] /\ cur = [c \in Callers |-> None]
  /\ tried = [c \in Callers |-> << >>] /\ result = [c \in Callers |-> R("-", None)]

\* the user may have configured any list and may have preset WorkingHelloID (an exported field), also to an ID that is
\* not in the list; a preset randomized ID is the unseeded recipe
Init == \E S \in (SUBSET IDs) \ {{}} : \E w \in {E(i) : i \in IDs} \cup {None} : InitWith({E(i) : i \in S}, w)

AllIdle == \A c \in Callers : pc[c] \in {"idle", "done"}

\* environment: the next step of the history: server setting and how many callers dial concurrently
BeginStep(acc, stl, rm, tf, n) ==
  /\ AllIdle /\ nsteps < MaxSteps /\ acc \cap stl = {}
  /\ accept' = acc /\ stall' = stl /\ rmode' = rm /\ tcpFail' = tf /\ ncall' = n /\ nsteps' = nsteps + 1
  /\ pc' = [c \in Callers |-> IF c <= n THEN "shuffle" ELSE "idle"]
  /\ order' = [c \in Callers |-> << >>] /\ idx' = [c \in Callers |-> 1] /\ rw' = [c \in Callers |-> None]
  /\ cur' = [c \in Callers |-> None]
  /\ tried' = [c \in Callers |-> << >>] /\ result' = [c \in Callers |-> R("-", None)]
  /\ w0' = working
  /\ UNCHANGED <<configured, working, pinned, used, dead>>

\* helloIDs := copy(c.HelloIDs); c.r.rand.Shuffle(...)                      (u_roller.go:58-62)
Shuffle(c) ==
  /\ pc[c] = "shuffle"
  /\ \E p \in Perms(configured) : order' = [order EXCEPT ![c] = p]
  /\ pc' = [pc EXCEPT ![c] = "read"]
  /\ UNCHANGED <<configured, working, accept, stall, rmode, tcpFail, ncall, nsteps, pinned, used, dead, idx, rw, cur, tried, result, w0>>

\* HelloIDMu.Lock(); workingHelloId := c.WorkingHelloID; Unlock(); push it first / prepend it   (u_roller.go:64-81)
\* `ID == *workingHelloId` compares the whole struct: a seeded working ID is not "found" among unseeded entries
ReadWorking(c) ==
  /\ pc[c] = "read"
  /\ rw' = [rw EXCEPT ![c] = working]
  /\ order' = [order EXCEPT ![c] =
        IF working = None THEN @
        ELSE IF working \in Range(@) THEN Swap1(@, Pos(@, working))     \* helloIDs[i] = helloIDs[0]; helloIDs[0] = working
        ELSE << working >> \o @]                                        \* append([]ClientHelloID{working}, helloIDs...)
  /\ pc' = [pc EXCEPT ![c] = "dial"]
  /\ UNCHANGED <<configured, working, accept, stall, rmode, tcpFail, ncall, nsteps, pinned, used, dead, idx, cur, tried, result, w0>>

\* for _, helloID := range helloIDs { tcpConn, err = net.DialTimeout(...); if err != nil { return nil, err }   (:85-89)
\* loop exhausted: return nil, err (the last handshake error)                                                     (:109)
TcpDial(c) ==
  /\ pc[c] = "dial"
  /\ IF idx[c] > Len(order[c]) THEN result' = [result EXCEPT ![c] = R("hserr", None)] /\ pc' = [pc EXCEPT ![c] = "done"]
     ELSE IF tcpFail THEN result' = [result EXCEPT ![c] = R("tcperr", None)] /\ pc' = [pc EXCEPT ![c] = "done"]
     ELSE pc' = [pc EXCEPT ![c] = "hs"] /\ UNCHANGED result
  /\ UNCHANGED <<configured, working, accept, stall, rmode, tcpFail, ncall, nsteps, pinned, used, dead, order, idx, rw, cur, tried, w0>>

Stalled(f) == IF IsRandom(f) THEN rmode = "stall" ELSE f[1] \in stall
ServerAccepts(f) == IF IsRandom(f) THEN rmode = "any" \/ (rmode = "pin" /\ pinned \in {0, f[2]})
                    ELSE f[1] \in accept

\* client := UClient(tcpConn, nil, helloID); SetSNI; err = client.Handshake(); if err != nil { continue }          (:91-98)
\* building the hello of an unseeded randomized ID draws a fresh seed into client.ClientHelloID (u_parrots.go:2961-2967)
Handshake(c) ==
  /\ pc[c] = "hs"
  /\ LET x == order[c][idx[c]] IN
     \E f \in (IF IsRecipe(x) THEN {<<x[1], s>> : s \in Fresh} ELSE {x}) :
     \E viable \in (IF IsRecipe(x) THEN BOOLEAN ELSE {f[2] \notin dead}) :      \* a fresh randomized spec may be unusable
       /\ cur' = [cur EXCEPT ![c] = f]
       /\ used' = used \cup ({f[2]} \ {0})
       /\ dead' = IF viable THEN dead ELSE dead \cup {f[2]}
       /\ tried' = [tried EXCEPT ![c] = Append(@, f)]
       /\ IF ServerAccepts(f) /\ viable
          THEN /\ pc' = [pc EXCEPT ![c] = "record"] /\ UNCHANGED idx
               /\ pinned' = IF IsRandom(f) /\ rmode = "pin" THEN f[2] ELSE pinned      \* the server pins the hello that succeeded first
          ELSE pc' = [pc EXCEPT ![c] = "dial"] /\ idx' = [idx EXCEPT ![c] = @ + 1] /\ UNCHANGED pinned
  /\ UNCHANGED <<configured, working, accept, stall, rmode, tcpFail, ncall, nsteps, order, rw, result, w0>>

\* HelloIDMu.Lock(); c.WorkingHelloID = &client.ClientHelloID; Unlock(); return client, nil                        (:100-104)
\* what is recorded is the UConn's own ClientHelloID: for a randomized ID that includes the seed that was drawn
Record(c) ==
  /\ pc[c] = "record"
  /\ working' = cur[c]
  /\ result' = [result EXCEPT ![c] = R("ok", cur[c])]
  /\ pc' = [pc EXCEPT ![c] = "done"]
  /\ UNCHANGED <<configured, accept, stall, rmode, tcpFail, ncall, nsteps, pinned, used, dead, order, idx, rw, cur, tried, w0>>

CallerStep(c) == Shuffle(c) \/ ReadWorking(c) \/ TcpDial(c) \/ Handshake(c) \/ Record(c)
Next == \/ \E acc \in SUBSET (IDs \ RandIDs) : \E stl \in Stalls : \E rm \in RModes : \E tf \in BOOLEAN : \E n \in Callers :
               BeginStep(acc, stl, rm, tf, n)
        \/ \E c \in Callers : CallerStep(c)
Spec == Init /\ [][Next]_vars /\ \A c \in Callers : WF_vars(CallerStep(c))

---------------------------------------------------------------------------------------------------------
(* Properties *)
Ok(c) == result[c].kind = "ok"
\* a call starts with the working ID it found when it began: its first hello has that fingerprint
StartsWithWorking == \A c \in Callers : (rw[c] # None /\ tried[c] # << >>) => From(tried[c][1], rw[c])
\* a working fingerprint that carries a seed is presented again with the same seed (not re-randomized)
SameSeedAgain == \A c \in Callers : (rw[c][2] > 0 /\ tried[c] # << >>) => tried[c][1] = rw[c]
\* each ID at most once per call (one hello per list entry / working ID), and only configured IDs or the working one
AtMostOnce == \A c \in Callers :
                 /\ NoDup(tried[c])
                 /\ \A i \in 1..Len(tried[c]) : \E x \in configured \cup {rw[c]} : From(tried[c][i], x)
                 /\ \A x \in configured \cup {rw[c]} :
                       Cardinality({i \in 1..Len(tried[c]) : tried[c][i] # rw[c] /\ From(tried[c][i], x)}) <= 1
\* the first hello the server accepts ends the call and is the one returned; a call that fails has tried everything
FirstSuccess ==
  \A c \in Callers :
    /\ \A i \in 1..(Len(tried[c]) - 1) : ~IsRandom(tried[c][i]) => tried[c][i][1] \notin accept
    /\ Ok(c) => (tried[c] # << >> /\ result[c].id = tried[c][Len(tried[c])] /\ (~IsRandom(result[c].id) => result[c].id[1] \in accept))
    /\ result[c].kind = "hserr" => \A i \in 1..Len(tried[c]) : ~IsRandom(tried[c][i]) => tried[c][i][1] \notin accept
    /\ result[c].kind = "hserr" => \A x \in configured \cup ({rw[c]} \ {None}) : \E i \in 1..Len(tried[c]) : From(tried[c][i], x)
\* a TCP failure ends the call at once: no hello was sent and nothing else was tried
TcpErrorImmediate == \A c \in Callers : (result[c].kind = "tcperr" <=> (pc[c] = "done" /\ tcpFail)) /\ (tcpFail => tried[c] = << >>)
\* the recorded working ID is the concrete ID of a successful call: after a step one of this step's successes, else unchanged
Recorded == AllIdle => (\/ \E c \in Callers : Ok(c) /\ working = result[c].id
                        \/ (\A c \in Callers : ~Ok(c)) /\ working = w0)
\* what was recorded after a success is a concrete fingerprint: a randomized working ID carries its seed
WorkingIsConcrete == (working # w0 /\ IsRandom(working)) => working[2] > 0
\* sequential histories: the next call starts with the ID the last successful call returned
SeqPrefers == (ncall = 1 /\ pc[1] = "done" /\ Ok(1)) => working = result[1].id
\* liveness: every Dial returns
Returns == \A c \in Callers : (pc[c] \notin {"idle", "done"}) ~> (pc[c] = "done")
=============================================================================
