CONSTANT ReadPolicy = "single"
CONSTANT MaxLen = 3
INIT Init
NEXT Next
INVARIANT Correct
CHECK_DEADLOCK FALSE
