CONSTANTS
  MaxLen = 3
INIT Init
NEXT Next
INVARIANT LawWeak
INVARIANT NonTrivial
INVARIANT Emit
PROPERTY LawMonotone
CHECK_DEADLOCK FALSE
