CONSTANTS
  Mode = "C19"
  MaxLen = 3
  PostLen = 0
  Deep = FALSE
  Prune = TRUE
INIT Init
NEXT Next
CONSTRAINT EmitAll
INVARIANT ModelOK
CHECK_DEADLOCK FALSE
