INIT Init
NEXT Next
INVARIANT PolicyInvariants
CONSTRAINT Report
CHECK_DEADLOCK FALSE
