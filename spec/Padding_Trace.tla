--------------------------- MODULE Padding_Trace ---------------------------
(***************************************************************************)
(* Trace validation for C05.  pad_trace.ndjson has one row per observed    *)
(* wire ClientHello:                                                       *)
(*   [sc, kind |-> "hello", id, raw, cap |-> <<>>]   a real UConn of parrot *)
(*        id (ALPN edited / ticket injected / SNI length chosen by         *)
(*        Padding_MC); the declared policy is read from specs.json         *)
(*   [sc, kind |-> "recap", id, raw, cap]   raw = hello B sent by a spec    *)
(*        fingerprinted (FingerprintClientHello, ApplyPreset) from the     *)
(*        capture cap; the declared policy is PadToLen(Len(cap))           *)
(* For every row the assembly of Padding.tla is replayed FROM THE WIRE:    *)
(*   Load   = Begin(header parsed from raw); AddExtension(4+Len(body)) for  *)
(*            every non-padding extension parsed from raw (u never comes   *)
(*            from the harness or from the model's own prediction)         *)
(*   Judge  = ApplyPadding, then the decided padding is compared with the  *)
(*            padding extension(s) actually on the wire.                   *)
(* Rows the specification does not explain are collected in rej (the batch *)
(* is always read to its end).                                             *)
(***************************************************************************)
EXTENDS Parrots, Padding

Trace == ndJsonDeserialize("pad_trace.ndjson")

VARIABLES l, rej, hits, seen,
          wpads,   \* body lengths of the padding extensions found on the wire (in order)
          wflaws   \* other defects of the wire hello that the policy forbids
tvars == <<l, rej, hits, seen, wpads, wflaws>>

PadStyle(sp) == IF HasExt(sp, "UtlsPaddingExtension") THEN TheExt(sp, "UtlsPaddingExtension").style ELSE "absent"
Declared(ev) ==
  IF ev.kind = "recap" THEN PPadTo(Len(ev.cap))
  ELSE IF ev.id \notin IDs THEN PCaptured
  ELSE CASE PadStyle(Specs[ev.id]) = "boring" -> PBoring
         [] PadStyle(Specs[ev.id]) = "absent" -> PNone
         [] OTHER -> PCaptured       \* a style this specification has no statement about

HeaderOf(h) == 4 + 2 + 32 + 1 + Len(h.sid) + 2 + 2 * Len(h.suites) + 1 + Len(h.comp) + (IF h.hasExts THEN 2 ELSE 0)
NonPadLens(h) == LET np == SelectSeq(h.exts, LAMBDA e : e.type # 21) IN [i \in DOMAIN np |-> 4 + Len(np[i].body)]
PadBodies(h) == LET pp == SelectSeq(h.exts, LAMBDA e : e.type = 21) IN [i \in DOMAIN pp |-> pp[i].body]
SNILen(h) == IF HasExtT(h, 0) /\ Len(ExtBody(h, 0)) >= 5 THEN Len(ExtBody(h, 0)) - 5 ELSE -1

\* everything Load needs from one parse of the wire hello (operator arguments are evaluated once by TLC, LET bodies at every use)
FactsP(h, pb, n) ==
  [ok |-> TRUE, header |-> HeaderOf(h), lens |-> NonPadLens(h),
   pads |-> [i \in DOMAIN pb |-> Len(pb[i])], zero |-> \A i \in DOMAIN pb : AllZero(pb[i]),
   sni |-> SNILen(h), total |-> n]
FactsH(h, n) ==
  IF ~h.ok \/ \E i \in DOMAIN h.exts : h.exts[i].bad
  THEN [ok |-> FALSE, header |-> 0, lens |-> <<>>, pads |-> <<>>, zero |-> TRUE, sni |-> -1, total |-> n]
  ELSE FactsP(h, PadBodies(h), n)
Facts(raw) == FactsH(ParseHello(raw), Len(raw))

CapFacts(ev) == IF ev.kind = "recap" THEN Facts(ev.cap) ELSE Facts(<<>>)

Init == PInit /\ l = 1 /\ rej = {} /\ hits = {} /\ seen = [padded |-> 0, unpadded |-> 0, recap |-> 0, onebyte |-> 0] /\ wpads = <<>> /\ wflaws = {}

\* Padding!Assemble = Begin + AddExtension* in one step, everything taken from the wire
LoadWith(ev, f, cf) ==
  /\ Assemble(f.header, f.lens, Declared(ev))
  /\ wpads' = f.pads
  /\ wflaws' = (IF ~f.ok THEN {"framing"} ELSE {})
               \cup (IF ~f.zero THEN {"nonzero-padding-body"} ELSE {})
               \cup (IF Len(f.pads) > 1 THEN {"duplicate-padding-extension"} ELSE {})
               \cup (IF f.ok /\ f.header + SumSeq(f.lens) + SumSeq([i \in DOMAIN f.pads |-> 4 + f.pads[i]]) # f.total THEN {"length-accounting"} ELSE {})
               \* fingerprinted from a capture with a non-empty padding extension, same server-name length: same total length
               \cup (IF ev.kind = "recap" /\ cf.ok /\ Len(cf.pads) = 1 /\ cf.pads[1] >= 1 /\ cf.sni = f.sni /\ cf.total # f.total
                     THEN {"captured-length-not-reproduced"} ELSE {})
               \cup (IF ev.kind = "recap" /\ ~(cf.ok /\ Len(cf.pads) = 1) THEN {"premise:capture-not-padded"} ELSE {})

Load == /\ l <= Len(Trace) /\ phase = "idle"
        /\ \E f \in {Facts(Trace[l].raw)} : \E cf \in {CapFacts(Trace[l])} : LoadWith(Trace[l], f, cf)
        /\ UNCHANGED <<l, rej, hits, seen>>

Flaws(p) == wflaws \cup (IF p = NoPad /\ wpads # <<>> THEN {"padding-sent-against-policy"} ELSE {})
                   \cup (IF p # NoPad /\ wpads = <<>> THEN {"padding-missing"} ELSE {})
                   \cup (IF p # NoPad /\ wpads # <<>> /\ wpads[1] # p THEN {"wrong-padding-length"} ELSE {})

Judge == /\ l <= Len(Trace) /\ phase = "assembling"
         /\ ApplyPadding
         /\ LET p == PolicyBody(policy, u)
                fl == Flaws(p)
                ev == Trace[l] IN
            /\ rej' = IF fl = {} THEN rej ELSE rej \cup {<<ev.sc, fl, u, wpads>>}
            /\ hits' = IF ev.kind = "hello" THEN hits \cup {<<ev.sc, u>>} ELSE hits
            /\ seen' = [padded |-> seen.padded + (IF ev.kind = "hello" /\ wpads # <<>> THEN 1 ELSE 0),
                        unpadded |-> seen.unpadded + (IF ev.kind = "hello" /\ wpads = <<>> THEN 1 ELSE 0),
                        recap |-> seen.recap + (IF ev.kind = "recap" /\ wpads # <<>> THEN 1 ELSE 0),
                        onebyte |-> seen.onebyte + (IF wpads = <<1>> THEN 1 ELSE 0)]
         /\ UNCHANGED <<l, wpads, wflaws>>

\* next row
Advance == /\ l <= Len(Trace) /\ phase = "padded"
           /\ phase' = "idle" /\ u' = 0 /\ pad' = NoPad /\ policy' = PNone /\ cap' = 0
           /\ l' = l + 1 /\ wpads' = <<>> /\ wflaws' = {}
           /\ UNCHANGED <<rej, hits, seen>>

Next == Load \/ Judge \/ Advance

Report == (l = Len(Trace) + 1) =>
            /\ PrintT(<<"DONE", l - 1>>)
            /\ PrintT(<<"SEEN", ToJson(seen)>>)
            /\ PrintT(<<"HITS", ToJson(hits)>>)
            /\ \A r \in rej : PrintT(<<"REJ", ToJson(r)>>)
=============================================================================
