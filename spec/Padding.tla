------------------------------ MODULE Padding ------------------------------
(***************************************************************************)
(* C05 - the padding policy of a ClientHello and the assembly of a hello   *)
(* as far as its length is concerned.                                      *)
(*                                                                         *)
(* Policies are total functions from the unpadded length u of the          *)
(* handshake message (4-byte handshake header included, padding extension  *)
(* excluded) to the length of the padding extension body, NoPad when no    *)
(* padding extension is sent:                                              *)
(*   BoringBody      BoringPaddingStyle         u_tls_extensions.go:1111   *)
(*   PadToLenBody(L) AlwaysPadToLen(L)          u_tls_extensions.go:1126   *)
(*                   (installed by FromRaw with L = len(raw)-5 = length of *)
(*                    the captured handshake message, u_common.go:567)     *)
(* Assembly state machine (one action per implementation step):            *)
(*   Begin(h)        header: type+len, version, random, session id,        *)
(*                   suites, compression, extensions length  (u_conn.go    *)
(*                   MarshalClientHelloNoECH: headerLength + 4 + 2)        *)
(*   AddExtension(n) one non-padding extension of n bytes (ext.Len())      *)
(*   SetSNI(L)       the server_name extension for a name of L bytes       *)
(*                   (ApplyConfig: SNIExtension.ServerName)                *)
(*   ApplyPadding    paddingExt.Update(u) (u_conn.go:620)                  *)
(*   Reassemble(d)   the same UConn marshals its hello again after an edit *)
(*                   that changes the unpadded length by d: SetSNI to a    *)
(*                   shorter/longer name + MarshalClientHello, or the      *)
(*                   second ClientHello after a HelloRetryRequest (one     *)
(*                   key share of the requested group instead of the       *)
(*                   offered ones); the policy is applied afresh           *)
(*   Refingerprint   the padded hello is captured and fingerprinted:       *)
(*                   the policy becomes PadToLen(total)                    *)
(* The module is bound to the code by Padding_MC (scenarios) and           *)
(* Padding_Trace (u recomputed from the parsed wire hello).                *)
(***************************************************************************)
EXTENDS Integers, Sequences, FiniteSets

NoPad == -1

\* ---------- the policies as total functions ----------
BoringBody(u) ==
  IF u > 255 /\ u < 512
  THEN (IF 512 - u >= 5 THEN 512 - u - 4 ELSE 1)
  ELSE NoPad

PadToLenBody(L, u) ==
  IF u < L
  THEN (IF L - u >= 5 THEN L - u - 4 ELSE 1)
  ELSE NoPad

\* a policy is [kind |-> "boring"], [kind |-> "padto", len |-> L] or [kind |-> "none"] (no padding extension in the spec)
PBoring == [kind |-> "boring", len |-> 0]
PPadTo(L) == [kind |-> "padto", len |-> L]
PNone == [kind |-> "none", len |-> 0]
PCaptured == [kind |-> "captured", len |-> 0]   \* a hello that was not assembled by a declared policy (a capture)
PolicyBody(p, u) == CASE p.kind = "boring" -> BoringBody(u)
                      [] p.kind = "padto" -> PadToLenBody(p.len, u)
                      [] OTHER -> NoPad

\* length of the handshake message that goes on the wire
Total(u, body) == IF body = NoPad THEN u ELSE u + 4 + body

SNIExtLen(L) == 4 + 2 + 1 + 2 + L    \* header, list length, name type, name length, name

\* ---------- assembly state machine ----------
VARIABLES phase,   \* "idle" | "assembling" | "padded"
          u,       \* unpadded length so far
          pad,     \* decided padding body length (NoPad before ApplyPadding)
          policy,  \* the declared policy of the spec being assembled
          cap      \* 0, or the total length of the padded capture this spec was fingerprinted from

pvars == <<phase, u, pad, policy, cap>>

PInit == phase = "idle" /\ u = 0 /\ pad = NoPad /\ policy = PNone /\ cap = 0

Begin(headerLen, pol) ==
  /\ phase = "idle"
  /\ phase' = "assembling" /\ u' = headerLen /\ policy' = pol /\ pad' = NoPad /\ cap' = 0

RECURSIVE SumSeq(_)
SumSeq(s) == IF s = <<>> THEN 0 ELSE Head(s) + SumSeq(Tail(s))

\* Begin followed by one AddExtension(lens[i]) per element of lens, taken at once (used by the trace specification,
\* where the lengths are those of the extensions parsed from the wire)
Assemble(headerLen, lens, pol) ==
  /\ phase = "idle"
  /\ phase' = "assembling" /\ u' = headerLen + SumSeq(lens) /\ policy' = pol /\ pad' = NoPad /\ cap' = 0

AddExtension(n) ==
  /\ phase = "assembling"
  /\ u' = u + n
  /\ UNCHANGED <<phase, pad, policy, cap>>

SetSNI(L) ==
  /\ phase = "assembling"
  /\ u' = u + SNIExtLen(L)
  /\ UNCHANGED <<phase, pad, policy, cap>>

ApplyPadding ==
  /\ phase = "assembling"
  /\ phase' = "padded"
  /\ pad' = PolicyBody(policy, u)
  /\ UNCHANGED <<u, policy, cap>>

\* the hello is marshaled again by the same UConn with an unpadded length changed by delta (same declared policy)
Reassemble(delta) ==
  /\ phase = "padded" /\ cap = 0 /\ u + delta >= 0
  /\ phase' = "assembling" /\ u' = u + delta /\ pad' = NoPad
  /\ UNCHANGED <<policy, cap>>

\* a capture whose padding extension has a body of p bytes (any style, e.g. a browser that is not BoringSSL)
CaptureWith(p) ==
  /\ phase = "assembling"
  /\ phase' = "padded" /\ pad' = p /\ policy' = PCaptured
  /\ UNCHANGED <<u, cap>>

\* FingerprintClientHello + ApplyPreset with a server name of the captured length: same u, policy PadToLen(total)
Refingerprint ==
  /\ phase = "padded" /\ pad # NoPad /\ cap = 0
  /\ phase' = "assembling" /\ cap' = Total(u, pad) /\ policy' = PPadTo(Total(u, pad)) /\ pad' = NoPad
  /\ UNCHANGED u

\* ---------- invariants of the policy (the statement of C05 in terms of u) ----------
Padded == phase = "padded"
Boring == Padded /\ policy.kind = "boring" /\ cap = 0
InGap(x) == x > 255 /\ x < 512

\* 255 < u < 512 and at least 5 bytes missing: padded to exactly 512
PadsTo512 == Boring /\ InGap(u) /\ 512 - u >= 5 => Total(u, pad) = 512
\* fewer than 5 bytes missing: padding extension with a one-byte body
OneByteBody == Boring /\ InGap(u) /\ 512 - u < 5 => pad = 1
\* any other length: no padding extension
NoPadOutside == Boring /\ ~InGap(u) => pad = NoPad /\ Total(u, pad) = u
\* consequence: no hello of a BoringSSL-padded spec has a length in the gap
NeverInGap == Boring => ~InGap(Total(u, pad))
\* a policy never decides an empty padding body
BodySane == Padded /\ pad # NoPad => pad >= 1
\* no padding extension in the spec: never padded
NonePolicy == Padded /\ policy.kind = "none" /\ cap = 0 => pad = NoPad
\* fingerprinted from a capture with a non-empty padding extension + same unpadded length: captured total reproduced
RecapSameLen == Padded /\ cap # 0 => Total(u, pad) = cap
\* PadToLen in general
PadToPolicy == Padded /\ policy.kind = "padto" =>
                 /\ (u < policy.len /\ policy.len - u >= 5 => Total(u, pad) = policy.len)
                 /\ (u < policy.len /\ policy.len - u < 5 => pad = 1)
                 /\ (u >= policy.len => pad = NoPad)

PolicyInvariants == PadsTo512 /\ OneByteBody /\ NoPadOutside /\ NeverInGap /\ BodySane /\ NonePolicy /\ RecapSameLen /\ PadToPolicy
=============================================================================
