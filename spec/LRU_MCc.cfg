\* concurrent device check: 2 goroutines x MaxLen calls, all interleavings of call / linearise / return
CONSTANTS
  Keys = {1, 2}
  Caps = {1, 2}
  MaxLen = 2
  NilPuts = TRUE
  Canon = FALSE
  Conc = TRUE
  Threads = {1, 2}
INIT Init
NEXT Next
INVARIANTS InvBounded InvUniqueKeys InvNoNilStored LinExplains RealTime
CHECK_DEADLOCK FALSE
