---------------------------- MODULE UConnBuild_MC ----------------------------
(***************************************************************************)
(* Bounded exhaustive configuration of UConnBuild.                         *)
(* Adds an abstract model of the content of the hello (Hello fields and    *)
(* UConn.Extensions as small byte strings) and of MarshalClientHello, so   *)
(* that the invariants of UConnBuild are checked on the mechanism as it is *)
(* coded, and enumerates                                                   *)
(*   every sequence of at most MaxLen mutators (the kinds in Kinds; the    *)
(*   k-th mutator of a path uses the k-th value of its kind, except in the *)
(*   SNI configurations, where SetSNI and the direct edit of the           *)
(*   SNIExtension take every argument class)                               *)
(*   x explicit build mode (never / BuildHandshakeState before /           *)
(*     BuildHandshakeStateWithoutSession before / before and after)        *)
(*   x server (plain / HelloRetryRequest / HelloRetryRequest with cookie)  *)
(*   x class of ClientHelloID (parrot, shuffling parrot, randomized,       *)
(*     custom spec, PSK parrot without / with a cached TLS 1.3 session;    *)
(*     in the "brk" configuration also a PSK parrot whose Config lacks     *)
(*     OmitEmptyPsk, whose every build fails, and the edits that make the  *)
(*     hello unbuildable).                                                 *)
(* Every path is printed as a scenario (SCN) and replayed on the real      *)
(* library by harness/cmd/uconn; the values of the edits are chosen here.  *)
(*                                                                         *)
(* FixRemoveSNI = FALSE models RemoveSNIExtension as found in the tree at  *)
(* design time (only a flag, read when the preset is applied): TLC then    *)
(* reports EditsVisible violated (cfg UConnBuild_MC_asis).                 *)
(***************************************************************************)
EXTENDS UConnBuild, Json

CONSTANTS MaxLen, Classes, Servers, Modes, FixRemoveSNI,
          Kinds,       \* the mutator kinds of this configuration
          SNIAll,      \* TRUE: SetSNI / the direct edit range over every argument class, FALSE: the k-th mutator takes the k-th name
          SkipVerify   \* the client does not verify the certificate (names no certificate carries)

VARIABLES srv, mode, sess, step, nmut, hist,   \* scenario (sess: a TLS 1.3 session for the server is cached) and path
          cfgSNI, hello, exts, gen, order      \* content: Config.ServerName, Hello fields, UConn.Extensions, freshness, shuffle
mvars == <<srv, mode, sess, step, nmut, hist, cfgSNI, hello, exts, gen, order>>

\* ------------------------------------------------------------------ values of the edits (k = position in the path)
Example  == <<101,120,97,109,112,108,101,46,99,111,109>>                       \* example.com
Names    == << <<101,100,105,116,101,100,46,101,120,97,109,112,108,101>>,      \* edited.example
               <<115,101,99,111,110,100,46,101,120,97,109,112,108,101,46>>,    \* second.example.   (absolute)
               <<116,104,105,114,100,46,101,120,97,109,112,108,101>>,          \* third.example
               <<102,111,117,114,116,104,46,101,120,97,109,112,108,101,46,46>> >>  \* fourth.example..
H2       == <<104,50>>
HTTP11   == <<104,116,116,112,47,49,46,49>>
SPDY     == <<115,112,100,121,47,51,46,49>>
RandV(k) == [i \in 1..32 |-> (37 * k + 5 * i) % 256]
SidV(k)  == CASE k = 1 -> [i \in 1..16 |-> 16 * k + i] [] k = 2 -> <<>> [] k = 3 -> [i \in 1..32 |-> 255 - i] [] OTHER -> [i \in 1..8 |-> i]
SuiteOp(k) == CASE k = 1 -> [kind |-> "append", v |-> 255, list |-> <<>>]
                [] k = 2 -> [kind |-> "droplast", v |-> 0, list |-> <<>>]
                [] k = 3 -> [kind |-> "set", v |-> 0, list |-> <<4865, 4866, 4867, 49195, 49199, 49196, 49200, 52393, 52392, 156, 47>>]
                [] OTHER -> [kind |-> "append", v |-> 10, list |-> <<>>]
InsId(k)   == 65000 + k
InsData(k) == IF k = 2 THEN <<>> ELSE [i \in 1..(2 * k + 1) |-> (k * 16 + i) % 256]
RemT(k)    == <<5, 16, 18, 27>>[k]
AlpnV(k)   == CASE k = 1 -> <<HTTP11>> [] k = 2 -> <<H2>> [] k = 3 -> <<H2, HTTP11, SPDY>> [] OTHER -> <<SPDY, H2>>
Cookie     == [i \in 1..24 |-> 192 + i]

\* the library's hostnameInSNI on host names: trailing dots are dropped
\* argument classes of SetSNI: another DNS name, the configured name, IPv4 literal, bracketed and plain IPv6 literal,
\* the empty name, a name with a trailing dot, a 253-byte name
Long253 == [i \in 1..253 |-> IF i % 64 = 0 THEN 46 ELSE 97 + (i % 23)]
SNIArgs == << Names[1], Example, <<49,48,46,48,46,48,46,49>>,                                   \* 10.0.0.1
              <<91,50,48,48,49,58,100,98,56,58,58,49,93>>, <<50,48,48,49,58,100,98,56,58,58,49>>, \* [2001:db8::1]  2001:db8::1
              <<>>, Names[2], Long253 >>
\* values assigned directly to SNIExtension.ServerName
FieldArgs == << Names[3], <<49,57,50,46,49,54,56,46,49,46,50,53,53>>, <<>>, Names[4] >>            \* 192.168.1.255
SNIChoice   == IF SNIAll THEN SNIArgs ELSE Names
FieldChoice == IF SNIAll THEN FieldArgs ELSE Names
\* hostnameInSNI of every argument (constant tables)
SNINorm     == [i \in DOMAIN SNIChoice |-> HostnameInSNI(SNIChoice[i])]
FieldNorm   == [i \in DOMAIN FieldChoice |-> HostnameInSNI(FieldChoice[i])]

\* ------------------------------------------------------------------ abstract content
X(t, b) == [type |-> t, body |-> b, omit |-> FALSE]
XS(name) == [type |-> 0, body |-> SNIBody(name), omit |-> name = <<>>]   \* SNIExtension: nothing is written for an empty name
Fresh(tag, g) == <<tag, g>>
SpecSuites == <<2570, 4865, 4866, 4867, 49195, 49199, 52393, 156, 47>>
\* the extension objects a preset puts into UConn.Extensions; the SNI extension takes Config.ServerName
BaseExts(name, g) ==
  << X(2570, <<>>), XS(name), X(23, <<>>), X(10, <<0,6,10,10,0,29,0,23>>), X(16, Vec16(ProtoList(<<H2, HTTP11>>))),
     X(5, <<1,0,0,0,0>>), X(18, <<>>), X(51, Fresh(51, g)), X(43, <<2,3,4>>), X(27, <<2,0,2>>), X(21, <<0,0>>) >>
Swap(s, i, j) == [s EXCEPT ![i] = s[j], ![j] = s[i]]
\* pre_shared_key stays last; without a session OmitEmptyPsk leaves it out, with one its binders are patched into the
\* marshalled hello (uApplyPatch)
SpecExts(c, ord, name, g) ==
  LET b == BaseExts(name, g)
      sh == IF c = "shuffle" /\ ord = 2 THEN Swap(Swap(b, 2, 8), 4, 6) ELSE b   \* GREASE and padding keep their place
  IN IF c = "custom" THEN SubSeq(b, 1, 10) \o <<X(65300, <<1,2,3,4>>)>> \o <<b[11]>>   \* the custom spec has a GenericExtension
     ELSE IF c \in {"psk", "pskstrict"} THEN sh \o << [type |-> 41, body |-> IF sess THEN Fresh(41, g) ELSE <<>>, omit |-> ~sess] >>
     ELSE sh
EmptyHello == [random |-> <<>>, sid |-> <<>>, suites |-> <<>>]
PresetHello(g) == [random |-> Fresh(1, g), sid |-> Fresh(2, g), suites |-> SpecSuites]
NoSNI(es) == SelectSeq(es, LAMBDA e : e.type # 0)

\* MarshalClientHello: Hello fields and the extension list in order (padding and an empty PSK may be left out)
Ser(h, es) ==
  LET vis == SelectSeq(es, LAMBDA e : ~e.omit)
      img == [ok |-> TRUE, vers |-> 771, random |-> h.random, sid |-> h.sid, suites |-> h.suites, comp |-> <<0>>,
              exts |-> [i \in DOMAIN vis |-> [bad |-> FALSE, type |-> vis[i].type, body |-> vis[i].body]], hasExts |-> vis # <<>>]
  IN S(img, img)

\* state of Hello / Extensions after buildHandshakeState: applyPresetByID iff NotBuilt (not for HelloCustom), then
\* removeSNIExtension iff the flag is set
PostBuild ==
  IF Reapplies
  THEN [hello |-> PresetHello(gen + 1),
        exts |-> IF omitSNI THEN NoSNI(SpecExts(cls, order, cfgSNI, gen + 1)) ELSE SpecExts(cls, order, cfgSNI, gen + 1),
        gen |-> gen + 1]
  ELSE [hello |-> hello, exts |-> IF omitSNI /\ status = "NotBuilt" THEN NoSNI(exts) ELSE exts, gen |-> gen]

\* ------------------------------------------------------------------ scenario
Init == /\ \E c \in Classes : Init0(c)
        /\ srv \in Servers /\ mode \in Modes /\ sess \in (IF cls = "psk" THEN BOOLEAN ELSE {FALSE}) /\ step = 0 /\ nmut = 0 /\ hist = <<>>
        /\ cfgSNI = Example /\ hello = EmptyHello /\ exts = <<>> /\ gen = 0
        /\ order \in (IF cls = "shuffle" THEN {1, 2} ELSE {1})

Log(o) == hist' = Append(hist, o)
Op(name) == [op |-> name]

\* the caller of a HelloCustom UConn applies its spec first
MApplyPreset ==
  /\ cls = "custom" /\ step = 0 /\ ~applied
  /\ ApplyPreset
  /\ hello' = PresetHello(gen + 1) /\ exts' = SpecExts(cls, order, cfgSNI, gen + 1) /\ gen' = gen + 1
  /\ Log(Op("ApplyPreset")) /\ UNCHANGED <<srv, mode, sess, step, nmut, cfgSNI, order>>
Ready == cls # "custom" \/ applied

MBuild(ls) ==
  /\ hello' = PostBuild.hello /\ exts' = PostBuild.exts /\ gen' = PostBuild.gen
  /\ IF WillFail THEN BuildFails ELSE Build(ls, Ser(PostBuild.hello, PostBuild.exts))
  /\ Log(Op(IF ls THEN "Build" ELSE "BuildNoSess")) /\ UNCHANGED <<srv, mode, sess, nmut, cfgSNI, order>>
\* explicit build before the edits (or the decision not to build)
Pre == /\ Ready /\ step = 0
       /\ step' = 1
       /\ IF mode = "never" THEN UNCHANGED <<bvars, srv, mode, sess, nmut, hist, cfgSNI, hello, exts, gen, order>>
          ELSE MBuild(mode # "nosess")
\* explicit build after the edits
Post == /\ step = 1 /\ mode = "both" /\ nmut >= 1
        /\ step' = 2
        /\ MBuild(TRUE)

K == nmut + 1
Mut(o) == /\ step = 1 /\ nmut < MaxLen /\ nmut' = K /\ Log(o) /\ UNCHANGED <<srv, mode, sess, step, gen, order>>
MSetClientRandom ==
  /\ Mut([op |-> "SetClientRandom", r |-> RandV(K)])
  /\ SetClientRandom(RandV(K))
  /\ hello' = [hello EXCEPT !.random = RandV(K)] /\ UNCHANGED <<cfgSNI, exts>>
MSetSNI ==
  \E i \in (IF SNIAll THEN DOMAIN SNIChoice ELSE {K}) :
  /\ Mut([op |-> "SetSNI", name |-> SNIChoice[i]])
  /\ SetSNI(SNINorm[i])
  /\ cfgSNI' = SNINorm[i]
  /\ exts' = [j \in DOMAIN exts |-> IF exts[j].type = 0 THEN XS(SNINorm[i]) ELSE exts[j]]
  /\ UNCHANGED hello
\* the caller assigns SNIExtension.ServerName in UConn.Extensions; ApplyConfig copies it into the Config at the next build
HasSNIExt == \E i \in DOMAIN exts : exts[i].type = 0
MExtSNIField ==
  \E i \in (IF SNIAll THEN DOMAIN FieldChoice ELSE {K}) :
  /\ Mut([op |-> "ExtSNIField", name |-> FieldChoice[i]])
  /\ ExtSNIField(FieldNorm[i], HasSNIExt)
  /\ cfgSNI' = IF HasSNIExt THEN FieldNorm[i] ELSE cfgSNI
  /\ exts' = [j \in DOMAIN exts |-> IF exts[j].type = 0 THEN XS(FieldNorm[i]) ELSE exts[j]]
  /\ UNCHANGED hello
MRemoveSNI ==
  /\ Mut(Op("RemoveSNI"))
  /\ RemoveSNI
  /\ exts' = IF FixRemoveSNI THEN NoSNI(exts) ELSE exts
  /\ UNCHANGED <<cfgSNI, hello>>
NewSuites(l, o) == CASE o.kind = "append" -> Append(l, o.v)
                     [] o.kind = "keep" -> l                                                  \* the caller only inspects the list
                     [] o.kind = "poke" -> IF Len(l) >= 2 THEN [l EXCEPT ![2] = o.v] ELSE l   \* one element assigned in place
                     [] o.kind = "droplast" -> IF l = <<>> THEN l ELSE SubSeq(l, 1, Len(l) - 1)
                     [] OTHER -> o.list
TwoConn == "BBuild" \in Kinds
SuiteChoices == IF TwoConn THEN {[kind |-> "keep", v |-> 0, list |-> <<>>], [kind |-> "poke", v |-> 52392, list |-> <<>>]} ELSE {SuiteOp(K)}
MEditSuites ==
  \E so \in SuiteChoices :
  /\ Mut([op |-> "EditSuites"] @@ so)
  /\ EditSuites(NewSuites(hello.suites, so))
  /\ hello' = [hello EXCEPT !.suites = NewSuites(hello.suites, so)] /\ UNCHANGED <<cfgSNI, exts>>
\* a second connection B: created from the same spec value ("spec") or from a sibling spec sharing the cipher-suite, curves,
\* ALPN and versions slices ("slices"), preset applied and built; or one of its cipher suites assigned in place
MBBuild == \E sh \in {"spec", "slices"} :
             Mut([op |-> "BBuild", share |-> sh]) /\ OtherConnection /\ UNCHANGED <<cfgSNI, hello, exts>>
MBPoke == Mut([op |-> "BPoke", v |-> 49171]) /\ OtherConnection /\ UNCHANGED <<cfgSNI, hello, exts>>
MEditSessionId ==
  /\ Mut([op |-> "EditSessionId", sid |-> SidV(K)])
  /\ EditSessionId(SidV(K))
  /\ hello' = [hello EXCEPT !.sid = SidV(K)] /\ UNCHANGED <<cfgSNI, exts>>
MExtInsert ==
  /\ Mut([op |-> "ExtInsert", pos |-> 0, id |-> InsId(K), data |-> InsData(K)])
  /\ ExtInsert(InsId(K), InsData(K))
  /\ exts' = <<X(InsId(K), InsData(K))>> \o exts /\ UNCHANGED <<cfgSNI, hello>>
MExtRemove ==
  /\ Mut([op |-> "ExtRemove", t |-> RemT(K)])
  /\ ExtRemove(RemT(K))
  /\ exts' = SelectSeq(exts, LAMBDA e : e.type # RemT(K)) /\ UNCHANGED <<cfgSNI, hello>>
\* edits that leave a hello MarshalClientHello refuses (the content model needs no detail: it is never serialised)
Breaks == <<"pad2", "extfail", "badbinder", "emptypsk", "shortrandom">>
MBreak ==
  \E i \in DOMAIN Breaks :
  /\ Mut([op |-> "Break", what |-> Breaks[i]])
  /\ Break(IF Breaks[i] = "shortrandom" THEN <<"random">> ELSE <<"break", Breaks[i]>>)
  /\ UNCHANGED <<cfgSNI, hello, exts>>
\* same-length edits in place of an extension object that is already in the list (and of the session id bytes)
InPlaces == <<"alpn", "generic", "groups", "versions", "sid">>
Repl(x, b, b2) == IF x = b THEN b2 ELSE b
InPlaceOp(w) == CASE w = "alpn"     -> [op |-> "InPlace", what |-> w, id |-> 16, b |-> 51, b2 |-> 52]       \* last byte of the first protocol
                  [] w = "generic"  -> [op |-> "InPlace", what |-> w, id |-> 65300, b |-> 170, b2 |-> 85]  \* first byte of the data
                  [] w = "groups"   -> [op |-> "InPlace", what |-> w, id |-> 10, b |-> 25, b2 |-> 24]       \* last entry
                  [] w = "versions" -> [op |-> "InPlace", what |-> w, id |-> 43, b |-> 770, b2 |-> 769]    \* last entry
                  [] OTHER          -> [op |-> "InPlace", what |-> w, id |-> 0, b |-> 90, b2 |-> 165]      \* first byte of the session id
\* the abstract bodies: the last byte stands for the edited field
NewBody(body, o) == IF body = <<>> THEN body ELSE [body EXCEPT ![Len(body)] = Repl(@, o.b % 256, o.b2 % 256)]
TheExtBody(t) == exts[CHOOSE i \in DOMAIN exts : exts[i].type = t].body
MInPlace ==
  \E k \in DOMAIN InPlaces :
  LET o == InPlaceOp(InPlaces[k])
      has == \E i \in DOMAIN exts : exts[i].type = o.id IN
  /\ Mut(o)
  /\ IF o.what = "sid"
     THEN /\ IF hello.sid = <<>> THEN UNCHANGED bvars ELSE EditSessionId(NewBody(hello.sid, o))
          /\ hello' = [hello EXCEPT !.sid = NewBody(hello.sid, o)] /\ UNCHANGED <<cfgSNI, exts>>
     ELSE /\ InPlaceExt(o.id, IF has THEN NewBody(TheExtBody(o.id), o) ELSE <<>>, has)
          /\ exts' = [i \in DOMAIN exts |-> IF exts[i].type = o.id THEN [exts[i] EXCEPT !.body = NewBody(@, o)] ELSE exts[i]]
          /\ UNCHANGED <<cfgSNI, hello>>
HasALPN == \E i \in DOMAIN exts : exts[i].type = 16
MExtALPN ==
  /\ Mut([op |-> "ExtALPN", protos |-> AlpnV(K)])
  /\ ExtALPN(Vec16(ProtoList(AlpnV(K))), HasALPN)
  /\ exts' = [i \in DOMAIN exts |-> IF exts[i].type = 16 THEN [exts[i] EXCEPT !.body = Vec16(ProtoList(AlpnV(K)))] ELSE exts[i]]
  /\ UNCHANGED <<cfgSNI, hello>>

\* ------------------------------------------------------------------ the handshake
CanStart == (step = 1 /\ mode # "both") \/ step = 2
MStart ==
  /\ CanStart /\ ~WillFail
  /\ hello' = PostBuild.hello /\ exts' = PostBuild.exts /\ gen' = PostBuild.gen
  /\ StartHandshake(Ser(PostBuild.hello, PostBuild.exts))
  /\ step' = 3 /\ UNCHANGED <<srv, mode, sess, nmut, hist, cfgSNI, order>>
\* the rebuild fails: Handshake returns the error before anything is written; Hello.Raw is only assigned on success
MStartFails ==
  /\ CanStart /\ WillFail
  /\ hello' = PostBuild.hello /\ exts' = PostBuild.exts /\ gen' = PostBuild.gen
  /\ StartFails(raw)
  /\ step' = 3 /\ UNCHANGED <<srv, mode, sess, nmut, hist, cfgSNI, order>>
\* clientHelloMsg.marshal returns original (= Hello.Raw) when it is set
MSendCH1 == SendCH1(raw, raw) /\ UNCHANGED mvars
MServerFirst ==
  /\ phase = "ch1"
  /\ IF srv = "plain" THEN ServerHello ELSE ServerHRR
  /\ UNCHANGED mvars
\* the key share is replaced, a cookie extension is inserted at some index below the last two, the hello is marshalled again
ReShare(es, g) == [i \in DOMAIN es |-> IF es[i].type = 51 THEN [es[i] EXCEPT !.body = Fresh(51, g)] ELSE es[i]]
Resuming == cls = "psk" /\ sess
MSendCH2 ==
  /\ phase = "hrr" /\ ~Resuming
  /\ \E at \in (IF srv = "hrrcookie" THEN {0, Len(exts) - 3} ELSE {-1}) :
       exts' = IF at < 0 THEN ReShare(exts, gen + 1)
               ELSE SubSeq(ReShare(exts, gen + 1), 1, at) \o <<X(44, Vec16(Cookie))>> \o SubSeq(ReShare(exts, gen + 1), at + 1, Len(exts))
  /\ gen' = gen + 1
  /\ SendCH2(Ser(hello, exts'), Ser(hello, exts'))
  /\ UNCHANGED <<srv, mode, sess, step, nmut, hist, cfgSNI, hello, order>>
\* "uTLS does not support reprocessing of PSK key triggered by HelloRetryRequest" (a matter of C19)
MRefuseRetry == phase = "hrr" /\ Resuming /\ Fail(raw) /\ UNCHANGED mvars
MServerSecond == phase = "ch2" /\ ServerHello /\ UNCHANGED mvars
\* deferred copy-back: HandshakeState.Hello = private hello, whose original is the last hello marshalled
MFinish == Finish(raw) /\ UNCHANGED mvars

Next == \/ MApplyPreset \/ Pre \/ Post
        \/ (Ready /\ \/ ("SetClientRandom" \in Kinds /\ MSetClientRandom) \/ ("SetSNI" \in Kinds /\ MSetSNI)
                     \/ ("RemoveSNI" \in Kinds /\ MRemoveSNI) \/ ("EditSuites" \in Kinds /\ MEditSuites)
                     \/ ("EditSessionId" \in Kinds /\ MEditSessionId) \/ ("ExtInsert" \in Kinds /\ MExtInsert)
                     \/ ("ExtRemove" \in Kinds /\ MExtRemove) \/ ("ExtALPN" \in Kinds /\ MExtALPN)
                     \/ ("ExtSNIField" \in Kinds /\ MExtSNIField) \/ ("Break" \in Kinds /\ MBreak) \/ ("InPlace" \in Kinds /\ MInPlace)
                     \/ ("BBuild" \in Kinds /\ MBBuild) \/ ("BPoke" \in Kinds /\ MBPoke))
        \/ MStart \/ MStartFails \/ MSendCH1 \/ MServerFirst \/ MSendCH2 \/ MRefuseRetry \/ MServerSecond \/ MFinish

Terminal == phase \in {"done", "failed", "refused"}
\* scenario emission (once per distinct state; hist is part of the state, every path is a state)
Emit == Terminal => PrintT(<<"SCN", ToJson([cls |-> cls, server |-> srv, mode |-> mode, sess |-> sess, skipverify |-> SkipVerify, strictpsk |-> (cls = "pskstrict"), cookie |-> Cookie, ops |-> hist])>>)
=============================================================================
