CONSTANT Diag = FALSE
INIT InitTrace
NEXT NextTrace
CONSTRAINT Report
INVARIANT Safety
CHECK_DEADLOCK FALSE
