----------------------------- MODULE Flight_MC -----------------------------
(***************************************************************************)
(* Bounded exhaustive enumeration for C07 / C33 / C34.                     *)
(* Input (flight_in.json, written by the runner from REAL captures):       *)
(*   flights: [case, side (s: server messages hit a uTLS client, C33;      *)
(*             c: client messages hit the server, C34; rec: a ClientHello  *)
(*             record handed to the importers, C07), msgs (bytes), msgs2   *)
(*             (same case captured again), other (the peer's messages),    *)
(*             from (first message that is mutated; earlier ones were      *)
(*             already covered by another case of the same parrot),        *)
(*             inner (per message: the plaintext Certificate message the   *)
(*             server compressed into it, else <<>>), recs (raw records    *)
(*             wanted), myrecs (<<type, length>> of the records this side  *)
(*             wrote), post (longest post-handshake server sequence, 0:    *)
(*             none), focus (0, or an extension type: only the nodes of    *)
(*             that extension are mutated - a further server              *)
(*             configuration for a flight that was already mutated fully), *)
(*             lite (no inserted messages / extensions: those depend on    *)
(*             the receiver's state and message kind, which another case   *)
(*             with the same kind of flight already covers)]               *)
(*   docs:    [name, kind (json|map), doc (tagged JSON tree)]              *)
(*   hellos:  [name, hs (ClientHello bytes)]  -> tlsfingerprint.io maps    *)
(*   opt:     [classes, inserts, docclasses]  (what this tier enumerates)  *)
(* TLC walks every flight message by message (Deliver: the receiver's      *)
(* protocol state advances) and at each position branches into every       *)
(* (grammar node x mutation operator) and every (unexpected message kind). *)
(* Each terminal state is one scenario, printed as SCN for the harness.    *)
(***************************************************************************)
EXTENDS Flight, Json

In      == JsonDeserialize("flight_in.json")
Flights == In.flights
Opt     == In.opt
AllDocs == In.docs \o [i \in DOMAIN In.hellos |-> [name |-> In.hellos[i].name, kind |-> "map", doc |-> HelloMap(In.hellos[i].hs)]]
NF      == Len(Flights)
NCases  == NF + Len(AllDocs)

SrvMsgs(f) == IF f.side = "s" THEN f.msgs ELSE f.other
Ctx(f) ==
  LET shs  == SelectSeq(SrvMsgs(f), LAMBDA m : Len(m) > 0 /\ m[1] = 2)
      real == SelectSeq(shs, LAMBDA m : ~IsHRRRandom(m, 1))
      i    == IF real = <<>> THEN [v13 |-> FALSE, psk |-> FALSE, hrr |-> FALSE] ELSE ShInfo(real[1])
  IN [v13 |-> i.v13, psk |-> i.psk, hrr |-> \E j \in DOMAIN shs : IsHRRRandom(shs[j], 1)]
TreeOf(f, b) == IF f.side = "rec" THEN RecTree(b) ELSE Tree(b, Ctx(f).v13, f.side = "c")

CtxOf(c) == Ctx(Flights[c])
TreeAt(c, k) == TreeOf(Flights[c], Flights[c].msgs[k])

Enabled(cls) == \E j \in DOMAIN Opt.classes : Opt.classes[j] = cls
\* every (node, operator) of message k of flight c, then the unexpected-message insertions
NodeMutsAll(b, N) ==
  Flat([j \in DOMAIN N |-> LET ms == SelectSeq(NodeMuts(b, N, N[j]), LAMBDA m : Enabled(m.cls))
                           IN [i \in DOMAIN ms |-> [n |-> j, m |-> ms[i]]]])
InFocus(b, N, n, t) == \E j \in DOMAIN N : N[j].tk = "ext" /\ RdU16(b, N[j].tp) = t /\ N[j].s <= n.s /\ n.e <= N[j].e
MutsAt(c, k, N) ==
  IF Flights[c].focus # 0
  THEN LET b == Flights[c].msgs[k] IN SelectSeq(NodeMutsAll(b, N), LAMBDA x : InFocus(b, N, N[x.n], Flights[c].focus))
  ELSE
  LET b == Flights[c].msgs[k]
      per == [j \in DOMAIN N |-> LET ms == SelectSeq(NodeMuts(b, N, N[j]), LAMBDA m : Enabled(m.cls) /\ ~(Flights[c].lite /\ m.cls = "insertext"))
                                 IN [i \in DOMAIN ms |-> [n |-> j, m |-> ms[i]]]]
      ins == IF ~Opt.inserts \/ Flights[c].side = "rec" \/ Flights[c].lite THEN <<>>
             ELSE LET all == InsertMuts(b)
                      use == SelectSeq(all, LAMBDA m : k = Len(Flights[c].msgs) \/ m.sp[1].off = 0)
                  IN [i \in DOMAIN use |-> [n |-> 1, m |-> use[i]]]
      ver == IF Flights[c].side = "rec" /\ Enabled("versions")
             THEN LET vs == VersionMuts(b, N) IN [i \in DOMAIN vs |-> [n |-> 1, m |-> vs[i]]] ELSE <<>>
  IN Flat(per) \o ins \o ver

\* bytes that carry structure (length fields, type codes): the layout of a message
SkelOf(b, N, case, k) ==
  LET PL == UNION { (IF N[j].ln > 0 THEN N[j].lp .. (N[j].lp + N[j].ln - 1) ELSE {}) : j \in DOMAIN N }
      PT == UNION { (IF N[j].tn > 0 THEN N[j].tp .. (N[j].tp + N[j].tn - 1) ELSE {}) : j \in DOMAIN N }
      pos == SetToSeq1(PL \cup PT)
  IN [case |-> case, k |-> k - 1, len |-> Len(b), pos |-> pos, val |-> [j \in DOMAIN pos |-> b[pos[j]]],
      typ |-> [j \in DOMAIN pos |-> IF pos[j] \in PL THEN 0 ELSE 1]]
Skel(c, k, N) == SkelOf(Flights[c].msgs[k], N, Flights[c].case, k)

\* how the harness must deliver the mutation.  The first ClientHello of a parrot differs from connection to
\* connection (GREASE, shuffling), so the CAPTURED hello is sent in place of the live one ("replace"); every
\* other message is spliced live, keys and transcripts staying consistent, which needs a layout that is the
\* same in every connection (checked on the second capture here, and by Flight_Trace on every live message).
\* A second ClientHello (after HelloRetryRequest) must be live, because the client only sends it after the
\* server answered ITS first hello; when its layout is not stable (shuffling parrots) it is not mutated.
ModeOf(f, kk) == IF f.side = "rec" \/ (f.side = "c" /\ kk = 1 /\ f.msgs[kk][1] = 1) THEN "replace" ELSE "live"
Stable(cc, kk, N) == kk <= Len(Flights[cc].msgs2) /\ SkelOK(Flights[cc].msgs2[kk], Skel(cc, kk, N))
Mutable(cc, kk, N) == kk >= Flights[cc].from /\ (ModeOf(Flights[cc], kk) = "replace" \/ Stable(cc, kk, N))

NoExtW == [t |-> 0 - 1, s |-> 0, e |-> 0]
ExtW(f, b, N, n, m) ==   \* C07: the (type, body range in the mutated bytes) of the extension that encloses the mutated node
  IF f.side # "rec" THEN NoExtW ELSE
  LET S == SelectSeq(N, LAMBDA a : a.tk = "ext" /\ a.s <= n.s /\ n.e <= a.e) IN
  IF S = <<>> THEN NoExtW ELSE
  LET X == S[Len(S)] IN
  IF X = n /\ m.cls \notin {"length", "swap"} THEN NoExtW ELSE
  LET Mb == ApplySplices(b, m.sp) IN
  IF Len(Mb) < X.s + 3 THEN NoExtW
  ELSE [t |-> RdU16(Mb, X.s), s |-> X.s + 4, e |-> Min(X.s + 3 + RdU16(Mb, X.s + 2), Len(Mb))]

None == [kind |-> "none"]
VARIABLES c, k, st, scn, out
vars == <<c, k, st, scn, out>>

IsFlight == c <= NF
F0 == Flights[c]
InitState(side) == CASE side = "s" -> "c:wait_sh" [] side = "c" -> "s:wait_ch" [] OTHER -> "import"
Init == /\ c \in 1..NCases /\ k = 1 /\ scn = None /\ out = "pending"
        /\ st = IF c <= NF THEN InitState(Flights[c].side) ELSE "import"

StepOf(f, s, b) ==
  IF f.side = "rec" THEN "imported"
  ELSE LET info == IF b[1] = 2 THEN ShInfo(b) ELSE [v13 |-> FALSE, psk |-> FALSE, hrr |-> FALSE] IN
       IF f.side = "s" THEN ClientStep(s, b[1], info, CtxOf(c)) ELSE ServerStep(s, b[1], info, CtxOf(c))

\* the message reaches the receiver untouched: its protocol state advances
Deliver == /\ IsFlight /\ scn = None /\ k <= Len(F0.msgs)
           /\ st' = StepOf(F0, st, F0.msgs[k]) /\ k' = k + 1 /\ UNCHANGED <<c, scn, out>>

\* message k is rewritten: one grammar node, one operator (or an unexpected message is inserted).
\* (a set expression, so that TLC evaluates the tree and the operator table once per position)
ScnSet(cc, kk, s) ==
  LET f  == Flights[cc]
      b  == f.msgs[kk]
      N  == TreeAt(cc, kk).nodes
      ms == IF Mutable(cc, kk, N) THEN MutsAt(cc, kk, N) ELSE <<>>
      mk == KindName(b[IF f.side = "rec" THEN 6 ELSE 1])
      md == ModeOf(f, kk)
  IN { [kind |-> "mut", case |-> f.case, side |-> f.side, msg |-> kk - 1, st |-> s, mkind |-> mk,
        path |-> IF ms[i].m.cls = "insert" THEN "hs" ELSE N[ms[i].n].p, op |-> ms[i].m.op, cls |-> ms[i].m.cls, sp |-> ms[i].m.sp,
        mode |-> md, measure |-> GrowsDeclaredLength(ms[i].m) \/ DeclaresHuge(ms[i].m), decl |-> N[ms[i].n].decl,
        extw |-> ExtW(f, b, N, N[ms[i].n], ms[i].m), inner |-> FALSE] : i \in DOMAIN ms }
\* the Certificate message INSIDE a CompressedCertificate: the same operators on its own tree; the server role
\* (harness) then compresses the mutated message correctly, so the client gets past decompression
HasInner(cc, kk) == kk <= Len(Flights[cc].inner) /\ Flights[cc].inner[kk] # <<>> /\ kk >= Flights[cc].from
InnerTree(cc, kk) == Tree(Flights[cc].inner[kk], TRUE, FALSE)
InnerScnSet(cc, kk, s) ==
  IF ~HasInner(cc, kk) THEN {} ELSE
  LET f  == Flights[cc]
      b  == f.inner[kk]
      N  == InnerTree(cc, kk).nodes
      ms == NodeMutsAll(b, N)
  IN { [kind |-> "mut", case |-> f.case, side |-> f.side, msg |-> kk - 1, st |-> s, mkind |-> "compressed_certificate",
        path |-> "inner:" \o N[ms[i].n].p, op |-> ms[i].m.op, cls |-> ms[i].m.cls, sp |-> ms[i].m.sp,
        mode |-> "live", measure |-> GrowsDeclaredLength(ms[i].m), decl |-> FALSE, extw |-> NoExtW, inner |-> TRUE] : i \in DOMAIN ms }
\* a raw record of every content type and body length 0..20 in place of the record after ChangeCipherSpec
\* (position: the Finished message of a TLS <= 1.2 flight) or right after the handshake (where = "after")
RecScn(cc, kk, s, where, idx) ==
  LET f == Flights[cc] IN
  { [kind |-> "rec", case |-> f.case, side |-> f.side, msg |-> kk - 1, st |-> s, where |-> where, index |-> idx,
     rtype |-> RecTypes[t], rlen |-> n, raw |-> RawRecord(RecTypes[t], n),
     hdr |-> IF where = "replace" THEN f.myrecs[idx + 1] ELSE <<>>] : t \in DOMAIN RecTypes, n \in RecLens }
RecReplaceSet(cc, kk, s) ==
  LET f == Flights[cc] IN
  IF f.recs /\ f.side # "rec" /\ ~CtxOf(cc).v13 /\ f.msgs[kk][1] = 20 /\ RecAfterCCS(f.myrecs) >= 0
  THEN RecScn(cc, kk, s, "replace", RecAfterCCS(f.myrecs)) ELSE {}
Mutate == /\ IsFlight /\ scn = None /\ k <= Len(F0.msgs)
          /\ scn' \in (ScnSet(c, k, st) \cup InnerScnSet(c, k, st) \cup RecReplaceSet(c, k, st))
          /\ UNCHANGED <<c, k, st, out>>

\* nothing is rewritten: the untouched flight (must succeed; also the allocation baseline)
Baseline == /\ IsFlight /\ scn = None /\ k = Len(F0.msgs) + 1
            /\ scn' = [kind |-> "base", case |-> F0.case, side |-> F0.side, msg |-> 0 - 1, st |-> st, mkind |-> "", path |-> "", op |-> "none",
                       cls |-> "none", sp |-> <<>>, mode |-> "live", measure |-> TRUE, decl |-> FALSE, extw |-> NoExtW, inner |-> FALSE]
            /\ UNCHANGED <<c, k, st, out>>

RecAfter == /\ IsFlight /\ scn = None /\ k = Len(F0.msgs) + 1 /\ F0.recs /\ F0.side # "rec"
            /\ scn' \in RecScn(c, k, st, "after", 0 - 1)
            /\ UNCHANGED <<c, k, st, out>>

\* post-handshake phase: the transport of the client's outgoing direction is fixed, then the server sends one
\* element after the other; every prefix (the empty one included) is a scenario: the client then calls Read, Write, Close
PostStart == /\ IsFlight /\ scn = None /\ k = Len(F0.msgs) + 1 /\ F0.side \in {"s", "c"} /\ F0.post > 0 /\ CtxOf(c).v13
             /\ \E t \in DOMAIN Transports :
                   scn' = [kind |-> "post", case |-> F0.case, side |-> F0.side, msg |-> 0 - 1, st |-> st, tr |-> Transports[t], seq |-> <<>>]
             /\ UNCHANGED <<c, k, st, out>>
PostSend == /\ IsFlight /\ scn # None /\ scn.kind = "post" /\ out = "pending" /\ Len(scn.seq) < F0.post
            /\ (IF scn.seq = <<>> THEN TRUE ELSE scn.seq[Len(scn.seq)] # "close")
            /\ \E e \in DOMAIN PostKindsOf(F0.side) : scn' = [scn EXCEPT !.seq = Append(@, PostKindsOf(F0.side)[e])]
            /\ UNCHANGED <<c, k, st, out>>

\* structured documents: one tree position, one operator
D0 == AllDocs[c - NF]
DocEnabled(cls) == \E j \in DOMAIN Opt.docclasses : Opt.docclasses[j] = cls
DocScnSet(d) ==
  LET P == DPaths(d.doc) IN
  UNION { LET es == DocMuts(d.doc, p)  nt == DAt(d.doc, p).t IN
          { [kind |-> "doc", case |-> d.name, dkind |-> d.kind, path |-> es[i].path, op |-> es[i].op, cls |-> es[i].cls,
             act |-> es[i].act, node |-> es[i].node, key |-> es[i].key, nt |-> nt, doc |-> NoNode] : i \in {i \in DOMAIN es : DocEnabled(es[i].cls)} } : p \in P }
MutateDoc == /\ ~IsFlight /\ scn = None
             /\ scn' \in DocScnSet(D0)
             /\ UNCHANGED <<c, k, st, out>>
BaselineDoc == /\ ~IsFlight /\ scn = None
               /\ scn' = [kind |-> "doc", case |-> D0.name, dkind |-> D0.kind, path |-> <<>>, op |-> "none", cls |-> "none",
                          act |-> "none", node |-> NoNode, key |-> "", nt |-> D0.doc.t, doc |-> D0.doc]
               /\ UNCHANGED <<c, k, st, out>>

\* whatever was sent, the call made by the code under test returns ok or an error
Resolve == /\ scn # None /\ out = "pending"
           /\ out' \in (IF scn.kind \in {"base", "doc", "mut"} /\ scn.op = "none" THEN {"ok"} ELSE Outcomes) /\ UNCHANGED <<c, k, st, scn>>

Next == Deliver \/ Mutate \/ Baseline \/ RecAfter \/ PostStart \/ PostSend \/ MutateDoc \/ BaselineDoc \/ Resolve

\* ---------------------------------------------------------------- model-level sanity of the captures
\* the protocol model explains the order of every captured flight
Explained == st # "unexpected"
\* the grammar covers every captured message completely
GrammarCovers == (IsFlight /\ scn = None /\ k <= Len(F0.msgs)) => TreeAt(c, k).full
\* the layout of live-spliced messages does not change from connection to connection
LayoutStable == (IsFlight /\ scn = None /\ k <= Len(F0.msgs) /\ ModeOf(F0, k) = "live" /\ F0.msgs[k][1] # 1)
                  => Stable(c, k, TreeAt(c, k).nodes)
InnerGrammarCovers == (IsFlight /\ scn = None /\ k <= Len(F0.msgs) /\ HasInner(c, k)) => InnerTree(c, k).full
OutcomeOK == out \in {"pending"} \cup Outcomes

\* ---------------------------------------------------------------- emission
Emit == /\ (scn # None /\ out = "pending") => PrintT(<<"SCN", ToJson(scn)>>)
        /\ (IsFlight /\ scn = None /\ k <= Len(F0.msgs)) =>
              LET N == TreeAt(c, k).nodes IN
              PrintT(<<"POS", ToJson([case |-> F0.case, msg |-> k - 1, st |-> st, nodes |-> Len(N), mutable |-> Mutable(c, k, N), covered |-> k < F0.from, inner |-> FALSE, skel |-> Skel(c, k, N)])>>)
        /\ (IsFlight /\ scn = None /\ k <= Len(F0.msgs) /\ HasInner(c, k)) =>
              LET N == InnerTree(c, k).nodes IN
              PrintT(<<"POS", ToJson([case |-> F0.case, msg |-> k - 1, st |-> st, nodes |-> Len(N), mutable |-> TRUE, covered |-> FALSE, inner |-> TRUE,
                                      skel |-> SkelOf(F0.inner[k], N, F0.case, k)])>>)
=============================================================================
