------------------------------- MODULE TLS12 -------------------------------
(***************************************************************************)
(* The TLS 1.0 - 1.2 client handshake of utls as a state machine, cut at   *)
(* the implementation's steps (handshake_client.go, u_handshake_client.go, *)
(* u_conn.go handleRenegotiation).  It complements module Negotiation,     *)
(* which only judges the ServerHello / ServerKeyExchange decisions.        *)
(*                                                                         *)
(* The server is not modelled as a decision procedure.  Its handshake      *)
(* messages arrive as abstract records (the trace specification parses     *)
(* them from the plaintext the verif hook logs; the bounded model lets an  *)
(* abstract server choose them) and Deliver says what the client does      *)
(* with each: go on, send its own messages, abort (with the reason).       *)
(*                                                                         *)
(*   ClientHello      one ClientHello leaves the client (initial or        *)
(*                    renegotiation); session offered, renegotiation_info  *)
(*   Deliver          one server message is consumed by the client:        *)
(*     OnServerHello    pickTLSVersion, canary, processServerHello         *)
(*     OnCertificate    doFullHandshake: Certificate                       *)
(*     OnAfterCert      optional CertificateStatus                         *)
(*     VerifyThen       verifyServerCertificate / identity unchanged       *)
(*     AfterVerify      ServerKeyExchange, CertificateRequest              *)
(*                      (getClientCertificate), ServerHelloDone            *)
(*     SendFlight       Certificate, ClientKeyExchange, CertificateVerify, *)
(*                      ChangeCipherSpec, Finished                         *)
(*     OnTicket         readSessionTicket                                  *)
(*     OnFinished       readFinished (after the ChangeCipherSpec)          *)
(*     OnPostHandshake  handleRenegotiation (HelloRequest, policy)         *)
(*                                                                         *)
(* Properties restated over this machine are in TLS12_MC (invariants) and  *)
(* TLS12_Trace (per recorded execution).                                   *)
(***************************************************************************)
EXTENDS Negotiation

\* ------------------------------------------------------------ abstract handshake messages
\* One record shape for every message so that sequences of them are homogeneous.
\*   t      handshake type (0 HelloRequest, 2 ServerHello, 4 NewSessionTicket, 11 Certificate, 12 ServerKeyExchange,
\*          13 CertificateRequest, 14 ServerHelloDone, 20 Finished, 22 CertificateStatus)
\*   ccs    the server's ChangeCipherSpec of this handshake precedes the message
\*   bad    the message does not parse
\*   ok     ServerKeyExchange: signed by the key of the presented leaf over this handshake's randoms;
\*          Finished: verify_data matches the transcript the client saw
M0 == [t |-> -1, ccs |-> FALSE, bad |-> FALSE, ok |-> TRUE,
       vers |-> 0, suite |-> 0, comp |-> 0, sid |-> "other", ems |-> FALSE, ri |-> "absent", tick |-> FALSE,
       ocsp |-> FALSE, scts |-> <<>>, alpn |-> <<>>, canary |-> 0, sv |-> FALSE,
       certs |-> <<>>, body |-> <<>>, types |-> {}, sigalgs |-> <<>>, hasSig |-> FALSE]

\* client messages (what the client writes, ChangeCipherSpec not shown)
CM(t) == [t |-> t, certs |-> <<>>]
CMCert(ls) == [t |-> 11, certs |-> ls]

\* ------------------------------------------------------------ what a ClientHello offers (parsed from the wire)
\* renegotiation_info body: renegotiated_connection<0..255>
RIBody(h) == IF HasExtT(h, 65281) /\ Len(ExtBody(h, 65281)) >= 1 THEN Tail(ExtBody(h, 65281)) ELSE <<>>
NoOffer12 == [ok |-> FALSE, versions |-> {}, suites |-> {}, alpn |-> {}, ems |-> FALSE, sid |-> <<>>,
              ticketExt |-> FALSE, ticket |-> <<>>, riExt |-> FALSE, riBody |-> <<>>, scsv |-> FALSE,
              status |-> FALSE, sct |-> FALSE]
\* (h is passed as an argument: TLC evaluates an argument once, a LET definition at every use)
OfferH(h, specMin) ==
  IF ~h.ok \/ (\E i \in DOMAIN h.exts : h.exts[i].bad) THEN NoOffer12 ELSE
  [ok |-> TRUE,
   \* versions advertised on the wire: supported_versions if present, else spec minimum .. legacy_version (module Negotiation)
   versions |-> IF HasExtT(h, 43)
                THEN (IF Len(ExtBody(h, 43)) >= 1 THEN {v \in Range(U16Seq(Tail(ExtBody(h, 43)))) : ~IsGrease16(v)} ELSE {})
                ELSE {v \in 769..771 : v >= specMin /\ v <= h.vers},
   suites |-> {x \in Range(h.suites) : ~IsGrease16(x)},
   alpn |-> IF HasExtT(h, 16) /\ IsVec16(ExtBody(h, 16)) /\ ProtoNamesOK(ExtBody(h, 16), 3) THEN Range(ParseProtoNames(ExtBody(h, 16), 3)) ELSE {},
   ems |-> HasExtT(h, 23), sid |-> h.sid,
   ticketExt |-> HasExtT(h, 35),
   ticket |-> IF HasExtT(h, 35) THEN ExtBody(h, 35) ELSE <<>>,
   riExt |-> HasExtT(h, 65281), riBody |-> RIBody(h),
   scsv |-> 255 \in Range(h.suites),
   status |-> HasExtT(h, 5), sct |-> HasExtT(h, 18)]
Offer12(raw, specMin) == OfferH(ParseHello(raw), specMin)

\* ------------------------------------------------------------ sessions (ClientSessionCache entry, handshake_client.go saveSessionTicket)
NoSess == [present |-> FALSE, vers |-> 0, suite |-> 0, ems |-> FALSE, ticket |-> <<>>, leaf |-> "", verified |-> FALSE,
           ocsp |-> <<>>, scts |-> <<>>]

\* server certificates of the test PKI by label: valid for the client's name and clock, and key kind
ValidLeaf(l) == l \in {"A", "Arsa", "B", "Brsa"}
RSALeaf(l) == l \in {"Arsa", "Brsa", "wrongname_rsa", "expired_rsa", "untrusted_rsa"}

\* loadSession (handshake_client.go:396-500) for a TLS <= 1.2 session: may the cached session be offered in this hello?
\* (RFC 5077 3.1, RFC 7627 5.3 "MUST NOT offer an EMS session without the extension"; a session stored by an
\*  InsecureSkipVerify connection has no verified chains and is not offered by a verifying one)
MayOffer(s, o, insecure) ==
  /\ s.present
  /\ o.ticketExt
  /\ s.vers \in o.versions
  /\ s.suite \in o.suites
  /\ (s.ems => o.ems)
  /\ (~insecure => s.verified /\ ValidLeaf(s.leaf))
\* ... and must it be (C19: resumption works, stated there for TLS 1.2 / 1.3 servers)?  A TLS 1.0 / 1.1 session may be
\* offered (upstream does) or not (uLoadSession, u_conn.go:181, only puts TLS 1.2 sessions into the session_ticket extension).
MustOffer(s, o, insecure) == MayOffer(s, o, insecure) /\ s.vers = 771

\* ------------------------------------------------------------ client certificates (handshake_client.go:1261-1340, auth.go:173-255)
ECSchemes == {1027, 1283, 1539, 515, 2055}          \* ECDSA P256/P384/P521, ECDSA-SHA1, Ed25519
RSASchemes == {2052, 2053, 2054, 1025, 1281, 1537, 513}
\* signatureSchemesForCertificate, TLS <= 1.2, for the two client certificates of the test PKI
CertSchemes(kind) == IF kind = "ecdsa" THEN {1027, 1283, 1539, 515} ELSE RSASchemes
\* certificateRequestInfoFromMsg: the schemes the CertificateRequest is taken to allow
CRISchemes(m) ==
  LET rsaAvail == 1 \in m.types
      ecAvail == 64 \in m.types IN
  IF ~m.hasSig THEN (IF rsaAvail /\ ecAvail THEN {1027, 1283, 1539, 1025, 1281, 1537, 513}
                     ELSE IF rsaAvail THEN {1025, 1281, 1537, 513}
                     ELSE IF ecAvail THEN {1027, 1283, 1539} ELSE {})
  ELSE {s \in Range(m.sigalgs) : (s \in ECSchemes /\ ecAvail) \/ (s \in RSASchemes /\ rsaAvail)}
\* selectSignatureScheme's fallback: an empty peer list at TLS 1.2 means SHA-1
PeerAlgs(S, vers) == IF S = {} /\ vers = 771 THEN {513, 515} ELSE S
SupportsCert(m, kind, vers) == CertSchemes(kind) \cap PeerAlgs(CRISchemes(m), vers) # {}
\* the chain getClientCertificate returns (labels, possibly none), or the failure of the callback
Chain(ls) == [err |-> FALSE, chain |-> ls]
ChooseCert(ccert, m, vers) ==
  CASE ccert = "" -> Chain(<<>>)
    [] ccert = "cb_err" -> [err |-> TRUE, chain |-> <<>>]
    [] ccert = "cb_empty" -> Chain(<<>>)
    [] ccert = "cb_ecdsa" -> Chain(<<"client_ecdsa">>)
    [] ccert = "cb_rsa" -> Chain(<<"client_rsa">>)
    [] ccert = "ecdsa" -> IF SupportsCert(m, "ecdsa", vers) THEN Chain(<<"client_ecdsa">>) ELSE Chain(<<>>)
    [] ccert = "rsa" -> IF SupportsCert(m, "rsa", vers) THEN Chain(<<"client_rsa">>) ELSE Chain(<<>>)
    [] OTHER -> Chain(<<>>)
KindOf(label) == IF label = "client_ecdsa" THEN "ecdsa" ELSE "rsa"
\* CertificateVerify: TLS 1.2 picks from the request's own list (not filtered by certificate_types)
CanSign(m, label, vers) == vers < 771 \/ CertSchemes(KindOf(label)) \cap PeerAlgs(Range(m.sigalgs), vers) # {}

\* ------------------------------------------------------------ the client connection
\* cfg: what does not change during a connection
\*   policy   Config.Renegotiation: 0 never, 1 once, 2 freely
\*   ccert    client certificate mode ("" | ecdsa | rsa | cb_ecdsa | cb_rsa | cb_empty | cb_err)
\*   insecure Config.InsecureSkipVerify
\* cl: the connection (fields of Conn / clientHandshakeState that matter)
Fresh == [pc |-> "Start", must |-> "", hs |-> 0, o |-> NoOffer12, sess |-> NoSess, sh |-> M0, resumed |-> FALSE,
          leaf |-> "", verified |-> FALSE, pend |-> <<>>, gotSKE |-> FALSE, certReq |-> M0, chain |-> <<>>,
          ocsp |-> <<>>, scts |-> <<>>, alpn |-> <<>>, secureReneg |-> FALSE, ticket |-> <<>>, gotTicket |-> FALSE,
          out |-> <<>>, cf |-> <<>>, sf |-> <<>>, vers |-> 0, suite |-> 0, ems |-> FALSE, offered |-> FALSE,
          srvFinSeen |-> FALSE, cliFinSent |-> FALSE, finOrderOK |-> TRUE, inHs |-> FALSE]

Abort(cl, why) == [cl EXCEPT !.pc = "Aborted", !.must = why]
Send(cl, ms) == [cl EXCEPT !.out = cl.out \o ms]

\* ---- ClientHello: u_handshake_client.go:400-512 (initial), u_conn.go:960-1008 (renegotiation: BuildHandshakeState again)
\* o is the offer parsed from the hello, sess the session its ticket denotes (NoSess if it carries none)
ClientHello(cl, o, sess) ==
  [cl EXCEPT !.pc = "WaitSH", !.o = o, !.sess = sess, !.offered = sess.present, !.resumed = FALSE, !.sh = M0,
             !.pend = <<>>, !.gotSKE = FALSE, !.certReq = M0, !.chain = <<>>, !.ticket = <<>>, !.gotTicket = FALSE,
             !.srvFinSeen = FALSE, !.cliFinSent = FALSE, !.inHs = TRUE]

\* ---- key exchange of a suite (cipher_suites.go flags)
IsECDHE(s) == KnownSuite(s) /\ SuiteRec(s).ECDHE

\* ---- OnServerHello: u_handshake_client.go:525-591, handshake_client.go:568-586 pickTLSVersion, 913-985 processServerHello
\* As coded (and as upstream): extended_master_secret, status_request, signed_certificate_timestamp and renegotiation_info
\* in the ServerHello are taken as they come, they are not compared with what the hello carried (no listed property
\* demands that); a cipher suite is not checked against the version; a renegotiation on a connection whose first
\* ServerHello had no renegotiation_info goes on without any renegotiation_info check.
OnServerHello(cl, cfg, m) ==
  IF m.t # 2 THEN Abort(cl, "unexpected-message:want-server-hello")
  ELSE IF m.bad THEN Abort(cl, "malformed-server-hello")
  ELSE IF m.vers \notin cl.o.versions THEN Abort(cl, "version-not-advertised")
  ELSE IF m.vers < 772 /\ m.sv THEN Abort(cl, "supported-versions-below-1.3")
  ELSE IF (772 \in cl.o.versions /\ m.vers <= 771 /\ m.canary # 0)
          \/ (772 \notin cl.o.versions /\ 771 \in cl.o.versions /\ m.vers <= 770 /\ m.canary = 11) THEN Abort(cl, "downgrade-sentinel")
  ELSE IF m.vers = 772 THEN (IF cl.hs > 0 THEN Abort(cl, "tls13-in-renegotiation") ELSE [cl EXCEPT !.pc = "TLS13"])
  ELSE IF m.suite \notin cl.o.suites THEN Abort(cl, "suite-not-offered")
  ELSE IF m.comp # 0 THEN Abort(cl, "compression-not-offered")
  ELSE IF cl.hs = 0 /\ m.ri \notin {"absent", "empty"} THEN Abort(cl, "initial-renegotiation-info-not-empty")
  ELSE IF cl.hs > 0 /\ cl.secureReneg /\ m.ri # "correct" THEN Abort(cl, "renegotiation-info-incorrect")
  ELSE IF m.alpn # <<>> /\ m.alpn \notin cl.o.alpn THEN Abort(cl, "alpn-not-offered")
  ELSE
  LET c1 == [cl EXCEPT !.sh = m, !.vers = m.vers, !.suite = m.suite, !.alpn = m.alpn, !.scts = m.scts,
                       !.secureReneg = IF cl.hs = 0 THEN m.ri # "absent" ELSE cl.secureReneg] IN
  \* serverResumedSession: a session was offered and the server echoes the hello's (non-empty) session id
  IF cl.sess.present /\ cl.o.sid # <<>> /\ m.sid = "echo" THEN
       IF cl.sess.vers # m.vers THEN Abort(c1, "resumed-different-version")
       ELSE IF cl.sess.suite # m.suite THEN Abort(c1, "resumed-different-suite")
       ELSE IF cl.sess.ems # m.ems THEN Abort(c1, "resumed-different-ems")
       ELSE [c1 EXCEPT !.resumed = TRUE, !.ems = cl.sess.ems, !.leaf = cl.sess.leaf, !.verified = cl.sess.verified,
                       !.ocsp = cl.sess.ocsp, !.scts = IF m.scts = <<>> THEN cl.sess.scts ELSE m.scts,
                       !.pc = IF m.tick THEN (IF cl.o.ticketExt THEN "R_WaitNST" ELSE "Aborted") ELSE "R_WaitCCS",
                       !.must = IF m.tick /\ ~cl.o.ticketExt THEN "unrequested-session-ticket" ELSE ""]
  ELSE [c1 EXCEPT !.pc = "WaitCert", !.ems = m.ems]

\* ---- doFullHandshake, first two reads: handshake_client.go:698-733
OnCertificate(cl, m) ==
  IF m.t # 11 \/ m.bad \/ m.certs = <<>> \/ m.ccs THEN Abort(cl, "unexpected-message:want-certificate")
  ELSE [cl EXCEPT !.pend = m.certs, !.pc = "AfterCert"]

\* ---- SendFlight: handshake_client.go:797-879, 650-656 (Certificate, ClientKeyExchange, CertificateVerify, CCS, Finished)
SendFlight(cl) ==
  LET certRequested == cl.certReq.t = 13
      c1 == IF certRequested THEN Send(cl, <<CMCert(cl.chain)>>) ELSE cl IN
  IF IsECDHE(cl.suite) /\ ~cl.gotSKE THEN Abort(c1, "missing-server-key-exchange")
  ELSE IF ~IsECDHE(cl.suite) /\ ~RSALeaf(cl.leaf) THEN Abort(c1, "certificate-key-does-not-fit-suite")
  ELSE
  LET c2 == Send(c1, <<CM(16)>>) IN
  IF cl.chain # <<>> /\ ~CanSign(cl.certReq, cl.chain[1], cl.vers) THEN Abort(c2, "no-signature-scheme-for-client-certificate")
  ELSE
  LET c3 == IF cl.chain # <<>> THEN Send(c2, <<CM(15)>>) ELSE c2
      c4 == [Send(c3, <<CM(20)>>) EXCEPT !.cliFinSent = TRUE] IN
  \* readSessionTicket: handshake_client.go:1043-1066
  IF cl.sh.tick THEN (IF cl.o.ticketExt THEN [c4 EXCEPT !.pc = "WaitNST"] ELSE Abort(c4, "unrequested-session-ticket"))
  ELSE [c4 EXCEPT !.pc = "WaitCCS"]

\* ---- the message after Certificate [CertificateStatus]: certificate verification happens first
\* handshake_client.go:735-752 (verifyServerCertificate on the first handshake, identity unchanged on a renegotiation)
AfterVerify(cl, cfg, m, stage) ==
  \* stage 0: ServerKeyExchange, CertificateRequest, ServerHelloDone allowed; 1: after SKE; 2: after CertificateRequest
  IF m.ccs \/ m.bad THEN Abort(cl, "unexpected-message:in-server-flight")
  ELSE IF m.t = 12 /\ stage = 0 THEN
       (IF ~IsECDHE(cl.suite) THEN Abort(cl, "unexpected-server-key-exchange")
        ELSE IF ~m.ok THEN Abort(cl, "server-key-exchange-invalid")
        ELSE [cl EXCEPT !.gotSKE = TRUE, !.pc = "AfterSKE"])
  ELSE IF m.t = 13 /\ stage <= 1 THEN
       (LET ch == ChooseCert(cfg.ccert, m, cl.vers) IN
        IF ch.err THEN Abort(cl, "get-client-certificate-failed")
        ELSE [cl EXCEPT !.certReq = m, !.chain = ch.chain, !.pc = "AfterCR"])
  ELSE IF m.t = 14 THEN SendFlight(cl)
  ELSE Abort(cl, "unexpected-message:want-server-hello-done")

VerifyThen(cl, cfg, m) ==
  LET l == cl.pend[1] IN
  IF cl.hs = 0 THEN
     (IF ~cfg.insecure /\ ~ValidLeaf(l) THEN Abort(cl, "bad-certificate")
      ELSE AfterVerify([cl EXCEPT !.leaf = l, !.verified = ~cfg.insecure], cfg, m, 0))
  ELSE IF l # cl.leaf THEN Abort(cl, "identity-changed-during-renegotiation")
  ELSE AfterVerify(cl, cfg, m, 0)

OnAfterCert(cl, cfg, m) ==
  IF m.t = 22 /\ ~m.ccs /\ ~m.bad THEN
     (IF ~cl.sh.ocsp THEN Abort(cl, "unexpected-certificate-status")
      ELSE [cl EXCEPT !.ocsp = m.body, !.pc = "AfterStatus"])
  ELSE VerifyThen(cl, cfg, m)

\* ---- readSessionTicket: handshake_client.go:1054-1065
OnTicket(cl, m, next) ==
  IF m.ccs THEN Abort(cl, "unexpected-message:change-cipher-spec-before-ticket")
  ELSE IF m.t # 4 \/ m.bad THEN Abort(cl, "unexpected-message:want-session-ticket")
  ELSE [cl EXCEPT !.ticket = m.body, !.gotTicket = TRUE, !.pc = next]

\* ---- completion: handshake_client.go:664-671, saveSessionTicket 1068-1090
Complete(cl) == [cl EXCEPT !.pc = "Done", !.hs = cl.hs + 1, !.inHs = FALSE]

\* ---- readFinished: handshake_client.go:1008-1041 (ChangeCipherSpec, then Finished with the right verify_data)
OnFinished(cl, m) ==
  IF ~m.ccs THEN Abort(cl, "unexpected-message:want-change-cipher-spec")
  ELSE IF m.t # 20 \/ m.bad THEN Abort(cl, "unexpected-message:want-finished")
  ELSE IF ~m.ok THEN Abort(cl, "finished-incorrect")
  ELSE IF cl.resumed
       \* resumed: the client's Finished follows the server's (handshake_client.go:617-642)
       THEN Complete([Send(cl, <<CM(20)>>) EXCEPT !.srvFinSeen = TRUE, !.finOrderOK = ~cl.cliFinSent, !.cliFinSent = TRUE])
       \* full: the client's Finished went first (handshake_client.go:643-663)
       ELSE Complete([cl EXCEPT !.srvFinSeen = TRUE, !.finOrderOK = cl.cliFinSent])

\* ---- handleRenegotiation: u_conn.go:960-1008 (a handshake message on an established TLS <= 1.2 connection)
OnPostHandshake(cl, cfg, m) ==
  IF m.t # 0 \/ m.bad THEN Abort(cl, "unexpected-message:post-handshake")
  ELSE IF cfg.policy = 0 \/ (cfg.policy = 1 /\ cl.hs > 1) THEN [cl EXCEPT !.pc = "Refused", !.must = "no-renegotiation"]
  ELSE [cl EXCEPT !.pc = "Start"]

\* ---- one server handshake message reaches the client
Deliver(cl, cfg, m) ==
  CASE cl.pc = "WaitSH" -> OnServerHello(cl, cfg, m)
    [] cl.pc = "WaitCert" -> OnCertificate(cl, m)
    [] cl.pc = "AfterCert" -> OnAfterCert(cl, cfg, m)
    [] cl.pc = "AfterStatus" -> VerifyThen(cl, cfg, m)
    [] cl.pc = "AfterSKE" -> AfterVerify(cl, cfg, m, 1)
    [] cl.pc = "AfterCR" -> AfterVerify(cl, cfg, m, 2)
    [] cl.pc = "WaitNST" -> OnTicket(cl, m, "WaitCCS")
    [] cl.pc = "WaitCCS" -> OnFinished(cl, m)
    [] cl.pc = "R_WaitNST" -> OnTicket(cl, m, "R_WaitCCS")
    [] cl.pc = "R_WaitCCS" -> OnFinished(cl, m)
    [] cl.pc = "Done" -> OnPostHandshake(cl, cfg, m)
    \* Start: the client has not sent its hello yet (a renegotiation hello is on its way): the message waits in the input
    \* Aborted / Refused / TLS13: the client reads no more (TLS13: module Negotiation takes over)
    [] OTHER -> cl

\* the client is blocked in a read: its call returns when the peer closes or the deadline passes
Waiting(cl) == cl.pc \in {"WaitSH", "WaitCert", "AfterCert", "AfterStatus", "AfterSKE", "AfterCR", "WaitNST", "WaitCCS", "R_WaitNST", "R_WaitCCS"}
Stopped(cl) == cl.pc \in {"Aborted", "Refused"}

\* ------------------------------------------------------------ the session cache after a handshake
\* saveSessionTicket (a ticket was received) / eviction after a failed handshake that offered a session
\* (u_handshake_client.go:469-483, RFC 5077 3.2)
SessionOf(cl) == [present |-> TRUE, vers |-> cl.vers, suite |-> cl.suite, ems |-> cl.ems, ticket |-> cl.ticket, leaf |-> cl.leaf,
                  verified |-> cl.verified, ocsp |-> cl.ocsp, scts |-> cl.scts]
CacheAfter(cache, cl) ==
  IF cl.pc = "Done" /\ cl.gotTicket THEN SessionOf(cl)
  ELSE cache
\* a handshake that offered a session and failed throws the session away
Evicts(cl) == cl.offered /\ cl.inHs

\* ------------------------------------------------------------ properties of one established handshake (restated, not via Deliver)
\* C12 / C13: nothing the hello did not offer
OfferedOnly(cl) == cl.pc = "Done" =>
   /\ cl.vers \in cl.o.versions
   /\ cl.suite \in cl.o.suites
   /\ cl.sh.comp = 0
   /\ (cl.alpn # <<>> => cl.alpn \in cl.o.alpn)
   /\ (cl.gotTicket => cl.o.ticketExt)
   /\ ~(772 \in cl.o.versions /\ cl.vers <= 771 /\ cl.sh.canary # 0)
\* C14: the identity the connection reports was verified (or verification was switched off), and never changes
VerifiedIdentity(cl, cfg) == cl.pc = "Done" => (cfg.insecure \/ (cl.verified /\ ValidLeaf(cl.leaf)))
\* C19: a resumed handshake continues exactly the offered session
ResumedAsOffered(cl) == (cl.pc = "Done" /\ cl.resumed) =>
   /\ cl.offered /\ cl.sess.vers = cl.vers /\ cl.sess.suite = cl.suite /\ cl.sess.ems = cl.sh.ems
\* Finished ordering (full: client first; resumed: server first), both verified
FinishedOrder(cl) == cl.pc = "Done" => (cl.srvFinSeen /\ cl.cliFinSent /\ cl.finOrderOK)
=============================================================================
