------------------------------ MODULE C02_Trace ------------------------------
(* Trace validation for C02: one step per harness case (event "Hello").  Whatever the library handed out as
   emitted - Hello.Raw after a successful BuildHandshakeState, the ClientHello found on the wire (TLS record
   payload or QUIC CRYPTO data) - must be a syntactically valid ClientHello: TLSWire!ValidClientHello (framing,
   every length prefix, no repeated extension, pre_shared_key last, each known body under its RFC grammar) plus
   the RFC 6066 rules for the host name that ValidBody does not state (no IP literal, no trailing dot; the name is
   the configured one).  The same holds for every later Raw (marshal after an edit of the built hello) and
   for the second ClientHello after a HelloRetryRequest.  Nothing is required when an error (or a panic) kept the library from emitting anything.
   The case (source, Config variation) is looked up in the scenario file the runner wrote (c02_scn.json). *)
EXTENDS ExtCodec
Scn == JsonDeserialize("c02_scn.json")
Trace == ndJsonDeserialize("c02_trace.ndjson")
VARIABLES l, rej, cov

SniHostOnWire(h) == LET b == ExtBody(h, 0) IN SubSeq(b, 6, Len(b))
\* server_name beyond ValidBody: RFC 6066 section 3
SniProblems(h, cfgsni) ==
  IF ~h.ok \/ ~HasExtT(h, 0) \/ ~ValidBody(0, ExtBody(h, 0)) THEN {}
  ELSE LET host == SniHostOnWire(h) IN
       (IF IsIPLiteral(host) THEN {"sni-ip-literal"} ELSE {})
       \cup (IF host[Len(host)] = 46 THEN {"sni-trailing-dot"} ELSE {})
       \cup (IF host # SNIHost(cfgsni) THEN {"sni-not-the-configured-name"} ELSE {})
HelloProblems(s, cfgsni, tag) ==
  IF ValidClientHello(s) THEN { <<tag, p>> : p \in SniProblems(ParseHello(s), cfgsni) }
  ELSE { <<tag, WhyInvalid(s)>> }

RawEmitted(ev) == ev.built /\ ev.raw # <<>>
Raw2Emitted(ev) == ev.edited /\ ev.raw2 # <<>>           \* the hello marshaled again after an edit of the built state
WireJudged(ev) == ev.onwire /\ ~ev.wiresame
Wire2Judged(ev) == ev.nwire >= 2 /\ ev.wire2 # <<>>       \* the second ClientHello, after a HelloRetryRequest
\* sc.cfg.sni: the configured name; sc.cfg.sni2: the name in force after the case's edit (= sni without an edit)
Judge02(sc, ev) ==
  [bad |-> (IF RawEmitted(ev) THEN HelloProblems(ev.raw, sc.cfg.sni, "raw") ELSE {})
           \cup (IF Raw2Emitted(ev) THEN HelloProblems(ev.raw2, sc.cfg.sni2, "raw2") ELSE {})
           \cup (IF WireJudged(ev) THEN HelloProblems(ev.wire, sc.cfg.sni2, "wire") ELSE {})
           \cup (IF Wire2Judged(ev) THEN HelloProblems(ev.wire2, sc.cfg.sni2, "wire2") ELSE {}),
   tags |-> (IF RawEmitted(ev) THEN {"raw-judged"} ELSE {})
            \cup (IF Raw2Emitted(ev) THEN {"remarshal-judged:" \o sc.edit} ELSE {})
            \cup (IF WireJudged(ev) THEN {"wire-judged"} ELSE {})
            \cup (IF Wire2Judged(ev) THEN {"hrr-second-hello-judged"} ELSE {})
            \cup (IF Wire2Judged(ev) /\ ValidClientHello(ev.wire2) /\ HasExtT(ParseHello(ev.wire2), 44) THEN {"hrr-cookie-echoed"} ELSE {})
            \cup (IF ev.onwire /\ ev.wiresame THEN {"wire-same-as-raw"} ELSE {})
            \cup (IF ~RawEmitted(ev) /\ ~ev.onwire THEN {"nothing-emitted:" \o ev.stage} ELSE {})
            \cup (IF ev.panic # "" THEN {"panic"} ELSE {})
            \cup (IF sc.cfg.quic /\ ev.onwire THEN {"quic"} ELSE {})
            \cup (IF RawEmitted(ev) /\ ValidClientHello(ev.raw) /\ HasExtT(ParseHello(ev.raw), 41) THEN {"psk-present"} ELSE {})
            \cup (IF RawEmitted(ev) /\ ValidClientHello(ev.raw) /\ HasExtT(ParseHello(ev.raw), 21) THEN {"padding-present"} ELSE {})
            \cup (IF RawEmitted(ev) /\ ValidClientHello(ev.raw) /\ ~HasExtT(ParseHello(ev.raw), 0) /\ SNIHost(sc.cfg.sni) = <<>> THEN {"sni-omitted"} ELSE {})]

Init == l = 1 /\ rej = {} /\ cov = {}
Verdict(i) == Judge02(Scn[Trace[i].sc], Trace[i])
Next == /\ l <= Len(Trace)
        /\ \E r \in {Verdict(l)} :
             /\ l' = l + 1
             /\ rej' = IF r.bad = {} THEN rej ELSE rej \cup {l}
             /\ cov' = cov \cup r.tags
Report == (l = Len(Trace) + 1) =>
            /\ PrintT(<<"DONE", l - 1>>)
            /\ PrintT(<<"COV", ToJson(cov)>>)
            /\ \A i \in rej : PrintT(<<"REJ", ToJson([ev |-> i, sc |-> Trace[i].sc, why |-> Verdict(i).bad])>>)
=============================================================================
