------------------------------- MODULE C03 -------------------------------
(* Trace validation for C03: every recorded wire ClientHello of a predefined parrot must be the
   hello its (separately dumped) spec describes.  One step per recorded hello; a hello that the
   spec does not explain is collected in rej (the batch is always read to its end). *)
EXTENDS Parrots
Trace == ndJsonDeserialize("c03_trace.ndjson")
VARIABLES l, rej
Init == l = 1 /\ rej = {}
Explained(ev) == ev.sent /\ HelloMatchesSpec(ev.raw, ev.id, ev.sni)
Good == l <= Len(Trace) /\ Explained(Trace[l]) /\ l' = l + 1 /\ UNCHANGED rej
Skip == l <= Len(Trace) /\ ~Explained(Trace[l]) /\ l' = l + 1 /\ rej' = rej \cup {l}
Next == Good \/ Skip
Report == (l = Len(Trace) + 1) =>
            /\ PrintT(<<"DONE", l - 1>>)
            /\ \A i \in rej : PrintT(<<"REJ", ToJson(<<i, ToString(IF Trace[i].sent THEN WhyMismatch(Trace[i].raw, Trace[i].id, Trace[i].sni) ELSE "nothing-sent")>>)>>)
=============================================================================
