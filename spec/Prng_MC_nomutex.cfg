\* sensitivity run: without the mutex TLC must find a torn read (SliceInv violated)
CONSTANTS
  Threads = {"t1", "t2"}
  Lens = {0, 1, 2}
  MaxCalls = 2
  Mutex = FALSE
SPECIFICATION ISpec
INVARIANT SliceInv
CHECK_DEADLOCK FALSE
