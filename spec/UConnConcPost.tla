---------------------------- MODULE UConnConcPost ----------------------------
(* C26, post-handshake phase of UConnConc: one reader and one writer use an established TLS 1.3 UConn
   while the peer sends KeyUpdate messages (RFC 8446 4.6.3).

     UConn.Read -> handlePostHandshakeMessage -> Conn.handleKeyUpdate     conn.go:1340-1372
         rotates the receiving half c.in, and for update_requested answers with an own KeyUpdate and
         rotates the sending half c.out: reply and rotation are ONE critical section under c.out
     UConn.Write                                                          u_conn.go:445-481
         under c.out: encrypt with (c.out cipher, c.out.seq), increment seq, write the record

   The sending half is modelled as (outEpoch, outSeq), the peer's matching receiving half as
   (srvInEpoch, srvInSeq); a record is accepted by the peer iff it was protected under the epoch and
   sequence number the peer expects (otherwise bad_record_mac).  The writer's critical section is cut
   in two (WLock takes the snapshot it encrypts with, WEmit writes and increments) so that a rotation
   which is NOT inside the lock is visible: AtomicReply = TRUE is the mechanism as coded; with FALSE
   the reply is sent in its own critical section and the rotation happens after the lock was released
   (TLC then finds a record under the old key behind our KeyUpdate, or a stale sequence number) - used
   as the non-vacuity check of the invariants below.

   Event actions (one log line each): WCall/WRet, RCall/RRet (harness goroutines around Write/Read),
   SrvKU, SrvData, SrvClose (the hand-driven peer is about to send), Got (the peer's reader returned
   message id intact / with digest sum).  Internal: WLock, WEmit, ReaderProcessesKeyUpdate (+ Reply /
   Rotate when not atomic), ReaderData, ReaderEOF, SrvRecvKU. *)
EXTENDS Integers, Sequences, FiniteSets, TLC

CONSTANT AtomicReply

VARIABLES
  lim,         \* [nku, nwr : bounds on key updates / writes (model checking only), deadline, slack : ms]
  outLock,     \* owner of c.out: "free" | "reader" | "writer"
  outEpoch, outSeq,        \* client's sending half: key generation, next sequence number
  wHeld,       \* what the writer encrypts with: snapshot [epoch, seq] taken inside its critical section
  c2s,         \* records client -> server in flight: [kind : "app"|"ku", epoch, seq, id, sum]
  srvInEpoch, srvInSeq,    \* the peer's receiving half for that direction
  s2c,         \* messages server -> client in flight: [kind : "ku"|"data"|"eof", req, epoch]
  srvOutEpoch, inEpoch,    \* the other direction: peer's sending generation, client's receiving generation
  wpc, rpc,    \* writer / reader control point
  wN,          \* Write calls made so far (ids 1..wN)
  wSum,        \* [id -> digest of the bytes handed to Write]
  wOk,         \* ids whose Write returned nil
  delivered,   \* ids the peer accepted and returned to its application, in order
  peerErr,     \* the peer rejected a record (bad_record_mac / unexpected sequence)
  cliErr,      \* the client rejected a record
  kuSent, srvClosed

vars == <<lim, outLock, outEpoch, outSeq, wHeld, c2s, srvInEpoch, srvInSeq, s2c, srvOutEpoch, inEpoch,
          wpc, rpc, wN, wSum, wOk, delivered, peerErr, cliErr, kuSent, srvClosed>>

InitWith(l) ==
  /\ lim = l
  /\ outLock = "free" /\ outEpoch = 0 /\ outSeq = 0 /\ wHeld = [epoch |-> 0, seq |-> 0]
  /\ c2s = <<>> /\ srvInEpoch = 0 /\ srvInSeq = 0
  /\ s2c = <<>> /\ srvOutEpoch = 0 /\ inEpoch = 0
  /\ wpc = "idle" /\ rpc = "idle" /\ wN = 0 /\ wSum = <<>> /\ wOk = {}
  /\ delivered = <<>> /\ peerErr = FALSE /\ cliErr = FALSE /\ kuSent = 0 /\ srvClosed = FALSE

(* ------------------------------------------------------------------ the peer (hand-driven tls.Server) *)

\* VerifSendKeyUpdate(srv, req): KeyUpdate under the current sending keys, then rotate them
SrvKU(req) ==
  /\ ~srvClosed
  /\ s2c' = Append(s2c, [kind |-> "ku", req |-> req, epoch |-> srvOutEpoch])
  /\ srvOutEpoch' = srvOutEpoch + 1
  /\ kuSent' = kuSent + 1
  /\ UNCHANGED <<lim, outLock, outEpoch, outSeq, wHeld, c2s, srvInEpoch, srvInSeq, inEpoch,
                 wpc, rpc, wN, wSum, wOk, delivered, peerErr, cliErr, srvClosed>>
SrvData ==
  /\ ~srvClosed
  /\ s2c' = Append(s2c, [kind |-> "data", req |-> FALSE, epoch |-> srvOutEpoch])
  /\ UNCHANGED <<lim, outLock, outEpoch, outSeq, wHeld, c2s, srvInEpoch, srvInSeq, srvOutEpoch, inEpoch,
                 wpc, rpc, wN, wSum, wOk, delivered, peerErr, cliErr, kuSent, srvClosed>>
\* srv.CloseWrite(): close_notify
SrvClose ==
  /\ ~srvClosed
  /\ srvClosed' = TRUE
  /\ s2c' = Append(s2c, [kind |-> "eof", req |-> FALSE, epoch |-> srvOutEpoch])
  /\ UNCHANGED <<lim, outLock, outEpoch, outSeq, wHeld, c2s, srvInEpoch, srvInSeq, srvOutEpoch, inEpoch,
                 wpc, rpc, wN, wSum, wOk, delivered, peerErr, cliErr, kuSent>>

Expected(r) == r.epoch = srvInEpoch /\ r.seq = srvInSeq
\* the peer reads the client's KeyUpdate: rotate its receiving half
SrvRecvKU ==
  /\ c2s # <<>> /\ Head(c2s).kind = "ku" /\ ~peerErr
  /\ c2s' = Tail(c2s)
  /\ IF Expected(Head(c2s)) THEN srvInEpoch' = srvInEpoch + 1 /\ srvInSeq' = 0 /\ UNCHANGED peerErr
                            ELSE peerErr' = TRUE /\ UNCHANGED <<srvInEpoch, srvInSeq>>
  /\ UNCHANGED <<lim, outLock, outEpoch, outSeq, wHeld, s2c, srvOutEpoch, inEpoch,
                 wpc, rpc, wN, wSum, wOk, delivered, cliErr, kuSent, srvClosed>>
\* the peer's application got message id with digest sum (event).  A record it cannot authenticate
\* sets peerErr instead (SrvReject): nothing is ever delivered after that.
Got(id, sum) ==
  /\ c2s # <<>> /\ Head(c2s).kind = "app" /\ ~peerErr
  /\ Expected(Head(c2s)) /\ Head(c2s).id = id /\ Head(c2s).sum = sum
  /\ c2s' = Tail(c2s) /\ srvInSeq' = srvInSeq + 1
  /\ delivered' = Append(delivered, id)
  /\ UNCHANGED <<lim, outLock, outEpoch, outSeq, wHeld, srvInEpoch, s2c, srvOutEpoch, inEpoch,
                 wpc, rpc, wN, wSum, wOk, peerErr, cliErr, kuSent, srvClosed>>
SrvReject ==
  /\ c2s # <<>> /\ Head(c2s).kind = "app" /\ ~peerErr /\ ~Expected(Head(c2s))
  /\ peerErr' = TRUE
  /\ UNCHANGED <<lim, outLock, outEpoch, outSeq, wHeld, c2s, srvInEpoch, srvInSeq, s2c, srvOutEpoch, inEpoch,
                 wpc, rpc, wN, wSum, wOk, delivered, cliErr, kuSent, srvClosed>>

(* ------------------------------------------------------------------ the writer *)

WCall(id, sum) ==
  /\ wpc = "idle" /\ id = wN + 1
  /\ wN' = id /\ wSum' = Append(wSum, sum) /\ wpc' = "want"
  /\ UNCHANGED <<lim, outLock, outEpoch, outSeq, wHeld, c2s, srvInEpoch, srvInSeq, s2c, srvOutEpoch, inEpoch,
                 rpc, wOk, delivered, peerErr, cliErr, kuSent, srvClosed>>
\* c.out.Lock(); encrypt with the current cipher and sequence number      u_conn.go:445, conn.go encrypt
WLock ==
  /\ wpc = "want" /\ outLock = "free"
  /\ outLock' = "writer" /\ wHeld' = [epoch |-> outEpoch, seq |-> outSeq] /\ wpc' = "enc"
  /\ UNCHANGED <<lim, outEpoch, outSeq, c2s, srvInEpoch, srvInSeq, s2c, srvOutEpoch, inEpoch,
                 rpc, wN, wSum, wOk, delivered, peerErr, cliErr, kuSent, srvClosed>>
\* incSeq, write the record, c.out.Unlock()
WEmit ==
  /\ wpc = "enc"
  /\ c2s' = Append(c2s, [kind |-> "app", epoch |-> wHeld.epoch, seq |-> wHeld.seq, id |-> wN, sum |-> wSum[wN]])
  /\ outSeq' = outSeq + 1
  /\ outLock' = "free" /\ wpc' = "toret"
  /\ UNCHANGED <<lim, outEpoch, wHeld, srvInEpoch, srvInSeq, s2c, srvOutEpoch, inEpoch,
                 rpc, wN, wSum, wOk, delivered, peerErr, cliErr, kuSent, srvClosed>>
\* WriterWrite: the whole critical section as one step.  Equivalent to WLock;WEmit whenever nothing that
\* touches the sending half can run while the lock is held, i.e. for AtomicReply = TRUE (used by the
\* trace specification, where it keeps the search small).
WriterWrite ==
  /\ wpc = "want" /\ outLock = "free"
  /\ c2s' = Append(c2s, [kind |-> "app", epoch |-> outEpoch, seq |-> outSeq, id |-> wN, sum |-> wSum[wN]])
  /\ outSeq' = outSeq + 1
  /\ wpc' = "toret"
  /\ UNCHANGED <<lim, outLock, outEpoch, wHeld, srvInEpoch, srvInSeq, s2c, srvOutEpoch, inEpoch,
                 rpc, wN, wSum, wOk, delivered, peerErr, cliErr, kuSent, srvClosed>>
\* Write returned nil (an error return is never explained in this phase)
WRet(id) ==
  /\ wpc = "toret" /\ id = wN
  /\ wOk' = wOk \cup {id} /\ wpc' = "idle"
  /\ UNCHANGED <<lim, outLock, outEpoch, outSeq, wHeld, c2s, srvInEpoch, srvInSeq, s2c, srvOutEpoch, inEpoch,
                 rpc, wN, wSum, delivered, peerErr, cliErr, kuSent, srvClosed>>

(* ------------------------------------------------------------------ the reader *)

RCall ==
  /\ rpc = "idle" /\ rpc' = "reading"
  /\ UNCHANGED <<lim, outLock, outEpoch, outSeq, wHeld, c2s, srvInEpoch, srvInSeq, s2c, srvOutEpoch, inEpoch,
                 wpc, wN, wSum, wOk, delivered, peerErr, cliErr, kuSent, srvClosed>>

HeadIs(k) == s2c # <<>> /\ Head(s2c).kind = k
\* handleKeyUpdate: rotate c.in; if update_requested: c.out.Lock(); send KeyUpdate; rotate c.out; Unlock()
\* - reply and rotation as one atomic step under the out lock                conn.go:1351-1369
ReaderProcessesKeyUpdate ==
  /\ rpc = "reading" /\ HeadIs("ku")
  /\ s2c' = Tail(s2c)
  /\ cliErr' = (cliErr \/ Head(s2c).epoch # inEpoch)
  /\ inEpoch' = inEpoch + 1
  /\ IF ~Head(s2c).req THEN UNCHANGED <<outLock, outEpoch, outSeq, c2s, rpc>>
     ELSE IF AtomicReply THEN
          /\ outLock = "free"
          /\ c2s' = Append(c2s, [kind |-> "ku", epoch |-> outEpoch, seq |-> outSeq, id |-> 0, sum |-> 0])
          /\ outEpoch' = outEpoch + 1 /\ outSeq' = 0
          /\ UNCHANGED <<outLock, rpc>>
     ELSE /\ rpc' = "reply" /\ UNCHANGED <<outLock, outEpoch, outSeq, c2s>>
  /\ UNCHANGED <<lim, wHeld, srvInEpoch, srvInSeq, srvOutEpoch, wpc, wN, wSum, wOk, delivered, peerErr, kuSent, srvClosed>>
\* (only when ~AtomicReply) the reply in a critical section of its own ...
Reply ==
  /\ rpc = "reply" /\ outLock = "free"
  /\ c2s' = Append(c2s, [kind |-> "ku", epoch |-> outEpoch, seq |-> outSeq, id |-> 0, sum |-> 0])
  /\ outSeq' = outSeq + 1
  /\ rpc' = "rotate"
  /\ UNCHANGED <<lim, outLock, outEpoch, wHeld, srvInEpoch, srvInSeq, s2c, srvOutEpoch, inEpoch,
                 wpc, wN, wSum, wOk, delivered, peerErr, cliErr, kuSent, srvClosed>>
\* ... and the rotation without the lock
Rotate ==
  /\ rpc = "rotate"
  /\ outEpoch' = outEpoch + 1 /\ outSeq' = 0
  /\ rpc' = "reading"
  /\ UNCHANGED <<lim, outLock, wHeld, c2s, srvInEpoch, srvInSeq, s2c, srvOutEpoch, inEpoch,
                 wpc, wN, wSum, wOk, delivered, peerErr, cliErr, kuSent, srvClosed>>
\* application data: Read returns it
ReaderData ==
  /\ rpc = "reading" /\ HeadIs("data")
  /\ s2c' = Tail(s2c)
  /\ cliErr' = (cliErr \/ Head(s2c).epoch # inEpoch)
  /\ rpc' = "toret_data"
  /\ UNCHANGED <<lim, outLock, outEpoch, outSeq, wHeld, c2s, srvInEpoch, srvInSeq, srvOutEpoch, inEpoch,
                 wpc, wN, wSum, wOk, delivered, peerErr, kuSent, srvClosed>>
\* close_notify: Read returns io.EOF
ReaderEOF ==
  /\ rpc = "reading" /\ HeadIs("eof")
  /\ s2c' = Tail(s2c)
  /\ rpc' = "toret_eof"
  /\ UNCHANGED <<lim, outLock, outEpoch, outSeq, wHeld, c2s, srvInEpoch, srvInSeq, srvOutEpoch, inEpoch,
                 wpc, wN, wSum, wOk, delivered, peerErr, cliErr, kuSent, srvClosed>>
\* what: "data" (n > 0, nil) or "eof"
RRet(what) ==
  /\ rpc = "toret_" \o what
  /\ rpc' = IF what = "eof" THEN "done" ELSE "idle"
  /\ UNCHANGED <<lim, outLock, outEpoch, outSeq, wHeld, c2s, srvInEpoch, srvInSeq, s2c, srvOutEpoch, inEpoch,
                 wpc, wN, wSum, wOk, delivered, peerErr, cliErr, kuSent, srvClosed>>

Tau == WLock \/ WEmit \/ ReaderProcessesKeyUpdate \/ Reply \/ Rotate \/ ReaderData \/ ReaderEOF \/ SrvRecvKU \/ SrvReject

(* ------------------------------------------------------------------ properties *)

\* would the peer accept every record that is in flight, in order?
RECURSIVE AcceptsAll(_, _, _)
AcceptsAll(q, e, n) ==
  IF q = <<>> THEN TRUE
  ELSE /\ Head(q).epoch = e /\ Head(q).seq = n
       /\ IF Head(q).kind = "ku" THEN AcceptsAll(Tail(q), e + 1, 0) ELSE AcceptsAll(Tail(q), e, n + 1)
\* every record the client emits is accepted by the peer: key epoch = the peer's expected epoch, sequence contiguous
EveryRecordAccepted == ~peerErr /\ ~cliErr /\ AcceptsAll(c2s, srvInEpoch, srvInSeq)
\* what the peer's application sees is exactly the written stream, in order
InOrder == \A i \in DOMAIN delivered : delivered[i] = i
\* the sending half is only touched inside the lock
SeqMatchesLock == (wpc = "enc") => outLock = "writer"
SafetyPost == EveryRecordAccepted /\ InOrder /\ SeqMatchesLock
\* end of a run: everything Write accepted has arrived
AllDelivered == Len(delivered) = wN /\ wOk = 1..wN /\ c2s = <<>>
=============================================================================
