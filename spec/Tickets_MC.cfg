\* every history of MaxLen steps (MaxLen, alphabets rewritten per tier by props/C35.py)
CONSTANTS
  KeyIds = {1, 2}
  States = {1}
  Bits = {5, 1000002}
  Cuts = {1, 1000}
  Hours = {25, 170}
  MaxLen = 4
  MaxTix = 3
  TLen = 60
  Ops = {"SetKeys", "Advance", "Encrypt", "Flip", "Truncate", "Extend", "Decrypt", "Indep", "Recheck", "Reread"}
  Mode = "tickets"
  Versions = {771}
  Suites = {49199}
  Hellos = {"Golang-0"}
  Suites13 = {4865}
  Hellos13 = {"Golang-0"}
  ExtraLens13 = {}
  SecretLens = {48}
INIT Init
NEXT Next
INVARIANTS Authentic RoundTrip KeysSane Agree HeldStable
CONSTRAINT Emit
CHECK_DEADLOCK FALSE
