----------------------------- MODULE Record_MC -----------------------------
(***************************************************************************)
(* Bounded exhaustive exploration of Record: every sequence of at most     *)
(* MaxOps operations (writes of the boundary sizes by either side, reads,  *)
(* TLS 1.3 key updates with and without update_requested, one in-flight    *)
(* alteration, Close, keystream queries) in each of the three behaviour    *)
(* classes.  Checks the model properties on every reachable state and      *)
(* emits one scenario per terminal state for replay on the real code       *)
(* (PrintT SCN lines; the operation history is hidden from the VIEW).      *)
(***************************************************************************)
EXTENDS Record, Json

CONSTANTS Classes,     \* subset of {"cbc10", "tls12", "tls13"}
          Forged,      \* TRUE: start from InitForged (C27; adds the class "nil" = unsupported suite)
          Sizes,       \* write sizes
          ReadSizes,   \* read buffer sizes
          KsSizes,     \* GetOutKeystream lengths
          KsSides,     \* sides that have GetOutKeystream (only the UConn, i.e. "c")
          MaxOps, MaxW, MaxKU, MaxMut, MaxClose, MaxKs,
          BurstSizes,  \* k: "k key updates in a row from one side" as ONE step (TLS 1.3; {} = off)
          UploadRounds, UploadSizes, \* k, n: "k times (write n bytes; the receiver sends a KeyUpdate)" as ONE step
          MaxBurst,    \* how many such macro steps per scenario
          DynChoices,  \* subset of BOOLEAN: dynamic record sizing on / off (chosen in Init)
          PadSizes, PadLens, MaxPad,  \* a padding peer: data sizes, padding lengths (99999: pad the record to 2^14 - 1), how often
          HalfOps,     \* subset of {"CW", "WD"}: CloseWrite / a passed write deadline (the side keeps reading)
          MaxHalf,
          Paths        \* TRUE: the history is part of the state (every path is a scenario)

VARIABLES st, hist, cnt, class, dyn
vars == <<st, hist, cnt, class, dyn>>
View == IF Paths THEN <<st, hist, class>> ELSE <<st, cnt, class, Len(hist)>>     \* (dyn is st.q.dyn)

Init ==
  /\ class \in Classes \cup (IF Forged THEN {"nil"} ELSE {})
  /\ dyn \in DynChoices
  /\ st = IF class = "nil" THEN InitForged(ClassProfile("tls12"), FALSE)
          ELSE IF Forged THEN InitForged(WithDyn(ClassProfile(class), dyn), TRUE) ELSE InitLive(WithDyn(ClassProfile(class), dyn))
  /\ hist = <<>>
  /\ cnt = [w |-> 0, ku |-> 0, mut |-> 0, cl |-> 0, ks |-> 0, b |-> 0, h |-> 0, p |-> 0]

\* (\E r \in {e} : ... evaluates e once; TLC re-evaluates a LET definition at every use)
Step(r, h, c) == r.ok /\ st' = r.s /\ hist' = Append(hist, h) /\ cnt' = c /\ UNCHANGED <<class, dyn>>

\* a Read that would block for ever is not an interesting scenario (the trace specification still knows
\* what it must do: time out): require something that ends the call
RECURSIVE Ends(_, _, _)
Ends(lst, r, n) == IF lst = <<>> \/ n = 0 THEN FALSE
                   ELSE LET h == Head(lst) IN
                        IF ~Opens(h, r) THEN TRUE
                        ELSE IF h.typ = "ku" THEN Ends(Tail(lst), [r EXCEPT !.ep = @ + 1, !.seq = 0], n - 1)
                        ELSE IF h.typ = "app" /\ h.hi = 0 THEN Ends(Tail(lst), [r EXCEPT !.seq = @ + 1], n - 1)
                        ELSE TRUE
ReadUseful(x, k) == ~st.wr[x].closed /\ (k = 0 \/ st.rd[x].buf > 0 \/ (st.rd[x].err = "none" /\ Ends(st.net[Peer(x)], st.rd[x], 256)))

Write(x, n) == /\ cnt.w < MaxW
               /\ \E r \in {DoWrite(st, x, n, IF Usable(st, x) THEN Exact(ModelFrags(st, x, n)) ELSE <<>>)} :
                  Step(r, [op |-> "W", x |-> x, n |-> n], [cnt EXCEPT !.w = @ + 1])
Read(x, k, al, pk) == /\ ReadUseful(x, k)
                      /\ \E r \in {DoRead(st, x, k, [L |-> 0, alert |-> al, peek |-> pk])} :
                         Step(r, [op |-> "R", x |-> x, k |-> k], cnt)
KeyUpdate(x, req) == /\ cnt.ku < MaxKU /\ st.q.ku /\ Usable(st, x)
                     /\ \E r \in {DoKeyUpdate(st, x, req)} :
                        Step(r, [op |-> "KU", x |-> x, req |-> req], [cnt EXCEPT !.ku = @ + 1])
Close(x) == /\ cnt.cl < MaxClose /\ ~st.wr[x].dead /\ ~st.wr[x].closed
            /\ \E r \in {DoClose(st, x, ~st.wr[x].shut)} : Step(r, [op |-> "C", x |-> x], [cnt EXCEPT !.cl = @ + 1])
Mutate(x, i) == /\ cnt.mut < MaxMut /\ st.rd[Peer(x)].err = "none"
                /\ \E r \in {DoMutate(st, x, i)} : Step(r, [op |-> "M", x |-> x, i |-> i], [cnt EXCEPT !.mut = @ + 1])
Ks(x, n) == /\ cnt.ks < MaxKs /\ ~st.wr[x].dead /\ ~st.wr[x].closed
            /\ \E r \in {DoKeystream(st, x)} : Step(r, [op |-> "K", x |-> x, n |-> n], [cnt EXCEPT !.ks = @ + 1])

\* Long runs of post-handshake messages without application data in between (conn.go retryCount /
\* maxUselessRecords: only NON-advancing records may be counted against the limit, a KeyUpdate advances):
\* k consecutive key updates of one side, and an upload during which only the receiver rekeys.
RECURSIVE KUTimes(_, _, _, _)
KUTimes(s, x, req, k) == IF k = 0 THEN s ELSE KUTimes(DoKeyUpdate(s, x, req).s, x, req, k - 1)
RECURSIVE UploadTimes(_, _, _, _, _)
UploadTimes(s, x, n, req, k) ==
  IF k = 0 THEN s
  ELSE UploadTimes(DoKeyUpdate(DoWrite(s, x, n, Exact(ModelFrags(s, x, n))).s, Peer(x), req).s, x, n, req, k - 1)
\* k x (write n bytes; a KeyUpdate of the same side): data and key updates interleaved, e.g. towards a half-closed peer
RECURSIVE MixedTimes(_, _, _, _, _)
MixedTimes(s, x, n, req, k) ==
  IF k = 0 THEN s
  ELSE MixedTimes(DoKeyUpdate(DoWrite(s, x, n, Exact(ModelFrags(s, x, n))).s, x, req).s, x, n, req, k - 1)
Mixed(x, n, req, k) == /\ cnt.b < MaxBurst /\ st.q.ku /\ Usable(st, x)
                       /\ st' = MixedTimes(st, x, n, req, k)
                       /\ hist' = Append(hist, [op |-> "UPS", x |-> x, n |-> n, req |-> req, k |-> k])
                       /\ cnt' = [cnt EXCEPT !.b = @ + 1] /\ UNCHANGED <<class, dyn>>
PadLen(n, pad) == IF pad = 99999 THEN MaxPlain - 1 - n ELSE pad
WritePadded(x, n, pad) == /\ cnt.p < MaxPad /\ st.q.ku /\ Usable(st, x)
                          /\ \E r \in {DoWritePadded(st, x, n, PadLen(n, pad))} :
                                Step(r, [op |-> "WP", x |-> x, n |-> n, pad |-> PadLen(n, pad)], [cnt EXCEPT !.p = @ + 1])
CloseWriteOp(x) == /\ "CW" \in HalfOps /\ cnt.h < MaxHalf /\ Usable(st, x)
                   /\ \E r \in {DoCloseWrite(st, x, TRUE)} : Step(r, [op |-> "CW", x |-> x], [cnt EXCEPT !.h = @ + 1])
WriteDeadlineOp(x) == /\ "WD" \in HalfOps /\ cnt.h < MaxHalf /\ Usable(st, x)
                      /\ \E r \in {DoWriteDeadlinePast(st, x)} : Step(r, [op |-> "WD", x |-> x], [cnt EXCEPT !.h = @ + 1])
Burst(x, req, k) == /\ cnt.b < MaxBurst /\ st.q.ku /\ Usable(st, x)
                    /\ st' = KUTimes(st, x, req, k)
                    /\ hist' = Append(hist, [op |-> "KUB", x |-> x, req |-> req, k |-> k])
                    /\ cnt' = [cnt EXCEPT !.b = @ + 1] /\ UNCHANGED <<class, dyn>>
Upload(x, n, req, k) == /\ cnt.b < MaxBurst /\ st.q.ku /\ Usable(st, x) /\ Usable(st, Peer(x))
                        /\ st' = UploadTimes(st, x, n, req, k)
                        /\ hist' = Append(hist, [op |-> "UPL", x |-> x, n |-> n, req |-> req, k |-> k])
                        /\ cnt' = [cnt EXCEPT !.b = @ + 1] /\ UNCHANGED <<class, dyn>>

\* the implementation's free choices only matter once an attacker or a Close is in play
AlertChoices == IF cnt.mut > 0 THEN BOOLEAN ELSE {TRUE}
PeekChoices == IF cnt.mut > 0 \/ cnt.cl > 0 THEN BOOLEAN ELSE {FALSE}

Next ==
  /\ Len(hist) < MaxOps
  /\ st.live
  /\ \/ \E x \in Sides, n \in Sizes : Write(x, n)
     \/ \E x \in Sides, k \in ReadSizes, al \in AlertChoices, pk \in PeekChoices : Read(x, k, al, pk)
     \/ \E x \in Sides, req \in BOOLEAN : KeyUpdate(x, req)
     \/ \E x \in Sides : Close(x)
     \/ \E x \in Sides : \E i \in 1..(Len(st.net[x]) - st.dl[x]) : Mutate(x, i)
     \/ \E x \in KsSides, n \in KsSizes : Ks(x, n)
     \/ \E x \in Sides, req \in BOOLEAN, k \in BurstSizes : Burst(x, req, k)
     \/ \E x \in Sides, n \in UploadSizes, req \in BOOLEAN, k \in UploadRounds : Upload(x, n, req, k)
     \/ \E x \in Sides, n \in UploadSizes, req \in BOOLEAN, k \in UploadRounds : HalfOps # {} /\ Mixed(x, n, req, k)
     \/ \E x \in Sides : CloseWriteOp(x) \/ WriteDeadlineOp(x)
     \/ \E x \in Sides, n \in PadSizes, pad \in PadLens : WritePadded(x, n, pad)

Spec == Init /\ [][Next]_vars

\* ---- model properties (Record.tla) ----
InvStreamPrefix == StreamPrefix(st)
InvNothingPastMutation == NothingPastMutation(st)
InvNoSpuriousError == NoSpuriousError(st)
InvInSync == InSync(st)
InvReadsSurvive == ReadsSurviveOwnWriteFailure(st)
\* a keystream query changes nothing (C28, "pure query")
PropKsPure == [][(\E x \in KsSides, n \in KsSizes : Ks(x, n)) => st' = st]_vars
PropSticky == [][Sticky(st, st')]_vars

\* ---- scenario emission ----
Terminal == Len(hist) = MaxOps \/ ~st.live
Emit == Terminal => PrintT(<<"SCN", ToJson([class |-> class, dyn |-> dyn, ops |-> hist])>>)
=============================================================================
