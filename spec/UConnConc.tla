------------------------------ MODULE UConnConc ------------------------------
(* C26 - concurrent use of one UConn.  Mechanism-level model of

     UConn.handshakeContext          u_conn.go:317-423  (handshakeMutex, interrupter goroutine,
                                                          isHandshakeComplete, handshakeErr)
     UConn.Read / UConn.Write        u_conn.go:862, 428 (both call c.Handshake() first; Write has the
                                                          activeCall interlock)
     Conn.Close / CloseWrite / closeNotify   conn.go:1426-1487

   written to be bound: the code is cut at the verif gates H10 (verifGate(c, "<point>") at
   entry / locked / pre_fn / post_fn / intr_ctx / intr_done).  There are three kinds of actions:

     * event actions, each of which is one line of the recorded log and is written by the goroutine
       that performs the step:  Call, Ret (harness goroutine before/after the API call),
       Arrive, Pass (inside verifGate: the goroutine reached the gate / was let through),
       ConnCloseEv (the transport wrapper, immediately before the underlying Close), PeerRelease;
     * internal actions (tau), one per critical section of the code between two gates; they are the
       linearisation points and are never logged (no wall-clock merging: the trace specification
       searches for their position);
     * environment: CancelEff (the context becomes done), Timeout (the I/O deadline passes).

   Processes: handshakers h1..h3 (HandshakeContext with an own context, cancellable or Background),
   their interrupter goroutines, a canceller per context, a Closer (Close or CloseWrite), a Reader, a
   Writer, a Peer that answers (once released) or stalls.

   Not modelled (argued, not checked): c.in is taken by a handshaker only when !isHandshakeComplete
   under handshakeMutex, and by Read only after Handshake() returned nil, so the two never contend;
   c.out is only held for bounded writes on the buffered transport.  BuildHandshakeState is assumed
   to succeed (valid configuration). *)
EXTENDS Integers, Sequences, FiniteSets, TLC

HSU   == {"h1", "h2", "h3"}                      \* universe of explicit handshakers
HP    == HSU \cup {"reader", "writer"}          \* everything that runs handshakeContext
Procs == HP \cup {"closer"}
Gates == {"entry", "locked", "pre_fn", "post_fn"}

VARIABLES
  cfg,        \* scenario: [hs, cancellable, cancels : subsets of HSU, reader, writer : BOOLEAN,
              \*            closer : "none"|"Close"|"CloseWrite", peer : "answer"|"stall",
              \*            gated, ordered : BOOLEAN, deadline, slack : ms  (the last four: trace validation only)]
  pc,         \* [Procs -> control point]
  hsret,      \* [HP -> result of the handshakeContext call: "none"|"nil"|"err"|"ctx"]
  retv,       \* [Procs -> result of the API call]
  intr,       \* [HSU -> interrupter goroutine control point]
  doneCh,     \* [HSU -> BOOLEAN]  close(done) executed          u_conn.go:343
  ctxDone,    \* [HSU -> BOOLEAN]  the caller's context is done
  cancPc,     \* [HSU -> "idle"|"called"|"done"|"returned"]  the cancel() call for that context
  hmu,        \* owner of c.handshakeMutex or "free"
  hsErr,      \* c.handshakeErr != nil
  complete,   \* c.isHandshakeComplete
  connClosed, \* underlying transport closed by this side
  closedBit,  \* activeCall & 1
  active,     \* activeCall >> 1  (writes in flight)
  cnSent,     \* c.closeNotifySent
  cAlert,     \* closeNotify returned an error (Close reports it after closing)
  fnBad,      \* [HP -> BOOLEAN] transport was already closed when handshakeFn started
  timedOut,   \* the I/O deadline has passed
  peerRel     \* the peer (tls.Server goroutine) has been let run

vars == <<cfg, pc, hsret, retv, intr, doneCh, ctxDone, cancPc, hmu, hsErr, complete, connClosed,
          closedBit, active, cnSent, cAlert, fnBad, timedOut, peerRel>>

ActiveHP(c) == c.hs \cup (IF c.reader THEN {"reader"} ELSE {}) \cup (IF c.writer THEN {"writer"} ELSE {})
ActiveProcs(c) == ActiveHP(c) \cup (IF c.closer # "none" THEN {"closer"} ELSE {})

InitWith(c) ==
  /\ cfg = c
  /\ pc = [p \in Procs |-> "idle"]
  /\ hsret = [p \in HP |-> "none"]
  /\ retv = [p \in Procs |-> "none"]
  /\ intr = [p \in HSU |-> "none"]
  /\ doneCh = [p \in HSU |-> FALSE]
  /\ ctxDone = [p \in HSU |-> FALSE]
  /\ cancPc = [p \in HSU |-> "idle"]
  /\ hmu = "free" /\ hsErr = FALSE /\ complete = FALSE /\ connClosed = FALSE
  /\ closedBit = FALSE /\ active = 0 /\ cnSent = FALSE /\ cAlert = FALSE
  /\ fnBad = [p \in HP |-> FALSE]
  /\ timedOut = FALSE /\ peerRel = FALSE

Goto(p, l) == pc' = [pc EXCEPT ![p] = l]

(* ------------------------------------------------------------------ event actions *)

\* the harness goroutine p is about to call its API function
Call(p) ==
  /\ p \in ActiveProcs(cfg) /\ pc[p] = "idle"
  /\ Goto(p, CASE p = "writer" -> "w_enter" [] p = "closer" -> "c_start" [] OTHER -> "to_g_entry")
  /\ UNCHANGED <<cfg, hsret, retv, intr, doneCh, ctxDone, cancPc, hmu, hsErr, complete, connClosed,
                 closedBit, active, cnSent, cAlert, fnBad, timedOut, peerRel>>

\* p reached verifGate(c, g)
Arrive(p, g) ==
  /\ p \in HP /\ g \in Gates /\ pc[p] = "to_g_" \o g
  /\ Goto(p, "g_" \o g)
  /\ UNCHANGED <<cfg, hsret, retv, intr, doneCh, ctxDone, cancPc, hmu, hsErr, complete, connClosed,
                 closedBit, active, cnSent, cAlert, fnBad, timedOut, peerRel>>

\* p is let through gate g; passing pre_fn starts handshakeFn          u_conn.go:383
Pass(p, g) ==
  /\ p \in HP /\ g \in Gates /\ pc[p] = "g_" \o g
  /\ Goto(p, IF g = "pre_fn" THEN "infn" ELSE "a_" \o g)
  /\ fnBad' = IF g = "pre_fn" THEN [fnBad EXCEPT ![p] = connClosed] ELSE fnBad
  /\ UNCHANGED <<cfg, hsret, retv, intr, doneCh, ctxDone, cancPc, hmu, hsErr, complete, connClosed,
                 closedBit, active, cnSent, cAlert, timedOut, peerRel>>

\* the interrupter of p reached / passed its gate in the chosen select branch  u_conn.go:351,355
ArriveI(p, g) ==
  /\ p \in HSU /\ g \in {"intr_ctx", "intr_done"}
  /\ intr[p] = (IF g = "intr_ctx" THEN "to_g_ctx" ELSE "to_g_done")
  /\ intr' = [intr EXCEPT ![p] = IF g = "intr_ctx" THEN "g_ctx" ELSE "g_done"]
  /\ UNCHANGED <<cfg, pc, hsret, retv, doneCh, ctxDone, cancPc, hmu, hsErr, complete, connClosed,
                 closedBit, active, cnSent, cAlert, fnBad, timedOut, peerRel>>

PassI(p, g) ==
  /\ p \in HSU /\ g \in {"intr_ctx", "intr_done"}
  /\ intr[p] = (IF g = "intr_ctx" THEN "g_ctx" ELSE "g_done")
  /\ intr' = [intr EXCEPT ![p] = IF g = "intr_ctx" THEN "a_ctx" ELSE "a_done"]
  /\ UNCHANGED <<cfg, pc, hsret, retv, doneCh, ctxDone, cancPc, hmu, hsErr, complete, connClosed,
                 closedBit, active, cnSent, cAlert, fnBad, timedOut, peerRel>>

\* the transport's Close is being called by the interrupter of p          u_conn.go:353
ConnCloseI(p) ==
  /\ p \in HSU /\ intr[p] = "a_ctx"
  /\ intr' = [intr EXCEPT ![p] = "closing"]
  /\ UNCHANGED <<cfg, pc, hsret, retv, doneCh, ctxDone, cancPc, hmu, hsErr, complete, connClosed,
                 closedBit, active, cnSent, cAlert, fnBad, timedOut, peerRel>>

\* ... by the Closer (Conn.Close)                                         conn.go:1445,1455
ConnCloseC ==
  /\ pc["closer"] = "c_toclose"
  /\ Goto("closer", "c_closing")
  /\ UNCHANGED <<cfg, hsret, retv, intr, doneCh, ctxDone, cancPc, hmu, hsErr, complete, connClosed,
                 closedBit, active, cnSent, cAlert, fnBad, timedOut, peerRel>>

\* the API call of p returned
Ret(p) ==
  /\ p \in Procs /\ pc[p] = "to_ret"
  /\ Goto(p, "returned")
  /\ UNCHANGED <<cfg, hsret, retv, intr, doneCh, ctxDone, cancPc, hmu, hsErr, complete, connClosed,
                 closedBit, active, cnSent, cAlert, fnBad, timedOut, peerRel>>

\* canceller: cancel() of p's context is called / has returned
CancelCall(p) ==
  /\ p \in cfg.cancels /\ cancPc[p] = "idle"
  /\ cancPc' = [cancPc EXCEPT ![p] = "called"]
  /\ UNCHANGED <<cfg, pc, hsret, retv, intr, doneCh, ctxDone, hmu, hsErr, complete, connClosed,
                 closedBit, active, cnSent, cAlert, fnBad, timedOut, peerRel>>
CancelRet(p) ==
  /\ p \in HSU /\ cancPc[p] = "done"
  /\ cancPc' = [cancPc EXCEPT ![p] = "returned"]
  /\ UNCHANGED <<cfg, pc, hsret, retv, intr, doneCh, ctxDone, hmu, hsErr, complete, connClosed,
                 closedBit, active, cnSent, cAlert, fnBad, timedOut, peerRel>>

PeerRelease ==
  /\ cfg.peer = "answer" /\ ~peerRel
  /\ peerRel' = TRUE
  /\ UNCHANGED <<cfg, pc, hsret, retv, intr, doneCh, ctxDone, cancPc, hmu, hsErr, complete, connClosed,
                 closedBit, active, cnSent, cAlert, fnBad, timedOut>>

(* ------------------------------------------------------------------ environment *)

CancelEff(p) ==
  /\ p \in HSU /\ cancPc[p] = "called"
  /\ cancPc' = [cancPc EXCEPT ![p] = "done"]
  /\ ctxDone' = [ctxDone EXCEPT ![p] = TRUE]
  /\ UNCHANGED <<cfg, pc, hsret, retv, intr, doneCh, hmu, hsErr, complete, connClosed,
                 closedBit, active, cnSent, cAlert, fnBad, timedOut, peerRel>>

Timeout ==
  /\ ~timedOut
  /\ timedOut' = TRUE
  /\ UNCHANGED <<cfg, pc, hsret, retv, intr, doneCh, ctxDone, cancPc, hmu, hsErr, complete, connClosed,
                 closedBit, active, cnSent, cAlert, fnBad, peerRel>>

(* ------------------------------------------------------------------ handshakeContext (tau) *)

\* u_conn.go:321  fast path: no defers, no interrupter
FastPath(p) ==
  /\ p \in HP /\ pc[p] = "a_entry" /\ complete
  /\ hsret' = [hsret EXCEPT ![p] = "nil"]
  /\ Goto(p, "hs_out")
  /\ UNCHANGED <<cfg, retv, intr, doneCh, ctxDone, cancPc, hmu, hsErr, complete, connClosed,
                 closedBit, active, cnSent, cAlert, fnBad, timedOut, peerRel>>

\* u_conn.go:325-359  context.WithCancel, spawn the interrupter iff ctx.Done() != nil
Begin(p) ==
  /\ p \in HP /\ pc[p] = "a_entry" /\ ~complete
  /\ intr' = IF p \in cfg.cancellable THEN [intr EXCEPT ![p] = "wait"] ELSE intr
  /\ Goto(p, "wantlock")
  /\ UNCHANGED <<cfg, hsret, retv, doneCh, ctxDone, cancPc, hmu, hsErr, complete, connClosed,
                 closedBit, active, cnSent, cAlert, fnBad, timedOut, peerRel>>

\* u_conn.go:361  c.handshakeMutex.Lock()
Lock(p) ==
  /\ p \in HP /\ pc[p] = "wantlock" /\ hmu = "free"
  /\ hmu' = p
  /\ Goto(p, "to_g_locked")
  /\ UNCHANGED <<cfg, hsret, retv, intr, doneCh, ctxDone, cancPc, hsErr, complete, connClosed,
                 closedBit, active, cnSent, cAlert, fnBad, timedOut, peerRel>>

\* u_conn.go:364-381  shared outcome already there?  else c.in.Lock, BuildHandshakeState
CheckDone(p) ==
  /\ p \in HP /\ pc[p] = "a_locked"
  /\ IF hsErr THEN /\ hsret' = [hsret EXCEPT ![p] = "err"] /\ Goto(p, "unlock")
     ELSE IF complete THEN /\ hsret' = [hsret EXCEPT ![p] = "nil"] /\ Goto(p, "unlock")
     ELSE /\ Goto(p, "to_g_pre_fn") /\ UNCHANGED hsret
  /\ UNCHANGED <<cfg, retv, intr, doneCh, ctxDone, cancPc, hmu, hsErr, complete, connClosed,
                 closedBit, active, cnSent, cAlert, fnBad, timedOut, peerRel>>

\* u_conn.go:383  handshakeFn succeeded: needs an answering peer and a transport that was open
\* when the function started (it may be closed while the last flight is processed)
FnOk(p) ==
  /\ p \in HP /\ pc[p] = "infn"
  /\ cfg.peer = "answer" /\ peerRel /\ ~fnBad[p]
  /\ complete' = TRUE
  /\ Goto(p, "to_g_post_fn")
  /\ UNCHANGED <<cfg, hsret, retv, intr, doneCh, ctxDone, cancPc, hmu, hsErr, connClosed,
                 closedBit, active, cnSent, cAlert, fnBad, timedOut, peerRel>>

\* handshakeFn failed: only a closed transport or the deadline make it fail here
FnErr(p) ==
  /\ p \in HP /\ pc[p] = "infn"
  /\ connClosed \/ timedOut
  /\ hsErr' = TRUE
  /\ Goto(p, "to_g_post_fn")
  /\ UNCHANGED <<cfg, hsret, retv, intr, doneCh, ctxDone, cancPc, hmu, complete, connClosed,
                 closedBit, active, cnSent, cAlert, fnBad, timedOut, peerRel>>

\* u_conn.go:384-423  return c.handshakeErr
Finish(p) ==
  /\ p \in HP /\ pc[p] = "a_post_fn"
  /\ hsret' = [hsret EXCEPT ![p] = IF hsErr THEN "err" ELSE "nil"]
  /\ Goto(p, "unlock")
  /\ UNCHANGED <<cfg, retv, intr, doneCh, ctxDone, cancPc, hmu, hsErr, complete, connClosed,
                 closedBit, active, cnSent, cAlert, fnBad, timedOut, peerRel>>

\* deferred c.in.Unlock, c.handshakeMutex.Unlock                      u_conn.go:362,372
Unlock(p) ==
  /\ p \in HP /\ pc[p] = "unlock" /\ hmu = p
  /\ hmu' = "free"
  /\ Goto(p, "closedone")
  /\ UNCHANGED <<cfg, hsret, retv, intr, doneCh, ctxDone, cancPc, hsErr, complete, connClosed,
                 closedBit, active, cnSent, cAlert, fnBad, timedOut, peerRel>>

\* deferred close(done)                                                u_conn.go:343
CloseDone(p) ==
  /\ p \in HP /\ pc[p] = "closedone"
  /\ IF p \in HSU /\ intr[p] # "none"
       THEN /\ doneCh' = [doneCh EXCEPT ![p] = TRUE] /\ Goto(p, "waitintr")
       ELSE /\ Goto(p, "hs_out") /\ UNCHANGED doneCh
  /\ UNCHANGED <<cfg, hsret, retv, intr, ctxDone, cancPc, hmu, hsErr, complete, connClosed,
                 closedBit, active, cnSent, cAlert, fnBad, timedOut, peerRel>>

\* ctxErr := <-interruptRes; if ctxErr != nil { ret = ctxErr }         u_conn.go:344-347
RecvIntr(p) ==
  /\ p \in HSU /\ pc[p] = "waitintr" /\ intr[p] \in {"sent_ctx", "sent_nil"}
  /\ hsret' = [hsret EXCEPT ![p] = IF intr[p] = "sent_ctx" THEN "ctx" ELSE @]
  /\ Goto(p, "hs_out")
  /\ UNCHANGED <<cfg, retv, intr, doneCh, ctxDone, cancPc, hmu, hsErr, complete, connClosed,
                 closedBit, active, cnSent, cAlert, fnBad, timedOut, peerRel>>

(* ------------------------------------------------------------------ interrupter goroutine (tau) *)

\* select: both branches may be ready, the runtime picks one          u_conn.go:350-357
IntrSelCtx(p) ==
  /\ p \in HSU /\ intr[p] = "wait" /\ ctxDone[p]
  /\ intr' = [intr EXCEPT ![p] = "to_g_ctx"]
  /\ UNCHANGED <<cfg, pc, hsret, retv, doneCh, ctxDone, cancPc, hmu, hsErr, complete, connClosed,
                 closedBit, active, cnSent, cAlert, fnBad, timedOut, peerRel>>
IntrSelDone(p) ==
  /\ p \in HSU /\ intr[p] = "wait" /\ doneCh[p]
  /\ intr' = [intr EXCEPT ![p] = "to_g_done"]
  /\ UNCHANGED <<cfg, pc, hsret, retv, doneCh, ctxDone, cancPc, hmu, hsErr, complete, connClosed,
                 closedBit, active, cnSent, cAlert, fnBad, timedOut, peerRel>>
\* _ = c.conn.Close(); interruptRes <- handshakeCtx.Err()
IntrClose(p) ==
  /\ p \in HSU /\ intr[p] = "closing"
  /\ connClosed' = TRUE
  /\ intr' = [intr EXCEPT ![p] = "sent_ctx"]
  /\ UNCHANGED <<cfg, pc, hsret, retv, doneCh, ctxDone, cancPc, hmu, hsErr, complete,
                 closedBit, active, cnSent, cAlert, fnBad, timedOut, peerRel>>
\* interruptRes <- nil
IntrNil(p) ==
  /\ p \in HSU /\ intr[p] = "a_done"
  /\ intr' = [intr EXCEPT ![p] = "sent_nil"]
  /\ UNCHANGED <<cfg, pc, hsret, retv, doneCh, ctxDone, cancPc, hmu, hsErr, complete, connClosed,
                 closedBit, active, cnSent, cAlert, fnBad, timedOut, peerRel>>

(* ------------------------------------------------------------------ callers of handshakeContext (tau) *)

\* HandshakeContext returns what handshakeContext returned; Read / Write go on only after nil
HsOut(p) ==
  /\ p \in HP /\ pc[p] = "hs_out"
  /\ IF p \in HSU THEN
        /\ retv' = [retv EXCEPT ![p] = hsret[p]] /\ Goto(p, "to_ret") /\ UNCHANGED active
     ELSE IF hsret[p] # "nil" THEN
        /\ retv' = [retv EXCEPT ![p] = "err"] /\ Goto(p, "to_ret")
        /\ active' = IF p = "writer" THEN active - 1 ELSE active
     ELSE /\ Goto(p, IF p = "reader" THEN "r_reading" ELSE "w_writing") /\ UNCHANGED <<retv, active>>
  /\ UNCHANGED <<cfg, hsret, intr, doneCh, ctxDone, cancPc, hmu, hsErr, complete, connClosed,
                 closedBit, cnSent, cAlert, fnBad, timedOut, peerRel>>

\* u_conn.go:872-902  the peer sends application data right after its handshake
ReadOk ==
  /\ pc["reader"] = "r_reading" /\ complete
  /\ retv' = [retv EXCEPT !["reader"] = "nil"] /\ Goto("reader", "to_ret")
  /\ UNCHANGED <<cfg, hsret, intr, doneCh, ctxDone, cancPc, hmu, hsErr, complete, connClosed,
                 closedBit, active, cnSent, cAlert, fnBad, timedOut, peerRel>>
ReadErr ==
  /\ pc["reader"] = "r_reading" /\ (connClosed \/ timedOut \/ cnSent)
  /\ retv' = [retv EXCEPT !["reader"] = "err"] /\ Goto("reader", "to_ret")
  /\ UNCHANGED <<cfg, hsret, intr, doneCh, ctxDone, cancPc, hmu, hsErr, complete, connClosed,
                 closedBit, active, cnSent, cAlert, fnBad, timedOut, peerRel>>

\* u_conn.go:430-439  interlock with Close
WEnter ==
  /\ pc["writer"] = "w_enter"
  /\ IF closedBit THEN /\ retv' = [retv EXCEPT !["writer"] = "err"] /\ Goto("writer", "to_ret") /\ UNCHANGED active
                  ELSE /\ active' = active + 1 /\ Goto("writer", "to_g_entry") /\ UNCHANGED retv
  /\ UNCHANGED <<cfg, hsret, intr, doneCh, ctxDone, cancPc, hmu, hsErr, complete, connClosed,
                 closedBit, cnSent, cAlert, fnBad, timedOut, peerRel>>
\* u_conn.go:445-481  under c.out: out.err, closeNotifySent, writeRecordLocked
WriteOk ==
  /\ pc["writer"] = "w_writing" /\ complete /\ ~cnSent /\ ~connClosed
  /\ retv' = [retv EXCEPT !["writer"] = "nil"] /\ Goto("writer", "to_ret") /\ active' = active - 1
  /\ UNCHANGED <<cfg, hsret, intr, doneCh, ctxDone, cancPc, hmu, hsErr, complete, connClosed,
                 closedBit, cnSent, cAlert, fnBad, timedOut, peerRel>>
WriteErr ==
  /\ pc["writer"] = "w_writing" /\ (cnSent \/ connClosed \/ timedOut)
  /\ retv' = [retv EXCEPT !["writer"] = "err"] /\ Goto("writer", "to_ret") /\ active' = active - 1
  /\ UNCHANGED <<cfg, hsret, intr, doneCh, ctxDone, cancPc, hmu, hsErr, complete, connClosed,
                 closedBit, cnSent, cAlert, fnBad, timedOut, peerRel>>

(* ------------------------------------------------------------------ Close / CloseWrite (tau) *)

\* conn.go:1429-1437  set the closed bit (a second Close would get net.ErrClosed)
CEnter ==
  /\ pc["closer"] = "c_start" /\ cfg.closer = "Close"
  /\ IF closedBit THEN /\ retv' = [retv EXCEPT !["closer"] = "err"] /\ Goto("closer", "to_ret") /\ UNCHANGED closedBit
     ELSE /\ closedBit' = TRUE /\ UNCHANGED retv
          /\ Goto("closer", IF active > 0 THEN "c_toclose" ELSE "c_check")
  /\ UNCHANGED <<cfg, hsret, intr, doneCh, ctxDone, cancPc, hmu, hsErr, complete, connClosed,
                 active, cnSent, cAlert, fnBad, timedOut, peerRel>>
\* conn.go:1449  if c.isHandshakeComplete.Load() { closeNotify }
CCheck ==
  /\ pc["closer"] = "c_check"
  /\ Goto("closer", IF complete THEN "c_notify" ELSE "c_toclose")
  /\ UNCHANGED <<cfg, hsret, retv, intr, doneCh, ctxDone, cancPc, hmu, hsErr, complete, connClosed,
                 closedBit, active, cnSent, cAlert, fnBad, timedOut, peerRel>>
\* conn.go:1474-1487  closeNotify under c.out; it can only fail on a dead transport
CNotify ==
  /\ pc["closer"] = "c_notify"
  /\ cnSent' = TRUE
  /\ \E a \in (IF connClosed \/ timedOut THEN {TRUE, FALSE} ELSE {FALSE}) : cAlert' = a
  /\ Goto("closer", "c_toclose")
  /\ UNCHANGED <<cfg, hsret, retv, intr, doneCh, ctxDone, cancPc, hmu, hsErr, complete, connClosed,
                 closedBit, active, fnBad, timedOut, peerRel>>
\* conn.go:1445 / 1455  c.conn.Close()
CClose ==
  /\ pc["closer"] = "c_closing"
  /\ connClosed' = TRUE
  /\ retv' = [retv EXCEPT !["closer"] = IF cAlert THEN "err" ELSE "nil"]
  /\ Goto("closer", "to_ret")
  /\ UNCHANGED <<cfg, hsret, intr, doneCh, ctxDone, cancPc, hmu, hsErr, complete,
                 closedBit, active, cnSent, cAlert, fnBad, timedOut, peerRel>>
\* conn.go:1466-1472  CloseWrite
CWCheck ==
  /\ pc["closer"] = "c_start" /\ cfg.closer = "CloseWrite"
  /\ IF complete THEN /\ Goto("closer", "cw_notify") /\ UNCHANGED retv
                 ELSE /\ retv' = [retv EXCEPT !["closer"] = "err"] /\ Goto("closer", "to_ret")
  /\ UNCHANGED <<cfg, hsret, intr, doneCh, ctxDone, cancPc, hmu, hsErr, complete, connClosed,
                 closedBit, active, cnSent, cAlert, fnBad, timedOut, peerRel>>
CWNotify ==
  /\ pc["closer"] = "cw_notify"
  /\ cnSent' = TRUE
  /\ \E r \in (IF connClosed \/ timedOut THEN {"nil", "err"} ELSE {"nil"}) : retv' = [retv EXCEPT !["closer"] = r]
  /\ Goto("closer", "to_ret")
  /\ UNCHANGED <<cfg, hsret, intr, doneCh, ctxDone, cancPc, hmu, hsErr, complete, connClosed,
                 closedBit, active, cAlert, fnBad, timedOut, peerRel>>

(* ------------------------------------------------------------------ next-state relation *)

Tau ==
  \/ \E p \in HP : \/ FastPath(p) \/ Begin(p) \/ Lock(p) \/ CheckDone(p) \/ FnOk(p) \/ FnErr(p)
                   \/ Finish(p) \/ Unlock(p) \/ CloseDone(p) \/ HsOut(p)
  \/ \E p \in HSU : \/ RecvIntr(p) \/ IntrSelCtx(p) \/ IntrSelDone(p) \/ IntrClose(p) \/ IntrNil(p)
                    \/ CancelEff(p)
  \/ ReadOk \/ ReadErr \/ WEnter \/ WriteOk \/ WriteErr
  \/ CEnter \/ CCheck \/ CNotify \/ CClose \/ CWCheck \/ CWNotify

GateStep ==
  \/ \E p \in HP, g \in Gates : Arrive(p, g) \/ Pass(p, g)
  \/ \E p \in HSU, g \in {"intr_ctx", "intr_done"} : ArriveI(p, g) \/ PassI(p, g)

Event ==
  \/ \E p \in Procs : Call(p) \/ Ret(p)
  \/ \E p \in HSU : CancelCall(p) \/ CancelRet(p) \/ ConnCloseI(p)
  \/ ConnCloseC \/ PeerRelease
  \/ GateStep

IntrFinished(p) == intr[p] \in {"none", "sent_ctx", "sent_nil"}

Terminal ==
  /\ \A p \in ActiveProcs(cfg) : pc[p] = "returned"
  /\ \A p \in cfg.cancels : cancPc[p] = "returned"
  /\ \A p \in HSU : IntrFinished(p)

Next == Tau \/ Event \/ Timeout

(* ------------------------------------------------------------------ properties (C26) *)

Returned(p) == pc[p] \in {"to_ret", "returned"}

\* each Handshake caller returns the shared outcome: nil exactly when the handshake completed ...
RetNilIffComplete ==
  \A p \in HSU : Returned(p) =>
     /\ retv[p] = "nil" => complete /\ ~hsErr
     /\ retv[p] = "err" => hsErr /\ ~complete
     /\ retv[p] \in {"nil", "err", "ctx"}
\* ... or its own context's error, in which case the connection has been closed
RetCtxImpliesClosed ==
  \A p \in HSU : Returned(p) /\ retv[p] = "ctx" => connClosed /\ ctxDone[p] /\ p \in cfg.cancellable
\* one outcome for all
SharedOutcome == ~(complete /\ hsErr)
\* Read / Write succeed only on a completed handshake
IOAfterHandshake ==
  \A p \in {"reader", "writer"} : Returned(p) /\ retv[p] = "nil" => complete
\* once a HandshakeContext call has returned its interrupter is gone, so cancelling the context
\* later cannot touch the connection
NoInterrupterAfterReturn == \A p \in HSU : Returned(p) => IntrFinished(p)
\* the transport is closed only by the Closer or by an interrupter whose call has not returned
CloseOnlyByOwners ==
  [][connClosed' # connClosed =>
        \/ pc["closer"] = "c_closing"
        \/ \E p \in HSU : intr[p] = "closing" /\ ~Returned(p) /\ ctxDone[p]]_vars
CancelAfterReturnNoEffect ==
  [][\A p \in HSU : (pc[p] = "returned" /\ ctxDone'[p] # ctxDone[p]) =>
        (connClosed' = connClosed /\ intr' = intr /\ pc' = pc)]_vars
MutexOwner == hmu # "free" => pc[hmu] \in {"to_g_locked", "g_locked", "a_locked", "to_g_pre_fn", "g_pre_fn",
                                          "infn", "to_g_post_fn", "g_post_fn", "a_post_fn", "unlock"}

Safety == RetNilIffComplete /\ RetCtxImpliesClosed /\ SharedOutcome /\ IOAfterHandshake
          /\ NoInterrupterAfterReturn /\ MutexOwner

\* liveness (every call returns) is stated and checked in UConnConc_Live
=============================================================================
