----------------------------- MODULE UQuic_Trace -----------------------------
(* Trace validation for C23: every recorded run of the real UQUICConn + QUICServer (one ndjson line per scenario:
   [id, cfg, evs]; evs = one record per pump call with what the call returned / the event NextEvent gave) must be
   a behaviour of UQuic.  The pump calls of a trace select the Call* actions; the goroutine / rest-of-call steps in
   between are found by TLC (the select races after a cancellation make them nondeterministic).  Every trace is
   explored from its own initial state (t), so a rejected trace never hides the others:
     <<"ACC", id>> is printed when the whole trace was explained; the runner reports the ids that are missing.
   A call logged as "hung" is explained only by a state in which the caller is parked and nothing can wake it. *)
EXTENDS UQuic, Json

CONSTANT Verbose
Traces == ndJsonDeserialize("uquic_traces.ndjson")
VARIABLES t, l
tvars == <<t, l>>

CfgOf(tr) == [build |-> tr.cfg.build, hrr |-> tr.cfg.hrr, srvRefuse |-> tr.cfg.srvRefuse, cliRefuse |-> tr.cfg.cliRefuse]
TInit == /\ t \in 1..Len(Traces) /\ l = 1 /\ InitWith(CfgOf(Traces[t]))

N  == Len(Traces[t].evs)
ev == Traces[t].evs[l]

\* what the wire format of each modelled message looks like to the harness
MsgType(m) == CASE m = "CH" -> 1 [] m \in {"SH", "HRR"} -> 2 [] m = "EE" -> 8 [] m = "CERT" -> 11 [] m = "CV" -> 15 [] m = "FIN" -> 20
HrrFlag(m) == IF m = "HRR" THEN 1 ELSE 0
SidLen(m)  == IF m \in {"CH", "SH", "HRR"} THEN 0 ELSE 99      \* QUIC: empty legacy_session_id (RFC 9001 8.4), echoed empty
Map(msgs, F(_)) == [i \in 1..Len(msgs) |-> F(msgs[i])]

\* does the logged record e agree with what the model says the call returned (r = last')
Match(e, r) ==
  /\ e.op = r.op /\ e.side = r.side /\ e.ret = r.ret
  /\ e.op = "Start" /\ e.side = "c" => ((e.builderr # "") <=> BuildFails(cfg.build))
  /\ e.op = "Next" =>
       /\ e.kind = r.kind
       /\ r.kind \in {"WriteData", "SetReadSecret", "SetWriteSecret"} => e.level = r.lv
       /\ r.kind = "WriteData" =>
            /\ e.mt = Map(r.msgs, MsgType) /\ e.hrr = Map(r.msgs, HrrFlag) /\ e.sid = Map(r.msgs, SidLen)
            /\ e.junk = 0                                       \* nothing but whole handshake messages: no CCS
  /\ e.op = "Deliver" => (e.u = r.u /\ e.rem = r.rem /\ e.level = r.lv)

Returns == cpc # "idle" /\ cpc' = "idle"

\* a goroutine step or the rest of the call in progress; if it makes the call return, that is event l
TStep == /\ Internal
         /\ IF Returns THEN l <= N /\ Match(ev, last') /\ l' = l + 1 ELSE l' = l
         /\ t' = t
\* the pump makes the call of event l
TCall == /\ cpc = "idle" /\ l <= N
         /\ CASE ev.op = "Start"   -> CallStart(ev.side)
              [] ev.op = "Next"    -> CallNextL(ev.side, ev.ml)            \* ml: the real byte length of every message of a WriteData
              [] ev.op = "Deliver" -> /\ wire[ev.side] # << >>        \* u bytes were handed to HandleData (0 in the model = the whole chunk)
                                      /\ CallDeliver(ev.side, IF ev.u >= Bytes(Head(wire[ev.side]).segs) THEN 0 ELSE ev.u)
              [] ev.op = "Cancel"  -> CallCancel
              [] ev.op = "Close"   -> CallClose(ev.side)
              [] OTHER             -> FALSE
         /\ IF cpc' = "idle" THEN Match(ev, last') /\ l' = l + 1 ELSE l' = l
         /\ t' = t
\* the call of event l never came back
THung == /\ l <= N /\ ev.ret = "hung" /\ cpc # "idle" /\ ev.op = OpOf(cpc) /\ ev.side = cside
         /\ ~ENABLED Internal
         /\ l' = l + 1 /\ t' = t /\ UNCHANGED vars
\* final observation: ConnectionState().HandshakeComplete
TEnd  == /\ l <= N /\ ev.op = "End" /\ cpc = "idle" /\ ev.ret = "ok" /\ ev.complete = complete[ev.side]
         /\ l' = l + 1 /\ t' = t /\ UNCHANGED vars

\* the schedule was generated for another resolution of a select race: the harness had nothing to hand over /
\* nobody to call, and the model agrees
TSkip == /\ l <= N /\ cpc = "idle" /\ ev.op \in {"Next", "Deliver"}
         /\ \/ ev.ret = "nodata" /\ started[ev.side] /\ wire[ev.side] = << >>
            \/ ev.ret = "notstarted" /\ ~started[ev.side]
         /\ l' = l + 1 /\ t' = t /\ UNCHANGED vars

TNext == TStep \/ TCall \/ THung \/ TEnd \/ TSkip

Report == /\ (l = N + 1) => PrintT(<<"ACC", Traces[t].id>>)
          /\ Verbose => PrintT(<<"AT", Traces[t].id, l>>)
=============================================================================
