------------------------------ MODULE LRU_MC ------------------------------
(***************************************************************************)
(* Bounded exhaustive configurations of LRU.                               *)
(*                                                                         *)
(*  LRU_MC.cfg   (Conc = FALSE): every sequential history of MaxLen calls  *)
(*     over Keys x Caps; each complete history is emitted as a scenario    *)
(*     (PrintT "SCN") for replay on the real cache.  The same module run   *)
(*     with -simulate produces random long histories.                      *)
(*  LRU_MCc.cfg  (Conc = TRUE): every interleaving of call / linearise /   *)
(*     return steps of the goroutines in Threads, MaxLen calls each; checks *)
(*     that the linearisation device itself is sound (results = sequential *)
(*     replay in linearisation order; that order respects real time).      *)
(*                                                                         *)
(* hist (the quantified history) stays in the state: paths are what is     *)
(* enumerated.  A non-nil Put stores the fresh value "position in the      *)
(* history", so a stale value can never be mistaken for the current one.   *)
(***************************************************************************)
EXTENDS LRU, TLC, Json

CONSTANTS Keys, Caps, MaxLen, Conc,
          Canon,       \* TRUE: only histories that introduce the keys in the order 1, 2, 3, ... (one representative of every
                       \* class of histories that differ by a renaming of keys; the runner renames them again at random)
          NilPuts      \* FALSE leaves Put(k, nil) out (simulation of the default capacity: the cache must fill up)
VARIABLES hist,     \* Conc=FALSE: sequence of calls with their results; Conc=TRUE: sequence of Call/Ret events
          lin       \* Conc=TRUE: the order in which calls were linearised, as <<t, n>>
vars == <<cap, q, pend, hist, lin>>

Max(S) == CHOOSE x \in S : \A y \in S : y <= x
OpsAt(n) == [op : {"Get"}, k : Keys, v : {Nil}] \cup [op : {"Put"}, k : Keys, v : IF NilPuts THEN {Nil, n} ELSE {n}]

Init == /\ \E n \in Caps : New(n)
        /\ hist = <<>> /\ lin = <<>>

-----------------------------------------------------------------------------
\* sequential histories
SeqStep == /\ ~Conc
           /\ Len(hist) < MaxLen
           /\ \E o \in OpsAt(Len(hist) + 1) :
                LET r == DoRes(q, o) IN
                /\ Canon => o.k <= Max({0} \cup {hist[j].k : j \in 1..Len(hist)}) + 1
                /\ Do(CHOOSE t \in Threads : TRUE, o, r)
                /\ hist' = Append(hist, [op |-> o.op, k |-> o.k, v |-> o.v, ok |-> r.ok, rv |-> r.v])
           /\ UNCHANGED lin

PutsOf(k) == {j \in 1..Len(hist) : hist[j].op = "Put" /\ hist[j].k = k}
TouchesOf(k) == {j \in 1..Len(hist) : hist[j].k = k /\ \/ hist[j].op = "Put" /\ hist[j].v # Nil
                                                       \/ hist[j].op = "Get" /\ hist[j].ok}
\* every stored entry carries the value of the last Put of its key
MapSemantics == ~Conc => \A i \in 1..Len(q) :
                   /\ PutsOf(q[i].k) # {}
                   /\ hist[Max(PutsOf(q[i].k))].v = q[i].v
\* the list is ordered by the time of the last successful use
RecencyOrder == ~Conc => \A i, j \in 1..Len(q) : i < j =>
                   /\ TouchesOf(q[i].k) # {} /\ TouchesOf(q[j].k) # {}
                   /\ Max(TouchesOf(q[i].k)) > Max(TouchesOf(q[j].k))
\* a hit returns the value last put, a key whose last Put was nil (or that was never put) misses
GetTruth == ~Conc => \A j \in 1..Len(hist) : hist[j].op = "Get" =>
                   LET P == {i \in PutsOf(hist[j].k) : i < j} IN
                   /\ hist[j].ok => P # {} /\ hist[Max(P)].v = hist[j].rv /\ hist[j].rv # Nil
                   /\ (P = {} \/ hist[Max(P)].v = Nil) => ~hist[j].ok
\* the key used last is never the one that is missing (capacity >= 1)
MRUKept == ~Conc /\ Len(hist) > 0 =>
                   LET e == hist[Len(hist)] IN
                   (e.op = "Put" /\ e.v # Nil) \/ (e.op = "Get" /\ e.ok) => Len(q) > 0 /\ q[1].k = e.k

-----------------------------------------------------------------------------
\* concurrent histories: goroutine t makes MaxLen calls
CallsOf(t) == Cardinality({j \in 1..Len(hist) : hist[j].ev = "Call" /\ hist[j].t = t})
CCall == /\ Conc
         /\ \E t \in Threads :
              /\ CallsOf(t) < MaxLen
              /\ \E o \in OpsAt(10 * t + CallsOf(t) + 1) :     \* fresh value: goroutine and call number
                   /\ Call(t, o)
                   /\ hist' = Append(hist, [ev |-> "Call", t |-> t, n |-> CallsOf(t) + 1, o |-> o])
         /\ UNCHANGED lin
CLin == /\ Conc
        /\ \E t \in Threads :
              /\ Lin(t)
              /\ lin' = Append(lin, [t |-> t, n |-> CallsOf(t), o |-> [op |-> pend[t].op, k |-> pend[t].k, v |-> pend[t].v]])
        /\ UNCHANGED hist
CRet == /\ Conc
        /\ \E t \in Threads :
              /\ pend[t] # NoCall /\ pend[t].done
              /\ Ret(t, pend[t].res)
              /\ hist' = Append(hist, [ev |-> "Ret", t |-> t, n |-> CallsOf(t), r |-> pend[t].res])
        /\ UNCHANGED lin

\* replaying lin on a fresh sequential object
RECURSIVE Replay(_, _)
Replay(s, i) == IF i > Len(lin) THEN s
                ELSE Replay([qq |-> DoQ(s.qq, cap, lin[i].o), rs |-> Append(s.rs, DoRes(s.qq, lin[i].o))], i + 1)
Replayed == Replay([qq |-> <<>>, rs |-> <<>>], 1)
PosInLin(t, n) == CHOOSE i \in 1..Len(lin) : lin[i].t = t /\ lin[i].n = n
\* every returned result is the result of the sequential replay, and the object agrees
LinExplains == Conc =>
                 /\ Replayed.qq = q
                 /\ \A j \in 1..Len(hist) : hist[j].ev = "Ret" =>
                        Replayed.rs[PosInLin(hist[j].t, hist[j].n)] = hist[j].r
\* a call that returned before another one started is linearised first
RealTime == Conc => \A a, b \in 1..Len(hist) :
                 (a < b /\ hist[a].ev = "Ret" /\ hist[b].ev = "Call"
                    /\ \E i \in 1..Len(lin) : lin[i].t = hist[b].t /\ lin[i].n = hist[b].n)
                 => PosInLin(hist[a].t, hist[a].n) < PosInLin(hist[b].t, hist[b].n)

-----------------------------------------------------------------------------
Next == SeqStep \/ CCall \/ CLin \/ CRet
Spec == Init /\ [][Next]_vars

Terminal == IF Conc THEN \A t \in Threads : CallsOf(t) = MaxLen /\ pend[t] = NoCall
            ELSE Len(hist) = MaxLen
\* the scenario handed to the harness: capacity and calls only, no results
Scenario == [cap |-> cap, ops |-> [i \in 1..Len(hist) |-> [op |-> hist[i].op, k |-> hist[i].k, v |-> hist[i].v]]]
Emit == (~Conc /\ Terminal) => PrintT(<<"SCN", ToJson(Scenario)>>)
=============================================================================
