--------------------------- MODULE UConnConc_Live ---------------------------
(* Liveness of UConnConc for the process sets in conc_mc.json: under weak fairness of the code's own
   steps, of the scheduler (every gate is eventually opened, every call is eventually made, an
   answering peer is eventually let run) and of time (the deadline eventually passes when the peer
   stalls), every call returns.  No history variable, no state constraint. *)
EXTENDS UConnConc, Json
Input == JsonDeserialize("conc_mc.json")
Rng(s) == {s[i] : i \in DOMAIN s}
CfgOf(c) == [hs |-> Rng(c.hs), cancellable |-> Rng(c.cancellable), cancels |-> Rng(c.cancels),
             reader |-> c.reader, writer |-> c.writer, closer |-> c.closer, peer |-> c.peer,
             gated |-> TRUE, ordered |-> TRUE, deadline |-> 0, slack |-> 0]
InitL == \E i \in DOMAIN Input.cfgs : InitWith(CfgOf(Input.cfgs[i]))
TimeoutL == cfg.peer = "stall" /\ Timeout
Step == Tau \/ Event \/ TimeoutL
SpecL == InitL /\ [][Step]_vars /\ WF_vars(Step)
\* a call that was made has returned, for good
EveryCallReturns == <>[]Terminal
NoStuckState == ~Terminal => ENABLED Step
=============================================================================
