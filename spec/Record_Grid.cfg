INIT Init
NEXT Next
INVARIANT WeakOnlyAdds
CHECK_DEADLOCK FALSE
