---------------------------- MODULE UConnConc_MC ----------------------------
(* Bounded exhaustive exploration of UConnConc: every interleaving of the process sets listed in
   conc_mc.json (cfgs), at the granularity of the gates.  hist records the schedule (hidden from the
   VIEW): the externally controllable / observable steps in order.
   UConnConc_MC.cfg    every interleaving (NextMC): invariants, action properties, deadlock freedom; at
                       every distinct terminal state <<"HIT", i>> is printed for every outcome i observed
                       in a hook-free ("bare") run of the real code (conc_mc.json: obs) that this terminal
                       state explains; an observed outcome without a HIT is not reachable in the model.
   UConnConc_Sched.cfg the interleavings a gate scheduler can produce (NextSched): at every distinct
                       terminal state <<"SCN", [cfg, hist, taken]>>, a schedule reaching it, is emitted
                       and replayed on the real code.  UConnConc_Sim.cfg: the same by random simulation. *)
EXTENDS UConnConc, Json
VARIABLES hist, taken

Input == JsonDeserialize("conc_mc.json")
Rng(s) == {s[i] : i \in DOMAIN s}
CfgOf(c) == [hs |-> Rng(c.hs), cancellable |-> Rng(c.cancellable), cancels |-> Rng(c.cancels),
             reader |-> c.reader, writer |-> c.writer, closer |-> c.closer, peer |-> c.peer,
             gated |-> TRUE, ordered |-> TRUE, deadline |-> 0, slack |-> 0]
Configs == {CfgOf(Input.cfgs[i]) : i \in DOMAIN Input.cfgs}
Obs == Input.obs

L(k, p, g, i) == [k |-> k, p |-> p, g |-> g, i |-> i]
\* with an answering peer the scenarios end long before the deadline
TimeoutMC == cfg.peer = "stall" /\ Timeout
\* the internal actions, labelled: taken collects which of them occurred on the path (vacuity check)
T(a) == taken' = taken \cup {a} /\ UNCHANGED hist
TauL ==
  \/ (\E p \in HP : FastPath(p)) /\ T("FastPath")
  \/ (\E p \in HP : Begin(p)) /\ T("Begin")
  \/ (\E p \in HP : Lock(p)) /\ T("Lock")
  \/ (\E p \in HP : CheckDone(p)) /\ T("CheckDone")
  \/ (\E p \in HP : FnOk(p)) /\ T("FnOk")
  \/ (\E p \in HP : FnErr(p)) /\ T("FnErr")
  \/ (\E p \in HP : Finish(p)) /\ T("Finish")
  \/ (\E p \in HP : Unlock(p)) /\ T("Unlock")
  \/ (\E p \in HP : CloseDone(p)) /\ T("CloseDone")
  \/ (\E p \in HP : HsOut(p)) /\ T("HsOut")
  \/ (\E p \in HSU : RecvIntr(p)) /\ T("RecvIntr")
  \/ (\E p \in HSU : IntrSelCtx(p)) /\ T("IntrSelCtx")
  \/ (\E p \in HSU : IntrSelDone(p)) /\ T("IntrSelDone")
  \/ (\E p \in HSU : IntrClose(p)) /\ T("IntrClose")
  \/ (\E p \in HSU : IntrNil(p)) /\ T("IntrNil")
  \/ (\E p \in HSU : CancelEff(p)) /\ T("CancelEff")
  \/ ReadOk /\ T("ReadOk")
  \/ ReadErr /\ T("ReadErr")
  \/ WEnter /\ T("WEnter")
  \/ WriteOk /\ T("WriteOk")
  \/ WriteErr /\ T("WriteErr")
  \/ CEnter /\ T("CEnter")
  \/ CCheck /\ T("CCheck")
  \/ CNotify /\ T("CNotify")
  \/ CClose /\ T("CClose")
  \/ CWCheck /\ T("CWCheck")
  \/ CWNotify /\ T("CWNotify")
H(h) == hist' = h /\ UNCHANGED taken
NextH ==
  \/ TauL
  \/ \E p \in Procs : \/ Call(p) /\ H(Append(hist, L("call", p, "", FALSE)))
                      \/ Ret(p)  /\ H(Append(hist, L("ret", p, "", FALSE)))
  \/ \E p \in HSU : \/ CancelCall(p) /\ H(Append(hist, L("cancel", p, "", FALSE)))
                    \/ CancelRet(p) /\ UNCHANGED <<hist, taken>>
                    \/ ConnCloseI(p) /\ UNCHANGED <<hist, taken>>
  \/ ConnCloseC /\ UNCHANGED <<hist, taken>>
  \/ PeerRelease /\ H(Append(hist, L("peer", "peer", "", FALSE)))
  \/ \E p \in HP, g \in Gates : \/ Arrive(p, g) /\ H(Append(hist, L("arrive", p, g, FALSE)))
                                \/ Pass(p, g) /\ H(Append(hist, L("pass", p, g, FALSE)))
  \/ \E p \in HSU, g \in {"intr_ctx", "intr_done"} :
                                \/ ArriveI(p, g) /\ H(Append(hist, L("arrive", p, g, TRUE)))
                                \/ PassI(p, g) /\ H(Append(hist, L("pass", p, g, TRUE)))
  \/ TimeoutMC /\ H(Append(hist, L("timeout", "env", "", FALSE)))
Done == Terminal /\ UNCHANGED <<vars, hist, taken>>

\* Schedules that the gate scheduler can really follow: the code between two gates runs by itself and
\* much faster than the scheduler acts, so the steps the harness does not control (internal actions,
\* reaching a gate, returning, the transport close of a goroutine that is already past its gate) are
\* taken before the next controlled step (call, gate release, cancel, peer release, waiting for the
\* deadline).  All orders among simultaneously enabled uncontrolled steps are still explored.
\* Properties are checked on NextMC (every interleaving); this relation only selects what is replayed.
AutoEnabled ==
  \/ ENABLED Tau
  \/ \E p \in Procs : ENABLED Ret(p)
  \/ \E p \in HSU : ENABLED CancelRet(p) \/ ENABLED ConnCloseI(p)
  \/ ENABLED ConnCloseC
  \/ \E p \in HP, g \in Gates : ENABLED Arrive(p, g)
  \/ \E p \in HSU, g \in {"intr_ctx", "intr_done"} : ENABLED ArriveI(p, g)
IsControlled == \/ Len(hist') = Len(hist) + 1 /\ hist'[Len(hist')].k \in {"call", "pass", "cancel", "peer", "timeout"}
NextEager == NextH /\ (AutoEnabled => ~IsControlled)
NextSched == NextEager \/ Done
InitMC == hist = <<>> /\ taken = {} /\ \E c \in Configs : InitWith(c)
NextMC == NextH \/ Done
View == vars

\* ---- outcomes of hook-free runs: [cfg, ret : [proc -> ret event], complete, closed, tmax, hung, deadline, slack]
Class(e) == IF e.isnil THEN "nil" ELSE IF e.ctxerr # "" /\ e.err = e.ctxerr THEN "ctx" ELSE "err"
SameCfg(c) == /\ Rng(c.hs) = cfg.hs /\ Rng(c.cancellable) = cfg.cancellable /\ Rng(c.cancels) = cfg.cancels
              /\ c.reader = cfg.reader /\ c.writer = cfg.writer /\ c.closer = cfg.closer /\ c.peer = cfg.peer
Explains(o) ==
  /\ SameCfg(o.cfg)
  /\ ~o.hung
  /\ \A p \in ActiveProcs(cfg) : retv[p] = Class(o.ret[p])
  /\ complete = o.complete /\ connClosed = o.closed
  /\ o.tmax <= o.deadline + o.slack          \* every call returned within the I/O deadline
  /\ timedOut => o.tmax >= o.deadline - 1    \* a time-out outcome needs the time to have passed

EmitHits == Terminal => \A i \in DOMAIN Obs : Explains(Obs[i]) => PrintT(<<"HIT", i>>)
Emit == Terminal => PrintT(<<"SCN", ToJson([cfg |-> cfg, hist |-> hist, taken |-> taken])>>)

=============================================================================
