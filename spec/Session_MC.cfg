CONSTANTS
  Mode = "C20"
  MaxLen = 5
  PostLen = 3
  Deep = FALSE
  Prune = TRUE
INIT Init
NEXT Next
CONSTRAINT EmitAll
INVARIANT ModelOK
CHECK_DEADLOCK FALSE
