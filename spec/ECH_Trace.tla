------------------------------ MODULE ECH_Trace ------------------------------
(***************************************************************************)
(* Trace specification of ECH (C15, ECH branches of C14).                  *)
(* Events (harness cmd ech, chronological per scenario):                   *)
(*   Scn      the scenario + the client's ECHConfigList and the server's   *)
(*            configured keys (config bytes, SendAsRetry) as handed over   *)
(*   CRec     every record the client wrote (type, payload)                *)
(*   H9       hook H9 on the server: the decrypted EncodedClientHelloInner *)
(*            ("ech_encoded_inner") and the reconstructed ClientHelloInner *)
(*            ("ech_inner"), for the first and for the second hello        *)
(*   SMsg     the server's plaintext ServerHello / HelloRetryRequest (2,   *)
(*            with its cookie extension if it carries one)                 *)
(*            and EncryptedExtensions (8) before encryption                *)
(*   SrvName  the name the server acted on (GetConfigForClient)            *)
(*   Result   error type (+ RetryConfigList), both ConnectionStates        *)
(* The recorded bytes drive the step operators of ECH (C_x, S_x, O_x);     *)
(* the handlers are total, so one rejection never hides the rest of the    *)
(* batch: what the specification does not allow is collected in rej as     *)
(* <<scenario, kind, detail>>.                                             *)
(***************************************************************************)
EXTENDS ECH
Trace == ndJsonDeserialize("ech_trace.ndjson")

VARIABLES l, aux, rej
vars == <<scn, cli, srv, obs, l, aux, rej>>

NoScn == [sc |-> -1, id |-> "", sname |-> <<>>, pubname |-> <<>>, server |-> "noech", hrr_group |-> 0, cookie |-> 0, suite |-> 0, cert |-> "neither",
          cfg_list |-> <<>>, retry_list |-> <<>>]
\* aux: pend = encoded inner waiting for its reconstruction; done = Result seen; srvname = last name the server acted on;
\*      nsh = ServerHellos seen
AuxInit == [pend |-> <<>>, done |-> TRUE, srvname |-> <<>>, nsh |-> 0]
Init == l = 1 /\ scn = NoScn /\ cli = CInit /\ srv = SInit /\ obs = ObsInit /\ aux = AuxInit /\ rej = {}

Fail(kind, detail) == {<<scn.sc, kind, ToString(detail)>>}
Fails(kind, details) == {<<scn.sc, kind, ToString(d)>> : d \in details}

\* what the server is configured to offer for retry: the configs flagged SendAsRetry, in order (ech.go buildRetryConfigList)
RECURSIVE FlaggedCfgs(_,_)
FlaggedCfgs(keys, i) == IF i > Len(keys) THEN <<>> ELSE (IF keys[i].retry THEN keys[i].config ELSE <<>>) \o FlaggedCfgs(keys, i + 1)
RetryListOf(keys) == IF \E i \in DOMAIN keys : keys[i].retry THEN Vec16(FlaggedCfgs(keys, 1)) ELSE <<>>

\* ---- Scn: BuildOuter
ScnOf(ev) == [sc |-> ev.sc, id |-> ev.id, sname |-> ev.sname, pubname |-> ev.pubname, server |-> ev.server, hrr_group |-> ev.hrr_group,
              cookie |-> ev.cookie, suite |-> ev.suite, cert |-> ev.cert, cfg_list |-> ev.cfg_list, retry_list |-> RetryListOf(ev.srv_keys)]
\* the harness built the configuration the scenario asks for (else the machinery is broken, not the library)
ScnSane(ev, c) == /\ ev.server \in ServerModes /\ ev.usage \in Range(Usages) /\ ev.cert \in CertKinds /\ ev.sname # ev.pubname
                  /\ ShapeSane(ev.shape, ParseCfgList(ev.cfg_list))
                  /\ c.ok /\ c.id = ev.cfgid /\ c.maxlen = ev.maxlen /\ c.pubname = ev.pubname /\ PickSuite(c).aead = ev.aead
OnScn(ev) == /\ scn' = ScnOf(ev)
             /\ cli' = C_BuildOuter(CInit) /\ srv' = SInit /\ obs' = ObsInit /\ aux' = [AuxInit EXCEPT !.done = FALSE]
             /\ rej' = rej \cup (IF ~aux.done THEN Fail("order", "no-result") ELSE {})
                           \cup (IF ~ScnSane(ev, PickCfg(ev.cfg_list)) THEN {<<ev.sc, "machinery", "scenario-not-built-as-asked">>} ELSE {})

\* ---- CRec: SendCH1 / ProcessHRR + SendCH2 / any other record of the flight
IsCH(ev) == ev.typ = 22 /\ Len(ev.payload) >= 1 /\ ev.payload[1] = 1
OnCRec(ev) ==
  /\ UNCHANGED <<scn, srv, aux>>
  /\ IF ~IsCH(ev) THEN cli' = cli /\ obs' = O_Record(obs, ev.typ, ev.payload) /\ rej' = rej
     ELSE /\ obs' = O_Hello(obs, ev.payload)
          /\ IF cli.pc = "built" THEN cli' = C_SendCH1(cli) /\ rej' = rej
             ELSE IF cli.pc = "wait_sh" /\ cli.nch = 1 /\ srv.pc = "wait_ch2" THEN cli' = C_SendCH2(C_ProcessHRR(cli)) /\ rej' = rej
             ELSE cli' = cli /\ rej' = rej \cup Fail("order", "unexpected-client-hello")

\* ---- H9: the server opened a hello (part of S_OnCH1 / S_OnCH2; the decision is bound at the ServerHello)
OnH9(ev) ==
  /\ UNCHANGED <<scn, cli, srv>>
  /\ IF ev.what = "ech_encoded_inner" THEN aux' = [aux EXCEPT !.pend = ev.raw] /\ obs' = O_Opened(obs, ev.raw) /\ rej' = rej
     ELSE IF ev.what = "ech_inner" THEN /\ aux' = [aux EXCEPT !.pend = <<>>] /\ obs' = O_Reconstructed(obs, ev.raw)
                                        /\ rej' = rej \cup (IF aux.pend = <<>> THEN Fail("order", "inner-hello-without-opened-payload") ELSE {})
     ELSE aux' = aux /\ obs' = obs /\ rej' = rej \cup Fail("order", <<"unknown-hook-event", ev.what>>)

\* ---- SMsg: S_OnCH1 (HelloRetryRequest or ServerHello), S_OnCH2, S_SendParams.
\* The server is the in-tree server configured by the scenario: where it does not behave as configured the run says nothing
\* about the client ("calibration"); where it cannot open a hello it holds the key for, the client's payload is wrong.
Opened(k) == \E j \in DOMAIN obs.inners : obs.inners[j].k = k
OnSMsg(ev) ==
  /\ UNCHANGED <<scn, cli>>
  /\ IF ev.t = 2 /\ IsHRRMsg(ev.raw) THEN
        /\ srv' = (IF srv.pc = "wait_ch" THEN S_OnCH1(srv, scn) ELSE srv)
        /\ obs' = O_HRR(obs, HRRGroupOf(ev.raw), HRRCookieOf(ev.raw))
        /\ aux' = aux
        /\ rej' = rej \cup (IF srv.pc # "wait_ch" THEN Fail("order", "second-hello-retry-request") ELSE {})
                      \cup (IF ~SrvSendsHRR(scn) THEN Fail("calibration", "unexpected-hello-retry-request") ELSE {})
                      \cup (IF SrvSendsHRR(scn) /\ HRRGroupOf(ev.raw) # scn.hrr_group THEN Fail("calibration", "hello-retry-request-names-another-group") ELSE {})
                      \cup (IF SHSuiteOf(ev.raw) # scn.suite THEN Fail("calibration", "hello-retry-request-selects-another-suite") ELSE {})
                      \cup (IF Len(HRRCookieOf(ev.raw)) # (IF scn.cookie = 0 THEN 0 ELSE scn.cookie + 2)
                            THEN Fail("calibration", "hello-retry-request-cookie-not-as-asked") ELSE {})
     ELSE IF ev.t = 2 THEN
        /\ srv' = (IF srv.pc = "wait_ch" THEN S_OnCH1(srv, scn) ELSE IF srv.pc = "wait_ch2" THEN S_OnCH2(srv) ELSE srv)
        /\ obs' = obs /\ aux' = [aux EXCEPT !.nsh = aux.nsh + 1]
        /\ rej' = rej \cup (IF srv.pc = "wait_ch" /\ SrvSendsHRR(scn) THEN Fail("calibration", "no-hello-retry-request") ELSE {})
                      \cup (IF SHSuiteOf(ev.raw) # scn.suite THEN Fail("calibration", "server-hello-selects-another-suite") ELSE {})
                      \cup (IF srv.pc = "wait_ch2" /\ cli.nch < 2 THEN Fail("order", "server-hello-before-second-client-hello") ELSE {})
                      \cup (IF srv.pc \notin {"wait_ch", "wait_ch2"} THEN Fail("order", "second-server-hello") ELSE {})
     ELSE IF ev.t = 8 THEN
        /\ srv' = (IF srv.pc = "send_params" THEN S_SendParams(srv, scn) ELSE srv)
        /\ obs' = obs /\ aux' = aux
        /\ rej' = rej \cup (IF srv.pc # "send_params" THEN Fail("order", "encrypted-extensions-out-of-order") ELSE {})
                      \* the server offers exactly the configs it was given for retry, and only when it did not accept
                      \cup (IF srv.pc = "send_params" /\ EERetryOf(ev.raw) # S_SendParams(srv, scn).retry
                            THEN Fail("server-retry", "encrypted-extensions-do-not-carry-the-configured-retry-configs") ELSE {})
     ELSE srv' = srv /\ obs' = obs /\ aux' = aux /\ rej' = rej

OnSrvName(ev) == /\ UNCHANGED <<scn, cli, srv, obs, rej>>
                 /\ aux' = [aux EXCEPT !.srvname = ev.name]

\* ---- Result: ProcessServerHello, VerifyCertificate, Finish - judged by their observable effect
ObsOutcome(ev) == CASE ev.errtype = "none" -> "Done"
                    [] ev.errtype = "ECHRejectionError" -> "ECHRejectionError"
                    [] ev.errtype = "CertificateVerificationError" -> "CertificateVerificationError"
                    [] OTHER -> "other"
\* the client's report: what ConnectionState and the returned error say
ObsClient(ev) == [cli EXCEPT !.pc = "done", !.accepted = ev.cs.ech, !.ech = ev.cs.ech, !.sni = ev.cs.sni, !.outcome = ObsOutcome(ev), !.retry = ev.retry]
\* the server's report: its ConnectionState when its handshake completed, else what it had decided (the name it acted on, an inner hello opened)
ObsServer(ev) == [srv EXCEPT !.ech = ev.ss.ech, !.sni = IF ev.sok \/ ev.ss.sni # <<>> THEN ev.ss.sni ELSE aux.srvname]
HellosProcessed == IF srv.pc = "wait_ch" THEN 0 ELSE IF srv.pc = "wait_ch2" THEN 1 ELSE Len(obs.chs)
\* everything the result of a scenario shows
ResultProblems(ev) ==
       (IF aux.done THEN Fail("order", "result-without-scenario") ELSE {})
       \* bytes
       \cup Fails("outer", P_Outer(obs, scn))
       \cup Fails("inner", P_Inner(obs, scn))
       \cup (IF obs.chs = <<>> THEN Fail("outcome", "no-client-hello-sent") ELSE {})
       \* outcome: the error type the scenario demands (verification name chosen by acceptance)
       \cup {<<scn.sc, p[1], ToString(<<p[2], p[3]>>)>> : p \in P_Outcome(ObsClient(ev), scn)}
       \cup Fails("report", P_AcceptReported(ObsClient(ev), ObsServer(ev), scn))
       \cup Fails("report", P_Rejection(ObsClient(ev), ObsServer(ev), scn))
       \* a completed client has a completed, working connection
       \cup (IF ev.cok /\ (~ev.sok \/ ~ev.echo) THEN Fail("outcome", "client-done-but-no-working-connection") ELSE {})
       \cup (IF ev.cok /\ (ev.cs.suite # scn.suite \/ (ev.sok /\ ev.ss.suite # scn.suite)) THEN Fail("report", "negotiated-suite-is-not-the-selected-one") ELSE {})
       \cup (IF ev.cok /\ ~ev.cs.complete THEN Fail("report", "client-done-but-handshake-not-complete") ELSE {})
       \* acceptance is never reported by a client whose offer the server could not open
       \cup (IF ev.cs.ech /\ ~SrvDecrypts(scn) THEN Fail("report", "client-reports-ECHAccepted-although-server-cannot-decrypt") ELSE {})
       \* after a HelloRetryRequest the client answers with a second hello
       \cup (IF obs.hrr # 0 /\ Len(obs.chs) < 2 THEN Fail("outcome", "no-second-hello-after-hello-retry-request") ELSE {})
\* what holds whatever else happened
AlwaysProblems(ev) ==
       (IF ev.cpanic # "" THEN Fail("panic", "client-panic") ELSE {})
       \cup (IF ev.prep \/ ev.tail # 0 THEN Fail("machinery", "harness") ELSE {})
       \cup Fails("leak", P_NoLeak(obs, scn))
OnResult(ev) ==
  /\ UNCHANGED <<scn, obs>>
  /\ cli' = ObsClient(ev) /\ srv' = ObsServer(ev)
  /\ aux' = [aux EXCEPT !.done = TRUE]
  \* a server that holds the key and cannot open the client's hello is the root cause of everything that follows in that
  \* scenario (a rejection instead of an acceptance, retry configs, another verification name): only the cause is reported
  /\ rej' = (IF P_Decrypt(obs, scn, HellosProcessed) # {}
             THEN {r \in rej : r[1] # scn.sc \/ r[2] \in {"machinery", "calibration"}} \cup Fails("decrypt", P_Decrypt(obs, scn, HellosProcessed))
             ELSE rej \cup ResultProblems(ev))
            \cup AlwaysProblems(ev)

Step == /\ l <= Len(Trace)
        /\ l' = l + 1
        /\ LET ev == Trace[l] IN
           CASE ev.ev = "Scn" -> OnScn(ev)
             [] ev.ev = "CRec" -> OnCRec(ev)
             [] ev.ev = "H9" -> OnH9(ev)
             [] ev.ev = "SMsg" -> OnSMsg(ev)
             [] ev.ev = "SrvName" -> OnSrvName(ev)
             [] ev.ev = "Result" -> OnResult(ev)
             [] OTHER -> UNCHANGED <<scn, cli, srv, obs, aux>> /\ rej' = rej \cup Fail("order", <<"unknown-event", ev.ev>>)
Next == Step
Report == (l = Len(Trace) + 1) =>
            /\ PrintT(<<"DONE", l - 1>>)
            /\ \A r \in rej : PrintT(<<"REJ", ToJson(r)>>)
=============================================================================
