------------------------------- MODULE Record -------------------------------
(***************************************************************************)
(* The TLS record layer of one connection, both directions, as uTLS has    *)
(* it after the handshake (properties C25, C27, C28).                      *)
(*                                                                         *)
(* Code mirrored (one operator per implementation step):                   *)
(*   DoWrite      Conn.Write / UConn.Write  conn.go, u_conn.go:427-481     *)
(*                + writeRecordLocked (fragmentation, conn.go:975-1047)    *)
(*   DoRead       Conn.Read / UConn.Read    u_conn.go:861-902              *)
(*                + readRecordOrCCS (conn.go:613-785), halfConn.decrypt    *)
(*                + handleKeyUpdate (conn.go:1339-1374)                    *)
(*   DoKeyUpdate  origination of a TLS 1.3 KeyUpdate (RFC 8446 4.6.3;      *)
(*                only the answering half exists in the code)              *)
(*   DoClose      Conn.Close -> closeNotify (conn.go)                      *)
(*   DoMutate     the network: one in-flight record is altered or          *)
(*                truncated, then that direction is closed                 *)
(*   DoKeystream  UConn.GetOutKeystream (u_conn.go:678-686): a QUERY       *)
(*   InitLive     state after a real handshake                             *)
(*   InitForged   MakeConnWithCompleteHandshake x2 (u_conn.go:767-815)     *)
(*                                                                         *)
(* Record protection is abstract: a protected record is the triple         *)
(* <<epoch, seq, plaintext>>; it opens iff it is unaltered and the reader  *)
(* is at the same (epoch, seq).  Plaintext is a range of the writer's byte *)
(* stream, so "received = prefix of sent" is arithmetic on offsets; the    *)
(* trace specification additionally compares the real bytes.               *)
(*                                                                         *)
(* Every step is a FUNCTION from state to [ok, s, ...observables]; the     *)
(* model checker (Record_MC) and the trace validator (Record_Trace) use    *)
(* the same functions, the first choosing the arguments, the second        *)
(* taking them from what the real connections were observed to do.         *)
(***************************************************************************)
EXTENDS Integers, Sequences, FiniteSets, TLC

MaxPlain == 16384            \* RFC 5246 6.2.1 / RFC 8446 5.1: at most 2^14 plaintext bytes per record
Sides == {"c", "s"}
Peer(x) == IF x = "c" THEN "s" ELSE "c"
VTLS10 == 769
VTLS11 == 770
VTLS12 == 771
VTLS13 == 772
Min(a, b) == IF a < b THEN a ELSE b
Max(a, b) == IF a > b THEN a ELSE b
RoundUp(a, b) == a + ((b - (a % b)) % b)

(***************************************************************************)
(* Suite tables.  T is the dump of the code's own tables:                  *)
(*   T.base   utlsSupportedCipherSuites in a process without               *)
(*            EnableWeakCiphers, T.weak the same list in a process after   *)
(*            EnableWeakCiphers, T.tls13 cipherSuitesTLS13.                *)
(* EnableWeakCiphers "allows utls connections to continue when a weak      *)
(* cipher was chosen": it ADDS suites.  Hence the supported set after the  *)
(* call is the union (this is what D21 violates).                          *)
(***************************************************************************)
SeqRange(s) == {s[i] : i \in DOMAIN s}
Ids(l) == {l[i].id : i \in DOMAIN l}
SupportedIds(T, weak) == IF weak THEN Ids(T.base) \cup Ids(T.weak) ELSE Ids(T.base)
Supported(T, id, weak) == id \in SupportedIds(T, weak)
Info(T, id) == CHOOSE e \in SeqRange(T.base) \cup SeqRange(T.weak) : e.id = id
Info13(T, id) == CHOOSE e \in SeqRange(T.tls13) : e.id = id
OldVersions == {VTLS10, VTLS11, VTLS12}
ValidVersions(e) == IF e.tls12only THEN {VTLS12} ELSE OldVersions     \* cipher_suites.go: suiteTLS12
\* what a compliant server can negotiate with utls
Negotiable(T, vers, id, weak) ==
  IF vers = VTLS13 THEN id \in Ids(T.tls13)
  ELSE vers \in OldVersions /\ Supported(T, id, weak) /\ vers \in ValidVersions(Info(T, id))

(***************************************************************************)
(* The suite table is PROCESS-GLOBAL state (u_common.go                    *)
(* utlsSupportedCipherSuites, read by cipher_suites.go cipherSuiteByID).   *)
(* A process p = [weak |-> EnableWeakCiphers has been called].  What a     *)
(* MakeConnWithCompleteHandshake / a handshake does at any moment depends  *)
(* on the table AS IT IS THEN and on nothing else in the history of the    *)
(* process (no lookup, failed or not, may freeze an earlier table):        *)
(*   before EnableWeakCiphers the weak suites yield nil, after it they     *)
(*   forge and interoperate; an unsupported id yields nil at any time.     *)
(* EnableWeakCiphers called again changes nothing (in the code it appends  *)
(* the same entries once more; lookups take the first match).              *)
(***************************************************************************)
ProcInit == [weak |-> FALSE]
ProcEnableWeak(p) == [p EXCEPT !.weak = TRUE]
ProcForgeIsNil(T, p, id) == ~Supported(T, id, p.weak)
ProcNegotiable(T, p, vers, id) == Negotiable(T, vers, id, p.weak)

\* The record-protection profile of a (version, suite): everything the record layer needs to know.
Profile(T, vers, id) ==
  IF vers = VTLS13
  THEN [vers |-> vers, kind |-> "aead", mac |-> 0, bs |-> 0, expl |-> 0, tag |-> Info13(T, id).tag,
        split |-> FALSE, ku |-> TRUE, seq0 |-> 0, dyn |-> TRUE]
  ELSE LET e == Info(T, id) IN
       [vers |-> vers, kind |-> e.kind, mac |-> e.mac, bs |-> e.bs, expl |-> e.expl, tag |-> e.tag,
        split |-> (vers <= VTLS10 /\ e.kind = "cbc"),    \* 1/n-1 record splitting, u_conn.go:468-477
        ku |-> FALSE,
        seq0 |-> 1,                                      \* the Finished message used sequence number 0
        dyn |-> TRUE]                                    \* Config.DynamicRecordSizingDisabled = false (the default)
WithDyn(q, d) == [q EXCEPT !.dyn = d]
\* the three behaviours the abstract model distinguishes
ClassOf(q) == IF q.ku THEN "tls13" ELSE IF q.split THEN "cbc10" ELSE "tls12"
ClassProfile(c) ==
  CASE c = "tls13" -> [vers |-> VTLS13, kind |-> "aead", mac |-> 0, bs |-> 0, expl |-> 0, tag |-> 16, split |-> FALSE, ku |-> TRUE, seq0 |-> 0, dyn |-> FALSE]
    [] c = "cbc10" -> [vers |-> VTLS10, kind |-> "cbc", mac |-> 20, bs |-> 16, expl |-> 0, tag |-> 0, split |-> TRUE, ku |-> FALSE, seq0 |-> 1, dyn |-> FALSE]
    [] c = "tls12" -> [vers |-> VTLS12, kind |-> "aead", mac |-> 0, bs |-> 0, expl |-> 8, tag |-> 16, split |-> FALSE, ku |-> FALSE, seq0 |-> 1, dyn |-> FALSE]

(***************************************************************************)
(* Wire lengths (halfConn.encrypt, conn.go:483-560).                       *)
(***************************************************************************)
CbcIV(q) == IF q.vers >= VTLS11 THEN q.bs ELSE 0       \* explicit IV since TLS 1.1
CtLen(q, n) ==
  CASE q.kind = "aead" /\ q.vers = VTLS13 -> n + 1 + q.tag        \* inner content type
    [] q.kind = "aead" -> q.expl + n + q.tag
    [] q.kind = "stream" -> n + q.mac
    [] q.kind = "cbc" -> CbcIV(q) + RoundUp(n + q.mac + 1, q.bs)
Empty == [lo |-> 1, hi |-> 0]
IsEmpty(iv) == iv.lo > iv.hi
\* the plaintext lengths n with CtLen(q, n) = c, as an interval (block padding hides up to bs-1 bytes)
PtRange(q, c) ==
  CASE q.kind = "aead" /\ q.vers = VTLS13 -> IF c - 1 - q.tag >= 0 THEN [lo |-> c - 1 - q.tag, hi |-> c - 1 - q.tag] ELSE Empty
    [] q.kind = "aead" -> IF c - q.expl - q.tag >= 0 THEN [lo |-> c - q.expl - q.tag, hi |-> c - q.expl - q.tag] ELSE Empty
    [] q.kind = "stream" -> IF c - q.mac >= 0 THEN [lo |-> c - q.mac, hi |-> c - q.mac] ELSE Empty
    [] q.kind = "cbc" ->
         LET body == c - CbcIV(q) IN
         IF body < q.mac + 1 \/ body % q.bs # 0 THEN Empty
         ELSE [lo |-> Max(0, body - q.mac - q.bs), hi |-> body - q.mac - 1]
OuterType(q, typ) == IF q.vers = VTLS13 THEN 23 ELSE IF typ = "app" THEN 23 ELSE IF typ = "ku" THEN 22 ELSE 21
RecVersion(q) == IF q.vers = VTLS13 THEN VTLS12 ELSE q.vers     \* RFC 8446 5.1: frozen at 0x0303
CtlLen(typ) == IF typ = "ku" THEN 5 ELSE 2                      \* KeyUpdate message / alert

(***************************************************************************)
(* Dynamic record sizing: Conn.maxPayloadSizeForWrite, conn.go:866-941.   *)
(* Unless Config.DynamicRecordSizingDisabled, application-data records     *)
(* start at one TCP segment and grow in arithmetic progression with the    *)
(* number of application records sent (packetsSent) until 128 KiB have     *)
(* gone out on the transport (bytesSent), then they are full size.  The    *)
(* state of the ramp of one writer is r = [pk |-> packetsSent,             *)
(* bs |-> bytesSent].  Nothing but writing records may move it: this is    *)
(* what makes "GetOutKeystream does not change what the connection sends   *)
(* next" a statement about record BOUNDARIES (C28).                        *)
(***************************************************************************)
TcpMSS == 1208              \* conn.go tcpMSSEstimate
BoostThreshold == 131072    \* conn.go recordSizeBoostThreshold
RecHdr == 5
BasePayload(q) ==
  LET p0 == TcpMSS - RecHdr - (IF q.kind = "aead" THEN q.expl ELSE IF q.kind = "cbc" THEN CbcIV(q) ELSE 0)
      p1 == CASE q.kind = "stream" -> p0 - q.mac
              [] q.kind = "aead" -> p0 - q.tag
              [] q.kind = "cbc" -> (p0 - (p0 % q.bs)) - 1 - q.mac IN
  IF q.vers = VTLS13 THEN p1 - 1 ELSE p1
Ramping(q, r) == q.dyn /\ r.bs < BoostThreshold
MaxPayload(q, r) == IF ~Ramping(q, r) \/ r.pk > 1000 THEN MaxPlain ELSE Min(BasePayload(q) * (r.pk + 1), MaxPlain)
\* one application record of m plaintext bytes went out
RampAfter(q, r, m) == [pk |-> IF Ramping(q, r) THEN r.pk + 1 ELSE r.pk, bs |-> r.bs + RecHdr + CtLen(q, m)]
RampCons(m, rest) == [lens |-> <<m>> \o rest.lens, r |-> rest.r]
RECURSIVE RampChunks(_, _, _), RampTake(_, _, _, _)
\* writeRecordLocked(application_data, n bytes): the fragment lengths and the ramp afterwards
RampChunks(q, r, n) == IF n = 0 THEN [lens |-> <<>>, r |-> r] ELSE RampTake(q, r, n, Min(n, MaxPayload(q, r)))
RampTake(q, r, n, m) == RampCons(m, RampChunks(q, RampAfter(q, r, m), n - m))
\* Write(n): with 1/n-1 splitting the first byte is a writeRecordLocked of its own
RampWrite(q, r, n) ==
  IF q.split /\ n > 1 THEN RampCons(1, RampChunks(q, RampAfter(q, r, 1), n - 1)) ELSE RampChunks(q, r, n)

(***************************************************************************)
(* State.                                                                  *)
(*   wr[x]   x's writing half:  epoch, next sequence number, bytes of x's  *)
(*           stream accepted so far, dead (a fatal alert was sent),        *)
(*           closed (Close was called), shut (close_notify went out by     *)
(*           CloseWrite: the side still READS), exp (a write deadline      *)
(*           that has passed is set on the transport: nothing can be put   *)
(*           on the wire; CloseWrite leaves one behind, conn.go            *)
(*           closeNotify), junk (a record was put on the wire after the    *)
(*           writing half had died: it may carry a burnt number)           *)
(*   rd[x]   x's reading half: epoch, next sequence number, bytes          *)
(*           delivered to the application, bytes of the current record     *)
(*           not yet returned (Conn.input), sticky error                   *)
(*   net[x]  records x wrote that Peer(x) has not consumed, oldest first   *)
(*   dl[x]   how many of them already reached Peer(x)'s transport (those   *)
(*           are out of the attacker's reach)                              *)
(*   cut[x]  the attacker altered a record of x and closed that direction  *)
(*   mutoff[x]  stream offset at which the altered record starts (-1: n/a) *)
(*   ramp[x] x's dynamic record sizing state [pk, bs] (see above)          *)
(* A record: typ app|ku|close|fatal, (ep, seq) it was protected under,     *)
(*   plaintext length as an interval lo..hi (exact when lo = hi; block     *)
(*   padding hides it on the wire), the Write call it belongs to           *)
(*   (stream offsets wbeg..wend, idx-th of cnt records, pre = sum of the   *)
(*   lower bounds of the earlier records of that call: wbeg + pre is where *)
(*   the record starts when lengths are exact), req (KeyUpdate             *)
(*   update_requested), mut (altered in flight).                           *)
(***************************************************************************)
\* sent0[x]: bytes x put on the transport during the handshake (they count for the 128 KiB)
InitLiveAt(q, sent0) ==
  [q |-> q, live |-> TRUE,
   wr |-> [x \in Sides |-> [ep |-> 0, seq |-> q.seq0, sent |-> 0, dead |-> FALSE, closed |-> FALSE, shut |-> FALSE, exp |-> FALSE, junk |-> FALSE]],
   rd |-> [x \in Sides |-> [ep |-> 0, seq |-> q.seq0, rcvd |-> 0, buf |-> 0, err |-> "none"]],
   net |-> [x \in Sides |-> <<>>], dl |-> [x \in Sides |-> 0], cut |-> [x \in Sides |-> FALSE],
   mutoff |-> [x \in Sides |-> -1],
   ramp |-> [x \in Sides |-> [pk |-> 0, bs |-> sent0[x]]]]
InitLive(q) == InitLiveAt(q, [x \in Sides |-> 0])
\* MakeConnWithCompleteHandshake returned nil on both sides
InitNil(q) == [InitLive(q) EXCEPT !.live = FALSE]
\* u_conn.go:767-815: both ends forged from the same secrets start exactly where a handshake would have
\* left them (cipher spec changed, one Finished consumed in each direction); unsupported suite => nil
InitForged(q, supported) == IF supported THEN InitLive(q) ELSE InitNil(q)

NoRecs == [x \in Sides |-> <<>>]
\* x can put records on the wire
Usable(s, x) == ~s.wr[x].dead /\ ~s.wr[x].closed /\ ~s.wr[x].shut /\ ~s.wr[x].exp
\* A record that is protected (the sequence number is consumed, halfConn.encrypt) but cannot be written because
\* the write deadline has passed: nothing reaches the wire, c.out.err becomes permanent (writeRecordLocked,
\* setErrorLocked).  The number is burnt: whatever x manages to send later does not open at the peer.
Burn(s, x) == [s EXCEPT !.wr[x].seq = @ + 1, !.wr[x].dead = TRUE]
Res(ok, s, m, err, wrote) == [ok |-> ok, s |-> s, m |-> m, err |-> err, wrote |-> wrote]
Fail(s) == Res(FALSE, s, 0, "none", NoRecs)

\* one control record (KeyUpdate, alert) under x's current write keys; conn.go writeRecordLocked
Ctl(s, x, typ, req) ==
  LET w == s.wr[x]
      rec == [typ |-> typ, ep |-> w.ep, seq |-> w.seq, lo |-> CtlLen(typ), hi |-> CtlLen(typ),
              wbeg |-> w.sent, wend |-> w.sent, idx |-> 1, cnt |-> 1, pre |-> 0, req |-> req, mut |-> FALSE, pad |-> 0] IN
  [rec |-> rec,
   s |-> [s EXCEPT !.wr[x].seq = @ + 1, !.wr[x].junk = @ \/ w.dead,
                   !.ramp[x].bs = @ + RecHdr + CtLen(s.q, CtlLen(typ)),     \* not application data: packetsSent stays
                   !.net[x] = IF s.cut[x] THEN @ ELSE Append(@, rec)]]

(***************************************************************************)
(* Write(n).  ivs[i] is what is known about the plaintext length of the    *)
(* i-th record put on the wire (an exact length, or the interval the       *)
(* ciphertext length leaves open).  Required (FragOK): some choice of      *)
(* lengths within the intervals has every fragment in 1..2^14 and sums to  *)
(* n; with 1/n-1 splitting (TLS 1.0, CBC) the first record of a write of   *)
(* more than one byte carries exactly one byte.  Write(0) sends nothing    *)
(* (or one empty record).  This is the protocol-level requirement; that    *)
(* the fragments are the ones dynamic record sizing prescribes (RampWrite) *)
(* is a separate law of the trace specification, and the ramp state        *)
(* advances by RampWrite whatever the wire showed.                         *)
(***************************************************************************)
RECURSIVE SumLo(_), SumHi(_)
SumLo(c) == IF c = <<>> THEN 0 ELSE Head(c).lo + SumLo(Tail(c))
SumHi(c) == IF c = <<>> THEN 0 ELSE Head(c).hi + SumHi(Tail(c))
Shape(q, n, ivs) ==
  [i \in 1..Len(ivs) |->
     IF n = 0 THEN [lo |-> Max(ivs[i].lo, 0), hi |-> Min(ivs[i].hi, 0)]
     ELSE IF q.split /\ n > 1 /\ i = 1 THEN [lo |-> Max(ivs[i].lo, 1), hi |-> Min(ivs[i].hi, 1)]
     ELSE [lo |-> Max(ivs[i].lo, 1), hi |-> Min(ivs[i].hi, MaxPlain)]]
FragShapeOK(q, n, c) ==
  /\ \A i \in 1..Len(c) : ~IsEmpty(c[i])
  /\ IF n = 0 THEN Len(c) <= 1
     ELSE /\ Len(c) >= 1
          /\ SumLo(c) <= n /\ n <= SumHi(c)
          /\ (q.split /\ n > 1) => Len(c) >= 2
FragOK(q, n, ivs) == FragShapeOK(q, n, Shape(q, n, ivs))
\* the fragmentation the model checker uses: the one the code produces (maximal fragments when q.dyn is off)
ModelFrags(s, x, n) == RampWrite(s.q, s.ramp[x], n).lens
Exact(lens) == [i \in 1..Len(lens) |-> [lo |-> lens[i], hi |-> lens[i]]]

\* (TLC evaluates an operator argument once but a LET definition at every use: values that are used
\*  several times are therefore handed on as arguments, here and below.)
DoWrite1(s, x, n, c) ==
  LET w == s.wr[x] IN
  IF ~FragShapeOK(s.q, n, c) THEN Fail(s)
  ELSE LET recs == [i \in 1..Len(c) |->
                      [typ |-> "app", ep |-> w.ep, seq |-> w.seq + i - 1, lo |-> c[i].lo, hi |-> c[i].hi,
                       wbeg |-> w.sent, wend |-> w.sent + n, idx |-> i, cnt |-> Len(c), pre |-> SumLo(SubSeq(c, 1, i - 1)),
                       req |-> FALSE, mut |-> FALSE, pad |-> 0]] IN
       Res(TRUE, [s EXCEPT !.wr[x].seq = @ + Len(c), !.wr[x].sent = @ + n,
                           !.ramp[x] = RampWrite(s.q, s.ramp[x], n).r,
                           !.net[x] = IF s.cut[x] THEN @ ELSE @ \o recs],
           n, "none", [NoRecs EXCEPT ![x] = recs])
DoWrite(s, x, n, ivs) ==
  IF ~s.live THEN Fail(s)
  ELSE IF s.wr[x].dead \/ s.wr[x].closed \/ s.wr[x].shut      \* c.out.err / activeCall closed bit / closeNotifySent
  THEN IF ivs = <<>> THEN Res(TRUE, s, 0, "error", NoRecs) ELSE Fail(s)
  ELSE IF s.wr[x].exp /\ n > 0                                 \* the first record of the call cannot be written
  THEN IF ivs = <<>> THEN Res(TRUE, Burn(s, x), 0, "error", NoRecs) ELSE Fail(s)
  ELSE DoWrite1(s, x, n, Shape(s.q, n, ivs))

(***************************************************************************)
(* A padding peer (RFC 8446 5.4, TLS 1.3 only): n bytes of application     *)
(* data go out as ONE record whose inner plaintext is followed by pad zero *)
(* bytes (n + pad <= 2^14).  The in-tree writer never pads; a compliant    *)
(* peer may pad every record, by any amount.  For the reader the record    *)
(* is an application record of n bytes like any other: it delivers exactly *)
(* the unpadded bytes (an all-padding record of no data is skipped).       *)
(* Padding does not go through dynamic record sizing (bytesSent moves,     *)
(* packetsSent does not).                                                  *)
(***************************************************************************)
DoWritePadded(s, x, n, pad) ==
  LET w == s.wr[x]
      rec == [typ |-> "app", ep |-> w.ep, seq |-> w.seq, lo |-> n, hi |-> n, wbeg |-> w.sent, wend |-> w.sent + n,
              idx |-> 1, cnt |-> 1, pre |-> 0, req |-> FALSE, mut |-> FALSE, pad |-> pad] IN
  IF ~s.live \/ s.q.vers # VTLS13 \/ n < 0 \/ pad < 0 \/ n + pad > MaxPlain THEN Fail(s)
  ELSE IF w.dead \/ w.closed \/ w.shut THEN Res(TRUE, s, 0, "error", NoRecs)
  ELSE IF w.exp THEN Res(TRUE, Burn(s, x), 0, "error", NoRecs)
  ELSE Res(TRUE, [s EXCEPT !.wr[x].seq = @ + 1, !.wr[x].sent = @ + n,
                           !.ramp[x].bs = @ + RecHdr + CtLen(s.q, n + pad),
                           !.net[x] = IF s.cut[x] THEN @ ELSE Append(@, rec)],
           n, "none", [NoRecs EXCEPT ![x] = <<rec>>])

(***************************************************************************)
(* Read(k).  ch = [L, alert, peek] are the choices the specification       *)
(* leaves to the implementation / hides behind block padding:              *)
(*   L      plaintext length of the application record opened by this      *)
(*          call when the wire length does not determine it                *)
(*   alert  whether a fatal alert is sent when a record fails to open      *)
(*          (bad_record_mac: yes; transport EOF inside a record: no)       *)
(*   peek   u_conn.go:889-899: a waiting alert is consumed by the same     *)
(*          call so that (n, EOF) is returned                              *)
(***************************************************************************)
\* the record's bytes must be exactly the next bytes of the stream (no gap, no replay, no reordering)
LenOK(h, rcvd, L) ==
  /\ h.lo <= L /\ L <= h.hi
  /\ h.idx = 1 => rcvd = h.wbeg
  /\ h.wend > h.wbeg => rcvd >= h.wbeg + (h.idx - 1)
  /\ h.wend > h.wbeg => rcvd + L <= h.wend - (h.cnt - h.idx)
  /\ h.idx = h.cnt => rcvd + L = h.wend

Opens(h, r) == ~h.mut /\ h.ep = r.ep /\ h.seq = r.seq      \* abstract AEAD / MAC

RECURSIVE Pump(_, _, _, _)
\* readRecord until application data, an error, or nothing left on the transport.
\* status: "have" (rd[x].buf > 0), "err" (rd[x].err set), "dry" (would block)
Pump(s, x, ch, fuel) ==
  LET p == Peer(x)
      r == s.rd[x]
      lst == s.net[p] IN
  IF lst = <<>> \/ fuel = 0 THEN [ok |-> TRUE, s |-> s, status |-> "dry", wrote |-> <<>>]
  ELSE
  LET h == Head(lst) IN
  IF ~Opens(h, r)
  THEN \* conn.go:690-693: in.setErrorLocked(sendAlert(bad_record_mac)); sendAlert kills the writing half too
       IF s.wr[x].exp /\ ~s.wr[x].closed        \* the alert is protected but cannot be written
       THEN [ok |-> TRUE, s |-> [Burn(s, x) EXCEPT !.rd[x].err = "error"], status |-> "err", wrote |-> <<>>]
       ELSE IF ch.alert /\ ~s.wr[x].dead /\ ~s.wr[x].closed
       THEN LET e == Ctl(s, x, "fatal", FALSE) IN
            [ok |-> TRUE, s |-> [e.s EXCEPT !.rd[x].err = "error", !.wr[x].dead = TRUE], status |-> "err", wrote |-> <<e.rec>>]
       ELSE [ok |-> TRUE, s |-> [s EXCEPT !.rd[x].err = "error"], status |-> "err", wrote |-> <<>>]
  ELSE
  LET s1 == [s EXCEPT !.net[p] = Tail(lst), !.dl[p] = Max(@ - 1, 0), !.rd[x].seq = @ + 1] IN
  CASE h.typ = "ku" ->       \* handleKeyUpdate, conn.go:1339-1374
         LET s2 == [s1 EXCEPT !.rd[x].ep = @ + 1, !.rd[x].seq = 0] IN
         \* The READ key moves first, whatever becomes of the answer.  A side that cannot write (half-closed,
         \* write deadline passed) cannot answer: the attempt burns a sequence number and kills its writing
         \* half ("surface the error at the next write"), Read goes on and the peer's later data arrives.
         IF h.req /\ s2.wr[x].exp /\ ~s2.wr[x].closed THEN Pump(Burn(s2, x), x, ch, fuel - 1)
         ELSE IF h.req /\ ~s2.wr[x].dead /\ ~s2.wr[x].closed
         THEN LET e == Ctl(s2, x, "ku", FALSE)
                  s3 == [e.s EXCEPT !.wr[x].ep = @ + 1, !.wr[x].seq = 0]
                  rest == Pump(s3, x, ch, fuel - 1) IN
              [rest EXCEPT !.wrote = <<e.rec>> \o @]
         ELSE Pump(s2, x, ch, fuel - 1)
    [] h.typ = "app" ->
         IF h.hi = 0 THEN Pump(s1, x, ch, fuel - 1)           \* empty record: retryReadRecord
         ELSE LET L == IF h.lo = h.hi THEN h.lo ELSE ch.L IN
              IF LenOK(h, r.rcvd, L)
              THEN [ok |-> TRUE, s |-> [s1 EXCEPT !.rd[x].buf = L], status |-> "have", wrote |-> <<>>]
              ELSE [ok |-> FALSE, s |-> s, status |-> "err", wrote |-> <<>>]
    [] h.typ = "close" -> [ok |-> TRUE, s |-> [s1 EXCEPT !.rd[x].err = "eof"], status |-> "err", wrote |-> <<>>]
    [] h.typ = "fatal" -> [ok |-> TRUE, s |-> [s1 EXCEPT !.rd[x].err = "error"], status |-> "err", wrote |-> <<>>]

Fuel == 1024
NoChoice == [L |-> 0, alert |-> TRUE, peek |-> FALSE]

DoReadPeek(x, m, pu, pk) == Res(pk.ok, pk.s, m, pk.s.rd[x].err, [NoRecs EXCEPT ![x] = pu.wrote \o pk.wrote])
DoRead3(s, x, m, ch, pu, s1) ==
  LET nxt == s1.net[Peer(x)] IN
  \* (an altered record may LOOK like an alert on the wire: flipping the type byte 23 -> 21)
  IF ch.peek /\ s1.rd[x].buf = 0 /\ nxt # <<>> /\ (Head(nxt).typ \in {"close", "fatal"} \/ Head(nxt).mut)
  THEN DoReadPeek(x, m, pu, Pump(s1, x, ch, 1))
  ELSE Res(TRUE, s1, m, "none", [NoRecs EXCEPT ![x] = pu.wrote])
DoRead2(s, x, k, ch, pu) ==
  IF ~pu.ok THEN Fail(s)
  ELSE IF pu.status = "have"
  THEN DoRead3(s, x, Min(k, pu.s.rd[x].buf), ch, pu,
               [pu.s EXCEPT !.rd[x].buf = @ - Min(k, pu.s.rd[x].buf), !.rd[x].rcvd = @ + Min(k, pu.s.rd[x].buf)])
  ELSE Res(TRUE, pu.s, 0, IF pu.status = "dry" THEN "timeout" ELSE pu.s.rd[x].err, [NoRecs EXCEPT ![x] = pu.wrote])
DoRead1(s, x, k, ch, s0) ==
  IF k = 0 THEN Res(TRUE, s0, 0, "none", NoRecs)     \* u_conn.go:865-869
  ELSE IF s0.rd[x].buf = 0 /\ s0.rd[x].err # "none" THEN Res(TRUE, s0, 0, s0.rd[x].err, NoRecs)   \* sticky in.err
  ELSE DoRead2(s, x, k, ch, IF s0.rd[x].buf > 0 THEN [ok |-> TRUE, s |-> s0, status |-> "have", wrote |-> <<>>]
                            ELSE Pump(s0, x, ch, Fuel))
\* Reading after one's own Close is outside the model (the implementation still hands out what its
\* transport had buffered before): no such step is generated, and none would be explained.
DoRead(s, x, k, ch) ==
  IF ~s.live \/ s.wr[x].closed THEN Fail(s)
  ELSE DoRead1(s, x, k, ch, [s EXCEPT !.dl[Peer(x)] = Len(s.net[Peer(x)])])   \* whatever is in flight reaches the reader's transport

(***************************************************************************)
(* KeyUpdate originated by x (TLS 1.3 only): the message goes out under    *)
(* the old key, then the write epoch advances and the sequence restarts.   *)
(***************************************************************************)
DoKeyUpdate(s, x, req) ==
  IF ~s.live \/ ~s.q.ku THEN Fail(s)
  ELSE IF s.wr[x].dead \/ s.wr[x].closed \/ s.wr[x].shut THEN Res(TRUE, s, 0, "error", NoRecs)
  ELSE IF s.wr[x].exp THEN Res(TRUE, Burn(s, x), 0, "error", NoRecs)
  ELSE LET e == Ctl(s, x, "ku", req) IN
       Res(TRUE, [e.s EXCEPT !.wr[x].ep = @ + 1, !.wr[x].seq = 0], 0, "none", [NoRecs EXCEPT ![x] = <<e.rec>>])

(***************************************************************************)
(* Close by x: close_notify under the current keys (required while the     *)
(* writing half is usable), then x's transport is closed: x reads nothing  *)
(* more from it, the peer sees the alert, then EOF.                        *)
(***************************************************************************)
\* (closeNotify re-arms the write deadline before the alert, so a passed deadline does not stop the alert;
\*  after CloseWrite no second close_notify is sent)
DoClose(s, x, sends) ==
  IF ~s.live \/ s.wr[x].closed THEN Fail(s)
  ELSE IF ~s.wr[x].dead /\ ~s.wr[x].shut /\ ~sends THEN Fail(s)
  ELSE IF s.wr[x].shut /\ sends THEN Fail(s)
  ELSE LET e == IF sends THEN Ctl(s, x, "close", FALSE) ELSE [s |-> s, rec |-> <<>>]
           s1 == [e.s EXCEPT !.wr[x].closed = TRUE, !.rd[x].err = IF @ = "none" THEN "error" ELSE @] IN
       Res(TRUE, s1, 0, "none", [NoRecs EXCEPT ![x] = IF sends THEN <<e.rec>> ELSE <<>>])

(***************************************************************************)
(* CloseWrite by x (Conn.CloseWrite -> closeNotify): close_notify goes     *)
(* out, x will not write again (a passed write deadline stays on the       *)
(* transport) but x keeps READING: the peer may go on sending data and     *)
(* key updates.  SetWriteDeadline(past) alone has the second effect only.  *)
(***************************************************************************)
DoCloseWrite(s, x, sends) ==
  IF ~s.live \/ s.wr[x].closed THEN Fail(s)
  ELSE IF s.wr[x].shut THEN (IF sends THEN Fail(s) ELSE Res(TRUE, s, 0, "none", NoRecs))
  ELSE IF ~s.wr[x].dead /\ ~sends THEN Fail(s)
  ELSE LET e == IF sends THEN Ctl(s, x, "close", FALSE) ELSE [s |-> s, rec |-> <<>>] IN
       Res(TRUE, [e.s EXCEPT !.wr[x].shut = TRUE, !.wr[x].exp = TRUE], 0, "none",
           [NoRecs EXCEPT ![x] = IF sends THEN <<e.rec>> ELSE <<>>])
DoWriteDeadlinePast(s, x) ==
  IF ~s.live \/ s.wr[x].closed THEN Fail(s)
  ELSE Res(TRUE, [s EXCEPT !.wr[x].exp = TRUE], 0, "none", NoRecs)

(***************************************************************************)
(* The attacker alters (flips a bit of / truncates) the i-th record of x   *)
(* that has not yet reached the peer's transport, and closes the           *)
(* direction behind what is in flight.                                     *)
(***************************************************************************)
DoMutate(s, x, i) ==
  LET j == s.dl[x] + i
      lst == s.net[x] IN
  IF ~s.live \/ s.cut[x] \/ i < 1 \/ j > Len(lst) THEN Fail(s)
  ELSE Res(TRUE, [s EXCEPT !.net[x][j].mut = TRUE, !.cut[x] = TRUE, !.mutoff[x] = lst[j].wbeg + lst[j].pre],
           0, "none", NoRecs)

(***************************************************************************)
(* GetOutKeystream(n): the keystream the NEXT record of x will be          *)
(* encrypted with, i.e. a function of x's current (epoch, seq).  It is a   *)
(* query: the state is returned unchanged.  Only for AEAD suites.          *)
(***************************************************************************)
Keystream(s, x) == [ep |-> s.wr[x].ep, seq |-> s.wr[x].seq]
DoKeystream(s, x) ==
  IF ~s.live THEN Fail(s)
  ELSE IF s.q.kind # "aead" THEN Res(TRUE, s, 0, "error", NoRecs)
  ELSE Res(TRUE, s, 0, "none", NoRecs)

(***************************************************************************)
(* Properties of the model (checked by Record_MC on every reachable state) *)
(***************************************************************************)
\* C25: what a side has read is a prefix of what its peer wrote
StreamPrefix(s) == \A x \in Sides : s.rd[Peer(x)].rcvd <= s.wr[x].sent
\* C25: nothing of an altered record, or of anything after it, is ever delivered
NothingPastMutation(s) == \A x \in Sides : s.mutoff[x] >= 0 => s.rd[Peer(x)].rcvd <= s.mutoff[x]
\* C25 (key updates), C27: without an attacker and without Close nobody ever sees an error
Undisturbed(s) == \A x \in Sides : ~s.cut[x] /\ ~s.wr[x].closed /\ ~s.wr[x].shut /\ ~s.wr[x].exp
NoSpuriousError(s) == Undisturbed(s) => \A x \in Sides : s.rd[x].err = "none" /\ ~s.wr[x].dead
\* with nothing in flight, reader and writer of a direction agree on (epoch, seq) and on the stream position
InSync(s) == Undisturbed(s) => \A x \in Sides :
                (s.net[x] = <<>> /\ s.rd[Peer(x)].buf = 0) =>
                   /\ s.rd[Peer(x)].ep = s.wr[x].ep /\ s.rd[Peer(x)].seq = s.wr[x].seq
                   /\ s.rd[Peer(x)].rcvd = s.wr[x].sent
\* C25, half-closed / write-blocked sides: as long as nobody tampers and x has not Closed, x reads without error
\* whatever the state of its own writing half (unless the PEER's writing half went wrong: burnt numbers)
ReadsSurviveOwnWriteFailure(s) ==
  \A x \in Sides : (/\ ~s.cut[x] /\ ~s.cut[Peer(x)] /\ ~s.wr[x].closed /\ ~s.wr[x].junk /\ ~s.wr[Peer(x)].junk
                    /\ ~s.wr[Peer(x)].dead /\ ~s.wr[Peer(x)].exp)
                       => s.rd[x].err \in {"none", "eof"}
\* an error, once reported to Read, is reported for ever and nothing more is delivered (checked as an action property in MC)
Sticky(s, t) == \A x \in Sides : (s.rd[x].err # "none" /\ s.rd[x].buf = 0) => (t.rd[x].err = s.rd[x].err /\ t.rd[x].rcvd = s.rd[x].rcvd)
=============================================================================
