------------------------------ MODULE CertComp ------------------------------
(***************************************************************************)
(* RFC 8879 certificate decompression on the client (C21).                 *)
(* Mechanism model of u_handshake_client.go decompressCert: the            *)
(* decompressor is a *chunk producer* (a compressed stream with flush      *)
(* points hands out its output in several Read calls); the client fills a  *)
(* buffer of the declared length.  Required behaviour (RFC 8879 section 4  *)
(* and the property): accept iff the algorithm was advertised, the stream  *)
(* is valid, its total length equals the declared length and the content   *)
(* is the message the server compressed; abort with bad_certificate when   *)
(* the algorithm was not advertised or the length differs; never depend    *)
(* on how the decompressor chunks its output.                              *)
(* ReadPolicy = "full"  : read until the buffer is full, then expect EOF   *)
(* ReadPolicy = "single": one Read call (the code before the fix; TLC      *)
(*                        refutes Correct for it)                          *)
(***************************************************************************)
EXTENDS Integers, Sequences, FiniteSets, TLC, Json
CONSTANTS ReadPolicy, MaxLen

Algs == {1, 2, 3}
Chunkings(n) == {<<n>>} \cup {<<k, n - k>> : k \in 1..(n-1)}
VARIABLES alg, advertised, actual, declared, chunks, valid, same, \* the scenario
          got, rest, eof, phase, outcome                          \* the client's read loop
vars == <<alg, advertised, actual, declared, chunks, valid, same, got, rest, eof, phase, outcome>>
scen == <<alg, advertised, actual, declared, chunks, valid, same>>

Init == /\ alg \in Algs /\ advertised \in {Algs, Algs \ {alg}}
        /\ actual \in 1..MaxLen /\ declared \in 0..(MaxLen + 1)
        /\ chunks \in Chunkings(actual)
        /\ valid \in BOOLEAN /\ same \in BOOLEAN
        /\ got = 0 /\ rest = chunks /\ eof = FALSE /\ phase = "check_alg" /\ outcome = "none"

\* the set of outcomes the property allows ("abort" = any handshake failure)
Allowed == IF alg \notin advertised THEN {"bad_certificate"}
           ELSE IF valid /\ actual # declared THEN {"bad_certificate"}
           ELSE IF ~valid \/ ~same THEN {"abort", "bad_certificate"}
           ELSE {"accept"}

CheckAlg == /\ phase = "check_alg"
            /\ IF alg \in advertised THEN phase' = "read" /\ outcome' = outcome
               ELSE phase' = "done" /\ outcome' = "bad_certificate"
            /\ UNCHANGED <<scen, got, rest, eof>>
Min(a, b) == IF a < b THEN a ELSE b
\* one Read call: the producer hands out (at most) the rest of its current chunk, limited by the space left
Read == /\ phase = "read"
        /\ IF ~valid /\ Len(rest) <= 1 THEN           \* a corrupt stream fails in its last chunk
              phase' = "done" /\ outcome' = "abort" /\ UNCHANGED <<got, rest, eof>>
           ELSE IF got < declared /\ rest # <<>> THEN
              LET k == Min(Head(rest), declared - got) IN
              /\ got' = got + k
              /\ rest' = IF k = Head(rest) THEN Tail(rest) ELSE <<Head(rest) - k>> \o Tail(rest)
              /\ eof' = eof /\ outcome' = outcome
              /\ phase' = (IF ReadPolicy = "single" THEN "decide" ELSE "read")
           ELSE \* buffer full or stream exhausted: the "full" policy probes for end of stream
              /\ eof' = (rest = <<>>) /\ phase' = "decide" /\ UNCHANGED <<got, rest, outcome>>
        /\ UNCHANGED scen
Decide == /\ phase = "decide"
          /\ outcome' = IF got < declared THEN "bad_certificate"                       \* shorter than declared
                        ELSE IF ReadPolicy = "full" /\ ~eof THEN "bad_certificate"     \* longer than declared
                        ELSE IF ~same THEN "abort"                                    \* parse / signature failure downstream
                        ELSE "accept"
          /\ phase' = "done"
          /\ UNCHANGED <<scen, got, rest, eof>>
Next == CheckAlg \/ Read \/ Decide

\* the decision the mechanism reaches is an allowed one, whatever the chunking
Correct == phase = "done" => outcome \in Allowed

Emit == phase = "done" => PrintT(<<"SCN", ToJson([alg |-> alg, adv |-> (alg \in advertised), actual |-> actual, declared |-> declared,
                                                   chunks |-> chunks, valid |-> valid, same |-> same])>>)
=============================================================================
