----------------------------- MODULE Roller_Trace -----------------------------
(* Trace validation for C29: every recorded Dial history of the real Roller (one ndjson line per scenario:
   [id, configured, preset, steps: [accept, stall, rmode, tcpfail, n, dials: [caller, ret, seen, sok, snis, given, conn, csni, cseed, ms, tmo],
   working, wseed, stray]]) must be a behaviour of Roller: the shuffles, the interleaving of concurrent callers and the
   numbering of fresh seeds are found by TLC; what the test server saw, what Dial returned and WorkingHelloID after the
   step are bound to the log.  `seen` is a sequence of <<id, k>>: k = 0 for a recognised parrot, else the number the
   test server gave to that concrete fingerprint (same number <=> same ClientHello modulo per-connection material).
   Every scenario has its own initial state; <<"ACC", id>> is printed when all of it was explained. *)
EXTENDS Roller, Json
Traces == ndJsonDeserialize("roller_traces.ndjson")
VARIABLE t
Steps == Traces[t].steps
TInit == /\ t \in 1..Len(Traces)
         /\ InitWith({E(i) : i \in Range(Traces[t].configured)}, IF Traces[t].preset = "-" THEN None ELSE E(Traces[t].preset))
Rec(k, c) == LET ds == Steps[k].dials IN ds[CHOOSE i \in 1..Len(ds) : ds[i].caller = c]
IsPrefix(a, b) == Len(a) <= Len(b) /\ \A i \in 1..Len(a) : a[i] = b[i]

\* Every attempt has its own TlsHandshakeTimeout (tmo, ms): a call that met n stalled IDs lasts at least n timeouts (each stalled
\* attempt runs into its full timeout) and at most n + 1 timeouts plus slack (the other attempts are answered at once).
SlackMs == 3000
NStalled(c) == Cardinality({i \in 1..Len(tried[c]) : Stalled(tried[c][i])})
DialMatches(k, c) ==
  LET r == Rec(k, c) IN
  /\ r.ret = result[c].kind /\ r.seen = tried[c]
  /\ r.ms * 10 >= NStalled(c) * r.tmo * 9 /\ r.ms <= (NStalled(c) + 1) * r.tmo + SlackMs
  /\ \A i \in 1..Len(r.snis) : r.snis[i] = r.given                 \* SNI is the server name given to Dial
  /\ r.ret = "ok" => /\ r.conn = result[c].id[1] /\ r.csni = r.given
                     /\ (r.cseed # "") <=> IsRandom(result[c].id)   \* the returned UConn of a randomized ID carries its seed
\* the successful randomized dials so far: which seed bytes belong to which concrete fingerprint
OkRandom(k) == {d \in UNION {Range(Steps[j].dials) : j \in 1..k} : d.ret = "ok" /\ d.seen # << >> /\ d.seen[Len(d.seen)][1] \in RandIDs}
StepMatches(k) ==
  /\ \A c \in 1..Steps[k].n : pc[c] = "done" /\ DialMatches(k, c)
  /\ Steps[k].working = working[1] /\ Steps[k].stray = << >>
  \* WorkingHelloID.Seed is nil exactly for an unseeded ID, and otherwise it is the seed of the UConn whose hello worked
  /\ (Steps[k].wseed = "") <=> (working[2] = 0)
  /\ working[2] > 0 => \E d \in OkRandom(k) : d.seen[Len(d.seen)] = working /\ d.cseed = Steps[k].wseed
  \* same seed bytes <=> same concrete fingerprint on the wire
  /\ \A d1, d2 \in OkRandom(k) : (d1.cseed = d2.cseed) <=> (d1.seen[Len(d1.seen)] = d2.seen[Len(d2.seen)])

TBegin == /\ nsteps < Len(Steps) /\ (nsteps >= 1 => StepMatches(nsteps))
          /\ LET st == Steps[nsteps + 1] IN BeginStep(Range(st.accept), Range(st.stall), st.rmode, st.tcpfail, st.n)
          /\ t' = t
\* sok[j]: did the test server complete the handshake of the j-th hello of this call
TCaller == /\ \E c \in Callers :
                (/\ CallerStep(c)
                 /\ IsPrefix(tried'[c], Rec(nsteps, c).seen)
                 /\ ((pc[c] = "hs") => ((pc'[c] = "record") <=> Rec(nsteps, c).sok[Len(tried'[c])])))
           /\ t' = t
TNext == TBegin \/ TCaller
Accepted == nsteps = Len(Steps) /\ AllIdle /\ (nsteps >= 1 => StepMatches(nsteps))
Report == Accepted => PrintT(<<"ACC", Traces[t].id>>)
=============================================================================
