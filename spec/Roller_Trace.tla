----------------------------- MODULE Roller_Trace -----------------------------
(* Trace validation for C29: every recorded Dial history of the real Roller (one ndjson line per scenario:
   [id, configured, preset, steps: [accept, tcpfail, n, dials: [caller, ret, seen, snis, given, conn, csni], working, stray]])
   must be a behaviour of Roller: the shuffles and the interleaving of concurrent callers are found by TLC, what
   the test server saw (seen), what Dial returned and WorkingHelloID after the step are bound to the log.
   Every scenario has its own initial state; <<"ACC", id>> is printed when all of it was explained. *)
EXTENDS Roller, Json
Traces == ndJsonDeserialize("roller_traces.ndjson")
VARIABLE t
Steps == Traces[t].steps
TInit == /\ t \in 1..Len(Traces) /\ InitWith(Range(Traces[t].configured), Traces[t].preset)
Rec(k, c) == LET ds == Steps[k].dials IN ds[CHOOSE i \in 1..Len(ds) : ds[i].caller = c]
IsPrefix(a, b) == Len(a) <= Len(b) /\ \A i \in 1..Len(a) : a[i] = b[i]

DialMatches(k, c) ==
  LET r == Rec(k, c) IN
  /\ r.ret = result[c].kind /\ r.seen = tried[c]
  /\ \A i \in 1..Len(r.snis) : r.snis[i] = r.given                 \* SNI is the server name given to Dial
  /\ r.ret = "ok" => (r.conn = result[c].id /\ r.csni = r.given)
StepMatches(k) == /\ \A c \in 1..Steps[k].n : pc[c] = "done" /\ DialMatches(k, c)
                  /\ Steps[k].working = working /\ Steps[k].stray = << >>

TBegin == /\ nsteps < Len(Steps) /\ (nsteps >= 1 => StepMatches(nsteps))
          /\ LET st == Steps[nsteps + 1] IN BeginStep(Range(st.accept), st.tcpfail, st.n)
          /\ t' = t
TCaller == /\ \E c \in Callers : CallerStep(c) /\ IsPrefix(tried'[c], Rec(nsteps, c).seen)
           /\ t' = t
TNext == TBegin \/ TCaller
Accepted == nsteps = Len(Steps) /\ AllIdle /\ (nsteps >= 1 => StepMatches(nsteps))
Report == Accepted => PrintT(<<"ACC", Traces[t].id>>)
=============================================================================
