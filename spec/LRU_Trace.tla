----------------------------- MODULE LRU_Trace -----------------------------
(***************************************************************************)
(* Validates call/return events recorded from the real                     *)
(* tls.NewLRUClientSessionCache (harness/cmd/lru) against LRU.             *)
(*                                                                         *)
(* lru_trace.ndjson is a batch of recorded executions, each starting with  *)
(* a Reset event.  Event kinds (all values observed, none computed):       *)
(*   Reset {id, cap}            a fresh cache NewLRUClientSessionCache(cap)*)
(*   Do    {t, op, k, v, ok, rv, mlen, qlen, order}                        *)
(*                              a call nobody overlaps, its result, and    *)
(*                              len(c.m), c.q.Len() and the keys of the    *)
(*                              recency list c.q (front to back) after it  *)
(*   Call  {t, seq, op, k, v}   goroutine t is about to call (seq = its    *)
(*                              per-goroutine call number)                 *)
(*   Ret   {t, seq, ok, rv}     that call has returned (ok, rv)            *)
(*   Final {mlen, qlen, order}  sizes and recency list after all goroutines*)
(*                              were joined                                *)
(* rv is the identity of the returned *ClientSessionState: the v of the    *)
(* Put that stored this pointer, 0 for nil, -1 for a pointer never stored. *)
(*                                                                         *)
(* Call/Ret events only bound the calls in time; the point at which a call *)
(* takes effect is LRU!Lin, an internal step TLC places itself.  An        *)
(* execution is accepted iff SOME placement explains every event, so each  *)
(* surviving branch prints OK(id) at the end of its execution and the      *)
(* runner rejects the ids for which no branch did.  A branch that cannot   *)
(* explain an event prints REJ, turns `bad` and walks to the next Reset    *)
(* with a frozen state (all failed branches of an execution coincide), so  *)
(* the batch is always read to its end.                                    *)
(***************************************************************************)
EXTENDS LRU, TLC, Json

Trace == ndJsonDeserialize("lru_trace.ndjson")
N == Len(Trace)

VARIABLES l,        \* next event
          base,     \* position of the Reset event of the execution being read
          id,       \* id of the execution being read
          bad,      \* this branch failed to explain an event of the current execution
          nilabs    \* diagnostic: the execution contained a Put(k, nil) of a key absent in the model
tvars == <<cap, q, pend, l, base, id, bad, nilabs>>

Ev == Trace[l]
OpOf(e) == [op |-> e.op, k |-> e.k, v |-> e.v]
ResOf(e) == [ok |-> e.ok, v |-> e.rv]
OrderOf(s) == [i \in DOMAIN s |-> s[i].k]          \* the keys of the recency list, front to back
NilAbsent(o) == o.op = "Put" /\ o.v = Nil /\ ~Has(q, o.k)

Init == l = 1 /\ base = 0 /\ id = 0 /\ bad = FALSE /\ nilabs = FALSE /\ New(0)

TReset == /\ l <= N /\ Ev.ev = "Reset"
          /\ NewNext(Ev.cap)
          /\ l' = l + 1 /\ base' = l /\ id' = Ev.id /\ bad' = FALSE /\ nilabs' = FALSE

\* ---- events explained by an action of LRU ----
DoOk == /\ Ev.t \in Threads /\ Ev.op \in {"Put", "Get"}
        /\ Do(Ev.t, OpOf(Ev), ResOf(Ev))
        /\ Len(q') = Ev.mlen /\ Len(q') = Ev.qlen
        /\ OrderOf(q') = Ev.order
TDo == /\ l <= N /\ ~bad /\ Ev.ev = "Do"
       /\ DoOk
       /\ l' = l + 1 /\ nilabs' = (nilabs \/ NilAbsent(OpOf(Ev))) /\ UNCHANGED <<base, id, bad>>
\* the same action split by the branch of Put/Get the model takes (for the coverage / vacuity report)
Class(o) == IF o.op = "Get" THEN (IF Has(q, o.k) THEN "hit" ELSE "miss")
            ELSE IF o.v = Nil THEN (IF Has(q, o.k) THEN "delete" ELSE "deleteabsent")
            ELSE IF Has(q, o.k) THEN "update"
            ELSE IF Len(q) < EffCap(cap) THEN "insert" ELSE "evict"
IsDo(c) == l <= N /\ Ev.ev = "Do" /\ Ev.op \in {"Put", "Get"} /\ Class(OpOf(Ev)) = c
TDoHit == IsDo("hit") /\ TDo
TDoMiss == IsDo("miss") /\ TDo
TDoDelete == IsDo("delete") /\ TDo
TDoDeleteAbsent == IsDo("deleteabsent") /\ TDo
TDoUpdate == IsDo("update") /\ TDo
TDoInsert == IsDo("insert") /\ TDo
TDoEvict == IsDo("evict") /\ TDo

CallOk == /\ Ev.t \in Threads /\ Ev.op \in {"Put", "Get"}
          /\ Call(Ev.t, OpOf(Ev))
TCall == /\ l <= N /\ ~bad /\ Ev.ev = "Call"
         /\ CallOk
         /\ l' = l + 1 /\ UNCHANGED <<base, id, bad, nilabs>>

\* internal step.  Placing it immediately before a Ret event loses no linearisation: a point can always be
\* moved later up to the next return in the log without leaving its call's interval or changing the order.
TLin == /\ l <= N /\ ~bad /\ Ev.ev = "Ret"
        /\ \E t \in Threads :
             /\ Lin(t)
             /\ nilabs' = (nilabs \/ NilAbsent(pend[t]))
        /\ UNCHANGED <<l, base, id, bad>>

RetReady == Ev.t \in Threads /\ pend[Ev.t] # NoCall /\ pend[Ev.t].done
TRet == /\ l <= N /\ ~bad /\ Ev.ev = "Ret"
        /\ RetReady /\ Ret(Ev.t, ResOf(Ev))
        /\ l' = l + 1 /\ UNCHANGED <<base, id, bad, nilabs>>

FinalOk == Len(q) = Ev.mlen /\ Len(q) = Ev.qlen /\ OrderOf(q) = Ev.order /\ \A t \in Threads : pend[t] = NoCall
TFinal == /\ l <= N /\ ~bad /\ Ev.ev = "Final"
          /\ FinalOk
          /\ l' = l + 1 /\ UNCHANGED <<cap, q, pend, base, id, bad, nilabs>>

\* ---- events no action explains (in this branch) ----
Model == IF Ev.ev = "Do" THEN [res |-> DoRes(q, OpOf(Ev)), len |-> Len(DoQ(q, cap, OpOf(Ev))), order |-> OrderOf(DoQ(q, cap, OpOf(Ev)))]
         ELSE IF Ev.ev = "Ret" /\ RetReady THEN [res |-> pend[Ev.t].res, len |-> Len(q), order |-> OrderOf(q)]
         ELSE [res |-> NoRes, len |-> Len(q), order |-> OrderOf(q)]
Unexplained == \/ Ev.ev = "Do" /\ ~ENABLED DoOk
               \/ Ev.ev = "Call" /\ ~ENABLED CallOk
               \/ Ev.ev = "Ret" /\ (RetReady \/ Ev.t \notin Threads \/ pend[Ev.t] = NoCall) /\ ~(RetReady /\ pend[Ev.t].res = ResOf(Ev))
               \/ Ev.ev = "Final" /\ ~FinalOk
               \/ Ev.ev \notin {"Reset", "Do", "Call", "Ret", "Final"}
TFail == /\ l <= N /\ ~bad /\ Ev.ev # "Reset"
         /\ Unexplained
         /\ PrintT(<<"REJ", ToJson([id |-> id, at |-> l - base, ev |-> Ev, model |-> Model,
                                    nilabs |-> (nilabs \/ (Ev.ev = "Do" /\ NilAbsent(OpOf(Ev))))])>>)
         /\ bad' = TRUE /\ l' = l + 1
         /\ q' = <<>> /\ pend' = Idle /\ nilabs' = FALSE /\ UNCHANGED <<cap, base, id>>
TSkip == /\ l <= N /\ bad /\ Ev.ev # "Reset"
         /\ l' = l + 1 /\ UNCHANGED <<cap, q, pend, base, id, bad, nilabs>>

Next == TReset \/ TDoHit \/ TDoMiss \/ TDoDelete \/ TDoDeleteAbsent \/ TDoUpdate \/ TDoInsert \/ TDoEvict
        \/ TCall \/ TLin \/ TRet \/ TFinal \/ TFail \/ TSkip

AtEnd == l = N + 1 \/ (l <= N /\ Ev.ev = "Reset")
Report == /\ (AtEnd /\ l > 1 /\ ~bad) => PrintT(<<"OK", id>>)
          /\ (l = N + 1) => PrintT(<<"DONE", N>>)
=============================================================================
