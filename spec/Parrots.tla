---------------------------- MODULE Parrots ----------------------------
(***************************************************************************)
(* What a ClientHelloSpec (dumped from the code by reflection, see         *)
(* harness dump.go) describes: offer sets and the expected wire shape.     *)
(* Specs is the dump of UTLSIdToSpec for every predefined ID, read from    *)
(* specs.json in TLC's working directory on every run.                     *)
(***************************************************************************)
EXTENDS TLSWire, Json

SpecFile == JsonDeserialize("specs.json")
Specs == SpecFile.specs            \* id -> [min, max, suites, comp, exts]
Shuffling == SpecFile.shuffling    \* sequence of ids whose extension order differs between dumps
IDs == DOMAIN Specs

ExtOf(sp, k) == {i \in DOMAIN sp.exts : sp.exts[i].kind = k}
HasExt(sp, k) == ExtOf(sp, k) # {}
TheExt(sp, k) == sp.exts[CHOOSE i \in ExtOf(sp, k) : TRUE]

\* ---- offered sets of a spec ----
SVList(sp) == IF HasExt(sp, "SupportedVersionsExtension")
              THEN {v \in Range(TheExt(sp, "SupportedVersionsExtension").f.Versions) : ~IsGrease16(v)} ELSE {}
SetMax(S) == CHOOSE x \in S : \A y \in S : y <= x
SetMin(S) == CHOOSE x \in S : \A y \in S : y >= x
\* SetTLSVers: explicit min/max, else from supported_versions, else 1.0..1.2
EffMin(sp) == IF sp.min # 0 \/ sp.max # 0 THEN sp.min ELSE IF SVList(sp) # {} THEN SetMin(SVList(sp)) ELSE 769
EffMax(sp) == IF sp.min # 0 \/ sp.max # 0 THEN sp.max ELSE IF SVList(sp) # {} THEN SetMax(SVList(sp)) ELSE 771
\* versions the hello advertises on the wire
Advertised(sp) == IF HasExt(sp, "SupportedVersionsExtension") THEN SVList(sp)
                  ELSE EffMin(sp)..(IF EffMax(sp) > 771 THEN 771 ELSE EffMax(sp))
LegacyVersion(sp) == IF EffMax(sp) > 771 THEN 771 ELSE EffMax(sp)
Suites(sp) == {s \in Range(sp.suites) : ~IsGrease16(s)}
Groups(sp) == IF HasExt(sp, "SupportedCurvesExtension")
              THEN {g \in Range(TheExt(sp, "SupportedCurvesExtension").f.Curves) : ~IsGrease16(g)} ELSE {}
ShareGroups(sp) == IF HasExt(sp, "KeyShareExtension")
                   THEN {k.Group : k \in {x \in Range(TheExt(sp, "KeyShareExtension").f.KeyShares) : ~IsGrease16(x.Group)}} ELSE {}
ALPNs(sp) == IF HasExt(sp, "ALPNExtension") THEN Range(TheExt(sp, "ALPNExtension").f.AlpnProtocols) ELSE {}
CompAlgs(sp) == IF HasExt(sp, "UtlsCompressCertExtension") THEN Range(TheExt(sp, "UtlsCompressCertExtension").f.Algorithms) ELSE {}

\* ---- expected wire shape (C03) ----
\* ordered: wire extensions follow the spec order; padding / pre_shared_key descriptors may be absent
RECURSIVE Align(_,_,_,_,_)
Align(w, wi, ds, di, env) ==
  IF di > Len(ds) THEN wi > Len(w)
  ELSE IF wi <= Len(w) /\ ExtMatches(w[wi], ds[di], env) THEN Align(w, wi+1, ds, di+1, env)
  ELSE IF IsPad(ds[di]) \/ IsPsk(ds[di]) THEN Align(w, wi, ds, di+1, env)
  ELSE FALSE

\* shuffled: same multiset; GREASE, padding and pre_shared_key at their spec positions
Fixed(d) == IsGreaseExtD(d) \/ IsPad(d) \/ IsPsk(d)
Present(w, d) == (IsPad(d) => \E i \in DOMAIN w : w[i].type = 21) /\ (IsPsk(d) => \E i \in DOMAIN w : w[i].type = 41)
RECURSIVE Filter(_,_,_)
Filter(w, ds, i) == IF i > Len(ds) THEN <<>> ELSE (IF Present(w, ds[i]) THEN <<ds[i]>> ELSE <<>>) \o Filter(w, ds, i+1)
ShuffledMatch(w, ds0, env) ==
  LET ds == Filter(w, ds0, 1) IN
  /\ Len(w) = Len(ds)
  /\ \A i \in DOMAIN ds : Fixed(ds[i]) => ExtMatches(w[i], ds[i], env)
  /\ \A i \in DOMAIN ds : ~Fixed(ds[i]) => \E j \in DOMAIN w : ~Fixed(ds[j]) /\ ExtMatches(w[j], ds[i], env)
  /\ \A j \in DOMAIN w : ~Fixed(ds[j]) => \E i \in DOMAIN ds : ~Fixed(ds[i]) /\ ExtMatches(w[j], ds[i], env)
  /\ NoDupSeq([i \in DOMAIN w |-> w[i].type])

\* ApplyPreset (BoringSSL mimicry): the second GREASE extension of a hello carries the one-byte body 00
GreaseOrd(ds, i) == Cardinality({j \in 1..i : IsGreaseExtD(ds[j])})
PrepExts(ds) == [i \in DOMAIN ds |-> IF IsGreaseExtD(ds[i]) /\ GreaseOrd(ds, i) = 2
                                      THEN [ds[i] EXCEPT !.f.Body = <<0>>] ELSE ds[i]]
Prep(sp) == [sp EXCEPT !.exts = PrepExts(sp.exts)]

HelloMatchesSpec(raw, id, sni) ==
  LET h == ParseHello(raw)
      sp == Prep(Specs[id])
      env == [sni |-> sni]
  IN /\ h.ok
     /\ \A k \in DOMAIN h.exts : ~h.exts[k].bad
     /\ h.vers = LegacyVersion(sp)
     /\ ListMatchesModGrease(h.suites, sp.suites)
     /\ h.comp = sp.comp
     /\ IF id \in Range(Shuffling) THEN ShuffledMatch(h.exts, sp.exts, env) ELSE Align(h.exts, 1, sp.exts, 1, env)

RECURSIVE AlignFail(_,_,_,_,_)
AlignFail(w, wi, ds, di, env) ==
  IF di > Len(ds) THEN <<"wire-extra", wi, di>>
  ELSE IF wi <= Len(w) /\ ExtMatches(w[wi], ds[di], env) THEN AlignFail(w, wi+1, ds, di+1, env)
  ELSE IF IsPad(ds[di]) \/ IsPsk(ds[di]) THEN AlignFail(w, wi, ds, di+1, env)
  ELSE <<"ext", wi, di, ds[di].kind, IF wi <= Len(w) THEN w[wi].type ELSE -1>>

WhyMismatch(raw, id, sni) ==
  LET h == ParseHello(raw)
      sp == Prep(Specs[id])
      env == [sni |-> sni]
  IN IF ~h.ok THEN "framing"
     ELSE IF h.vers # LegacyVersion(sp) THEN "legacy_version"
     ELSE IF ~ListMatchesModGrease(h.suites, sp.suites) THEN "cipher_suites"
     ELSE IF h.comp # sp.comp THEN "compression"
     ELSE IF id \in Range(Shuffling) THEN "extensions-shuffled"
     ELSE AlignFail(h.exts, 1, sp.exts, 1, env)
=============================================================================
