INIT InitMC
NEXT NextEager
INVARIANT Safety
CONSTRAINT Emit
CHECK_DEADLOCK FALSE
