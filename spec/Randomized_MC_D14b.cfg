CONSTANT WMode = "basic"
INIT Init
NEXT Next
VIEW View
INVARIANT InvHybridHasShare
CHECK_DEADLOCK FALSE
