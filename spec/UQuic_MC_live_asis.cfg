\* liveness, mechanism AS CODED: AlwaysReturns is expected to fail (D5)
CONSTANTS
  FixEarlyReturn = FALSE
  Builds = {"ok", "noname"}
  HRRs = {FALSE, TRUE}
  MaxCut = 0
SPECIFICATION Spec
PROPERTIES AlwaysReturns Completes
CHECK_DEADLOCK FALSE
