CONSTANT Full = TRUE
INIT Init
NEXT Next
CONSTRAINT Emit
CHECK_DEADLOCK FALSE
