CONSTANTS
  IDs = {"Chrome-120", "Firefox-120", "Randomized"}
  RandIDs = {"Randomized"}
  Stalls = {{}, {"Chrome-120"}, {"Firefox-120"}, {"Chrome-120", "Firefox-120"}}
  Seeds = {1, 2, 3, 4, 5, 6, 7, 8, 9, 10, 11, 12, 13, 14, 15, 16, 17, 18, 19, 20, 21, 22, 23, 24}
  Canon = FALSE
  MaxSteps = 99
  MaxCallers = 2
INIT TInit
NEXT TNext
CONSTRAINT Report
INVARIANTS StartsWithWorking SameSeedAgain WorkingIsConcrete AtMostOnce FirstSuccess TcpErrorImmediate Recorded SeqPrefers
CHECK_DEADLOCK FALSE
