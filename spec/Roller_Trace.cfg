CONSTANTS
  IDs = {"Chrome-120", "Firefox-120", "iOS-14"}
  None = "-"
  MaxSteps = 99
  MaxCallers = 2
INIT TInit
NEXT TNext
CONSTRAINT Report
INVARIANTS StartsWithWorking AtMostOnce FirstSuccess TcpErrorImmediate Recorded SeqPrefers
CHECK_DEADLOCK FALSE
