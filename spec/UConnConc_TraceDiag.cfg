CONSTANT Diag = TRUE
INIT InitTrace
NEXT NextTrace
CONSTRAINT Report
INVARIANT Safety
CHECK_DEADLOCK FALSE
