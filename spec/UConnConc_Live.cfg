SPECIFICATION SpecL
PROPERTY EveryCallReturns
INVARIANT NoStuckState
CHECK_DEADLOCK FALSE
