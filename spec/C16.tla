-------------------------------- MODULE C16 --------------------------------
(* GREASE ECH (C16): every recorded hello of a parrot whose spec carries a GREASEEncryptedClientHelloExtension has a
   well-formed outer ECH extension drawn from the descriptor's candidate lists (TLSWire!ValidGreaseECH, RFC grammar via
   ValidBody), and config id / encapsulated key / payload are fresh per connection.  (The "identical bytes after a
   HelloRetryRequest" clause is Negotiation!CH2Problems "ch2-ech-grease-changed", checked on HRR traces.) *)
EXTENDS Parrots
Trace == ndJsonDeserialize("c16_hellos.ndjson")
VARIABLES l, seenKey, seenPayload, cfgIds, bad
Init == l = 1 /\ seenKey = {} /\ seenPayload = {} /\ cfgIds = {} /\ bad = {}
Desc(id) == TheExt(Specs[id], "GREASEEncryptedClientHelloExtension")
EchKey(b) == SubSeq(b, 9, 40)
EchPayload(b) == SubSeq(b, 43, Len(b))
Next == /\ l <= Len(Trace) /\ l' = l + 1
        /\ LET ev == Trace[l]
               h == ParseHello(ev.raw)
               has == h.ok /\ HasExtT(h, 65037)
               b == IF has THEN ExtBody(h, 65037) ELSE <<>>
               okv == has /\ ValidBody(65037, b) /\ ValidGreaseECH(b, Desc(ev.id).f)
           IN /\ bad' = bad \cup (IF ~has THEN {<<ev.id, "no-ech-extension">>} ELSE {})
                            \cup (IF has /\ ~okv THEN {<<ev.id, "malformed-grease-ech">>} ELSE {})
                            \cup (IF okv /\ EchKey(b) \in seenKey THEN {<<ev.id, "encapsulated-key-repeated">>} ELSE {})
                            \cup (IF okv /\ EchPayload(b) \in seenPayload THEN {<<ev.id, "payload-repeated">>} ELSE {})
              /\ seenKey' = IF okv THEN seenKey \cup {EchKey(b)} ELSE seenKey
              /\ seenPayload' = IF okv THEN seenPayload \cup {EchPayload(b)} ELSE seenPayload
              /\ cfgIds' = IF okv THEN cfgIds \cup {<<ev.id, b[6]>>} ELSE cfgIds
\* config id is one byte: freshness = at least 8 distinct values among the connections of each parrot
\* (64 connections, uniform byte: fewer than 8 distinct values has probability < 2^-300)
FewIds == {id \in {Trace[i].id : i \in DOMAIN Trace} : Cardinality({p \in cfgIds : p[1] = id}) < 8}
Report == (l = Len(Trace) + 1) =>
            /\ PrintT(<<"DONE", l - 1>>)
            /\ \A x \in bad : PrintT(<<"BAD", ToJson(x)>>)
            /\ \A id \in FewIds : PrintT(<<"BAD", ToJson(<<id, "config-id-not-fresh">>)>>)
=============================================================================
