---------------------------- MODULE Session_Trace ----------------------------
(***************************************************************************)
(* Trace validation for C19 / C20.  sess_trace.ndjson holds one row per    *)
(* recorded connection: the scenario's connection descriptor (as emitted   *)
(* by Session_MC) next to what the harness observed.  Rows of one scenario *)
(* are consecutive (k = 1 resets the model cache).  A row that the         *)
(* specification does not explain is collected in rej together with the    *)
(* name of the violated clause; the batch is always read to its end.       *)
(***************************************************************************)
EXTENDS Session
Trace == ndJsonDeserialize("sess_trace.ndjson")
VARIABLES l, rej, drift, cacheM

Names == {"a.example", "b.example"}
NoStored == [present |-> FALSE, ticket |-> <<>>, vers |-> 0, ems |-> FALSE, suite |-> 0]
EmptyCache == [n \in Names |-> NoStored]
Init == l = 1 /\ rej = {} /\ drift = {} /\ cacheM = EmptyCache

Base(row) == IF row.k = 1 THEN EmptyCache ELSE cacheM
Why(row) ==
  CASE row.role = "target" -> C20Why(row.cd, row.env, row.ev)
    [] row.role \in {"seedA", "seedB"} -> SeedWhy(row.ev)
    [] row.role = "par" -> ParWhy(row.ev)
    [] OTHER -> C19Why(row.cd, row.k, IF row.k > 1 THEN Trace[l-1].cd ELSE row.cd, IF row.k > 1 THEN Trace[l-1].ev ELSE row.ev, Base(row), row.ev)
\* the ClientSessionCache model follows the recorded cache content (binding of Session!C19Cache's variable)
CacheStep(row) == IF row.cd.cache = "main" THEN [Base(row) EXCEPT ![row.cd.name] = row.ev.after] ELSE Base(row)
\* mechanism conformance (diagnostic): do the observed call results match the mechanism model, as coded or repaired?
Ran(ev) == SelectSeq(ObsRes(ev), LAMBDA x : x # "notrun")
Drifts(row) == row.role = "target" /\ Ran(row.ev) # row.pred0 /\ Ran(row.ev) # row.pred1

\* C18 over the whole history, judged when its last connection is read: the first hellos of any two connections
\* differ in legacy_session_id, random and key shares
H1(row) == IF Len(row.ev.hellos) > 0 THEN ParseHello(row.ev.hellos[1]) ELSE BadHello
LawWhy(row) ==
  IF row.kind # "C19" \/ row.k # row.n \/ row.n < 2 THEN "ok"
  ELSE LET bad == { p \in (1..row.n) \X (1..row.n) : p[1] < p[2] /\ FreshWhy(H1(Trace[l - row.n + p[1]]), H1(Trace[l - row.n + p[2]])) # "ok" } IN
       IF bad = {} THEN "ok"
       ELSE LET p == CHOOSE p \in bad : TRUE IN FreshWhy(H1(Trace[l - row.n + p[1]]), H1(Trace[l - row.n + p[2]]))
Good(w) == w = "ok" /\ UNCHANGED rej
Skip(w) == w # "ok" /\ rej' = rej \cup {<<l, w>>}
Next == /\ l <= Len(Trace)
        /\ LET row == Trace[l]  w0 == Why(row)  w == IF w0 # "ok" THEN w0 ELSE LawWhy(row) IN
             /\ Good(w) \/ Skip(w)
             /\ cacheM' = CacheStep(row)
             /\ drift' = IF Drifts(row) THEN drift \cup {l} ELSE drift
        /\ l' = l + 1
Report == (l = Len(Trace) + 1) =>
            /\ PrintT(<<"DONE", l - 1>>)
            /\ \A x \in rej : PrintT(<<"REJ", x[1], x[2]>>)
            /\ \A x \in drift : PrintT(<<"DRIFT", x>>)
=============================================================================
