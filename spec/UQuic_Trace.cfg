\* traces of the real code against the REPAIRED mechanism (the only one the property accepts)
CONSTANTS
  FixEarlyReturn = TRUE
  Builds = {"ok", "noname", "unset", "minver12"}
  HRRs = {FALSE, TRUE}
  MaxCut = 1000000
  Verbose = FALSE
INIT TInit
NEXT TNext
CONSTRAINT Report
INVARIANTS WriteBeforeRead AppReadAfterDone TPOnce OnlyHandshakeData DoneMeansComplete
CHECK_DEADLOCK FALSE
