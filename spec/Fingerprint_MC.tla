--------------------------- MODULE Fingerprint_MC ---------------------------
(***************************************************************************)
(* Bounded exhaustive configuration for C06.                               *)
(*  (1) The scenario grid: source of hello A x Fingerprinter flags x       *)
(*      server-name length class.  Sources: every parrot of specs.json,    *)
(*      the three randomized IDs x NSeeds seed slots, custom specs         *)
(*      (TLC-generated mutants of the dumped parrot specs: one extension   *)
(*      dropped, two neighbours swapped, an extension kind no parrot uses  *)
(*      added, a field replaced by a variant), captures with a crafted     *)
(*      non-empty padding extension, captures whose GREASE ECH extension   *)
(*      has an encapsulated key / payload of another size.  Every grid point is an initial       *)
(*      state and is emitted as a scenario; the custom specs are emitted   *)
(*      once each as descriptor lists the harness turns into real          *)
(*      ClientHelloSpecs.                                                  *)
(*  (2) Model-level sanity of Norm on small abstract hellos built          *)
(*      extension by extension from a pool that contains every shape Norm  *)
(*      distinguishes (GREASE, key shares, ECH, padding, malformed         *)
(*      bodies): idempotence, blindness to per-connection material,        *)
(*      sharpness (a swapped extension / changed suite is seen), and that  *)
(*      RoundTrip accepts a regenerated copy of a hello.                   *)
(***************************************************************************)
EXTENDS Parrots, Fingerprint

CONSTANTS NSeeds, MaxExts

VARIABLES mode,   \* "grid" | "abstract"
          scn,    \* grid point
          x       \* abstract parsed hello
vars == <<mode, scn, x>>

\* ------------------------------------------------------------------ (1) the grid
Flags == [blunt : BOOLEAN, pad : BOOLEAN, realpsk : BOOLEAN]
SniClasses == {"same", "shorter", "longer"}
RandomizedIDs == {"Randomized-0", "Randomized-ALPN-0", "Randomized-NoALPN-0"}   \* ClientHelloID.Str() of HelloRandomized, HelloRandomizedALPN, HelloRandomizedNoALPN
PadLens == {1, 2, 5, 33, 200}
PadWhere == {"end", "middle"}
\* crafted captures of a GREASE ECH extension: enc (encapsulated key) sizes of other KEMs than X25519 (32): DHKEM P-256 65,
\* P-384 97, P-521 133, and odd ones; payload sizes from (128+16) and not from the parrots' candidate sets
EchEncLens == {1, 31, 33, 65, 97, 133}
EchPayLens == {144, 16, 100, 250}
GreaseShareLens == {2, 7, 32}     \* 1 is what every parrot has; 0 is not a key_share entry (key_exchange<1..2^16-1>)
GreaseBodyLens == {1, 5}          \* 0 is what every parrot has
HasGreaseShare(d) == d.kind = "KeyShareExtension" /\ \E q \in DOMAIN d.f.KeyShares : IsGrease16(d.f.KeyShares[q].Group)
Filler(n) == [q \in 1..n |-> (q * 11) % 256]
\* crafted captures in which one opaque, sender-chosen length is not the one utls parrots use: (what, length)
CraftLens == {<<"gks", 2>>, <<"gks", 7>>, <<"gks", 32>>,       \* key_exchange of the GREASE key_share entry
              <<"gext", 1>>, <<"gext", 5>>,                    \* body of the first GREASE extension
              <<"gext2", 0>>, <<"gext2", 2>>, <<"gext2", 5>>,  \* body of the second GREASE extension (an empty one becomes BoringSSL's 00: known finding)
              <<"sid", 0>>, <<"sid", 16>>,                     \* legacy_session_id
              <<"ticket", 48>>, <<"ticket", 200>>}             \* session_ticket body
CraftIDs(what) == CASE what = "gks" -> {id \in IDs : \E j \in DOMAIN Specs[id].exts : HasGreaseShare(Specs[id].exts[j])}
                    [] what = "gext" -> {id \in IDs : HasExt(Specs[id], "UtlsGREASEExtension")}
                    [] what = "gext2" -> {id \in IDs : Cardinality(ExtOf(Specs[id], "UtlsGREASEExtension")) = 2}
                    [] what = "ticket" -> {id \in IDs : HasExt(Specs[id], "SessionTicketExtension")}
                    [] OTHER -> IDs
EchIDs == {id \in IDs : HasExt(Specs[id], "GREASEEncryptedClientHelloExtension")}

\* ---- custom specs: mutants of dumped specs
D(kind, f) == [kind |-> kind, f |-> f]
Label32 == [i \in 1..32 |-> 160 + (i % 16)]
Binder32 == [i \in 1..32 |-> 176 + (i % 16)]   \* a binder has the size of a TLS 1.3 hash
\* extension kinds no (or hardly any) parrot uses, appended in front of padding / pre_shared_key
Extras == <<
  D("FakeRecordSizeLimitExtension", [Limit |-> 16385]),
  D("FakeTokenBindingExtension", [MajorVersion |-> 0, MinorVersion |-> 13, KeyParameters |-> <<1, 2>>]),
  D("FakeChannelIDExtension", [OldExtensionID |-> TRUE]),
  D("FakeChannelIDExtension", [OldExtensionID |-> FALSE]),
  D("NPNExtension", [NextProtos |-> <<>>]),
  D("FakeDelegatedCredentialsExtension", [SupportedSignatureAlgorithms |-> <<1027, 1283, 1539>>]),
  D("StatusRequestV2Extension", [x |-> 0]),
  D("CookieExtension", [Cookie |-> <<1, 2, 3>>]),
  D("GenericExtension", [Id |-> 4660, Data |-> <<1, 2, 3>>]),
  D("GenericExtension", [Id |-> 22, Data |-> <<>>]),
  D("FakePreSharedKeyExtension", [Identities |-> << [Label |-> Label32, ObfuscatedTicketAge |-> 7] >>, Binders |-> <<Binder32>>, OmitEmptyPsk |-> FALSE])
>>
\* replacement field values per kind
Variants(kind) ==
  CASE kind = "ALPNExtension" -> { [AlpnProtocols |-> << <<104, 50>> >>], [AlpnProtocols |-> << <<104, 116, 116, 112, 47, 49, 46, 49>>, <<104, 50>>, <<115, 112, 100, 121, 47, 51>> >>] }
    [] kind = "SupportedCurvesExtension" -> { [Curves |-> <<GREASE, 29, 23>>], [Curves |-> <<23, 24, 25>>] }
    [] kind = "SupportedPointsExtension" -> { [SupportedPoints |-> <<0, 1, 2>>] }
    [] kind = "SignatureAlgorithmsExtension" -> { [SupportedSignatureAlgorithms |-> <<1027, 2052>>] }
    [] kind = "SupportedVersionsExtension" -> { [Versions |-> <<772>>], [Versions |-> <<GREASE, 772, 771, 770>>] }
    [] kind = "KeyShareExtension" -> { [KeyShares |-> << [Group |-> 23, Data |-> <<>>] >>],
                                       [KeyShares |-> << [Group |-> GREASE, Data |-> <<0>>], [Group |-> 29, Data |-> <<>>], [Group |-> 23, Data |-> <<>>] >>] }
    [] kind = "PSKKeyExchangeModesExtension" -> { [Modes |-> <<0, 1>>] }
    [] kind = "UtlsCompressCertExtension" -> { [Algorithms |-> <<1, 2, 3>>] }
    [] kind = "RenegotiationInfoExtension" -> { [Renegotiation |-> 0], [Renegotiation |-> 2] }
    [] kind = "ApplicationSettingsExtension" -> { [SupportedProtocols |-> << <<104, 50>>, <<104, 51>> >>] }
    [] kind = "UtlsGREASEExtension" -> { [Value |-> 0, Body |-> <<7, 7>>] }
    [] OTHER -> {}

IsSessionD(d) == IsPsk(d) \/ IsPad(d)
Tailish(ds) == {i \in DOMAIN ds : IsSessionD(ds[i])}     \* padding / pre_shared_key descriptors stay at the end
InsertAt(ds, i, d) == SubSeq(ds, 1, i - 1) \o <<d>> \o SubSeq(ds, i, Len(ds))
FirstTail(ds) == IF Tailish(ds) = {} THEN Len(ds) + 1 ELSE CHOOSE i \in Tailish(ds) : \A j \in Tailish(ds) : i <= j

Muts(id) ==
  LET ds == Specs[id].exts IN
       {[op |-> "drop", i |-> i, k |-> 0] : i \in DOMAIN ds}
  \cup {[op |-> "swap", i |-> i, k |-> 0] : i \in {j \in 1..(Len(ds) - 1) : ~IsPsk(ds[j]) /\ ~IsPsk(ds[j+1])}}
  \cup {[op |-> "add", i |-> 0, k |-> k] : k \in {j \in DOMAIN Extras : ~(IsPsk(Extras[j]) /\ \E q \in DOMAIN ds : IsPsk(ds[q]))}}
  \cup UNION {{[op |-> "field", i |-> i, k |-> k] : k \in 1..Cardinality(Variants(ds[i].kind))} : i \in DOMAIN ds}
  \* opaque fields whose length the sender chooses (RFC 8701): key_exchange of the GREASE key_share entry, body of the first
  \* GREASE extension, body of the second one (ApplyPreset fills an EMPTY second body with BoringSSL's single 00)
  \cup {[op |-> "gks", i |-> i, k |-> n] : i \in {j \in DOMAIN ds : HasGreaseShare(ds[j])}, n \in GreaseShareLens}
  \cup {[op |-> "gbody", i |-> i, k |-> n] : i \in {j \in DOMAIN ds : IsGreaseExtD(ds[j]) /\ GreaseOrd(ds, j) = 1}, n \in GreaseBodyLens}
  \cup {[op |-> "gbody2", i |-> i, k |-> n] : i \in {j \in DOMAIN ds : IsGreaseExtD(ds[j]) /\ GreaseOrd(ds, j) = 2}, n \in {2, 5}}

\* a deterministic enumeration of a finite set of records (TLC sorts sets internally; any fixed order will do)
RECURSIVE SetToSeq(_)
SetToSeq(S) == IF S = {} THEN <<>> ELSE LET e == CHOOSE e \in S : TRUE IN <<e>> \o SetToSeq(S \ {e})

Mutate(id, m) ==
  LET sp == Specs[id] ds == sp.exts IN
  [sp EXCEPT !.exts =
     CASE m.op = "drop" -> SubSeq(ds, 1, m.i - 1) \o SubSeq(ds, m.i + 1, Len(ds))
       [] m.op = "swap" -> [j \in DOMAIN ds |-> IF j = m.i THEN ds[m.i + 1] ELSE IF j = m.i + 1 THEN ds[m.i] ELSE ds[j]]
       [] m.op = "add" -> IF IsPsk(Extras[m.k]) THEN ds \o <<Extras[m.k]>> ELSE InsertAt(ds, FirstTail(ds), Extras[m.k])
       [] m.op = "field" -> [ds EXCEPT ![m.i].f = SetToSeq(Variants(ds[m.i].kind))[m.k]]
       [] m.op = "gks" -> [ds EXCEPT ![m.i].f.KeyShares = [q \in DOMAIN @ |-> IF IsGrease16(@[q].Group) THEN [@[q] EXCEPT !.Data = Filler(m.k)] ELSE @[q]]]
       [] m.op \in {"gbody", "gbody2"} -> [ds EXCEPT ![m.i].f.Body = Filler(m.k)]]

CustomBases == IDs

Sources ==
       {[kind |-> "parrot", id |-> id, k |-> 0, m |-> [op |-> "", i |-> 0, k |-> 0], where |-> ""] : id \in IDs}
  \cup {[kind |-> "randomized", id |-> id, k |-> k, m |-> [op |-> "", i |-> 0, k |-> 0], where |-> ""] : id \in RandomizedIDs, k \in 1..NSeeds}
  \cup UNION {{[kind |-> "custom", id |-> id, k |-> 0, m |-> m, where |-> ""] : m \in Muts(id)} : id \in CustomBases}
  \cup {[kind |-> "capture", id |-> id, k |-> p, m |-> [op |-> "", i |-> 0, k |-> 0], where |-> w] : id \in IDs, p \in PadLens, w \in PadWhere}
  \cup UNION {{[kind |-> "craft", id |-> id, k |-> c[2], m |-> [op |-> c[1], i |-> 0, k |-> 0], where |-> ""] : id \in CraftIDs(c[1])} : c \in CraftLens}
  \cup {[kind |-> "echcapture", id |-> id, k |-> n, m |-> [op |-> "ech", i |-> pl, k |-> 0], where |-> ""] : id \in EchIDs, n \in EchEncLens, pl \in EchPayLens}

GridInit == /\ mode = "grid"
            /\ scn \in [src : Sources, flags : Flags, sni : SniClasses]
            /\ x = <<>>

\* ------------------------------------------------------------------ (2) abstract hellos
E(t, b) == [bad |-> FALSE, type |-> t, body |-> b]
Share(g, d) == U16(g) \o Vec16(d)
ECHBody(cfg, enc, payload) == <<0, 0, 1, 0, 1, cfg>> \o Vec16(enc) \o Vec16(payload)
Pool == {
  E(2570, <<>>), E(6682, <<0>>),                                   \* GREASE extensions 0x0a0a, 0x1a1a
  E(0, Vec16(<<0>> \o Vec16(<<97, 46, 98>>))),                      \* server_name a.b
  E(10, Vec16(U16List(<<10794, 29, 23>>))),                         \* groups with GREASE 0x2a2a
  E(51, Vec16(Share(10794, <<0>>) \o Share(29, <<1, 2, 3>>))),      \* key shares: GREASE + x25519
  E(43, Vec8(U16List(<<14906, 772, 771>>))),                        \* versions with GREASE 0x3a3a
  E(21, <<0, 0, 0>>),                                               \* padding
  E(35, <<9, 9>>),                                                  \* ticket
  E(41, <<1, 2, 3>>),                                               \* pre_shared_key (opaque here)
  E(65037, ECHBody(7, <<5, 6>>, <<7, 8, 9>>)),                      \* GREASE ECH
  E(16, Vec16(Vec8(<<104, 50>>))),                                  \* ALPN h2
  E(23, <<>>),                                                      \* extended_master_secret
  E(51, <<0, 9, 1>>), E(10, <<0>>), E(65037, <<0, 0>>)              \* bodies that do not parse
}
AbsBase == {[ok |-> TRUE, vers |-> 771, random |-> <<1, 2, 3, 4>>, sid |-> s, suites |-> cs, comp |-> <<0>>, exts |-> <<>>, hasExts |-> TRUE]
              : s \in {<<>>, <<5, 5>>}, cs \in {<<19018, 4865>>, <<4865, 4866>>}}

AbsInit == mode = "abstract" /\ x \in AbsBase /\ scn = [src |-> [kind |-> "abstract"]]
AddExt == /\ mode = "abstract" /\ Len(x.exts) < MaxExts
          /\ \E e \in Pool : x' = [x EXCEPT !.exts = Append(x.exts, e)]
          /\ UNCHANGED <<mode, scn>>

Init == GridInit \/ AbsInit
Next == AddExt

\* ---- perturbations of per-connection material and GREASE values
ReG(v) == IF IsGrease16(v) THEN 64250 ELSE v                       \* every GREASE value -> 0xfafa
ReGs(xs) == [i \in DOMAIN xs |-> ReG(xs[i])]
ReShares(sh) == Flat([i \in DOMAIN sh |-> U16(ReG(sh[i].group)) \o Vec16(IF IsGrease16(sh[i].group) THEN sh[i].data ELSE [j \in 1..sh[i].n |-> 7])])
ReBody(t, b) ==
  CASE t = 0 -> Vec16(<<0>> \o Vec16(<<120, 121, 122, 46, 99>>))
    [] t = 35 -> <<4, 4, 4, 4>>
    [] t = 41 -> <<8>>
    [] t = 10 -> IF IsVec16(b) /\ Len(b) % 2 = 0 THEN Vec16(U16List(ReGs(U16Seq(SubSeq(b, 3, Len(b)))))) ELSE b
    [] t = 43 -> IF IsVec8(b) /\ Len(b) % 2 = 1 THEN Vec8(U16List(ReGs(U16Seq(SubSeq(b, 2, Len(b)))))) ELSE b
    [] t = 51 -> IF IsVec16(b) /\ SharesOK(b, 3) THEN Vec16(ReShares(ParseShares(b, 3))) ELSE b
    [] t = 65037 -> IF ECHOuterOK(b) THEN SubSeq(b, 1, 5) \o <<99>> \o Vec16([j \in 1..RdU16(b,7) |-> 3]) \o Vec16([j \in 1..RdU16(b, 9 + RdU16(b,7)) |-> 4]) ELSE b
    [] t = 21 -> b \o <<0, 0>>
    [] OTHER -> b
Perturb(h) == [h EXCEPT !.random = [i \in DOMAIN h.random |-> 9], !.sid = <<6, 6, 6>>, !.suites = ReGs(h.suites),
                        !.exts = [i \in DOMAIN h.exts |-> IF IsGrease16(h.exts[i].type) THEN [h.exts[i] EXCEPT !.type = 64250]
                                                          ELSE [h.exts[i] EXCEPT !.body = ReBody(h.exts[i].type, h.exts[i].body)]]]
\* the same hello with its padding extensions removed
Unpad(h) == [h EXCEPT !.exts = NoPadExts(h.exts)]

Abstract == mode = "abstract"
NormIdem == Abstract => Norm(Norm(x)) = Norm(x)
NormBlind == Abstract => Norm(Perturb(x)) = Norm(x) /\ Norm(Unpad(x)) = Norm(x)
\* sharpness: two neighbours with different normal forms swapped, or a suite changed, or the version changed, is seen
SwapAt(h, i) == [h EXCEPT !.exts = [j \in DOMAIN h.exts |-> IF j = i THEN h.exts[i+1] ELSE IF j = i + 1 THEN h.exts[i] ELSE h.exts[j]]]
NormSharp == Abstract =>
  /\ \A i \in 1..(Len(x.exts) - 1) :
       (~IsPadExt(x.exts[i]) /\ ~IsPadExt(x.exts[i+1]) /\ NormExt(x.exts[i]) # NormExt(x.exts[i+1])) => Norm(SwapAt(x, i)) # Norm(x)
  /\ Norm([x EXCEPT !.suites = Append(x.suites, 47)]) # Norm(x)
  /\ Norm([x EXCEPT !.vers = 769]) # Norm(x)
  /\ \A i \in DOMAIN x.exts : x.exts[i].type = 16 => Norm([x EXCEPT !.exts[i].body = Vec16(Vec8(<<104, 51>>))]) # Norm(x)
\* Norm never changes the number of non-padding extensions and never touches what is not per-connection
NormKeeps == Abstract => /\ Len(Norm(x).exts) = Len(NoPadExts(x.exts))
                         /\ Norm(x).vers = x.vers /\ Norm(x).comp = x.comp /\ Len(Norm(x).suites) = Len(x.suites)
\* RoundTrip is satisfiable: a regenerated copy (other GREASE values, other keys, same sizes) of a hello with at most one
\* padding extension is explained under the default flags
ReSame(h) == [Perturb(h) EXCEPT !.sid = h.sid,
                !.exts = [i \in DOMAIN h.exts |-> IF h.exts[i].type \in {0, 35, 41, 21} THEN h.exts[i] ELSE Perturb(h).exts[i]]]
F0 == [blunt |-> FALSE, pad |-> FALSE, realpsk |-> FALSE]
SelfRoundTrip == Abstract /\ Cardinality(PadIdx(x)) <= 1 /\ ~(HasPad(x) /\ Len(ThePad(x).body) = 0) =>
                   RoundTripH(x, ReSame(x), WireLen(x), WireLen(ReSame(x)), F0) = {}
\* ... and a changed ALPN body is a deviation
RoundTripSharp == Abstract /\ Cardinality(PadIdx(x)) <= 1 =>
                   \A i \in DOMAIN x.exts : x.exts[i].type = 16 =>
                      RoundTripH(x, [x EXCEPT !.exts[i].body = Vec16(Vec8(<<104, 51>>))], WireLen(x), WireLen(x), F0) # {}

Inv == NormIdem /\ NormBlind /\ NormSharp /\ NormKeeps /\ SelfRoundTrip /\ RoundTripSharp

\* ------------------------------------------------------------------ emission
EmitScn == (mode = "grid") => PrintT(<<"SCN", ToJson(scn)>>)
EmitAbs == (mode = "abstract" /\ Len(x.exts) = MaxExts /\ x.exts[1].type = 21 /\ x.exts[2].type = 51 /\ x.sid = <<>>) => PrintT(<<"ABS", Len(x.exts)>>)
\* every custom spec once, as the descriptor list the harness builds a ClientHelloSpec from
EmitCustom == (mode = "grid" /\ scn.src.kind = "custom" /\ scn.flags = F0 /\ scn.sni = "same") =>
                PrintT(<<"CSPEC", ToJson([id |-> scn.src.id, m |-> scn.src.m, spec |-> Mutate(scn.src.id, scn.src.m)])>>)
Constr == EmitScn /\ EmitAbs /\ EmitCustom
=============================================================================
