---------------------------- MODULE Padding_MC ----------------------------
(***************************************************************************)
(* Bounded exhaustive configuration of Padding.tla.                        *)
(*  (1) abstract hellos: u grows byte by byte over 0..MaxU (701 lengths);  *)
(*      at every length the hello is padded under the BoringSSL policy, or *)
(*      captured with an arbitrary non-empty padding body, fingerprinted   *)
(*      and rebuilt; all policy invariants are checked on every state.     *)
(*  (2) every padding-bearing parrot of specs.json (descriptor style =     *)
(*      "boring") is assembled extension by extension from its dumped      *)
(*      spec (lengths from the TLSWire reference encoders), for each ALPN  *)
(*      variant and with/without a session ticket; SetSNI then *solves*    *)
(*      for the server-name lengths that put u on the boundaries of the    *)
(*      policy (Thorough = FALSE) or takes every length 1..253 (TRUE).     *)
(*      Every terminal state is emitted as a scenario for the harness.     *)
(*  (3) from the corner lengths of (2) the same UConn marshals again:      *)
(*      SetSNI to a shorter/longer name, or the second ClientHello after   *)
(*      a HelloRetryRequest naming a listed group without a share.         *)
(***************************************************************************)
EXTENDS Parrots, Padding

CONSTANTS Thorough, MaxU, TicketLen

VARIABLES scn,    \* the scenario being assembled: [mode, id, alpn, ticket, sni]
          todo    \* lengths of the extensions still to be added
vars == <<phase, u, pad, policy, cap, scn, todo>>

\* ---------- which parrots declare the BoringSSL policy ----------
PadStyle(sp) == IF HasExt(sp, "UtlsPaddingExtension") THEN TheExt(sp, "UtlsPaddingExtension").style ELSE "absent"
BoringIDs == {id \in IDs : PadStyle(Specs[id]) = "boring"}

\* ---------- ALPN variants (an edit of the spec's ALPN extension; "spec" = untouched parrot) ----------
H2 == <<104, 50>>
HTTP11 == <<104, 116, 116, 112, 47, 49, 46, 49>>
AlpnVariants == {"spec", "none", "h2", "h2http"}
AlpnProtos(v) == CASE v = "h2" -> <<H2>> [] v = "h2http" -> <<H2, HTTP11>> [] OTHER -> <<>>

EditExt(d, v) == IF d.kind = "ALPNExtension" /\ v \in {"h2", "h2http"} THEN [d EXCEPT !.f.AlpnProtocols = AlpnProtos(v)] ELSE d
Keep(d, v) == ~(d.kind = "ALPNExtension" /\ v = "none")

\* ---------- length of one extension on the wire (header included), from its descriptor ----------
ShareLen(k) == 4 + (IF IsGrease16(k.Group) THEN Len(k.Data) ELSE ShareSize(k.Group))

\* -1: not assembled by this model (GREASE ECH, unknown kinds);  0: not sent / handled elsewhere
ExtWireLen(d, ticket) ==
  LET e == EncodeExt(d, [sni |-> <<>>]) IN
  CASE d.kind = "SNIExtension" -> 0          \* SetSNI
    [] e.hole \in {"none", "greaselist", "greaselist8", "greaseext"} -> 4 + Len(e.body)
    [] e.hole = "ticket" -> 4 + ticket
    [] e.hole = "keyshare" -> 4 + 2 + SumSeq([i \in DOMAIN d.f.KeyShares |-> ShareLen(d.f.KeyShares[i])])
    [] e.hole = "padding" -> 0              \* ApplyPadding
    [] e.hole = "psk" -> 0                  \* no session: the pre_shared_key extension is omitted (OmitEmptyPsk)
    [] OTHER -> -1

ExtLens(id, v, ticket) ==
  LET ds == PrepExts(Specs[id].exts)
      kept == SelectSeq([i \in DOMAIN ds |-> EditExt(ds[i], v)], LAMBDA d : Keep(d, v))
  IN [i \in DOMAIN kept |-> ExtWireLen(kept[i], ticket)]

\* handshake header, legacy_version, random, 32-byte session id (ApplyPreset always sets one), suites, compression, extensions length
HeaderLen(id) == 4 + 2 + 32 + 1 + 32 + 2 + 2 * Len(Specs[id].suites) + 1 + Len(Specs[id].comp) + 2

Modelled(id) == \A i \in DOMAIN Specs[id].exts : ExtWireLen(Specs[id].exts[i], 0) >= 0
HasSNI(id) == HasExt(Specs[id], "SNIExtension")
HasTicket(id) == HasExt(Specs[id], "SessionTicketExtension")
ScnIDs == {id \in BoringIDs : Modelled(id) /\ HasSNI(id)}
Tickets(id) == IF HasTicket(id) THEN {0, TicketLen} ELSE {0}

\* ---------- boundaries of the policy ----------
Targets == {254, 255, 256, 257} \cup 506..513
SNILens == 1..253

Idle == [mode |-> "idle", id |-> "", alpn |-> "", ticket |-> 0, sni |-> 0, re |-> "", arg |-> 0, u1 |-> 0, pad1 |-> 0]
Init == PInit /\ scn = Idle /\ todo = <<>>

\* ---------- (1) abstract hellos ----------
AbsBegin == \E pol \in {PBoring, PNone} :
              /\ Begin(0, pol) /\ scn' = [Idle EXCEPT !.mode = "abstract"] /\ todo' = <<>>
AbsGrow == scn.mode = "abstract" /\ cap = 0 /\ u < MaxU /\ AddExtension(1) /\ UNCHANGED <<scn, todo>>
AbsPad == scn.mode = "abstract" /\ ApplyPadding /\ UNCHANGED <<scn, todo>>
AbsCapture == scn.mode = "abstract" /\ cap = 0 /\ \E p \in {1, 2, 3, 4, 5, 6, 17, 200} : CaptureWith(p) /\ UNCHANGED <<scn, todo>>
AbsRefp == scn.mode = "abstract" /\ Refingerprint /\ UNCHANGED <<scn, todo>>

\* ---------- (2) parrots ----------
ParBegin == \E id \in ScnIDs, v \in AlpnVariants : \E t \in Tickets(id) :
              /\ Begin(HeaderLen(id), PBoring)
              /\ scn' = [Idle EXCEPT !.mode = "parrot", !.id = id, !.alpn = v, !.ticket = t]
              /\ todo' = ExtLens(id, v, t)
ParAdd == scn.mode = "parrot" /\ todo # <<>> /\ AddExtension(Head(todo)) /\ todo' = Tail(todo) /\ UNCHANGED scn
ParSNI == /\ scn.mode = "parrot" /\ todo = <<>> /\ scn.sni = 0
          /\ \E L \in SNILens :
               /\ Thorough \/ u + SNIExtLen(L) \in Targets      \* solve for the boundaries
               /\ SetSNI(L) /\ scn' = [scn EXCEPT !.sni = L]
          /\ UNCHANGED todo
ParPad == scn.mode = "parrot" /\ scn.sni # 0 /\ ApplyPadding /\ UNCHANGED <<scn, todo>>

\* ---------- (3) the same UConn marshals again: SetSNI to another length / the ClientHello after a HelloRetryRequest ----------
\* from which first hellos: the policy's corner lengths (and, Thorough, every 8th server-name length)
ReFrom == scn.mode = "parrot" /\ Padded /\ scn.re = "" /\ scn.alpn = "spec" /\ scn.ticket = 0
          /\ (u \in {256, 507, 511, 512} \/ (Thorough /\ (u \in Targets \/ scn.sni % 8 = 0)))
ReLens(L) == {L - 40, L - 5, L + 5} \cap SNILens
ParReSNI == /\ ReFrom
            /\ \E L2 \in ReLens(scn.sni) :
                 /\ Reassemble(L2 - scn.sni)
                 /\ scn' = [scn EXCEPT !.re = "sni", !.arg = L2, !.u1 = u, !.pad1 = pad]
            /\ UNCHANGED todo
\* groups a HelloRetryRequest of the in-tree server can name: listed in supported_groups, no share offered
ServerGroups == {23, 24, 25, 29}
Is13(id) == 772 \in SVList(Specs[id]) /\ HasExt(Specs[id], "KeyShareExtension")
HRRGroups(id) == IF Is13(id) THEN (Groups(Specs[id]) \ ShareGroups(Specs[id])) \cap ServerGroups ELSE {}
KeyShareLen(id) == ExtWireLen(TheExt(Specs[id], "KeyShareExtension"), 0)
HRRDelta(id, g) == (4 + 2 + 4 + ShareSize(g)) - KeyShareLen(id)       \* key_share shrinks/grows to the one requested share
ParHRR == /\ ReFrom
          /\ \E g \in HRRGroups(scn.id) :
               /\ Reassemble(HRRDelta(scn.id, g))
               /\ scn' = [scn EXCEPT !.re = "hrr", !.arg = g, !.u1 = u, !.pad1 = pad]
          /\ UNCHANGED todo

Next == AbsBegin \/ AbsGrow \/ AbsPad \/ AbsCapture \/ AbsRefp \/ ParBegin \/ ParAdd \/ ParSNI \/ ParPad \/ ParReSNI \/ ParHRR

\* ---------- invariants ----------
\* the independent statement in TLSWire agrees with this module
AgreesWithTLSWire == Padded /\ policy.kind = "boring" /\ cap = 0 /\ scn.mode = "abstract" => pad = BoringPadBody(u)
Inv == PolicyInvariants /\ AgreesWithTLSWire

\* ---------- scenario emission ----------
Emit == (Padded /\ scn.mode = "parrot" /\ scn.re = "") =>
          PrintT(<<"SCN", ToJson([id |-> scn.id, alpn |-> scn.alpn, ticket |-> scn.ticket, sni |-> scn.sni, u |-> u, pad |-> pad])>>)
EmitRe == (Padded /\ scn.mode = "parrot" /\ scn.re # "") =>
          PrintT(<<"RESCN", ToJson([id |-> scn.id, sni |-> scn.sni, re |-> scn.re, arg |-> scn.arg, u1 |-> scn.u1, pad1 |-> scn.pad1, u |-> u, pad |-> pad])>>)
\* which abstract lengths were padded (vacuity evidence for (1))
EmitAbs == (Padded /\ scn.mode = "abstract" /\ policy.kind = "boring" /\ cap = 0 /\ u \in {0, 255, 256, 507, 508, 511, 512, MaxU}) =>
          PrintT(<<"ABS", <<u, pad>>>>)
Unmodelled == BoringIDs \ ScnIDs
EmitMeta == (phase = "idle") => PrintT(<<"META", ToJson([boring |-> BoringIDs, unmodelled |-> Unmodelled])>>)
Constr == Emit /\ EmitRe /\ EmitAbs /\ EmitMeta
=============================================================================
