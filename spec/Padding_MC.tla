---------------------------- MODULE Padding_MC ----------------------------
(***************************************************************************)
(* Bounded exhaustive configuration of Padding.tla.                        *)
(*  (1) abstract hellos: u grows byte by byte over 0..MaxU (701 lengths);  *)
(*      at every length the hello is padded under the BoringSSL policy, or *)
(*      captured with an arbitrary non-empty padding body, fingerprinted   *)
(*      and rebuilt; all policy invariants are checked on every state.     *)
(*  (2) every padding-bearing parrot of specs.json (descriptor style =     *)
(*      "boring") is assembled extension by extension from its dumped      *)
(*      spec (lengths from the TLSWire reference encoders), for each ALPN  *)
(*      variant and with/without a session ticket; SetSNI then *solves*    *)
(*      for the server-name lengths that put u on the boundaries of the    *)
(*      policy (Thorough = FALSE) or takes every length 1..253 (TRUE).     *)
(*      Every terminal state is emitted as a scenario for the harness.     *)
(***************************************************************************)
EXTENDS Parrots, Padding

CONSTANTS Thorough, MaxU, TicketLen

VARIABLES scn,    \* the scenario being assembled: [mode, id, alpn, ticket, sni]
          todo    \* lengths of the extensions still to be added
vars == <<phase, u, pad, policy, cap, scn, todo>>

\* ---------- which parrots declare the BoringSSL policy ----------
PadStyle(sp) == IF HasExt(sp, "UtlsPaddingExtension") THEN TheExt(sp, "UtlsPaddingExtension").style ELSE "absent"
BoringIDs == {id \in IDs : PadStyle(Specs[id]) = "boring"}

\* ---------- ALPN variants (an edit of the spec's ALPN extension; "spec" = untouched parrot) ----------
H2 == <<104, 50>>
HTTP11 == <<104, 116, 116, 112, 47, 49, 46, 49>>
AlpnVariants == {"spec", "none", "h2", "h2http"}
AlpnProtos(v) == CASE v = "h2" -> <<H2>> [] v = "h2http" -> <<H2, HTTP11>> [] OTHER -> <<>>

EditExt(d, v) == IF d.kind = "ALPNExtension" /\ v \in {"h2", "h2http"} THEN [d EXCEPT !.f.AlpnProtocols = AlpnProtos(v)] ELSE d
Keep(d, v) == ~(d.kind = "ALPNExtension" /\ v = "none")

\* ---------- length of one extension on the wire (header included), from its descriptor ----------
ShareLen(k) == 4 + (IF IsGrease16(k.Group) THEN Len(k.Data) ELSE ShareSize(k.Group))

\* -1: not assembled by this model (GREASE ECH, unknown kinds);  0: not sent / handled elsewhere
ExtWireLen(d, ticket) ==
  LET e == EncodeExt(d, [sni |-> <<>>]) IN
  CASE d.kind = "SNIExtension" -> 0          \* SetSNI
    [] e.hole \in {"none", "greaselist", "greaselist8", "greaseext"} -> 4 + Len(e.body)
    [] e.hole = "ticket" -> 4 + ticket
    [] e.hole = "keyshare" -> 4 + 2 + SumSeq([i \in DOMAIN d.f.KeyShares |-> ShareLen(d.f.KeyShares[i])])
    [] e.hole = "padding" -> 0              \* ApplyPadding
    [] e.hole = "psk" -> 0                  \* no session: the pre_shared_key extension is omitted (OmitEmptyPsk)
    [] OTHER -> -1

ExtLens(id, v, ticket) ==
  LET ds == PrepExts(Specs[id].exts)
      kept == SelectSeq([i \in DOMAIN ds |-> EditExt(ds[i], v)], LAMBDA d : Keep(d, v))
  IN [i \in DOMAIN kept |-> ExtWireLen(kept[i], ticket)]

\* handshake header, legacy_version, random, 32-byte session id (ApplyPreset always sets one), suites, compression, extensions length
HeaderLen(id) == 4 + 2 + 32 + 1 + 32 + 2 + 2 * Len(Specs[id].suites) + 1 + Len(Specs[id].comp) + 2

Modelled(id) == \A i \in DOMAIN Specs[id].exts : ExtWireLen(Specs[id].exts[i], 0) >= 0
HasSNI(id) == HasExt(Specs[id], "SNIExtension")
HasTicket(id) == HasExt(Specs[id], "SessionTicketExtension")
ScnIDs == {id \in BoringIDs : Modelled(id) /\ HasSNI(id)}
Tickets(id) == IF HasTicket(id) THEN {0, TicketLen} ELSE {0}

\* ---------- boundaries of the policy ----------
Targets == {254, 255, 256, 257} \cup 506..513
SNILens == 1..253

Idle == [mode |-> "idle", id |-> "", alpn |-> "", ticket |-> 0, sni |-> 0]
Init == PInit /\ scn = Idle /\ todo = <<>>

\* ---------- (1) abstract hellos ----------
AbsBegin == \E pol \in {PBoring, PNone} :
              /\ Begin(0, pol) /\ scn' = [Idle EXCEPT !.mode = "abstract"] /\ todo' = <<>>
AbsGrow == scn.mode = "abstract" /\ cap = 0 /\ u < MaxU /\ AddExtension(1) /\ UNCHANGED <<scn, todo>>
AbsPad == scn.mode = "abstract" /\ ApplyPadding /\ UNCHANGED <<scn, todo>>
AbsCapture == scn.mode = "abstract" /\ cap = 0 /\ \E p \in {1, 2, 3, 4, 5, 6, 17, 200} : CaptureWith(p) /\ UNCHANGED <<scn, todo>>
AbsRefp == scn.mode = "abstract" /\ Refingerprint /\ UNCHANGED <<scn, todo>>

\* ---------- (2) parrots ----------
ParBegin == \E id \in ScnIDs, v \in AlpnVariants : \E t \in Tickets(id) :
              /\ Begin(HeaderLen(id), PBoring)
              /\ scn' = [mode |-> "parrot", id |-> id, alpn |-> v, ticket |-> t, sni |-> 0]
              /\ todo' = ExtLens(id, v, t)
ParAdd == scn.mode = "parrot" /\ todo # <<>> /\ AddExtension(Head(todo)) /\ todo' = Tail(todo) /\ UNCHANGED scn
ParSNI == /\ scn.mode = "parrot" /\ todo = <<>> /\ scn.sni = 0
          /\ \E L \in SNILens :
               /\ Thorough \/ u + SNIExtLen(L) \in Targets      \* solve for the boundaries
               /\ SetSNI(L) /\ scn' = [scn EXCEPT !.sni = L]
          /\ UNCHANGED todo
ParPad == scn.mode = "parrot" /\ scn.sni # 0 /\ ApplyPadding /\ UNCHANGED <<scn, todo>>

Next == AbsBegin \/ AbsGrow \/ AbsPad \/ AbsCapture \/ AbsRefp \/ ParBegin \/ ParAdd \/ ParSNI \/ ParPad

\* ---------- invariants ----------
\* the independent statement in TLSWire agrees with this module
AgreesWithTLSWire == Padded /\ policy.kind = "boring" /\ cap = 0 /\ scn.mode = "abstract" => pad = BoringPadBody(u)
Inv == PolicyInvariants /\ AgreesWithTLSWire

\* ---------- scenario emission ----------
Emit == (Padded /\ scn.mode = "parrot") =>
          PrintT(<<"SCN", ToJson([id |-> scn.id, alpn |-> scn.alpn, ticket |-> scn.ticket, sni |-> scn.sni, u |-> u, pad |-> pad])>>)
\* which abstract lengths were padded (vacuity evidence for (1))
EmitAbs == (Padded /\ scn.mode = "abstract" /\ policy.kind = "boring" /\ cap = 0 /\ u \in {0, 255, 256, 507, 508, 511, 512, MaxU}) =>
          PrintT(<<"ABS", <<u, pad>>>>)
Unmodelled == BoringIDs \ ScnIDs
EmitMeta == (phase = "idle") => PrintT(<<"META", ToJson([boring |-> BoringIDs, unmodelled |-> Unmodelled])>>)
Constr == Emit /\ EmitAbs /\ EmitMeta
=============================================================================
