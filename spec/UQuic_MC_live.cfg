\* liveness, free pump, repaired mechanism: every Start / HandleData / Close returns; a pumped handshake completes
CONSTANTS
  FixEarlyReturn = TRUE
  Builds = {"ok", "noname", "unset", "minver12"}
  HRRs = {FALSE, TRUE}
  MaxCut = 0
SPECIFICATION Spec
PROPERTIES AlwaysReturns Completes
CHECK_DEADLOCK FALSE
