------------------------------- MODULE UQuic -------------------------------
(* C23.  UQUICConn (u_quic.go) / QUICConn (quic.go) driven by ONE caller ("the pump", the QUIC stack) against
   the handshake goroutines of a client (UConn.handshakeContext, u_conn.go:317-423) and of the package's
   QUICServer (Conn.handshakeContext, conn.go:1520-1620), talking over blockedc / signalc / cancelc.

   Mechanism-level: one action per implementation step; the anchor of every action is in its comment.
   The handshake function itself (what is read / written / emitted, in which order) is the instruction table
   ClientProg / ServerProg, interpreted by the Hs* actions.

   FixEarlyReturn names the one place where the mechanism as coded deviates from the property:
     FALSE  as coded: when BuildHandshakeState fails, handshakeContext returns at u_conn.go:376-379 WITHOUT
            closing blockedc/signalc, and the caller of Start stays parked on blockedc forever;
     TRUE   repaired: the error is recorded and both channels are closed before returning.
   The property-carrying configuration is FixEarlyReturn = TRUE; the trace specification only accepts that one. *)
EXTENDS Integers, Sequences, FiniteSets, TLC

CONSTANTS FixEarlyReturn,   \* see above
          Builds,           \* client inputs explored: subset of {"ok", "noname", "unset", "minver12"}
          HRRs,             \* subset of BOOLEAN: does the server force a HelloRetryRequest
          MaxCut            \* how many HandleData calls may hand over only part of a queued CRYPTO chunk (bounded configurations)

Sides   == {"c", "s"}
Peer(e) == IF e = "c" THEN "s" ELSE "c"

(* Which inputs cannot be built (BuildHandshakeState returns an error, u_conn.go:109-163):
   "noname" = UQUICClient(&QUICConfig{TLSConfig:&Config{MinVersion:TLS13}}, HelloChrome_Auto)  (no ServerName)
   "unset"  = HelloCustom without ApplyPreset.   "minver12" is refused by Start itself (u_quic.go:52-54). *)
BuildFails(b)  == b \in {"noname", "unset"}
MinVerFails(b) == b = "minver12"

---------------------------------------------------------------------------------------------------------
(* The handshake functions as instruction tables. *)
Ins(op, lv, m) == [op |-> op, lv |-> lv, m |-> m]

\* clientHandshake / clientHandshakeStateTLS13.handshake (u_handshake_client.go:383, handshake_client_tls13.go:52-150)
ClientProg(cf) ==
     << Ins("write", "Initial", "CH") >>                                        \* writeHandshakeRecord(hello) -> quicWriteCryptoData
  \o (IF cf.hrr THEN << Ins("read", "-", "HRR"),                                \* readHandshake; processHelloRetryRequest (no CCS: :239)
                        Ins("write", "Initial", "CH") >> ELSE << >>)            \* second ClientHello
  \o << Ins("read", "-", "SH"),
        Ins("wsecret", "Handshake", "-"), Ins("rsecret", "Handshake", "-"),     \* establishHandshakeKeys :661-667
        Ins("read", "-", "EE"), Ins("tp", "-", "-"),                            \* readServerParameters :719-725
        Ins("read", "-", "CERT"), Ins("check", "-", "cert"),                    \* readServerCertificate :782-835 (verify before CertificateVerify)
        Ins("read", "-", "CV"), Ins("read", "-", "FIN"),                        \* :841, readServerFinished
        Ins("write", "Handshake", "FIN"), Ins("wsecret", "Application", "-"),   \* sendClientFinished :1005-1024
        Ins("done", "-", "-") >>                                                \* isHandshakeComplete.Store(true); return nil

\* serverHandshakeStateTLS13.handshake (handshake_server_tls13.go:66-110)
ServerProg(cf) ==
     << Ins("read", "-", "CH") >>                                               \* readClientHello
  \o (IF cf.hrr THEN << Ins("write", "Initial", "HRR"), Ins("read", "-", "CH") >> ELSE << >>)  \* doHelloRetryRequest :553-
  \o << Ins("check", "-", "alpn"), Ins("tp", "-", "-"),                         \* negotiateALPN :303, quicSetTransportParameters :324
        Ins("write", "Initial", "SH"),                                          \* sendServerParameters
        Ins("wsecret", "Handshake", "-"), Ins("rsecret", "Handshake", "-"),     \* :778-784
        Ins("write", "Handshake", "EE"), Ins("write", "Handshake", "CERT"),
        Ins("write", "Handshake", "CV"), Ins("write", "Handshake", "FIN"),
        Ins("wsecret", "Application", "-"),                                     \* sendServerFinished :916-922
        Ins("read", "-", "FIN"), Ins("done", "-", "-") >>                       \* readClientFinished

Prog(e, cf) == IF e = "c" THEN ClientProg(cf) ELSE ServerProg(cf)
CheckFails(cf, what) == (what = "cert" /\ cf.cliRefuse) \/ (what = "alpn" /\ cf.srvRefuse)

(* A CRYPTO stream is a sequence of segments [m, n, last]: n bytes of handshake message m, `last` iff they include its
   final byte.  HandleData may be given ANY number of bytes (a cut may fall inside a message, a flight may arrive one
   byte at a time); what the connection keeps is a COPY of them (c.hand.Write, quic.go:494): the caller owns its buffer
   again as soon as HandleData has returned, so "the caller overwrites / reuses its receive buffer" is not an action of
   this specification at all - it must be a stuttering step of the connection.
   In the bounded configurations every message is 2 bytes long (one cut position inside each message). *)
RECURSIVE Bytes(_), Take(_, _), Drop(_, _), Merge(_, _)
Segs(msgs, lens) == [i \in 1..Len(msgs) |-> [m |-> msgs[i], n |-> lens[i], last |-> TRUE]]
Bytes(s)   == IF s = << >> THEN 0 ELSE s[1].n + Bytes(Tail(s))
Take(s, k) == IF k = 0 \/ s = << >> THEN << >>
              ELSE IF s[1].n <= k THEN << s[1] >> \o Take(Tail(s), k - s[1].n)
              ELSE << [s[1] EXCEPT !.n = k, !.last = FALSE] >>
Drop(s, k) == IF k = 0 \/ s = << >> THEN s
              ELSE IF s[1].n <= k THEN Drop(Tail(s), k - s[1].n)
              ELSE << [s[1] EXCEPT !.n = @ - k] >> \o Tail(s)
\* c.hand.Write(readbuf): bytes of the same, still incomplete message coalesce
Merge(h, s) == IF s = << >> THEN h
               ELSE IF h # << >> /\ ~h[Len(h)].last /\ h[Len(h)].m = s[1].m
                    THEN Merge([h EXCEPT ![Len(h)] = [m |-> s[1].m, n |-> @.n + s[1].n, last |-> s[1].last]], Tail(s))
                    ELSE Merge(Append(h, s[1]), Tail(s))
\* the whole next message is in c.hand (Merge keeps at most one segment per incomplete message)
HasMsg(h, m)   == h # << >> /\ h[1].m = m /\ h[1].last
WrongMsg(h, m) == h # << >> /\ h[1].m # m

Ev(kind, lv, msgs) == [kind |-> kind, lv |-> lv, msgs |-> msgs]
\* quicWriteCryptoData (quic.go:398-412): data is appended to the last queued event if that is a WriteData of the same level
AppendEv(q, ev) ==
  IF ev.kind = "WriteData" /\ q # << >> /\ q[Len(q)].kind = "WriteData" /\ q[Len(q)].lv = ev.lv
  THEN [q EXCEPT ![Len(q)].msgs = @ \o ev.msgs]
  ELSE Append(q, ev)

---------------------------------------------------------------------------------------------------------
VARIABLES
  cfg,            \* [build, hrr, srvRefuse, cliRefuse]: fixed per behaviour
  \* handshake goroutine of each side
  hpc,            \* "none" | "entry" | "build" | "run" | "waitBlocked" | "waitSignal" | "tail" | "closeB" | "closeS" | "exited"
  ip,             \* index into Prog
  hand,           \* c.hand: segments received and not yet consumed
  readbuf,        \* quic.readbuf: segments handed over by HandleData, not yet copied by the goroutine
  evq,            \* quic.events not yet returned by NextEvent
  emitted,        \* history: every event ever queued (uncoalesced), for the ordering invariants
  blockedClosed, signalClosed, cancelSet, hsErr, complete,
  \* the caller (methods of QUICConn are not safe for concurrent use: one call at a time)
  cpc,            \* "idle" | "startWait" | "hdSignal" | "hdBlocked" | "closeWait"
  cside,          \* side of the call in progress
  carg,           \* [u, rem, lv] of the HandleData in progress
  failed,         \* a call on this side returned an error (the planned pump of UQuic_Scn stops feeding it)
  last,           \* what the last pump operation returned (the observable)
  \* the pump
  wire,           \* wire[e]: chunks [lv, segs] queued towards e
  started, closeCalled, cancelFired, ctxCancelled, cuts

gvars == <<hpc, ip, hand, readbuf, evq, emitted, blockedClosed, signalClosed, cancelSet, hsErr, complete>>
cvars == <<cpc, cside, carg, failed, last>>
pvars == <<wire, started, closeCalled, cancelFired, ctxCancelled, cuts>>
vars  == <<cfg, gvars, cvars, pvars>>

\* the server-side knobs only matter for an input that gets as far as sending a ClientHello
Configs == {cf \in [build : Builds, hrr : HRRs, srvRefuse : BOOLEAN, cliRefuse : BOOLEAN] :
               cf.build # "ok" => (~cf.hrr /\ ~cf.srvRefuse /\ ~cf.cliRefuse)}

NoRes == [op |-> "-", side |-> "-", ret |-> "-", kind |-> "-", lv |-> "-", msgs |-> << >>, u |-> 0, rem |-> 0]
Res(op, e, ret) == [NoRes EXCEPT !.op = op, !.side = e, !.ret = ret]

InitWith(cf) ==
  /\ cfg = cf
  /\ hpc = [e \in Sides |-> "none"] /\ ip = [e \in Sides |-> 1]
  /\ hand = [e \in Sides |-> << >>] /\ readbuf = [e \in Sides |-> << >>]
  /\ evq = [e \in Sides |-> << >>] /\ emitted = [e \in Sides |-> << >>]
  /\ blockedClosed = [e \in Sides |-> FALSE] /\ signalClosed = [e \in Sides |-> FALSE]
  /\ cancelSet = [e \in Sides |-> FALSE] /\ hsErr = [e \in Sides |-> FALSE] /\ complete = [e \in Sides |-> FALSE]
  /\ cpc = "idle" /\ cside = "c" /\ carg = [u |-> 0, rem |-> 0, lv |-> "-"]
  /\ failed = [e \in Sides |-> FALSE] /\ last = NoRes
  /\ wire = [e \in Sides |-> << >>] /\ started = [e \in Sides |-> FALSE]
  /\ closeCalled = [e \in Sides |-> FALSE] /\ cancelFired = [e \in Sides |-> FALSE]
  /\ ctxCancelled = FALSE /\ cuts = 0

Init == \E cf \in Configs : InitWith(cf)

\* cancelc = handshakeCtx.Done(): closed by quic.cancel() (Close) or by the caller's context (only the client gets one)
Cancelled(e) == cancelFired[e] \/ (e = "c" /\ ctxCancelled)
Cur(e) == Prog(e, cfg)[ip[e]]

---------------------------------------------------------------------------------------------------------
(* Return of a call to the pump. *)
Return(op, e, ret, res) ==
  /\ cpc' = "idle" /\ last' = [res EXCEPT !.op = op, !.side = e, !.ret = ret]
  /\ failed' = IF ret = "err" THEN [failed EXCEPT ![e] = TRUE] ELSE failed
  /\ UNCHANGED <<cside, carg>>
OpOf(pc) == CASE pc = "startWait" -> "Start" [] pc = "closeWait" -> "Close" [] OTHER -> "Deliver"
DeliverRes == [NoRes EXCEPT !.u = carg.u, !.rem = carg.rem, !.lv = carg.lv]
ResOf(pc) == IF OpOf(pc) = "Deliver" THEN DeliverRes ELSE NoRes

---------------------------------------------------------------------------------------------------------
(* The handshake goroutine. *)

\* handshakeContext entry: quic.cancelc / quic.cancel are set (u_conn.go:336-339, conn.go:1535-1539), mutexes taken
Entry(e) ==
  /\ hpc[e] = "entry"
  /\ cancelSet' = [cancelSet EXCEPT ![e] = TRUE]
  /\ hpc' = [hpc EXCEPT ![e] = IF e = "c" THEN "build" ELSE "run"]
  /\ UNCHANGED <<cfg, ip, hand, readbuf, evq, emitted, blockedClosed, signalClosed, hsErr, complete, cvars, pvars>>

\* [uTLS section] err := c.BuildHandshakeState(); if err != nil { return err }   (u_conn.go:374-381)
Build ==
  /\ hpc["c"] = "build"
  /\ IF ~BuildFails(cfg.build)
     THEN hpc' = [hpc EXCEPT !["c"] = "run"] /\ UNCHANGED hsErr
     ELSE IF FixEarlyReturn
          THEN hpc' = [hpc EXCEPT !["c"] = "closeB"] /\ hsErr' = [hsErr EXCEPT !["c"] = TRUE]   \* repaired: record error, close channels
          ELSE hpc' = [hpc EXCEPT !["c"] = "exited"] /\ UNCHANGED hsErr                         \* as coded: plain return
  /\ UNCHANGED <<cfg, ip, hand, readbuf, evq, emitted, blockedClosed, signalClosed, cancelSet, complete, cvars, pvars>>

Queue(e, ev) == /\ evq' = [evq EXCEPT ![e] = AppendEv(@, ev)]
               /\ emitted' = [emitted EXCEPT ![e] = Append(@, ev)]
Step(e) == ip' = [ip EXCEPT ![e] = @ + 1]
Running(e, op) == hpc[e] = "run" /\ Cur(e).op = op

\* writeHandshakeRecord -> writeRecordLocked -> quicWriteCryptoData (conn.go:976-981)
HsWrite(e) ==
  /\ Running(e, "write") /\ Queue(e, Ev("WriteData", Cur(e).lv, << Cur(e).m >>)) /\ Step(e)
  /\ UNCHANGED <<cfg, hpc, hand, readbuf, blockedClosed, signalClosed, cancelSet, hsErr, complete, cvars, pvars>>
\* quicSetWriteSecret / quicSetReadSecret
HsSecret(e) ==
  /\ hpc[e] = "run" /\ Cur(e).op \in {"wsecret", "rsecret"}
  /\ Queue(e, Ev(IF Cur(e).op = "wsecret" THEN "SetWriteSecret" ELSE "SetReadSecret", Cur(e).lv, << >>)) /\ Step(e)
  /\ UNCHANGED <<cfg, hpc, hand, readbuf, blockedClosed, signalClosed, cancelSet, hsErr, complete, cvars, pvars>>
\* quicSetTransportParameters: the peer's transport parameters are handed to the QUIC stack
HsTP(e) ==
  /\ Running(e, "tp") /\ Queue(e, Ev("TransportParameters", "-", << >>)) /\ Step(e)
  /\ UNCHANGED <<cfg, hpc, hand, readbuf, blockedClosed, signalClosed, cancelSet, hsErr, complete, cvars, pvars>>
\* a check that fails makes handshakeFn return an error (alert kept in c.out.err, nothing is written in QUIC mode: conn.go:838)
HsCheck(e) ==
  /\ Running(e, "check")
  /\ IF CheckFails(cfg, Cur(e).m)
     THEN hsErr' = [hsErr EXCEPT ![e] = TRUE] /\ hpc' = [hpc EXCEPT ![e] = "closeB"] /\ UNCHANGED ip
     ELSE Step(e) /\ UNCHANGED <<hsErr, hpc>>
  /\ UNCHANGED <<cfg, hand, readbuf, evq, emitted, blockedClosed, signalClosed, cancelSet, complete, cvars, pvars>>
\* readHandshake with the whole message in c.hand
HsReadHave(e) ==
  /\ Running(e, "read") /\ HasMsg(hand[e], Cur(e).m)
  /\ hand' = [hand EXCEPT ![e] = Tail(@)] /\ Step(e)
  /\ UNCHANGED <<cfg, hpc, readbuf, evq, emitted, blockedClosed, signalClosed, cancelSet, hsErr, complete, cvars, pvars>>
\* readHandshake -> quicReadHandshakeBytes -> quicWaitForSignal (quic.go:476-483): not enough bytes yet
HsReadWait(e) ==
  /\ Running(e, "read") /\ ~HasMsg(hand[e], Cur(e).m) /\ ~WrongMsg(hand[e], Cur(e).m)
  /\ hpc' = [hpc EXCEPT ![e] = "waitBlocked"]
  /\ UNCHANGED <<cfg, ip, hand, readbuf, evq, emitted, blockedClosed, signalClosed, cancelSet, hsErr, complete, cvars, pvars>>
\* unexpectedMessageError
HsReadBad(e) ==
  /\ Running(e, "read") /\ WrongMsg(hand[e], Cur(e).m)
  /\ hsErr' = [hsErr EXCEPT ![e] = TRUE] /\ hpc' = [hpc EXCEPT ![e] = "closeB"]
  /\ UNCHANGED <<cfg, ip, hand, readbuf, evq, emitted, blockedClosed, signalClosed, cancelSet, complete, cvars, pvars>>
\* isHandshakeComplete.Store(true); handshakeFn returns nil
HsDone(e) ==
  /\ Running(e, "done") /\ complete' = [complete EXCEPT ![e] = TRUE] /\ hpc' = [hpc EXCEPT ![e] = "tail"]
  /\ UNCHANGED <<cfg, ip, hand, readbuf, evq, emitted, blockedClosed, signalClosed, cancelSet, hsErr, cvars, pvars>>
\* handshakeContext after a successful handshakeFn: quicHandshakeComplete(); quicSetReadSecret(Application) (u_conn.go:399-406)
HsTail(e) ==
  /\ hpc[e] = "tail"
  /\ evq' = [evq EXCEPT ![e] = @ \o << Ev("HandshakeDone", "-", << >>), Ev("SetReadSecret", "Application", << >>) >>]
  /\ emitted' = [emitted EXCEPT ![e] = @ \o << Ev("HandshakeDone", "-", << >>), Ev("SetReadSecret", "Application", << >>) >>]
  /\ hpc' = [hpc EXCEPT ![e] = "closeB"]
  /\ UNCHANGED <<cfg, ip, hand, readbuf, blockedClosed, signalClosed, cancelSet, hsErr, complete, cvars, pvars>>
\* close(c.quic.blockedc); close(c.quic.signalc)   (u_conn.go:419-420, conn.go:1615-1616)
CloseB(e) ==
  /\ hpc[e] = "closeB" /\ blockedClosed' = [blockedClosed EXCEPT ![e] = TRUE] /\ hpc' = [hpc EXCEPT ![e] = "closeS"]
  /\ UNCHANGED <<cfg, ip, hand, readbuf, evq, emitted, signalClosed, cancelSet, hsErr, complete, cvars, pvars>>
CloseS(e) ==
  /\ hpc[e] = "closeS" /\ signalClosed' = [signalClosed EXCEPT ![e] = TRUE] /\ hpc' = [hpc EXCEPT ![e] = "exited"]
  /\ UNCHANGED <<cfg, ip, hand, readbuf, evq, emitted, blockedClosed, cancelSet, hsErr, complete, cvars, pvars>>

(* quicWaitForSignal (quic.go:476-500): select { blockedc <- | <-cancelc } then select { signalc <- | <-cancelc } *)
\* rendezvous on blockedc with an exported method that is receiving from it
WaitSendBlocked(e) ==
  /\ hpc[e] = "waitBlocked" /\ cside = e /\ cpc \in {"startWait", "hdBlocked", "closeWait"}
  /\ hpc' = [hpc EXCEPT ![e] = "waitSignal"]
  /\ IF cpc = "closeWait"
     THEN UNCHANGED cvars                                        \* Close: `for range blockedc` keeps receiving (quic.go:246-249)
     ELSE Return(OpOf(cpc), e, "ok", ResOf(cpc))                 \* Start / HandleData: `_, ok := <-blockedc; ok` -> return nil
  /\ UNCHANGED <<cfg, ip, hand, readbuf, evq, emitted, blockedClosed, signalClosed, cancelSet, hsErr, complete, pvars>>
\* rendezvous on signalc with HandleData; the goroutine takes readbuf (quic.go:494-496)
WaitSendSignal(e) ==
  /\ hpc[e] = "waitSignal" /\ cside = e /\ cpc = "hdSignal"
  /\ hand' = [hand EXCEPT ![e] = Merge(@, readbuf[e])] /\ readbuf' = [readbuf EXCEPT ![e] = << >>]     \* a copy
  /\ hpc' = [hpc EXCEPT ![e] = "run"] /\ cpc' = "hdBlocked"
  /\ UNCHANGED <<cfg, ip, evq, emitted, blockedClosed, signalClosed, cancelSet, hsErr, complete, cside, carg, failed, last, pvars>>
\* `case <-c.quic.cancelc: return c.sendAlertLocked(alertCloseNotify)` in either select
WaitCancelled(e) ==
  /\ hpc[e] \in {"waitBlocked", "waitSignal"} /\ Cancelled(e)
  /\ hsErr' = [hsErr EXCEPT ![e] = TRUE] /\ hpc' = [hpc EXCEPT ![e] = "closeB"]
  /\ UNCHANGED <<cfg, ip, hand, readbuf, evq, emitted, blockedClosed, signalClosed, cancelSet, complete, cvars, pvars>>

Goroutine(e) == \/ Entry(e) \/ HsWrite(e) \/ HsSecret(e) \/ HsTP(e) \/ HsCheck(e) \/ HsReadHave(e) \/ HsReadWait(e)
                \/ HsReadBad(e) \/ HsDone(e) \/ HsTail(e) \/ CloseB(e) \/ CloseS(e)
                \/ WaitSendBlocked(e) \/ WaitSendSignal(e) \/ WaitCancelled(e)

---------------------------------------------------------------------------------------------------------
(* Exported methods: the part that runs after the call was made. *)

\* receive on the closed blockedc: Start `!ok -> return handshakeErr` (u_quic.go:56-58), Close (u_quic.go:94-97)
RecvBlockedClosed ==
  /\ cpc \in {"startWait", "closeWait"} /\ blockedClosed[cside]
  /\ Return(OpOf(cpc), cside, IF hsErr[cside] THEN "err" ELSE "ok", NoRes)
  /\ UNCHANGED <<cfg, gvars, pvars>>
\* HandleData: `<-signalc` on the closed channel (u_quic.go:107)
RecvSignalClosed ==
  /\ cpc = "hdSignal" /\ signalClosed[cside] /\ cpc' = "hdBlocked"
  /\ UNCHANGED <<cfg, gvars, cside, carg, failed, last, pvars>>
\* HandleData: blockedc closed -> "the handshake goroutine has exited": post-handshake path, returns handshakeErr (u_quic.go:113-135)
HdPost ==
  /\ cpc = "hdBlocked" /\ blockedClosed[cside]
  /\ readbuf' = [readbuf EXCEPT ![cside] = << >>]
  /\ Return("Deliver", cside, IF hsErr[cside] THEN "err" ELSE "ok", DeliverRes)
  /\ UNCHANGED <<cfg, hpc, ip, hand, evq, emitted, blockedClosed, signalClosed, cancelSet, hsErr, complete, pvars>>

CallerInternal == RecvBlockedClosed \/ RecvSignalClosed \/ HdPost
Internal == CallerInternal \/ \E e \in Sides : Goroutine(e) \/ Build

---------------------------------------------------------------------------------------------------------
(* The pump: the calls a QUIC stack makes. It may go on feeding a side whose handshake has failed (HandleData must
   return then, too), but not a side whose Start was refused outright (no goroutine: misuse) or that it has closed;
   it starts a side at most once. *)

\* Start (u_quic.go:46-60 / quic.go:205-219)
CallStart(e) ==
  /\ cpc = "idle" /\ ~started[e] /\ ~closeCalled[e]
  /\ started' = [started EXCEPT ![e] = TRUE]
  /\ IF e = "c" /\ MinVerFails(cfg.build)
     THEN Return("Start", e, "err", NoRes) /\ UNCHANGED hpc                \* MinVersion < TLS 1.3: no goroutine
     ELSE /\ hpc' = [hpc EXCEPT ![e] = "entry"]                            \* go q.conn.HandshakeContext(ctx)
          /\ cpc' = "startWait" /\ cside' = e /\ UNCHANGED <<carg, failed, last>>   \* <-blockedc
  /\ UNCHANGED <<cfg, ip, hand, readbuf, evq, emitted, blockedClosed, signalClosed, cancelSet, hsErr, complete,
                 wire, closeCalled, cancelFired, ctxCancelled, cuts>>

\* NextEvent (u_quic.go:68-86); a WriteData goes onto the wire towards the peer; lens = byte length of each message in it
CallNextL(e, lens) ==
  /\ cpc = "idle" /\ started[e]
  /\ IF evq[e] = << >>
     THEN /\ last' = [Res("Next", e, "ok") EXCEPT !.kind = "NoEvent"]
          /\ UNCHANGED <<evq, wire>>
     ELSE LET ev == Head(evq[e]) IN
          /\ ev.kind = "WriteData" => (Len(lens) = Len(ev.msgs) /\ \A i \in 1..Len(lens) : lens[i] >= 1)
          /\ last' = [Res("Next", e, "ok") EXCEPT !.kind = ev.kind, !.lv = ev.lv, !.msgs = ev.msgs]
          /\ evq' = [evq EXCEPT ![e] = Tail(@)]
          /\ wire' = IF ev.kind = "WriteData"
                     THEN [wire EXCEPT ![Peer(e)] = Append(@, [lv |-> ev.lv, segs |-> Segs(ev.msgs, lens)])]
                     ELSE wire
  /\ UNCHANGED <<cfg, hpc, ip, hand, readbuf, emitted, blockedClosed, signalClosed, cancelSet, hsErr, complete,
                 cpc, cside, carg, failed, started, closeCalled, cancelFired, ctxCancelled, cuts>>
\* bounded configurations: every message is 2 bytes long
CallNext(e) == CallNextL(e, IF evq[e] = << >> THEN << >> ELSE [i \in 1..Len(Head(evq[e]).msgs) |-> 2])

\* HandleData (u_quic.go:100-135) with the first k bytes of the oldest chunk (k = 0: the whole chunk)
CallDeliver(e, k) ==
  /\ cpc = "idle" /\ started[e] /\ hpc[e] # "none" /\ ~closeCalled[e] /\ wire[e] # << >>
  /\ LET ch  == Head(wire[e])
         tot == Bytes(ch.segs)
         n   == IF k = 0 THEN tot ELSE k IN
     /\ k < tot
     /\ (k > 0 => cuts < MaxCut)
     /\ cuts' = IF k > 0 THEN cuts + 1 ELSE cuts
     /\ readbuf' = [readbuf EXCEPT ![e] = Take(ch.segs, n)]                            \* c.quic.readbuf = data
     /\ wire' = [wire EXCEPT ![e] = IF n = tot THEN Tail(@)
                                    ELSE << [ch EXCEPT !.segs = Drop(@, n)] >> \o Tail(wire[e])]
     /\ carg' = [u |-> n, rem |-> tot - n, lv |-> ch.lv]
  /\ cpc' = "hdSignal" /\ cside' = e                                                  \* <-c.quic.signalc
  /\ UNCHANGED <<cfg, hpc, ip, hand, evq, emitted, blockedClosed, signalClosed, cancelSet, hsErr, complete,
                 failed, last, started, closeCalled, cancelFired, ctxCancelled>>

\* the context given to the client's Start is cancelled
CallCancel ==
  /\ cpc = "idle" /\ ~ctxCancelled /\ ctxCancelled' = TRUE /\ last' = Res("Cancel", "-", "-")
  /\ UNCHANGED <<cfg, gvars, cpc, cside, carg, failed, wire, started, closeCalled, cancelFired, cuts>>

\* Close (u_quic.go:89-98)
CallClose(e) ==
  /\ cpc = "idle" /\ ~closeCalled[e]
  /\ closeCalled' = [closeCalled EXCEPT ![e] = TRUE]
  /\ IF ~cancelSet[e]
     THEN Return("Close", e, "ok", NoRes) /\ UNCHANGED cancelFired                   \* quic.cancel == nil: never started
     ELSE /\ cancelFired' = [cancelFired EXCEPT ![e] = TRUE]                          \* q.conn.quic.cancel()
          /\ cpc' = "closeWait" /\ cside' = e /\ UNCHANGED <<carg, failed, last>>    \* for range blockedc
  /\ UNCHANGED <<cfg, gvars, wire, started, ctxCancelled, cuts>>

Pump == \/ \E e \in Sides : CallStart(e) \/ CallNext(e) \/ CallClose(e) \/ \E k \in 0..7 : CallDeliver(e, k)
        \/ CallCancel

Next == Internal \/ Pump

\* fairness only for what runs by itself (goroutines, the rest of a call in progress): the pump is arbitrary
Spec == Init /\ [][Next]_vars /\ WF_vars(Internal)

---------------------------------------------------------------------------------------------------------
(* Properties. *)
\* per level the write secret is installed before the read secret
WriteBeforeRead ==
  \A e \in Sides : \A i \in 1..Len(emitted[e]) :
     emitted[e][i].kind = "SetReadSecret" =>
        \E j \in 1..(i - 1) : emitted[e][j].kind = "SetWriteSecret" /\ emitted[e][j].lv = emitted[e][i].lv
\* the 1-RTT read secret only after HandshakeDone (RFC 9001 5.7)
AppReadAfterDone ==
  \A e \in Sides : \A i \in 1..Len(emitted[e]) :
     (emitted[e][i].kind = "SetReadSecret" /\ emitted[e][i].lv = "Application") =>
        \E j \in 1..(i - 1) : emitted[e][j].kind = "HandshakeDone"
\* the peer's transport parameters are delivered at most once, and exactly once in a completed handshake
NTP(e) == Cardinality({i \in 1..Len(emitted[e]) : emitted[e][i].kind = "TransportParameters"})
TPOnce == \A e \in Sides : NTP(e) <= 1 /\ (complete[e] => NTP(e) = 1)
\* only handshake messages are written, at the level they belong to (in particular: no ChangeCipherSpec)
LevelOf(m) == IF m \in {"CH", "SH", "HRR"} THEN "Initial" ELSE "Handshake"
OnlyHandshakeData ==
  \A e \in Sides : \A i \in 1..Len(emitted[e]) :
     emitted[e][i].kind = "WriteData" =>
        \A k \in 1..Len(emitted[e][i].msgs) : LevelOf(emitted[e][i].msgs[k]) = emitted[e][i].lv
\* secrets are never announced by a handshake that has not got that far, and Done means done
DoneMeansComplete ==
  \A e \in Sides : (\E i \in 1..Len(emitted[e]) : emitted[e][i].kind = "HandshakeDone") => complete[e] /\ ~hsErr[e]
\* no exported call is parked with nothing left that could wake it (safety face of "every call returns")
NoStuckCaller == ~(cpc # "idle" /\ ~ENABLED Internal)
\* nothing injected, everything pumped through => both sides completed
Injected == \/ cfg.build # "ok" \/ cfg.srvRefuse \/ cfg.cliRefuse \/ ctxCancelled
            \/ \E e \in Sides : closeCalled[e]
Drained == /\ cpc = "idle" /\ \A e \in Sides : started[e] /\ evq[e] = << >> /\ wire[e] = << >>
           /\ ~ENABLED Internal
CompletesWhenPumped == (Drained /\ ~Injected) => (complete["c"] /\ complete["s"])

\* liveness: every Start / HandleData / Close returns, whatever the pump does and whatever fails
AlwaysReturns == (cpc # "idle") ~> (cpc = "idle")
\* liveness: a pump that keeps pumping completes the handshake unless something was injected
Useful == \E e \in Sides : \/ CallStart(e)
                           \/ (evq[e] # << >> /\ CallNext(e))
                           \/ CallDeliver(e, 0)
Completes == WF_vars(Useful) => <>(Injected \/ (complete["c"] /\ complete["s"]))
=============================================================================
