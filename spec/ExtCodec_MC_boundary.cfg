CONSTANTS
  Seed = 1
  MaxList = 2
  Boundary = TRUE
INIT Init
NEXT Next
INVARIANTS Emit KnownKind LimitsMeanValid NormIdempotent RefusedOnlyOutsideLimits
CHECK_DEADLOCK FALSE
