\* thorough grid (Sample = 99 would be the full product); props/C15.py rewrites the CONSTANTS for the quick tier and for the model-level mutants
CONSTANTS
  CfgIds = {0, 7, 255}
  AeadIds = {1, 2, 3}
  MaxLens = {0, 32, 255}
  NameSets = {1, 2}
  ShapeIdx = {1, 2, 3, 4}
  UsageIdx = {1, 2, 3, 4, 5}
  CookieLens = {0, 1, 32, 255}
  SuiteIds = {4865, 4866, 4867}
  Sample = 10
  Mutant = "none"
INIT Init
NEXT Next
INVARIANTS ScenarioSane Progress NoLeak OuterOK InnerOK DecryptOK AcceptReported RejectionCarriesRetry VerifyNameRule OutcomeRule
CONSTRAINT Emit
CHECK_DEADLOCK FALSE
