---------------------------- MODULE Session_MC ----------------------------
(***************************************************************************)
(* Bounded exhaustive configurations for the session family.               *)
(*  Mode = "C20": every call sequence over the public session API (length  *)
(*     <= MaxLen; calls after the first Handshake only up to PostLen) x    *)
(*     spec kinds x server version x cache-in-config x session origin.     *)
(*  Mode = "C19": every history of <= 3 connections over one cache.        *)
(* Scenarios are emitted with PrintT; model-level properties are checked   *)
(* on the mechanism for fix = Repaired (INVARIANT) and the sequences on    *)
(* which the mechanism *as coded* violates them are listed (MVIOL).        *)
(***************************************************************************)
EXTENDS Session
CONSTANTS Mode, MaxLen, PostLen, Deep, Prune   \* Deep: all configurations / parrots; Prune: sequence pruning rules of the quick tier
VARIABLES cfg, hist, ua, ur, ra, rr   \* configuration, call history, UConn model as coded / repaired, predicted results

\* alpn: "spec" = the ALPN extension of the parrot; custom specs may drop it ("none") or offer http/1.1 only ("other")
Sd(base, custom, drop, skipnil, omit) == [base |-> base, custom |-> custom, drop |-> drop, skipnil |-> skipnil, omitpsk |-> omit, alpn |-> "spec"]
SdTP == Sd("Chrome-100_PSK", FALSE, <<>>, FALSE, TRUE)
\* ---------------------------------------------------------------- C20
C20Specs == { SdTP,                                                                 \* ticket + psk, predefined
              Sd("Chrome-100", FALSE, <<>>, FALSE, TRUE),                            \* ticket only, predefined
              Sd("iOS-14", FALSE, <<>>, FALSE, TRUE),                                \* neither, predefined
              Sd("Chrome-100_PSK", TRUE, <<>>, TRUE, TRUE),                          \* ticket + psk, custom
              Sd("Chrome-100_PSK", TRUE, <<"SessionTicketExtension">>, TRUE, TRUE) } \* psk only (custom)
            \cup (IF Deep THEN { Sd("Chrome-100", TRUE, <<"SessionTicketExtension">>, TRUE, TRUE),   \* neither, custom
                                 Sd("Chrome-100", TRUE, <<>>, FALSE, TRUE) }                          \* ticket only, custom, no PreferSkip
                  ELSE {})
C20Cfgs == { c \in [sd : C20Specs, srvmax : {771, 772}, hrr : BOOLEAN, cfgcache : BOOLEAN, cached : BOOLEAN, origin : {"prev", "forged"}] :
               /\ c.hrr => (c.srvmax = 772 /\ Deep /\ c.cfgcache /\ c.cached)
               /\ ~c.cached => (Deep /\ c.cfgcache /\ c.origin = "prev")
               \* quick tier: SetSessionCache and forged sessions are exercised on the ticket+psk specs only
               /\ (~Deep /\ ~c.cfgcache) => c.sd = SdTP
               /\ (~Deep /\ c.origin = "forged") => (c.sd.base = "Chrome-100_PSK" /\ c.sd.drop = <<>> /\ c.cfgcache) }
Label12 == <<70,79,82,71,69,68,45,84,75,84,45,48,49,50,51,52>>   \* "FORGED-TKT-012345"
Label13 == <<70,79,82,71,69,68,45,80,83,75,45,48,49,50,51,52>>   \* "FORGED-PSK-012345"
LabelFake == <<102,97,107,101,45,105,100,49>>                   \* "fake-id1"
Op(o, a) == [op |-> o, arg |-> a, from |-> "", forge |-> FALSE, label |-> <<>>]
Alphabet(c) ==
  {Op("BuildNoSess", ""), Op("Build", ""), Op("Handshake", ""),
   Op("SetTicket", "uninit"), Op("SetTicket", "nil"), Op("SetPsk", "uninit"), Op("SetPsk", "nil"),
   [op |-> "SetTicket", arg |-> "init", from |-> "side12", forge |-> c.origin = "forged", label |-> IF c.origin = "forged" THEN Label12 ELSE <<>>],
   [op |-> "SetPsk", arg |-> "real", from |-> "side13", forge |-> c.origin = "forged", label |-> IF c.origin = "forged" THEN Label13 ELSE <<>>],
   [op |-> "SetPsk", arg |-> "fake", from |-> "", forge |-> FALSE, label |-> LabelFake]}
  \cup (IF c.cfgcache THEN {} ELSE {Op("SetCache", "")})
  \cup (IF c.sd.custom THEN {Op("Preset", "")} ELSE {})

Passive(op) == IsSetter(op) /\ op.arg \in {"nil", "uninit"}
SrvRec(max, hrr) == [max |-> max, hrr |-> hrr, keys |-> 1, store |-> TRUE, cookie |-> 0, alpn |-> <<>>, nonce |-> 0, suite13 |-> 0]
CachedVers(c) == IF ~c.cached THEN 0 ELSE IF NegVers(SdTP, [max |-> c.srvmax]) = 772 THEN 13 ELSE 12
StaticEnv(c) == [specT |-> SdT(c.sd), specP |-> SdP(c.sd), custom |-> c.sd.custom, skip |-> SdSkip(c.sd), omit |-> c.sd.omitpsk,
                  max |-> SdMax(c.sd), cacheVers |-> CachedVers(c), injVers |-> 0]
EnvOf(c, ops) == [c.env EXCEPT !.injVers = IF Injection(ops) = "init" THEN 12 ELSE IF Injection(ops) = "real" THEN 13 ELSE 0]
MSrv(c) == [max |-> c.srvmax, hrr |-> c.hrr, canA |-> TRUE, canB |-> TRUE]
Halt(r) == Len(r) > 0 /\ r[Len(r)] \in {"panic", "rtpanic", "nilpanic"}
Stopped == Halt(rr)
HSop == [i \in 1..1 |-> Op("Handshake", "")]
ConnRec(sd, name, srv, cache, cfgcache, ops, alias, role) ==
  [spec |-> sd, name |-> name, srv |-> srv, clock |-> 0, cache |-> cache, cfgcache |-> cfgcache, ops |-> ops, alias |-> alias, role |-> role]
C20Scenario(c, ops) ==
  LET needB12 == \E i \in DOMAIN ops : ops[i].op = "SetTicket" /\ ops[i].arg = "init"
      needB13 == \E i \in DOMAIN ops : ops[i].op = "SetPsk" /\ ops[i].arg = "real"
      env == EnvOf(c, ops) IN
  [kind |-> "C20", cfg |-> c,
   conns |-> (IF c.cached THEN <<ConnRec(SdTP, "a.example", SrvRec(c.srvmax, FALSE), "main", TRUE, HSop, <<>>, "seedA")>> ELSE <<>>)
          \o (IF needB12 THEN <<ConnRec(SdTP, "a.example", SrvRec(771, FALSE), "side12", TRUE, HSop, Label12, "seedB")>> ELSE <<>>)
          \o (IF needB13 THEN <<ConnRec(SdTP, "a.example", SrvRec(772, FALSE), "side13", TRUE, HSop, Label13, "seedB")>> ELSE <<>>)
          \o <<ConnRec(c.sd, "a.example", SrvRec(c.srvmax, c.hrr), "main", c.cfgcache, ops, <<>>, "target")>>,
   class |-> SeqClass(ops, env, c.cfgcache),
   pred0 |-> ra, pred1 |-> rr,
   mviol |-> ~MechOK(ops, env, MSrv(c), c.cfgcache, AsCoded)]

C20Emit == (Stopped \/ HasHandshake(hist)) /\ (cfg.origin = "prev" \/ Injection(hist) \in {"init", "real"})
C20Init == /\ \E c \in C20Cfgs : cfg = [sd |-> c.sd, srvmax |-> c.srvmax, hrr |-> c.hrr, cfgcache |-> c.cfgcache, cached |-> c.cached,
                                         origin |-> c.origin, env |-> StaticEnv(c)]
           /\ hist = <<>> /\ ra = <<>> /\ rr = <<>>
           /\ ua = NewUConn(EnvOf(cfg, <<>>), cfg.cfgcache) /\ ur = ua
StepM(u, r, op, env, fix) == IF Halt(r) THEN [u |-> u, res |-> r]
                             ELSE LET x == Call(u, op, env, MSrv(cfg), fix) IN [u |-> x.u, res |-> Append(r, x.res)]
C20Next == /\ Len(hist) < MaxLen /\ ~Stopped
           /\ HasHandshake(hist) => Len(hist) < PostLen
           /\ \E op \in Alphabet(cfg) :
                /\ (Prune /\ Passive(op)) => \A i \in DOMAIN hist : ~Passive(hist[i])   \* pruning: one no-op setter per sequence
                \* pruning: once the history has left the documented orders only Build / Handshake follow
                /\ (Prune /\ ~Legal(hist, cfg.env, cfg.cfgcache)) => op.op \in {"Build", "Handshake"}
                \* a HelloCustom UConn without a preset has nothing to build: not a question about the session API
                /\ (cfg.sd.custom /\ op.op \in {"Build", "BuildNoSess", "Handshake"}) => \E i \in DOMAIN hist : hist[i].op = "Preset"
                /\ (Len(hist) = MaxLen - 1 /\ ~HasHandshake(hist)) => op.op = "Handshake"
                /\ hist' = Append(hist, op)
                /\ LET env == EnvOf(cfg, hist')
                       a == StepM(ua, ra, op, env, AsCoded)
                       b == StepM(ur, rr, op, env, Repaired) IN
                   ua' = a.u /\ ra' = a.res /\ ur' = b.u /\ rr' = b.res
           /\ UNCHANGED cfg
C20Print == C20Emit => PrintT(<<"SCN", ToJson(C20Scenario(cfg, hist))>>)
\* model-level C20: the repaired mechanism satisfies the property on every enumerated sequence
C20Model == C20Emit => MechOK(hist, EnvOf(cfg, hist), MSrv(cfg), cfg.cfgcache, Repaired)
C20Ctl == ControllerInv(ua) /\ ControllerInv(ur)

\* ---------------------------------------------------------------- C19
C19Parrots == { Sd("Chrome-100", FALSE, <<>>, FALSE, TRUE),                              \* ticket only
                SdTP,                                                                    \* ticket + psk, OmitEmptyPsk
                Sd("Chrome-100_PSK", FALSE, <<>>, FALSE, FALSE),                         \* ticket + psk, empty psk is an error
                Sd("iOS-14", FALSE, <<>>, FALSE, TRUE),                                  \* no session extension at all
                Sd("Chrome-58", FALSE, <<>>, FALSE, TRUE),                               \* TLS 1.2 only, EMS
                Sd("Chrome-58", TRUE, <<"ExtendedMasterSecretExtension">>, TRUE, TRUE),  \* the same hello without EMS
                Sd("Chrome-100_PSK", TRUE, <<"SessionTicketExtension">>, TRUE, TRUE),    \* psk but no ticket extension
                Sd("Chrome-100", TRUE, <<>>, FALSE, TRUE) }                              \* custom, ticket but no psk, no PreferSkip
              \cup (IF Deep THEN { Sd("Chrome-112_PSK", FALSE, <<>>, FALSE, TRUE), Sd("Chrome-114_PSK", FALSE, <<>>, FALSE, TRUE),
                                   Sd("Chrome-115_PQ_PSK", FALSE, <<>>, FALSE, TRUE), Sd("Chrome-133", FALSE, <<>>, FALSE, TRUE),
                                   Sd("Firefox-105", FALSE, <<>>, FALSE, TRUE), Sd("360Browser-7.5", FALSE, <<>>, FALSE, TRUE) }
                    ELSE {})
\* the same parrot as a custom spec whose ALPN offer differs (C11: ALPN is negotiated afresh on every connection,
\* also on a resumed one; the server here supports h2 only, so "none" and "other" end without a protocol)
AlpnVariant(sd, a) == [sd EXCEPT !.custom = TRUE, !.skipnil = TRUE, !.alpn = a]
AlpnVariants == { AlpnVariant(sd, a) : sd \in {x \in C19Parrots : ~x.custom}, a \in {"none", "other"} }
PFeat == [sd \in C19Parrots \cup AlpnVariants |-> Feat(sd)]
\* quick tier: the server keeps its tickets in a store (WrapSession/UnwrapSession, short labels); thorough tier: real
\* ticket encryption under SetSessionTicketKeys.  keys = which store / which ticket key the server owns.
\* cookie > 0: the HelloRetryRequest also carries a cookie of that many bytes, which the client has to echo in a cookie
\* extension the parrots do not have (handshake_client_tls13.go, uTLS section of processHelloRetryRequest)
\* nonce > 0: the TLS 1.3 server issues its tickets with a ticket_nonce of that many bytes, as OpenSSL / BoringSSL do
\* (the in-tree server alone always sends an empty one); the PSK of the ticket is derived with it (RFC 8446 4.6.1)
C19Srvs == { s \in [max : {771, 772}, hrr : BOOLEAN, keys : {1, 2}, store : {~Deep}, cookie : {0, 1, 32}, alpn : {<<"h2">>}, nonce : {0, 1, 8, 32}, suite13 : {0, 4865, 4866, 4867}] :
               /\ s.hrr => s.max = 772
               /\ s.cookie > 0 => (s.hrr /\ s.keys = 1)
               /\ s.nonce > 0 => (s.max = 772 /\ ~s.hrr /\ s.keys = 1 /\ s.cookie = 0)
               \* suite13 > 0: the TLS 1.3 server selects that suite (TLS_AES_128_GCM_SHA256 / TLS_AES_256_GCM_SHA384 /
               \* TLS_CHACHA20_POLY1305_SHA256): binder length and PSK hash compatibility depend on it
               /\ s.suite13 > 0 => (s.max = 772 /\ ~s.hrr /\ s.keys = 1 /\ s.cookie = 0 /\ s.nonce = 0) }
PskParrots == {x \in C19Parrots : PFeat[x].P}
PlainSrvs == {s \in C19Srvs : s.nonce = 0 /\ s.suite13 = 0}
SuiteSrvs == {s \in C19Srvs : s.suite13 > 0}
\* how the application drives the connection (all three are documented uses of BuildHandshakeState: "should only be called
\* explicitly to inspect/change fields"; SetClientRandom: "BuildHandshakeFirst() must be called before")
C19Uses == {"hs", "build", "edit"}
UseOps(u) == CASE u = "hs" -> HSop [] u = "build" -> <<Op("Build", "")>> \o HSop [] OTHER -> <<Op("Build", ""), Op("SetRandom", "")>> \o HSop
C19Names == {"a.example", "b.example"}
Cd(sd, name, srv, clock, use) == [spec |-> sd, name |-> name, srv |-> srv, clock |-> clock, feat |-> PFeat[sd], use |-> use,
                             cache |-> "main", cfgcache |-> TRUE, ops |-> (IF sd.custom THEN <<Op("Preset", "")>> ELSE <<>>) \o UseOps(use),
                             alias |-> <<>>, role |-> "conn", ctl |-> TRUE]
C19Space(h) ==
  CASE Len(h) = 0 -> { Cd(sd, "a.example", srv, 0, "hs") : sd \in C19Parrots, srv \in {s \in C19Srvs : s.keys = 1 /\ s.cookie = 0 /\ s.nonce = 0 /\ s.suite13 = 0} }
                     \* tickets with a ticket_nonce matter to the parrots that can offer them again
                     \cup { Cd(sd, "a.example", srv, 0, "hs") : sd \in PskParrots, srv \in {s \in C19Srvs : s.nonce > 0} \cup SuiteSrvs }
    \* ... after a server that selected a given TLS 1.3 suite: the same suite again (must resume, binder of that hash) or
    \* another one (same or different hash: resumption is the server's choice, both sides must agree on it)
    [] Len(h) = 1 /\ h[1].srv.suite13 > 0 -> { Cd(sd, h[1].name, srv, 0, "hs") : sd \in PskParrots, srv \in SuiteSrvs }
    \* ... the connection after one to a nonce-issuing server goes to that server again (any PSK parrot, any usage)
    [] Len(h) = 1 /\ h[1].srv.nonce > 0 ->
                     { Cd(sd, h[1].name, h[1].srv, c, "hs") : sd \in PskParrots, c \in {0, 8} }
                     \cup { Cd(h[1].spec, h[1].name, h[1].srv, 0, u) : u \in {"build", "edit"} }
    \* the second connection is driven in all three ways when it can meet the first one's session (same parrot, same name)
    [] Len(h) = 1 -> { Cd(sd, n, srv, c, "hs") : sd \in C19Parrots, n \in C19Names, srv \in PlainSrvs, c \in {0, 8} }
                     \cup { Cd(h[1].spec, h[1].name, srv, c, u) : srv \in PlainSrvs, c \in {0, 8}, u \in {"build", "edit"} }
                     \* ... and with a different ALPN offer than the first (none / other; "same" is the line above)
                     \cup (IF h[1].spec.custom THEN {} ELSE
                           { Cd(AlpnVariant(h[1].spec, a), h[1].name, srv, c, "hs") : a \in {"none", "other"}, srv \in {x \in PlainSrvs : x.cookie = 0}, c \in {0, 8} })
    [] OTHER -> IF Deep
                THEN { Cd(sd, n, srv, h[2].clock, h[2].use) : sd \in {h[1].spec, h[2].spec}, n \in {h[1].name, h[2].name}, srv \in {h[1].srv, h[2].srv} }
                ELSE { h[2], [h[1] EXCEPT !.clock = h[2].clock] }
VARIABLES mA, mR      \* C19 model state as coded / repaired: [cache, outs, offs, pre]
C19M0 == [cache |-> [n \in C19Names |-> NoEntry], outs |-> <<>>, offs |-> <<>>, pre |-> <<>>]
C19Step(m, cd, fix) == LET e == m.cache[cd.name] IN
  [cache |-> C19Cache(m.cache, cd, fix), outs |-> Append(m.outs, C19Outcome(e, cd, fix)),
   offs |-> Append(m.offs, C19Offer(e, cd, fix)), pre |-> Append(m.pre, e)]
C19Init == hist = <<>> /\ mA = C19M0 /\ mR = C19M0 /\ cfg = [max |-> MaxLen] /\ ua = 0 /\ ur = 0 /\ ra = <<>> /\ rr = <<>>
C19Next == /\ Len(hist) < MaxLen
           /\ \E cd \in C19Space(hist) : hist' = Append(hist, cd) /\ mA' = C19Step(mA, cd, AsCoded) /\ mR' = C19Step(mR, cd, Repaired)
           /\ UNCHANGED <<cfg, ua, ur, ra, rr>>
C19Scenario == [kind |-> "C19", conns |-> hist, pred0 |-> mA.outs, pred1 |-> mR.outs,
                mviol |-> ~C19ModelOK(hist, mA.outs, mA.offs, mA.pre)]
\* ---- connections that exist side by side (C18: legacy_session_id, random and key shares never repeat): after a first
\* connection filled the cache, n connections are BUILT from the same cache entry before any of them handshakes
\* ("built"), or one session taken from another cache is handed to n UConns through SetSessionTicketExtension ("given").
ParOps(sd, mode) == (IF sd.custom THEN <<Op("Preset", "")>> ELSE <<>>)
                    \o (IF mode = "built" THEN <<Op("Build", ""), Op("Yield", "")>>
                        ELSE <<[op |-> "SetTicket", arg |-> "init", from |-> "side12", forge |-> FALSE, label |-> <<>>]>>
                             \o (IF mode = "given-built" THEN <<Op("Build", ""), Op("Yield", "")>> ELSE <<>>))
                    \o HSop
ParConn(sd, srv, mode) == [Cd(sd, "a.example", srv, 0, "hs") EXCEPT !.ops = ParOps(sd, mode), !.role = "par", !.ctl = FALSE]
\* parrots whose configuration does not ask for an error when the session does not fit (empty PSK without OmitEmptyPsk,
\* missing extension without PreferSkipResumptionOnNilExtension): those outcomes are judged in the sequential histories
ParParrots == {x \in C19Parrots : x.omitpsk /\ (x.custom => x.skipnil)}
ParScenarios ==
  { [kind |-> "C19", conns |-> <<Cd(sd, "a.example", srv, 0, "hs")>> \o [i \in 1..n |-> ParConn(sd, srv, "built")], pred0 |-> <<>>, pred1 |-> <<>>, mviol |-> FALSE] :
      sd \in {x \in ParParrots : PFeat[x].T \/ PFeat[x].P}, srv \in {x \in PlainSrvs : x.keys = 1 /\ x.cookie = 0}, n \in {2, 3} }
  \cup
  { [kind |-> "C19", conns |-> <<[Cd(SdTP, "a.example", srv, 0, "hs") EXCEPT !.cache = "side12", !.role = "seedB", !.ctl = FALSE]>>
                               \o [i \in 1..n |-> ParConn(sd, srv, mode)], pred0 |-> <<>>, pred1 |-> <<>>, mviol |-> FALSE] :
      \* the session comes from an EMS connection: handing it to a spec without extended_master_secret is the caller's mistake
      sd \in {x \in ParParrots : PFeat[x].T /\ PFeat[x].ems}, srv \in {x \in C19Srvs : x.max = 771 /\ x.keys = 1}, n \in {2, 3}, mode \in {"given", "given-built"} }
C19Print == /\ Len(hist) = MaxLen => PrintT(<<"SCN", ToJson(C19Scenario)>>)
            /\ hist = <<>> => \A sc \in ParScenarios : PrintT(<<"SCN", ToJson(sc)>>)
C19Model == C19ModelOK(hist, mR.outs, mR.offs, mR.pre)

Init == IF Mode = "C20" THEN C20Init /\ mA = 0 /\ mR = 0 ELSE C19Init
Next == IF Mode = "C20" THEN C20Next /\ UNCHANGED <<mA, mR>> ELSE C19Next
EmitAll == IF Mode = "C20" THEN C20Print ELSE C19Print
ModelOK == IF Mode = "C20" THEN C20Model /\ C20Ctl ELSE C19Model
=============================================================================
