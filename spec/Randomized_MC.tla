-------------------------- MODULE Randomized_MC --------------------------
(* Exhaustive configuration of Randomized: every coin outcome, for the weight vectors
     all-either (every weight strictly between 0 and 1), default (FirstKeyShare_Set_CurveP256 = 0), all-0, all-1,
     and (WMode = "all") every single weight at 0 and at 1 with the others either,
   times the three variants.  The VIEW keeps the feature vector; the per-class survivor counts of
   removeRandomCiphers are part of the view only while the suite invariants are being decided (no later
   decision reads them), which keeps the space small without skipping any coin outcome. *)
EXTENDS Randomized

CONSTANT WMode      \* "all" | "basic"
AllW(c) == [n \in WeightNames |-> c]
DefaultW == [AllW(2) EXCEPT !.FirstKeyShare_Set_CurveP256 = 0]
Singles == {[AllW(2) EXCEPT ![n] = c] : n \in WeightNames, c \in {0, 1}}
WeightVectors == {AllW(2), DefaultW, AllW(0), AllW(1)} \cup (IF WMode = "all" THEN Singles ELSE {})

Init == pc = "alpn" /\ W \in WeightVectors /\ variant \in Variants /\ fv = FV0 /\ obs = Free
Next == GenNext
SuitePhase == {"alpn", "shuffleCiphers", "tls13", "min", "shuffle13", "remove", "sha1"}
View == <<pc, W, variant, IF pc \in SuitePhase THEN fv ELSE [fv EXCEPT !.k13 = 0, !.k12 = 0, !.kold = 0, !.krc4 = 0]>>

Done == pc = "done"
O == Offer(fv)
PCs == {"alpn", "shuffleCiphers", "tls13", "min", "shuffle13", "remove", "sha1", "p521sig", "pss256", "pss384",
        "shuffleSigs", "mlkemGroup", "x25519", "p521curve", "padding", "status", "sct", "reneg", "ems",
        "p256first", "ksP256", "ksMLKEM", "alps", "shuffleExts", "done"}
TypeOK == /\ pc \in PCs
          /\ DOMAIN fv = Fields /\ fv.min \in {TLS10, TLS12}
          /\ fv.k13 \in 0..N13 /\ fv.k12 \in 0..N12 /\ fv.kold \in 0..NOld /\ fv.krc4 \in 0..NRC4
\* decided as soon as removeRandomCiphers has run (pc = "sha1" is the first state that carries the survivor counts)
InvSuites == pc = "sha1" => SuiteOrderOK(O) /\ NoRC4In13(O) /\ Len(O.sc) >= 1
InvPSS == Done => PSSIn13(O)
InvPadding == Done => PaddingIn13(O)
InvVersions == Done => VersionsIn13(O)
InvALPS == Done => ALPSNeedsALPN(O)
\* (the suite-count clause of WeightsRespected is InvWeightsSuites: the VIEW hides the counts after the suite phase)
InvWeightsDone == Done => WeightsRespected([W EXCEPT !.CipherSuites_Remove_RandomCiphers = 2], variant, O)
InvWeightsSuites == pc = "sha1" /\ W.CipherSuites_Remove_RandomCiphers = 0 =>
                      Len(O.sc) = (IF fv.tls13 THEN N13 ELSE 0) + N12 + NOld + (IF fv.tls13 THEN 0 ELSE NRC4)
\* the two invariants the generator as coded does not have (D14); checked by their own configurations
InvSharesListed == Done => SharesListed(O)
InvHybridHasShare == Done => HybridHasShare(O)

\* number of distinct final feature vectors is reported by the runner from the state count; the final
\* decision vectors themselves are printed for the D14 configurations only (counterexample trace).
ASSUME N13 >= 1 /\ N12 >= 1 /\ NOld >= 1 /\ NRC4 >= 1
=============================================================================
