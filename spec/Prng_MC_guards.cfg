CONSTANTS
  Threads = {"t1"}
  Lens = {0}
  MaxCalls = 1
  Mutex = TRUE
INIT GInitEmit
NEXT GNext
INVARIANT GuardLaws
CHECK_DEADLOCK FALSE
