------------------------------ MODULE CertVerifyDefs ------------------------------
(***************************************************************************)
(* Server-certificate verification as the Config requests it (C14).        *)
(* A scenario is a server certificate kind and a sequence of one or two    *)
(* connections sharing a ClientSessionCache; each connection has its own   *)
(* verification configuration and clock.  The specification states, for    *)
(* every connection, whether it may succeed (ShouldAccept), independently  *)
(* of whether the session was resumed: resumption must never bypass what   *)
(* the Config of *this* connection asks for (handshake_client.go           *)
(* verifyServerCertificate, loadSession re-check).                         *)
(***************************************************************************)
EXTENDS Integers, Sequences, FiniteSets, TLC, Json

\* (two certificate kinds are wrong in two respects at once: relaxing one check must not relax the other)
CertName(c) == IF c \in {"wrongname", "expired-wrongname", "notyet-wrongname"} THEN "another.example" ELSE "example.com"
\* validity window of each certificate kind in hours relative to "now"
NotBefore(c) == CASE c \in {"expired", "expired-wrongname"} -> -48 [] c \in {"notyet", "notyet-wrongname"} -> 24 [] OTHER -> -1
NotAfter(c)  == CASE c \in {"expired", "expired-wrongname"} -> -24 [] c \in {"notyet", "notyet-wrongname"} -> 48 [] OTHER -> 24
ChainOK(c) == c # "untrusted"
TimeOK(c, clock) == clock >= NotBefore(c) /\ clock <= NotAfter(c)
\* setsni: the caller built the hello and then called SetSNI(x) ("" = no such call).  SetSNI stores hostnameInSNI(x) in
\* Config.ServerName: an IP literal or the empty string leaves NO name, and without a name (and without
\* InsecureServerNameToVerify / InsecureSkipVerify) nothing may be accepted.
NoName == {"-empty-", "192.0.2.10", "[2001:db8::1]"}
EffName(k) == IF k.setsni = "" THEN k.server_name ELSE IF k.setsni \in NoName THEN "" ELSE k.setsni
VerifyName(k) == IF k.itv # "" THEN k.itv ELSE EffName(k)
NameOK(c, k) == k.itv = "*" \/ (VerifyName(k) # "" /\ VerifyName(k) = CertName(c))
\* the first reason verification fails ("none" when it passes)
WhyNot(c, k) == IF k.skip_verify THEN "none"
                ELSE IF ~ChainOK(c) THEN "untrusted-root"
                ELSE IF ~k.skip_time /\ k.clock < NotBefore(c) THEN "not-yet-valid"
                ELSE IF ~k.skip_time /\ k.clock > NotAfter(c) THEN "expired"
                ELSE IF ~NameOK(c, k) THEN "name-mismatch" ELSE "none"
ShouldAccept(c, k) == k.skip_verify \/ (ChainOK(c) /\ (k.skip_time \/ TimeOK(c, k.clock)) /\ NameOK(c, k))

=============================================================================
