------------------------ MODULE Randomized_Trace ------------------------
(* Trace validation for C09.  One event per (variant, weights, seed):
     Gen  variant, W (weight classes), seed, sni, alpn (Config.NextProtos; <<>> = nil), d1, d2 (reflection dumps of the
          spec generated twice from the same ClientHelloID: src = "spec": two UTLSIdToSpec calls; src = "uconn" (non-empty
          NextProtos, which only a connection passes to the generator): what each of the two connections applied),
          h1, h2 (wire ClientHellos of two connections built from that ClientHelloID), err
   For every event TLC judges
     - reproducibility: d1 = d2 and NormHello(h1) = NormHello(h2) (equal modulo per-connection material),
     - the wire hello is the one the dump describes (reference encoders of TLSWire),
     - the consistency invariants of Randomized on the dump,
     - membership: the generator model is replayed with the decision vector read off the dump as prophecy;
       the event is accepted iff the model reaches "done" with exactly the dumped offer.
   Events are never skipped silently: every failed judgement is appended to rej. *)
EXTENDS Randomized, Parrots

Trace == ndJsonDeserialize("c09_trace.ndjson")
VARIABLES l, rej, taken      \* taken: pc values from which a generator step was replayed (vacuity report)
tvars == <<l, rej, taken, pc, W, variant, fv, obs>>

\* ---------------------------------------------------------------- dump -> offer
ClassOf(id) == IF id \in Pool13 THEN "t13" ELSE IF id \in Pool12 THEN "t12"
               ELSE IF id \in PoolOld \cup PoolRC4 THEN "old" ELSE "unknown"
DField(sp, kind, field) == IF HasExt(sp, kind) THEN TheExt(sp, kind).f[field] ELSE <<>>
KSGroups(sp) == LET ks == DField(sp, "KeyShareExtension", "KeyShares") IN [i \in DOMAIN ks |-> ks[i].Group]
Abs(sp) ==
  [ vmin |-> sp.min, vmax |-> sp.max,
    sc |-> [i \in DOMAIN sp.suites |-> ClassOf(sp.suites[i])],
    nrc4 |-> Cardinality({i \in DOMAIN sp.suites : sp.suites[i] \in PoolRC4}),
    sigs |-> Range(DField(sp, "SignatureAlgorithmsExtension", "SupportedSignatureAlgorithms")),
    curves |-> DField(sp, "SupportedCurvesExtension", "Curves"),
    exts |-> {sp.exts[i].kind : i \in DOMAIN sp.exts},
    ks |-> KSGroups(sp),
    sv |-> DField(sp, "SupportedVersionsExtension", "Versions") ]

H2 == <<104, 50>>
HTTP11 == <<104, 116, 116, 112, 47, 49, 46, 49>>
\* parts of the generated spec that no coin decides (u_parrots.go:3053, 3083, 3120, 3144) and well-formedness of the lists
\* nextProtos is an input of the generator: it only supplies the ALPN protocol list (default h2, http/1.1: u_parrots.go:3080-3086);
\* whether ALPN / ALPS are present is decided by the variant and the coins alone
DetailOK(sp, alpnIn) ==
  /\ NoDupSeq(sp.suites) /\ \A i \in DOMAIN sp.suites : ClassOf(sp.suites[i]) # "unknown"
  /\ NoDupSeq([i \in DOMAIN sp.exts |-> sp.exts[i].kind])
  /\ NoDupSeq(DField(sp, "SignatureAlgorithmsExtension", "SupportedSignatureAlgorithms"))
  /\ DField(sp, "SupportedPointsExtension", "SupportedPoints") = <<0>>
  /\ HasExt(sp, "ALPNExtension") => TheExt(sp, "ALPNExtension").f.AlpnProtocols = (IF alpnIn = <<>> THEN <<H2, HTTP11>> ELSE alpnIn)
  /\ HasExt(sp, "ApplicationSettingsExtension") => TheExt(sp, "ApplicationSettingsExtension").f.SupportedProtocols = <<H2>>
  /\ HasExt(sp, "PSKKeyExchangeModesExtension") => TheExt(sp, "PSKKeyExchangeModesExtension").f.Modes = <<1>>
  /\ HasExt(sp, "UtlsPaddingExtension") => TheExt(sp, "UtlsPaddingExtension").style = "boring"

Count(s, x) == Cardinality({i \in DOMAIN s : s[i] = x})
\* the decision vector read off an offer (prophecy for the replay)
ObsOf(o) ==
  LET t13 == o.vmax = TLS13 IN
  [ alpn |-> "ALPNExtension" \in o.exts, tls13 |-> t13, min |-> o.vmin,
    k13 |-> Count(o.sc, "t13"), k12 |-> Count(o.sc, "t12"), kold |-> Count(o.sc, "old") - o.nrc4, krc4 |-> o.nrc4,
    sha1 |-> ECDSA_SHA1 \in o.sigs, p521sig |-> ECDSA_P521_SHA512 \in o.sigs,
    pss256 |-> PSS_SHA256 \in o.sigs, pss384 |-> PSS_SHA384 \in o.sigs,
    mlkemGroup |-> X25519MLKEM768 \in SeqRange(o.curves), x25519 |-> X25519 \in SeqRange(o.curves), p521curve |-> P521 \in SeqRange(o.curves),
    padding |-> "UtlsPaddingExtension" \in o.exts, status |-> "StatusRequestExtension" \in o.exts, sct |-> "SCTExtension" \in o.exts,
    reneg |-> "RenegotiationInfoExtension" \in o.exts, ems |-> "ExtendedMasterSecretExtension" \in o.exts,
    p256first |-> o.ks # <<>> /\ o.ks[1] = P256,
    ksP256 |-> o.ks # <<>> /\ o.ks[1] # P256 /\ P256 \in SeqRange(o.ks),
    ksMLKEM |-> X25519MLKEM768 \in SeqRange(o.ks),
    alps |-> "ApplicationSettingsExtension" \in o.exts ]

\* ---------------------------------------------------------------- wire hellos
\* equal modulo per-connection material: client random, session id bytes, key-share public values
MaskShares(b) == IF IsVec16(b) /\ SharesOK(b, 3)
                 THEN LET sh == ParseShares(b, 3) IN [i \in DOMAIN sh |-> <<sh[i].group, sh[i].n>>] ELSE b
NormExt(e) == [type |-> e.type, body |-> IF e.type = 51 THEN MaskShares(e.body) ELSE e.body]
NormHello(raw) == LET h == ParseHello(raw) IN
   IF ~h.ok THEN [ok |-> FALSE]
   ELSE [ok |-> TRUE, vers |-> h.vers, sidLen |-> Len(h.sid), suites |-> h.suites, comp |-> h.comp,
         exts |-> [i \in DOMAIN h.exts |-> NormExt(h.exts[i])]]
\* the hello a dumped spec describes (ApplyPreset sends compression "null" when the spec names none: u_parrots.go:2800)
HelloMatchesDump(raw, sp, sni) ==
  LET h == ParseHello(raw) IN
  /\ h.ok /\ \A k \in DOMAIN h.exts : ~h.exts[k].bad
  /\ h.vers = LegacyVersion(sp)
  /\ h.suites = sp.suites
  /\ h.comp = (IF sp.comp = <<>> THEN <<0>> ELSE sp.comp)
  /\ Align(h.exts, 1, sp.exts, 1, [sni |-> sni])

\* dumps taken from connections carry the key-share public values the connection generated: equal modulo those
NormD(sp) == [sp EXCEPT !.exts = [i \in DOMAIN sp.exts |->
                 IF sp.exts[i].kind = "KeyShareExtension"
                 THEN LET ks == sp.exts[i].f.KeyShares
                      IN [sp.exts[i] EXCEPT !.f.KeyShares = [k \in DOMAIN ks |-> [Group |-> ks[k].Group, n |-> Len(ks[k].Data)]]]
                 ELSE sp.exts[i]]]

\* ---------------------------------------------------------------- static judgements of one event
StaticFails(ev) ==
  IF ev.err # "" THEN {"error"} ELSE
  LET o == Abs(ev.d1) IN
     (IF NormD(ev.d1) = NormD(ev.d2) THEN {} ELSE {"dump-not-reproducible"})
  \cup (IF NormHello(ev.h1).ok /\ NormHello(ev.h1) = NormHello(ev.h2) THEN {} ELSE {"hello-not-reproducible"})
  \cup (IF HelloMatchesDump(ev.h1, ev.d1, ev.sni) /\ HelloMatchesDump(ev.h2, ev.d2, ev.sni) THEN {} ELSE {"hello-not-as-dumped"})
  \cup {n \in ConsistencyNames : ~Consistent(n, o)}
  \cup (IF WeightsRespected(ev.W, ev.variant, o) THEN {} ELSE {"weights-not-respected"})

Detail(ev) == IF ev.err # "" THEN [err |-> ev.err]
              ELSE LET o == Abs(ev.d1) IN [unlisted |-> Unlisted(o), shareless |-> Shareless(o)]

\* ---------------------------------------------------------------- the replay
Init == l = 1 /\ rej = <<>> /\ taken = {} /\ pc = "idle" /\ W = [n \in WeightNames |-> 2] /\ variant = "Randomized" /\ fv = FV0 /\ obs = Free

Begin == /\ pc = "idle" /\ l <= Len(Trace)
         /\ LET ev == Trace[l] fails == StaticFails(ev) IN
            /\ rej' = IF fails = {} THEN rej ELSE Append(rej, <<l, fails, Detail(ev)>>)
            /\ IF ev.err # ""
               THEN l' = l + 1 /\ UNCHANGED <<pc, W, variant, fv, obs>>
               ELSE /\ pc' = "alpn" /\ W' = ev.W /\ variant' = ev.variant /\ fv' = FV0 /\ obs' = ObsOf(Abs(ev.d1))
                    /\ UNCHANGED l
            /\ UNCHANGED taken
Step == pc \notin {"idle", "done"} /\ GenNext /\ taken' = taken \cup {pc} /\ UNCHANGED <<l, rej>>
Member == Offer(fv) = Abs(Trace[l].d1) /\ DetailOK(Trace[l].d1, Trace[l].alpn)
Finish == /\ pc = "done"
          /\ rej' = IF Member THEN rej ELSE Append(rej, <<l, {"not-a-model-output"}, [pc |-> pc]>>)
          /\ l' = l + 1 /\ pc' = "idle" /\ UNCHANGED <<W, variant, fv, obs, taken>>
\* no step of the generator model agrees with the observed decision vector
Stuck == /\ pc \notin {"idle", "done"} /\ ~ENABLED GenNext
         /\ rej' = Append(rej, <<l, {"not-a-model-output"}, [pc |-> pc]>>)
         /\ l' = l + 1 /\ pc' = "idle" /\ UNCHANGED <<W, variant, fv, obs, taken>>
Next == Begin \/ Step \/ Finish \/ Stuck

Report == (l = Len(Trace) + 1 /\ pc = "idle") =>
            /\ PrintT(<<"DONE", l - 1>>)
            /\ PrintT(<<"TAKEN", ToJson(taken)>>)
            /\ \A i \in DOMAIN rej : PrintT(<<"REJ", ToJson(rej[i])>>)
=============================================================================
