------------------------------ MODULE ExtCodec ------------------------------
(***************************************************************************)
(* C08 - every built-in TLSExtension's encoder and decoder agree.          *)
(*                                                                         *)
(* A descriptor d = [kind, f, (style, padto)] names a Go extension type    *)
(* and the values of its exported fields (the shape harness dump.go        *)
(* produces by reflection; here TLC produces it and the harness builds the *)
(* object from it).  This module states, for EVERY built-in kind           *)
(*   XEnc(d)      what Len()/Read() must produce (reference encoder),      *)
(*   InLimits(d)  whether the field values are inside the wire limits of   *)
(*                the extension's grammar (only then the decoder has to    *)
(*                accept the encoder's output),                            *)
(*   NormDesc(d)  what a decoder is documented to turn d into (GREASE ->   *)
(*                placeholder, per-connection material dropped, ...),      *)
(*   Judge(ev)    the verdict on one logged harness run of one descriptor. *)
(* Code mirrored: u_tls_extensions.go:122-1946, u_ech.go:171-259,          *)
(* u_pre_shared_key.go:166-486, u_session_ticket.go, quic parameters.      *)
(* Integers wider than 31 bits are byte sequences (uint64: 8 bytes,        *)
(* uint32: 4 bytes).  TLSWire!EncodeExt is the reference for the kinds it  *)
(* covers without holes; XEnc restates them (with linear-time list         *)
(* encoders for the 2^16 boundary cases) and ExtCodec_MC checks that both  *)
(* formulations agree.                                                     *)
(***************************************************************************)
EXTENDS Varint, Json

\* ---------- linear-time list helpers (TLSWire!Flat is quadratic on 32k-element lists) ----------
\* (SubSeq turns a function value into a proper tuple: Len / indexing of a function value cost O(n) each in TLC)
XRep(n, v) == SubSeq([i \in 1..n |-> v], 1, n)
XU16ListN(xs, n) == SubSeq([i \in 1..(2 * n) |-> IF i % 2 = 1 THEN xs[(i + 1) \div 2] \div 256 ELSE xs[i \div 2] % 256], 1, 2 * n)
XU16List(xs) == XU16ListN(xs, Len(xs))
RECURSIVE XFlatR(_, _, _)
XFlatR(ss, lo, hi) == IF lo > hi THEN <<>> ELSE IF lo = hi THEN ss[lo]
                      ELSE XFlatR(ss, lo, (lo + hi) \div 2) \o XFlatR(ss, (lo + hi) \div 2 + 1, hi)
XFlat(ss) == XFlatR(ss, 1, Len(ss))
XProtoList(ps) == XFlat([i \in DOMAIN ps |-> Vec8(ps[i])])
SeqSum(ns) == LET RECURSIVE S(_) S(i) == IF i > Len(ns) THEN 0 ELSE ns[i] + S(i + 1) IN S(1)

\* ---------- server_name: what may be sent for a configured name (RFC 6066 section 3) ----------
\* "Literal IPv4 and IPv6 addresses are not permitted in HostName"; the name is sent without a trailing dot.
IsDigit(c) == c \in 48..57
DotIdx(s) == {i \in DOMAIN s : s[i] = 46}
SortedDots(s) == [k \in 1..Cardinality(DotIdx(s)) |-> CHOOSE i \in DotIdx(s) : Cardinality({j \in DotIdx(s) : j < i}) = k - 1]
DecOK(f) == Len(f) \in 1..3 /\ (\A i \in DOMAIN f : IsDigit(f[i])) /\ (Len(f) > 1 => f[1] # 48)
            /\ (IF Len(f) = 3 THEN (f[1]-48)*100 + (f[2]-48)*10 + (f[3]-48) <= 255 ELSE TRUE)
IsIPv4(s) == /\ Cardinality(DotIdx(s)) = 3
             /\ LET p == SortedDots(s) IN
                  /\ DecOK(SubSeq(s, 1, p[1]-1)) /\ DecOK(SubSeq(s, p[1]+1, p[2]-1))
                  /\ DecOK(SubSeq(s, p[2]+1, p[3]-1)) /\ DecOK(SubSeq(s, p[3]+1, Len(s)))
HasColon(s) == \E i \in DOMAIN s : s[i] = 58      \* ':' never occurs in a DNS host name: IPv6 literal (bare, bracketed, zoned)
IsIPLiteral(s) == IsIPv4(s) \/ HasColon(s)
RECURSIVE LastNonDotFrom(_, _)
LastNonDotFrom(s, i) == IF i = 0 THEN 0 ELSE IF s[i] # 46 THEN i ELSE LastNonDotFrom(s, i - 1)
LastNonDot(s) == LastNonDotFrom(s, Len(s))
SNIHost(name) == IF IsIPLiteral(name) THEN <<>> ELSE SubSeq(name, 1, LastNonDot(name))

\* ---------- QUIC transport parameters: reflection descriptor -> Varint!TPMatches descriptor ----------
ToTP(e) ==
  CASE e.kind \in VarintKinds -> [kind |-> e.kind, v |-> e.v]
    [] e.kind \in EmptyKinds -> [kind |-> e.kind]
    [] e.kind \in BytesKinds -> [kind |-> e.kind, val |-> e.v]
    [] e.kind = "VersionInformation" -> [kind |-> e.kind, chosen |-> e.f.ChoosenVersion, avail |-> e.f.AvailableVersions, legacy |-> e.f.LegacyID]
    [] e.kind = "GREASETransportParameter" -> [kind |-> "GREASE", id |-> e.f.IdOverride, length |-> e.f.Length, val |-> e.f.ValueOverride]
    [] e.kind = "FakeQUICTransportParameter" -> [kind |-> "Fake", id |-> e.f.Id, val |-> e.f.Val]
TPDeterministic(e) ==
  CASE e.kind = "GREASETransportParameter" -> IsGreaseTPID(e.f.IdOverride) /\ e.f.ValueOverride # <<>>
    [] e.kind = "VersionInformation" -> \A k \in DOMAIN e.f.AvailableVersions : e.f.AvailableVersions[k] # GreaseVersion
    [] OTHER -> TRUE
\* wire bytes of one deterministic parameter
TPWire(e) ==
  LET t == ToTP(e) IN
  CASE t.kind \in VarintKinds -> TPEntryEnc([id |-> NatB8(TPID(t.kind)), val |-> VarintEnc(t.v)])
    [] t.kind \in EmptyKinds -> TPEntryEnc([id |-> NatB8(TPID(t.kind)), val |-> <<>>])
    [] t.kind \in BytesKinds -> TPEntryEnc([id |-> NatB8(TPID(t.kind)), val |-> t.val])
    [] t.kind = "VersionInformation" -> TPEntryEnc([id |-> NatB8(TPID(IF t.legacy THEN "VersionInformationLegacy" ELSE "VersionInformation")),
                                                    val |-> t.chosen \o XFlat(t.avail)])
    [] t.kind = "GREASE" -> TPEntryEnc([id |-> t.id, val |-> t.val])
    [] t.kind = "Fake" -> TPEntryEnc([id |-> t.id, val |-> t.val])

\* ---------- pre_shared_key ----------
PskIdsBytes(ids) == XFlat([i \in DOMAIN ids |-> Vec16(ids[i].Label) \o ids[i].ObfuscatedTicketAge])   \* age: 4 bytes
PskBindersBytes(bs) == XFlat([i \in DOMAIN bs |-> Vec8(bs[i])])
HashLens == {32, 48}     \* SHA-256 / SHA-384: the only binder sizes a TLS 1.3 PSK can have

\* ---------- GREASE ECH (draft-ietf-tls-esni: outer form) ----------
EchSuites(f) == IF f.CandidateCipherSuites = <<>> THEN {<<1, 1>>}      \* HKDF-SHA256 / AES-128-GCM
                ELSE {<<f.CandidateCipherSuites[i].KdfId, f.CandidateCipherSuites[i].AeadId>> : i \in DOMAIN f.CandidateCipherSuites}
EchPayloadLens(f) == IF f.CandidatePayloadLens = <<>> THEN {128 + 16} ELSE {f.CandidatePayloadLens[i] + 16 : i \in DOMAIN f.CandidatePayloadLens}
EchParse(b) ==     \* b = extension body; total, never indexes out of range
  IF Len(b) < 10 THEN [ok |-> FALSE]
  ELSE LET el == RdU16(b, 7) IN
       IF 8 + el + 2 > Len(b) THEN [ok |-> FALSE]
       ELSE LET po == 9 + el
                pl == RdU16(b, po) IN
            IF po + 1 + pl # Len(b) THEN [ok |-> FALSE]
            ELSE [ok |-> TRUE, chtype |-> b[1], kdf |-> RdU16(b, 2), aead |-> RdU16(b, 4), cfg |-> b[6],
                  enc |-> SubSeq(b, 9, 8 + el), plen |-> pl]
EchBodyOK(b, f) ==
  LET p == EchParse(b) IN
  /\ p.ok /\ p.chtype = 0
  /\ <<p.kdf, p.aead>> \in EchSuites(f)
  /\ (f.CandidateConfigIds # <<>> => p.cfg \in Range(f.CandidateConfigIds))
  /\ (IF f.EncapsulatedKey # <<>> THEN p.enc = f.EncapsulatedKey ELSE Len(p.enc) = 32)
  /\ p.plen \in EchPayloadLens(f)

\* ---------- the reference encoder ----------
\* st: "ok" bytes are produced; "omit" the extension contributes nothing (Len 0, Read = 0, EOF);
\*     "refuse" the value cannot be encoded and Read must return an error with n = 0.
\* det: the body is a function of the descriptor (else HoleOK judges the bytes).
OkX(t, b)  == [st |-> "ok", det |-> TRUE, type |-> t, body |-> b]
HoleX(t)   == [st |-> "ok", det |-> FALSE, type |-> t, body |-> <<>>]
OmitX      == [st |-> "omit", det |-> TRUE, type |-> 0, body |-> <<>>]
RefuseX    == [st |-> "refuse", det |-> TRUE, type |-> 0, body |-> <<>>]

XEnc(d) ==
  CASE d.kind = "SNIExtension" -> IF SNIHost(d.f.ServerName) = <<>> THEN OmitX ELSE OkX(0, Vec16(<<0>> \o Vec16(SNIHost(d.f.ServerName))))
    [] d.kind = "StatusRequestExtension" -> OkX(5, <<1, 0, 0, 0, 0>>)
    [] d.kind = "StatusRequestV2Extension" -> OkX(17, <<0, 7, 2, 0, 4, 0, 0, 0, 0>>)
    [] d.kind = "SupportedCurvesExtension" -> OkX(10, Vec16(XU16List(d.f.Curves)))
    [] d.kind = "SupportedPointsExtension" -> OkX(11, Vec8(d.f.SupportedPoints))
    [] d.kind = "SignatureAlgorithmsExtension" -> OkX(13, Vec16(XU16List(d.f.SupportedSignatureAlgorithms)))
    [] d.kind = "SignatureAlgorithmsCertExtension" -> OkX(50, Vec16(XU16List(d.f.SupportedSignatureAlgorithms)))
    [] d.kind = "FakeDelegatedCredentialsExtension" -> OkX(34, Vec16(XU16List(d.f.SupportedSignatureAlgorithms)))
    [] d.kind = "ALPNExtension" -> OkX(16, Vec16(XProtoList(d.f.AlpnProtocols)))
    [] d.kind = "ApplicationSettingsExtension" -> OkX(17513, Vec16(XProtoList(d.f.SupportedProtocols)))
    [] d.kind = "ApplicationSettingsExtensionNew" -> OkX(17613, Vec16(XProtoList(d.f.SupportedProtocols)))
    [] d.kind = "SCTExtension" -> OkX(18, <<>>)
    [] d.kind = "ExtendedMasterSecretExtension" -> OkX(23, <<>>)
    [] d.kind = "NPNExtension" -> OkX(13172, <<>>)
    [] d.kind = "FakeChannelIDExtension" -> OkX(IF d.f.OldExtensionID THEN 30031 ELSE 30032, <<>>)
    [] d.kind = "GenericExtension" -> OkX(d.f.Id, d.f.Data)
    [] d.kind = "UtlsGREASEExtension" -> OkX(d.f.Value, d.f.Body)
    [] d.kind = "UtlsPaddingExtension" -> IF d.f.WillPad THEN OkX(21, XRep(d.f.PaddingLen, 0)) ELSE OmitX
    [] d.kind = "UtlsCompressCertExtension" -> IF 2 * Len(d.f.Algorithms) > 255 THEN RefuseX ELSE OkX(27, Vec8(XU16List(d.f.Algorithms)))
    [] d.kind = "KeyShareExtension" -> OkX(51, Vec16(XFlat([i \in DOMAIN d.f.KeyShares |-> U16(d.f.KeyShares[i].Group) \o Vec16(d.f.KeyShares[i].Data)])))
    [] d.kind = "QUICTransportParametersExtension" ->
         IF \A i \in DOMAIN d.f.TransportParameters : TPDeterministic(d.f.TransportParameters[i])
         THEN OkX(57, XFlat([i \in DOMAIN d.f.TransportParameters |-> TPWire(d.f.TransportParameters[i])]))
         ELSE HoleX(57)
    [] d.kind = "PSKKeyExchangeModesExtension" -> IF Len(d.f.Modes) > 255 THEN RefuseX ELSE OkX(45, Vec8(d.f.Modes))
    [] d.kind = "SupportedVersionsExtension" -> IF 2 * Len(d.f.Versions) > 255 THEN RefuseX ELSE OkX(43, Vec8(XU16List(d.f.Versions)))
    [] d.kind = "CookieExtension" -> OkX(44, Vec16(d.f.Cookie))
    [] d.kind = "RenegotiationInfoExtension" -> OkX(65281, Vec8(d.f.RenegotiatedConnection))
    [] d.kind = "FakeRecordSizeLimitExtension" -> OkX(28, U16(d.f.Limit))
    [] d.kind = "FakeTokenBindingExtension" -> OkX(24, <<d.f.MajorVersion, d.f.MinorVersion>> \o Vec8(d.f.KeyParameters))
    [] d.kind = "UtlsPreSharedKeyExtension" -> IF d.f.OmitEmptyPsk THEN OmitX ELSE RefuseX     \* no session: nothing to offer
    [] d.kind = "FakePreSharedKeyExtension" ->
         IF \E i \in DOMAIN d.f.Binders : Len(d.f.Binders[i]) \notin HashLens THEN RefuseX     \* not a binder of any TLS 1.3 hash
         ELSE IF d.f.Identities = <<>> \/ d.f.Binders = <<>> THEN (IF d.f.OmitEmptyPsk THEN OmitX ELSE RefuseX)
         ELSE OkX(41, Vec16(PskIdsBytes(d.f.Identities)) \o Vec16(PskBindersBytes(d.f.Binders)))
    [] d.kind = "GREASEEncryptedClientHelloExtension" -> HoleX(65037)
    [] d.kind = "SessionTicketExtension" -> OkX(35, d.f.Ticket)
    [] OTHER -> [st |-> "unknown-kind", det |-> TRUE, type |-> 0, body |-> <<>>]

\* bytes of a whole extension are framed: type, u16 length, body
Framed(w, t) == Len(w) >= 4 /\ RdU16(w, 1) = t /\ RdU16(w, 3) = Len(w) - 4
BodyOf(w) == SubSeq(w, 5, Len(w))

\* judgement of the bytes of a non-deterministic kind
HoleOK(d, w) ==
  CASE d.kind = "GREASEEncryptedClientHelloExtension" -> Framed(w, 65037) /\ EchBodyOK(BodyOf(w), d.f)
    [] d.kind = "QUICTransportParametersExtension" ->
         /\ Framed(w, 57)
         /\ LET es == TPParse(BodyOf(w), 1) IN
              /\ Len(es) = Len(d.f.TransportParameters)
              /\ \A i \in DOMAIN es : TPMatches(es[i], ToTP(d.f.TransportParameters[i]))
    [] OTHER -> FALSE

WireOK(d, w) == LET x == XEnc(d) IN IF x.det THEN w = Ext(x.type, x.body) ELSE HoleOK(d, w)

\* ---------- wire limits of the grammar, stated on the descriptor ----------
LenIn(s, lo, hi) == Len(s) >= lo /\ Len(s) <= hi
ProtosInLimits(ps) == /\ Len(ps) >= 1 /\ \A i \in DOMAIN ps : LenIn(ps[i], 1, 255)
                      /\ SeqSum([i \in DOMAIN ps |-> 1 + Len(ps[i])]) <= 65533
TPInLimits(e) == ~TPRefused(ToTP(e))
InLimits(d) ==
  CASE d.kind = "SNIExtension" -> LenIn(SNIHost(d.f.ServerName), 1, 65530)                   \* HostName<1..2^16-1> inside ServerNameList inside the extension
    [] d.kind \in {"StatusRequestExtension", "StatusRequestV2Extension", "SCTExtension", "ExtendedMasterSecretExtension",
                   "NPNExtension", "FakeChannelIDExtension", "FakeRecordSizeLimitExtension", "UtlsPreSharedKeyExtension"} -> TRUE
    [] d.kind = "SupportedCurvesExtension" -> LenIn(d.f.Curves, 1, 32766)                     \* NamedGroupList<2..2^16-1>, body <= 2^16-1
    [] d.kind = "SupportedPointsExtension" -> LenIn(d.f.SupportedPoints, 1, 255)             \* ECPointFormatList<1..2^8-1>
    [] d.kind \in {"SignatureAlgorithmsExtension", "SignatureAlgorithmsCertExtension", "FakeDelegatedCredentialsExtension"} ->
         LenIn(d.f.SupportedSignatureAlgorithms, 1, 32766)                                   \* SignatureSchemeList<2..2^16-2>
    [] d.kind = "ALPNExtension" -> ProtosInLimits(d.f.AlpnProtocols)                         \* ProtocolNameList<2..2^16-1> of ProtocolName<1..2^8-1>
    [] d.kind \in {"ApplicationSettingsExtension", "ApplicationSettingsExtensionNew"} -> ProtosInLimits(d.f.SupportedProtocols)
    [] d.kind = "GenericExtension" -> LenIn(d.f.Data, 0, 65535)
    [] d.kind = "UtlsGREASEExtension" -> LenIn(d.f.Body, 0, 65535)
    [] d.kind = "UtlsPaddingExtension" -> d.f.WillPad => d.f.PaddingLen \in 0..65535
    [] d.kind = "UtlsCompressCertExtension" -> LenIn(d.f.Algorithms, 1, 127)                 \* algorithms<2..2^8-2>
    [] d.kind = "KeyShareExtension" ->                                                       \* client_shares<0..2^16-1>, key_exchange<1..2^16-1>, no group twice
         /\ \A i \in DOMAIN d.f.KeyShares : LenIn(d.f.KeyShares[i].Data, 1, 65535)
         /\ SeqSum([i \in DOMAIN d.f.KeyShares |-> 4 + Len(d.f.KeyShares[i].Data)]) <= 65533
         /\ \A i, j \in DOMAIN d.f.KeyShares : i # j => d.f.KeyShares[i].Group # d.f.KeyShares[j].Group
    [] d.kind = "QUICTransportParametersExtension" -> \A i \in DOMAIN d.f.TransportParameters : TPInLimits(d.f.TransportParameters[i])
    [] d.kind = "PSKKeyExchangeModesExtension" -> LenIn(d.f.Modes, 1, 255)                   \* ke_modes<1..255>
    [] d.kind = "SupportedVersionsExtension" -> LenIn(d.f.Versions, 1, 127)                  \* versions<2..254>
    [] d.kind = "CookieExtension" -> LenIn(d.f.Cookie, 1, 65533)                             \* cookie<1..2^16-1>
    [] d.kind = "RenegotiationInfoExtension" -> LenIn(d.f.RenegotiatedConnection, 0, 255)
    [] d.kind = "FakeTokenBindingExtension" -> LenIn(d.f.KeyParameters, 1, 255)              \* key_parameters_list<1..2^8-1>
    [] d.kind = "FakePreSharedKeyExtension" ->                                               \* identities<7..2^16-1>, binders<33..2^16-1>, one binder per identity
         /\ Len(d.f.Identities) >= 1 /\ Len(d.f.Identities) = Len(d.f.Binders)
         /\ \A i \in DOMAIN d.f.Identities : LenIn(d.f.Identities[i].Label, 1, 65535)
         /\ \A i \in DOMAIN d.f.Binders : Len(d.f.Binders[i]) \in HashLens
         /\ SeqSum([i \in DOMAIN d.f.Identities |-> 6 + Len(d.f.Identities[i].Label)]) <= 65535
    [] d.kind = "GREASEEncryptedClientHelloExtension" ->
         /\ \A s \in EchSuites(d.f) : s[1] \in {1, 2, 3} /\ s[2] \in {1, 2, 3}                 \* registered HPKE KDF / AEAD ids
         /\ LenIn(d.f.EncapsulatedKey, 0, 60000)
         /\ \A n \in EchPayloadLens(d.f) : n >= 1 /\ n <= 5000
    [] d.kind = "SessionTicketExtension" -> LenIn(d.f.Ticket, 0, 65535)
    [] OTHER -> FALSE

\* an extension body is at most 2^16-1 bytes (the length field of the extension header)
FitsHeader(d) == LET x == XEnc(d) IN x.st = "ok" /\ x.det => Len(x.body) <= 65535

\* ---------- documented normalisations of the decoders ----------
UnG(v) == IF IsGrease16(v) THEN GREASE ELSE v
NormDesc(d) ==
  CASE d.kind = "SNIExtension" -> [d EXCEPT !.f.ServerName = <<>>]                           \* the name is user controlled, never copied from a capture
    [] d.kind = "SupportedCurvesExtension" -> [d EXCEPT !.f.Curves = [i \in DOMAIN d.f.Curves |-> UnG(d.f.Curves[i])]]
    [] d.kind = "SupportedVersionsExtension" -> [d EXCEPT !.f.Versions = [i \in DOMAIN d.f.Versions |-> UnG(d.f.Versions[i])]]
    [] d.kind = "KeyShareExtension" ->
         [d EXCEPT !.f.KeyShares = [i \in DOMAIN d.f.KeyShares |->
              [Group |-> UnG(d.f.KeyShares[i].Group),
               Data |-> IF IsGrease16(d.f.KeyShares[i].Group) THEN d.f.KeyShares[i].Data ELSE <<>>]]]   \* real shares are generated per connection
    [] d.kind = "UtlsGREASEExtension" -> [d EXCEPT !.f.Value = GREASE]
    [] d.kind = "UtlsPaddingExtension" -> [kind |-> d.kind, f |-> [PaddingLen |-> 0, WillPad |-> FALSE], style |-> "boring", padto |-> 0]
    [] d.kind = "RenegotiationInfoExtension" -> [d EXCEPT !.f = [Renegotiation |-> 1, RenegotiatedConnection |-> <<>>]]   \* body ignored
    [] d.kind = "UtlsPreSharedKeyExtension" -> [d EXCEPT !.f.OmitEmptyPsk = FALSE]           \* body ignored
    [] d.kind = "FakePreSharedKeyExtension" -> [d EXCEPT !.f.OmitEmptyPsk = FALSE]
    [] d.kind = "SessionTicketExtension" -> [d EXCEPT !.f = [Ticket |-> <<>>, Initialized |-> FALSE]]   \* ticket dropped
    [] OTHER -> d

\* ECH GREASE: config id, key and payload bytes are regenerated at the same sizes, the (kdf, aead) pair is kept
EchRoundTrip(w1, w2) ==
  LET p == EchParse(BodyOf(w1))
      q == EchParse(BodyOf(w2)) IN
  /\ Framed(w2, 65037) /\ p.ok /\ q.ok /\ q.chtype = 0
  /\ q.kdf = p.kdf /\ q.aead = p.aead /\ Len(q.enc) = Len(p.enc) /\ q.plen = p.plen

\* kinds whose exported fields after Write can be compared with NormDesc field by field
PlainKinds == {"SNIExtension", "SupportedCurvesExtension", "SupportedPointsExtension", "SignatureAlgorithmsExtension",
               "SignatureAlgorithmsCertExtension", "FakeDelegatedCredentialsExtension", "ALPNExtension", "ApplicationSettingsExtension",
               "ApplicationSettingsExtensionNew", "UtlsGREASEExtension", "UtlsPaddingExtension", "UtlsCompressCertExtension",
               "KeyShareExtension", "PSKKeyExchangeModesExtension", "SupportedVersionsExtension", "RenegotiationInfoExtension",
               "FakeChannelIDExtension", "FakeRecordSizeLimitExtension", "FakeTokenBindingExtension", "SessionTicketExtension"}

\* padding policy named by a descriptor's style (C05 owns the policy; here only that Update applies it)
PadAfterUpdate(style, padto, old, u) ==
  CASE style = "boring" -> IF BoringPadBody(u) = -1 THEN [WillPad |-> FALSE, PaddingLen |-> 0] ELSE [WillPad |-> TRUE, PaddingLen |-> BoringPadBody(u)]
    [] style = "padto" -> IF u < padto THEN [WillPad |-> TRUE, PaddingLen |-> IF padto - u >= 5 THEN padto - u - 4 ELSE 1]
                          ELSE [WillPad |-> FALSE, PaddingLen |-> 0]
    [] OTHER -> old

\* ---------- the verdict on one harness event ----------
P(cond, tag) == IF cond THEN {} ELSE {tag}
T(cond, tag) == IF cond THEN {tag} ELSE {}

\* one Read observation ob of an object described by d whose logged Len() is L
ReadProblems(d, L, ob) ==
  LET x == XEnc(d) IN
  IF ob.panic # "" THEN {"read-panic"}
  ELSE IF x.st = "omit" THEN P(ob.n = 0 /\ ob.err = "EOF", "omitted-but-read") \cup P(ob.dirty = 0, "omitted-but-wrote")
  ELSE IF x.st = "refuse" THEN P(ob.n = 0 /\ ob.err \notin {"", "EOF"}, "unencodable-not-refused")
  ELSE IF ob.size < L THEN P(ob.n = 0 /\ ob.err = "short", "short-buffer")
  ELSE P(ob.n = L, "read-n-vs-len") \cup P(ob.err \in {"", "EOF"}, "read-err")
       \cup (IF ob.n = Len(ob.bytes) /\ ob.n >= 4 THEN P(WireOK(d, ob.bytes), "read-bytes") \cup P(Framed(ob.bytes, RdU16(ob.bytes, 1)), "inner-length")
             ELSE {"read-nothing"})
       \cup P(ob.dirty = 0, "overrun")
ReadTags(d, L, ob) ==
  LET x == XEnc(d) IN
  IF x.st = "omit" THEN {"omit"} ELSE IF x.st = "refuse" THEN {"refuse"}
  ELSE IF ob.size < L THEN {"short:" \o ob.rel} ELSE {"full:" \o ob.rel} \cup T(~x.det, "hole")

LenProblems(d, L) ==
  LET x == XEnc(d) IN
  IF x.st = "omit" THEN P(L = 0, "len-of-omitted")
  ELSE IF x.st = "ok" /\ x.det THEN P(L = 4 + Len(x.body), "len")
  ELSE {}

FullRead(ev) == LET I == {i \in DOMAIN ev.reads : ev.reads[i].rel = "L"} IN IF I = {} THEN [n |-> -1, bytes |-> <<>>] ELSE ev.reads[CHOOSE i \in I : TRUE]

\* decode half: only for descriptors inside the wire limits whose encoder produced bytes
WriteProblems(d, ev) ==
  IF ~ev.wrote THEN {}
  ELSE IF ev.wpanic # "" THEN {"write-panic"}
  ELSE IF ~(InLimits(d) /\ XEnc(d).st = "ok" /\ FitsHeader(d)) THEN {}
  ELSE IF ev.werr # "" THEN {"decoder-refuses-own-encoding"}
  ELSE LET nd == NormDesc(d) IN
       IF d.kind = "GREASEEncryptedClientHelloExtension"
       THEN P(ev.read2.panic = "" /\ ev.read2.n = ev.len2 /\ ev.read2.n = Len(ev.read2.bytes) /\ ev.read2.dirty = 0
              /\ EchRoundTrip(FullRead(ev).bytes, ev.read2.bytes), "reencode-ech")
       ELSE { "re" \o p : p \in LenProblems(nd, ev.len2) \cup ReadProblems(nd, ev.len2, ev.read2) }
            \cup (IF d.kind \in PlainKinds THEN P(ev.desc2.f = nd.f, "decoded-fields") ELSE {})
            \cup (IF d.kind = "UtlsPaddingExtension" THEN P(ev.desc2.style = "boring", "padding-style") ELSE {})

UpdateProblems(d, ev) ==
  IF d.kind # "UtlsPaddingExtension" THEN {}
  ELSE UNION { LET u == ev.updates[i]
                   style == IF u.onfresh THEN "boring" ELSE d.style
                   prev == IF i = 1 THEN (IF u.onfresh THEN [WillPad |-> FALSE, PaddingLen |-> 0] ELSE [WillPad |-> d.f.WillPad, PaddingLen |-> d.f.PaddingLen])
                           ELSE [WillPad |-> ev.updates[i-1].len > 0, PaddingLen |-> IF ev.updates[i-1].len > 0 THEN ev.updates[i-1].len - 4 ELSE 0]
                   want == PadAfterUpdate(style, d.padto, prev, u.u)
                   nd == [kind |-> d.kind, f |-> want]
               IN { "upd-" \o p : p \in LenProblems(nd, u.len) \cup ReadProblems(nd, u.len, u.read) }
             : i \in DOMAIN ev.updates }

Judge(d, ev) ==
  IF ~ev.built THEN [bad |-> {"harness-could-not-build"}, tags |-> {}]
  ELSE IF ev.lenpanic # "" THEN [bad |-> {"len-panic"}, tags |-> {}]
  ELSE [bad |-> LenProblems(d, ev.len)
                \cup UNION {ReadProblems(d, ev.len, ev.reads[i]) : i \in DOMAIN ev.reads}
                \cup WriteProblems(d, ev) \cup UpdateProblems(d, ev),
        tags |-> UNION {ReadTags(d, ev.len, ev.reads[i]) : i \in DOMAIN ev.reads}
                 \cup T(ev.wrote /\ InLimits(d) /\ XEnc(d).st = "ok", "roundtrip") \cup T(ev.wrote /\ ~InLimits(d), "write-outside-limits")
                 \cup T(ev.updates # <<>>, "update")]
=============================================================================
