------------------------------ MODULE Roller_Scn -----------------------------
(* Scenario emission for C29: the environment's choices of a Roller behaviour (configured set, preset working ID,
   per step: accept set, treatment of randomized hellos, TCP failure, number of concurrent callers) are logged in hist
   and printed whenever a step has finished.  Run with -simulate (random histories) or exhaustively with MaxSteps = 1. *)
EXTENDS Roller, Json
VARIABLES hist
SetToSeq(S) == CHOOSE s \in [1..Cardinality(S) -> S] : \A i, j \in 1..Cardinality(S) : i # j => s[i] # s[j]
MCInit == Init /\ hist = [configured |-> SetToSeq({x[1] : x \in configured}), preset |-> working[1], steps |-> << >>]
MCBegin(acc, stl, rm, tf, n) == BeginStep(acc, stl, rm, tf, n) /\
   hist' = [hist EXCEPT !.steps = Append(@, [accept |-> SetToSeq(acc), stall |-> SetToSeq(stl), rmode |-> rm, tcpfail |-> tf, n |-> n])]
\* with a TCP failure the server setting is immaterial: only one representative is emitted
MCNext == \/ \E acc \in SUBSET (IDs \ RandIDs) : \E stl \in Stalls : \E rm \in RModes : \E tf \in BOOLEAN : \E n \in Callers :
               (tf => (acc = {} /\ stl = {} /\ rm = "refuse")) /\ MCBegin(acc, stl, rm, tf, n)
          \/ (\E c \in Callers : CallerStep(c)) /\ UNCHANGED hist
Terminal == AllIdle /\ nsteps >= 1
EmitScn == Terminal => PrintT(<<"SCN", ToJson(hist)>>)
=============================================================================
