CONSTANT LockBeforeClear = TRUE
INIT InitMC
NEXT NextMC
VIEW View
INVARIANT SafetyReneg
