-------------------------- MODULE UConnConcPost_MC --------------------------
(* Bounded exhaustive exploration of the post-handshake phase: NKU key updates (requested or not, any
   order), NWR writes, data and close from the peer at any time, every interleaving with the reader and
   the writer.  UConnConcPost_MC.cfg: the mechanism as coded (AtomicReply = TRUE) satisfies SafetyPost.
   UConnConcPost_Mut.cfg: with the reply and the rotation in separate steps (AtomicReply = FALSE) TLC
   must find a violation - the non-vacuity check of the invariants. *)
EXTENDS UConnConcPost
CONSTANTS NKU, NWR
InitMC == InitWith([nku |-> NKU, nwr |-> NWR, deadline |-> 0, slack |-> 0])
NextMC ==
  \/ Tau
  \/ \E req \in BOOLEAN : kuSent < NKU /\ Len(s2c) < 3 /\ SrvKU(req)
  \/ Len(s2c) < 3 /\ SrvData
  \/ kuSent = NKU /\ SrvClose
  \/ wN < NWR /\ WCall(wN + 1, wN + 1)
  \/ WRet(wN)
  \/ RCall \/ RRet("data") \/ RRet("eof")
  \/ \E id \in 1..NWR : Got(id, id)
Finished == rpc = "done" /\ wpc = "idle" /\ wN = NWR /\ c2s = <<>>
Done == Finished /\ UNCHANGED vars
NextD == NextMC \/ Done
AtEnd == Finished => AllDelivered
=============================================================================
