------------------------------- MODULE C02_MC -------------------------------
(***************************************************************************)
(* C02 - every ClientHello utls emits is syntactically valid TLS.          *)
(* Scenario generation and the model-level half of the check.              *)
(*                                                                         *)
(* Mode "sel": TLC enumerates custom ClientHelloSpecs: every ORDERED        *)
(* selection of at most MaxSel extension kinds (each kind at most once)    *)
(* out of all built-in kinds, field shapes from a small in-limits alphabet *)
(* {shortest list, several entries, maximal-length element}.  With         *)
(* AllShapes every member takes every shape (run with MaxSel = 2); without *)
(* it a shape rotating with position and Seed (run with MaxSel = 3 / 4,    *)
(* selections of >= 3 kinds are emitted), and (TripleMod, QuadMod) thin    *)
(* the third / fourth level by a Seed-dependent residue class.             *)
(* One state = one spec = one scenario.                                    *)
(* Mode "cap": crafted-but-valid captures with boundary values, encoded by *)
(* the TLA+ reference encoders (EncodeRecord) - e.g. a GREASE ECH          *)
(* extension with a 1..5 byte payload - to be fingerprinted by the library.*)
(* Mode "cfg": the grid of Config variations; mode "sweep": server names   *)
(* of every length 1..260 (padding boundaries); mode "var": edits of a     *)
(* built hello followed by a second marshal, HelloRetryRequest variations. *)
(*                                                                         *)
(* Model-level invariants (consistency of the two halves of TLSWire and of *)
(* ExtCodec): every shape is InLimits; every reference-encoded descriptor  *)
(* is valid under ValidBody; the reference hello assembled from a          *)
(* selection parses back (ParseHello) to exactly the encoded extensions and*)
(* is ValidClientHello iff pre_shared_key is last; every capture is valid. *)
(***************************************************************************)
EXTENDS ExtCodec

CONSTANTS Seed, Mode, MaxSel, AllShapes, TripleMod, QuadMod

H2 == <<104, 50>>
HTTP11 == <<104, 116, 116, 112, 47, 49, 46, 49>>
EXAMPLE == <<101, 120, 97, 109, 112, 108, 101, 46, 99, 111, 109>>
SB == Seed % 251
B8(n) == NatB8(n)

KindSeq == << "SNIExtension", "StatusRequestExtension", "SupportedCurvesExtension", "SupportedPointsExtension",
   "SignatureAlgorithmsExtension", "StatusRequestV2Extension", "SignatureAlgorithmsCertExtension", "ALPNExtension",
   "ApplicationSettingsExtension", "ApplicationSettingsExtensionNew", "SCTExtension", "GenericExtension",
   "ExtendedMasterSecretExtension", "UtlsGREASEExtension", "UtlsPaddingExtension", "UtlsCompressCertExtension",
   "KeyShareExtension", "QUICTransportParametersExtension", "PSKKeyExchangeModesExtension", "SupportedVersionsExtension",
   "CookieExtension", "NPNExtension", "RenegotiationInfoExtension", "FakeChannelIDExtension", "FakeRecordSizeLimitExtension",
   "FakeTokenBindingExtension", "FakeDelegatedCredentialsExtension", "UtlsPreSharedKeyExtension", "FakePreSharedKeyExtension",
   "GREASEEncryptedClientHelloExtension", "SessionTicketExtension" >>
NK == Len(KindSeq)

D(k, f) == [kind |-> k, f |-> f]
Pad(f, style, padto) == [kind |-> "UtlsPaddingExtension", f |-> f, style |-> style, padto |-> padto]
SigShapes(k) == << D(k, [SupportedSignatureAlgorithms |-> <<1027>>]),
                   D(k, [SupportedSignatureAlgorithms |-> <<1027, 2052, 1025, 1283, 2053, 1281, 2054, 1537>>]) >>
\* in-limits descriptors of every kind: shortest / several / maximal-length element
Shapes(k) ==
  CASE k = "SNIExtension" -> << D(k, [ServerName |-> <<>>]) >>                       \* the name comes from Config.ServerName
    [] k \in {"StatusRequestExtension", "StatusRequestV2Extension", "SCTExtension", "ExtendedMasterSecretExtension", "NPNExtension"} -> << [kind |-> k] >>
    [] k = "SupportedCurvesExtension" -> << D(k, [Curves |-> <<29>>]), D(k, [Curves |-> <<2570, 29, 23, 24, 25497>>]) >>
    [] k = "SupportedPointsExtension" -> << D(k, [SupportedPoints |-> <<0>>]), D(k, [SupportedPoints |-> <<0, 1, 2>>]) >>
    [] k \in {"SignatureAlgorithmsExtension", "SignatureAlgorithmsCertExtension", "FakeDelegatedCredentialsExtension"} -> SigShapes(k)
    [] k = "ALPNExtension" -> << D(k, [AlpnProtocols |-> <<H2>>]), D(k, [AlpnProtocols |-> <<H2, HTTP11>>]), D(k, [AlpnProtocols |-> <<XRep(255, 97)>>]) >>
    [] k \in {"ApplicationSettingsExtension", "ApplicationSettingsExtensionNew"} ->
         << D(k, [SupportedProtocols |-> <<H2>>]), D(k, [SupportedProtocols |-> <<H2, XRep(255, 98)>>]) >>
    [] k = "GenericExtension" -> << D(k, [Id |-> 4660, Data |-> <<>>]), D(k, [Id |-> 4660, Data |-> <<1, 2, 3>>]), D(k, [Id |-> 4660, Data |-> XRep(300, SB)]) >>
    [] k = "UtlsGREASEExtension" -> << D(k, [Value |-> 2570, Body |-> <<>>]), D(k, [Value |-> 2570, Body |-> <<0>>]) >>
    [] k = "UtlsPaddingExtension" -> << Pad([PaddingLen |-> 0, WillPad |-> FALSE], "boring", 0), Pad([PaddingLen |-> 0, WillPad |-> TRUE], "none", 0),
                                        Pad([PaddingLen |-> 100, WillPad |-> TRUE], "none", 0), Pad([PaddingLen |-> 0, WillPad |-> FALSE], "padto", 600) >>
    [] k = "UtlsCompressCertExtension" -> << D(k, [Algorithms |-> <<2>>]), D(k, [Algorithms |-> <<1, 2, 3>>]) >>
    [] k = "KeyShareExtension" -> << D(k, [KeyShares |-> <<[Group |-> 29, Data |-> <<>>]>>]),
                                     D(k, [KeyShares |-> <<[Group |-> 2570, Data |-> <<0>>], [Group |-> 29, Data |-> <<>>], [Group |-> 23, Data |-> <<>>]>>]),
                                     D(k, [KeyShares |-> <<[Group |-> 25497, Data |-> <<>>], [Group |-> 29, Data |-> <<>>]>>]),
                                     D(k, [KeyShares |-> <<[Group |-> 256, Data |-> XRep(256, SB)]>>]) >>
    [] k = "QUICTransportParametersExtension" ->
         << D(k, [TransportParameters |-> <<[kind |-> "MaxIdleTimeout", v |-> B8(30000)]>>]),
            D(k, [TransportParameters |-> <<[kind |-> "InitialMaxData", v |-> B8(1073741823)], [kind |-> "DisableActiveMigration"],
                                             [kind |-> "InitialSourceConnectionID", v |-> <<>>],
                                             [kind |-> "GREASETransportParameter", f |-> [IdOverride |-> B8(0), Length |-> 4, ValueOverride |-> <<>>]],
                                             [kind |-> "VersionInformation", f |-> [ChoosenVersion |-> <<0, 0, 0, 1>>, AvailableVersions |-> <<<<10, 10, 10, 10>>, <<0, 0, 0, 1>>>>, LegacyID |-> FALSE]]>>]) >>
    [] k = "PSKKeyExchangeModesExtension" -> << D(k, [Modes |-> <<1>>]), D(k, [Modes |-> <<0, 1>>]) >>
    [] k = "SupportedVersionsExtension" -> << D(k, [Versions |-> <<772>>]), D(k, [Versions |-> <<2570, 772, 771>>]), D(k, [Versions |-> <<771, 770>>]) >>
    [] k = "CookieExtension" -> << D(k, [Cookie |-> <<1>>]), D(k, [Cookie |-> XRep(255, SB)]) >>
    [] k = "RenegotiationInfoExtension" -> << D(k, [Renegotiation |-> 1, RenegotiatedConnection |-> <<>>]), D(k, [Renegotiation |-> 0, RenegotiatedConnection |-> <<>>]) >>
    [] k = "FakeChannelIDExtension" -> << D(k, [OldExtensionID |-> FALSE]), D(k, [OldExtensionID |-> TRUE]) >>
    [] k = "FakeRecordSizeLimitExtension" -> << D(k, [Limit |-> 16385]) >>
    [] k = "FakeTokenBindingExtension" -> << D(k, [MajorVersion |-> 1, MinorVersion |-> 0, KeyParameters |-> <<2>>]),
                                             D(k, [MajorVersion |-> 0, MinorVersion |-> 13, KeyParameters |-> <<0, 1, 2>>]) >>
    [] k = "UtlsPreSharedKeyExtension" -> << D(k, [OmitEmptyPsk |-> FALSE]) >>
    [] k = "FakePreSharedKeyExtension" ->
         << D(k, [Identities |-> <<[Label |-> <<1>>, ObfuscatedTicketAge |-> <<0, 0, 0, 1>>]>>, Binders |-> <<XRep(32, SB)>>, OmitEmptyPsk |-> FALSE]),
            D(k, [Identities |-> <<[Label |-> XRep(200, 7), ObfuscatedTicketAge |-> <<255, 255, 255, 255>>], [Label |-> <<1, 2>>, ObfuscatedTicketAge |-> <<0, 0, 0, 0>>]>>,
                  Binders |-> <<XRep(48, 1), XRep(32, 2)>>, OmitEmptyPsk |-> FALSE]) >>
    [] k = "GREASEEncryptedClientHelloExtension" ->
         << D(k, [CandidateCipherSuites |-> <<>>, CandidateConfigIds |-> <<>>, EncapsulatedKey |-> <<>>, CandidatePayloadLens |-> <<>>]),
            D(k, [CandidateCipherSuites |-> <<[KdfId |-> 1, AeadId |-> 1], [KdfId |-> 1, AeadId |-> 3]>>, CandidateConfigIds |-> <<>>,
                  EncapsulatedKey |-> <<>>, CandidatePayloadLens |-> <<128, 160, 192, 224>>]),
            D(k, [CandidateCipherSuites |-> <<[KdfId |-> 2, AeadId |-> 2]>>, CandidateConfigIds |-> <<9>>, EncapsulatedKey |-> <<1, 2, 3>>, CandidatePayloadLens |-> <<0>>]) >>
    [] k = "SessionTicketExtension" -> << D(k, [Ticket |-> <<>>, Initialized |-> FALSE]) >>
NS(k) == Len(Shapes(KindSeq[k]))
ShapeTable == [k \in 1..NK |-> Shapes(KindSeq[k])]

\* ---------- reference hello ----------
SuitesDefault == <<2570, 4865, 4866, 4867, 49195, 49199, 52393, 52392, 49196, 49200, 156, 157, 47, 53>>
Rnd32(b) == [i \in 1..32 |-> (b + 7 * i) % 256]
\* exts: sequence of [type, body]
EncodeHello(vers, sid, suites, comp, exts, hasExts) ==
  LET eb == XFlat([i \in DOMAIN exts |-> Ext(exts[i].type, exts[i].body)])
      body == U16(vers) \o Rnd32(SB) \o Vec8(sid) \o Vec16(XU16List(suites)) \o Vec8(comp) \o (IF hasExts THEN Vec16(eb) ELSE <<>>)
  IN <<1>> \o U24(Len(body)) \o body
EncodeRecord(msg) == <<22, 3, 1>> \o U16(Len(msg)) \o msg

\* ---------- mode "sel": custom specs ----------
VARIABLE sel      \* sequence of <<kind index, shape index>>
SelKinds(s) == {s[i][1] : i \in DOMAIN s}
Hash(s) == SeqSum([i \in DOMAIN s |-> s[i][1] * (i * i + 3 * i + 1) + s[i][2]])
RotShape(s, k) == 1 + ((k + Len(s) + Seed) % NS(k))
ShapeChoices(s, k) == IF AllShapes THEN (1 .. NS(k)) ELSE {RotShape(s, k)}
MayExtend(s) == /\ Len(s) < MaxSel
                /\ (Len(s) = 3 => Hash(s) % QuadMod = Seed % QuadMod)
Keep(s) == Len(s) = 3 => Hash(s) % TripleMod = Seed % TripleMod
DescOf(p) == ShapeTable[p[1]][p[2]]
Descs(s) == [i \in DOMAIN s |-> DescOf(s[i])]
VersOf(s) == LET v == (Hash(s) + Seed) % 3 IN
             IF v = 0 THEN <<0, 0>> ELSE IF v = 1 THEN <<771, 771>> ELSE <<769, 772>>

\* ---------- mode "cfg": Config variations ----------
VARIABLE cfg
LongName == XRep(63, 97) \o <<46>> \o XRep(63, 98) \o <<46>> \o XRep(63, 99) \o <<46>> \o XRep(61, 100)    \* 253 bytes
SNIs == << <<>>, EXAMPLE, <<49, 46, 50, 46, 51, 46, 52>>, <<50, 48, 48, 49, 58, 100, 98, 56, 58, 58, 49>>, EXAMPLE \o <<46>>, LongName >>
ALPNs == << <<>>, <<H2>>, [i \in 1..40 |-> <<112, 48 + (i \div 10), 48 + (i % 10)>>] >>
Caches == <<"none", "tls12", "tls13">>
CfgInit == \E s \in DOMAIN SNIs, a \in DOMAIN ALPNs, c \in DOMAIN Caches, o \in BOOLEAN, q \in BOOLEAN :
              cfg = [sni |-> SNIs[s], alpn |-> ALPNs[a], cache |-> Caches[c], omitpsk |-> o, quic |-> q,
                     skipverify |-> (s = 1 \/ c # 1), snikind |-> s, alpnkind |-> a]
\* mode "sweep": DNS names of every length 1..260 (the BoringSSL padding window 0x100..0x1ff is crossed byte by byte)
SweepName(n) == [i \in 1..n |-> IF i % 64 = 0 /\ i < n THEN 46 ELSE 97 + (i % 26)]
SweepInit == \E n \in 1..260 : cfg = [sni |-> SweepName(n), alpn |-> <<>>, cache |-> "none", omitpsk |-> TRUE, quic |-> FALSE,
                                       skipverify |-> FALSE, snikind |-> 2, alpnkind |-> 1]

\* ---------- mode "cap": crafted captures ----------
VARIABLE cap
X(t, b) == [type |-> t, body |-> b]
XD(d) == X(XEnc(d).type, XEnc(d).body)
BaseExts == <<
  XD(D("SNIExtension", [ServerName |-> EXAMPLE])), XD([kind |-> "ExtendedMasterSecretExtension"]),
  XD(D("RenegotiationInfoExtension", [Renegotiation |-> 1, RenegotiatedConnection |-> <<>>])),
  XD(D("SupportedCurvesExtension", [Curves |-> <<6682, 29, 23, 24>>])), XD(D("SupportedPointsExtension", [SupportedPoints |-> <<0>>])),
  XD(D("SessionTicketExtension", [Ticket |-> <<>>, Initialized |-> FALSE])), XD(D("ALPNExtension", [AlpnProtocols |-> <<H2, HTTP11>>])),
  XD([kind |-> "StatusRequestExtension"]), XD(D("SignatureAlgorithmsExtension", [SupportedSignatureAlgorithms |-> <<1027, 2052, 1025>>])),
  XD([kind |-> "SCTExtension"]),
  XD(D("KeyShareExtension", [KeyShares |-> <<[Group |-> 6682, Data |-> <<0>>], [Group |-> 29, Data |-> XRep(32, SB)]>>])),
  XD(D("PSKKeyExchangeModesExtension", [Modes |-> <<1>>])), XD(D("SupportedVersionsExtension", [Versions |-> <<6682, 772, 771>>])),
  XD(D("UtlsCompressCertExtension", [Algorithms |-> <<2>>])), XD(D("ApplicationSettingsExtension", [SupportedProtocols |-> <<H2>>])) >>
EchOuter(kdf, aead, cfgid, enc, payload) == X(65037, <<0>> \o U16(kdf) \o U16(aead) \o <<cfgid>> \o Vec16(enc) \o Vec16(payload))
Psk(ids, binders) == X(41, Vec16(PskIdsBytes(ids)) \o Vec16(PskBindersBytes(binders)))
Without(exts, t) == SelectSeq(exts, LAMBDA e : e.type # t)
\* one boundary extension added to (or replacing its namesake in) the base list
Boundary ==
  [i \in 1..9 |-> EchOuter(1, 1, 7, XRep(32, SB), XRep(<<1, 2, 3, 4, 5, 15, 16, 17, 144>>[i], 3))] \o
  << EchOuter(1, 3, 0, <<>>, <<9>>), EchOuter(3, 2, 255, XRep(32, 1), XRep(5, 2)), X(65037, <<1>>),
     X(21, <<>>), X(21, <<0>>), X(21, XRep(100, 0)),
     X(51, Vec16(<<>>)), X(51, Vec16(U16(6682) \o Vec16(XRep(255, SB)) \o U16(29) \o Vec16(XRep(32, 1)))),
     X(51, Vec16(U16(256) \o Vec16(XRep(256, 2)))), X(51, Vec16(U16(29) \o Vec16(<<5>>))),
     Psk(<<[Label |-> <<1>>, ObfuscatedTicketAge |-> <<0, 0, 0, 0>>]>>, <<XRep(32, SB)>>),
     Psk(<<[Label |-> XRep(100, 4), ObfuscatedTicketAge |-> <<255, 255, 255, 255>>], [Label |-> <<2, 2>>, ObfuscatedTicketAge |-> <<0, 0, 0, 9>>]>>, <<XRep(48, 1), XRep(32, 2)>>),
     Psk(<<[Label |-> <<1, 2, 3>>, ObfuscatedTicketAge |-> <<0, 1, 0, 0>>]>>, <<XRep(255, 6)>>),
     X(27, Vec8(XU16List(XRep(127, 2)))), X(43, Vec8(XU16List(XRep(127, 772)))), X(43, Vec8(U16(771))),
     X(16, Vec16(Vec8(XRep(255, 97)))), X(13, Vec16(U16(1027))), X(44, Vec16(<<1>>)), X(44, Vec16(XRep(255, SB))),
     X(65281, Vec8(XRep(12, 200))), X(35, XRep(100, SB)), X(5, <<1, 0, 3, 0, 1, 65, 0, 0>>),
     X(4660, <<1, 2, 3>>), X(6682, <<0>>), X(2570, <<>>), X(28, U16(16385)), X(34, Vec16(XU16List(<<1027, 2052>>))),
     X(24, <<1, 0>> \o Vec8(<<2>>)), X(30031, <<>>), X(30032, <<>>), X(13172, <<>>), X(17, <<0, 7, 2, 0, 4, 0, 0, 0, 0>>),
     X(57, TPWire([kind |-> "MaxIdleTimeout", v |-> B8(30000)]) \o TPWire([kind |-> "DisableActiveMigration"])),
     X(17613, Vec16(Vec8(H2))), X(50, Vec16(XU16List(<<1027>>))), X(0, Vec16(<<0>> \o Vec16(LongName))), X(11, Vec8(<<0, 1, 2>>)),
     X(10, Vec16(XU16List([i \in 1..100 |-> 256 + i]))), X(45, Vec8(<<0, 1>>)), X(23, <<>>), X(18, <<>>) >>
WithBoundary(b) == IF b.type = 41 THEN BaseExts \o <<b>> ELSE Without(BaseExts, b.type) \o <<b>>
Caps == [i \in DOMAIN Boundary |-> [name |-> <<"base+", Boundary[i].type, i>>, vers |-> 771, sid |-> XRep(32, SB), suites |-> SuitesDefault,
                                    comp |-> <<0>>, exts |-> WithBoundary(Boundary[i]), hasExts |-> TRUE]] \o
        << [name |-> <<"base">>, vers |-> 771, sid |-> XRep(32, SB), suites |-> SuitesDefault, comp |-> <<0>>, exts |-> BaseExts, hasExts |-> TRUE],
           [name |-> <<"no-extensions">>, vers |-> 771, sid |-> <<>>, suites |-> <<47, 53>>, comp |-> <<0>>, exts |-> <<>>, hasExts |-> FALSE],
           [name |-> <<"empty-extension-block">>, vers |-> 771, sid |-> <<>>, suites |-> <<49199>>, comp |-> <<0>>, exts |-> <<>>, hasExts |-> TRUE],
           [name |-> <<"tls12-style">>, vers |-> 771, sid |-> XRep(32, 1), suites |-> <<49195, 49199, 156, 47>>, comp |-> <<0>>,
            exts |-> <<BaseExts[1], BaseExts[2], BaseExts[3], BaseExts[4], BaseExts[5], BaseExts[9]>>, hasExts |-> TRUE],
           [name |-> <<"tls10-style">>, vers |-> 769, sid |-> <<>>, suites |-> <<47, 53, 10>>, comp |-> <<0>>, exts |-> <<BaseExts[1]>>, hasExts |-> TRUE] >>
CapMsg(c) == EncodeHello(c.vers, c.sid, c.suites, c.comp, c.exts, c.hasExts)

\* ---------- mode "var": what happens to a built hello afterwards ----------
\* edit: BuildHandshakeState, then the edit, then MarshalClientHello and Handshake (every Raw is judged);
\* hrr:  a real handshake with a server that only accepts `group` (HelloRetryRequest when the hello carries no share
\*       for it), with a cookie of `cookie` bytes in the HelloRetryRequest (0 = none); both wire hellos are judged.
V(kind, op, name, group, cookie) == [kind |-> kind, op |-> op, name |-> name, group |-> group, cookie |-> cookie]
Variations == <<
  V("edit", "sni", <<97, 46, 105, 111>>, 0, 0),                                   \* a shorter name: everything behind server_name moves up
  V("edit", "sni", XRep(40, 115) \o <<46>> \o EXAMPLE, 0, 0),                     \* a longer name
  V("edit", "sni", <<49, 48, 46, 48, 46, 48, 46, 49>>, 0, 0),                     \* an IP literal: server_name disappears
  V("edit", "sni-remove", <<>>, 0, 0),
  V("edit", "add-ext", <<1, 2, 3, 4, 5>>, 0, 0), V("edit", "add-ext", <<>>, 0, 0),
  V("edit", "del-ext", <<>>, 0, 0), V("edit", "random", <<>>, 0, 0),
  V("hrr", "", <<>>, 24, 0), V("hrr", "", <<>>, 24, 1), V("hrr", "", <<>>, 24, 32), V("hrr", "", <<>>, 24, 255),
  V("hrr", "", <<>>, 23, 0), V("hrr", "", <<>>, 23, 7), V("hrr", "", <<>>, 25, 0), V("hrr", "", <<>>, 25, 64) >>

\* ---------- the three grids ----------
vars == <<sel, cfg, cap>>
Init == /\ sel = <<>>
        /\ IF Mode = "cfg" THEN CfgInit ELSE IF Mode = "sweep" THEN SweepInit ELSE cfg = 0
        /\ IF Mode = "cap" THEN cap \in DOMAIN Caps ELSE IF Mode = "var" THEN cap \in DOMAIN Variations ELSE cap = 0
Next == /\ Mode = "sel" /\ MayExtend(sel)
        /\ \E k \in (1..NK) \ SelKinds(sel) : \E s \in ShapeChoices(sel, k) : Keep(Append(sel, <<k, s>>)) /\ sel' = Append(sel, <<k, s>>)
        /\ UNCHANGED <<cfg, cap>>

Emit == CASE Mode = "sel" -> (Keep(sel) /\ sel # <<>> /\ (AllShapes \/ Len(sel) >= 3)) => PrintT(<<"SEL", ToJson([exts |-> Descs(sel), min |-> VersOf(sel)[1], max |-> VersOf(sel)[2],
                                                                          suites |-> SuitesDefault, comp |-> <<0>>, h |-> Hash(sel)])>>)
          [] Mode \in {"cfg", "sweep"} -> PrintT(<<"CFG", ToJson(cfg)>>)
          [] Mode = "var" -> PrintT(<<"VAR", ToJson([i |-> cap, v |-> Variations[cap]])>>)
          [] Mode = "cap" -> PrintT(<<"CAP", ToJson([name |-> Caps[cap].name, raw |-> EncodeRecord(CapMsg(Caps[cap]))])>>)

\* ---------- model-level invariants ----------
\* what ApplyPreset fills in per connection: the configured name, a fresh share for every group given without data
Filled(d) == CASE d.kind = "SNIExtension" -> [d EXCEPT !.f.ServerName = IF @ = <<>> THEN EXAMPLE ELSE @]
               [] d.kind = "KeyShareExtension" ->
                    [d EXCEPT !.f.KeyShares = [i \in DOMAIN @ |-> IF @[i].Data = <<>> /\ ShareSize(@[i].Group) > 0
                                                                 THEN [Group |-> @[i].Group, Data |-> XRep(ShareSize(@[i].Group), 0)] ELSE @[i]]]
               [] OTHER -> d
ShapesInLimits == \A k \in 1..NK : \A s \in 1..NS(k) : ShapeTable[k][s].kind = KindSeq[k] /\ InLimits(Filled(ShapeTable[k][s])) /\ FitsHeader(Filled(ShapeTable[k][s]))
\* every reference-encoded descriptor is valid under the grammar half of TLSWire
EncodedIsValid == \A i \in DOMAIN sel : LET x == XEnc(Filled(DescOf(sel[i]))) IN (x.st = "ok" /\ x.det) => ValidBody(x.type, x.body)
\* the reference hello of a selection (deterministic, encodable members) parses back to what was encoded
DetExts(s) == LET ds == SelectSeq(Descs(s), LAMBDA d : XEnc(Filled(d)).st = "ok" /\ XEnc(Filled(d)).det) IN [i \in DOMAIN ds |-> XD(Filled(ds[i]))]
RefHello(s) == EncodeHello(771, XRep(32, 1), SuitesDefault, <<0>>, DetExts(s), TRUE)
ParseInvertsEncode ==
  LET h == ParseHello(RefHello(sel)) IN
  /\ h.ok /\ h.hasExts /\ h.vers = 771 /\ h.suites = SuitesDefault /\ h.comp = <<0>> /\ Len(h.sid) = 32
  /\ Len(h.exts) = Len(DetExts(sel))
  /\ \A i \in DOMAIN h.exts : ~h.exts[i].bad /\ h.exts[i].type = DetExts(sel)[i].type /\ h.exts[i].body = DetExts(sel)[i].body
PskLastIn(es) == \A i \in DOMAIN es : es[i].type = 41 => i = Len(es)
NoDupIn(es) == \A i, j \in DOMAIN es : i # j => es[i].type # es[j].type
ValidIffPskLast == ValidClientHello(RefHello(sel)) <=> (PskLastIn(DetExts(sel)) /\ NoDupIn(DetExts(sel)))
CapValid == Mode = "cap" => /\ ValidClientHello(CapMsg(Caps[cap]))
                            /\ WhyInvalid(CapMsg(Caps[cap])) = "valid"
                            /\ Len(CapMsg(Caps[cap])) < 16384
=============================================================================
