---------------------------- MODULE PubViews ----------------------------
(***************************************************************************)
(* C31 - public views of handshake messages convert losslessly            *)
(* (u_public.go:189-676, 804-917; handshake_messages.go marshal/unmarshal).*)
(* Values are reflection dumps (records) and byte strings logged by the    *)
(* harness (pub.go); this module says which of them must be equal.         *)
(* TLA+ is used here as an equality oracle over enumerated inputs.         *)
(***************************************************************************)
EXTENDS Integers, Sequences, FiniteSets, TLC

EqExcept(a, b, nc) == DOMAIN a = DOMAIN b /\ \A f \in DOMAIN a \ nc : a[f] = b[f]
Differing(a, b, nc) == IF DOMAIN a # DOMAIN b THEN {"<fields>"} ELSE {f \in DOMAIN a \ nc : a[f] # b[f]}

\* private fields without a public counterpart (not carried by the view, so the rebuilt private form may lose them)
\*   clientHelloMsg.extensions: "only populated on the server-side of a handshake" (handshake_messages.go:101)
\*   serverHelloMsg.supportedPoints / encryptedClientHello / serverNameAck: absent from PubServerHelloMsg
\*   certificateRequestMsgTLS13.original: CertificateRequestMsgTLS13.Raw "won't be read or used by utls" (u_public.go:190)
NoCounterpart(kind) == CASE kind = "CH" -> {"extensions"}
                         [] kind = "SH" -> {"supportedPoints", "encryptedClientHello", "serverNameAck"}
                         [] kind = "CR" -> {"original"}
                         [] OTHER -> {}

\* The dumps render a nil and an empty slice alike.  Where the encoder tells them apart the difference is a field value:
\* clientHelloMsg.marshal writes quic_transport_parameters iff the field is non-nil ("marshal zero-length parameters when
\* present", handshake_messages.go) - an empty value is an extension with an empty body, nil is no extension.  Every other
\* member is written by length or by its flag, so nil and empty mean the same there.  nils.<dump>[field] = field is nil.
NilSensitivePriv == {"quicTransportParameters"}
NilSensitivePub == {"QuicTransportParameters"}
PrivOf(f) == CASE f = "QuicTransportParameters" -> "quicTransportParameters"
SameNil(a, b, fields) == \A f \in fields : a[f] = b[f]
CHPresenceFails(ev) ==
  LET n == ev.nils IN
     (IF SameNil(n.privA, n.privB, NilSensitivePriv) THEN {} ELSE {"private-public-private-loses-presence"})
  \cup (IF SameNil(n.pub, n.pub2, NilSensitivePub) THEN {} ELSE {"public-private-public-loses-presence"})
  \cup (IF \A f \in NilSensitivePub : n.pub[f] = n.privA[PrivOf(f)] THEN {} ELSE {"view-loses-presence"})
  \cup (IF SameNil(n.pub, n.pub3, NilSensitivePub) THEN {} ELSE {"reparse-after-clearing-raw-loses-presence"})

\* ClientHello: Unmarshal+Marshal reproduces the input; both conversion directions are lossless; after clearing Raw,
\* marshal + parse yields the same fields (and a stable encoding).
CHFails(ev) ==
     (IF ev.m = ev.raw THEN {} ELSE {"unmarshal-marshal-differs"})
  \cup (IF EqExcept(ev.privA, ev.privB, NoCounterpart("CH")) THEN {} ELSE {"private-public-private-lossy"})
  \cup (IF ev.pub = ev.pub2 THEN {} ELSE {"public-private-public-lossy"})
  \cup (IF ev.pub.Raw = ev.raw THEN {} ELSE {"raw-not-kept"})
  \cup (IF EqExcept(ev.pub, ev.pub3, {"Raw"}) THEN {} ELSE {"reparse-after-clearing-raw-differs"})
  \cup (IF ev.pub3.Raw = ev.m2 /\ ev.m3 = ev.m2 THEN {} ELSE {"re-encoding-not-stable"})
  \cup CHPresenceFails(ev)
CHDetail(ev) == [privdiff |-> Differing(ev.privA, ev.privB, NoCounterpart("CH")), pubdiff |-> Differing(ev.pub, ev.pub2, {}),
                 reparsediff |-> Differing(ev.pub, ev.pub3, {"Raw"})]

\* ServerHello / CertificateRequest (TLS 1.3) built from enumerated field values
MsgFails(kind, ev) ==
     (IF EqExcept(ev.pub, ev.pub2, IF kind = "CR" THEN {"Raw"} ELSE {}) THEN {} ELSE {"public-private-public-lossy"})
  \cup (IF kind = "CR" /\ ev.pub2.Raw # ev.s1 THEN {"raw-not-populated"} ELSE {})
  \cup (IF ev.q.Raw = ev.s1 THEN {} ELSE {"raw-not-kept"})
  \cup (IF EqExcept(ev.privA, ev.privB, NoCounterpart(kind)) THEN {} ELSE {"private-public-private-lossy"})
  \cup (IF ev.s1 = ev.s2 /\ EqExcept(ev.q, ev.q2, {}) THEN {} ELSE {"reparse-after-clearing-raw-differs"})
  \cup (IF kind = "CR" /\ ~EqExcept(ev.pub, ev.q, {"Raw"}) THEN {"fields-lost-on-the-wire"} ELSE {})
MsgDetail(kind, ev) == [privdiff |-> Differing(ev.privA, ev.privB, NoCounterpart(kind)),
                        pubdiff |-> Differing(ev.pub, ev.pub2, IF kind = "CR" THEN {"Raw"} ELSE {}),
                        reparsediff |-> Differing(ev.q, ev.q2, {})]


\* ---- edit the public view, then convert (u_public.go:391-431 getPrivatePtr; PubClientHelloMsg.Marshal).
\* A view obtained from UnmarshalClientHello is changed in ONE member (a scalar, one list element, one field of a nested
\* element, or the list shortened by one); whatever the library caches in the view, the private form it converts to
\* carries exactly the values the view now has, and Marshal (Raw cleared) followed by a parse shows the edited member.
PrivName == [Raw |-> "original", Vers |-> "vers", Random |-> "random", SessionId |-> "sessionId", CipherSuites |-> "cipherSuites",
             CompressionMethods |-> "compressionMethods", NextProtoNeg |-> "nextProtoNeg", ServerName |-> "serverName",
             OcspStapling |-> "ocspStapling", Scts |-> "scts", Ems |-> "extendedMasterSecret", SupportedCurves |-> "supportedCurves",
             SupportedPoints |-> "supportedPoints", TicketSupported |-> "ticketSupported", SessionTicket |-> "sessionTicket",
             SupportedSignatureAlgorithms |-> "supportedSignatureAlgorithms", SecureRenegotiation |-> "secureRenegotiation",
             SecureRenegotiationSupported |-> "secureRenegotiationSupported", AlpnProtocols |-> "alpnProtocols",
             SupportedSignatureAlgorithmsCert |-> "supportedSignatureAlgorithmsCert", SupportedVersions |-> "supportedVersions",
             Cookie |-> "cookie", KeyShares |-> "keyShares", EarlyData |-> "earlyData", PskModes |-> "pskModes",
             PskIdentities |-> "pskIdentities", PskBinders |-> "pskBinders", QuicTransportParameters |-> "quicTransportParameters"]
\* the private shape of a public member value
ToPrivVal(F, v) == CASE F = "KeyShares" -> [i \in DOMAIN v |-> [group |-> v[i].Group, data |-> v[i].Data]]
                     [] F = "PskIdentities" -> [i \in DOMAIN v |-> [label |-> v[i].Label, obfuscatedTicketAge |-> v[i].ObfuscatedTicketAge]]
                     [] OTHER -> v
\* members clientHelloMsg.marshal / unmarshal do not encode at all (nextProtoNeg is a uTLS-only flag of the struct,
\* handshake_messages.go:105; the NPN extension is written by the uTLS extension list, never by this codec): an edit of
\* such a member cannot show in a re-parsed hello; it must still reach the private form
NotOnTheWire == {"NextProtoNeg"}
\* TLS_EMPTY_RENEGOTIATION_INFO_SCSV (0x00ff) in cipher_suites signals secure renegotiation by itself (RFC 5746 3.3; the
\* parser sets the flag when it sees it): clearing the flag of a view whose suites carry the SCSV cannot show after a parse
SCSVSpeaks(ev) == ev.member = "SecureRenegotiationSupported" /\ \E i \in DOMAIN ev.pub.CipherSuites : ev.pub.CipherSuites[i] = 255
StaleFields(pub, priv) == {F \in DOMAIN PrivName : ~(F \in DOMAIN pub /\ PrivName[F] \in DOMAIN priv /\ ToPrivVal(F, pub[F]) = priv[PrivName[F]])}
EditFails(ev) ==
  IF ~ev.applied THEN {} ELSE
     (IF DOMAIN ev.pub = DOMAIN PrivName THEN {} ELSE {"view-has-members-the-specification-does-not-know"})
  \cup (IF ev.before[ev.member] # ev.pub[ev.member] THEN {} ELSE {"edit-had-no-effect"})
  \cup (IF StaleFields(ev.pub, ev.priv) = {} THEN {} ELSE {"private-form-does-not-reflect-the-edited-view"})
  \cup (IF ev.member \in NotOnTheWire \/ SCSVSpeaks(ev) \/ ev.q[ev.member] = ev.pub[ev.member] THEN {} ELSE {"marshal-does-not-reflect-the-edited-view"})

Fails(ev) ==
  IF "err" \in DOMAIN ev /\ ev.err # "" THEN {"error"} ELSE
  CASE ev.ev = "CH" -> CHFails(ev)
    [] ev.ev \in {"SH", "CR"} -> MsgFails(ev.ev, ev)
    [] ev.ev = "Edit" -> EditFails(ev)
    [] ev.ev = "List" -> IF ev.in = ev.out /\ Len(ev.in) = ev.n THEN {} ELSE {"list-conversion-lossy"}
    [] ev.ev = "Suite" -> IF ev.priv = ev.back THEN {} ELSE {"suite-view-lossy"}
    [] ev.ev = "Keys" -> IF ev.in = ev.out THEN {} ELSE {"key-view-lossy"}
    [] OTHER -> {"unknown-event"}
Detail(ev) ==
  IF "err" \in DOMAIN ev /\ ev.err # "" THEN [err |-> ev.err] ELSE
  CASE ev.ev = "CH" -> CHDetail(ev)
    [] ev.ev \in {"SH", "CR"} -> MsgDetail(ev.ev, ev)
    [] ev.ev = "Edit" -> [path |-> ev.path, stale |-> IF ev.applied THEN StaleFields(ev.pub, ev.priv) ELSE {}]
    [] ev.ev = "Suite" -> [privdiff |-> Differing(ev.priv, ev.back, {})]
    [] OTHER -> [none |-> TRUE]
=============================================================================
