CONSTANTS
  MaxLen = 2
  Classes = {"parrot", "custom"}
  Servers = {"plain"}
  Modes = {"never", "before", "nosess"}
  FixRemoveSNI = FALSE
INIT Init
NEXT Next
INVARIANT WireIsRaw
INVARIANT EditsVisible
INVARIANT RawIsLastSent
CHECK_DEADLOCK FALSE
