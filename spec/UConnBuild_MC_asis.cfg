CONSTANTS
  MaxLen = 2
  Classes = {"parrot", "custom"}
  Servers = {"plain"}
  Modes = {"never", "before", "nosess"}
  Kinds = {"SetClientRandom", "SetSNI", "RemoveSNI", "EditSuites", "EditSessionId", "ExtInsert", "ExtRemove", "ExtALPN"}
  SNIAll = FALSE
  SkipVerify = FALSE
  FixRemoveSNI = FALSE
INIT Init
NEXT Next
INVARIANT WireIsRaw
INVARIANT EditsVisible
INVARIANT RawIsLastSent
INVARIANT NothingSentWhenRefused
CHECK_DEADLOCK FALSE
