---------------------------- MODULE Flight_Trace ----------------------------
(***************************************************************************)
(* Validation of what the real code did on the scenarios of Flight_MC.     *)
(* One row per executed scenario (flight_trace.ndjson):                    *)
(*   t = "conn":  a handshake + ping/pong in which message ev.msg of side  *)
(*                ev.side was rewritten (C33: side s, judged: the uTLS     *)
(*                client; C34: side c, judged: the server)                 *)
(*   t = "alloc": the same scenario run alone with allocation accounting   *)
(*   t = "rec":   a raw record in place of / after a protected record      *)
(*   t = "post":  post-handshake server sequence, then Read/Write/Close    *)
(*   t = "raw":   a (mutated) ClientHello record given to the importers    *)
(*   t = "doc":   a (mutated) JSON spec / tlsfingerprint.io map            *)
(* Every row is judged; a row the specification does not accept goes to    *)
(* rej with the reason (the batch is always read to its end).              *)
(* Binding: the harness logs the bytes it started from and a digest of the *)
(* bytes it produced; TLC re-applies the splices itself and compares.      *)
(***************************************************************************)
EXTENDS Flight, Json

Trace == ndJsonDeserialize("flight_trace.ndjson")
Skels == JsonDeserialize("flight_skel.json")      \* "case#msg" -> [len, pos, val]: layout of the captured message
Caps  == JsonDeserialize("flight_caps.json")      \* "case#side#msg" -> captured bytes (replace mode, importer inputs)

VARIABLES l, acc
vars == <<l, acc>>

Orig(ev) == IF ev.mode = "replace" THEN Caps[ev.ckey] ELSE ev.orig
\* the harness started from the bytes it says it did, and produced exactly the bytes the chosen splices give
Bound(ev, o, m) == /\ ev.applied /\ ev.fit /\ SplicesFit(o, ev.sp)
                   /\ Len(o) = ev.orig_len
                   /\ Len(m) = ev.mut_len /\ Digest(m) = ev.mut_sum

\* ---------------------------------------------------------------- C33 / C34
ConnWhy(ev) ==
  LET sut == IF ev.side = "s" THEN ev.client ELSE ev.server
      oth == IF ev.side = "s" THEN ev.server ELSE ev.client IN
  IF ev.op = "none" THEN (IF sut.outcome = "ok" /\ oth.outcome = "ok" THEN "" ELSE "baseline-failed")
  ELSE LET o == Orig(ev)  m == ApplySplices(o, ev.sp) IN
       IF ~Bound(ev, o, m) THEN "binding"
       ELSE IF ~SkelOK(o, Skels[ev.skey]) THEN "layout"
       ELSE IF sut.outcome = "panic" THEN "panic"
       ELSE IF sut.outcome = "hang" THEN "hang"
       ELSE IF sut.outcome \notin Outcomes THEN "outcome"
       ELSE IF sut.elapsed_ms > ev.deadline_ms + SlackMs THEN "late"
       ELSE IF sut.alert \notin Alerts THEN "alert"
       ELSE ""

\* what every call on hostile input must look like
CallWhy(o, deadline_ms) ==
  IF o.outcome = "panic" THEN "panic"
  ELSE IF o.outcome = "hang" THEN "hang"
  ELSE IF o.outcome \notin Outcomes THEN "outcome"
  ELSE IF o.elapsed_ms > deadline_ms + SlackMs THEN "late"
  ELSE ""

\* a raw record where a protected one is expected
RecWhy(ev) ==
  LET sut == IF ev.side = "s" THEN ev.client ELSE ev.server IN
  IF ~ev.applied \/ ev.mut_len # Len(ev.raw) \/ ev.mut_sum # Digest(ev.raw) THEN "binding"
  ELSE IF ev.where = "replace" /\ ev.rep_hdr # ev.hdr THEN "layout"
  ELSE IF CallWhy(sut, ev.deadline_ms) # "" THEN CallWhy(sut, ev.deadline_ms)
  ELSE IF sut.alert \notin Alerts THEN "alert"
  ELSE ""

\* post-handshake phase: the harness did what was chosen, and every client call came back in time
PostWhy(ev) ==
  IF ~ev.ready THEN "baseline-failed"
  ELSE IF ev.sent # ev.seq \/ ev.transport # ev.tr \/ Len(ev.calls) < 3
          \/ ev.calls[Len(ev.calls)].call # "Close" \/ ev.calls[Len(ev.calls) - 1].call # "Write" \/ ev.calls[1].call # "Read" THEN "binding"
  ELSE IF \E j \in DOMAIN ev.calls : ev.calls[j].outcome = "panic" THEN "panic"
  ELSE IF \E j \in DOMAIN ev.calls : ev.calls[j].outcome = "hang" THEN "hang"
  ELSE IF \E j \in DOMAIN ev.calls : ev.calls[j].outcome \notin Outcomes THEN "outcome"
  ELSE IF \E j \in DOMAIN ev.calls : ev.calls[j].ret_ms > CallLimitMs(ev.calls[j], ev.deadline_ms) + SlackMs THEN "late"
  ELSE ""

\* allocation: the untouched flight of the same case, run the same way, is the yardstick
BaseKB(case) == LET S == {i \in DOMAIN Trace : Trace[i].t = "alloc" /\ Trace[i].op = "none" /\ Trace[i].case = case} IN
                IF S = {} THEN 0 - 1 ELSE CHOOSE x \in {Trace[i].alloc_kb : i \in S} : \A i \in S : Trace[i].alloc_kb <= x
AllocWhy(ev) == IF ev.op = "none" THEN ""
                ELSE IF BaseKB(ev.case) < 0 THEN "no-baseline"
                ELSE IF ev.alloc_kb > BaseKB(ev.case) + AllocSlackKB THEN "alloc"
                ELSE ""

\* ---------------------------------------------------------------- C07
Usable(call) == call.outcome = "ok" /\ call.apply = "ok" /\ call.marshal = "ok"
\* the returned spec was applied and marshaled under the captured ServerName (apply, marshal) and under names
\* 3 bytes shorter .. 3 bytes longer, none, and a much longer one (variants): errors are fine, a panic is not
NoPanic(call) == /\ call.apply \in Outcomes /\ call.marshal \in (Outcomes \cup {"skipped"})
                 /\ \A v \in DOMAIN call.variants : /\ call.variants[v].apply \in Outcomes
                                                     /\ call.variants[v].marshal \in (Outcomes \cup {"skipped"})
RawJudge(ev) ==
  LET o == Caps[ev.ckey]
      m == ApplySplices(o, ev.sp)
      valid == ValidHelloRecord(m)
      why == IF ~Bound(ev, o, m) THEN "binding"
             ELSE IF \E j \in DOMAIN ev.calls : ev.calls[j].outcome \notin Outcomes THEN "importer-panic"
             ELSE IF ev.extw.outcome \notin (Outcomes \cup {"skipped"}) THEN "extension-write-panic"
             ELSE IF valid /\ \E j \in DOMAIN ev.calls : ev.calls[j].outcome = "ok" /\ ~NoPanic(ev.calls[j])
                  THEN "valid-hello-unusable"
             ELSE IF ev.op = "none" /\ ~valid THEN "capture-invalid"
             ELSE IF ev.op = "none" /\ ~\E j \in DOMAIN ev.calls : Usable(ev.calls[j]) THEN "capture-unusable"
             ELSE ""
  IN [why |-> why, valid |-> valid, usable |-> valid /\ \E j \in DOMAIN ev.calls : Usable(ev.calls[j])]

DocWhy(ev) ==
  IF \E j \in DOMAIN ev.calls : ev.calls[j].outcome \notin Outcomes THEN "importer-panic"
  ELSE IF ev.op = "none" /\ ev.dkind = "json" /\ ~\A j \in DOMAIN ev.calls : Usable(ev.calls[j]) THEN "baseline-doc-unusable"
  ELSE ""

Judge(ev) ==
  CASE ev.t = "conn"  -> [why |-> ConnWhy(ev),  valid |-> FALSE, usable |-> FALSE]
    [] ev.t = "alloc" -> [why |-> AllocWhy(ev), valid |-> FALSE, usable |-> FALSE]
    [] ev.t = "rec"   -> [why |-> RecWhy(ev),   valid |-> FALSE, usable |-> FALSE]
    [] ev.t = "post"  -> [why |-> PostWhy(ev),  valid |-> FALSE, usable |-> FALSE]
    [] ev.t = "raw"   -> RawJudge(ev)
    [] ev.t = "doc"   -> [why |-> DocWhy(ev),   valid |-> FALSE, usable |-> FALSE]
    [] OTHER          -> [why |-> "unknown-row", valid |-> FALSE, usable |-> FALSE]

\* ---------------------------------------------------------------- reading the batch
Init == l = 1 /\ acc = [rej |-> {}, nvalid |-> 0, nusable |-> 0]
\* Good: the row is explained by the specification; Skip: it is not, and is remembered with the reason
Upd(a, i) == LET j == Judge(Trace[i]) IN
             [rej |-> IF j.why = "" THEN a.rej ELSE a.rej \cup {<<i, j.why>>},
              nvalid |-> a.nvalid + (IF j.valid THEN 1 ELSE 0), nusable |-> a.nusable + (IF j.usable THEN 1 ELSE 0)]
Step == l <= Len(Trace) /\ acc' = Upd(acc, l) /\ l' = l + 1
Next == Step
Report == (l = Len(Trace) + 1) =>
            /\ PrintT(<<"DONE", l - 1>>)
            /\ PrintT(<<"STAT", ToJson([valid |-> acc.nvalid, usable |-> acc.nusable])>>)
            /\ \A r \in acc.rej : PrintT(<<"REJ", r[1], r[2]>>)
=============================================================================
