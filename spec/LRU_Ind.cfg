\* Apalache (not TLC): inductive invariant of the sequential LRU object for every capacity MinCap..MaxCap,
\* integer keys and values unbounded.  --init / --inv are given on the command line by props/C36.py (thorough tier).
CONSTANTS
  MinCap = 1
  MaxCap = 16
INIT Init
NEXT Next
