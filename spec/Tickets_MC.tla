----------------------------- MODULE Tickets_MC -----------------------------
(***************************************************************************)
(* Bounded exhaustive configuration of Tickets: every history of at most   *)
(* MaxLen steps over {SetKeys, Advance, Encrypt, Flip, Truncate, Extend,    *)
(* Decrypt, Indep}; complete histories that end with an observation are    *)
(* emitted as scenarios (PrintT "SCN").  With -simulate: random long       *)
(* histories.  Mode "forge" instead enumerates the grid of forged client   *)
(* sessions (PrintT "FRG").                                                *)
(***************************************************************************)
EXTENDS Tickets, TLC, Json

CONSTANTS KeyIds,       \* ids of explicit 32-byte keys
          States,       \* ids of session states
          Bits,         \* bit positions to flip (>= FromEnd: counted from the end)
          Cuts,         \* numbers of bytes to cut off the end
          Hours,        \* clock steps
          MaxLen, MaxTix,
          TLen,         \* abstract ticket length in bytes: below every real length, so that every position valid here
                        \* is valid in the real ticket (the real length is logged at replay)
          Ops,          \* the kinds of step a history may contain
          Mode          \* "tickets" | "forge"
VARIABLES hist,         \* the history (with the model's results, which are NOT handed to the harness)
          last          \* the last observation, for the invariants
vars == <<explicit, auto, nauto, now, tix, held, hist, last>>

KeySeqs == {<<a>> : a \in KeyIds} \cup {<<a, b>> : a, b \in KeyIds}
None == [op |-> "None"]

Init == TkInit /\ hist = <<>> /\ last = None

Rec(o) == hist' = Append(hist, o)
Src == 1..Len(tix)

MSetKeys == \E ks \in KeySeqs : SetKeys(ks) /\ Rec([op |-> "SetKeys", keys |-> ks]) /\ last' = None
MAdvance == \E h \in Hours : Advance(h) /\ Rec([op |-> "Advance", h |-> h]) /\ last' = None
MEncrypt == /\ Len(tix) < MaxTix
            /\ \E st \in States : Encrypt(st, TLen, <<Len(tix) + 1>>) /\ Rec([op |-> "Encrypt", st |-> st]) /\ last' = None
MFlip == /\ Len(tix) < MaxTix
         /\ \E s \in Src, b \in Bits : Flip(s, BitIndex(tix[s], b)) /\ Rec([op |-> "Flip", src |-> s, bit |-> b]) /\ last' = None
MTruncate == /\ Len(tix) < MaxTix
             /\ \E s \in Src, c \in Cuts :
                  LET n == IF c >= tix[s].len THEN 0 ELSE tix[s].len - c IN
                  Truncate(s, n) /\ Rec([op |-> "Truncate", src |-> s, cut |-> c]) /\ last' = None
MExtend == /\ Len(tix) < MaxTix
           /\ \E s \in Src : Extend(s, 1) /\ Rec([op |-> "Extend", src |-> s, n |-> 1]) /\ last' = None
MDecrypt == \E s \in Src : LET r == Result(tix[s], KeysInUse) IN
              /\ Decrypt(s, r) /\ Rec([op |-> "Decrypt", src |-> s])
              /\ last' = [op |-> "Decrypt", src |-> s, r |-> r, keys |-> KeysInUse]
MIndep == \E s \in Src, k \in KeyIds : LET r == Result(tix[s], <<k>>) IN
              /\ Indep(s, k, r) /\ Rec([op |-> "Indep", src |-> s, key |-> k])
              /\ last' = [op |-> "Indep", src |-> s, r |-> r, keys |-> <<k>>]

\* re-examining what earlier calls returned
MRecheck == \E d \in 1..Len(held) : /\ Recheck(d, held[d]) /\ Rec([op |-> "Recheck", d |-> d])
                                     /\ last' = [op |-> "Recheck", d |-> d, st |-> held[d]]
MReread == \E s \in Src : /\ Reread(s, tix[s].raw) /\ Rec([op |-> "Reread", src |-> s])
                           /\ last' = None

On(o, A) == o \in Ops /\ A
Next == /\ Mode = "tickets" /\ Len(hist) < MaxLen
        /\ \/ On("SetKeys", MSetKeys) \/ On("Advance", MAdvance) \/ On("Encrypt", MEncrypt) \/ On("Flip", MFlip)
           \/ On("Truncate", MTruncate) \/ On("Extend", MExtend) \/ On("Decrypt", MDecrypt) \/ On("Indep", MIndep)
           \/ On("Recheck", MRecheck) \/ On("Reread", MReread)

\* ---- what the model promises about every observation ----
\* authenticated: a ticket opens only unmodified and only under its sealing key
Authentic == (last # None /\ last.op # "Recheck" /\ last.r.ok) =>
                /\ Intact(tix[last.src])
                /\ tix[last.src].key \in Range(last.keys)
                /\ last.r.st = tix[last.src].st
\* round trip: an untouched ticket opens under the keys that sealed it (explicit keys, no rotation in between)
RoundTrip == (last # None /\ last.op = "Decrypt" /\ Intact(tix[last.src]) /\ tix[last.src].key \in Range(last.keys)) => last.r.ok
\* a key list never grows beyond what rotation allows, automatic ids never collide with explicit ones
KeysSane == /\ \A i \in 1..Len(auto) : auto[i].id < 0
            /\ \A i, j \in 1..Len(auto) : i < j => auto[i].created > auto[j].created
\* the two ways of opening a ticket agree
Agree == (last # None /\ last.op = "Indep" /\ last.r.ok) => Opens(tix[last.src], <<tix[last.src].key>>)

\* a state once returned is the state some ticket was sealed from, for ever
HeldStable == \A d \in 1..Len(held) : \E i \in 1..Len(tix) : tix[i].sealed /\ tix[i].st = held[d]
Observing == Len(hist) > 0 /\ hist[Len(hist)].op \in {"Decrypt", "Indep", "Recheck", "Reread"}
Emit == (Mode = "tickets" /\ Len(hist) = MaxLen /\ Observing) => PrintT(<<"SCN", ToJson([ops |-> hist])>>)

-----------------------------------------------------------------------------
\* forged sessions: the grid of supplied parameters (Mode = "forge"; PrintT "FRG" per grid point) and the secrets whose
\* accessor round trip is observed (PrintT "SEC")
CONSTANTS Versions, Suites, Hellos,     \* TLS 1.0-1.2 part
          Suites13, Hellos13,           \* TLS 1.3 part
          ExtraLens13,                  \* PSK lengths tried besides the hash length of the suite
          SecretLens                    \* secret lengths whose accessor round trip is observed
Tls12Only == {49199, 49200, 52392, 156}      \* AEAD suites exist from TLS 1.2 on
HashLen(suite) == IF suite = 4866 THEN 48 ELSE 32     \* TLS_AES_256_GCM_SHA384 : SHA-384, the others SHA-256
SecVia == {"make", "set"}                    \* secret given to MakeClientSessionState / to SetMasterSecret
ForgeGrid12 == {g \in [vers : Versions, suite : Suites, hello : Hellos, ems : BOOLEAN, tems : BOOLEAN,
                     sealed : BOOLEAN, samesecret : BOOLEAN, via : {"cache", "set"}, certs : BOOLEAN, slen : {48}, secvia : SecVia] :
                /\ g.vers = 771 \/ g.suite \notin Tls12Only
                /\ g.hello = "Golang-0" \/ g.vers = 771   \* the browser parrots advertise TLS 1.2 and 1.3 only
                /\ g.hello # "Golang-0" \/ g.via = "cache"} \* HelloGolang takes crypto/tls's own path: SetSessionState is C20's subject
ForgeGrid13 == {g \in [vers : {TLS13}, suite : Suites13, hello : Hellos13, ems : {FALSE}, tems : {FALSE},
                     sealed : BOOLEAN, samesecret : BOOLEAN, via : {"cache"}, certs : BOOLEAN,
                     slen : ExtraLens13 \cup {32, 48}, secvia : SecVia] :
                g.slen \in ExtraLens13 \cup {HashLen(g.suite)}}
ForgeGrid == ForgeGrid12 \cup ForgeGrid13
ForgeEmit == Mode = "forge" => /\ \A g \in ForgeGrid : PrintT(<<"FRG", ToJson(g)>>)
                               /\ \A n \in SecretLens, v \in SecVia : PrintT(<<"SEC", ToJson([len |-> n, secvia |-> v])>>)
ASSUME ForgeEmit
=============================================================================
