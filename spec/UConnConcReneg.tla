---------------------------- MODULE UConnConcReneg ----------------------------
(* C26, renegotiation phase of UConnConc: an established TLS 1.2 UConn (Renegotiation enabled) is used by
   one reader (UConn.Read), one Handshake caller and one writer (UConn.Write) while the peer sends a
   HelloRequest.  The three mutexes are explicit resources and every code path acquires them in its
   own order; TLC checks that no reachable state has every live thread waiting for a held lock
   (deadlock freedom) and that every call returns.

     reader      UConn.Read u_conn.go:862: Handshake(); c.in.Lock(); readRecord ...
                 HelloRequest -> UConn.handleRenegotiation u_conn.go:967-1014:
                     c.handshakeMutex.Lock(); isHandshakeComplete.Store(false); BuildHandshakeState();
                     clientHandshake (writes under c.out); Unlock          order: in -> handshakeMutex (-> out)
     Handshake   UConn.handshakeContext u_conn.go:317-428: fast path iff isHandshakeComplete; else
                     c.handshakeMutex.Lock(); handshakeErr? complete? c.in.Lock(); ...   order: handshakeMutex -> in
     writer      UConn.Write u_conn.go:432-486: Handshake() as above, then c.out.Lock(); write; Unlock

   The two orders (in -> handshakeMutex, handshakeMutex -> in) are compatible only because a Handshake
   caller can get past its two checks (handshakeErr, isHandshakeComplete) under handshakeMutex only
   while nobody is renegotiating: the reader clears isHandshakeComplete INSIDE its handshakeMutex
   section and leaves the section with either the flag set again or handshakeErr set.
   LockBeforeClear = TRUE is that mechanism (as coded).  With FALSE the flag is cleared and the hello
   rebuilt before handshakeMutex is taken; TLC then finds the lock-order inversion (reader holds in,
   waits for handshakeMutex; Handshake caller holds handshakeMutex, waits for in) - used as the
   non-vacuity check of the deadlock property.

   Event actions (logged): Call, Ret, Arrive, Pass (gates entry / locked / pre_fn / post_fn inside
   handshakeContext, and reneg_build = the reader inside BuildHandshakeState of the renegotiation,
   observed through the public UtlsPaddingExtension.GetPaddingLen callback), HelloReq (the peer is
   about to send HelloRequest).  Everything else is internal; Timeout is the environment. *)
EXTENDS Integers, Sequences, FiniteSets, TLC

CONSTANT LockBeforeClear

Threads == {"reader", "h", "writer"}
Gates   == {"entry", "locked", "pre_fn", "post_fn", "reneg_build"}

VARIABLES
  cfg,        \* [h, writer : BOOLEAN (thread present), rehs : BOOLEAN (the peer runs a second handshake), deadline, slack]
  pc,         \* [Threads -> control point]
  hsret,      \* [Threads -> result of the thread's handshakeContext call]
  retv,       \* [Threads -> result of the API call]
  hmu, inmu, outmu,   \* owner of c.handshakeMutex / c.in / c.out, or "free"
  complete,   \* c.isHandshakeComplete
  hsErr,      \* c.handshakeErr != nil
  handshakes, \* c.handshakes
  hrSent, hrTaken,    \* HelloRequest sent by the peer / consumed by the reader
  timedOut

vars == <<cfg, pc, hsret, retv, hmu, inmu, outmu, complete, hsErr, handshakes, hrSent, hrTaken, timedOut>>

Active(c) == {"reader"} \cup (IF c.h THEN {"h"} ELSE {}) \cup (IF c.writer THEN {"writer"} ELSE {})

InitWith(c) ==
  /\ cfg = c
  /\ pc = [t \in Threads |-> "idle"]
  /\ hsret = [t \in Threads |-> "none"] /\ retv = [t \in Threads |-> "none"]
  /\ hmu = "free" /\ inmu = "free" /\ outmu = "free"
  /\ complete = TRUE /\ hsErr = FALSE /\ handshakes = 1        \* the initial handshake is done
  /\ hrSent = FALSE /\ hrTaken = FALSE /\ timedOut = FALSE

Goto(t, l) == pc' = [pc EXCEPT ![t] = l]

(* ------------------------------------------------------------------ event actions *)
Call(t) ==
  /\ t \in Active(cfg) /\ pc[t] = "idle" /\ Goto(t, "to_g_entry")
  /\ UNCHANGED <<cfg, hsret, retv, hmu, inmu, outmu, complete, hsErr, handshakes, hrSent, hrTaken, timedOut>>
Arrive(t, g) ==
  /\ t \in Threads /\ g \in Gates /\ pc[t] = "to_g_" \o g /\ Goto(t, "g_" \o g)
  /\ UNCHANGED <<cfg, hsret, retv, hmu, inmu, outmu, complete, hsErr, handshakes, hrSent, hrTaken, timedOut>>
Pass(t, g) ==
  /\ t \in Threads /\ g \in Gates /\ pc[t] = "g_" \o g /\ Goto(t, "a_" \o g)
  /\ UNCHANGED <<cfg, hsret, retv, hmu, inmu, outmu, complete, hsErr, handshakes, hrSent, hrTaken, timedOut>>
Ret(t) ==
  /\ t \in Threads /\ pc[t] = "to_ret" /\ Goto(t, "returned")
  /\ UNCHANGED <<cfg, hsret, retv, hmu, inmu, outmu, complete, hsErr, handshakes, hrSent, hrTaken, timedOut>>
HelloReq ==
  /\ ~hrSent /\ hrSent' = TRUE
  /\ UNCHANGED <<cfg, pc, hsret, retv, hmu, inmu, outmu, complete, hsErr, handshakes, hrTaken, timedOut>>
Timeout ==
  /\ ~timedOut /\ timedOut' = TRUE
  /\ UNCHANGED <<cfg, pc, hsret, retv, hmu, inmu, outmu, complete, hsErr, handshakes, hrSent, hrTaken>>

(* ------------------------------------------------------------------ handshakeContext (all three threads call it) *)
HFast(t) ==      \* u_conn.go:322
  /\ pc[t] = "a_entry" /\ complete
  /\ hsret' = [hsret EXCEPT ![t] = "nil"] /\ Goto(t, "hs_out")
  /\ UNCHANGED <<cfg, retv, hmu, inmu, outmu, complete, hsErr, handshakes, hrSent, hrTaken, timedOut>>
HBegin(t) ==
  /\ pc[t] = "a_entry" /\ ~complete /\ Goto(t, "wantlock")
  /\ UNCHANGED <<cfg, hsret, retv, hmu, inmu, outmu, complete, hsErr, handshakes, hrSent, hrTaken, timedOut>>
HLockHmu(t) ==   \* acquisition: handshakeMutex                          u_conn.go:364
  /\ pc[t] = "wantlock" /\ hmu = "free"
  /\ hmu' = t /\ Goto(t, "to_g_locked")
  /\ UNCHANGED <<cfg, hsret, retv, inmu, outmu, complete, hsErr, handshakes, hrSent, hrTaken, timedOut>>
HCheck(t) ==     \* u_conn.go:368-373
  /\ pc[t] = "a_locked"
  /\ IF hsErr THEN hsret' = [hsret EXCEPT ![t] = "err"] /\ Goto(t, "unlock")
     ELSE IF complete THEN hsret' = [hsret EXCEPT ![t] = "nil"] /\ Goto(t, "unlock")
     ELSE Goto(t, "wantin") /\ UNCHANGED hsret
  /\ UNCHANGED <<cfg, retv, hmu, inmu, outmu, complete, hsErr, handshakes, hrSent, hrTaken, timedOut>>
HLockIn(t) ==    \* acquisition: in, while holding handshakeMutex        u_conn.go:375
  /\ pc[t] = "wantin" /\ inmu = "free"
  /\ inmu' = t /\ Goto(t, "to_g_pre_fn")
  /\ UNCHANGED <<cfg, hsret, retv, hmu, outmu, complete, hsErr, handshakes, hrSent, hrTaken, timedOut>>
HFn(t) ==        \* a handshake of its own on the established connection: needs c.out for its records
  /\ pc[t] = "a_pre_fn" /\ outmu = "free"
  /\ \E ok \in BOOLEAN : IF ok THEN complete' = TRUE /\ UNCHANGED hsErr ELSE hsErr' = TRUE /\ UNCHANGED complete
  /\ Goto(t, "to_g_post_fn")
  /\ UNCHANGED <<cfg, hsret, retv, hmu, inmu, outmu, handshakes, hrSent, hrTaken, timedOut>>
HFinish(t) ==
  /\ pc[t] = "a_post_fn"
  /\ hsret' = [hsret EXCEPT ![t] = IF hsErr THEN "err" ELSE "nil"] /\ Goto(t, "unlock")
  /\ UNCHANGED <<cfg, retv, hmu, inmu, outmu, complete, hsErr, handshakes, hrSent, hrTaken, timedOut>>
HUnlock(t) ==    \* deferred in.Unlock (if taken), handshakeMutex.Unlock
  /\ pc[t] = "unlock" /\ hmu = t
  /\ hmu' = "free" /\ inmu' = IF inmu = t THEN "free" ELSE inmu
  /\ Goto(t, "hs_out")
  /\ UNCHANGED <<cfg, hsret, retv, outmu, complete, hsErr, handshakes, hrSent, hrTaken, timedOut>>
HsOut(t) ==
  /\ pc[t] = "hs_out"
  /\ IF t = "h" THEN retv' = [retv EXCEPT ![t] = hsret[t]] /\ Goto(t, "to_ret")
     ELSE IF hsret[t] # "nil" THEN retv' = [retv EXCEPT ![t] = "err"] /\ Goto(t, "to_ret")
     ELSE Goto(t, IF t = "reader" THEN "r_wantin" ELSE "w_wantout") /\ UNCHANGED retv
  /\ UNCHANGED <<cfg, hsret, hmu, inmu, outmu, complete, hsErr, handshakes, hrSent, hrTaken, timedOut>>

(* ------------------------------------------------------------------ writer *)
WLockOut ==      \* acquisition: out                                      u_conn.go:449
  /\ pc["writer"] = "w_wantout" /\ outmu = "free"
  /\ outmu' = "writer" /\ Goto("writer", "w_writing")
  /\ UNCHANGED <<cfg, hsret, retv, hmu, inmu, complete, hsErr, handshakes, hrSent, hrTaken, timedOut>>
WWrite ==
  /\ pc["writer"] = "w_writing"
  /\ outmu' = "free"
  /\ \E r \in (IF hsErr \/ timedOut \/ ~complete THEN {"nil", "err"} ELSE {"nil"}) : retv' = [retv EXCEPT !["writer"] = r]
  /\ Goto("writer", "to_ret")
  /\ UNCHANGED <<cfg, hsret, hmu, inmu, complete, hsErr, handshakes, hrSent, hrTaken, timedOut>>

(* ------------------------------------------------------------------ reader *)
RLockIn ==       \* acquisition: in                                       u_conn.go:876
  /\ pc["reader"] = "r_wantin" /\ inmu = "free"
  /\ inmu' = "reader" /\ Goto("reader", "r_wait")
  /\ UNCHANGED <<cfg, hsret, retv, hmu, outmu, complete, hsErr, handshakes, hrSent, hrTaken, timedOut>>
RTakeHR ==       \* readRecord delivered the HelloRequest -> handleRenegotiation
  /\ pc["reader"] = "r_wait" /\ hrSent /\ ~hrTaken
  /\ hrTaken' = TRUE /\ Goto("reader", "rn_start")
  /\ UNCHANGED <<cfg, hsret, retv, hmu, inmu, outmu, complete, hsErr, handshakes, hrSent, timedOut>>
RTimeout ==      \* the only way out of a read that gets nothing: the deadline
  /\ pc["reader"] = "r_wait" /\ timedOut
  /\ inmu' = "free" /\ retv' = [retv EXCEPT !["reader"] = "err"] /\ Goto("reader", "to_ret")
  /\ UNCHANGED <<cfg, hsret, hmu, outmu, complete, hsErr, handshakes, hrSent, hrTaken, timedOut>>
RData ==         \* after a successful renegotiation the peer sends application data
  /\ pc["reader"] = "r_wait" /\ hrTaken /\ handshakes = 2
  /\ inmu' = "free" /\ retv' = [retv EXCEPT !["reader"] = "nil"] /\ Goto("reader", "to_ret")
  /\ UNCHANGED <<cfg, hsret, hmu, outmu, complete, hsErr, handshakes, hrSent, hrTaken, timedOut>>
\* acquisition: handshakeMutex, while holding in                          u_conn.go:1000
RnLockHmu ==
  /\ pc["reader"] = (IF LockBeforeClear THEN "rn_start" ELSE "a_reneg_build") /\ hmu = "free"
  /\ hmu' = "reader" /\ Goto("reader", IF LockBeforeClear THEN "rn_clear" ELSE "rn_hs")
  /\ UNCHANGED <<cfg, hsret, retv, inmu, outmu, complete, hsErr, handshakes, hrSent, hrTaken, timedOut>>
\* isHandshakeComplete.Store(false); BuildHandshakeState() begins         u_conn.go:1003-1008
RnClear ==
  /\ pc["reader"] = (IF LockBeforeClear THEN "rn_clear" ELSE "rn_start")
  /\ complete' = FALSE /\ Goto("reader", "to_g_reneg_build")
  /\ UNCHANGED <<cfg, hsret, retv, hmu, inmu, outmu, hsErr, handshakes, hrSent, hrTaken, timedOut>>
RnBuilt ==       \* (as coded) the hello is rebuilt inside the handshakeMutex section
  /\ LockBeforeClear /\ pc["reader"] = "a_reneg_build" /\ Goto("reader", "rn_hs")
  /\ UNCHANGED <<cfg, hsret, retv, hmu, inmu, outmu, complete, hsErr, handshakes, hrSent, hrTaken, timedOut>>
\* clientHandshake: writes under c.out; succeeds only with a peer that runs the second handshake
RnHandshake ==
  /\ pc["reader"] = "rn_hs" /\ hmu = "reader" /\ outmu = "free"
  /\ \E ok \in (IF cfg.rehs /\ ~timedOut THEN {TRUE, FALSE} ELSE {FALSE}) :
       IF ok THEN complete' = TRUE /\ handshakes' = handshakes + 1 /\ UNCHANGED hsErr
             ELSE hsErr' = TRUE /\ UNCHANGED <<complete, handshakes>>
  /\ Goto("reader", "rn_unlock")
  /\ UNCHANGED <<cfg, hsret, retv, hmu, inmu, outmu, hrSent, hrTaken, timedOut>>
RnUnlock ==
  /\ pc["reader"] = "rn_unlock"
  /\ hmu' = "free"
  /\ IF hsErr THEN inmu' = "free" /\ retv' = [retv EXCEPT !["reader"] = "err"] /\ Goto("reader", "to_ret")
             ELSE Goto("reader", "r_wait") /\ UNCHANGED <<inmu, retv>>
  /\ UNCHANGED <<cfg, hsret, outmu, complete, hsErr, handshakes, hrSent, hrTaken, timedOut>>

Tau ==
  \/ \E t \in Threads : HFast(t) \/ HBegin(t) \/ HLockHmu(t) \/ HCheck(t) \/ HLockIn(t) \/ HFn(t) \/ HFinish(t) \/ HUnlock(t) \/ HsOut(t)
  \/ WLockOut \/ WWrite
  \/ RLockIn \/ RTakeHR \/ RTimeout \/ RData \/ RnLockHmu \/ RnClear \/ RnBuilt \/ RnHandshake \/ RnUnlock
GateStep == \E t \in Threads, g \in Gates : Arrive(t, g) \/ Pass(t, g)
Event == (\E t \in Threads : Call(t) \/ Ret(t)) \/ GateStep \/ HelloReq
Next == Tau \/ Event \/ Timeout

Terminal == \A t \in Active(cfg) : pc[t] = "returned"

(* ------------------------------------------------------------------ properties *)
\* a thread waits for a lock that somebody holds
WaitsFor(t) ==
  CASE pc[t] = "wantlock" \/ (t = "reader" /\ pc[t] = (IF LockBeforeClear THEN "rn_start" ELSE "a_reneg_build")) -> hmu
    [] pc[t] \in {"wantin", "r_wantin"}  -> inmu
    [] pc[t] = "w_wantout"               -> outmu
    [] OTHER                             -> "free"
\* deadlock freedom: never is every thread that has not returned waiting for a held lock (a cycle among the
\* three resources) - stated as an invariant so that it also holds where gates are still closed
NoLockCycle ==
  ~ \E t \in Threads : /\ WaitsFor(t) \in Threads /\ WaitsFor(WaitsFor(t)) = t
\* locks are held only inside the sections that take them
LockOwners ==
  /\ hmu # "free" => pc[hmu] \in {"to_g_locked", "g_locked", "a_locked", "wantin", "to_g_pre_fn", "g_pre_fn", "a_pre_fn",
                                  "to_g_post_fn", "g_post_fn", "a_post_fn", "unlock",
                                  "rn_clear", "to_g_reneg_build", "g_reneg_build", "a_reneg_build", "rn_hs", "rn_unlock"}
  /\ outmu # "free" => outmu = "writer" /\ pc["writer"] = "w_writing"
\* the reason the two acquisition orders are compatible
NoHandshakeWhileRenegotiating ==
  \A t \in Threads : pc[t] \in {"wantin", "to_g_pre_fn", "g_pre_fn", "a_pre_fn"} => inmu \in {"free", t}
\* outcomes
Outcomes ==
  \A t \in Threads : pc[t] \in {"to_ret", "returned"} =>
     /\ retv[t] \in {"nil", "err"}
     /\ (t = "h" /\ retv[t] = "nil") => (complete \/ hsErr \/ handshakes >= 1)
     /\ (t = "h" /\ retv[t] = "err") => hsErr
SafetyReneg == NoLockCycle /\ LockOwners /\ NoHandshakeWhileRenegotiating /\ Outcomes
=============================================================================
