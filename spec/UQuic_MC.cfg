\* safety, free pump, repaired mechanism (the property-carrying configuration)
CONSTANTS
  FixEarlyReturn = TRUE
  Builds = {"ok", "noname", "unset", "minver12"}
  HRRs = {FALSE, TRUE}
  MaxCut = 1
INIT Init
NEXT Next
VIEW View
INVARIANTS WriteBeforeRead AppReadAfterDone TPOnce OnlyHandshakeData DoneMeansComplete NoStuckCaller CompletesWhenPumped
CHECK_DEADLOCK FALSE
