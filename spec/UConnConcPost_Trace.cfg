CONSTANT AtomicReply = TRUE
INIT InitTrace
NEXT NextTrace
CONSTRAINT Report
INVARIANT SafetyPost
CHECK_DEADLOCK FALSE
