--------------------------- MODULE UConnConc_Trace ---------------------------
(* Trace validation for C26.  conc_trace.ndjson: one line per executed scenario,
     [sc, cfg, ev : [key -> sequence of events]]
   where every key is one goroutine's own log (h1, h1.i = its interrupter, canc.h1, reader, writer,
   closer, peer, main).  Events carry a per-goroutine position (their index) and, in the ordered
   modes (a run-wide lock is held while the event is appended), a global sequence number.  The
   specification consumes the next event of some goroutine when the corresponding event action of
   UConnConc is enabled, and interleaves the unlogged internal actions (the linearisation points)
   freely: a scenario is accepted iff some behaviour of UConnConc produces exactly its logs
   (<<"DONE", sc>> is printed).  No wall-clock merging: times are only used for the deadline.
   Only runs with the hooks (gate events, ordered) are validated here; runs without any hook
   ("bare", for the race detector) are judged by UConnConc_MC against the reachable outcomes. *)
EXTENDS UConnConc, Json
CONSTANT Diag

Trace == ndJsonDeserialize("conc_trace.ndjson")
Keys == {"h1", "h2", "h3", "h1.i", "h2.i", "h3.i", "canc.h1", "canc.h2", "canc.h3",
         "reader", "writer", "closer", "peer", "main"}

VARIABLES sc, idx, gseq
tvars == <<sc, idx, gseq>>

Rng(s) == {s[i] : i \in DOMAIN s}
CfgOf(t) == [hs |-> Rng(t.cfg.hs), cancellable |-> Rng(t.cfg.cancellable), cancels |-> Rng(t.cfg.cancels),
             reader |-> t.cfg.reader, writer |-> t.cfg.writer, closer |-> t.cfg.closer, peer |-> t.cfg.peer,
             gated |-> t.cfg.gated, ordered |-> t.cfg.ordered, deadline |-> t.cfg.deadline, slack |-> t.cfg.slack]

InitTrace == \E s \in 1..Len(Trace) :
               /\ sc = s /\ idx = [k \in Keys |-> 1] /\ gseq = 0
               /\ (Diag => TLCSet(1, 0))
               /\ InitWith(CfgOf(Trace[s]))

Log(k)     == Trace[sc].ev[k]
Pending(k) == idx[k] <= Len(Log(k))
E(k)       == Log(k)[idx[k]]
IsNext(k)  == Pending(k) /\ (cfg.ordered => E(k).seq = gseq + 1)

\* what the caller got: nil, its own context's error, or something else
Class(e) == IF e.isnil THEN "nil" ELSE IF e.ctxerr # "" /\ e.err = e.ctxerr THEN "ctx" ELSE "err"
InTime(e) == e.t <= cfg.deadline + cfg.slack

\* harness cancels a never-cancelled context after its call returned (cancel-after-return)
LateCancel(p) ==
  /\ p \in cfg.cancellable \ cfg.cancels /\ pc[p] = "returned" /\ ~ctxDone[p]
  /\ ctxDone' = [ctxDone EXCEPT ![p] = TRUE]
  /\ UNCHANGED <<cfg, pc, hsret, retv, intr, doneCh, cancPc, hmu, hsErr, complete, connClosed,
                 closedBit, active, cnSent, cAlert, fnBad, timedOut, peerRel>>

Final(e) == Terminal /\ complete = e.complete /\ connClosed = e.closed /\ UNCHANGED vars

Match(e) ==
  CASE e.ev = "call"       -> IF e.p = "canc" THEN CancelCall(e.tgt) ELSE Call(e.p)
    [] e.ev = "ret"        -> IF e.p = "canc" THEN CancelRet(e.tgt)
                              ELSE Ret(e.p) /\ retv[e.p] = Class(e) /\ InTime(e)
    [] e.ev = "arrive"     -> IF e.i THEN ArriveI(e.p, e.g) ELSE Arrive(e.p, e.g)
    [] e.ev = "pass"       -> IF e.i THEN PassI(e.p, e.g) ELSE Pass(e.p, e.g)
    [] e.ev = "connclose"  -> IF e.i THEN ConnCloseI(e.p) ELSE e.p = "closer" /\ ConnCloseC
    [] e.ev = "peer"       -> PeerRelease
    [] e.ev = "latecancel" -> LateCancel(e.tgt)
    [] e.ev = "final"      -> Final(e)
    [] OTHER               -> FALSE          \* "hang" and anything unknown is never explained

EvStep == \E k \in Keys :
            /\ IsNext(k)
            /\ Match(E(k))
            /\ idx' = [idx EXCEPT ![k] = @ + 1] /\ gseq' = gseq + 1 /\ UNCHANGED sc

\* the deadline can only have passed if the next thing that was logged happened after it
TimeoutT == Timeout /\ \E k \in Keys : IsNext(k) /\ E(k).t >= cfg.deadline - 1

NextTrace == EvStep \/ ((Tau \/ TimeoutT) /\ UNCHANGED tvars)

Consumed == gseq
Accepted == \A k \in Keys : ~Pending(k)
Report ==
  /\ Accepted => PrintT(<<"DONE", sc>>)
  /\ (Diag /\ Consumed > TLCGet(1)) => (TLCSet(1, Consumed) /\ PrintT(<<"HW", sc, Consumed>>))
=============================================================================
