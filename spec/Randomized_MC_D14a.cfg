CONSTANT WMode = "basic"
INIT Init
NEXT Next
VIEW View
INVARIANT InvSharesListed
CHECK_DEADLOCK FALSE
