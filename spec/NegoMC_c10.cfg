CONSTANT Mode = "c10"
INIT Init
NEXT Next
CONSTRAINT Emit
INVARIANT Offered
INVARIANT CompliantCompletes
INVARIANT DeviationDetected
INVARIANT HRRCompletes
CHECK_DEADLOCK FALSE
