\* values kept by the caller: every history of MaxLen steps over {Encrypt, Decrypt, Recheck, Reread} and several states
\* (21, 22: same size, different content; 3: another size)
CONSTANTS
  KeyIds = {1, 2}
  States = {21, 22, 3}
  Bits = {5, 1000002}
  Cuts = {1, 1000}
  Hours = {25, 170}
  MaxLen = 5
  MaxTix = 3
  TLen = 60
  Ops = {"Encrypt", "Decrypt", "Recheck", "Reread"}
  Mode = "tickets"
  Versions = {771}
  Suites = {49199}
  Hellos = {"Golang-0"}
  Suites13 = {4865}
  Hellos13 = {"Golang-0"}
  ExtraLens13 = {}
  SecretLens = {48}
INIT Init
NEXT Next
INVARIANTS Authentic RoundTrip KeysSane Agree HeldStable
CONSTRAINT Emit
CHECK_DEADLOCK FALSE
