CONSTANT LockBeforeClear = FALSE
INIT InitMC
NEXT NextMC
VIEW View
INVARIANT NoLockCycle
