\* scenario emission: eager pump, exhaustive over cfg x plan x cut (hist is part of the state: one state per path)
CONSTANTS
  FixEarlyReturn = TRUE
  Builds = {"ok", "noname", "unset", "minver12"}
  HRRs = {FALSE, TRUE}
  MaxCut = 0
  Planned = TRUE
  Eager = TRUE
  MaxAt = 40
  EmitOn = TRUE
INIT MCInit
NEXT MCNext
CONSTRAINT EmitScn
CHECK_DEADLOCK FALSE
