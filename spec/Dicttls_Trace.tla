------------------------- MODULE Dicttls_Trace -------------------------
(* Trace validation for C32.  Events (harness/cmd/gen/dict.go, jsonhello.go):
     Dict       table, vi [v, n], ni [n, v]      one per exported table pair of package dicttls
     JsonHello  id, orig, renderr, jsonerr, rawerr, a, b
                orig = wire hello of a parrot; a = hello sent from FingerprintClientHello(orig);
                b = hello sent from the JSON description of orig (names from the value-indexed tables) *)
EXTENDS Dicttls, Json
Trace == ndJsonDeserialize("c32_trace.ndjson")
VARIABLES l, rej, ncmp, nexp
DictIdx == {k \in DOMAIN Trace : Trace[k].ev = "Dict"}
Tab(name) == LET K == {k \in DictIdx : Trace[k].table = name}
             IN IF K = {} THEN {} ELSE Values(Trace[CHOOSE k \in K : TRUE].vi)
T == [CipherSuite |-> Tab("CipherSuite"), CompMeth |-> Tab("CompMeth"), ExtType |-> Tab("ExtType"),
      SupportedGroups |-> Tab("SupportedGroups"), ECPointFormat |-> Tab("ECPointFormat"),
      SignatureScheme |-> Tab("SignatureScheme"), CertificateCompressionAlgorithm |-> Tab("CertificateCompressionAlgorithm"),
      PSKKeyExchangeMode |-> Tab("PSKKeyExchangeMode")]

Init == l = 1 /\ rej = <<>> /\ ncmp = 0 /\ nexp = 0
\* a compared hello whose padding extension was given an explicit length that the BoringSSL rule (TLSWire!BoringPadBody,
\* applied to the length of the hello without its padding extension) would not produce: only such documents show that
\* an explicit "len" of the JSON description reaches the wire
ExplicitPad(ev) == /\ ev.ev = "JsonHello" /\ ev.padlen > 0 /\ ParseHello(ev.orig).ok /\ Describable(ParseHello(ev.orig), T)
                   /\ BoringPadBody(Len(ev.orig) - (4 + ev.padlen)) # ev.padlen
Compared(ev) == ev.ev = "JsonHello" /\ ParseHello(ev.orig).ok /\ Describable(ParseHello(ev.orig), T)
Explained(ev) ==
  CASE ev.ev = "Dict" -> RoundTripOK(ev.vi, ev.ni) /\ IsFunction(ev.vi, "v") /\ IsFunction(ev.ni, "n")
    [] ev.ev = "JsonHello" ->
         LET h == ParseHello(ev.orig) IN
         /\ h.ok
         /\ IF Describable(h, T)
            THEN ev.renderr = "" /\ ev.jsonerr = "" /\ ev.rawerr = "" /\ NormG(ev.a).ok /\ NormG(ev.a) = NormG(ev.b)
            ELSE ev.renderr # ""
    [] OTHER -> FALSE
Why(ev) ==
  CASE ev.ev = "Dict" -> <<"dict", ev.table, {Small(ev.vi[i].v) : i \in Unresolved(ev.vi, ev.ni)},
                            IsFunction(ev.vi, "v") /\ IsFunction(ev.ni, "n")>>
    [] ev.ev = "JsonHello" ->
         LET h == ParseHello(ev.orig) IN
         <<"json", ev.id,
           IF ~h.ok THEN "parrot-hello-framing"
           ELSE IF ~Describable(h, T) THEN "described-although-a-code-point-has-no-name"
           ELSE IF ev.renderr # "" THEN "not-rendered-although-every-code-point-has-a-name"
           ELSE IF ev.jsonerr # "" THEN "json-import-failed"
           ELSE IF ev.rawerr # "" THEN "raw-import-failed"
           ELSE WhyDiffer(ev.a, ev.b),
           ev.padlen>>
    [] OTHER -> <<"unknown-event">>
\* (X = TRUE): evaluate the judgement as a value, never as an action formula
Good == l <= Len(Trace) /\ (Explained(Trace[l]) = TRUE) /\ l' = l + 1 /\ UNCHANGED rej
        /\ ncmp' = (IF Compared(Trace[l]) THEN ncmp + 1 ELSE ncmp)
        /\ nexp' = (IF ExplicitPad(Trace[l]) THEN nexp + 1 ELSE nexp)
Skip == l <= Len(Trace) /\ (Explained(Trace[l]) = FALSE) /\ l' = l + 1 /\ rej' = Append(rej, <<l, Why(Trace[l])>>)
        /\ ncmp' = (IF Compared(Trace[l]) THEN ncmp + 1 ELSE ncmp)
        /\ nexp' = (IF ExplicitPad(Trace[l]) THEN nexp + 1 ELSE nexp)
Next == Good \/ Skip
Report == (l = Len(Trace) + 1) =>
            /\ PrintT(<<"DONE", l - 1>>)
            /\ PrintT(<<"COMPARED", ncmp>>)
            /\ PrintT(<<"EXPLICITPAD", nexp>>)
            /\ \A i \in DOMAIN rej : PrintT(<<"REJ", ToJson(rej[i])>>)
=============================================================================
