---------------------------- MODULE TLS12_Trace ----------------------------
(***************************************************************************)
(* Trace specification of the TLS <= 1.2 client handshake (module TLS12).  *)
(* Events (harness cmd/tls12 run, chronological per scenario):             *)
(*   Scn    the scenario as TLC emitted it                                 *)
(*   Conn   a connection starts (client identity = row oi of the offers    *)
(*          table, InsecureSkipVerify)                                     *)
(*   CMSG   a plaintext handshake message the client hands to its record   *)
(*          layer (ClientHello in full, the others by head)                *)
(*   SMSG   a plaintext handshake message the server hands to its record   *)
(*          layer, after the scripted rewrite (k = self/nat/syn, mut = the *)
(*          rewrites applied, ccs = after the server's ChangeCipherSpec,   *)
(*          certs = labels of listed certificates)                         *)
(*   Ret    a client call returned (Handshake, Read that carried a         *)
(*          renegotiation, Echo) with error, origin, ConnectionState       *)
(*   SRet   the server's handshake call returned                           *)
(*   Cache  what the ClientSessionCache holds after the connection         *)
(*   Unused an edit of the scenario whose anchor never came                *)
(* Each server message is delivered to the model client (TLS12!Deliver) at *)
(* the moment the server wrote it: the client's reaction is a function of  *)
(* the messages it has been sent, so the model may run ahead of the real   *)
(* client.  Every event is consumed; what the specification does not allow *)
(* is collected in rej as <<scenario, property, kind, detail>>.            *)
(***************************************************************************)
EXTENDS TLS12
Trace == ndJsonDeserialize("tls12_trace.ndjson")
OfferTab == JsonDeserialize("tls12_offers.json")

VARIABLES l, st, rej
vars == <<l, st, rej>>

NoSrv == [seen |-> FALSE, ok |-> FALSE, ss |-> [version |-> 0]]
Idle == [sc |-> -1, scn |-> [ccert |-> "", deadline_ms |-> 0], conn |-> -1, oi |-> 0, cfg |-> [policy |-> 0, ccert |-> "", insecure |-> FALSE],
         cl |-> Fresh, cache |-> NoSess, start |-> NoSess, outIdx |-> 0, prevCF |-> <<>>, prevSF |-> <<>>,
         mutated |-> {}, shRandMut |-> FALSE, srvCert |-> "", srv |-> [h \in 0..3 |-> NoSrv], hsOK |-> [h \in 0..3 |-> FALSE],
         cliErr |-> FALSE, unused |-> 0, ended |-> TRUE]
Init == l = 1 /\ st = Idle /\ rej = {}

Fail(prop, kind, detail) == {<<st.sc, prop, kind, ToString(detail)>>}

\* which property a reason to abort belongs to
PropOf(why) ==
  CASE why \in {"version-not-advertised", "supported-versions-below-1.3", "downgrade-sentinel", "tls13-in-renegotiation"} -> "C13"
    [] why \in {"suite-not-offered", "compression-not-offered", "alpn-not-offered", "unrequested-session-ticket"} -> "C12"
    [] why \in {"bad-certificate", "identity-changed-during-renegotiation", "server-key-exchange-invalid", "finished-incorrect",
                "certificate-key-does-not-fit-suite"} -> "C14"
    [] why \in {"resumed-different-version", "resumed-different-suite", "resumed-different-ems"} -> "C19"
    [] OTHER -> "X12"

\* ------------------------------------------------------------ wire -> abstract message
\* signed_certificate_timestamp list: u16 length, then u16-prefixed items
RECURSIVE SctItems(_,_)
SctItems(b, i) == IF i + 1 > Len(b) THEN <<>> ELSE
                  LET n == RdU16(b, i) IN IF i + 1 + n > Len(b) THEN <<>> ELSE <<SubSeq(b, i+2, i+1+n)>> \o SctItems(b, i+2+n)
Framed(raw, len) == Len(raw) >= 4 /\ RdU24(raw, 2) + 4 = len
AbsSH2(ev, sh) ==
  IF ~sh.ok \/ (\E i \in DOMAIN sh.exts : sh.exts[i].bad) THEN [M0 EXCEPT !.t = 2, !.bad = TRUE] ELSE
  [M0 EXCEPT !.t = 2, !.vers = SHVersion(sh), !.suite = sh.suite, !.comp = sh.comp,
             !.sid = IF sh.sid # <<>> /\ sh.sid = st.cl.o.sid THEN "echo" ELSE "other",
             !.ems = SHHas(sh, 23),
             !.ri = IF ~SHHas(sh, 65281) THEN "absent"
                    ELSE LET b == SHBody(sh, 65281) IN
                         IF b = <<0>> THEN "empty"
                         ELSE IF st.cl.hs > 0 /\ Len(b) = 25 /\ b[1] = 24 /\ Tail(b) = st.prevCF \o st.prevSF THEN "correct" ELSE "other",
             !.tick = SHHas(sh, 35), !.ocsp = SHHas(sh, 5),
             !.scts = IF SHHas(sh, 18) /\ Len(SHBody(sh, 18)) >= 2 THEN SctItems(SHBody(sh, 18), 3) ELSE <<>>,
             !.alpn = IF SHHas(sh, 16) THEN (IF SHAlpn(sh) = <<>> THEN <<255>> ELSE SHAlpn(sh)) ELSE <<>>,
             !.canary = IF SubSeq(sh.random, 25, 32) = Canary12 THEN 12 ELSE IF SubSeq(sh.random, 25, 32) = Canary11 THEN 11 ELSE 0,
             !.sv = SHHas(sh, 43)]
AbsSH(ev) == AbsSH2(ev, ParseSH(ev.raw))
\* CertificateRequest: u8-vector types, (TLS 1.2) u16-vector signature algorithms, u16-vector CAs
AbsCR(ev) ==
  LET r == ev.raw
      v12 == st.cl.vers = 771 IN
  IF ~Framed(r, ev.len) \/ Len(r) < 5 \/ r[5] = 0 \/ 5 + r[5] > Len(r) THEN [M0 EXCEPT !.t = 13, !.bad = TRUE] ELSE
  LET nt == r[5]
      p == 6 + nt IN       \* first byte after the types
  IF ~v12 THEN [M0 EXCEPT !.t = 13, !.types = Range(SubSeq(r, 6, 5 + nt))]
  ELSE IF p + 1 > Len(r) \/ p + 1 + RdU16(r, p) > Len(r) \/ RdU16(r, p) % 2 # 0 THEN [M0 EXCEPT !.t = 13, !.bad = TRUE]
  ELSE [M0 EXCEPT !.t = 13, !.types = Range(SubSeq(r, 6, 5 + nt)), !.hasSig = TRUE, !.sigalgs = U16Seq(SubSeq(r, p + 2, p + 1 + RdU16(r, p)))]
Abs(ev) ==
  LET base == [M0 EXCEPT !.t = ev.t, !.ccs = ev.ccs] IN
  LET m ==
    CASE ev.t = 2 -> AbsSH(ev)
      [] ev.t = 11 -> [base EXCEPT !.certs = ev.certs]
      \* a ServerKeyExchange is valid iff it is the server's own, unmodified, the server random it signs is the one the
      \* client saw, and the key it is signed with belongs to the leaf the client was shown
      [] ev.t = 12 -> [base EXCEPT !.ok = ev.mut = <<>> /\ ev.k # "syn" /\ ~st.shRandMut /\ st.cl.pend # <<>> /\ st.cl.pend[1] = st.srvCert]
      [] ev.t = 13 -> AbsCR(ev)
      [] ev.t = 14 -> [base EXCEPT !.bad = ev.len # 4]
      [] ev.t = 4 -> IF Framed(ev.raw, ev.len) /\ Len(ev.raw) >= 10 /\ RdU16(ev.raw, 9) + 10 = Len(ev.raw)
                     THEN [base EXCEPT !.body = SubSeq(ev.raw, 11, Len(ev.raw))] ELSE [base EXCEPT !.bad = TRUE]
      [] ev.t = 22 -> IF Framed(ev.raw, ev.len) /\ Len(ev.raw) >= 8 /\ ev.raw[5] = 1 /\ RdU24(ev.raw, 6) + 8 = Len(ev.raw)
                      THEN [base EXCEPT !.body = SubSeq(ev.raw, 9, Len(ev.raw))] ELSE [base EXCEPT !.bad = TRUE]
      \* a Finished is valid iff it is the server's own (computed over the transcript as sent) and unmodified
      \* (and the keys it is protected with derive from the server random the client saw)
      [] ev.t = 20 -> [base EXCEPT !.ok = ev.k = "self" /\ ev.mut = <<>> /\ ~st.shRandMut, !.bad = ev.len # 16]
      [] ev.t = 0 -> [base EXCEPT !.bad = ev.len # 4]
      [] OTHER -> base
  IN [m EXCEPT !.ccs = ev.ccs]

\* ------------------------------------------------------------ events
OnScn(ev) == /\ st' = [Idle EXCEPT !.sc = ev.sc, !.scn = ev, !.ended = FALSE]
             /\ rej' = rej \cup (IF ~st.ended THEN Fail("X12", "order", "scenario-without-end") ELSE {})

OnConn(ev) ==
  /\ st' = [st EXCEPT !.conn = ev.conn, !.oi = ev.oi, !.cl = Fresh, !.start = st.cache, !.outIdx = 0, !.prevCF = <<>>, !.prevSF = <<>>,
                      !.cfg = [policy |-> OfferTab[ev.oi].policy, ccert |-> st.scn.ccert, insecure |-> ev.insecure],
                      !.mutated = {}, !.shRandMut = FALSE, !.srv = [h \in 0..3 |-> NoSrv], !.hsOK = [h \in 0..3 |-> FALSE], !.cliErr = FALSE]
  /\ rej' = rej

\* the server certificate configured for handshake h of the current connection (the key its ServerKeyExchange is signed with)
HsOf(h) == st.scn.conns[st.conn + 1].hs
SrvCertOf(h) == IF h + 1 <= Len(HsOf(h)) THEN HsOf(h)[h + 1].srv.cert ELSE ""
\* the server insists on a client certificate in one of the handshakes up to h (it may then refuse the client)
SrvDemandsCert(h) == \E g \in 0..h : g + 1 <= Len(HsOf(h)) /\ HsOf(h)[g + 1].srv.client_auth >= 2

OnCH(ev, o, legal, sess) ==
  /\ st' = [st EXCEPT !.cl = ClientHello(st.cl, o, sess), !.outIdx = Len(st.cl.out), !.prevCF = st.cl.cf, !.prevSF = st.cl.sf,
                      !.shRandMut = FALSE, !.srvCert = SrvCertOf(ev.h)]
  /\ rej' = rej
       \cup (IF st.cl.pc # "Start" THEN Fail("X12", "order", <<"client-hello-in-state", st.cl.pc, st.cl.must>>) ELSE {})
       \cup (IF ~o.ok THEN Fail("X12", "hello", "unparsable-client-hello") ELSE {})
       \* RFC 5746 3.5: a renegotiation hello carries the client's previous verify_data
       \cup (IF o.ok /\ st.cl.hs > 0 /\ st.cl.secureReneg /\ o.riBody # st.cl.cf THEN Fail("X12", "reneg", "hello-renegotiation-info-is-not-previous-verify-data") ELSE {})
       \cup (IF o.ok /\ st.cl.hs = 0 /\ o.riBody # <<>> THEN Fail("X12", "reneg", "initial-hello-renegotiation-info-not-empty") ELSE {})
       \* C19: only the cached session, and only in a form a compliant server can accept
       \cup (IF o.ok /\ o.ticket # <<>> /\ ~sess.present THEN Fail("C19", "offer", "hello-offers-a-ticket-that-is-not-the-cached-one") ELSE {})
       \cup (IF o.ok /\ sess.present /\ ~legal THEN Fail("C19", "offer", <<"cached-session-offered-illegally", st.start.vers, st.start.suite, st.start.ems, o.ems>>) ELSE {})
       \cup (IF o.ok /\ st.cl.hs = 0 /\ legal /\ st.start.vers = 771 /\ o.ticket = <<>> THEN Fail("C19", "offer", "resumable-session-not-offered") ELSE {})
OnCH1(ev, o) == OnCH(ev, o, MayOffer(st.start, o, st.cfg.insecure),
                     IF o.ticket # <<>> /\ st.start.present /\ o.ticket = st.start.ticket THEN st.start ELSE NoSess)
OnClientHello(ev) == OnCH1(ev, Offer12(ev.raw, OfferTab[st.oi].min))

OnCMSG(ev) ==
  IF ev.t = 1 THEN OnClientHello(ev)
  ELSE
  LET i == st.outIdx + 1
      expected == i <= Len(st.cl.out)
      fits == expected /\ st.cl.out[i].t = ev.t /\ (ev.t = 11 => st.cl.out[i].certs = ev.certs) IN
  /\ st' = [st EXCEPT !.outIdx = IF fits THEN i ELSE st.outIdx,
                      !.cl = IF ev.t = 20 /\ Len(ev.raw) = 16 THEN [st.cl EXCEPT !.cf = SubSeq(ev.raw, 5, 16)] ELSE st.cl]
  /\ rej' = rej \cup (IF ~fits THEN Fail(IF st.cl.must # "" THEN PropOf(st.cl.must) ELSE "X12", "flight",
                                         <<"client-sent", ev.t, ev.certs, "model-expects", IF expected THEN st.cl.out[i].t ELSE -1, st.cl.pc, st.cl.must>>) ELSE {})

OnSM2(ev, m, cl1) ==
  /\ st' = [st EXCEPT !.cl = IF ev.t = 20 /\ Len(ev.raw) = 16 THEN [cl1 EXCEPT !.sf = SubSeq(ev.raw, 5, 16)] ELSE cl1,
                      \* (a renegotiating server that fills in the right renegotiation_info is a compliant one)
                      !.mutated = IF ev.k # "self" \/ (ev.mut # <<>> /\ ~(ev.t = 2 /\ ev.mut = <<"ri">> /\ m.ri = "correct"))
                                  THEN st.mutated \cup {ev.h} ELSE st.mutated,
                      !.shRandMut = st.shRandMut \/ (ev.t = 2 /\ "canary" \in Range(ev.mut))]
  /\ rej' = rej
OnSM1(ev, m) == OnSM2(ev, m, Deliver(st.cl, st.cfg, m))
OnSMSG(ev) == OnSM1(ev, Abs(ev))

\* ---- Ret: the outcome of the client call that carried handshake h
Compliant(h) == h \notin st.mutated /\ st.unused = 0
CSProblems(cs) ==
  LET cl == st.cl IN
     (IF cs.version # cl.vers THEN {"version"} ELSE {})
  \cup (IF cs.suite # cl.suite THEN {"suite"} ELSE {})
  \cup (IF cs.resumed # cl.resumed THEN {"did-resume"} ELSE {})
  \cup (IF cs.proto # cl.alpn THEN {"alpn"} ELSE {})
  \cup (IF cs.leaf # cl.leaf THEN {"peer-certificate"} ELSE {})
  \cup (IF (cs.nchains > 0) # cl.verified THEN {"verified-chains"} ELSE {})
  \cup (IF cs.scts # cl.scts THEN {"scts"} ELSE {})
  \* the stapled response of this handshake (full) or of the session (resumed); a renegotiation without a status message keeps the old one
  \cup (IF (cl.resumed \/ cl.hs = 1 \/ cl.ocsp # <<>>) /\ cs.ocsp # cl.ocsp THEN {"ocsp"} ELSE {})
  \cup (IF ~cs.complete THEN {"handshake-complete"} ELSE {})
OnHandshakeRet(ev) ==
  LET cl == st.cl
      h == ev.h
      dl == st.scn.deadline_ms IN
  /\ st' = [st EXCEPT !.hsOK[h] = ev.ok, !.cliErr = ~ev.ok,
                      \* the cache follows the real outcome: a ticket is stored on success, an offered session is dropped on failure
                      !.cache = IF ev.ok THEN CacheAfter(st.cache, cl) ELSE IF Evicts(cl) THEN NoSess ELSE st.cache,
                      !.cfg = [st.cfg EXCEPT !.policy = ev.policy]]
  /\ rej' = rej
       \* C33: the call returns, does not panic, within the deadline (plus scheduling slack)
       \cup (IF ev.origin = "panic" THEN Fail("C33", "panic", <<ev.err, ev.stack>>) ELSE {})
       \cup (IF ev.ms > dl + 2000 THEN Fail("C33", "deadline", <<ev.ms, dl>>) ELSE {})
       \* safety: a client that must abort (or refuse) never reports success
       \cup (IF ev.ok /\ cl.must # "" THEN Fail(PropOf(cl.must), "accepted", cl.must) ELSE {})
       \cup (IF ev.ok /\ cl.must = "" /\ Waiting(cl) THEN Fail("X12", "accepted", <<"completed-while-the-flight-is-incomplete", cl.pc>>) ELSE {})
       \cup (IF ev.ok /\ cl.pc = "Start" THEN Fail("X12", "accepted", "completed-without-a-hello") ELSE {})
       \* progress: nothing wrong with an unmodified flight => the client completes (C10); the policy allows a renegotiation => it happens
       \cup (IF ~ev.ok /\ ev.origin = "local" /\ cl.pc = "Done" /\ Compliant(h) THEN Fail("C10", "progress", <<"client-abort-on-acceptable-flight", ev.err>>) ELSE {})
       \cup (IF ~ev.ok /\ ev.origin = "local" /\ cl.must = "" /\ Waiting(cl) /\ Compliant(h) THEN Fail("C10", "progress", <<"client-abort-in-state", cl.pc, ev.err>>) ELSE {})
       \cup (IF ~ev.ok /\ cl.pc = "Done" /\ Compliant(h) /\ ev.origin # "local" /\ ev.origin # "panic" /\ (\A g \in 0..h : g \notin st.mutated)
                /\ ~SrvDemandsCert(h)
             THEN Fail("C10", "progress", <<"compliant-handshake-failed", ev.origin, ev.err>>) ELSE {})
       \cup (IF ~ev.ok /\ ev.origin = "local" /\ cl.pc = "Start" /\ cl.hs > 0 /\ Compliant(h)
             THEN Fail("X12", "reneg", <<"renegotiation-refused-although-the-policy-allows-it", st.cfg.policy, cl.hs, ev.err>>) ELSE {})
       \* the client's flight is complete
       \cup (IF ev.ok /\ cl.pc = "Done" /\ st.outIdx # Len(cl.out) THEN Fail("X12", "flight", <<"client-messages-missing", st.outIdx, Len(cl.out)>>) ELSE {})
       \* what the connection reports
       \cup (IF ev.ok /\ cl.pc = "Done" THEN {<<st.sc, IF p \in {"peer-certificate", "verified-chains"} THEN "C14" ELSE IF p = "did-resume" THEN "C19" ELSE "C11",
                                                 "state", ToString(p)>> : p \in CSProblems(ev.cs)} ELSE {})
       \* the restated properties on the model state that explains a success
       \cup (IF ev.ok /\ cl.pc = "Done" /\ ~OfferedOnly(cl) THEN Fail("C12", "accepted", "unoffered-value-in-established-state") ELSE {})
       \cup (IF ev.ok /\ cl.pc = "Done" /\ ~VerifiedIdentity(cl, st.cfg) THEN Fail("C14", "accepted", "unverified-identity") ELSE {})
       \cup (IF ev.ok /\ cl.pc = "Done" /\ ~ResumedAsOffered(cl) THEN Fail("C19", "accepted", "resumed-something-else") ELSE {})
       \cup (IF ev.ok /\ cl.pc = "Done" /\ ~FinishedOrder(cl) THEN Fail("X12", "flight", "finished-order") ELSE {})

\* ---- Echo: application data after handshake h; both sides' views agree (C11)
OnEchoRet(ev) ==
  LET s == st.srv[ev.h] IN
  /\ st' = [st EXCEPT !.cliErr = ~ev.ok]
  /\ rej' = rej
       \cup (IF ev.origin = "panic" THEN Fail("C33", "panic", <<ev.err, ev.stack>>) ELSE {})
       \cup (IF ~ev.ok /\ s.seen /\ s.ok /\ Compliant(ev.h) THEN Fail("C11", "echo", <<"data-exchange-failed-after-both-handshakes-succeeded", ev.err>>) ELSE {})
       \cup (IF ev.ok /\ ~(s.seen /\ s.ok) THEN Fail("X12", "order", "echo-without-server-handshake") ELSE {})
       \cup (IF ev.ok /\ s.seen /\ s.ok THEN
               {<<st.sc, "C11", "agree", ToString(p)>> : p \in
                   (IF ev.cs.version # s.ss.version THEN {"version"} ELSE {})
                   \cup (IF ev.cs.suite # s.ss.suite THEN {"suite"} ELSE {})
                   \cup (IF ev.cs.proto # s.ss.proto THEN {"alpn"} ELSE {})
                   \cup (IF ev.cs.resumed # s.ss.resumed THEN {"did-resume"} ELSE {})
                   \cup (IF ev.cs.unique # s.ss.unique THEN {"tls-unique"} ELSE {})
                   \cup (IF ev.cs.sni # s.ss.sni THEN {"server-name"} ELSE {})} ELSE {})

OnRet(ev) ==
  IF ev.call = "Echo" THEN OnEchoRet(ev)
  \* a panic before the connection's first hello, with a session in the cache: the cached session broke the next handshake (C19);
  \* any other panic happened on server input (C33)
  ELSE IF ev.call = "panic" THEN /\ st' = [st EXCEPT !.cliErr = TRUE]
                                 /\ rej' = rej \cup Fail(IF st.cl.pc = "Start" /\ st.cl.hs = 0 /\ st.start.present THEN "C19" ELSE "C33", "panic", <<ev.err, ev.stack>>)
  ELSE OnHandshakeRet(ev)

OnSRet(ev) == /\ st' = [st EXCEPT !.srv[ev.h] = [seen |-> TRUE, ok |-> ev.ok, ss |-> ev.ss]]
              /\ rej' = rej

\* ---- Cache: the connection is over; the real cache equals the model's
OnCache(ev) ==
  LET c == st.cache IN
  /\ st' = st
  /\ rej' = rej
       \cup (IF st.scn.cache /\ (ev.present # c.present \/ (c.present /\ (ev.vers # c.vers \/ ev.suite # c.suite \/ ev.ems # c.ems \/ ev.ticket # c.ticket \/ ev.leaf # c.leaf)))
             THEN Fail("C19", "cache", <<"real", ev.present, ev.vers, ev.suite, ev.ems, "model", c.present, c.vers, c.suite, c.ems>>) ELSE {})
       \cup (IF ~st.scn.cache /\ ev.present THEN Fail("C19", "cache", "session-stored-without-a-cache") ELSE {})

Step == /\ l <= Len(Trace)
        /\ l' = l + 1
        /\ LET ev == Trace[l] IN
           CASE ev.ev = "Scn" -> OnScn(ev)
             [] ev.ev = "Conn" -> OnConn(ev)
             [] ev.ev = "CMSG" -> OnCMSG(ev)
             [] ev.ev = "SMSG" -> OnSMSG(ev)
             [] ev.ev = "Ret" -> OnRet(ev)
             [] ev.ev = "SRet" -> OnSRet(ev)
             [] ev.ev = "Cache" -> OnCache(ev)
             [] ev.ev = "Unused" -> st' = [st EXCEPT !.unused = st.unused + 1] /\ rej' = rej
             [] ev.ev = "End" -> st' = [st EXCEPT !.ended = TRUE] /\ rej' = rej
             [] OTHER -> st' = st /\ rej' = rej \cup Fail("X12", "order", <<"unknown-event", ev.ev>>)
Next == Step
Report == (l = Len(Trace) + 1) =>
            /\ PrintT(<<"DONE", l - 1>>)
            /\ \A r \in rej : PrintT(<<"REJ", ToJson(r)>>)
=============================================================================
