\* liveness: every Dial returns (weak fairness per caller)
CONSTANTS
  IDs = {"Chrome-120", "Firefox-120", "iOS-14"}
  None = "-"
  MaxSteps = 1
  MaxCallers = 2
SPECIFICATION Spec
PROPERTY Returns
CHECK_DEADLOCK FALSE
