\* liveness: every Dial returns (weak fairness per caller)
CONSTANTS
  IDs = {"Chrome-120", "Firefox-120", "Randomized"}
  RandIDs = {"Randomized"}
  Stalls = {{}, {"Chrome-120"}}
  Seeds = {1, 2, 3, 4, 5, 6}
  Canon = TRUE
  MaxSteps = 1
  MaxCallers = 2
SPECIFICATION Spec
PROPERTY Returns
CHECK_DEADLOCK FALSE
