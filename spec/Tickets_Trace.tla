---------------------------- MODULE Tickets_Trace ----------------------------
(***************************************************************************)
(* Validates what harness/cmd/lru (commands tickets, forge) recorded from   *)
(* the real Config.EncryptTicket / DecryptTicket / SetSessionTicketKeys /   *)
(* TicketKeyFromBytes / MakeClientSessionState against Tickets.             *)
(*                                                                         *)
(* tickets_trace.ndjson: executions separated by Reset{id}.  Events:       *)
(*   SetKeys {keys}            SetSessionTicketKeys with these key ids     *)
(*   Advance {h}               Config.Time moved on by h hours             *)
(*   Encrypt {t, st, err, len, state}   ticket number t returned by        *)
(*                             EncryptTicket for state id st; state = the  *)
(*                             bytes of SessionState.Bytes() of the input  *)
(*   Flip {t, src, bit, len} / Truncate {t, src, len} / Extend {t, src, len}*)
(*                             ticket t derived from ticket src            *)
(*   Decrypt {src, ok, err, state}   DecryptTicket(ticket src): ok = a     *)
(*                             state came back; state = its Bytes()        *)
(*   Indep {src, key, ok, state}     ticket src opened with                *)
(*                             TicketKeyFromBytes(key).AesKey/.HmacKey only*)
(*   Recheck {d, state}        Bytes() NOW of the state object the d-th     *)
(*                             successful DecryptTicket returned (kept by   *)
(*                             the harness, never copied)                   *)
(*   Reread {src, raw}         the bytes NOW of the slice EncryptTicket     *)
(*                             returned for ticket src (Encrypt logs raw)   *)
(*   Forge {p, o}              a forged ClientSessionState offered to a    *)
(*                             server (p: supplied, o: observed)           *)
(*   Secret {secvia, supplied, got}  the bytes MasterSecret() returned for *)
(*                             a state whose secret was supplied through   *)
(*                             MakeClientSessionState / SetMasterSecret    *)
(* Byte strings are compared here, not in the harness.                     *)
(***************************************************************************)
EXTENDS Tickets, TLC, Json

Trace == ndJsonDeserialize("tickets_trace.ndjson")
N == Len(Trace)
VARIABLES l, base, id, bad
Ev == Trace[l]

Init == l = 1 /\ base = 0 /\ id = 0 /\ bad = FALSE /\ TkInit
Step == l' = l + 1 /\ UNCHANGED <<base, id, bad>>
Is(k) == l <= N /\ ~bad /\ Ev.ev = k

TReset == /\ l <= N /\ Ev.ev = "Reset"
          /\ explicit' = <<>> /\ auto' = <<>> /\ nauto' = 0 /\ now' = 0 /\ tix' = <<>> /\ held' = <<>>
          /\ l' = l + 1 /\ base' = l /\ id' = Ev.id /\ bad' = FALSE

ObsRes == [ok |-> Ev.ok, st |-> Ev.state]
NewTicket == Ev.t = Len(tix) + 1 /\ Len(tix') = Ev.t /\ tix'[Ev.t].len = Ev.len

DoSetKeys == SetKeys(Ev.keys)
DoAdvance == Advance(Ev.h)
DoEncrypt == Ev.err = "" /\ Ev.len > 0 /\ Len(Ev.state) > 0 /\ Len(Ev.raw) = Ev.len /\ Encrypt(Ev.state, Ev.len, Ev.raw) /\ NewTicket
DoFlip == Flip(Ev.src, Ev.bit) /\ NewTicket
DoTruncate == Truncate(Ev.src, Ev.len) /\ NewTicket
DoExtend == Ev.src \in 1..Len(tix) /\ Extend(Ev.src, Ev.len - tix[Ev.src].len) /\ NewTicket
DoDecrypt == Ev.err = "" /\ Decrypt(Ev.src, ObsRes)
DoIndep == Indep(Ev.src, Ev.key, ObsRes)
DoRecheck == Recheck(Ev.d, Ev.state)
DoReread == Reread(Ev.src, Ev.raw)
DoForge == ForgeOutcome(Ev.p, Ev.o) /\ UNCHANGED tkVars
DoSecret == SecretKept(Ev.supplied, Ev.got) /\ UNCHANGED tkVars

TSetKeys == Is("SetKeys") /\ DoSetKeys /\ Step
TAdvance == Is("Advance") /\ DoAdvance /\ Step
TEncrypt == Is("Encrypt") /\ DoEncrypt /\ Step
TFlip == Is("Flip") /\ DoFlip /\ Step
TTruncate == Is("Truncate") /\ DoTruncate /\ Step
TExtend == Is("Extend") /\ DoExtend /\ Step
\* DecryptTicket split by the branch of the model (for the coverage / vacuity report)
SrcOk == Ev.src \in 1..Len(tix)
TDecryptOpens == Is("Decrypt") /\ SrcOk /\ Opens(tix[Ev.src], KeysInUse) /\ DoDecrypt /\ Step
TDecryptKeyGone == Is("Decrypt") /\ SrcOk /\ Intact(tix[Ev.src]) /\ ~Opens(tix[Ev.src], KeysInUse) /\ DoDecrypt /\ Step
TDecryptModified == Is("Decrypt") /\ SrcOk /\ ~Intact(tix[Ev.src]) /\ DoDecrypt /\ Step
TIndepOpens == Is("Indep") /\ SrcOk /\ Opens(tix[Ev.src], <<Ev.key>>) /\ DoIndep /\ Step
TIndepRefuses == Is("Indep") /\ SrcOk /\ ~Opens(tix[Ev.src], <<Ev.key>>) /\ DoIndep /\ Step
TRecheck == Is("Recheck") /\ DoRecheck /\ Step
TReread == Is("Reread") /\ DoReread /\ Step
TForgeResumed == Is("Forge") /\ Ev.o.cresumed /\ Ev.p.vers # TLS13 /\ DoForge /\ Step
TForgeNotResumed == Is("Forge") /\ ~Ev.o.cresumed /\ DoForge /\ Step
TForgeResumed13 == Is("Forge") /\ Ev.o.cresumed /\ Ev.p.vers = TLS13 /\ DoForge /\ Step
TSecret == Is("Secret") /\ DoSecret /\ Step

Explained == \/ Ev.ev = "SetKeys" /\ ENABLED DoSetKeys
             \/ Ev.ev = "Advance" /\ ENABLED DoAdvance
             \/ Ev.ev = "Encrypt" /\ ENABLED DoEncrypt
             \/ Ev.ev = "Flip" /\ ENABLED DoFlip
             \/ Ev.ev = "Truncate" /\ ENABLED DoTruncate
             \/ Ev.ev = "Extend" /\ ENABLED DoExtend
             \/ Ev.ev = "Decrypt" /\ ENABLED DoDecrypt
             \/ Ev.ev = "Indep" /\ ENABLED DoIndep
             \/ Ev.ev = "Recheck" /\ ENABLED DoRecheck
             \/ Ev.ev = "Reread" /\ ENABLED DoReread
             \/ Ev.ev = "Forge" /\ ENABLED DoForge
             \/ Ev.ev = "Secret" /\ ENABLED DoSecret
\* what the model says about the event (diagnostics only)
Why == IF Ev.ev \in {"Decrypt", "Indep"} /\ SrcOk
       THEN LET t == tix[Ev.src]
                ks == IF Ev.ev = "Decrypt" THEN KeysInUse ELSE <<Ev.key>> IN
            [intact |-> Intact(t), keyconfigured |-> t.key \in Range(ks), modelok |-> Opens(t, ks),
             sameState |-> (Ev.state = t.st), implok |-> Ev.ok]
       ELSE IF Ev.ev = "Forge"
       THEN [accepted |-> TicketAccepted(Ev.p), carries |-> ResumedCarriesSupplied(Ev.p, Ev.o), completed |-> Completed(Ev.o), resumed |-> Ev.o.cresumed]
       ELSE IF Ev.ev = "Recheck"
       THEN [d |-> Ev.d, known |-> (Ev.d \in 1..Len(held)),
             becameOther |-> (\E i \in 1..Len(tix) : tix[i].sealed /\ tix[i].st = Ev.state), nowlen |-> Len(Ev.state)]
       ELSE IF Ev.ev = "Reread"
       THEN [src |-> Ev.src, nowlen |-> Len(Ev.raw)]
       ELSE IF Ev.ev = "Secret"
       THEN [suppliedlen |-> Len(Ev.supplied), gotlen |-> Len(Ev.got), secvia |-> Ev.secvia]
       ELSE [unexplained |-> Ev.ev]
TFail == /\ l <= N /\ ~bad /\ Ev.ev # "Reset" /\ ~Explained
         /\ PrintT(<<"REJ", ToJson([id |-> id, at |-> l - base, kind |-> Ev.ev, why |-> Why])>>)
         /\ bad' = TRUE /\ l' = l + 1 /\ UNCHANGED <<base, id>>
         /\ explicit' = <<>> /\ auto' = <<>> /\ nauto' = 0 /\ now' = 0 /\ tix' = <<>> /\ held' = <<>>
TSkip == /\ l <= N /\ bad /\ Ev.ev # "Reset"
         /\ l' = l + 1 /\ UNCHANGED <<base, id, bad>> /\ UNCHANGED tkVars

Next == TReset \/ TSetKeys \/ TAdvance \/ TEncrypt \/ TFlip \/ TTruncate \/ TExtend
        \/ TDecryptOpens \/ TDecryptKeyGone \/ TDecryptModified \/ TIndepOpens \/ TIndepRefuses
        \/ TRecheck \/ TReread \/ TForgeResumed \/ TForgeResumed13 \/ TForgeNotResumed \/ TSecret \/ TFail \/ TSkip

AtEnd == l = N + 1 \/ (l <= N /\ Ev.ev = "Reset")
Report == /\ (AtEnd /\ l > 1 /\ ~bad) => PrintT(<<"OK", id>>)
          /\ (l = N + 1) => PrintT(<<"DONE", N>>)
=============================================================================
