CONSTANTS
  Lat = {0}
  MaxList = 3
INIT InitTPEmit
NEXT Next
INVARIANT TPLaws
CHECK_DEADLOCK FALSE
