CONSTANT Full = FALSE
INIT Init
NEXT Next
CONSTRAINT Emit
CHECK_DEADLOCK FALSE
