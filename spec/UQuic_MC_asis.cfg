\* safety, free pump, mechanism AS CODED: NoStuckCaller is expected to fail (D5)
CONSTANTS
  FixEarlyReturn = FALSE
  Builds = {"ok", "noname", "unset", "minver12"}
  HRRs = {FALSE, TRUE}
  MaxCut = 1
INIT Init
NEXT Next
VIEW View
INVARIANTS WriteBeforeRead AppReadAfterDone TPOnce OnlyHandshakeData DoneMeansComplete NoStuckCaller CompletesWhenPumped
CHECK_DEADLOCK FALSE
