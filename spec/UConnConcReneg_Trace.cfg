CONSTANT LockBeforeClear = TRUE
INIT InitTrace
NEXT NextTrace
CONSTRAINT Report
INVARIANT SafetyReneg
CHECK_DEADLOCK FALSE
