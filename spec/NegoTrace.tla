------------------------------ MODULE NegoTrace ------------------------------
(***************************************************************************)
(* Trace specification for the Negotiation family (C10-C13, C17, C18).     *)
(* Events (harness cmd nego, chronological per scenario):                  *)
(*   Scn    the scenario (client id, server configuration, overrides)      *)
(*   CH k   k-th ClientHello as written to the transport                   *)
(*   SMSG t every plaintext handshake message of the server, before        *)
(*          encryption (hook H2), t = handshake type                       *)
(*   Result both errors with origin, both ConnectionStates, exporters      *)
(* Every event is consumed (the handlers are total); what the              *)
(* specification does not allow is collected in rej as                     *)
(* <<scenario, kind, detail>>; kinds: safety (completed although the       *)
(* specification demands an abort), progress, agree, share, ch2, order.    *)
(***************************************************************************)
EXTENDS Negotiation
Trace == ndJsonDeserialize("nego_trace.ndjson")

VARIABLES l, st, rej
vars == <<l, st, rej>>

Idle == [sc |-> -1, scn |-> [id |-> "", mode |-> ""], nch |-> 0, raw1 |-> <<>>, o |-> NoOffer, o1 |-> NoOffer,
         hrrSeen |-> FALSE, hrr |-> BadSH, nHRR |-> 0, shSeen |-> FALSE, sh |-> BadSH, must |-> "", seen |-> {}, done |-> FALSE]
Init == l = 1 /\ st = Idle /\ rej = {}

SpecMinOf(id) == IF id \in IDs THEN EffMin(Specs[id]) ELSE 769
Fail(kind, detail) == {<<st.sc, kind, ToString(detail)>>}

\* ---- Scn: a new scenario starts; the previous one must have reported its result
OnScn(ev) == /\ st' = [Idle EXCEPT !.sc = ev.sc, !.scn = ev]
             /\ rej' = rej \cup (IF st.sc >= 0 /\ ~st.done THEN Fail("order", "no-result") ELSE {})

\* ---- CH: SendCH1 / SendCH2
\* C17 speaks about classical groups, no PSK, no real ECH
InC17Scope == st.o1.npsk = 0 /\ SHGroup(st.hrr) \in {23, 24, 25, 29}
OnCH(ev) ==
  LET o == WireOffer(ev.raw, SpecMinOf(st.scn.id)) IN
  IF ev.k = 1 THEN
     /\ st' = [st EXCEPT !.nch = 1, !.raw1 = ev.raw, !.o = o, !.o1 = o]
     /\ rej' = rej \cup (IF ~o.ok THEN Fail("share", "unparsable-hello") ELSE {})
                   \cup {<<st.sc, "share", ToString(p)>> : p \in ShareProblems(o)}
  ELSE
     /\ st' = [st EXCEPT !.nch = 2, !.o = o]
     /\ rej' = rej \cup (IF ~st.hrrSeen THEN Fail("order", "second-hello-without-hrr") ELSE {})
                   \cup (IF st.hrrSeen /\ st.must # "" THEN Fail("safety", <<"continued-after", st.must>>) ELSE {})
                   \cup (IF st.hrrSeen /\ st.must = "" /\ InC17Scope
                         THEN {<<st.sc, "ch2", ToString(p)>> : p \in CH2Problems(st.raw1, ev.raw, st.hrr)} ELSE {})
                   \cup {<<st.sc, "share", ToString(p)>> : p \in ShareProblems(o)}

\* ---- SMSG: the client's required reaction to each server message
First(a, b) == IF a # "" THEN a ELSE b
OnSMSG(ev) ==
  /\ rej' = rej
  /\ IF ev.t = 2 THEN
       LET sh == ParseSH(ev.raw) IN
       IF ~sh.ok THEN st' = [st EXCEPT !.must = First(st.must, "malformed-server-hello"), !.seen = st.seen \cup {2}]
       ELSE IF IsHRR(sh) THEN
            st' = [st EXCEPT !.must = First(st.must, CheckHRR(st.o, sh, st.nHRR)), !.hrr = sh, !.hrrSeen = TRUE, !.nHRR = st.nHRR + 1]
       ELSE st' = [st EXCEPT !.must = First(st.must, First(CheckSH(st.o, sh, st.hrrSeen, st.hrr), CheckKx(st.scn, SHGroup(sh)))), !.sh = sh, !.shSeen = TRUE, !.seen = st.seen \cup {2}]
     ELSE IF ev.t = 8 /\ ev.len = Len(ev.raw) THEN
       st' = [st EXCEPT !.must = First(st.must, CheckEE(st.o, ParseEE(ev.raw))), !.seen = st.seen \cup {8}]
     ELSE IF ev.t = 12 THEN
       st' = [st EXCEPT !.must = First(st.must, CheckSKE(st.o, ev.raw)), !.seen = st.seen \cup {12}]
     ELSE IF ev.t = 25 THEN
       st' = [st EXCEPT !.must = First(st.must, CheckCC(st.o, ev.raw)), !.seen = st.seen \cup {25}]
     ELSE st' = [st EXCEPT !.seen = st.seen \cup {ev.t}]

\* ---- Result: Finish
Version == IF st.shSeen THEN SHVersion(st.sh) ELSE 0
\* the server has sent everything the client needs to finish its side
FlightComplete == st.shSeen /\ (IF Version = 772 THEN 20 \in st.seen ELSE 14 \in st.seen)
Compliant == st.scn.mode = "compliant"
\* ---- application settings: what the client must expose and send (u_handshake_client.go utlsReadServerParameters,
\*      sendClientEncryptedExtensions); the client's EncryptedExtensions is read by the hooked server (H7)
ClientSettingsFor(scn, proto) == IF scn.client_alps # "has" THEN <<>>
                                 ELSE IF "client_alps_len" \in DOMAIN scn /\ scn.client_alps_len > 0
                                         /\ proto \in {<<104,50>>, <<104,116,116,112,47,49,46,49>>}
                                 THEN [i \in 1..scn.client_alps_len |-> (7 * (i - 1) + 3) % 256]
                                 ELSE IF proto = <<104,50>> THEN <<67,76,78,84>>
                                 ELSE IF proto = <<104,116,116,112,47,49,46,49>> THEN <<67,76,78,49>> ELSE <<>>
ClientEEAlps(raw, cp) == LET ee == ParseEE(raw) IN
                         LET I == {i \in DOMAIN ee : ~ee[i].bad /\ ee[i].type = cp} IN
                         IF raw = <<>> \/ I = {} THEN <<-1>> ELSE ee[CHOOSE i \in I : TRUE].body
AlpsProblems(scn, ev, v) ==
     (IF ev.cok /\ v = 772 /\ ev.peer_alps # scn.alps_settings THEN {"server-settings-not-exposed"} ELSE {})
  \cup (IF ev.cok /\ v = 772 /\ ClientEEAlps(ev.client_ee, scn.alps_cp) # ClientSettingsFor(scn, ev.cs.proto)
        THEN {"client-settings-not-sent-as-configured"} ELSE {})
  \cup (IF ev.cok /\ v < 772 /\ ev.peer_alps # <<>> THEN {"settings-accepted-below-1.3"} ELSE {})
  \* the server's flight was acceptable and complete, the client answered, and the (in-tree, self-consistent) server refuses
  \* that answer with an alert: the client's second flight (its EncryptedExtensions with the settings, Finished) is wrong
  \cup (IF ~ev.cok /\ v = 772 /\ st.must = "" /\ FlightComplete /\ ev.corigin = "alert" THEN {"server-refused-client-flight"} ELSE {})
OnResult(ev) ==
  /\ st' = [st EXCEPT !.done = TRUE]
  /\ rej' = rej
       \* safety: a client that must abort never completes, and never reports the unoffered value
       \* (hsok: the client's Handshake returned nil, whatever happened to the data exchange afterwards)
       \cup (IF st.must # "" /\ (ev.cok \/ ev.hsok) THEN Fail("safety", st.must) ELSE {})
       \cup (IF st.must # "" /\ ~ev.cok /\ ~ev.hsok /\ ev.corigin = "transport" /\ FlightComplete THEN Fail("timeout", st.must) ELSE {})
       \* progress: nothing wrong with the server's messages => the client completes and data round-trips
       \cup (IF st.must = "" /\ FlightComplete /\ ~ev.cok /\ ev.corigin \in {"local", "transport"}
             THEN Fail("progress", <<"client-abort-on-acceptable-flight", ev.corigin>>) ELSE {})
       \cup (IF st.must = "" /\ st.hrrSeen /\ st.nch < 2 /\ ~ev.cok THEN Fail("progress", "no-second-hello-after-valid-hrr") ELSE {})
       \cup (IF st.must = "" /\ ~FlightComplete /\ ~ev.cok /\ ev.corigin = "local" THEN Fail("progress", "client-local-abort") ELSE {})
       \cup (IF ev.cok /\ ev.sok /\ ~ev.echo THEN Fail("progress", "echo") ELSE {})
       \cup (IF ev.cok /\ ~ev.sok THEN Fail("progress", "server-failed-after-client-done") ELSE {})
       \* a compliant server may refuse only what it cannot select
       \cup (IF Compliant /\ st.must = "" /\ ~ev.cok /\ ev.corigin # "local" /\ st.o.ok /\ ServerCanSelect(st.o1, st.scn)
             THEN Fail("progress", <<"server-refused-selectable-offer", ev.sorigin>>) ELSE {})
       \cup (IF Compliant /\ ev.cok /\ st.o.ok /\ ~ServerCanSelect(st.o1, st.scn) THEN Fail("calibration", "server-selected-what-the-model-excludes") ELSE {})
       \* agreement
       \cup (IF ev.cok /\ ev.sok THEN {<<st.sc, "agree", ToString(p)>> : p \in AgreeProblems(ev.cs, ev.ss, st.o, ev.cekm, ev.sekm)} ELSE {})
       \* application settings (C22)
       \cup (IF st.scn.alps_cp # 0 THEN {<<st.sc, "alps", ToString(p)>> : p \in AlpsProblems(st.scn, ev, Version)} ELSE {})
       \* the client's view never shows an unoffered value
       \cup (IF ev.cok /\ st.o.ok /\ (ev.cs.version \notin st.o.versions \/ ev.cs.suite \notin st.o.suites
                                      \/ (ev.cs.proto # <<>> /\ ev.cs.proto \notin st.o.alpn))
             THEN Fail("safety", "connection-state-shows-unoffered-value") ELSE {})

Step == /\ l <= Len(Trace)
        /\ l' = l + 1
        /\ LET ev == Trace[l] IN
           CASE ev.ev = "Scn" -> OnScn(ev)
             [] ev.ev = "CH" -> OnCH(ev)
             [] ev.ev = "SMSG" -> OnSMSG(ev)
             [] ev.ev = "Result" -> OnResult(ev)
             [] OTHER -> st' = st /\ rej' = rej \cup Fail("order", <<"unknown-event", ev.ev>>)
Next == Step
Report == (l = Len(Trace) + 1) =>
            /\ PrintT(<<"DONE", l - 1>>)
            /\ \A r \in rej : PrintT(<<"REJ", ToJson(r)>>)
=============================================================================
