CONSTANTS
  MaxLen = 3
  Classes = {"custom"}
  Servers = {"plain"}
  Modes = {"never", "before", "nosess", "both"}
  Kinds = {"EditSuites", "BBuild", "BPoke"}
  SNIAll = FALSE
  SkipVerify = FALSE
  FixRemoveSNI = TRUE
INIT Init
NEXT Next
INVARIANT WireIsRaw
INVARIANT EditsVisible
INVARIANT RawIsLastSent
INVARIANT NothingSentWhenRefused
INVARIANT Emit
CHECK_DEADLOCK FALSE
