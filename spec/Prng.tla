------------------------------- MODULE Prng -------------------------------
(***************************************************************************)
(* The seeded PRNG of u_prng.go (C30).                                      *)
(*                                                                          *)
(* Mechanism: one SHAKE256 output stream per seed and a position in it,     *)
(* protected by randomStreamMutex (u_prng.go:108-118). Everything the type  *)
(* hands out is cut from that stream:                                       *)
(*   Read(b)            the next len(b) bytes                (u_prng.go:110) *)
(*   Uint64 / Int63     the next 8 bytes (big endian) / with the top bit     *)
(*                      cleared                           (u_prng.go:121-131)*)
(*   Intn, Int63n, Range, FlipWeightedCoin                                   *)
(*                      some whole number of 8-byte words (math/rand's       *)
(*                      rejection sampling decides how many) and a result    *)
(*                      constrained ONLY by the guards the property states   *)
(*                      (u_prng.go:147-187)                                  *)
(* The stream itself (SHAKE256) is not modelled: S below is a parameter,     *)
(* the reference stream of the same seed recorded from a separate run of     *)
(* the real code. "Deterministic" = every run is explained with the same S.  *)
(*                                                                          *)
(* Concurrency: a call is Call -> Lin -> Ret; Lin is the critical section    *)
(* under the mutex (it takes the next contiguous slice), Call and Ret are    *)
(* what a caller can observe. Prng_MC refines Lin into lock/copy/unlock.     *)
(*                                                                          *)
(* TLC integers are 32 bit: Go's int/int64/float64 values are 8-byte         *)
(* big-endian sequences (two's complement / IEEE-754 bits); order and        *)
(* classification are defined on the bytes.                                  *)
(***************************************************************************)
EXTENDS Integers, Sequences, FiniteSets, TLC

\* ---------- 64-bit values as bytes ----------------------------------------
IsBytes(b) == \A i \in DOMAIN b : b[i] \in 0..255
IsB8(x) == Len(x) = 8 /\ IsBytes(x)
Zero8 == <<0, 0, 0, 0, 0, 0, 0, 0>>
Neg(x) == x[1] >= 128                                  \* sign bit of a two's complement value
ULt(a, b) == \E i \in 1..Len(a) : (\A j \in 1..(i-1) : a[j] = b[j]) /\ a[i] < b[i]
\* signed order: different signs -> the negative one is smaller; same sign -> unsigned order of the bytes
SLt(a, b) == IF Neg(a) # Neg(b) THEN Neg(a) ELSE ULt(a, b)
SLe(a, b) == a = b \/ SLt(a, b)
Mask63(w) == <<w[1] % 128>> \o Tail(w)                  \* i & (1<<63 - 1)

\* ---------- float64 weights as IEEE-754 bits -------------------------------
FSign(w) == w[1] >= 128
FExp(w) == (w[1] % 128) * 16 + (w[2] \div 16)           \* biased exponent, 11 bits
FMantZero(w) == w[2] % 16 = 0 /\ \A i \in 3..8 : w[i] = 0
FNaN(w) == FExp(w) = 2047 /\ ~FMantZero(w)
FZero(w) == FExp(w) = 0 /\ FMantZero(w)
WeightLE0(w) == ~FNaN(w) /\ (FSign(w) \/ FZero(w))      \* weight <= 0.0 (includes -0.0, -Inf)
WeightGE1(w) == ~FNaN(w) /\ ~FSign(w) /\ FExp(w) >= 1023 \* weight >= 1.0 (includes +Inf)

\* ---------- the guards the property states ---------------------------------
\* Intn / Int63n: 0 when n <= 0, otherwise a value in [0, n)
IntnOK(n, r) == IF SLe(n, Zero8) THEN r = Zero8 ELSE SLe(Zero8, r) /\ SLt(r, n)
\* Range: min is clamped to 0; the clamped min when max is below it; otherwise a value in [min, max]
RangeLo(min) == IF Neg(min) THEN Zero8 ELSE min
RangeOK(min, max, r) == LET lo == RangeLo(min) IN
                        IF SLt(max, lo) THEN r = lo ELSE SLe(lo, r) /\ SLe(r, max)
\* FlipWeightedCoin: false for weight <= 0; for weight >= 1 true unless one of the consumed words has Int63 = 0
\* (that is the property's "except with probability 2^-63", stated exactly); unconstrained in between and for NaN
Slice(S, at, n) == SubSeq(S, at + 1, at + n)
FlipOK(w, r, S, at, words) ==
  /\ WeightLE0(w) => r = FALSE
  /\ WeightGE1(w) => (r = TRUE \/ \E k \in 0..(words - 1) : Mask63(Slice(S, at + 8 * k, 8)) = Zero8)

\* ---------- the stream mechanism -------------------------------------------
VARIABLES pos,      \* bytes of the stream handed out so far
          pend      \* calls in progress: thread -> [op, len, lin, at]
pvars == <<pos, pend>>

MaxWords == 64      \* a helper uses at most this many words (rejection sampling: each retry has probability < 1/2)

PInit == pos = 0 /\ pend = <<>>
Without(f, t) == [u \in DOMAIN f \ {t} |-> f[u]]

Call(t, op, n) == /\ t \notin DOMAIN pend
                  /\ pend' = pend @@ (t :> [op |-> op, len |-> n, lin |-> FALSE, at |-> 0])
                  /\ UNCHANGED pos
\* the critical section (randomStreamMutex held): the call gets the next len bytes
Lin(t) == /\ t \in DOMAIN pend /\ ~pend[t].lin
          /\ pend' = [pend EXCEPT ![t].lin = TRUE, ![t].at = pos]
          /\ pos' = pos + pend[t].len
Result(S, p) == IF p.op = "Int63" THEN Mask63(Slice(S, p.at, 8)) ELSE Slice(S, p.at, p.len)
Ret(t, S, out) == /\ t \in DOMAIN pend /\ pend[t].lin
                  /\ pend[t].at + pend[t].len <= Len(S)
                  /\ out = Result(S, pend[t])
                  /\ pend' = Without(pend, t)
                  /\ UNCHANGED pos

\* a sequential call = Call;Lin;Ret of one caller in one step
SeqRead(S, n, out) == /\ pos + n <= Len(S) /\ Len(out) = n /\ out = Slice(S, pos, n)
                      /\ pos' = pos + n /\ UNCHANGED pend
SeqUint64(S, out) == SeqRead(S, 8, out)
SeqInt63(S, out) == /\ pos + 8 <= Len(S) /\ out = Mask63(Slice(S, pos, 8))
                    /\ pos' = pos + 8 /\ UNCHANGED pend
\* a helper takes `words` whole words
Consume(S, words) == /\ words \in 0..MaxWords /\ pos + 8 * words <= Len(S)
                     /\ pos' = pos + 8 * words /\ UNCHANGED pend
SeqIntn(S, n, r, words) == IntnOK(n, r) /\ Consume(S, words)
SeqRange(S, min, max, r, words) == RangeOK(min, max, r) /\ Consume(S, words)
SeqFlip(S, w, r, words) == FlipOK(w, r, S, pos, words) /\ Consume(S, words)
=============================================================================
