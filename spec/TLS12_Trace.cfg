INIT Init
NEXT Next
CONSTRAINT Report
CHECK_DEADLOCK FALSE
