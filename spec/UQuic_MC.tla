------------------------------ MODULE UQuic_MC ------------------------------
(* Bounded exhaustive configurations of UQuic with the free pump: every interleaving of Start / NextEvent /
   HandleData (whole chunk, or a cut at any unit, at most MaxCut cuts) / Cancel / Close on the two endpoints
   x every failure injection {input that cannot be built, input refused by Start, server refuses (ALPN),
   client refuses (certificate), cancelled context at any point, Close at any point} x HelloRetryRequest.
     UQuic_MC.cfg            safety,   FixEarlyReturn = TRUE   (must hold)
     UQuic_MC_asis.cfg       safety,   FixEarlyReturn = FALSE  (NoStuckCaller fails: the model-level face of D5)
     UQuic_MC_live.cfg       liveness, FixEarlyReturn = TRUE   (SPECIFICATION Spec: every call returns; a pumped handshake completes)
     UQuic_MC_live_asis.cfg  liveness, FixEarlyReturn = FALSE  (AlwaysReturns fails) *)
EXTENDS UQuic
\* the state without what was observed last: the safety configurations explore this view exhaustively
View == <<cfg, gvars, cpc, cside, carg, failed, pvars>>
=============================================================================
