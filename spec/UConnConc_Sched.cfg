INIT InitMC
NEXT NextSched
VIEW View
INVARIANT Safety
CONSTRAINT Emit
