------------------------------ MODULE C18Fresh ------------------------------
(* Freshness half of C18: across the recorded connections of one parrot no non-GREASE key share, client random or
   (non-empty) session id repeats.  One step per hello; the sets seen so far are the state. *)
EXTENDS TLSWire, Json
Trace == ndJsonDeserialize("c18_hellos.ndjson")
VARIABLES l, seenShare, seenRandom, seenSid, stale
Init == l = 1 /\ seenShare = {} /\ seenRandom = {} /\ seenSid = {} /\ stale = {}
Shares(h) == IF HasExtT(h,51) /\ IsVec16(ExtBody(h,51)) /\ SharesOK(ExtBody(h,51),3)
             THEN LET s == ParseShares(ExtBody(h,51),3) IN {s[i].data : i \in {j \in DOMAIN s : ~IsGrease16(s[j].group)}} ELSE {}
Next == /\ l <= Len(Trace) /\ l' = l + 1
        /\ LET h == ParseHello(Trace[l].raw) IN
           /\ seenShare' = seenShare \cup Shares(h)
           /\ seenRandom' = seenRandom \cup {h.random}
           /\ seenSid' = seenSid \cup (IF h.sid # <<>> THEN {h.sid} ELSE {})
           /\ stale' = stale \cup (IF Shares(h) \cap seenShare # {} THEN {<<"key-share", Trace[l].id>>} ELSE {})
                             \cup (IF h.random \in seenRandom THEN {<<"random", Trace[l].id>>} ELSE {})
                             \cup (IF h.sid # <<>> /\ h.sid \in seenSid THEN {<<"session-id", Trace[l].id>>} ELSE {})
                             \cup (IF ~h.ok THEN {<<"unparsable", Trace[l].id>>} ELSE {})
Report == (l = Len(Trace) + 1) => PrintT(<<"DONE", l - 1>>) /\ \A s \in stale : PrintT(<<"STALE", ToJson(s)>>)
=============================================================================
