---------------------------- MODULE Record_Trace ----------------------------
(***************************************************************************)
(* Trace validation for the record layer (C25, C27, C28).                  *)
(* record_trace.ndjson holds what cmd/record observed on real connections: *)
(* one Init event per scenario, then one event per API call / attacker     *)
(* step: wire record headers (from the recorded transport bytes), bytes    *)
(* returned by Read (run-length coded, lossless), error strings, the       *)
(* record-layer counters of both connections.  Each event must be          *)
(* explained by the corresponding step function of Record.tla applied to   *)
(* the current model state; the choices Record leaves open are taken from  *)
(* the observation.  An unexplained event is collected in rej (with the    *)
(* first law it breaks), the rest of that scenario is not judged, and      *)
(* validation resumes at the next Init: the batch is always read to its    *)
(* end.  The Go harness holds no expected value.                           *)
(***************************************************************************)
EXTENDS Record, Json, Bitwise

Trace == ndJsonDeserialize("record_trace.ndjson")
T == JsonDeserialize("suites.json")

VARIABLES l,      \* next event
          st,     \* Record state of the scenario being validated
          aux,    \* per-scenario data that is not record-layer state: stream pattern, keystream queries
          mode,   \* "run": judging | "skip": rest of the scenario is not judged
          rej,    \* {<<event index, scenario id, first broken law>>}
          stats   \* how often each kind of step was matched (vacuity check by the runner)
vars == <<l, st, aux, mode, rej, stats>>

Tags == {"Init.hs", "Init.forged", "Init.nil", "Init.free", "Write", "Write.dead", "Write.split", "Write.multi", "Write.zero",
         "Read", "Read.data", "Read.partial", "Read.zero", "Read.timeout", "Read.eof", "Read.error", "Read.alert", "Read.kuresp",
         "Read.peek", "Read.sticky", "KeyUpdate", "Close", "Mutate", "Keystream", "Keystream.again", "Keystream.err", "KsLaw", "Nonce",
         "Ramp.grow", "Ramp.full", "Ramp.off", "Proc", "Enable", "Enable.again", "Init.weakforged",
         "CloseWrite", "WriteDeadline", "Read.kublocked", "Write.blocked", "Read.halfclosed", "WritePadded", "WritePadded.long"}

\* the keystream queries a side has made at its current write position (epoch, seq), oldest first:
\* qs[i] = [n |-> requested length, ks |-> bytes returned]; forgotten when the side writes a record
NoKs == [has |-> FALSE, ep |-> 0, seq |-> 0, qs |-> <<>>]
\* proc: the process-global suite table state (Record!ProcInit ...) of the harness process the events come from;
\* it survives from scenario to scenario within one process history
NoAux == [sc |-> 0, pat |-> [x \in Sides |-> <<0>>], run |-> 1, ks |-> [x \in Sides |-> NoKs], khist |-> {}, proc |-> ProcInit]

ErrClass(e) == IF e = "" THEN "none" ELSE IF e = "EOF" THEN "eof" ELSE IF e = "i/o timeout" THEN "timeout" ELSE "error"
\* for calls that write, a passed write deadline is an error like any other
WErrClass(e) == IF ErrClass(e) = "timeout" THEN "error" ELSE ErrClass(e)

\* the byte at position p (0-based) of the stream side x writes in this scenario
StreamByte(a, x, p) == a.pat[x][((p \div a.run) % Len(a.pat[x])) + 1]

\* Read data is logged as runs <<value, count, start>> (start = offset of the run within the returned bytes)
DataOK(a, x, p, runs, m) ==
  /\ IF runs = <<>> THEN m = 0
     ELSE /\ runs[1][3] = 0
          /\ runs[Len(runs)][3] + runs[Len(runs)][2] = m
          /\ \A i \in 1..(Len(runs) - 1) : runs[i + 1][3] = runs[i][3] + runs[i][2]
  /\ \A i \in 1..Len(runs) :
       /\ runs[i][2] >= 1
       /\ \A t \in ((p + runs[i][3]) \div a.run)..((p + runs[i][3] + runs[i][2] - 1) \div a.run) :
             a.pat[x][(t % Len(a.pat[x])) + 1] = runs[i][1]

BE8(n) == <<0, 0, 0, 0, (n \div 16777216) % 256, (n \div 65536) % 256, (n \div 256) % 256, n % 256>>

\* model records vs the headers seen on the wire
HdrOK(q, rec, h) ==
  /\ h.t = OuterType(q, rec.typ)
  /\ h.v = RecVersion(q)
  /\ h.raw = h.n + 5
  /\ LET pr == PtRange(q, h.n) IN ~IsEmpty(pr) /\ pr.lo <= rec.hi + rec.pad /\ rec.lo + rec.pad <= pr.hi
WireOK(q, recs, hdrs) == Len(recs) = Len(hdrs) /\ \A i \in 1..Len(recs) : HdrOK(q, recs[i], hdrs[i])
\* AEAD with an 8-byte explicit nonce: utls uses the sequence number (halfConn.encrypt), which is what
\* GetOutKeystream relies on
HasNonce(q) == q.kind = "aead" /\ q.expl = 8
NonceOK(q, recs, hdrs) == HasNonce(q) => \A i \in 1..Min(Len(recs), Len(hdrs)) : hdrs[i].h = BE8(recs[i].seq)

\* the connections' own counters must be where the model is
SideOK(s, x, o) == o.o = s.wr[x].seq /\ o.i = s.rd[x].seq /\ o.b = s.rd[x].buf
StateOK(s, obs) == \A x \in Sides : SideOK(s, x, obs[x])

Out(why, s, a, tags, skip) == [why |-> why, s |-> s, a |-> a, tags |-> tags, skip |-> skip]
Bad(why, s, a) == Out(why, s, a, {}, TRUE)

\* any record written by x invalidates x's pending keystream query
ClearKs(a, ev) == [a EXCEPT !.ks = [x \in Sides |-> IF ev.wrote[x] # <<>> THEN NoKs ELSE a.ks[x]]]

(***************************************************************************)
(* Init                                                                    *)
(***************************************************************************)
\* ev.proc: the scenario is one call of a process history (the table is what the calls so far made it);
\* otherwise the process called EnableWeakCiphers first thing iff ev.weak
StepInit1(a, ev, weak) ==
  LET a0 == [NoAux EXCEPT !.sc = ev.sc, !.pat = [x \in Sides |-> ev.pat[x]], !.run = ev.run, !.proc = a.proc]
      nil == InitNil(ClassProfile("tls12")) IN
  IF ev.mode = "hs" THEN
     IF ~Negotiable(T, ev.vers, ev.suite, weak) THEN Bad("scenario-not-negotiable", nil, a0)
     ELSE IF ev.cerr # "" \/ ev.serr # "" THEN Bad("handshake-failed", nil, a0)
     ELSE IF ev.cvers # ev.vers \/ ev.svers # ev.vers \/ ev.csuite # ev.suite \/ ev.ssuite # ev.suite THEN Bad("negotiated-something-else", nil, a0)
     \* dynamic record sizing as the scenario configured it; the handshake flights count for bytesSent
     ELSE LET s == InitLiveAt(WithDyn(Profile(T, ev.vers, ev.suite), ev.dyn), [x \in Sides |-> ev.sent0[x]]) IN
          IF ~StateOK(s, ev.st) THEN Bad("init-counters", nil, a0)
          ELSE Out("", s, a0, {"Init.hs"}, FALSE)
  ELSE \* forged: MakeConnWithCompleteHandshake on both ends
     IF ~Supported(T, ev.suite, weak) THEN
        IF ev.cnil /\ ev.snil THEN Out("", nil, a0, {"Init.nil"}, TRUE) ELSE Bad("unsupported-suite-not-nil", nil, a0)
     ELSE IF ev.vers \notin OldVersions \/ ev.vers \notin ValidVersions(Info(T, ev.suite)) THEN Out("", nil, a0, {"Init.free"}, TRUE)
     ELSE IF ev.cnil \/ ev.snil THEN Bad("supported-suite-nil", nil, a0)
     \* (a forged connection has a default Config: dynamic record sizing on, nothing sent yet)
     ELSE LET s == InitForged(Profile(T, ev.vers, ev.suite), TRUE) IN
          IF ~StateOK(s, ev.st) THEN Bad("init-counters", nil, a0)
          ELSE Out("", s, a0, {"Init.forged"} \cup (IF ev.suite \notin Ids(T.base) THEN {"Init.weakforged"} ELSE {}), FALSE)
StepInit(a, ev) == StepInit1(a, ev, IF ev.proc THEN a.proc.weak ELSE ev.weak)

\* a fresh harness process / a call of EnableWeakCiphers in it
StepProc(s, a, ev) == Out("", s, [a EXCEPT !.proc = ProcInit], {"Proc"}, TRUE)
StepEnable(s, a, ev) == Out("", s, [a EXCEPT !.proc = ProcEnableWeak(a.proc)],
                            {"Enable"} \cup (IF a.proc.weak THEN {"Enable.again"} ELSE {}), TRUE)

(***************************************************************************)
(* Write                                                                   *)
(***************************************************************************)
KsLawApplies(a, x, recs, hdrs) ==
  /\ a.ks[x].has /\ Len(recs) >= 1 /\ Len(hdrs) >= 1
  /\ recs[1].ep = a.ks[x].ep /\ recs[1].seq = a.ks[x].seq
  /\ Len(hdrs[1].b) > 0
\* C28: keystream XOR next plaintext = ciphertext after the explicit nonce, for the first min(n, record) bytes;
\* EVERY query made at this position is judged against the record that was then actually written
KsLaw1(a, q, x, off, L1, b, k) ==
  LET cnt == Min(k.n, L1) IN
  /\ Len(k.ks) >= cnt /\ Len(b) >= q.expl + cnt
  /\ \A i \in 1..cnt : (k.ks[i] ^^ StreamByte(a, x, off + i - 1)) = b[q.expl + i]
KsLaw(a, q, x, off, recs, hdrs) ==
  \A j \in 1..Len(a.ks[x].qs) : KsLaw1(a, q, x, off, recs[1].lo, hdrs[1].b, a.ks[x].qs[j])

\* the records of this Write are exactly the ones dynamic record sizing prescribes from the ramp state the
\* model has reached (conn.go maxPayloadSizeForWrite): same number, same ciphertext lengths
RampOK(q, lens, hdrs) == Len(lens) = Len(hdrs) /\ \A i \in 1..Len(lens) : hdrs[i].n = CtLen(q, lens[i])
StepWrite1(s, a, ev, x, q, hdrs, r) ==
  IF ev.off # s.wr[x].sent THEN Bad("harness-offset", s, a)
  ELSE IF \E i \in 1..Len(ev.head) : ev.head[i] # StreamByte(a, x, ev.off + i - 1) THEN Bad("harness-pattern", s, a)
  ELSE IF ev.wrote[Peer(x)] # <<>> THEN Bad("peer-wrote-during-write", s, a)
  ELSE IF ~r.ok THEN Bad(IF s.wr[x].dead \/ s.wr[x].closed THEN "write-after-error-sent-records" ELSE "fragmentation", s, a)
  ELSE IF ev.ret # r.m \/ WErrClass(ev.err) # r.err THEN Bad("write-result", s, a)
  ELSE IF ~WireOK(q, r.wrote[x], hdrs) THEN Bad("record-header", s, a)
  ELSE IF ~NonceOK(q, r.wrote[x], hdrs) THEN Bad("explicit-nonce", s, a)
  ELSE IF ~StateOK(r.s, ev.st) THEN Bad("counters", s, a)
  ELSE IF r.err = "none" /\ ~RampOK(q, RampWrite(q, s.ramp[x], ev.n).lens, hdrs) THEN Bad("record-sizing", s, a)
  ELSE IF KsLawApplies(a, x, r.wrote[x], hdrs) /\ ~KsLaw(a, q, x, ev.off, r.wrote[x], hdrs) THEN Bad("keystream-xor", s, a)
  ELSE Out("", r.s, ClearKs(a, ev),
           {"Write"} \cup (IF r.err = "error" THEN {"Write.dead"} ELSE {})
                     \cup (IF r.err = "error" /\ r.s.wr[x].seq > s.wr[x].seq THEN {"Write.blocked"} ELSE {})
                     \cup (IF q.split /\ ev.n > 1 /\ r.err = "none" THEN {"Write.split"} ELSE {})
                     \cup (IF Len(hdrs) > 1 THEN {"Write.multi"} ELSE {})
                     \cup (IF ev.n = 0 THEN {"Write.zero"} ELSE {})
                     \cup (IF KsLawApplies(a, x, r.wrote[x], hdrs) THEN {"KsLaw"} ELSE {})
                     \cup (IF HasNonce(q) /\ hdrs # <<>> THEN {"Nonce"} ELSE {})
                     \cup (IF hdrs # <<>> /\ ~q.dyn THEN {"Ramp.off"} ELSE {})
                     \cup (IF Len(hdrs) > 1 /\ Ramping(q, s.ramp[x]) THEN {"Ramp.grow"} ELSE {})
                     \cup (IF hdrs # <<>> /\ q.dyn /\ ~Ramping(q, s.ramp[x]) THEN {"Ramp.full"} ELSE {}), FALSE)
\* what is known about the plaintext length of each record put on the wire comes from its ciphertext length
StepWrite(s, a, ev) ==
  StepWrite1(s, a, ev, ev.x, s.q, ev.wrote[ev.x],
             DoWrite(s, ev.x, ev.n, [i \in 1..Len(ev.wrote[ev.x]) |-> PtRange(s.q, ev.wrote[ev.x][i].n)]))

(***************************************************************************)
(* Read                                                                    *)
(***************************************************************************)
ReadChoices(ev) == {[L |-> ev.m + ev.st[ev.x].b, alert |-> al, peek |-> pk] : al \in BOOLEAN, pk \in BOOLEAN}
ReadMatches1(s, ev, x, r) ==
  /\ r.ok
  /\ r.m = ev.m /\ r.err = ErrClass(ev.err)
  /\ WireOK(s.q, r.wrote[x], ev.wrote[x]) /\ ev.wrote[Peer(x)] = <<>>
  /\ NonceOK(s.q, r.wrote[x], ev.wrote[x])
  /\ StateOK(r.s, ev.st)
ReadMatches(s, ev, ch) == ReadMatches1(s, ev, ev.x, DoRead(s, ev.x, ev.k, ch))
\* why no choice explains the event: compare with what the model does by default (for a Read that returned
\* nothing the record length is not observed: take the lower bound of the next application record)
RECURSIVE NextAppLo(_)
NextAppLo(lst) == IF lst = <<>> THEN 0 ELSE IF Head(lst).typ = "app" /\ Head(lst).hi > 0 THEN Head(lst).lo ELSE NextAppLo(Tail(lst))
ReadWhy1(ev, r) ==
  IF ~r.ok THEN (IF ev.m = 0 /\ ErrClass(ev.err) # "none" THEN "read-" \o ErrClass(ev.err) \o "-expected-data" ELSE "record-boundary")
  ELSE IF r.err # ErrClass(ev.err) THEN "read-" \o ErrClass(ev.err) \o "-expected-" \o (IF r.m > 0 THEN "data" ELSE r.err)
  ELSE IF r.m # ev.m THEN "read-length"
  ELSE IF ~StateOK(r.s, ev.st) THEN "counters"
  ELSE "records-written-by-reader"
ReadWhy(s, ev) ==
  ReadWhy1(ev, DoRead(s, ev.x, ev.k, [L |-> IF ev.m + ev.st[ev.x].b > 0 THEN ev.m + ev.st[ev.x].b ELSE NextAppLo(s.net[Peer(ev.x)]),
                                     alert |-> TRUE, peek |-> FALSE]))

StepRead2(s, a, ev, x, r) ==
  LET sticky == s.rd[x].buf = 0 /\ s.rd[x].err # "none" IN
  Out("", r.s, ClearKs(a, ev),
      {"Read"} \cup (IF ev.m > 0 THEN {"Read.data"} ELSE {})
               \cup (IF ev.m > 0 /\ r.s.rd[x].buf > 0 THEN {"Read.partial"} ELSE {})
               \cup (IF ev.k = 0 THEN {"Read.zero"} ELSE {})
               \cup (IF r.err = "timeout" THEN {"Read.timeout"} ELSE {})
               \cup (IF r.err = "eof" THEN {"Read.eof"} ELSE {})
               \cup (IF r.err = "error" /\ ~sticky THEN {"Read.error"} ELSE {})
               \cup (IF sticky /\ ev.k > 0 THEN {"Read.sticky"} ELSE {})
               \cup (IF \E i \in 1..Len(r.wrote[x]) : r.wrote[x][i].typ = "fatal" THEN {"Read.alert"} ELSE {})
               \cup (IF \E i \in 1..Len(r.wrote[x]) : r.wrote[x][i].typ = "ku" THEN {"Read.kuresp"} ELSE {})
               \cup (IF ev.m > 0 /\ r.err # "none" THEN {"Read.peek"} ELSE {})
               \* a requested key update was taken in by a side that could not answer it
               \cup (IF r.wrote[x] = <<>> /\ r.s.wr[x].seq > s.wr[x].seq /\ r.s.rd[x].ep > s.rd[x].ep THEN {"Read.kublocked"} ELSE {})
               \cup (IF ev.m > 0 /\ (s.wr[x].shut \/ s.wr[x].exp) THEN {"Read.halfclosed"} ELSE {}), FALSE)
StepRead1(s, a, ev, cands) ==
  IF cands = {} THEN Bad(ReadWhy(s, ev), s, a)
  ELSE StepRead2(s, a, ev, ev.x, DoRead(s, ev.x, ev.k, CHOOSE c \in cands : TRUE))
StepRead(s, a, ev) ==
  IF ev.m > ev.k THEN Bad("read-overflow", s, a)
  \* the bytes handed to the application are exactly the next bytes of the peer's stream
  ELSE IF ~DataOK(a, Peer(ev.x), s.rd[ev.x].rcvd, ev.data, ev.m) THEN Bad("altered-or-misplaced-plaintext", s, a)
  ELSE StepRead1(s, a, ev, {ch \in ReadChoices(ev) : ReadMatches(s, ev, ch)})

(***************************************************************************)
(* KeyUpdate, Close, Mutate, Keystream                                     *)
(***************************************************************************)
StepCtl(s, a, ev, r, tag) ==
  LET x == ev.x IN
  IF ~r.ok THEN Bad("not-enabled", s, a)
  ELSE IF WErrClass(ev.err) # r.err THEN Bad("result", s, a)
  ELSE IF ~WireOK(s.q, r.wrote[x], ev.wrote[x]) \/ ev.wrote[Peer(x)] # <<>> THEN Bad("record-header", s, a)
  ELSE IF ~NonceOK(s.q, r.wrote[x], ev.wrote[x]) THEN Bad("explicit-nonce", s, a)
  ELSE IF ~StateOK(r.s, ev.st) THEN Bad("counters", s, a)
  ELSE Out("", r.s, ClearKs(a, ev), {tag}, FALSE)

StepKeyUpdate(s, a, ev) == StepCtl(s, a, ev, DoKeyUpdate(s, ev.x, ev.req), "KeyUpdate")

\* whether a close_notify went out is read off the wire; the value Close returns is not specified
StepClose(s, a, ev) == StepCtl(s, a, [ev EXCEPT !.err = ""], DoClose(s, ev.x, ev.wrote[ev.x] # <<>>), "Close")

\* a padding peer: one record, data then ev.pad zero bytes (written through the verif method of the connection)
StepWritePadded1(s, a, ev, x, r) ==
  IF ev.off # s.wr[x].sent THEN Bad("harness-offset", s, a)
  ELSE IF \E i \in 1..Len(ev.head) : ev.head[i] # StreamByte(a, x, ev.off + i - 1) THEN Bad("harness-pattern", s, a)
  ELSE IF ~r.ok THEN Bad("not-enabled", s, a)
  ELSE IF WErrClass(ev.err) # r.err THEN Bad("write-result", s, a)
  ELSE IF ~WireOK(s.q, r.wrote[x], ev.wrote[x]) \/ ev.wrote[Peer(x)] # <<>> THEN Bad("record-header", s, a)
  ELSE IF ~StateOK(r.s, ev.st) THEN Bad("counters", s, a)
  ELSE Out("", r.s, ClearKs(a, ev), {"WritePadded"} \cup (IF ev.pad >= 256 THEN {"WritePadded.long"} ELSE {}), FALSE)
StepWritePadded(s, a, ev) == StepWritePadded1(s, a, ev, ev.x, DoWritePadded(s, ev.x, ev.n, ev.pad))

\* CloseWrite: whether a close_notify went out is read off the wire, the returned value is not specified
StepCloseWrite(s, a, ev) == StepCtl(s, a, [ev EXCEPT !.err = ""], DoCloseWrite(s, ev.x, ev.wrote[ev.x] # <<>>), "CloseWrite")
StepWriteDeadline(s, a, ev) == StepCtl(s, a, ev, DoWriteDeadlinePast(s, ev.x), "WriteDeadline")

StepMutate1(s, a, ev, r) ==
  IF ~ev.did THEN Bad("harness-no-mutation", s, a)
  ELSE IF ev.kind = "flip" /\ (ev.new = ev.old \/ ev.len1 # ev.len0) THEN Bad("harness-no-mutation", s, a)
  ELSE IF ev.kind # "flip" /\ ev.len1 # ev.len0 - 1 THEN Bad("harness-no-mutation", s, a)
  ELSE IF ~r.ok THEN Bad("not-enabled", s, a)
  ELSE IF ev.wrote["c"] # <<>> \/ ev.wrote["s"] # <<>> THEN Bad("wrote-during-mutate", s, a)
  ELSE IF ~StateOK(r.s, ev.st) THEN Bad("counters", s, a)
  ELSE Out("", r.s, a, {"Mutate"}, FALSE)
\* Deleting the last byte of a record while keeping its header ("trunc_keep") deletes a byte of the STREAM:
\* if the byte that follows in the stream equals the deleted one, the record itself is bit-for-bit intact
\* and it is the next record (whose first header byte is what was really lost) that is damaged.
MutatedIndex(ev) == IF ev.kind = "trunc_keep" /\ ev.old = ev.nxt THEN ev.i + 1 ELSE ev.i
StepMutate(s, a, ev) == StepMutate1(s, a, ev, DoMutate(s, ev.x, MutatedIndex(ev)))

Pre(ks, n) == SubSeq(ks, 1, Min(Min(n, Len(ks)), 32))
SamePos(a, x, tok) == a.ks[x].has /\ a.ks[x].ep = tok.ep /\ a.ks[x].seq = tok.seq
PrefixAgree(k1, k2) == \A i \in 1..Min(Min(k1.n, k2.n), Min(Len(k1.ks), Len(k2.ks))) : k1.ks[i] = k2.ks[i]
StepKeystream1(s, a, ev, x, r, tok, me) ==
  IF ~r.ok THEN Bad("not-enabled", s, a)
  ELSE IF ErrClass(ev.err) # r.err THEN Bad("result", s, a)
  ELSE IF ev.wrote["c"] # <<>> \/ ev.wrote["s"] # <<>> THEN Bad("keystream-query-wrote-records", s, a)
  ELSE IF ~StateOK(s, ev.st) THEN Bad("keystream-query-changed-state", s, a)       \* pure query
  ELSE IF r.err # "none" THEN Out("", s, a, {"Keystream.err"}, FALSE)
  ELSE IF Len(ev.ks) < ev.n THEN Bad("keystream-short", s, a)
  \* same (epoch, seq) => same keystream; different (epoch, seq) => different keystream
  ELSE IF \E e \in a.khist : e.x = x /\ e.ep = me.ep /\ e.seq = me.seq
                             /\ SubSeq(e.pre, 1, Min(Len(e.pre), Len(me.pre))) # SubSeq(me.pre, 1, Min(Len(e.pre), Len(me.pre)))
       THEN Bad("keystream-not-a-function-of-epoch-seq", s, a)
  ELSE IF \E e \in a.khist : e.x = x /\ (e.ep # me.ep \/ e.seq # me.seq) /\ Min(Len(e.pre), Len(me.pre)) >= 8
                             /\ SubSeq(e.pre, 1, Min(Len(e.pre), Len(me.pre))) = SubSeq(me.pre, 1, Min(Len(e.pre), Len(me.pre)))
       THEN Bad("keystream-reused", s, a)
  \* prefix law, on the full length: queries at one position return prefixes of one keystream (in whatever order
  \* and with whatever lengths they were made)
  ELSE IF SamePos(a, x, tok) /\ \E j \in 1..Len(a.ks[x].qs) : ~PrefixAgree(a.ks[x].qs[j], [n |-> ev.n, ks |-> ev.ks])
       THEN Bad("keystream-prefix", s, a)
  ELSE Out("", s, [a EXCEPT !.ks[x] = [has |-> TRUE, ep |-> tok.ep, seq |-> tok.seq,
                                       qs |-> (IF SamePos(a, x, tok) THEN a.ks[x].qs ELSE <<>>) \o <<[n |-> ev.n, ks |-> ev.ks]>>],
                            !.khist = @ \cup {me}],
           {"Keystream"} \cup (IF SamePos(a, x, tok) THEN {"Keystream.again"} ELSE {}), FALSE)
StepKeystream(s, a, ev) ==
  StepKeystream1(s, a, ev, ev.x, DoKeystream(s, ev.x), Keystream(s, ev.x),
                 [x |-> ev.x, ep |-> Keystream(s, ev.x).ep, seq |-> Keystream(s, ev.x).seq, n |-> ev.n, pre |-> Pre(ev.ks, ev.n)])

Step(s, a, ev) ==
  CASE ev.ev = "Init" -> StepInit(a, ev)
    [] ev.ev = "Proc" -> StepProc(s, a, ev)
    [] ev.ev = "Enable" -> StepEnable(s, a, ev)
    [] ev.ev = "Write" -> StepWrite(s, a, ev)
    [] ev.ev = "Read" -> StepRead(s, a, ev)
    [] ev.ev = "KeyUpdate" -> StepKeyUpdate(s, a, ev)
    [] ev.ev = "Close" -> StepClose(s, a, ev)
    [] ev.ev = "CloseWrite" -> StepCloseWrite(s, a, ev)
    [] ev.ev = "WritePadded" -> StepWritePadded(s, a, ev)
    [] ev.ev = "WriteDeadline" -> StepWriteDeadline(s, a, ev)
    [] ev.ev = "Mutate" -> StepMutate(s, a, ev)
    [] ev.ev = "Keystream" -> StepKeystream(s, a, ev)
    [] OTHER -> Bad("harness-" \o ev.ev, s, a)      \* Panic, BadOp

(***************************************************************************)
(* The trace machine                                                       *)
(***************************************************************************)
Init == /\ l = 1 /\ st = InitNil(ClassProfile("tls12")) /\ aux = NoAux /\ mode = "skip" /\ rej = {}
        /\ stats = [t \in Tags |-> 0]

Judged == l <= Len(Trace) /\ (Trace[l].ev \in {"Init", "Proc", "Enable"} \/ mode = "run")

\* the event is explained by Record
Good == /\ Judged
        /\ \E r \in {Step(st, aux, Trace[l])} :      \* (a singleton set: TLC evaluates the step once)
           /\ r.why = ""
           /\ st' = r.s /\ aux' = r.a /\ mode' = (IF r.skip THEN "skip" ELSE "run")
           /\ stats' = [t \in Tags |-> IF t \in r.tags THEN stats[t] + 1 ELSE stats[t]]
        /\ l' = l + 1 /\ UNCHANGED rej

\* it is not: remember it and stop judging this scenario
Skip == /\ Judged
        /\ \E r \in {Step(st, aux, Trace[l])} :
           /\ r.why # ""
           /\ rej' = rej \cup {<<l, Trace[l].sc, r.why>>}
           /\ aux' = r.a
        /\ mode' = "skip" /\ l' = l + 1 /\ UNCHANGED <<st, stats>>

\* remaining events of a scenario that is no longer judged
Pass == /\ l <= Len(Trace) /\ ~Judged
        /\ l' = l + 1 /\ UNCHANGED <<st, aux, mode, rej, stats>>

Next == Good \/ Skip \/ Pass

Report == (l = Len(Trace) + 1) =>
            /\ PrintT(<<"DONE", l - 1>>)
            /\ PrintT(<<"STATS", ToJson(stats)>>)
            /\ \A e \in rej : PrintT(<<"REJ", e[1], e[2], e[3]>>)
=============================================================================
