--------------------------- MODULE CertVerifyTrace ---------------------------
(* Trace validation for C14: every recorded connection outcome must be the one CertVerify!ShouldAccept demands for
   that connection's configuration: success only if ShouldAccept (the property's safety direction), success whenever
   ShouldAccept (a correctly configured client is not refused), failures of verification are CertificateVerificationError. *)
EXTENDS CertVerifyDefs
Trace == ndJsonDeserialize("certverify_trace.ndjson")
VARIABLES l, cur, rej
TInit == l = 1 /\ cur = [sc |-> -1] /\ rej = {}
Step == /\ l <= Len(Trace) /\ l' = l + 1
        /\ LET ev == Trace[l] IN
           IF ev.ev = "Scn" THEN cur' = ev /\ rej' = rej
           ELSE LET k == cur.conns[ev.k]
                    should == ShouldAccept(cur.cert, k) IN
                /\ cur' = cur
                /\ rej' = rej \cup (IF ev.cok /\ ~should THEN {<<cur.sc, ev.k, "accepted-although-verification-must-fail", ev.resumed, WhyNot(cur.cert, k)>>} ELSE {})
                              \cup (IF ~ev.cok /\ should THEN {<<cur.sc, ev.k, "refused-although-verification-must-pass", ev.resumed, "none">>} ELSE {})
                              \* (a Config left without any name to verify is refused before the handshake starts: a
                              \*  configuration error, not a CertificateVerificationError)
                              \cup (IF ~ev.cok /\ ~should /\ ev.errtype # "CertificateVerificationError" /\ ev.corigin = "local"
                                       /\ ~(k.itv = "" /\ EffName(k) = "")
                                    THEN {<<cur.sc, ev.k, "wrong-error-type", ev.resumed, WhyNot(cur.cert, k)>>} ELSE {})
                              \cup (IF ev.cpanic # "" THEN {<<cur.sc, ev.k, "panic", ev.resumed, "none">>} ELSE {})
TNext == Step
Report == (l = Len(Trace) + 1) => PrintT(<<"DONE", l - 1>>) /\ \A r \in rej : PrintT(<<"REJ", ToJson(r)>>)
=============================================================================
