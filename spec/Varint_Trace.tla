--------------------------- MODULE Varint_Trace ---------------------------
(***************************************************************************)
(* Trace validation for C24: every observation the harness made on the      *)
(* real internal/quicvarint functions and on TransportParameters.Marshal    *)
(* must be explained by module Varint. One step per logged event; events    *)
(* the specification does not explain are collected in rej (the batch is    *)
(* always read to its end) and reported with the first clause that fails.   *)
(*   V  : one 64-bit value x through Append, Len, AppendWithLen(w...), and   *)
(*        Read over what Append produced (followed by extra tail bytes).     *)
(*        Append/AppendWithLen are run on several destination slices, all    *)
(*        holding `prefix` (fresh, exactly full, reused scratch buffers with *)
(*        dirty spare capacity): whatever lies behind the destination, the   *)
(*        result is prefix ++ reference encoding (appends[], awl[].dst).     *)
(*   R  : Read over arbitrary bytes (non-minimal encodings, truncations)     *)
(*   TP : a parameter list through Marshal and through the                   *)
(*        quic_transport_parameters extension writer                         *)
(***************************************************************************)
EXTENDS Varint, Json
Trace == ndJsonDeserialize("varint_trace.ndjson")
VARIABLES l, rej
vars == <<l, rej>>

P(o) == o.panic # ""

\* first failing clause ("" = explained)
WhyV(e) ==
  LET x == e.x IN
  IF ~IsB8(x) THEN "malformed-event"
  ELSE IF Refused(x) THEN
       (IF ~P(e.append) \/ \E k \in DOMAIN e.appends : ~P(e.appends[k]) THEN "append-not-refused"
        ELSE IF ~P(e.len) THEN "len-not-refused"
        ELSE IF \E k \in DOMAIN e.awl : ~P(e.awl[k]) THEN "appendwithlen-not-refused"
        ELSE "")
  ELSE IF P(e.append) THEN "append-panic"
  ELSE IF e.append.out # e.prefix \o VarintEnc(x) THEN "append-bytes"
  ELSE IF \E k \in DOMAIN e.appends : P(e.appends[k]) THEN "append-panic-dst"
  ELSE IF \E k \in DOMAIN e.appends : e.appends[k].out # e.prefix \o VarintEnc(x) THEN "append-bytes-dst"
  ELSE IF P(e.len) THEN "len-panic"
  ELSE IF e.len.n # MinLen(x) THEN "len-value"
  ELSE IF \E k \in DOMAIN e.awl : AWLRefused(x, e.awl[k].w) /\ ~P(e.awl[k]) THEN "appendwithlen-not-refused"
  ELSE IF \E k \in DOMAIN e.awl : ~AWLRefused(x, e.awl[k].w) /\ P(e.awl[k]) THEN "appendwithlen-panic"
  ELSE IF \E k \in DOMAIN e.awl : ~AWLRefused(x, e.awl[k].w) /\ e.awl[k].out # e.prefix \o AppendWithLen(x, e.awl[k].w) THEN "appendwithlen-bytes"
  ELSE IF ~e.hasrt THEN "no-roundtrip"
  ELSE LET d == VarintDec(VarintEnc(x) \o e.tail) IN
       IF e.rt.err # "" THEN "read-error"
       ELSE IF e.rt.val # x \/ e.rt.val # d.val THEN "read-value"
       ELSE IF e.rt.used # d.n THEN "read-consumed"
       ELSE ""

WhyR(e) ==
  LET d == VarintDec(e["in"]) IN
  IF ~IsBytes(e["in"]) THEN "malformed-event"
  ELSE IF d.ok THEN (IF e.rd.err # "" THEN "read-error"
                     ELSE IF e.rd.val # d.val THEN "read-value"
                     ELSE IF e.rd.used # d.n THEN "read-consumed" ELSE "")
  ELSE IF e.rd.err = "" THEN "read-truncated-accepted" ELSE ""

WhyTP(e) ==
  LET refused == \E k \in DOMAIN e.ds : TPRefused(e.ds[k]) IN
  IF refused /\ e.panic = "" THEN "marshal-not-refused"
  ELSE IF ~refused /\ e.panic # "" THEN "marshal-panic"
  ELSE IF ~TPListExplained(e.ds, e.out, e.panic # "") THEN "marshal-body"
  ELSE IF refused THEN (IF e.extpanic = "" THEN "ext-not-refused" ELSE "")
  ELSE IF e.extpanic # "" THEN "ext-panic"
  ELSE IF Len(e.out) >= 65536 THEN ""
  ELSE IF Len(e.ext) < 4 \/ e.extlen # Len(e.ext) \/ e.extn # Len(e.ext) THEN "ext-len"
  ELSE IF SubSeq(e.ext, 1, 4) # SubSeq(QTPExt(SubSeq(e.ext, 5, Len(e.ext))), 1, 4) THEN "ext-header"
  ELSE IF ~TPListExplained(e.ds, SubSeq(e.ext, 5, Len(e.ext)), FALSE) THEN "ext-body"
  ELSE ""

Why(e) == CASE e.ev = "V" -> WhyV(e) [] e.ev = "R" -> WhyR(e) [] e.ev = "TP" -> WhyTP(e) [] OTHER -> "unknown-event"
Explained(e) == Why(e) = ""

Init == l = 1 /\ rej = {}
Good == l <= Len(Trace) /\ Explained(Trace[l]) /\ l' = l + 1 /\ UNCHANGED rej
Skip == l <= Len(Trace) /\ ~Explained(Trace[l]) /\ l' = l + 1 /\ rej' = rej \cup {l}
Next == Good \/ Skip
Report == (l = Len(Trace) + 1) =>
            /\ PrintT(<<"DONE", l - 1>>)
            /\ \A i \in rej : PrintT(<<"REJ", i, Why(Trace[i])>>)
=============================================================================
