--------------------------- MODULE Varint_Trace ---------------------------
(***************************************************************************)
(* Trace validation for C24: every observation the harness made on the      *)
(* real internal/quicvarint functions and on TransportParameters.Marshal    *)
(* must be explained by module Varint. One step per logged event; events    *)
(* the specification does not explain are collected in rej (the batch is    *)
(* always read to its end) and reported with the first clause that fails.   *)
(*   V  : one 64-bit value x through Append, Len, AppendWithLen(w...), and   *)
(*        Read over what Append produced (followed by extra tail bytes).     *)
(*        Append/AppendWithLen are run on several destination slices, all    *)
(*        holding `prefix` (fresh, exactly full, reused scratch buffers with *)
(*        dirty spare capacity): whatever lies behind the destination, the   *)
(*        result is prefix ++ reference encoding (appends[], awl[].dst).     *)
(*   R  : Read over arbitrary bytes (non-minimal encodings, truncations)     *)
(*   Own: a sequence of calls by one goroutine whose results are all KEPT;   *)
(*        no later call may change a result handed out earlier (history)     *)
(*   TP : a parameter list through Marshal and through the                   *)
(*        quic_transport_parameters extension writer                         *)
(***************************************************************************)
EXTENDS Varint, Json
Trace == ndJsonDeserialize("varint_trace.ndjson")
VARIABLES l, rej,
          held      \* ownership history: the results handed out so far in the current Own scenario, as last seen
vars == <<l, rej, held>>

P(o) == o.panic # ""

\* first failing clause ("" = explained)
WhyV(e) ==
  LET x == e.x IN
  IF ~IsB8(x) THEN "malformed-event"
  ELSE IF Refused(x) THEN
       (IF ~P(e.append) \/ \E k \in DOMAIN e.appends : ~P(e.appends[k]) THEN "append-not-refused"
        ELSE IF ~P(e.len) THEN "len-not-refused"
        ELSE IF \E k \in DOMAIN e.awl : ~P(e.awl[k]) THEN "appendwithlen-not-refused"
        ELSE "")
  ELSE IF P(e.append) THEN "append-panic"
  ELSE IF e.append.out # e.prefix \o VarintEnc(x) THEN "append-bytes"
  ELSE IF \E k \in DOMAIN e.appends : P(e.appends[k]) THEN "append-panic-dst"
  ELSE IF \E k \in DOMAIN e.appends : e.appends[k].out # e.prefix \o VarintEnc(x) THEN "append-bytes-dst"
  ELSE IF P(e.len) THEN "len-panic"
  ELSE IF e.len.n # MinLen(x) THEN "len-value"
  ELSE IF \E k \in DOMAIN e.awl : AWLRefused(x, e.awl[k].w) /\ ~P(e.awl[k]) THEN "appendwithlen-not-refused"
  ELSE IF \E k \in DOMAIN e.awl : ~AWLRefused(x, e.awl[k].w) /\ P(e.awl[k]) THEN "appendwithlen-panic"
  ELSE IF \E k \in DOMAIN e.awl : ~AWLRefused(x, e.awl[k].w) /\ e.awl[k].out # e.prefix \o AppendWithLen(x, e.awl[k].w) THEN "appendwithlen-bytes"
  ELSE IF ~e.hasrt THEN "no-roundtrip"
  ELSE LET d == VarintDec(VarintEnc(x) \o e.tail) IN
       IF e.rt.err # "" THEN "read-error"
       ELSE IF e.rt.val # x \/ e.rt.val # d.val THEN "read-value"
       ELSE IF e.rt.used # d.n THEN "read-consumed"
       ELSE ""

WhyR(e) ==
  LET d == VarintDec(e["in"]) IN
  IF ~IsBytes(e["in"]) THEN "malformed-event"
  ELSE IF d.ok THEN (IF e.rd.err # "" THEN "read-error"
                     ELSE IF e.rd.val # d.val THEN "read-value"
                     ELSE IF e.rd.used # d.n THEN "read-consumed" ELSE "")
  ELSE IF e.rd.err = "" THEN "read-truncated-accepted" ELSE ""

WhyTP(e) ==
  LET refused == \E k \in DOMAIN e.ds : TPRefused(e.ds[k]) IN
  IF refused /\ e.panic = "" THEN "marshal-not-refused"
  ELSE IF ~refused /\ e.panic # "" THEN "marshal-panic"
  ELSE IF ~TPListExplained(e.ds, e.out, e.panic # "") THEN "marshal-body"
  ELSE IF refused THEN (IF e.extpanic = "" THEN "ext-not-refused" ELSE "")
  ELSE IF e.extpanic # "" THEN "ext-panic"
  ELSE IF Len(e.out) >= 65536 THEN ""
  ELSE IF Len(e.ext) < 4 \/ e.extlen # Len(e.ext) \/ e.extn # Len(e.ext) THEN "ext-len"
  ELSE IF SubSeq(e.ext, 1, 4) # SubSeq(QTPExt(SubSeq(e.ext, 5, Len(e.ext))), 1, 4) THEN "ext-header"
  ELSE IF ~TPListExplained(e.ds, SubSeq(e.ext, 5, Len(e.ext)), FALSE) THEN "ext-body"
  ELSE ""

(* Ownership ("a value returned by Marshal / the extension writer / Append belongs to the caller"):
   an Own scenario is a sequence of calls made by ONE goroutine on DIFFERENT objects; the harness keeps every
   returned slice (kind marshal, append) resp. every extension object (kind ext) and after each call logs
   `now`, the present contents of everything it holds, oldest first (a held slice is re-read, a held extension
   is written again). The history `held` is this specification's memory of those results: a later call on
   another object must not change any of them, and what a call returned is what the caller finds in its slice. *)
OwnBaseWhy(e) ==
  CASE e.kind = "append" ->
         IF Refused(e.x) THEN (IF e.panic = "" THEN "append-not-refused" ELSE "")
         ELSE IF e.panic # "" THEN "append-panic"
         ELSE IF e.out # VarintEnc(e.x) THEN "append-bytes" ELSE ""
    [] e.kind \in {"marshal", "ext"} ->
         LET refused == \E k \in DOMAIN e.ds : TPRefused(e.ds[k]) IN
         IF refused /\ e.panic = "" THEN "marshal-not-refused"
         ELSE IF ~refused /\ e.panic # "" THEN "marshal-panic"
         ELSE IF refused THEN ""
         ELSE IF e.kind = "marshal" THEN (IF TPListExplained(e.ds, e.out, FALSE) THEN "" ELSE "marshal-body")
         ELSE IF Len(e.out) < 4 \/ SubSeq(e.out, 1, 4) # SubSeq(QTPExt(SubSeq(e.out, 5, Len(e.out))), 1, 4) THEN "ext-header"
         ELSE IF ~TPListExplained(e.ds, SubSeq(e.out, 5, Len(e.out)), FALSE) THEN "ext-body" ELSE ""
    [] OTHER -> "unknown-event"
Before(e) == IF e.step = 1 THEN <<>> ELSE held
WhyOwn(e) ==
  LET h == Before(e) IN
  IF OwnBaseWhy(e) # "" THEN OwnBaseWhy(e)
  ELSE IF Len(e.now) # Len(h) + (IF e.panic = "" THEN 1 ELSE 0) THEN "malformed-event"
  ELSE IF \E i \in DOMAIN h : e.now[i] # h[i] THEN "retained-result-changed-by-a-later-call"
  ELSE IF e.panic = "" /\ e.now[Len(e.now)] # e.out THEN "result-changed-after-return"
  ELSE ""
\* after a rejection the history is re-based on what is there now, so one overwrite is reported once
NextHeld(e) == IF e.ev = "Own" THEN e.now ELSE held

Why(e) == CASE e.ev = "V" -> WhyV(e) [] e.ev = "R" -> WhyR(e) [] e.ev = "TP" -> WhyTP(e) [] e.ev = "Own" -> WhyOwn(e) [] OTHER -> "unknown-event"
Explained(e) == Why(e) = ""

Init == l = 1 /\ rej = {} /\ held = <<>>
Good == l <= Len(Trace) /\ Explained(Trace[l]) /\ l' = l + 1 /\ held' = NextHeld(Trace[l]) /\ UNCHANGED rej
Skip == l <= Len(Trace) /\ ~Explained(Trace[l]) /\ l' = l + 1 /\ held' = NextHeld(Trace[l]) /\ rej' = rej \cup {<<l, Why(Trace[l])>>}
Next == Good \/ Skip
Report == (l = Len(Trace) + 1) =>
            /\ PrintT(<<"DONE", l - 1>>)
            /\ \A r \in rej : PrintT(<<"REJ", r[1], r[2]>>)
=============================================================================
