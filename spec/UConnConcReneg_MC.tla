-------------------------- MODULE UConnConcReneg_MC --------------------------
(* Exhaustive interleavings of reader || Handshake caller || writer || peer(HelloRequest) || deadline.
   UConnConcReneg_MC.cfg    as coded (LockBeforeClear = TRUE): SafetyReneg, no deadlock (TLC's deadlock check:
                            no non-terminal state without an enabled step, i.e. nobody waits for ever)
   UConnConcReneg_Mut.cfg   hello rebuilt before handshakeMutex is taken: TLC must report the deadlock /
                            NoLockCycle violation (non-vacuity)
   UConnConcReneg_Sched.cfg schedules a gate scheduler can follow (uncontrolled steps first), emitted as
                            <<"SCN", [cfg, hist]>> at every distinct terminal state and replayed on the real code *)
EXTENDS UConnConcReneg, Json
VARIABLES hist, win   \* win: threads that were let into handshakeContext while the reader was rebuilding the hello
Configs == {[h |-> h, writer |-> w, rehs |-> r, deadline |-> 0, slack |-> 0] : h \in BOOLEAN, w \in BOOLEAN, r \in BOOLEAN}
L(k, p, g) == [k |-> k, p |-> p, g |-> g, i |-> FALSE]
NextH ==
  \/ Tau /\ UNCHANGED <<hist, win>>
  \/ \E t \in Threads : \/ Call(t) /\ hist' = Append(hist, L("call", t, "")) /\ UNCHANGED win
                        \/ Ret(t) /\ hist' = Append(hist, L("ret", t, "")) /\ UNCHANGED win
  \/ \E t \in Threads, g \in Gates : \/ Arrive(t, g) /\ hist' = Append(hist, L("arrive", t, g)) /\ UNCHANGED win
                                     \/ Pass(t, g) /\ hist' = Append(hist, L("pass", t, g))
                                        /\ win' = IF g = "entry" /\ pc["reader"] = "g_reneg_build" THEN win \cup {t} ELSE win
  \/ HelloReq /\ hist' = Append(hist, L("hr", "peer", "")) /\ UNCHANGED win
  \/ Timeout /\ hist' = Append(hist, L("timeout", "env", "")) /\ UNCHANGED win
Done == Terminal /\ UNCHANGED <<vars, hist, win>>
InitMC == hist = <<>> /\ win = {} /\ \E c \in Configs : InitWith(c)
NextMC == NextH \/ Done
View == <<vars, win>>   \* so that a schedule is emitted for every way of entering during the rebuild window
AutoEnabled == ENABLED Tau \/ \E t \in Threads : ENABLED Ret(t) \/ \E g \in Gates : ENABLED Arrive(t, g)
IsControlled == Len(hist') = Len(hist) + 1 /\ hist'[Len(hist')].k \in {"call", "pass", "hr", "timeout"}
NextSched == (NextH /\ (AutoEnabled => ~IsControlled)) \/ Done
Emit == Terminal => PrintT(<<"SCN", ToJson([cfg |-> cfg, hist |-> hist, win |-> win])>>)
=============================================================================
