CONSTANT K = 1
CONSTANT Tier = "thorough"
CONSTANT RowSel = {}
INIT Init
NEXT Next
INVARIANT InvOffered
INVARIANT InvIdentity
INVARIANT InvResumed
INVARIANT InvFinished
INVARIANT InvFatal
INVARIANT InvCompliant
INVARIANT InvIdentityStable
INVARIANT InvNoInsecureResume
INVARIANT Emit
