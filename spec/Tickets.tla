------------------------------ MODULE Tickets ------------------------------
(***************************************************************************)
(* Session tickets of a server Config (ticket.go EncryptTicket /            *)
(* DecryptTicket / encryptTicket / decryptTicket, common.go ticketKeys /    *)
(* SetSessionTicketKeys / ticketKeyFromBytes, u_public.go                   *)
(* TicketKeyFromBytes) and forged client sessions (u_public.go              *)
(* MakeClientSessionState).                                                 *)
(*                                                                         *)
(* A ticket is abstractly <<sealing key, state>> plus what was done to its  *)
(* bytes since it was sealed.  Decryption yields the state iff the sealing *)
(* key is in the Config's current key list and the bytes are the original  *)
(* ones; otherwise it yields nothing.                                      *)
(*                                                                         *)
(* The key list is modelled as the code manages it: explicit keys          *)
(* (SetSessionTicketKeys; first key seals, all keys open) switch automatic *)
(* rotation off; without explicit keys every use of the keys               *)
(* (Config.ticketKeys) first rotates: if there is no automatic key or the  *)
(* newest one is RotHours old, a new key is put in front and keys older    *)
(* than LifeHours are dropped.  Time is Config.Time, in hours.             *)
(***************************************************************************)
EXTENDS Integers, Sequences, FiniteSets

RotHours == 24          \* common.go ticketKeyRotation
LifeHours == 7 * 24     \* common.go ticketKeyLifetime

VARIABLES explicit,     \* sequence of key ids installed by SetSessionTicketKeys (<<>> = never called)
          auto,         \* sequence of [id, created] managed by rotation, newest first
          nauto,        \* number of automatic keys generated so far (their ids are fresh: -1, -2, ...)
          now,          \* Config.Time in hours
          tix,          \* sequence of tickets produced so far (sealed or derived from a sealed one)
          held          \* the states successful DecryptTicket calls have returned so far (the caller keeps them)
tkVars == <<explicit, auto, nauto, now, tix, held>>

Range(s) == {s[i] : i \in 1..Len(s)}
NoState == <<>>

TkInit == explicit = <<>> /\ auto = <<>> /\ nauto = 0 /\ now = 0 /\ tix = <<>> /\ held = <<>>

---------------------------------------------------------------------------
\* Config.ticketKeys: the key list a call sees, and its side effect on the automatic keys
NeedRotate == explicit = <<>> /\ (auto = <<>> \/ now - auto[1].created >= RotHours)
AutoAfter == IF NeedRotate
             THEN <<[id |-> 0 - (nauto + 1), created |-> now]>> \o SelectSeq(auto, LAMBDA k : now - k.created < LifeHours)
             ELSE auto
NautoAfter == IF NeedRotate THEN nauto + 1 ELSE nauto
KeysInUse == IF explicit # <<>> THEN explicit ELSE [i \in 1..Len(AutoAfter) |-> AutoAfter[i].id]
UseKeys == auto' = AutoAfter /\ nauto' = NautoAfter

---------------------------------------------------------------------------
\* what has been done to a ticket's bytes
Intact(t) == ~t.cut /\ t.len = t.full /\ t.flips = {}
Opens(t, ks) == Intact(t) /\ t.key \in Range(ks)
Result(t, ks) == IF Opens(t, ks) THEN [ok |-> TRUE, st |-> t.st] ELSE [ok |-> FALSE, st |-> NoState]
FromEnd == 1000000                                          \* positions >= FromEnd count from the last bit backwards
BitIndex(t, b) == IF b >= FromEnd THEN 8 * t.len - 1 - (b - FromEnd) ELSE b

\* Config.SetSessionTicketKeys(ks)
SetKeys(ks) == /\ Len(ks) > 0
               /\ explicit' = ks
               /\ UNCHANGED <<auto, nauto, now, tix, held>>

\* the clock Config.Time advances by h hours
Advance(h) == /\ h > 0
              /\ now' = now + h
              /\ UNCHANGED <<explicit, auto, nauto, tix, held>>

\* Config.EncryptTicket(state): a new ticket of n bytes (raw) sealed with the first key in use
Encrypt(st, n, raw) ==
    /\ UseKeys
    /\ tix' = Append(tix, [key |-> KeysInUse[1], st |-> st, len |-> n, full |-> n, flips |-> {}, cut |-> FALSE, sealed |-> TRUE, raw |-> raw])
    /\ UNCHANGED <<explicit, now, held>>

\* a copy of ticket src with bit b inverted (b is an index into the current bytes)
Flip(src, b) == /\ src \in 1..Len(tix) /\ b >= 0 /\ b < 8 * tix[src].len
                /\ tix' = Append(tix, [tix[src] EXCEPT !.flips = (@ \ {b}) \cup ({b} \ @), !.sealed = FALSE])
                /\ UNCHANGED <<explicit, auto, nauto, now, held>>

\* a copy of ticket src cut to its first n bytes
Truncate(src, n) == /\ src \in 1..Len(tix) /\ n >= 0 /\ n < tix[src].len
                    /\ tix' = Append(tix, [tix[src] EXCEPT !.len = n,
                                                           !.flips = {b \in @ : b < 8 * n},
                                                           !.cut = (@ \/ n < tix[src].full), !.sealed = FALSE])
                    /\ UNCHANGED <<explicit, auto, nauto, now, held>>

\* a copy of ticket src with n more bytes appended (only of a ticket none of whose own bytes were cut off:
\* appended bytes could otherwise happen to restore the original)
Extend(src, n) == /\ src \in 1..Len(tix) /\ n > 0 /\ ~tix[src].cut
                  /\ tix' = Append(tix, [tix[src] EXCEPT !.len = @ + n, !.sealed = FALSE])
                  /\ UNCHANGED <<explicit, auto, nauto, now, held>>

\* Config.DecryptTicket(ticket src) returns r
Decrypt(src, r) == /\ src \in 1..Len(tix)
                   /\ UseKeys
                   /\ r = Result(tix[src], KeysInUse)
                   /\ held' = IF r.ok THEN Append(held, r.st) ELSE held
                   /\ UNCHANGED <<explicit, now, tix>>

\* The values handed out belong to the caller: whatever the Config does afterwards (other tickets opened or sealed,
\* keys changed), the d-th state DecryptTicket returned still is that state, and the bytes EncryptTicket returned
\* for ticket src still are those bytes.
Recheck(d, st) == /\ d \in 1..Len(held)
                  /\ st = held[d]
                  /\ UNCHANGED tkVars
Reread(src, raw) == /\ src \in 1..Len(tix) /\ tix[src].sealed
                    /\ raw = tix[src].raw
                    /\ UNCHANGED tkVars

\* opening ticket src with nothing but TicketKeyFromBytes(key bytes k): MAC check and decryption with the
\* public AesKey / HmacKey fields must behave like a Config whose only key is k
Indep(src, k, r) == /\ src \in 1..Len(tix)
                    /\ r = Result(tix[src], <<k>>)
                    /\ UNCHANGED tkVars

---------------------------------------------------------------------------
(* Forged client sessions.  A ClientSessionState built by                  *)
(* MakeClientSessionState(ticket, vers, suite, secret, ...) - or by the    *)
(* constructor followed by SetMasterSecret(secret) - is offered to a       *)
(* server whose ticket keys are known.  p describes what was supplied:     *)
(*   vers, suite, secret  the values given to the constructor / setter     *)
(*   ems                  SetEMS value; tems/tsecret/tvers/tsuite: what the*)
(*                        ticket handed to the server says                 *)
(*   sealed               ticket sealed with a key the server has          *)
(*   offersEMS            the ClientHello carries extended_master_secret   *)
(* o is what both ends reported.  For TLS 1.2 and below the secret is the  *)
(* master secret (both ends report the one they ended up with); for TLS 1.3*)
(* it is the resumption PSK, whose only witness is the PSK binder: the     *)
(* server resumes iff the client computed the binder from the very bytes   *)
(* the ticket holds (handshake_server_tls13.go checkForResumption).        *)
TLS13 == 772
\* the accessor: ClientSessionState.MasterSecret() returns the supplied bytes, whatever their length
SecretKept(supplied, got) == got = supplied

TicketAccepted(p) == /\ p.sealed
                     /\ p.tvers = p.vers /\ p.tsuite = p.suite
                     /\ p.vers = TLS13 \/ p.tems = p.offersEMS      \* handshake_server.go checkForResumption
Completed(o) == o.cerr = "" /\ o.serr = ""
\* the property: whatever else happens, a connection that resumed carries exactly the supplied parameters
ResumedCarriesSupplied(p, o) ==
    (Completed(o) /\ o.cresumed) => /\ o.sresumed
                                    /\ o.cvers = p.vers /\ o.svers = p.vers
                                    /\ o.csuite = p.suite /\ o.ssuite = p.suite
                                    /\ p.vers = TLS13 \/ (o.cmaster = p.secret /\ o.smaster = p.secret)
\* and the outcome classes of the model
ForgeOutcome(p, o) ==
    /\ ResumedCarriesSupplied(p, o)
    /\ (TicketAccepted(p) /\ p.tsecret = p.secret /\ (p.vers = TLS13 \/ p.ems = p.tems))
          => (Completed(o) /\ o.cresumed /\ o.sresumed)                                               \* consistent forgery resumes
    /\ (TicketAccepted(p) /\ p.tsecret # p.secret) => ~Completed(o)                                    \* keys differ: Finished / binder fails
    /\ ~p.sealed => (Completed(o) /\ ~o.cresumed /\ ~o.sresumed /\ o.cmaster # p.secret)                \* unknown key: full handshake
=============================================================================
