------------------------------- MODULE Flight -------------------------------
(***************************************************************************)
(* Robustness of uTLS against hostile STRUCTURED input (C07, C33, C34).    *)
(*                                                                         *)
(* A handshake flight is a tree:  flight -> messages -> vectors -> fields. *)
(* The tree of a message is derived HERE, by parsing real captured bytes   *)
(* with a grammar written as data (a schema interpreted by PSeq/POne), so  *)
(* that every node carries the byte positions of its extent, its length    *)
(* field and its type code.  Mutation operators are defined on nodes and   *)
(* produce byte splices <<[off, del, ins]>> (offsets in the ORIGINAL       *)
(* message).  The Go harness only applies such splices to the message TLC  *)
(* chose and logs what the library did; it knows no grammar.               *)
(*                                                                         *)
(* Protocol position: ClientStep / ServerStep give the receiver's state    *)
(* before each message of the flight (anchors: handshake_client_tls13.go   *)
(* handshake(), handshake_client.go handshake(), handshake_server*.go).    *)
(*                                                                         *)
(* Allowed outcomes of a call on hostile input: ok or error.  Never panic, *)
(* never past the transport deadline, never an allocation that is not      *)
(* bounded by the size of the input (Judge* below).                        *)
(*                                                                         *)
(* NOT modelled / not claimed: arbitrary byte strings, raw record streams, *)
(* coverage-guided fuzzing.  Only the structured enumeration below.        *)
(***************************************************************************)
EXTENDS TLSWire

Min(a, b) == IF a < b THEN a ELSE b
Max(a, b) == IF a > b THEN a ELSE b

\* n-byte big-endian read (n <= 3) / write with wrap-around
RdN(b, i, n) == CASE n = 1 -> b[i] [] n = 2 -> RdU16(b, i) [] n = 3 -> RdU24(b, i) [] OTHER -> 0
Pow256(n) == CASE n = 1 -> 256 [] n = 2 -> 65536 [] n = 3 -> 16777216 [] OTHER -> 1
Un(v, n) == LET m == Pow256(n)  w == ((v % m) + m) % m IN
            CASE n = 1 -> <<w>> [] n = 2 -> U16(w) [] n = 3 -> U24(w) [] OTHER -> <<>>
Zeros(n) == [i \in 1..n |-> 0]

(***************************************************************************)
(* Grammar as data.                                                        *)
(***************************************************************************)
gF(name, n)        == [g |-> "fix",  name |-> name, n |-> n]                    \* n opaque bytes
gC(name, n, tk)    == [g |-> "code", name |-> name, n |-> n, tk |-> tk]         \* a type / choice code
gD(name, n)        == [g |-> "decl", name |-> name, n |-> n]                    \* a length declared for data outside the message
gO(name, ln)       == [g |-> "opq",  name |-> name, ln |-> ln, tk |-> ""]       \* opaque<..> with an ln-byte length
gOr(name, ln)      == [g |-> "opq",  name |-> name, ln |-> ln, tk |-> "resize"] \* ... whose content is also resized to boundary lengths
gL(name, ln, el)   == [g |-> "list", name |-> name, ln |-> ln, el |-> el]       \* vector of el-byte elements
gV(name, ln, body) == [g |-> "vec",  name |-> name, ln |-> ln, body |-> body]   \* vector holding the fields of body
gR(name, ln, item) == [g |-> "rep",  name |-> name, ln |-> ln, item |-> item]   \* vector holding repetitions of item
gX(name, ctx)      == [g |-> "exts", name |-> name, ctx |-> ctx]                \* Extension extensions<0..2^16-1>
Rest(name)        == [g |-> "rest", name |-> name]                             \* the remaining bytes

\* body grammar of an extension, by the message it travels in
ExtSchema(ctx, t) ==
  CASE ctx = "ch" ->
        ( CASE t = 0 -> << gR("server_name_list", 2, << gC("name_type", 1, "code8"), gO("host_name", 2) >>) >>
            [] t = 5 -> << gC("status_type", 1, "code8"), gO("responder_ids", 2), gO("request_extensions", 2) >>
            [] t = 10 -> << gL("named_group_list", 2, 2) >>
            [] t = 11 -> << gL("ec_point_format_list", 1, 1) >>
            [] t \in {13, 50, 34} -> << gL("signature_schemes", 2, 2) >>
            [] t \in {16, 17513, 17613} -> << gR("protocol_name_list", 2, << gO("protocol_name", 1) >>) >>
            [] t = 21 -> << Rest("zeros") >>
            [] t = 24 -> << gF("version", 2), gL("key_parameters", 1, 1) >>
            [] t = 27 -> << gL("algorithms", 1, 2) >>
            [] t = 28 -> << gF("limit", 2) >>
            [] t = 41 -> << gR("identities", 2, << gO("identity", 2), gF("obfuscated_age", 4) >>), gR("binders", 2, << gO("binder", 1) >>) >>
            [] t = 43 -> << gL("versions", 1, 2) >>
            [] t = 44 -> << gO("cookie", 2) >>
            [] t = 45 -> << gL("ke_modes", 1, 1) >>
            [] t = 51 -> << gR("client_shares", 2, << gC("group", 2, "reg:named_group"), gO("key_exchange", 2) >>) >>
            [] t = 65037 -> << gC("ech_type", 1, "code8"), gC("kdf_id", 2, "reg:hpke_kdf"), gC("aead_id", 2, "reg:hpke_aead"),
                               gC("config_id", 1, "reg:ech_config_id"), gOr("enc", 2), gOr("payload", 2) >>
            [] t = 65281 -> << gO("renegotiated_connection", 1) >>
            [] OTHER -> << Rest("data") >> )
    [] ctx = "sh" ->
        ( CASE t = 43 -> << gC("selected_version", 2, "code16") >>
            [] t = 51 -> << gC("group", 2, "reg:named_group"), gO("key_exchange", 2) >>
            [] t = 41 -> << gF("selected_identity", 2) >>
            [] t = 16 -> << gR("protocol_name_list", 2, << gO("protocol_name", 1) >>) >>
            [] t = 11 -> << gL("ec_point_format_list", 1, 1) >>
            [] t = 65281 -> << gO("renegotiated_connection", 1) >>
            [] OTHER -> << Rest("data") >> )
    [] ctx = "hrr" ->
        ( CASE t = 43 -> << gC("selected_version", 2, "code16") >>
            [] t = 51 -> << gC("selected_group", 2, "reg:named_group") >>
            [] t = 44 -> << gO("cookie", 2) >>
            [] OTHER -> << Rest("data") >> )
    [] ctx = "ee" ->
        ( CASE t = 16 -> << gR("protocol_name_list", 2, << gO("protocol_name", 1) >>) >>
            [] t = 10 -> << gL("named_group_list", 2, 2) >>
            [] OTHER -> << Rest("data") >> )      \* ALPS settings (17513/17613) are opaque
    [] ctx = "nst" -> ( CASE t = 42 -> << gF("max_early_data_size", 4) >> [] OTHER -> << Rest("data") >> )
    [] ctx = "creq" -> ( CASE t \in {13, 50} -> << gL("signature_schemes", 2, 2) >> [] OTHER -> << Rest("data") >> )
    [] OTHER -> << Rest("data") >>

\* candidate body grammars of a handshake message; the first one that consumes the body exactly is used.
\* v13: the connection negotiated TLS 1.3; hrr: this ServerHello carries the HelloRetryRequest random;
\* fromClient: the message was written by the client.
MsgSchemas(kind, v13, hrr, fromClient) ==
  CASE kind = 1 -> << << gC("legacy_version", 2, "code16"), gF("random", 32), gO("session_id", 1), gL("cipher_suites", 2, 2),
                         gL("compression_methods", 1, 1), gX("extensions", "ch") >>,
                      << gC("legacy_version", 2, "code16"), gF("random", 32), gO("session_id", 1), gL("cipher_suites", 2, 2),
                         gL("compression_methods", 1, 1) >> >>
    [] kind = 2 -> << << gC("legacy_version", 2, "code16"), gF("random", 32), gO("session_id_echo", 1), gC("cipher_suite", 2, "code16"),
                         gC("compression_method", 1, "code8"), gX("extensions", IF hrr THEN "hrr" ELSE "sh") >>,
                      << gC("legacy_version", 2, "code16"), gF("random", 32), gO("session_id_echo", 1), gC("cipher_suite", 2, "code16"),
                         gC("compression_method", 1, "code8") >> >>
    [] kind = 4 -> IF v13 THEN << << gF("ticket_lifetime", 4), gF("ticket_age_add", 4), gO("ticket_nonce", 1), gO("ticket", 2), gX("extensions", "nst") >> >>
                          ELSE << << gF("ticket_lifetime_hint", 4), gO("ticket", 2) >> >>
    [] kind = 8 -> << << gX("extensions", IF fromClient THEN "cee" ELSE "ee") >> >>
    [] kind = 11 -> IF v13 THEN << << gO("request_context", 1), gR("certificate_list", 3, << gO("cert_data", 3), gX("extensions", "certext") >>) >> >>
                           ELSE << << gR("certificate_list", 3, << gO("cert_data", 3) >>) >> >>
    [] kind = 12 -> << << gC("curve_type", 1, "code8"), gC("named_curve", 2, "reg:named_group"), gO("public", 1), gC("sig_alg", 2, "reg:sig_scheme"), gO("signature", 2) >> >>
    [] kind = 13 -> IF v13 THEN << << gO("request_context", 1), gX("extensions", "creq") >> >>
                           ELSE << << gL("certificate_types", 1, 1), gL("signature_schemes", 2, 2), gO("certificate_authorities", 2) >> >>
    [] kind = 14 -> << << >> >>
    [] kind = 15 -> << << gC("algorithm", 2, "reg:sig_scheme"), gO("signature", 2) >> >>
    [] kind = 16 -> << << gO("ecdh_public", 1) >>, << gO("encrypted_pre_master_secret", 2) >> >>
    [] kind = 20 -> << << Rest("verify_data") >> >>
    [] kind = 22 -> << << gC("status_type", 1, "code8"), gO("response", 3) >> >>
    [] kind = 24 -> << << gC("request_update", 1, "code8") >> >>
    [] kind = 25 -> << << gC("algorithm", 2, "reg:cert_compression"), gD("uncompressed_length", 3), gO("compressed_certificate_message", 3) >> >>
    [] OTHER -> << << Rest("body") >> >>

(***************************************************************************)
(* Nodes.  s..e: extent (1-based, inclusive).  lp/ln: position and width   *)
(* of the node's own length field (0: none).  tp/tn/tk: position, width    *)
(* and family of its type code.  el: element size of a list.  decl: the    *)
(* length field declares the size of something that is not in the message. *)
(***************************************************************************)
Node(p, s, e, lp, ln, tp, tn, tk, el, decl) ==
  [p |-> p, s |-> s, e |-> e, lp |-> lp, ln |-> ln, tp |-> tp, tn |-> tn, tk |-> tk, el |-> el, decl |-> decl]
Plain(p, s, e)        == Node(p, s, e, 0, 0, 0, 0, "", 0, FALSE)
Fail                  == [ok |-> FALSE, i |-> 0, nodes |-> <<>>, full |-> FALSE]
Done(i, nodes, full)  == [ok |-> TRUE, i |-> i, nodes |-> nodes, full |-> full]

RECURSIVE PSeq(_,_,_,_,_)
RECURSIVE POne(_,_,_,_,_)
RECURSIVE PRep(_,_,_,_,_,_)
RECURSIVE PExts(_,_,_,_,_,_)

\* the fields of sch one after the other in b[i..end]
PSeq(sch, b, i, end, pre) ==
  IF sch = <<>> THEN Done(i, <<>>, TRUE)
  ELSE LET r == POne(Head(sch), b, i, end, pre) IN
       IF ~r.ok THEN Fail
       ELSE LET r2 == PSeq(Tail(sch), b, r.i, end, pre) IN
            IF ~r2.ok THEN Fail ELSE Done(r2.i, r.nodes \o r2.nodes, r.full /\ r2.full)

\* children of a vector: when the inner grammar does not fit, the content stays opaque (full = FALSE)
Inner(self, r, ce) == IF r.ok /\ r.i = ce + 1 THEN Done(ce + 1, <<self>> \o r.nodes, r.full)
                                               ELSE Done(ce + 1, <<self>>, FALSE)

POne(sc, b, i, end, pre) ==
  LET p == pre \o "/" \o sc.name IN
  CASE sc.g = "fix"  -> IF i + sc.n - 1 > end THEN Fail ELSE Done(i + sc.n, << Plain(p, i, i + sc.n - 1) >>, TRUE)
    [] sc.g = "code" -> IF i + sc.n - 1 > end THEN Fail
                        ELSE Done(i + sc.n, << Node(p, i, i + sc.n - 1, 0, 0, i, sc.n, sc.tk, 0, FALSE) >>, TRUE)
    [] sc.g = "decl" -> IF i + sc.n - 1 > end THEN Fail
                        ELSE Done(i + sc.n, << Node(p, i, i + sc.n - 1, i, sc.n, 0, 0, "", 0, TRUE) >>, TRUE)
    [] sc.g = "rest" -> IF i > end THEN Done(i, <<>>, TRUE) ELSE Done(end + 1, << Plain(p, i, end) >>, TRUE)
    [] sc.g = "exts" ->
         IF i + 1 > end THEN Fail
         ELSE LET n == RdU16(b, i)  ce == i + 1 + n IN
              IF ce > end THEN Fail
              ELSE Inner(Node(p, i, ce, i, 2, 0, 0, "extlist", 0, FALSE), PExts(sc.ctx, b, i + 2, ce, p, 1), ce)
    [] OTHER ->   \* opq, list, vec, rep: an ln-byte length, then the content
         IF i + sc.ln - 1 > end THEN Fail
         ELSE LET n == RdN(b, i, sc.ln)  cs == i + sc.ln  ce == i + sc.ln + n - 1 IN
              IF ce > end THEN Fail
              ELSE CASE sc.g = "opq" -> Done(ce + 1, << Node(p, i, ce, i, sc.ln, 0, 0, sc.tk, 0, FALSE) >>, TRUE)
                     [] sc.g = "list" ->
                          LET self == Node(p, i, ce, i, sc.ln, 0, 0, "", sc.el, FALSE)
                              k == n \div sc.el
                              elems == IF n % sc.el # 0 \/ k = 0 THEN <<>>
                                       ELSE IF k = 1 THEN << Plain(p \o "/1", cs, ce) >>
                                       ELSE << Plain(p \o "/1", cs, cs + sc.el - 1), Plain(p \o "/" \o ToString(k), ce - sc.el + 1, ce) >>
                          IN Done(ce + 1, <<self>> \o elems, n % sc.el = 0)
                     [] sc.g = "vec" -> Inner(Node(p, i, ce, i, sc.ln, 0, 0, "", 0, FALSE), PSeq(sc.body, b, cs, ce, p), ce)
                     [] OTHER        -> Inner(Node(p, i, ce, i, sc.ln, 0, 0, "", 0, FALSE), PRep(sc.item, b, cs, ce, p, 1), ce)

\* repetitions of item filling b[i..end]; an item of several fields also gets a node of its own
PRep(item, b, i, end, pre, idx) ==
  IF i = end + 1 THEN Done(i, <<>>, TRUE)
  ELSE LET p == pre \o "/" \o ToString(idx)
           r == PSeq(item, b, i, end, p) IN
       IF ~r.ok \/ r.i <= i THEN Fail
       ELSE LET self == IF Len(item) > 1 THEN << Plain(p, i, r.i - 1) >> ELSE <<>>
                r2 == PRep(item, b, r.i, end, pre, idx + 1) IN
            IF ~r2.ok THEN Fail ELSE Done(r2.i, self \o r.nodes \o r2.nodes, r.full /\ r2.full)

\* extensions filling b[i..end]
PExts(ctx, b, i, end, pre, idx) ==
  IF i = end + 1 THEN Done(i, <<>>, TRUE)
  ELSE IF i + 3 > end THEN Fail
  ELSE LET t == RdU16(b, i)  n == RdU16(b, i + 2)  ce == i + 3 + n
           p == pre \o "/x" \o ToString(idx) \o ":" \o ToString(t) IN
       IF ce > end THEN Fail
       ELSE LET self == Node(p, i, ce, i + 2, 2, i, 2, "ext", 0, FALSE)
                r  == PSeq(ExtSchema(ctx, t), b, i + 4, ce, p)
                me == IF r.ok /\ r.i = ce + 1 THEN Done(ce + 1, <<self>> \o r.nodes, r.full)
                      ELSE Done(ce + 1, <<self>> \o (IF n > 0 THEN << Plain(p \o "/data", i + 4, ce) >> ELSE <<>>), FALSE)
                r2 == PExts(ctx, b, ce + 1, end, pre, idx + 1) IN
            IF ~r2.ok THEN Fail ELSE Done(r2.i, me.nodes \o r2.nodes, me.full /\ r2.full)

\* A handshake message occupying b[i0..end] (framing must be exact, else no tree).
RECURSIVE TrySchemas(_,_,_,_)
TrySchemas(cands, b, i0, end) ==
  IF cands = <<>> THEN [nodes |-> IF i0 + 4 <= end THEN << Plain("hs/body", i0 + 4, end) >> ELSE <<>>, full |-> FALSE]
  ELSE LET r == PSeq(Head(cands), b, i0 + 4, end, "hs") IN
       IF r.ok /\ r.i = end + 1 /\ r.full THEN [nodes |-> r.nodes, full |-> TRUE]
       ELSE TrySchemas(Tail(cands), b, i0, end)

HsFramed(b, i0, end) == end >= i0 + 3 /\ RdU24(b, i0 + 1) = end - i0 - 3
IsHRRRandom(b, i0) ==   \* SHA-256("HelloRetryRequest") in the random of a ServerHello at i0
  i0 + 37 <= Len(b) /\ SubSeq(b, i0 + 6, i0 + 37) =
     << 207,33,173,116,229,154,97,17,190,29,140,2,30,101,184,145,194,162,17,22,122,187,140,94,7,158,9,226,200,168,51,156 >>

MsgTree(b, i0, end, v13, fromClient) ==
  IF ~HsFramed(b, i0, end) THEN [nodes |-> <<>>, full |-> FALSE]
  ELSE LET kind == b[i0]
           hrr  == kind = 2 /\ IsHRRRandom(b, i0)
           r    == TrySchemas(MsgSchemas(kind, v13, hrr, fromClient), b, i0, end)
       IN [nodes |-> << Node("hs", i0, end, i0 + 1, 3, i0, 1, "hs", 0, FALSE) >> \o r.nodes, full |-> r.full]

\* the tree of one plaintext handshake message b
Tree(b, v13, fromClient) == MsgTree(b, 1, Len(b), v13, fromClient)

\* the tree of a TLS record holding one handshake message (importer input of C07)
RecTree(b) ==
  IF Len(b) < 5 \/ RdU16(b, 4) # Len(b) - 5 THEN [nodes |-> <<>>, full |-> FALSE]
  ELSE LET m == MsgTree(b, 6, Len(b), FALSE, TRUE) IN
       [nodes |-> << Node("rec", 1, Len(b), 4, 2, 1, 1, "rec", 0, FALSE), Node("rec/legacy_record_version", 2, 3, 0, 0, 2, 2, "code16", 0, FALSE) >>
                  \o m.nodes, full |-> m.full]

(***************************************************************************)
(* Splices and mutation operators.                                         *)
(***************************************************************************)
Sp(off, del, ins) == [off |-> off, del |-> del, ins |-> ins]

\* apply splices (ascending, non-overlapping offsets into b)
RECURSIVE ApplyFrom(_,_,_)
ApplyFrom(b, sp, pos) ==     \* pos: 0-based position in b already consumed
  IF sp = <<>> THEN SubSeq(b, pos + 1, Len(b))
  ELSE LET x == Head(sp) IN SubSeq(b, pos + 1, x.off) \o x.ins \o ApplyFrom(b, Tail(sp), x.off + x.del)
SplicesFit(b, sp) == /\ \A j \in DOMAIN sp : sp[j].off >= 0 /\ sp[j].del >= 0 /\ sp[j].off + sp[j].del <= Len(b)
                     /\ \A j \in DOMAIN sp : j > 1 => sp[j-1].off + sp[j-1].del <= sp[j].off
ApplySplices(b, sp) == ApplyFrom(b, sp, 0)

\* ancestors of n that own a length field (document order = ascending position)
Encloses(a, n) == a # n /\ a.ln > 0 /\ ~a.decl /\ a.lp + a.ln <= n.s /\ n.e <= a.e
Anc(N, n) == SelectSeq(N, LAMBDA a : Encloses(a, n))
SetLen(b, a, v) == Sp(a.lp - 1, a.ln, Un(v, a.ln))
Adj(b, A, delta) == [j \in DOMAIN A |-> SetLen(b, A[j], RdN(b, A[j].lp, A[j].ln) + delta)]
Size(n) == n.e - n.s + 1
IsRoot(b, n) == n.s = 1 /\ n.e = Len(b)

\* A field marked as a registry id (tk = "reg:<registry>") ranges over 0, every registered value, every registered
\* value -1 / +1, 0xffff and a few u16 boundaries: a parser that trusts "the registry knows it" is as wrong as one
\* that forgets a bound.  (IANA HPKE KDF / AEAD ids incl. the export-only AEAD 0xffff, TLS supported groups as utls
\* knows them, signature schemes, RFC 8879 algorithms.)
Registered(tk) ==
  CASE tk = "reg:hpke_kdf"         -> {1, 2, 3}
    [] tk = "reg:hpke_aead"        -> {1, 2, 3, 65535}
    [] tk = "reg:named_group"      -> {23, 24, 25, 29, 30, 256, 257, 258, 4587, 4588, 25497, 25498}
    [] tk = "reg:sig_scheme"       -> {513, 515, 1025, 1027, 1281, 1283, 1537, 1539, 2052, 2053, 2054, 2055, 2056, 2057, 2058, 2059}
    [] tk = "reg:cert_compression" -> {1, 2, 3}
    [] tk = "reg:ech_config_id"    -> {7, 107}      \* the ids of the ECH configs the harness's ECH-enabled server holds
    [] OTHER -> {}
IsRegistry(tk) == Registered(tk) # {}
RegistryTargets(tk) == LET R == Registered(tk) IN
  ({0, 255, 256, 4865, 32767, 65534, 65535} \cup R \cup {r - 1 : r \in R} \cup {r + 1 : r \in R}) \cap (0..65535)

HsKinds == {0, 1, 2, 4, 5, 8, 11, 12, 13, 14, 15, 16, 20, 22, 24, 25, 67, 99, 254}
SwapTargets(b, n) ==
  LET cur == RdN(b, n.tp, n.tn) IN
  ( CASE n.tk = "hs"     -> HsKinds
      [] n.tk = "ext"    -> {41, 43, 51, 17613, 65280}
      [] n.tk = "code16" -> {0, 2570, 65535}
      [] IsRegistry(n.tk) -> RegistryTargets(n.tk) \cap (0 .. (Pow256(n.tn) - 1))
      [] n.tk = "code8"  -> {0, (cur + 1) % 256, 255}
      [] n.tk = "rec"    -> {0, 20, 21, 23}
      [] OTHER -> {} ) \ {cur}

One(c, x) == IF c THEN <<x>> ELSE <<>>
Mu(op, cls, sp) == [op |-> op, cls |-> cls, sp |-> sp]

\* classes: truncate | length | duplicate | drop | oddlist | swap  (+ insert, at message level)
LenMuts(b, n) ==
  IF n.ln = 0 THEN <<>> ELSE
  LET v == RdN(b, n.lp, n.ln)  mx == Pow256(n.ln) - 1 IN
     One(v < mx,                Mu("len+1",  "length", << SetLen(b, n, v + 1) >>))
  \o One(v > 0,                 Mu("len-1",  "length", << SetLen(b, n, v - 1) >>))
  \o One(v > 1,                 Mu("len0",   "length", << SetLen(b, n, 0) >>))
  \o One(v + 1 < mx,            Mu("lenmax", "length", << SetLen(b, n, mx) >>))

TruncMuts(b, N, n) ==
  LET cut == Len(b) - n.s + 1
      A == Anc(N, n)
      root == N[1] IN
  IF n.s <= 1 \/ n.s > Len(b) THEN <<>> ELSE
     << Mu("trunc", "truncate", << Sp(n.s - 1, cut, <<>>) >>) >>
  \o One(Encloses(root, n), Mu("trunc+hdr", "truncate", << SetLen(b, root, RdN(b, root.lp, root.ln) - cut), Sp(n.s - 1, cut, <<>>) >>))
  \o One(Len(A) > 1, Mu("trunc+all", "truncate",
           [j \in DOMAIN A |-> SetLen(b, A[j], RdN(b, A[j].lp, A[j].ln) - (A[j].e - n.s + 1))] \o << Sp(n.s - 1, cut, <<>>) >>))

DupDropMuts(b, N, n) ==
  LET A == Anc(N, n)  sz == Size(n)  bytes == SubSeq(b, n.s, n.e) IN
     << Mu("dup", "duplicate", << Sp(n.e, 0, bytes) >>) >>
  \o One(A # <<>>, Mu("dup+fix", "duplicate", Adj(b, A, sz) \o << Sp(n.e, 0, bytes) >>))
  \o One(~IsRoot(b, n), Mu("drop", "drop", << Sp(n.s - 1, sz, <<>>) >>))
  \o One(A # <<>>, Mu("drop+fix", "drop", Adj(b, A, 0 - sz) \o << Sp(n.s - 1, sz, <<>>) >>))

OddMuts(b, N, n) ==
  IF n.el < 2 \/ n.ln = 0 THEN <<>> ELSE
  LET v == RdN(b, n.lp, n.ln) IN
  One(v >= 1, Mu("odd", "oddlist", Adj(b, Anc(N, n), 0 - 1) \o << SetLen(b, n, v - 1), Sp(n.e - 1, 1, <<>>) >>))

\* a vector marked "resize": its content replaced by n bytes for boundary n, every length kept consistent
ResizeLens == {0, 1, 2, 15, 16, 17, 31, 32, 33, 64, 255, 256}
RECURSIVE SetToSeq1(_)     \* a finite set of integers in ascending order
SetToSeq1(S) == IF S = {} THEN <<>> ELSE LET x == CHOOSE y \in S : \A z \in S : y <= z IN <<x>> \o SetToSeq1(S \ {x})
SwapMuts(b, n) ==
  IF n.tn = 0 THEN <<>> ELSE
  LET ts == SetToSeq1(SwapTargets(b, n)) IN
  [j \in DOMAIN ts |-> Mu("swap:" \o ToString(ts[j]), "swap", << Sp(n.tp - 1, n.tn, Un(ts[j], n.tn)) >>)]

ResizeMuts(b, N, n) ==
  IF n.tk # "resize" \/ n.ln = 0 THEN <<>> ELSE
  LET v  == RdN(b, n.lp, n.ln)
      ls == SetToSeq1(ResizeLens \ {v}) IN
  [j \in DOMAIN ls |-> Mu("resize:" \o ToString(ls[j]), "length",
        Adj(b, Anc(N, n), ls[j] - v) \o << SetLen(b, n, ls[j]), Sp(n.lp + n.ln - 1, v, [i \in 1..ls[j] |-> (i * 11 + 5) % 256]) >>)]

\* every extension type the library parses somewhere (ClientHello, ServerHello / HelloRetryRequest, EncryptedExtensions,
\* certificate entries, CertificateRequest, NewSessionTicket; handshake_messages.go, u_handshake_messages.go), appended
\* to EVERY extension list, with an empty body, a one-byte body and a minimal well-formed one
KnownExts == <<0, 5, 10, 11, 13, 16, 17, 18, 21, 23, 27, 28, 34, 35, 41, 42, 43, 44, 45, 47, 49, 50, 51, 57, 17513, 17613, 65037, 65281>>
MinExtBody(t) ==
  CASE t = 0 -> <<0,4, 0, 0,1, 97>>      [] t = 5 -> <<1, 0,0, 0,0>>       [] t = 10 -> <<0,2, 0,29>>        [] t = 11 -> <<1, 0>>
    [] t \in {13, 50, 34} -> <<0,2, 4,3>> [] t = 16 -> <<0,3, 2, 104,50>>  [] t = 18 -> <<0,3, 0,1, 0>>      [] t = 21 -> <<0,0>>
    [] t = 27 -> <<2, 0,2>>               [] t = 28 -> <<64,0>>            [] t = 41 -> <<0,0>>              [] t = 42 -> <<0,0,0,0>>
    [] t = 43 -> <<3,4>>                  [] t = 44 -> <<0,1, 0>>          [] t = 45 -> <<1, 1>>             [] t = 47 -> <<0,0>>
    [] t = 51 -> <<0,29>>                 [] t \in {17513, 17613} -> <<1,2>> [] t = 65037 -> <<0,0>>         [] t = 65281 -> <<0>>
    [] OTHER -> <<>>
InsertExtMuts(b, N, n) ==
  IF n.tk # "extlist" THEN <<>> ELSE
  LET v == RdN(b, n.lp, n.ln)
      A == Anc(N, n)
      one(t, body, tag) == LET x == U16(t) \o Vec16(body) IN
                           Mu("insert-ext:" \o ToString(t) \o ":" \o tag, "insertext",
                              Adj(b, A, Len(x)) \o << SetLen(b, n, v + Len(x)), Sp(n.e, 0, x) >>)
      per == [j \in DOMAIN KnownExts |->
                << one(KnownExts[j], <<>>, "empty"), one(KnownExts[j], <<0>>, "1byte") >>
                \o (IF MinExtBody(KnownExts[j]) \in {<<>>, <<0>>} THEN <<>> ELSE << one(KnownExts[j], MinExtBody(KnownExts[j]), "minimal") >>)]
  IN Flat(per)

NodeMuts(b, N, n) == InsertExtMuts(b, N, n) \o TruncMuts(b, N, n) \o LenMuts(b, n) \o DupDropMuts(b, N, n) \o OddMuts(b, N, n) \o SwapMuts(b, n) \o ResizeMuts(b, N, n)

\* C07: every pair (record-layer version, legacy_version) of a ClientHello record, with the supported_versions
\* extension kept and dropped (FromRaw maps the two to TLSVersMin / TLSVersMax when the extension is absent)
VersionValues == <<768, 769, 770, 771, 772, 773>>
VersionMuts(b, N) ==
  LET rv == SelectSeq(N, LAMBDA n : n.p = "rec/legacy_record_version")
      lv == SelectSeq(N, LAMBDA n : n.p = "hs/legacy_version")
      sv == SelectSeq(N, LAMBDA n : n.tk = "ext" /\ RdU16(b, n.tp) = 43) IN
  IF rv = <<>> \/ lv = <<>> THEN <<>> ELSE
  LET R == rv[1]  L == lv[1]
      set(a, c) == << Sp(R.tp - 1, 2, U16(a)) >>
      leg(c) == << Sp(L.tp - 1, 2, U16(c)) >>
      adj == IF sv = <<>> THEN <<>> ELSE Adj(b, Anc(N, sv[1]), 0 - Size(sv[1]))
      lo == SelectSeq(adj, LAMBDA s : s.off < L.tp - 1)
      hi == SelectSeq(adj, LAMBDA s : s.off > L.tp - 1)
      keep(a, c) == Mu("versions:" \o ToString(a) \o "/" \o ToString(c), "versions", set(a, c) \o leg(c))
      drop(a, c) == Mu("versions-nosv:" \o ToString(a) \o "/" \o ToString(c), "versions",
                       set(a, c) \o lo \o leg(c) \o hi \o << Sp(sv[1].s - 1, Size(sv[1]), <<>>) >>)
      pairs == [i \in 1..36 |-> << VersionValues[((i - 1) \div 6) + 1], VersionValues[((i - 1) % 6) + 1] >>]
  IN [i \in 1..36 |-> keep(pairs[i][1], pairs[i][2])]
     \o (IF sv = <<>> THEN <<>> ELSE [i \in 1..36 |-> drop(pairs[i][1], pairs[i][2])])

\* a declared length is enlarged: the class that must not drive allocation (D16)
GrowsDeclaredLength(m) == m.op \in {"len+1", "lenmax"}
DeclaresHuge(m) == m.op \in {"insert-before:compressed_certificate_huge", "insert-after:compressed_certificate_huge"}

(***************************************************************************)
(* Unexpected message kinds: small well-formed messages of every kind,     *)
(* inserted before / after a message of the flight.                        *)
(***************************************************************************)
Hs(kind, body) == <<kind>> \o U24(Len(body)) \o body
Templates ==
  << [name |-> "hello_request",      b |-> Hs(0, <<>>)],
     [name |-> "client_hello",       b |-> Hs(1, <<3,3>> \o Zeros(32) \o <<0, 0,2,19,1, 1,0>>)],
     [name |-> "server_hello",       b |-> Hs(2, <<3,3>> \o Zeros(32) \o <<0, 19,1, 0>>)],
     [name |-> "new_session_ticket", b |-> Hs(4, <<0,0,0,60, 0,0,0,0, 0, 0,1,7, 0,0>>)],
     [name |-> "end_of_early_data",  b |-> Hs(5, <<>>)],
     [name |-> "encrypted_extensions", b |-> Hs(8, <<0,0>>)],
     [name |-> "encrypted_extensions_alps", b |-> Hs(8, <<0,8, 68,205, 0,4, 1,2,3,4>>)],
     [name |-> "encrypted_extensions_alps_old", b |-> Hs(8, <<0,8, 68,105, 0,4, 1,2,3,4>>)],
     [name |-> "certificate",        b |-> Hs(11, <<0, 0,0,0>>)],
     [name |-> "server_key_exchange", b |-> Hs(12, <<>>)],
     [name |-> "certificate_request", b |-> Hs(13, <<0, 0,0>>)],
     [name |-> "server_hello_done",  b |-> Hs(14, <<>>)],
     [name |-> "certificate_verify", b |-> Hs(15, <<8,4, 0,4, 1,2,3,4>>)],
     [name |-> "client_key_exchange", b |-> Hs(16, <<1,4>>)],
     [name |-> "finished",           b |-> Hs(20, Zeros(32))],
     [name |-> "certificate_status", b |-> Hs(22, <<1, 0,0,1, 0>>)],
     [name |-> "key_update",         b |-> Hs(24, <<0>>)],
     [name |-> "key_update_request", b |-> Hs(24, <<1>>)],
     [name |-> "key_update_bad",     b |-> Hs(24, <<2>>)],
     [name |-> "compressed_certificate_zlib",   b |-> Hs(25, <<0,1, 0,0,16, 0,0,4, 1,2,3,4>>)],
     [name |-> "compressed_certificate_brotli", b |-> Hs(25, <<0,2, 0,0,16, 0,0,4, 1,2,3,4>>)],
     [name |-> "compressed_certificate_huge",   b |-> Hs(25, <<0,2, 255,255,255, 0,0,4, 1,2,3,4>>)],
     [name |-> "next_protocol",      b |-> Hs(67, <<>>)],
     [name |-> "unknown_99",         b |-> Hs(99, <<>>)],
     [name |-> "message_hash",       b |-> Hs(254, Zeros(32))] >>

InsertMuts(b) ==
  [j \in DOMAIN Templates |-> Mu("insert-before:" \o Templates[j].name, "insert", << Sp(0, 0, Templates[j].b) >>)]
  \o [j \in DOMAIN Templates |-> Mu("insert-after:" \o Templates[j].name, "insert", << Sp(Len(b), 0, Templates[j].b) >>)]

(***************************************************************************)
(* Raw records (C34, C33): a record of any content type with a body of     *)
(* 0..20 bytes, put on the wire where a protected record is expected: in   *)
(* place of the Finished record that follows ChangeCipherSpec (TLS <= 1.2) *)
(* and right after the completed handshake.  (halfConn.decrypt: explicit   *)
(* nonce, MAC and padding arithmetic on bodies shorter than they need.)    *)
(***************************************************************************)
RecTypes == <<0, 20, 21, 22, 23, 24, 255>>
RecLens  == 0..20
RawRecord(t, n) == <<t, 3, 3>> \o U16(n) \o [i \in 1..n |-> (i * 7 + 3) % 256]
\* recs: <<content type, length>> of the records one side wrote; the record after its ChangeCipherSpec (0-based), or -1
RECURSIVE FirstCCS(_,_)
FirstCCS(recs, i) == IF i > Len(recs) THEN 0 ELSE IF recs[i][1] = 20 THEN i ELSE FirstCCS(recs, i + 1)
RecAfterCCS(recs) == LET i == FirstCCS(recs, 1) IN IF i = 0 \/ i = Len(recs) THEN 0 - 1 ELSE i

(***************************************************************************)
(* Post-handshake phase (C33).  After a completed TLS 1.3 handshake the    *)
(* hostile server sends a sequence over PostKinds and never reads again;   *)
(* the client's outgoing direction is ok / blocked until the deadline /    *)
(* failing; then the application calls Read (until an error), Write and    *)
(* Close.  Every call returns: by the connection deadline, except that     *)
(* Close may take the library's own close_notify allowance (conn.go        *)
(* closeNotify: 5 s write deadline).  conn.go handlePostHandshakeMessage,  *)
(* handleKeyUpdate, sendAlert, closeNotify.                                *)
(***************************************************************************)
PostKinds  == <<"key_update_requested", "key_update_not_requested", "new_session_ticket", "application_data", "bad_mac_record", "close">>
\* the same phase with the roles swapped (C34): the hostile CLIENT speaks, the server's outgoing direction is ok /
\* blocked / failing, the server application calls Read, Write, Close
PostKindsClient == <<"key_update_requested", "key_update_not_requested", "application_data", "bad_mac_record", "raw_garbage", "close">>
PostKindsOf(side) == IF side = "c" THEN PostKindsClient ELSE PostKinds
Transports == <<"ok", "blocked", "failing">>
CloseNotifyMs == 5000
CallLimitMs(call, deadline) == IF call.call = "Close" THEN Max(deadline, call.start_ms + CloseNotifyMs) ELSE deadline

(***************************************************************************)
(* Protocol position of the receiver.                                      *)
(* ctx: [v13, psk] of the connection (read off the ServerHello).           *)
(***************************************************************************)
KindName(k) == CASE k = 0 -> "hello_request" [] k = 1 -> "client_hello" [] k = 2 -> "server_hello" [] k = 4 -> "new_session_ticket"
                 [] k = 5 -> "end_of_early_data" [] k = 8 -> "encrypted_extensions" [] k = 11 -> "certificate"
                 [] k = 12 -> "server_key_exchange" [] k = 13 -> "certificate_request" [] k = 14 -> "server_hello_done"
                 [] k = 15 -> "certificate_verify" [] k = 16 -> "client_key_exchange" [] k = 20 -> "finished"
                 [] k = 22 -> "certificate_status" [] k = 24 -> "key_update" [] k = 25 -> "compressed_certificate"
                 [] k = 254 -> "message_hash" [] OTHER -> "unknown"

\* what a ServerHello says about the connection
ShInfo(b) ==
  LET t == Tree(b, FALSE, FALSE).nodes
      exts(ty) == {j \in DOMAIN t : t[j].tk = "ext" /\ RdU16(b, t[j].tp) = ty}
  IN [v13 |-> \E j \in exts(43) : Size(t[j]) = 6 /\ RdU16(b, t[j].s + 4) = 772,
      psk |-> exts(41) # {}, hrr |-> IsHRRRandom(b, 1)]

\* client waiting for server messages (uTLS client: handshake_client.go / handshake_client_tls13.go / u_handshake_client.go)
ClientStep(st, kind, info, ctx) ==
  CASE st = "c:wait_sh"      /\ kind = 2 /\ info.hrr  -> "c:wait_sh_after_hrr"
    [] st \in {"c:wait_sh", "c:wait_sh_after_hrr"} /\ kind = 2 /\ ~info.hrr -> IF info.v13 THEN "c13:wait_ee" ELSE "c12:wait_cert"
    [] st = "c13:wait_ee"      /\ kind = 8  -> IF ctx.psk THEN "c13:wait_finished" ELSE "c13:wait_cert_or_certreq"
    [] st = "c13:wait_cert_or_certreq" /\ kind = 13 -> "c13:wait_cert"
    [] st \in {"c13:wait_cert_or_certreq", "c13:wait_cert"} /\ kind \in {11, 25} -> "c13:wait_cert_verify"
    [] st = "c13:wait_cert_verify" /\ kind = 15 -> "c13:wait_finished"
    [] st = "c13:wait_finished" /\ kind = 20 -> "c13:connected"
    [] st = "c13:connected"     /\ kind \in {4, 24} -> "c13:connected"
    [] st = "c12:wait_cert"     /\ kind = 11 -> "c12:wait_ske"
    [] st = "c12:wait_ske"      /\ kind = 22 -> "c12:wait_ske"
    [] st = "c12:wait_ske"      /\ kind = 12 -> "c12:wait_shd"
    [] st = "c12:wait_ske"      /\ kind = 13 -> "c12:wait_shd"                       \* RSA key exchange: no ServerKeyExchange
    [] st = "c12:wait_ske"      /\ kind = 14 -> "c12:wait_ticket_or_finished"
    [] st = "c12:wait_shd"      /\ kind = 13 -> "c12:wait_shd"
    [] st = "c12:wait_shd"      /\ kind = 14 -> "c12:wait_ticket_or_finished"
    [] st = "c12:wait_ticket_or_finished" /\ kind = 4 -> "c12:wait_finished"
    [] st \in {"c12:wait_ticket_or_finished", "c12:wait_finished"} /\ kind = 20 -> "c12:connected"
    [] OTHER -> "unexpected"

\* server waiting for client messages (handshake_server.go / handshake_server_tls13.go, verifPreClientFlight for ALPS)
ServerStep(st, kind, info, ctx) ==
  CASE st = "s:wait_ch" /\ kind = 1 -> IF ctx.hrr THEN "s:wait_ch_after_hrr" ELSE IF ctx.v13 THEN "s13:wait_flight2" ELSE "s12:wait_cert_or_cke"
    [] st = "s:wait_ch_after_hrr" /\ kind = 1 -> "s13:wait_flight2"
    [] st = "s13:wait_flight2" /\ kind = 8  -> "s13:wait_cert_or_finished"
    [] st \in {"s13:wait_flight2", "s13:wait_cert_or_finished"} /\ kind = 11 -> "s13:wait_cert_verify_or_finished"
    [] st = "s13:wait_cert_verify_or_finished" /\ kind = 15 -> "s13:wait_finished"
    [] st \in {"s13:wait_flight2", "s13:wait_cert_or_finished", "s13:wait_cert_verify_or_finished", "s13:wait_finished"} /\ kind = 20 -> "s13:connected"
    [] st = "s13:connected" /\ kind = 24 -> "s13:connected"
    [] st = "s12:wait_cert_or_cke" /\ kind = 11 -> "s12:wait_cke"
    [] st \in {"s12:wait_cert_or_cke", "s12:wait_cke"} /\ kind = 16 -> "s12:wait_cert_verify_or_finished"
    [] st = "s12:wait_cert_verify_or_finished" /\ kind = 15 -> "s12:wait_finished"
    [] st \in {"s12:wait_cert_verify_or_finished", "s12:wait_finished"} /\ kind = 20 -> "s12:connected"
    [] OTHER -> "unexpected"

(***************************************************************************)
(* Structured documents (C07): a JSON value as a tagged tree               *)
(*   [t: obj|arr|str|num|true|false|null, k: keys, v: children, s, n].     *)
(***************************************************************************)
JObj(k, v) == [t |-> "obj", k |-> k, v |-> v, s |-> "", n |-> 0]
JArr(v)    == [t |-> "arr", k |-> <<>>, v |-> v, s |-> "", n |-> 0]
JStr(s)    == [t |-> "str", k |-> <<>>, v |-> <<>>, s |-> s, n |-> 0]
JNum(n)    == [t |-> "num", k |-> <<>>, v |-> <<>>, s |-> "", n |-> n]
JLit(t)    == [t |-> t,     k |-> <<>>, v |-> <<>>, s |-> "", n |-> 0]
JBytes(b)  == JArr([i \in DOMAIN b |-> JNum(b[i])])

Leafy(d) == d.t = "arr" /\ Len(d.v) > 3 /\ \A i \in DOMAIN d.v : d.v[i].t \in {"num", "str"}
\* children that are descended into: of a long list of scalars only the first and the last
DKids(d) == IF Leafy(d) THEN {1, Len(d.v)} ELSE DOMAIN d.v
RECURSIVE DPaths(_)
DPaths(d) == {<<>>} \cup UNION { { <<i>> \o p : p \in DPaths(d.v[i]) } : i \in DKids(d) }
RECURSIVE DAt(_,_)
DAt(d, p) == IF p = <<>> THEN d ELSE DAt(d.v[Head(p)], Tail(p))
Front1(p) == SubSeq(p, 1, Len(p) - 1)

\* an edit: act in set (replace node) | del | dup | key (rename the key)
Ed(op, cls, path, act, node, key) == [op |-> op, cls |-> cls, path |-> path, act |-> act, node |-> node, key |-> key]
NoNode == JLit("null")
AltNodes(t) == LET all == << JNum(7), JStr("x"), JArr(<<>>), JObj(<<>>, <<>>), JLit("true"), JLit("null") >>
               IN SelectSeq(all, LAMBDA a : a.t # t)

DocMuts(d, p) ==
  LET x == DAt(d, p)
      par == IF p = <<>> THEN NoNode ELSE DAt(d, Front1(p))
      alts == AltNodes(x.t) IN
     One(p # <<>> /\ par.t = "obj", Ed("missing-key", "missing", p, "del", NoNode, ""))
  \o One(p # <<>> /\ par.t = "arr", Ed("drop-element", "size", p, "del", NoNode, ""))
  \o One(p # <<>> /\ par.t = "arr", Ed("dup-element", "size", p, "dup", NoNode, ""))
  \o One(p # <<>> /\ par.t = "obj", Ed("dup-key", "size", p, "dup", NoNode, ""))
  \o One(p # <<>> /\ par.t = "obj", Ed("unknown-key", "unknown", p, "key", NoNode, "verif_unknown_key"))
  \o [j \in DOMAIN alts |-> Ed("type:" \o x.t \o "->" \o alts[j].t, "wrongtype", p, "set", alts[j], "")]
  \o One(x.t \in {"arr", "obj"} /\ x.v # <<>>, Ed("empty", "empty", p, "set", [x EXCEPT !.k = <<>>, !.v = <<>>], ""))
  \o One(x.t = "str", Ed("unknown-name", "unknown", p, "set", JStr("verif_unknown_name"), ""))
  \o One(x.t = "str", Ed("empty-name", "unknown", p, "set", JStr(""), ""))
  \o (IF x.t # "num" THEN <<>> ELSE
        LET vs == SetToSeq1({0 - 1, 255, 256, 65535, 65536} \ {x.n}) IN   \* (2^31-1 as a padding length is obeyed: minutes and GBs, no panic)
        [j \in DOMAIN vs |-> Ed("num:" \o ToString(vs[j]), "range", p, "set", JNum(vs[j]), "")])

\* the tlsfingerprint.io map of a ClientHello (u_common.go ImportTLSClientHello doc comment), derived from captured bytes
HelloMap(hs) ==
  LET h == ParseHello(hs)
      body(t) == IF HasExtT(h, t) THEN ExtBody(h, t) ELSE <<>>
      tail(b, k) == SubSeq(b, k + 1, Len(b))
      sh == IF HasExtT(h, 51) /\ IsVec16(body(51)) /\ SharesOK(body(51), 3) THEN ParseShares(body(51), 3) ELSE <<>>
      opt(t, key, val) == IF HasExtT(h, t) THEN << <<key, JBytes(val)>> >> ELSE <<>>
      kv == << <<"cipher_suites", JBytes(U16List(h.suites))>>, <<"compression_methods", JBytes(h.comp)>>,
               <<"extensions", JBytes(U16List(ExtTypes(h)))>> >>
            \o opt(11, "pt_fmts", body(11)) \o opt(13, "sig_algs", body(13)) \o opt(43, "supported_versions", tail(body(43), 1))
            \o opt(10, "curves", body(10)) \o opt(16, "alpn", body(16))
            \o opt(51, "key_share", Flat([i \in DOMAIN sh |-> U16(sh[i].group) \o U16(sh[i].n)]))
            \o opt(45, "psk_key_exchange_modes", tail(body(45), 1)) \o opt(27, "cert_compression_algs", tail(body(27), 1))
            \o opt(28, "record_size_limit", body(28))
  IN JObj([i \in DOMAIN kv |-> kv[i][1]], [i \in DOMAIN kv |-> kv[i][2]])

(***************************************************************************)
(* Judgements on what the real code did (used by Flight_Trace).            *)
(***************************************************************************)
\* a message has the layout sk = [len, pos, val, typ]: positions and values of its length fields (typ 0) and type
\* codes (typ 1).  A GREASE code (bytes 0x?A 0x?A, drawn per connection) may stand where another GREASE code stood:
\* that moves no boundary.
SkelOK(b, sk) == /\ Len(b) = sk.len
                 /\ \A j \in DOMAIN sk.pos : \/ b[sk.pos[j]] = sk.val[j]
                                              \/ (sk.typ[j] = 1 /\ b[sk.pos[j]] % 16 = 10 /\ sk.val[j] % 16 = 10)
\* digest of a byte string (the harness logs the same polynomial hash of what it sent)
SX == INSTANCE SequencesExt
Digest(b) == SX!FoldLeft(LAMBDA a, x : (a * 257 + x + 1) % 1000003, 7, b)

Outcomes == {"ok", "error"}          \* the only acceptable results of a call on hostile input
SlackMs == 1000                       \* scheduling tolerance on "returns within the connection deadline"
AllocSlackKB == 1024                  \* a mutated message (< 64 KiB) may not cost more than the untouched flight + 1 MiB
\* alert descriptions the library can name (alert.go); "" = no alert seen by the peer
Alerts == {"", "close notify", "unexpected message", "bad record MAC", "decryption failed", "record overflow", "decompression failure",
           "handshake failure", "bad certificate", "unsupported certificate", "revoked certificate", "expired certificate",
           "unknown certificate", "illegal parameter", "unknown certificate authority", "access denied", "error decoding message",
           "error decrypting message", "export restriction", "protocol version not supported", "insufficient security level",
           "internal error", "inappropriate fallback", "user canceled", "no renegotiation", "missing extension", "unsupported extension",
           "certificate unobtainable", "unrecognized name", "bad certificate status response", "bad certificate hash value",
           "unknown PSK identity", "certificate required", "no application protocol", "encrypted client hello required"}

\* a record that holds a syntactically valid ClientHello (what FingerprintClientHello expects)
ValidHelloRecord(r) == /\ Len(r) >= 5 /\ IsBytes(r) /\ r[1] = 22 /\ RdU16(r, 4) = Len(r) - 5
                       /\ ValidClientHello(SubSeq(r, 6, Len(r)))
=============================================================================
