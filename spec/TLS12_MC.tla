------------------------------ MODULE TLS12_MC ------------------------------
(***************************************************************************)
(* Bounded exhaustive exploration of the TLS <= 1.2 client handshake       *)
(* (module TLS12) against an abstract server that may do anything within   *)
(* the message grammar at each step of its flight: send the next message   *)
(* as a compliant server would, rewrite it, drop it, repeat it, defer it   *)
(* past the next one, or put a foreign message before / after it           *)
(* (HelloRequest at any time, a Finished before the ChangeCipherSpec, a    *)
(* CertificateStatus nobody asked for, another certificate ...).           *)
(* One behaviour = one scenario: a plan (client identity = a row of the    *)
(* offers table dumped from the code, server configuration, shape:         *)
(* full / resume / reneg / resreneg / mixed / insecure), walked connection *)
(* by connection, handshake by handshake, anchor by anchor; at most K      *)
(* deviations in the designated handshake.                                 *)
(* Invariants restate C12 / C13 / C14 / C19 and the Finished order on the  *)
(* client state, require that a deviation the catalogue marks fatal is     *)
(* never followed by completion (independent of Deliver's own checks),     *)
(* that an undisturbed flight completes, and (deadlock check) that the     *)
(* client always has a next step until its call returns.  Every terminal   *)
(* state is printed as a scenario for replay on the real code.             *)
(***************************************************************************)
EXTENDS TLS12
CONSTANTS K,          \* deviations per scenario
          Tier,       \* "quick" | "thorough": prunes the plan dimensions
          RowSel      \* rows of the offers table this run starts plans from ({} = all): big tables are explored in several runs

OfferTab == JsonDeserialize("tls12_offers.json")
AllRows == {i \in DOMAIN OfferTab : OfferTab[i].ok}
Rows == IF RowSel = {} THEN AllRows ELSE AllRows \cap RowSel
Offs == [i \in DOMAIN OfferTab |-> IF OfferTab[i].ok THEN Offer12(OfferTab[i].raw, OfferTab[i].min) ELSE NoOffer12]

H2 == <<104, 50>>
SCTS == <<<<118,101,114,105,102,45,115,99,116,45,49>>, <<118,101,114,105,102,45,115,99,116,45,50,50>>>>   \* what the harness' certificates carry
STAPLE == <<118,101,114,105,102,45,111,99,115,112,45,115,116,97,112,108,101>>

\* ------------------------------------------------------------ server configurations worth trying for an offer
Impl12 == {s \in {SuiteTab[i].ID : i \in DOMAIN SuiteTab} : ~SuiteRec(s).TLS13 /\ SuiteRec(s).InDefaultTable}
MinOf(S) == CHOOSE x \in S : \A y \in S : x <= y
\* one suite per key-exchange / signature class the hello offers and the in-tree server implements (at TLS 1.2)
ClassOf(s) == IF SuiteRec(s).ECDHE THEN (IF SuiteRec(s).ECSign THEN "ecdhe-ecdsa" ELSE "ecdhe-rsa") ELSE "rsa"
\* (thorough: also one suite per class that exists before TLS 1.2, so that TLS 1.0 / 1.1 handshakes are walked too)
\* (quick: the pre-1.2 suites only for custom specs, where a TLS 1.0 / 1.1 session meets the session controller's assertions)
SuiteChoices(o, custom) ==
  LET C == {s \in o.suites \cap Impl12 : SuiteRec(s).AEAD}
      Old == IF Tier = "quick" /\ ~custom THEN {} ELSE {s \in o.suites \cap Impl12 : ~SuiteRec(s).TLS12 /\ ~SuiteRec(s).AEAD /\ SuiteRec(s).KeyLen = 16 /\ SuiteRec(s).MacLen = 20 /\ SuiteRec(s).IVLen = 16}
      cls == IF Tier = "quick" THEN {"ecdhe-ecdsa", "rsa"} ELSE {"ecdhe-ecdsa", "ecdhe-rsa", "rsa"} IN
  {MinOf({s \in C : ClassOf(s) = c}) : c \in {d \in cls : \E s \in C : ClassOf(s) = d}}
  \cup {MinOf({s \in Old : ClassOf(s) = c}) : c \in {d \in {"ecdhe-ecdsa", "rsa"} : \E s \in Old : ClassOf(s) = d}}
\* a second offered suite of the same class (a server that resumes with another suite, a renegotiation that changes it)
OtherSuite(o, s) == LET C == {t \in o.suites \cap Impl12 : t # s /\ SuiteRec(t).AEAD /\ ClassOf(t) = ClassOf(s)} IN IF C = {} THEN 0 ELSE MinOf(C)
CertFor(s) == IF SuiteRec(s).ECDHE /\ SuiteRec(s).ECSign THEN "A" ELSE "Arsa"
OtherCert(c) == IF c = "A" THEN "B" ELSE "Brsa"
Srv(ver, suite, rich, ca, tickets) ==
  [ver |-> ver, suite |-> suite, group |-> 0, cert |-> CertFor(suite), alpn |-> IF rich THEN <<"h2">> ELSE <<>>, client_auth |-> ca,
   tickets |-> tickets, ocsp |-> rich, sct |-> rich]

\* ------------------------------------------------------------ plans
\* dev: the (connection, handshake) in which the server may deviate;  conns: per connection the offers row, InsecureSkipVerify
\* and the server configuration of each of its handshakes
CCerts(ca) == IF ca = 0 THEN {""} ELSE IF Tier = "quick" THEN {"", "ecdsa", "cb_err"} ELSE {"", "ecdsa", "rsa", "cb_ecdsa", "cb_empty", "cb_err"}
CAs == IF Tier = "quick" THEN {0, 1} ELSE {0, 1, 2}
Rich == {FALSE, TRUE}
\* (quick: the plain server configuration only for the one-handshake shape)
Lean(r) == Tier = "quick" /\ ~r
Conn(i, ins, hs) == [oi |-> i, insecure |-> ins, hs |-> hs]
PlansOf(i) ==
  LET o == Offs[i] IN
  UNION {UNION {
    LET s0 == Srv(771, su, r, 0, TRUE) IN
    \* one connection, one handshake, with and without a certificate request
    {[shape |-> "full", ccert |-> cc, dev |-> <<1, 1>>, conns |-> <<Conn(i, FALSE, <<Srv(771, su, r, ca, TRUE)>>)>>] :
         cc \in IF ca = 0 \/ (r /\ SuiteRec(su).AEAD) THEN CCerts(ca) ELSE {}}
    \* an older protocol version (with a suite that exists there), one handshake and a resumption
    \cup (IF ca # 0 \/ ~r THEN {} ELSE
       UNION {{[shape |-> "full", ccert |-> "", dev |-> <<1, 1>>, conns |-> <<Conn(i, FALSE, <<Srv(v, su, r, 0, TRUE)>>)>>],
               [shape |-> "resume", ccert |-> "", dev |-> <<2, 1>>,
                conns |-> <<Conn(i, FALSE, <<Srv(v, su, r, 0, TRUE)>>), Conn(i, FALSE, <<Srv(v, su, r, 0, TRUE)>>), Conn(i, FALSE, <<Srv(v, su, r, 0, TRUE)>>)>>]}
              : v \in {w \in (IF Tier = "thorough" THEN {770, 769} ELSE {770}) : w \in o.versions /\ ~SuiteRec(su).TLS12}})
    \cup (IF ca # 0 \/ Lean(r) \/ ~SuiteRec(su).AEAD THEN {} ELSE
    \* tickets switched off
       (IF Tier = "thorough" THEN {[shape |-> "full", ccert |-> "", dev |-> <<1, 1>>, conns |-> <<Conn(i, FALSE, <<Srv(771, su, r, 0, FALSE)>>)>>]} ELSE {})
    \* a connection, a second one that can resume (deviations there), a third one
       \cup {[shape |-> "resume", ccert |-> "", dev |-> <<2, 1>>, conns |-> <<Conn(i, FALSE, <<s0>>), Conn(i, FALSE, <<s0>>), Conn(i, FALSE, <<s0>>)>>]}
    \* the same identity with another spec variant on the second connection (extended_master_secret / session_ticket removed or added)
       \cup {[shape |-> "mixed", ccert |-> "", dev |-> <<2, 1>>, conns |-> <<Conn(i, FALSE, <<s0>>), Conn(j, FALSE, <<s0>>), Conn(i, FALSE, <<s0>>)>>] :
               j \in {x \in AllRows : x # i /\ OfferTab[x].id = OfferTab[i].id /\ su \in Offs[x].suites}}
    \* a connection that does not verify stores a session; a verifying one must neither resume it nor accept the certificate
       \cup {[shape |-> "insecure", ccert |-> "", dev |-> <<0, 0>>,
              conns |-> <<Conn(i, TRUE, <<[s0 EXCEPT !.cert = IF s0.cert = "A" THEN "untrusted" ELSE "untrusted_rsa"]>>),
                          Conn(i, FALSE, <<[s0 EXCEPT !.cert = IF s0.cert = "A" THEN "untrusted" ELSE "untrusted_rsa"]>>)>>]}
    \* a resumed connection that is then renegotiated
       \cup {[shape |-> "resreneg", ccert |-> "", dev |-> <<2, 2>>, conns |-> <<Conn(i, FALSE, <<s0>>), Conn(i, FALSE, <<s0, s0>>)>>]})
    \* renegotiation: same / other certificate, same / other suite, with / without a certificate request, then once more
    \cup {[shape |-> "reneg", ccert |-> cc, dev |-> <<1, 2>>,
           conns |-> <<Conn(i, FALSE, <<s0, [Srv(771, su2, r, ca, TRUE) EXCEPT !.cert = c2], s0>>)>>] :
             cc \in IF (ca = 0 \/ r) /\ ~Lean(r) /\ SuiteRec(su).AEAD THEN CCerts(ca) ELSE {},
             c2 \in {s0.cert} \cup (IF ca = 0 THEN {OtherCert(s0.cert)} ELSE {}),
             su2 \in {su} \cup (IF ca = 0 THEN {OtherSuite(o, su)} \ {0} ELSE {})}
    : ca \in CAs, r \in Rich} : su \in SuiteChoices(o, OfferTab[i].variant # <<>> \/ OfferTab[i].reneg # "")}
Plans == UNION {PlansOf(i) : i \in Rows}

\* ------------------------------------------------------------ the server's natural messages (what a compliant in-tree server sends)
HasH2(o) == H2 \in o.alpn
NatSH(s, o, hs, resume) ==
  [M0 EXCEPT !.t = 2, !.vers = s.ver, !.suite = s.suite, !.sid = IF resume THEN "echo" ELSE "other", !.ems = o.ems,
             \* a renegotiating server fills in both verify_data (the harness does that with the rewrite "ri correct")
             !.ri = IF o.riExt \/ o.scsv THEN (IF hs = 0 THEN "empty" ELSE "correct") ELSE "absent",
             !.tick = resume \/ (o.ticketExt /\ s.tickets),
             !.ocsp = ~resume /\ o.status /\ s.ocsp,
             !.scts = IF o.sct /\ s.sct THEN SCTS ELSE <<>>,
             !.alpn = IF s.alpn # <<>> /\ HasH2(o) THEN H2 ELSE <<>>]
Msg(t) == [M0 EXCEPT !.t = t]
A(at, m) == [at |-> at, m |-> m]
NatCR(s) == [Msg(13) EXCEPT !.types = {1, 64}, !.hasSig = s.ver = 771,
                            !.sigalgs = IF s.ver = 771 THEN <<2052, 1027, 2055, 2053, 2054, 1025, 1281, 1537, 1283, 1539, 513, 515>> ELSE <<>>]
\* the flight up to ServerHelloDone (full) / up to Finished (resumed)
Flight1(s, o, hs, resume, tk) ==
  LET sh == NatSH(s, o, hs, resume) IN
  IF resume THEN <<A(2, sh), A(4, [Msg(4) EXCEPT !.body = tk]), A(20, [Msg(20) EXCEPT !.ccs = TRUE])>>
  ELSE <<A(2, sh), A(11, [Msg(11) EXCEPT !.certs = <<s.cert>>])>>
       \o (IF sh.ocsp THEN <<A(22, [Msg(22) EXCEPT !.body = STAPLE])>> ELSE <<>>)
       \o (IF IsECDHE(s.suite) THEN <<A(12, Msg(12))>> ELSE <<>>)
       \o (IF s.client_auth > 0 THEN <<A(13, NatCR(s))>> ELSE <<>>)
       \o <<A(14, Msg(14))>>
Flight2(sh, tk) == (IF sh.tick THEN <<A(4, [Msg(4) EXCEPT !.body = tk])>> ELSE <<>>) \o <<A(20, [Msg(20) EXCEPT !.ccs = TRUE])>>

\* ------------------------------------------------------------ deviations
\* an item of an edit: j = what the harness is told (JSON), m = the abstract message the client then sees
It(j, m) == [j |-> j, m |-> m]
Self(n) == It([k |-> "self", rw |-> <<>>], n.m)
Rw(n, rw, m) == It([k |-> "self", rw |-> rw], m)
SynHR(ccs) == It([k |-> "syn", t |-> 0], [Msg(0) EXCEPT !.ccs = ccs])
SynFin(ccs) == It([k |-> "syn", t |-> 20], [Msg(20) EXCEPT !.ok = FALSE, !.ccs = ccs])
SynCert(ls) == It([k |-> "syn", t |-> 11, certs |-> ls], [Msg(11) EXCEPT !.certs = ls])
SynStatus == It([k |-> "syn", t |-> 22, body |-> <<1, 2, 3>>], [Msg(22) EXCEPT !.body = <<1, 2, 3>>])
SynSHD == It([k |-> "syn", t |-> 14], Msg(14))
\* a deviation: name, the items that replace the anchor, fatal = a correct client can never complete this handshake after it,
\* breaks = the (honest but hooked) server will not be able to finish this handshake itself, randMut / defer: bookkeeping
D(name, out, fatal, breaks) == [name |-> name, out |-> out, fatal |-> fatal, breaks |-> breaks, randMut |-> FALSE, defer |-> FALSE]
Kind(c) == IF RSALeaf(c) THEN "_rsa" ELSE ""
BadCert(c, what) == IF RSALeaf(c) THEN (CASE what = "wrongname" -> "wrongname_rsa" [] what = "expired" -> "expired_rsa" [] OTHER -> "untrusted_rsa") ELSE what
UnofferedSuite(o) == IF 49327 \notin o.suites THEN 49327 ELSE 4660
\* ctx: o offer, cl client, cfg, s server config, resume (the server resumes), hs handshakes done, first (initial handshake)
DevSH(n, c) ==
  LET m == n.m IN
  {D("sh-suite-unoffered", <<Rw(n, <<[f |-> "suite", v |-> UnofferedSuite(c.o)]>>, [m EXCEPT !.suite = UnofferedSuite(c.o)])>>, TRUE, TRUE),
   D("sh-compression", <<Rw(n, <<[f |-> "comp", v |-> 1]>>, [m EXCEPT !.comp = 1])>>, TRUE, TRUE),
   D("sh-alpn-unoffered", <<Rw(n, <<[f |-> "ext_set", t |-> 16, b |-> <<0, 3, 2, 122, 122>>]>>, [m EXCEPT !.alpn = <<122, 122>>])>>, TRUE, TRUE),
   D("sh-duplicate", <<Self(n), Self(n)>>, TRUE, TRUE),
   D("sh-hello-request-before", <<SynHR(FALSE), Self(n)>>, TRUE, TRUE),
   D("sh-hello-request-after", <<Self(n), SynHR(FALSE)>>, TRUE, TRUE),
   \* next_protocol_negotiation: the client implements no NPN, the extension is ignored and no NextProtocol message follows
   D("sh-npn-unsolicited", <<Rw(n, <<[f |-> "ext_set", t |-> 13172, b |-> <<2, 104, 50>>]>>, m)>>, FALSE, FALSE),
   D("sh-sct-unsolicited", <<Rw(n, <<[f |-> "ext_set", t |-> 18, b |-> <<0, 5, 0, 3, 1, 2, 3>>]>>, [m EXCEPT !.scts = <<<<1, 2, 3>>>>])>>, FALSE, FALSE)}
  \cup (IF m.ems THEN {D("sh-ems-removed", <<Rw(n, <<[f |-> "ext_del", t |-> 23]>>, [m EXCEPT !.ems = FALSE])>>, c.resume, TRUE)}
        ELSE {D("sh-ems-unsolicited", <<Rw(n, <<[f |-> "ext_set", t |-> 23, b |-> <<>>]>>, [m EXCEPT !.ems = TRUE])>>, c.resume, TRUE)})
  \cup (IF m.tick THEN {D("sh-ticket-ext-removed", <<Rw(n, <<[f |-> "ext_del", t |-> 35]>>, [m EXCEPT !.tick = FALSE])>>, TRUE, FALSE)}
        ELSE {D("sh-ticket-ext-added", <<Rw(n, <<[f |-> "ext_set", t |-> 35, b |-> <<>>]>>, [m EXCEPT !.tick = TRUE])>>, TRUE, FALSE)})
  \cup (IF m.ocsp THEN {D("sh-status-ext-removed", <<Rw(n, <<[f |-> "ext_del", t |-> 5]>>, [m EXCEPT !.ocsp = FALSE])>>, TRUE, TRUE)} ELSE {})
  \* renegotiation_info: initial handshake
  \cup (IF c.hs = 0 /\ m.ri = "empty" THEN
          {D("sh-ri-nonempty", <<Rw(n, <<[f |-> "ext_set", t |-> 65281, b |-> <<1, 7>>]>>, [m EXCEPT !.ri = "other"])>>, TRUE, TRUE),
           D("sh-ri-removed", <<Rw(n, <<[f |-> "ext_del", t |-> 65281]>>, [m EXCEPT !.ri = "absent"])>>, FALSE, FALSE)} ELSE {})
  \* renegotiation_info: renegotiation (the baseline already rewrites it to the right value)
  \cup (IF c.hs > 0 /\ m.ri = "correct" THEN
          {D("reneg-ri-" \o v, <<Rw(n, <<[f |-> "ri", s |-> v]>>, [m EXCEPT !.ri = IF v = "empty" THEN "empty" ELSE IF v = "absent" THEN "absent" ELSE "other"])>>, c.cl.secureReneg, TRUE)
             : v \in {"wrong", "empty", "absent", "swapped", "client_only"}} ELSE {})
  \* the version: a downgrade sentinel, TLS 1.3 in a renegotiation
  \cup (IF 772 \in c.o.versions THEN {[D("sh-downgrade-sentinel", <<Rw(n, <<[f |-> "canary", v |-> 12]>>, [m EXCEPT !.canary = 12])>>, TRUE, TRUE) EXCEPT !.randMut = TRUE]}
        ELSE {[D("sh-random-changed", <<Rw(n, <<[f |-> "canary", v |-> 12]>>, [m EXCEPT !.canary = 12])>>, IsECDHE(m.suite) \/ c.resume, TRUE) EXCEPT !.randMut = TRUE]})
  \cup (IF c.hs > 0 /\ 772 \in c.o.versions THEN
          {D("reneg-tls13", <<Rw(n, <<[f |-> "ri", s |-> "correct"], [f |-> "ext_set", t |-> 43, b |-> <<3, 4>>]>>, [m EXCEPT !.vers = 772, !.sv = TRUE])>>, TRUE, TRUE)} ELSE {})
  \* resumption with something else than the session
  \cup (IF c.resume THEN
          {D("res-sid-not-echoed", <<Rw(n, <<[f |-> "sid", s |-> "flip"]>>, [m EXCEPT !.sid = "other"])>>, TRUE, TRUE)}
          \cup (IF OtherSuite(c.o, m.suite) # 0 THEN {D("res-other-suite", <<Rw(n, <<[f |-> "suite", v |-> OtherSuite(c.o, m.suite)]>>, [m EXCEPT !.suite = OtherSuite(c.o, m.suite)])>>, TRUE, TRUE)} ELSE {})
          \cup (LET V == (c.o.versions \cap (769..771)) \ {m.vers} IN
                IF V # {} THEN {D("res-other-version", <<Rw(n, <<[f |-> "vers", v |-> MinOf(V)]>>, [m EXCEPT !.vers = MinOf(V)])>>, TRUE, TRUE)} ELSE {})
        ELSE {})
DevCert(n, c) ==
  LET own == n.m.certs[1] IN
  {D("cert-dropped", <<>>, TRUE, TRUE),
   D("cert-empty", <<SynCert(<<>>)>>, TRUE, TRUE),
   D("cert-duplicate", <<Self(n), Self(n)>>, TRUE, TRUE),
   D("cert-hello-request-after", <<Self(n), SynHR(FALSE)>>, TRUE, TRUE),
   \* another valid certificate: the key exchange is not signed by / encrypted to it
   D("cert-other-valid", <<SynCert(<<OtherCert(own)>>)>>, IsECDHE(c.s.suite) \/ c.hs > 0, TRUE)}
  \cup {D("cert-" \o w, <<SynCert(<<BadCert(own, w)>>)>>, ~c.cfg.insecure \/ c.hs > 0 \/ IsECDHE(c.s.suite), TRUE) : w \in {"wrongname", "expired", "untrusted"}}
  \cup (IF ~c.sh.ocsp THEN {D("status-unsolicited", <<Self(n), SynStatus>>, TRUE, TRUE)} ELSE {})
DevStatus(n, c) == {D("status-dropped", <<>>, FALSE, FALSE), D("status-duplicate", <<Self(n), Self(n)>>, TRUE, TRUE)}
DevSKE(n, c) ==
  {D("ske-dropped", <<>>, TRUE, TRUE),
   D("ske-signature-flipped", <<Rw(n, <<[f |-> "flip"]>>, [n.m EXCEPT !.ok = FALSE])>>, TRUE, TRUE),
   D("ske-duplicate", <<Self(n), Self(n)>>, TRUE, TRUE),
   [D("ske-after-hello-done", <<>>, TRUE, TRUE) EXCEPT !.defer = TRUE]}
DevCR(n, c) ==
  {D("cr-dropped", <<>>, FALSE, TRUE),
   D("cr-duplicate", <<Self(n), Self(n)>>, TRUE, TRUE),
   D("cr-types-none", <<Rw(n, <<[f |-> "types", l |-> <<>>]>>, [n.m EXCEPT !.bad = TRUE])>>, TRUE, TRUE)}
  \cup {D("cr-types-" \o ToString(ts[1]), <<Rw(n, <<[f |-> "types", l |-> ts]>>, [n.m EXCEPT !.types = Range(ts)])>>, FALSE, FALSE) : ts \in {<<1>>, <<64>>, <<3, 4>>}}
  \cup (IF n.m.hasSig THEN
          {D("cr-sigalgs-" \o ToString(Len(sa)) \o "-" \o ToString(IF sa = <<>> THEN 0 ELSE sa[1]), <<Rw(n, <<[f |-> "sigalgs", l |-> sa]>>, [n.m EXCEPT !.sigalgs = sa])>>, FALSE, FALSE)
             : sa \in {<<2055>>, <<>>, <<513, 515>>, <<1025>>}} ELSE {})
DevSHD(n, c) ==
  {D("shd-dropped", <<>>, TRUE, TRUE),
   D("shd-finished-after", <<Self(n), SynFin(FALSE)>>, TRUE, TRUE),
   D("shd-hello-request-before", <<SynHR(FALSE), Self(n)>>, TRUE, TRUE)}
DevNST(n, c) ==
  {D("nst-dropped", <<>>, TRUE, FALSE),
   D("nst-duplicate", <<Self(n), Self(n)>>, TRUE, FALSE),
   D("nst-finished-instead", <<SynFin(FALSE)>>, TRUE, FALSE),
   D("nst-other-ticket", <<Rw(n, <<[f |-> "ticket", b |-> <<9, 9, 9>>]>>, [n.m EXCEPT !.body = <<9, 9, 9>>])>>, FALSE, FALSE)}
DevFin(n, c) ==
  {D("fin-wrong-verify-data", <<Rw(n, <<[f |-> "flip"]>>, [n.m EXCEPT !.ok = FALSE])>>, TRUE, c.resume),
   D("fin-hello-request-before", <<SynHR(TRUE), Self(n)>>, TRUE, c.resume)}
DevHR(n, c) ==
  {D("hreq-certificate-instead", <<SynCert(<<"A">>)>>, TRUE, TRUE),
   D("hreq-hello-done-instead", <<SynSHD>>, TRUE, TRUE)}
Devs(n, c) ==
  CASE n.at = 2 -> DevSH(n, c) [] n.at = 11 -> DevCert(n, c) [] n.at = 22 -> DevStatus(n, c) [] n.at = 12 -> DevSKE(n, c)
    [] n.at = 13 -> DevCR(n, c) [] n.at = 14 -> DevSHD(n, c) [] n.at = 4 -> DevNST(n, c) [] n.at = 20 -> DevFin(n, c)
    [] n.at = 0 -> DevHR(n, c) [] OTHER -> {}
\* the undisturbed anchor (a renegotiation's ServerHello gets its renegotiation_info filled in)
AsIs(n, c) ==
  IF n.at = 2 /\ c.hs > 0 /\ n.m.ri = "correct" THEN D("-", <<Rw(n, <<[f |-> "ri", s |-> "correct"]>>, n.m)>>, FALSE, FALSE)
  ELSE D("-", <<Self(n)>>, FALSE, FALSE)

\* ------------------------------------------------------------ the walk
VARIABLES plan, k, h, phase, fl, q, cl, cfg, cache, start, budget, edits, hss, conns, carry, broken, randMut, fatal, devs, clean
vars == <<plan, k, h, phase, fl, q, cl, cfg, cache, start, budget, edits, hss, conns, carry, broken, randMut, fatal, devs, clean>>

CurConn == plan.conns[k]
CurSrv == CurConn.hs[h]
CfgOf(c) == [policy |-> OfferTab[c.oi].policy, ccert |-> plan.ccert, insecure |-> c.insecure]
DevHere == plan.dev = <<k, h>>

Init == /\ plan \in Plans
        /\ k = 1 /\ h = 1 /\ phase = "hello" /\ fl = 0 /\ q = <<>> /\ cl = Fresh
        /\ cfg = CfgOf(plan.conns[1]) /\ cache = NoSess /\ start = NoSess /\ budget = K /\ edits = <<>> /\ hss = <<>> /\ conns = <<>>
        /\ carry = <<>> /\ broken = FALSE /\ randMut = FALSE /\ fatal = FALSE /\ devs = {} /\ clean = TRUE

\* the in-tree server resumes what its ticket says if the hello still fits (handshake_server.go checkForResumption)
ServerResumes(sess, s, o) == sess.present /\ sess.vers = s.ver /\ sess.suite = s.suite /\ sess.ems = o.ems /\ s.tickets /\ Len(sess.ticket) = 2
Ticket == <<k, h>>

\* ---- the client sends its hello (initial: the cached session if it may be offered; renegotiation: the same session again,
\*      as coded in u_handshake_client.go:455-457 - upstream offers none)
Hello ==
  /\ phase = "hello"
  /\ \E sess \in (IF cl.hs > 0 THEN {IF cl.offered THEN cl.sess ELSE NoSess}
                  ELSE IF MustOffer(start, Offs[CurConn.oi], cfg.insecure) THEN {start}
                  ELSE IF MayOffer(start, Offs[CurConn.oi], cfg.insecure) THEN {start, NoSess} ELSE {NoSess}) :
     LET o0 == Offs[CurConn.oi]
         o == [o0 EXCEPT !.ticket = sess.ticket, !.riBody = IF cl.hs > 0 THEN <<1>> ELSE <<>>]
         resume == ServerResumes(sess, CurSrv, o) IN
     /\ cl' = ClientHello(cl, o, sess)
     /\ q' = Flight1(CurSrv, o, cl.hs, resume, Ticket)
     /\ fl' = IF resume THEN 3 ELSE 1
  /\ phase' = "flight" /\ carry' = <<>> /\ broken' = FALSE /\ randMut' = FALSE /\ fatal' = FALSE
  /\ UNCHANGED <<plan, k, h, cfg, cache, start, budget, edits, hss, conns, devs, clean>>

RECURSIVE DeliverAll(_,_,_)
DeliverAll(c, f, ms) == IF ms = <<>> THEN c ELSE DeliverAll(Deliver(c, f, Head(ms)), f, Tail(ms))
Ctx == [o |-> cl.o, cl |-> cl, cfg |-> cfg, s |-> CurSrv, resume |-> fl = 3, hs |-> cl.hs, sh |-> cl.sh]

\* what happens when a flight of the server is over
\* the (honest, hooked) server goes on to its second flight only if the client's flight fits what it sent itself
ServerGoesOn(c) == /\ c.pc \in {"WaitNST", "WaitCCS"} /\ ~broken
                   /\ (CurSrv.client_auth > 0) = (c.certReq.t = 13)
                   /\ (CurSrv.client_auth >= 2 => c.chain # <<>>)

\* one natural message of the server: as it is, or deviated
Anchor ==
  /\ phase = "flight" /\ q # <<>>
  /\ LET n == Head(q) IN
     \E d \in {AsIs(n, Ctx)} \cup (IF DevHere /\ budget > 0 /\ carry = <<>> THEN Devs(n, Ctx) ELSE {}) :
        LET out == IF carry # <<>> /\ n.at = 14 THEN <<Self(n), It([k |-> "nat", t |-> 12, rw |-> <<>>], carry[1].m)>> ELSE d.out
            ms0 == [i \in DOMAIN out |-> out[i].m]
            \* a ServerKeyExchange over a changed server random, or under a certificate that is not the server's, does not verify
            \* (nor does a Finished protected by keys derived from another server random than the client saw)
            ms == [i \in DOMAIN ms0 |-> IF (ms0[i].t = 12 /\ (randMut \/ (cl.pend # <<>> /\ cl.pend[1] # CurSrv.cert))) \/ (ms0[i].t = 20 /\ randMut)
                                        THEN [ms0[i] EXCEPT !.ok = FALSE] ELSE ms0[i]]
            c1 == DeliverAll(cl, cfg, ms)
            isDev == d.name # "-" \/ (carry # <<>> /\ n.at = 14) IN
        /\ cl' = c1
        /\ edits' = IF out = <<Self(n)>> THEN edits
                    ELSE Append(edits, [at |-> n.at, out |-> [i \in DOMAIN out |-> out[i].j]])
        /\ budget' = IF d.name # "-" THEN budget - 1 ELSE budget
        /\ devs' = IF d.name # "-" THEN devs \cup {d.name} ELSE devs
        /\ clean' = (clean /\ d.name = "-")
        /\ carry' = IF d.defer THEN <<n>> ELSE IF n.at = 14 THEN <<>> ELSE carry
        /\ broken' = (broken \/ d.breaks)
        /\ randMut' = (randMut \/ d.randMut)
        /\ fatal' = (fatal \/ d.fatal)
        /\ IF Len(q) > 1 THEN /\ q' = Tail(q) /\ UNCHANGED <<phase, fl>>
           ELSE IF fl = 1 /\ ServerGoesOn(c1) /\ ~d.breaks THEN /\ q' = Flight2(NatSH(CurSrv, cl.o, 0, FALSE), Ticket) /\ fl' = 2 /\ UNCHANGED phase   \* (the server's own idea of its ServerHello)
           ELSE /\ q' = <<>> /\ phase' = "hsend" /\ UNCHANGED fl
  /\ UNCHANGED <<plan, k, h, cfg, cache, start, hss, conns>>

\* ---- a handshake is over (completed, aborted, or the client waits for more until its deadline)
HsRec == [srv |-> CurSrv, edits |-> edits, noreq |-> FALSE]
CacheNext == IF cl.pc = "Done" THEN CacheAfter(cache, cl) ELSE IF Evicts(cl) THEN NoSess ELSE cache
EndHs ==
  /\ phase = "hsend"
  /\ cache' = CacheNext
  /\ hss' = IF fl = 0 THEN hss ELSE Append(hss, HsRec)
  \* (what was done to the HelloRequest belongs to the handshake it starts)
  /\ edits' = IF fl = 0 THEN edits ELSE <<>>
  /\ IF cl.pc = "Done" /\ h < Len(CurConn.hs) /\ fl # 0
     \* the server asks for a renegotiation
     THEN /\ q' = <<A(0, Msg(0))>> /\ fl' = 0 /\ phase' = "flight" /\ h' = h + 1
          /\ UNCHANGED <<plan, k, cl, cfg, start, budget, conns, carry, broken, randMut, fatal, devs, clean>>
     ELSE IF cl.pc = "Start" /\ fl = 0
     \* the client accepted the HelloRequest: its next hello follows
     THEN /\ phase' = "hello" /\ UNCHANGED <<plan, k, h, fl, q, cl, cfg, start, budget, conns, carry, broken, randMut, fatal, devs, clean>>
     ELSE /\ phase' = "connend" /\ UNCHANGED <<plan, k, h, fl, q, cl, cfg, start, budget, conns, carry, broken, randMut, fatal, devs, clean>>

\* the edits of a HelloRequest anchor belong to the renegotiation handshake that follows (or would have followed)
EndConn ==
  /\ phase = "connend"
  /\ LET hs2 == IF edits # <<>> \/ (fl = 0 /\ Len(hss) < h) THEN Append(hss, HsRec) ELSE hss
         rec == [id |-> OfferTab[CurConn.oi].id, variant |-> OfferTab[CurConn.oi].variant, reneg |-> OfferTab[CurConn.oi].reneg,
                 oi |-> CurConn.oi, insecure |-> CurConn.insecure, hs |-> hs2] IN
     /\ conns' = Append(conns, rec)
  /\ IF k < Len(plan.conns)
     THEN /\ k' = k + 1 /\ h' = 1 /\ phase' = "hello" /\ cl' = Fresh /\ cfg' = CfgOf(plan.conns[k + 1]) /\ start' = cache
          /\ hss' = <<>> /\ edits' = <<>> /\ fl' = 0 /\ q' = <<>>
          /\ UNCHANGED <<plan, cache, budget, carry, broken, randMut, fatal, devs, clean>>
     ELSE /\ phase' = "end" /\ UNCHANGED <<plan, k, h, fl, q, cl, cfg, cache, start, budget, edits, hss, carry, broken, randMut, fatal, devs, clean>>

Terminal == phase = "end"
Next == Hello \/ Anchor \/ EndHs \/ EndConn \/ (Terminal /\ UNCHANGED vars)

\* ------------------------------------------------------------ properties
\* C12 / C13 / C14 / C19 / Finished order restated on the client state (module TLS12, not through Deliver)
InvOffered == OfferedOnly(cl)
InvIdentity == VerifiedIdentity(cl, cfg)
InvResumed == ResumedAsOffered(cl)
InvFinished == FinishedOrder(cl)
\* a handshake in which the server did something no client may accept never completes
\* (fatal is set by the catalogue, Done by Deliver: two independent statements of the rules)
\* (stated for a single deviation: two deviations can cancel, e.g. ticket extension removed and ticket dropped)
InvFatal == ~(fatal /\ K - budget = 1 /\ cl.pc = "Done" /\ phase = "hsend")
\* an undisturbed scenario never makes the client abort; it ends established or with a refused / exhausted renegotiation
SameCertThroughout == \A i \in DOMAIN CurConn.hs : CurConn.hs[i].cert = CurConn.hs[1].cert
InvCompliant == (clean /\ phase = "hsend" /\ plan.shape # "insecure" /\ plan.ccert # "cb_err" /\ SameCertThroughout) => (cl.pc \in {"Done", "Refused", "Start"} \/ (cl.pc \in {"WaitNST", "WaitCCS"} /\ ~ServerGoesOn(cl)))
\* renegotiation never changes the identity the connection reports
InvIdentityStable == (cl.pc = "Done" /\ cl.hs > 1 /\ ~cl.resumed) => cl.leaf = plan.conns[k].hs[1].cert
\* no session is ever resumed by a verifying client if it was stored without verification
InvNoInsecureResume == (cl.pc = "Done" /\ cl.resumed /\ ~cfg.insecure) => cl.verified

\* ------------------------------------------------------------ scenarios for the real code
Emit == Terminal => PrintT(<<"SCN", ToJson([ccert |-> plan.ccert, cache |-> TRUE, shape |-> plan.shape, devs |-> devs, conns |-> conns,
                                              final |-> cl.pc, why |-> cl.must])>>)
=============================================================================
