---------------------------- MODULE Session ----------------------------
(***************************************************************************)
(* Session resumption of a uTLS client (properties C19, C20).              *)
(*                                                                         *)
(* Part 1  mechanism: the sessionController exactly as coded               *)
(*         (u_session_controller.go), uLoadSession / uApplyPatch /         *)
(*         buildHandshakeState (u_conn.go:108-201), syncSessionExts via    *)
(*         ApplyPreset (u_parrots.go:2766-2943), the public session API    *)
(*         (u_conn.go:207-252) and the part of the handshake that consumes *)
(*         the prepared session (u_handshake_client.go:383-560,            *)
(*         handshake_client_tls13.go:357-395).  Deviations of the code     *)
(*         from its property are the boolean fields of a `fix` record:     *)
(*         FALSE = as coded, TRUE = repaired.                              *)
(* Part 2  Legal(hist): what the documentation allows, forbids, leaves     *)
(*         open, and the outcome each class must have (C20).               *)
(* Part 3  the cache / history model of C19.                               *)
(* Part 4  judgement of one recorded connection (used by Session_Trace).   *)
(* Go code never evaluates any of this.                                    *)
(***************************************************************************)
EXTENDS Parrots

\* ---------------------------------------------------------------- byte-string helpers
StartsWith(s, p) == Len(s) >= Len(p) /\ SubSeq(s, 1, Len(p)) = p
Contains(s, p) == \E i \in 1..(Len(s) - Len(p) + 1) : SubSeq(s, i, i + Len(p) - 1) = p
B_tls     == <<116,108,115,58,32>>                         \* "tls: "
B_failed  == <<32,102,97,105,108,101,100,58>>              \* " failed:"
B_noext   == <<115,101,115,115,105,111,110,32,114,101,115,117,109,112,116,105,111,110,32,105,115,32,101,110,97,98,108,101,100>>  \* "session resumption is enabled"
\* a documented assertion panic of the session machinery: "tls: <caller> failed: <why>"
DocPanicMsg(m) == StartsWith(m, B_tls) /\ Contains(m, B_failed)
\* the documented exception for a missing session extension (Config.PreferSkipResumptionOnNilExtension)
NilExtPanicMsg(m) == DocPanicMsg(m) /\ Contains(m, B_noext)

\* ---------------------------------------------------------------- spec descriptors (scenario format = harness input)
\* sd = [base, custom, drop, skipnil, omitpsk]
SdHas(sd, kind) == HasExt(Specs[sd.base], kind) /\ kind \notin Range(sd.drop)
SdT(sd)   == SdHas(sd, "SessionTicketExtension")
SdP(sd)   == SdHas(sd, "UtlsPreSharedKeyExtension") \/ SdHas(sd, "FakePreSharedKeyExtension")
SdEMS(sd) == SdHas(sd, "ExtendedMasterSecretExtension")
SdModes(sd) == SdHas(sd, "PSKKeyExchangeModesExtension")
SdMax(sd) == LET sp == Specs[sd.base] IN
             IF SdHas(sd, "SupportedVersionsExtension") /\ sp.min = 0 /\ sp.max = 0 THEN SetMax(SVList(sp)) ELSE EffMax(sp)
SdSuites(sd) == Suites(Specs[sd.base])
\* UClient: skipResumptionOnNilExtension = PreferSkipResumptionOnNilExtension \/ id is not HelloCustom
SdSkip(sd) == sd.skipnil \/ ~sd.custom
NegVers(sd, srv) == IF SdMax(sd) < srv.max THEN SdMax(sd) ELSE srv.max

\* ================================================================ Part 1: mechanism
\* controller states (u_session_controller.go:21-25) and loadSession tracker (13-16)
NoSession == 0  TktInit == 1  TktAllSet == 2  PskInit == 3  PskAllSet == 4
NeverCalled == 0  AboutToCall == 1  ByULoad == 2  ByGoTLS == 3

AsCoded  == [d17 |-> FALSE, d18 |-> FALSE, d22 |-> FALSE, d9 |-> FALSE, d13 |-> FALSE]
Repaired == [d17 |-> TRUE,  d18 |-> TRUE,  d22 |-> TRUE,  d9 |-> TRUE,  d13 |-> TRUE]

\* Extension objects: "sT"/"sP" are the objects of the ClientHelloSpec (shared by every re-application of
\* the preset), "uT"/"uP" the objects handed to the setters.  obj[o] = [init, sess, fake].
\* Sessions: "none", "A" (what the ClientSessionCache holds), "B" (injected), "F" (fake identity).
NoObj == [init |-> FALSE, sess |-> "none", fake |-> FALSE]

\* env = [specT, specP, custom, skip, omit, cacheVers (0 = the cache is empty | 12 | 13)]
NewUConn(env, cfgcache) ==
  [ cache |-> cfgcache, preset |-> 0, keysOK |-> FALSE, st |-> NoSession, locked |-> FALSE, tracker |-> NeverCalled,
    built |-> FALSE, raw |-> FALSE, handshakes |-> 0,
    tkt |-> "nil", psk |-> "nil",           \* sessionController.sessionTicketExt / pskExtension
    lstT |-> "none", lstP |-> "none",       \* the session extensions inside uconn.Extensions
    obj |-> [o \in {"sT","sP","uT","uP"} |-> NoObj],
    hsSess |-> "none", helloTkt |-> "none", helloPsk |-> "none",   \* HandshakeState.Session, Hello.SessionTicket, Hello.PskIdentities
    wireTkt |-> "none", wirePsk |-> "none", tail |-> "ok" ]        \* what the marshaled hello carries

Ok(u)        == [u |-> u, res |-> "ok",    why |-> ""]
Err(u, w)    == [u |-> u, res |-> "err",   why |-> w]
\* documented assertion ("tls: ... failed:"); "nilpanic" is the one the configuration asks for: a session exists, the spec
\* has no extension for it and PreferSkipResumptionOnNilExtension is off (u_session_controller.go:126-130)
Panic(u, w)  == [u |-> u, res |-> IF w = "nilext" THEN "nilpanic" ELSE "panic", why |-> w]
RtPanic(u,w) == [u |-> u, res |-> "rtpanic", why |-> w]   \* runtime error
Then(r, F(_)) == IF r.res = "ok" THEN F(r.u) ELSE r

\* ---- SetSessionCache (u_conn.go:249)
DoSetCache(u) == Ok([u EXCEPT !.cache = TRUE])

\* ---- overrideExtension (u_session_controller.go:231) behind SetSessionTicketExtension / SetPskExtension (u_conn.go:225-246)
\* which = "T" | "P";  arg = "nil" | "uninit" | "init" | "real" | "fake"
DoSetter(u, which, arg, fix) ==
  IF ~u.cache THEN Err(u, "disabled")
  ELSE IF arg = "nil" THEN Ok(u)
  ELSE IF u.locked THEN Panic(u, "locked")
  ELSE IF u.st # NoSession THEN Panic(u, "state")
  \* repaired (d22): once a preset is applied the setter itself knows whether the spec has the extension
  ELSE IF fix.d22 /\ u.preset > 0 /\ (IF which = "T" THEN u.lstT ELSE u.lstP) = "none" THEN (IF arg = "uninit" THEN Ok(u) ELSE Err(u, "noext"))
  ELSE LET o == IF which = "T" THEN "uT" ELSE "uP"
           isInit == arg # "uninit"
           nobj == [init |-> isInit, sess |-> IF arg = "fake" THEN "F" ELSE IF isInit THEN "B" ELSE "none", fake |-> arg = "fake"]
           u1 == [u EXCEPT !.obj[o] = nobj,
                           !.tkt = IF which = "T" THEN "uT" ELSE @,
                           !.psk = IF which = "P" THEN "uP" ELSE @,
                           !.st = IF isInit THEN (IF which = "T" THEN TktInit ELSE PskInit) ELSE @]
           \* repaired (d22): the provided object also replaces the one already inside uconn.Extensions
           u2 == IF fix.d22 THEN [u1 EXCEPT !.lstT = IF which = "T" /\ @ # "none" THEN "uT" ELSE @,
                                            !.lstP = IF which = "P" /\ @ # "none" THEN "uP" ELSE @]
                 ELSE u1
       IN Ok(u2)

\* ---- syncSessionExts at the end of ApplyPreset (u_session_controller.go:265-316, u_parrots.go:2937)
SyncExts(u, env) ==
  IF u.built THEN Panic(u, "built")
  ELSE IF u.locked THEN Panic(u, "locked")
  ELSE IF u.st \notin {NoSession, TktInit, PskInit} THEN Panic(u, "state")
  ELSE
  LET u1 == IF env.specT THEN [u EXCEPT !.tkt = IF @ = "nil" THEN "sT" ELSE @, !.lstT = IF u.tkt = "nil" THEN "sT" ELSE u.tkt]
            ELSE u
  IN IF ~env.specT /\ u.st = TktInit THEN Err([u1 EXCEPT !.lstT = "none", !.lstP = IF env.specP THEN (IF u.psk = "nil" THEN "sP" ELSE u.psk) ELSE "none"], "noticketext")
     ELSE
     LET u2 == IF env.specT THEN u1 ELSE [u1 EXCEPT !.tkt = "nil", !.lstT = "none", !.hsSess = "none", !.helloTkt = "none"]
         u3 == IF env.specP THEN [u2 EXCEPT !.psk = IF @ = "nil" THEN "sP" ELSE @, !.lstP = IF u2.psk = "nil" THEN "sP" ELSE u2.psk]
               ELSE u2
     IN IF ~env.specP /\ u3.st = PskInit THEN Err([u3 EXCEPT !.lstP = "none"], "nopskext")
        ELSE Ok(IF env.specP THEN u3 ELSE [u3 EXCEPT !.psk = "nil", !.lstP = "none", !.hsSess = "none", !.helloPsk = "none"])

\* ---- ApplyPreset: a fresh hello, key shares generated only for shares that have no data yet: the
\* extension objects of a cached spec keep their data, the private keys are replaced by an empty struct (D17)
DoPreset(u, env, fix) ==
  LET u1 == [u EXCEPT !.preset = IF @ < 2 THEN @ + 1 ELSE @,
                      !.keysOK = (u.preset = 0) \/ (fix.d17 /\ u.keysOK),
                      !.helloTkt = "none", !.helloPsk = "none", !.raw = FALSE]
  IN SyncExts(u1, env)

\* ---- conn.loadSession as called by uLoadSession (handshake_client.go:396-557): only the part the controller sees
LoadFromCache(u, env) ==
  IF u.locked THEN Panic(u, "loadlocked")
  ELSE IF u.tracker \in {ByULoad, ByGoTLS} THEN Panic(u, "loadtwice")
  ELSE Ok([u EXCEPT !.tracker = IF @ = AboutToCall THEN ByULoad ELSE ByGoTLS])

\* ---- uLoadSession (u_conn.go:165-192)
SetTicketToUConn(u, fix) ==
  IF u.tkt = "nil" \/ u.st # TktInit THEN Panic(u, "setticket-invalid-state")
  ELSE Ok([u EXCEPT !.hsSess = u.obj[u.tkt].sess, !.helloTkt = u.obj[u.tkt].sess, !.st = TktAllSet])
SetPskToUConn(u) ==
  IF u.psk = "nil" \/ u.st \notin {PskInit, PskAllSet} THEN Panic(u, "setpsk-invalid-state")
  ELSE Ok([u EXCEPT !.hsSess = IF u.st = PskInit THEN (IF u.obj[u.psk].fake THEN "none" ELSE u.obj[u.psk].sess) ELSE @,
                    !.helloPsk = IF u.st = PskInit THEN u.obj[u.psk].sess ELSE @, !.st = PskAllSet])

ULoadSession(u, env, fix) ==
  IF ~u.cache THEN Ok(u)
  ELSE IF (u.tkt = "nil" /\ u.psk = "nil") \/ u.built THEN Ok(u)
  ELSE IF u.st = TktInit THEN SetTicketToUConn(u, fix)
  ELSE IF u.st = PskInit THEN SetPskToUConn(u)
  ELSE IF u.st # NoSession \/ u.locked THEN Panic(u, "abouttoload")
  ELSE Then(LoadFromCache([u EXCEPT !.tracker = AboutToCall], env), LAMBDA v :
         IF env.cacheVers = 0 THEN Ok(v)
         ELSE IF env.cacheVers = 12 THEN
              \* initSessionTicketExt + setSessionTicketToUConn
              IF v.tkt = "nil" THEN (IF ~env.skip THEN Panic(v, "nilext")
                                     ELSE IF fix.d18 THEN Ok(v) ELSE SetTicketToUConn(v, fix))
              ELSE IF v.obj[v.tkt].init THEN Panic(v, "already-initialized")
              ELSE SetTicketToUConn([v EXCEPT !.obj[v.tkt] = [init |-> TRUE, sess |-> "A", fake |-> FALSE], !.st = TktInit], fix)
         ELSE \* initPskExt
              IF v.psk = "nil" THEN (IF ~env.skip THEN Panic(v, "nilext") ELSE Ok(v))
              ELSE IF v.obj[v.psk].init THEN Panic(v, "already-initialized")
              ELSE Ok([v EXCEPT !.obj[v.psk] = [init |-> TRUE, sess |-> "A", fake |-> FALSE], !.st = PskInit]))

\* ---- MarshalClientHello (u_conn.go:568-676): the wire form comes from uconn.Extensions, not from the controller
Marshal(u, env) ==
  IF u.lstP # "none" /\ ~u.obj[u.lstP].init /\ ~env.omit THEN Err(u, "emptypsk")
  ELSE Ok([u EXCEPT !.raw = TRUE, !.tail = "ok",
                    !.wireTkt = IF u.lstT = "none" THEN "none" ELSE u.obj[u.lstT].sess,
                    !.wirePsk = IF u.lstP = "none" \/ ~u.obj[u.lstP].init THEN "none" ELSE u.obj[u.lstP].sess])

\* ---- uApplyPatch (u_conn.go:194-201): PatchBuiltHello writes the binders over the last bytes of Hello.Raw;
\* if the controller's PSK object is not the one that was marshaled, those bytes belong to something else
ApplyPatch(u) ==
  IF u.psk # "nil" /\ u.st \in {PskInit, PskAllSet} THEN
       Then(SetPskToUConn(u), LAMBDA v :
            Ok(IF v.obj[v.psk].fake \/ v.lstP = v.psk THEN v ELSE [v EXCEPT !.tail = "clobbered"]))
  ELSE Ok(u)

FinalCheck(u) == IF u.st \notin {PskAllSet, TktAllSet, NoSession} THEN Panic(u, "finalcheck")
                 ELSE Ok([u EXCEPT !.locked = TRUE, !.built = TRUE])

\* ---- buildHandshakeState(loadSession) (u_conn.go:108-163); HelloCustom never re-applies a preset by itself
DoBuild(u, env, load, fix) ==
  LET afterPreset == IF ~u.built /\ ~env.custom THEN DoPreset(u, env, fix) ELSE Ok(u) IN
  Then(afterPreset, LAMBDA u1 :
    IF env.custom /\ u1.preset = 0 THEN Err(u1, "nopreset")     \* an empty hello: nothing this model describes
    ELSE Then(IF load THEN ULoadSession(u1, env, fix) ELSE Ok(u1), LAMBDA u2 :
           Then(Marshal(u2, env), LAMBDA u3 :
             IF load THEN Then(ApplyPatch(u3), FinalCheck) ELSE Ok(u3))))

\* ---- Handshake (u_conn.go:300-424 + clientHandshake): build, then run with the prepared session.
\* srv = [max, hrr, canA, canB]: canX = the server can turn session X's ticket into a state
SessVers(s, env) == CASE s = "A" -> env.cacheVers [] s = "B" -> env.injVers [] OTHER -> 0
DoHandshake(u, env, srv, fix) ==
  IF u.handshakes > 0 THEN Ok(u)
  ELSE Then(DoBuild(u, env, TRUE, fix), LAMBDA v :
    LET neg13 == srv.max = 772 /\ env.max = 772
        canRead(s) == (s = "A" /\ srv.canA) \/ (s = "B" /\ srv.canB)
        pskOnWire == v.wirePsk # "none"
        resumed == IF neg13 THEN v.wirePsk = v.hsSess /\ v.hsSess \in {"A","B"} /\ SessVers(v.hsSess, env) = 13 /\ canRead(v.hsSess)
                   ELSE v.wireTkt = v.hsSess /\ v.hsSess \in {"A","B"} /\ SessVers(v.hsSess, env) = 12 /\ canRead(v.hsSess) /\ srv.max >= 771
        done == [v EXCEPT !.handshakes = 1]
    IN IF v.tail = "clobbered" THEN Err(v, "garbled-hello")
       ELSE IF neg13 /\ ~v.keysOK THEN Err(v, "no-keyshare-keys")
       ELSE IF neg13 /\ v.helloPsk # "none" /\ ~pskOnWire THEN Err(v, "psk-not-sent")
       ELSE IF neg13 /\ srv.hrr /\ v.helloPsk # "none" THEN
               \* as coded: a PSK in the hello stops at the HelloRetryRequest (D9); identities without a session
               \* (FakePreSharedKeyExtension) dereference the nil session first
               (IF fix.d9 THEN Ok(done) ELSE IF v.hsSess = "none" THEN RtPanic(v, "hrr-fake-psk-nil-session") ELSE Err(v, "hrr-psk"))
       ELSE Ok(done))
Resumed(u, env, srv) ==
  LET neg13 == srv.max = 772 /\ env.max = 772
      canRead(s) == (s = "A" /\ srv.canA) \/ (s = "B" /\ srv.canB)
  IN u.handshakes = 1 /\
     IF neg13 THEN u.wirePsk = u.hsSess /\ u.hsSess \in {"A","B"} /\ SessVers(u.hsSess, env) = 13 /\ canRead(u.hsSess)
     ELSE u.wireTkt = u.hsSess /\ u.hsSess \in {"A","B"} /\ SessVers(u.hsSess, env) = 12 /\ canRead(u.hsSess)

\* one public call.  op = [op, arg, ...]
Call(u, op, env, srv, fix) ==
  CASE op.op = "SetCache"    -> DoSetCache(u)
    [] op.op = "Preset"      -> DoPreset(u, env, fix)
    [] op.op = "BuildNoSess" -> DoBuild(u, env, FALSE, fix)
    [] op.op = "Build"       -> DoBuild(u, env, TRUE, fix)
    [] op.op = "SetTicket"   -> DoSetter(u, "T", op.arg, fix)
    [] op.op = "SetPsk"      -> DoSetter(u, "P", op.arg, fix)
    [] op.op = "Handshake"   -> DoHandshake(u, env, srv, fix)

\* run a whole call sequence; a panic ends it (the UConn is in no defined state afterwards)
RECURSIVE RunFrom(_,_,_,_,_,_)
RunFrom(u, ops, i, env, srv, fix) ==
  IF i > Len(ops) THEN [u |-> u, res |-> <<>>]
  ELSE LET r == Call(u, ops[i], env, srv, fix) IN
       IF r.res \in {"panic", "rtpanic", "nilpanic"} THEN [u |-> r.u, res |-> <<r.res>>]
       ELSE LET rest == RunFrom(r.u, ops, i + 1, env, srv, fix) IN [u |-> rest.u, res |-> <<r.res>> \o rest.res]
Run(ops, env, srv, cfgcache, fix) == RunFrom(NewUConn(env, cfgcache), ops, 1, env, srv, fix)

\* controller invariant of the mechanism (checked by TLC over every reachable state of Session_MC)
ControllerInv(u) ==
  /\ u.locked => u.st \in {NoSession, TktAllSet, PskAllSet}
  /\ u.built => u.locked
  /\ u.st \in {TktInit, TktAllSet} => u.tkt # "nil"
  /\ u.st \in {PskInit, PskAllSet} => u.psk # "nil"
  /\ u.st = TktAllSet => u.hsSess = u.obj[u.tkt].sess
  /\ u.tracker = AboutToCall => FALSE     \* transient: never visible between public calls


\* ================================================================ Part 2: what the documentation says (C20)
\* Sources: doc comments of BuildHandshakeState ("session ticket and psk extensions ... cannot be changed after
\* calling BuildHandshakeState"), BuildHandshakeStateWithoutSession ("inspect the ClientHello before setting the
\* session manually through SetSessionTicketExtension or SetPSKExtension"), the setters ("no-op if nil",
\* "session is disabled"), SetSessionCache, ApplyPreset ("only ... in conjunction with HelloCustom"),
\* Config.PreferSkipResumptionOnNilExtension ("For TLS 1.2, SessionTicketExtension is non-nil ...").
DocInit(env, cfgcache) == [cacheSet |-> cfgcache, built |-> FALSE, anyBuild |-> FALSE, preset |-> ~env.custom, inject |-> 0, hs |-> FALSE]
IsSetter(op) == op.op \in {"SetTicket", "SetPsk"}
NeedsExt(op, env) == (op.op = "SetTicket" /\ op.arg = "init" /\ ~env.specT) \/ (op.op = "SetPsk" /\ op.arg \in {"real","fake"} /\ ~env.specP)
OpClass(d, op, env) ==
  CASE op.op = "SetCache" -> IF d.built THEN "unspec" ELSE "legal"
    [] op.op = "Preset" -> IF env.custom /\ ~d.preset /\ ~d.anyBuild THEN "legal" ELSE "unspec"
    [] op.op = "BuildNoSess" -> IF d.preset /\ ~d.built THEN "legal" ELSE "unspec"
    [] op.op \in {"Build", "Handshake"} -> IF d.preset /\ ~d.hs THEN "legal" ELSE "unspec"
    [] IsSetter(op) /\ op.arg = "nil" -> IF d.cacheSet THEN "legal" ELSE "unspec"
    [] IsSetter(op) -> IF ~d.cacheSet \/ d.built \/ NeedsExt(op, env) THEN "forbidden"
                       ELSE IF d.inject >= 1 THEN "unspec" ELSE "legal"
DocStep(d, op) ==
  [d EXCEPT !.cacheSet = @ \/ op.op = "SetCache",
            !.built = @ \/ op.op \in {"Build", "Handshake"},
            !.anyBuild = @ \/ op.op \in {"Build", "BuildNoSess", "Handshake"},
            !.preset = @ \/ op.op = "Preset",
            !.inject = IF IsSetter(op) /\ op.arg # "nil" /\ @ < 2 THEN @ + 1 ELSE @,
            !.hs = @ \/ op.op = "Handshake"]
RECURSIVE DocAt(_,_,_,_)
DocAt(ops, i, env, cfgcache) == IF i = 0 THEN DocInit(env, cfgcache) ELSE DocStep(DocAt(ops, i-1, env, cfgcache), ops[i])
ClassAt(ops, i, env, cfgcache) == OpClass(DocAt(ops, i-1, env, cfgcache), ops[i], env)
FirstBad(ops, env, cfgcache) ==
  LET bad == {i \in DOMAIN ops : ClassAt(ops, i, env, cfgcache) # "legal"} IN
  IF bad = {} THEN 0 ELSE CHOOSE i \in bad : \A j \in bad : i <= j
\* "legal" | "forbidden" | "unspec"
Legal(ops, env, cfgcache) == FirstBad(ops, env, cfgcache) = 0
SeqClass(ops, env, cfgcache) == LET i == FirstBad(ops, env, cfgcache) IN IF i = 0 THEN "legal" ELSE ClassAt(ops, i, env, cfgcache)
\* the injection a legal sequence performs
InjectionAt(ops) == LET S == {i \in DOMAIN ops : IsSetter(ops[i]) /\ ops[i].arg \in {"init", "real", "fake"}} IN
                    IF S = {} THEN 0 ELSE CHOOSE i \in S : \A j \in S : i <= j
Injection(ops) == LET S == {i \in DOMAIN ops : IsSetter(ops[i]) /\ ops[i].arg \in {"init", "real", "fake"}} IN
                  IF S = {} THEN "none" ELSE ops[CHOOSE i \in S : \A j \in S : i <= j].arg
HasHandshake(ops) == \E i \in DOMAIN ops : ops[i].op = "Handshake"
CacheSetAtBuild(ops, env, cfgcache) ==
  \E i \in DOMAIN ops : ops[i].op \in {"Build", "Handshake"} /\ DocAt(ops, i-1, env, cfgcache).cacheSet
                        /\ \A j \in 1..(i-1) : ops[j].op \notin {"Build", "Handshake"}

\* model-level statement of C20 on the mechanism (checked in Session_MC for fix = Repaired; lists the
\* counterexamples for fix = AsCoded): res = predicted results of Run
MechLegalOK(ops, env, srv, cfgcache, fix) ==
  LET r == Run(ops, env, srv, cfgcache, fix)
      inj == Injection(ops)
      neg13 == srv.max = 772 /\ env.max = 772 IN
  /\ \/ Len(r.res) = Len(ops) /\ \A i \in DOMAIN r.res : r.res[i] = "ok"
     \/ ~env.skip /\ r.res[Len(r.res)] = "nilpanic" /\ \A i \in 1..(Len(r.res)-1) : r.res[i] = "ok"
  /\ (HasHandshake(ops) /\ Len(r.res) = Len(ops) /\ r.res[Len(r.res)] = "ok") =>
       /\ inj = "init" => r.u.wireTkt = "B" /\ (~neg13 /\ srv.canB => Resumed(r.u, env, srv))
       /\ inj = "real" => r.u.wirePsk = "B" /\ (neg13 /\ srv.canB => Resumed(r.u, env, srv))
       /\ inj = "fake" => r.u.wirePsk = "F"
       /\ (inj = "none" /\ CacheSetAtBuild(ops, env, cfgcache) /\ srv.canA /\
           ((neg13 /\ env.cacheVers = 13 /\ env.specP) \/ (~neg13 /\ env.cacheVers = 12 /\ env.specT))) => Resumed(r.u, env, srv)
MechForbiddenOK(ops, env, srv, cfgcache, fix) ==
  LET r == Run(ops, env, srv, cfgcache, fix)
      i == FirstBad(ops, env, cfgcache) IN
  /\ \A j \in DOMAIN r.res : r.res[j] # "rtpanic"
  /\ \E j \in DOMAIN r.res : (j >= i /\ r.res[j] \in {"err", "panic"}) \/ r.res[j] = "nilpanic"
MechUnspecOK(ops, env, srv, cfgcache, fix) ==
  LET r == Run(ops, env, srv, cfgcache, fix) IN \A j \in DOMAIN r.res : r.res[j] # "rtpanic"
MechOK(ops, env, srv, cfgcache, fix) ==
  LET c == SeqClass(ops, env, cfgcache) IN
  CASE c = "legal" -> MechLegalOK(ops, env, srv, cfgcache, fix)
    [] c = "forbidden" -> MechForbiddenOK(ops, env, srv, cfgcache, fix)
    [] OTHER -> MechUnspecOK(ops, env, srv, cfgcache, fix)

\* ================================================================ Part 3: cache / history model (C19)
\* A connection of a history: cd = [spec, name, srv = [max, hrr, keys, store], clock (days), feat]
\* feat = [T, P, ems, modes, max, skip, omit]: what the parrot's spec contains (computed from Specs by Session_MC).
Feat(sd) == [T |-> SdT(sd), P |-> SdP(sd), ems |-> SdEMS(sd), modes |-> SdModes(sd), max |-> SdMax(sd), skip |-> SdSkip(sd), omit |-> sd.omitpsk]
Lifetime == 7     \* days: maxSessionTicketLifetime, enforced by the client for TLS 1.3 (useBy) and by the server for both
NoEntry == [present |-> FALSE, vers |-> 0, ems |-> FALSE, name |-> "", clock |-> 0, keys |-> 0, store |-> FALSE]
Neg(cd) == IF cd.feat.max < cd.srv.max THEN cd.feat.max ELSE cd.srv.max
\* client side: loadSession + uLoadSession (handshake_client.go:396-557, u_conn.go:165-192)
C19Offer(e, cd, fix) ==
  LET f == cd.feat
      usable == /\ e.present
                /\ (e.vers = 13 => f.max = 772 /\ cd.clock < e.clock + Lifetime)
                /\ (e.vers = 12 /\ fix.d13) => (e.ems => f.ems)     \* repaired: an EMS session needs an EMS hello
  IN IF ~usable THEN (IF f.P /\ ~f.omit THEN "emptypsk" ELSE "none")
     ELSE IF e.vers = 12 THEN (IF f.T THEN "tkt" ELSE IF ~f.skip THEN "docpanic" ELSE IF fix.d18 THEN (IF f.P /\ ~f.omit THEN "emptypsk" ELSE "none") ELSE "apanic")
     ELSE (IF f.P THEN "psk" ELSE IF ~f.skip THEN "docpanic" ELSE "none")
ServerReads(e, cd) == e.keys = cd.srv.keys /\ e.store = cd.srv.store /\ cd.clock <= e.clock + Lifetime
C19Outcome(e, cd, fix) ==
  LET o == C19Offer(e, cd, fix) IN
  IF o \in {"emptypsk", "docpanic", "apanic"} THEN o
  ELSE IF Neg(cd) = 772 THEN
       (IF o = "psk" THEN (IF cd.srv.hrr /\ ~fix.d9 THEN "cerr" ELSE IF ServerReads(e, cd) THEN "resumed" ELSE "full") ELSE "full")
  ELSE (IF o = "tkt" /\ ServerReads(e, cd) THEN (IF e.ems /\ ~cd.feat.ems THEN "sabort" ELSE IF ~e.ems /\ cd.feat.ems THEN "full" ELSE "resumed")
        ELSE "full")
C19Cache(cache, cd, fix) ==
  LET e == cache[cd.name]  out == C19Outcome(e, cd, fix)  off == C19Offer(e, cd, fix)
      expired == e.present /\ e.vers = 13 /\ cd.feat.max = 772 /\ cd.clock >= e.clock + Lifetime
      issued == IF Neg(cd) = 772 THEN cd.feat.modes ELSE cd.feat.T
      fresh == [present |-> TRUE, vers |-> IF Neg(cd) = 772 THEN 13 ELSE 12, ems |-> Neg(cd) = 771 /\ cd.feat.ems, name |-> cd.name,
                clock |-> IF out = "resumed" /\ Neg(cd) = 771 THEN e.clock ELSE cd.clock, keys |-> cd.srv.keys, store |-> cd.srv.store]
  IN CASE out \in {"full", "resumed"} -> [cache EXCEPT ![cd.name] = IF issued THEN fresh ELSE IF expired THEN NoEntry ELSE e]
       [] out \in {"cerr", "sabort"} -> [cache EXCEPT ![cd.name] = NoEntry]
       [] OTHER -> [cache EXCEPT ![cd.name] = IF expired THEN NoEntry ELSE e]
SameConn(a, b) == a.spec = b.spec /\ a.name = b.name /\ a.srv = b.srv /\ a.clock = b.clock
NeedExt(cd) == IF Neg(cd) = 772 THEN cd.feat.P ELSE cd.feat.T
\* the statement of C19 on the model: outs[i] = predicted outcome of connection i, offs[i] = what it offered, pre[i] = entry it found
C19Required(hist, outs, i) == i > 1 /\ SameConn(hist[i], hist[i-1]) /\ outs[i-1] \in {"full", "resumed"} /\ NeedExt(hist[i])
C19ModelOK(hist, outs, offs, pre) ==
  \A i \in DOMAIN hist :
    /\ C19Required(hist, outs, i) => outs[i] = "resumed"
    /\ outs[i] \notin {"cerr", "sabort", "apanic"}
    /\ (offs[i] = "tkt" /\ pre[i].ems) => hist[i].feat.ems
    /\ offs[i] \in {"tkt", "psk"} => pre[i].name = hist[i].name

\* ================================================================ Part 4: judgement of recorded connections
OpRes(o) == IF o.res = "panic" THEN (IF o.rterr THEN "rtpanic" ELSE IF NilExtPanicMsg(o.msg) THEN "nilpanic" ELSE IF DocPanicMsg(o.msg) THEN "panic" ELSE "otherpanic") ELSE o.res
ObsRes(ev) == [i \in DOMAIN ev.ops |-> OpRes(ev.ops[i])]
WTicket(h) == IF HasExtT(h, 35) THEN ExtBody(h, 35) ELSE <<>>
PskForm(h) == h.exts[Len(h.exts)].type = 41 /\ ValidBody(41, ExtBody(h, 41))
PskFirstId(b) == SubSeq(b, 5, 4 + RdU16(b, 3))
PskFirstBinder(b) == LET e == 2 + RdU16(b, 1) IN SubSeq(b, e + 4, e + 3 + b[e + 3])
WPskId(h) == IF HasExtT(h, 41) /\ PskForm(h) THEN PskFirstId(ExtBody(h, 41)) ELSE <<>>
HelloOK(raw) == LET h == ParseHello(raw) IN h.ok /\ (\A i \in DOMAIN h.exts : ~h.exts[i].bad) /\ (HasExtT(h, 41) => PskForm(h))
Universal(ev) ==
  IF ev.prep.res # "ok" THEN "prep-failed"
  ELSE IF \E i \in DOMAIN ev.ops : OpRes(ev.ops[i]) = "rtpanic" THEN "runtime-panic"
  ELSE IF ev.c_timeout THEN "hang"
  ELSE IF \E i \in DOMAIN ev.hellos : ~HelloOK(ev.hellos[i]) THEN "malformed-hello"
  ELSE "ok"

\* ---- C20: cd = target connection descriptor, env = its model environment
\* The documented prefix of every sequence (all calls before the first forbidden / unspecified one; the whole
\* sequence if it is legal) must behave as a legal sequence: no call fails, and if it contains the Handshake the
\* session is on the wire as given and resumes.
C20Prefix(cd, env, ev) ==
  LET all == cd.ops  fb == FirstBad(all, env, cd.cfgcache)
      n == IF fb = 0 THEN Len(all) ELSE fb - 1
      ops == SubSeq(all, 1, n)
      r == ObsRes(ev)  inj == Injection(ops)
      given == IF inj = "none" THEN [set |-> FALSE, ticket |-> <<>>, pskid |-> <<>>, binder |-> <<>>] ELSE ev.ops[InjectionAt(ops)].given
      neg13 == cd.srv.max = 772 /\ env.max = 772
      bad == {i \in 1..n : r[i] # "ok"}
      asked == {i \in 1..n : r[i] = "nilpanic" /\ ~env.skip} IN
  IF bad # {} /\ bad = asked THEN "ok"      \* the documented exception for a missing extension ends the sequence
  ELSE IF bad # {} THEN LET i == CHOOSE i \in bad : \A j \in bad : i <= j IN
                   (IF r[i] = "rtpanic" THEN "runtime-panic" ELSE IF r[i] \in {"panic", "otherpanic", "nilpanic"} THEN "legal-call-panicked" ELSE IF ops[i].op = "Handshake" THEN "legal-handshake-failed" ELSE "legal-call-failed")
  ELSE IF ~HasHandshake(ops) THEN "ok"
  ELSE IF ~ev.hs_ok \/ ~ev.s_ok \/ Len(ev.hellos) = 0 THEN "legal-handshake-failed"
  ELSE LET h == ParseHello(ev.hellos[1]) IN
       IF inj = "init" /\ WTicket(h) # given.ticket THEN "ticket-not-as-given"
  ELSE IF inj \in {"real", "fake"} /\ WPskId(h) # given.pskid THEN "psk-not-as-given"
  ELSE IF inj = "fake" /\ PskFirstBinder(ExtBody(h, 41)) # given.binder THEN "psk-binder-not-as-given"
  ELSE IF ((inj = "init" /\ ~neg13) \/ (inj = "real" /\ neg13)) /\ ~(ev.c_resumed /\ ev.s_resumed) THEN "injected-not-resumed"
  ELSE IF inj = "none" /\ CacheSetAtBuild(ops, env, cd.cfgcache) /\ ev.before.present
          /\ ((neg13 /\ ev.before.vers = 772 /\ env.specP) \/ (~neg13 /\ ev.before.vers = 771 /\ env.specT))
          /\ ~(ev.c_resumed /\ ev.s_resumed) THEN "cached-not-resumed"
  ELSE "ok"
\* a forbidden call (or a later one) fails with an error or a documented panic
C20Forbidden(cd, env, ev) ==
  LET r == ObsRes(ev)  i == FirstBad(cd.ops, env, cd.cfgcache) IN
  IF \E j \in DOMAIN r : r[j] = "otherpanic" THEN "undocumented-panic"
  ELSE IF \E j \in DOMAIN r : (j >= i /\ r[j] \in {"err", "panic"}) \/ r[j] = "nilpanic" THEN "ok"
  ELSE "forbidden-accepted"
C20Why(cd, env, ev) ==
  LET u == Universal(ev)  c == SeqClass(cd.ops, env, cd.cfgcache)  p == C20Prefix(cd, env, ev) IN
  IF ev.prep.res # "ok" THEN "prep-failed"
  ELSE IF p # "ok" THEN p
  ELSE IF u # "ok" THEN u
  ELSE IF c = "forbidden" THEN C20Forbidden(cd, env, ev) ELSE "ok"
\* a seeding connection only has to work
SeedWhy(ev) == LET u == Universal(ev) IN IF u # "ok" THEN u ELSE IF ev.hs_ok /\ ev.s_ok /\ ev.after.present THEN "ok" ELSE "seed-failed"

\* ---- C11 on every connection of a history: after a successful handshake both ConnectionStates tell the same story
AgreeWhy(ev) ==
  IF ~(ev.hs_ok /\ ev.s_ok) THEN "ok"
  ELSE IF ev.c_vers # ev.s_vers THEN "cs-disagree-version"
  ELSE IF ev.c_suite # ev.s_suite THEN "cs-disagree-suite"
  ELSE IF ev.c_alpn # ev.s_alpn THEN "cs-disagree-alpn"
  ELSE IF ev.c_resumed # ev.s_resumed THEN "cs-disagree-didresume"
  ELSE IF ev.c_sni # ev.s_sni THEN "cs-disagree-servername"
  ELSE "ok"
\* ---- C18 across the connections of a history: ha, hb = first hellos of two different connections
ShareData(h) == IF HasExtT(h, 51) /\ IsVec16(ExtBody(h, 51)) /\ SharesOK(ExtBody(h, 51), 3)
                THEN {x.data : x \in {y \in Range(ParseShares(ExtBody(h, 51), 3)) : y.n > 1}} ELSE {}
FreshWhy(ha, hb) ==
  IF ~ha.ok \/ ~hb.ok THEN "ok"
  ELSE IF ha.sid # <<>> /\ ha.sid = hb.sid THEN "session-id-repeats"
  ELSE IF ha.random = hb.random THEN "client-random-repeats"
  ELSE IF ShareData(ha) \cap ShareData(hb) # {} THEN "key-share-repeats"
  ELSE "ok"
\* a connection that is built / given its session next to others: its calls work, it completes, both sides agree
ParWhy(ev) ==
  LET u == Universal(ev)  r == ObsRes(ev)  a == AgreeWhy(ev) IN
  IF u # "ok" THEN u
  ELSE IF \E i \in DOMAIN r : r[i] # "ok" THEN "side-by-side-call-failed"
  ELSE IF ~(ev.hs_ok /\ ev.s_ok) THEN "side-by-side-handshake-failed"
  ELSE a

\* ---- C19: cd = this connection, pcd/pev = the previous connection of the history (k > 1), cacheM = name -> what
\* the previous connections left in the ClientSessionCache (bound to the recorded `after`), ev = the observation
HashLen(suite) == IF suite \in {4866, 49196, 49200, 157, 159, 49188, 49192} THEN 48 ELSE 32     \* SHA-384 suites
\* one wire hello of the connection (h = ParseHello(raw), h1psk = length of the first hello's PSK extension or 0)
C19HelloWhy(h, h1psk, cd, pre, cacheM) ==
  LET offT == WTicket(h)
      offered == IF offT # <<>> THEN offT ELSE WPskId(h) IN
  IF offered # <<>> /\ ~(pre.present /\ offered = pre.ticket) THEN
       (IF \E n \in DOMAIN cacheM : n # cd.name /\ cacheM[n].present /\ offered = cacheM[n].ticket THEN "offered-across-names" ELSE "offered-foreign-session")
  ELSE IF offT # <<>> /\ pre.ems /\ ~HasExtT(h, 23) THEN "ems-session-without-ems"
  ELSE IF HasExtT(h, 41) /\ Len(PskFirstBinder(ExtBody(h, 41))) # HashLen(pre.suite) THEN "binder-size"
  ELSE IF h1psk # 0 /\ HasExtT(h, 41) /\ Len(ExtBody(h, 41)) # h1psk THEN "binder-patch-length"
  ELSE "ok"
C19Why(cd, k, pcd, pev, cacheM, ev) ==
  LET u == Universal(ev)
      pre == cacheM[cd.name]
      h1 == ParseHello(ev.hellos[1])
      h2 == ParseHello(ev.hellos[2])
      w1 == IF Len(ev.hellos) >= 1 THEN C19HelloWhy(h1, 0, cd, pre, cacheM) ELSE "ok"
      w2 == IF Len(ev.hellos) >= 2 THEN C19HelloWhy(h2, IF HasExtT(h1, 41) THEN Len(ExtBody(h1, 41)) ELSE 0, cd, pre, cacheM) ELSE "ok"
      r == ObsRes(ev)
      nilext == \E i \in DOMAIN ev.ops : ev.ops[i].res = "panic" /\ NilExtPanicMsg(ev.ops[i].msg)
  IN
  IF u # "ok" THEN u
  ELSE IF ev.before.present # pre.present \/ (pre.present /\ ev.before.ticket # pre.ticket) THEN "cache-model-mismatch"
  ELSE IF w1 # "ok" THEN w1
  ELSE IF w2 # "ok" THEN w2
  ELSE IF \E i \in DOMAIN r : r[i] = "otherpanic" THEN "undocumented-panic"
  ELSE IF nilext /\ cd.spec.custom /\ ~cd.spec.skipnil THEN "ok"           \* the documented exception, asked for by the configuration
  ELSE IF \E i \in DOMAIN r : r[i] \in {"panic", "nilpanic"} THEN "assertion-panic"
  \* ctl_ok: the same connection works with an empty cache, i.e. parrot, configuration and server are compatible
  ELSE IF ev.ctl_ok /\ ~(ev.hs_ok /\ ev.s_ok) THEN (IF ev.hs_ok THEN "server-aborted" ELSE "handshake-broken-by-cache")
  ELSE IF k > 1 /\ ev.ctl_ok /\ SameConn(cd, pcd) /\ pev.hs_ok /\ pev.s_ok /\ NeedExt(cd) /\ ~(ev.hs_ok /\ ev.c_resumed /\ ev.s_resumed) THEN "not-resumed"
  ELSE AgreeWhy(ev)
=============================================================================
