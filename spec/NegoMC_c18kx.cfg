CONSTANT Mode = "c18kx"
INIT Init
NEXT Next
CONSTRAINT Emit
INVARIANT Offered
INVARIANT CompliantCompletes
INVARIANT DeviationDetected
INVARIANT HRRCompletes
INVARIANT KxRule
CHECK_DEADLOCK FALSE
