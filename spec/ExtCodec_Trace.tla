---------------------------- MODULE ExtCodec_Trace ----------------------------
(* Trace validation for C08: one step per logged harness run of one descriptor (event "Ext").  The
   descriptor is looked up in the scenario file TLC itself produced (extcodec_scn.json, index sc);
   ExtCodec!Judge names everything the reference codec does not explain.  A rejected event is collected
   in rej and the batch is always read to its end; cov collects the judgement branches that were taken
   (the runner's vacuity check). *)
EXTENDS ExtCodec
Scn == JsonDeserialize("extcodec_scn.json")
Trace == ndJsonDeserialize("extcodec_trace.ndjson")
VARIABLES l, rej, cov
Init == l = 1 /\ rej = {} /\ cov = {}
Verdict(i) == Judge(Scn[Trace[i].sc].d, Trace[i])
Next == /\ l <= Len(Trace)
        /\ \E r \in {Verdict(l)} :
             /\ l' = l + 1
             /\ rej' = IF r.bad = {} THEN rej ELSE rej \cup {l}
             /\ cov' = cov \cup r.tags
Report == (l = Len(Trace) + 1) =>
            /\ PrintT(<<"DONE", l - 1>>)
            /\ PrintT(<<"COV", ToJson(cov)>>)
            /\ \A i \in rej : PrintT(<<"REJ", ToJson([ev |-> i, sc |-> Trace[i].sc, kind |-> Trace[i].kind, why |-> Verdict(i).bad])>>)
=============================================================================
